/-
  BV.Proofs.Codabar — lemmas for C08 (Codabar): acceptance (Go's `ReplaceAllString` idiom = anchored match) and
  round trip through `Spec.OneD.codabarDecode`.
-/
import BV.Model.Codabar
import BV.Proofs.OneD
namespace BV.Proofs.Codabar
open BV BV.Model BV.Model.Codabar BV.Spec.OneD BV.Proofs.Ascii BV.Proofs.OneD

/-! ### the anchored pattern on bytes -/

/-- `[A-D]` -/
def isStartStopByte (b : UInt8) : Bool := 65 ≤ b.toNat && b.toNat ≤ 68
/-- `[0-9\-$:/.+]` -/
def isMiddleByte (b : UInt8) : Bool :=
  (48 ≤ b.toNat && b.toNat ≤ 57) || b.toNat == 45 || b.toNat == 36 || b.toNat == 58 || b.toNat == 47 ||
    b.toNat == 46 || b.toNat == 43

/-- the whole byte string matches `^[A-D][0-9\-$:/.+]*[A-D]$` -/
def matchesCodabar : Bytes → Bool
  | [] => false
  | [_] => false
  | a :: rest => isStartStopByte a && isStartStopByte (rest.getLastD 0) && rest.dropLast.all isMiddleByte

theorem matchesCodabar_iff (c : Bytes) : matchesCodabar c = true ↔
    ∃ a mid z, c = a :: (mid ++ [z]) ∧ isStartStopByte a = true ∧ (∀ b ∈ mid, isMiddleByte b = true) ∧
      isStartStopByte z = true := by
  constructor
  · intro h
    match c, h with
    | a :: b :: rest, h =>
      have hne : b :: rest ≠ [] := by simp
      simp only [matchesCodabar, Bool.and_eq_true, List.all_eq_true] at h
      refine ⟨a, (b :: rest).dropLast, (b :: rest).getLast hne, ?_, h.1.1, h.2, ?_⟩
      · rw [List.dropLast_concat_getLast]
      · rw [List.getLastD_eq_getLast?, List.getLast?_eq_some_getLast hne] at h
        exact h.1.2
  · rintro ⟨a, mid, z, rfl, ha, hm, hz⟩
    have : mid ++ [z] ≠ [] := by simp
    match hmz : mid ++ [z], this with
    | b :: rest, _ =>
      simp only [matchesCodabar, Bool.and_eq_true, List.all_eq_true]
      rw [← hmz]
      simp only [List.getLastD_concat, List.dropLast_concat]
      exact ⟨⟨ha, hz⟩, hm⟩

/-! ### `accepted` is the anchored match -/

theorem isStartStop_lt (r : Nat) (h : isStartStop r = true) : r < 128 := by
  simp only [isStartStop, Bool.or_eq_true, beq_iff_eq] at h; omega

theorem isMiddle_lt (r : Nat) (h : isMiddle r = true) : r < 128 := by
  simp only [isMiddle, Bool.or_eq_true, Bool.and_eq_true, decide_eq_true_eq, beq_iff_eq] at h; omega

theorem matchesToEnd_lt (rs : List Nat) (h : matchesToEnd rs = true) : ∀ r ∈ rs, r < 128 := by
  match rs, h with
  | a :: b :: rest, h =>
    simp only [matchesToEnd, Bool.and_eq_true, List.all_eq_true] at h
    intro r hr
    have hne : b :: rest ≠ [] := by simp
    simp only [List.mem_cons] at hr
    rcases hr with hr | hr
    · rw [hr]; exact isStartStop_lt _ h.1.1
    · have hr' : r ∈ b :: rest := by simpa using hr
      rw [← List.dropLast_concat_getLast hne, List.mem_append, List.mem_singleton] at hr'
      rcases hr' with hr' | hr'
      · exact isMiddle_lt _ (h.2 r hr')
      · rw [List.getLastD_eq_getLast?, List.getLast?_eq_some_getLast hne] at h
        rw [hr']; exact isStartStop_lt _ h.1.2

theorem leftmost_ge (rs : List Nat) (k i : Nat) (h : leftmost rs k = some i) : k ≤ i := by
  induction rs generalizing k with
  | nil => simp [leftmost] at h
  | cons r rest ih =>
    simp only [leftmost] at h
    split at h
    · simp at h; omega
    · have := ih _ h; omega

theorem leftmost_zero (rs : List Nat) : leftmost rs 0 = some 0 ↔ matchesToEnd rs = true := by
  cases rs with
  | nil => simp [leftmost, matchesToEnd]
  | cons r rest =>
    simp only [leftmost]
    by_cases hm : matchesToEnd (r :: rest) = true
    · simp [hm]
    · simp only [hm, if_false, Bool.false_eq_true, iff_false]
      intro h
      have := leftmost_ge _ _ _ h
      omega

theorem encodeRune_ne_nil (r : Nat) : encodeRune r ≠ [] := by
  unfold encodeRune
  simp only
  generalize (if (0xD800 ≤ r ∧ r ≤ 0xDFFF) ∨ r > 0x10FFFF then runeError else r) = r'
  repeat' split
  all_goals simp

theorem encodeRunes_eq_nil (rs : List Nat) (h : encodeRunes rs = []) : rs = [] := by
  cases rs with
  | nil => rfl
  | cons r rest =>
    simp only [encodeRunes, List.flatMap_cons, List.append_eq_nil_iff] at h
    exact absurd h.1 (encodeRune_ne_nil r)

/-- the acceptance test of the encoder is the anchored match on the rune list -/
theorem accepted_iff_matchesToEnd (content : Bytes) :
    accepted content = true ↔ matchesToEnd (runeList content) = true := by
  unfold accepted replaceAll
  simp only [Bool.not_eq_true', Bool.or_eq_false_iff, beq_eq_false_iff_ne, ne_eq, bne_eq_false_iff_eq]
  constructor
  · rintro ⟨hne, hrep⟩
    cases hl : leftmost (runeList content) 0 with
    | none => rw [hl] at hrep; exact absurd hrep hne
    | some i =>
      rw [hl] at hrep
      simp only at hrep
      have h1 : encodeRunes ((runeList content).take i) = [] := by
        have := congrArg List.dropLast hrep
        simpa using this
      have h2 := encodeRunes_eq_nil _ h1
      have hi : i = 0 := by
        cases hrl : runeList content with
        | nil => rw [hrl] at hl; simp [leftmost] at hl
        | cons r rest =>
          rw [hrl] at h2
          cases i with
          | zero => rfl
          | succ i => simp at h2
      rw [hi] at hl
      exact (leftmost_zero _).1 hl
  · intro hm
    have hl := (leftmost_zero _).2 hm
    refine ⟨?_, ?_⟩
    · intro hc
      rw [hc] at hm
      revert hm; decide
    · rw [hl]; simp [encodeRunes]

theorem isStartStop_byte (b : UInt8) : isStartStop b.toNat = isStartStopByte b := by
  simp only [isStartStop, isStartStopByte]
  rw [Bool.eq_iff_iff]
  simp only [Bool.or_eq_true, beq_iff_eq, Bool.and_eq_true, decide_eq_true_eq]
  omega

theorem isMiddle_byte (b : UInt8) : isMiddle b.toNat = isMiddleByte b := rfl

theorem matchesToEnd_map (c : Bytes) : matchesToEnd (c.map (·.toNat)) = matchesCodabar c := by
  match c with
  | [] => rfl
  | [_] => rfl
  | a :: b :: rest =>
    simp only [List.map_cons, matchesToEnd, matchesCodabar, isStartStop_byte]
    have h1 : (b.toNat :: rest.map (·.toNat)).getLastD 0 = ((b :: rest).getLastD 0).toNat := by
      show ((b :: rest).map (fun x => x.toNat)).getLastD 0 = _
      rw [List.getLastD_eq_getLast?, List.getLastD_eq_getLast?, List.getLast?_map]
      cases (b :: rest).getLast? <;> rfl
    have h2 : (b.toNat :: rest.map (·.toNat)).dropLast = ((b :: rest).dropLast).map (·.toNat) := by
      show ((b :: rest).map (fun x => x.toNat)).dropLast = _
      rw [List.map_dropLast]
    rw [h1, h2, isStartStop_byte, List.all_map]
    rfl

/-- a byte ≥ 0x80 anywhere makes Go's `range` produce a rune ≥ 128 -/
theorem runeList_nonascii (content : Bytes) (h : ¬ AllAscii content) : ∃ r ∈ runeList content, 128 ≤ r := by
  have h' : ¬ ∀ b ∈ content, (decide (b.toNat < 128)) = true := by simpa [AllAscii] using h
  obtain ⟨pre, b, rest, rfl, hpre, hb⟩ := split_first_bad (fun b => decide (b.toNat < 128)) content h'
  have hpre' : AllAscii pre := fun x hx => by simpa using hpre x hx
  obtain ⟨r, tl, hr, hrunes⟩ := runes_first_nonascii pre rest b hpre' (by simpa using hb)
  refine ⟨r, ?_, hr⟩
  simp [runeList, hrunes]

/-- acceptance = anchored match on the bytes, for EVERY byte string -/
theorem accepted_iff (content : Bytes) : accepted content = true ↔ matchesCodabar content = true := by
  rw [accepted_iff_matchesToEnd]
  by_cases ha : AllAscii content
  · rw [runeList_ascii content ha, matchesToEnd_map]
  · constructor
    · intro h
      obtain ⟨r, hr, hge⟩ := runeList_nonascii content ha
      have := matchesToEnd_lt _ h r hr
      omega
    · intro h
      exfalso; apply ha
      rw [← matchesToEnd_map] at h
      intro b hb
      exact matchesToEnd_lt _ h b.toNat (List.mem_map_of_mem hb)

/-! ### table certificates (by `decide`) -/

/-- element widths of a 7-element key string: '1' = wide = 2 modules -/
def keyW (s : String) : List Nat := s.toList.map (fun ch => if ch == '1' then 2 else 1)

/-- element widths of a character, from the reference table -/
def cbW (r : Nat) : List Nat :=
  match codabarTable.find? (·.1.toNat == r) with
  | some (_, s) => keyW s
  | none => []

def keys : List Nat := codabarTable.map (·.1.toNat)

/-- certificate: the generated table is the reference table drawn with narrow = 1, wide = 2 modules -/
theorem table_eq : Gen.Codabar.v_encodingTable = codabarTable.map (fun p => ((p.1.toNat : Int), drawW (keyW p.2))) := by
  decide

def cbStep (grp : List Nat) : Except String Nat := do
    if grp.getLastD 0 ≠ 1 then throw "inter-character gap is not narrow"
    let key := String.ofList ((grp.take 7).map (fun w => if w = 2 then '1' else '0'))
    match codabarTable.find? (·.2 == key) with
    | some (c, _) => pure c.toNat
    | none => throw "unknown character pattern"

theorem keys_facts : ∀ r ∈ keys,
    mapGet table (r : Int) = some (drawW (cbW r)) ∧ (cbW r).length = 7 ∧ (∀ w ∈ cbW r, 0 < w) ∧
    (cbW r).any (fun w => w ≠ 1 ∧ w ≠ 2) = false ∧ isOk (cbStep (cbW r ++ [1])) r = true := by decide

theorem valid_keys : ∀ r, r < 128 → (isStartStop r || isMiddle r) = true → r ∈ keys := by decide

/-! ### drawing -/

def joinSep {α β} (f : α → List β) (sep : List β) : List α → List β
  | [] => []
  | [a] => f a
  | a :: b :: rest => f a ++ sep ++ joinSep f sep (b :: rest)

/-- element widths of a whole symbol: characters separated by one narrow space -/
def symW (rs : List Nat) : List Nat := joinSep cbW [1] rs

def ValidRune (r : Nat) : Prop := (isStartStop r || isMiddle r) = true

theorem valid_mem (r : Nat) (h : ValidRune r) : r ∈ keys := by
  have hlt : r < 128 := by
    simp only [ValidRune, Bool.or_eq_true] at h
    rcases h with h | h
    · exact isStartStop_lt r h
    · exact isMiddle_lt r h
  exact valid_keys r hlt h

theorem foldl_draw (bs : Bytes) (off : Nat) (hoff : 0 < off) (acc : List Bool) :
    (asciiRunes off bs).foldl (fun acc p =>
      let acc := if p.1 > 0 then acc ++ [false] else acc
      acc ++ (mapGet table p.2).getD []) acc =
    acc ++ (bs.map (fun b => false :: (mapGet table (b.toNat : Int)).getD [])).flatten := by
  induction bs generalizing off acc with
  | nil => simp [asciiRunes]
  | cons b bs ih =>
    have : off > 0 := hoff
    simp only [asciiRunes, List.foldl_cons, this, if_true]
    rw [ih (off + 1) (by omega)]
    simp

theorem joinSep_cons {α β} (f : α → List β) (sep : List β) (a : α) (rest : List α) :
    joinSep f sep (a :: rest) = f a ++ (rest.map (fun b => sep ++ f b)).flatten := by
  induction rest generalizing a with
  | nil => simp [joinSep]
  | cons b rest ih => simp [joinSep, ih]

theorem draw_ascii (content : Bytes) (ha : AllAscii content) :
    draw content = joinSep (fun b : UInt8 => (mapGet table (b.toNat : Int)).getD []) [false] content := by
  unfold draw
  rw [runes_ascii content ha]
  cases content with
  | nil => rfl
  | cons b bs =>
    simp only [asciiRunes, List.foldl_cons]
    rw [foldl_draw bs _ (by omega), joinSep_cons]
    simp

theorem drawW_snoc_space (g : List Nat) (h : g.length % 2 = 1) : drawW (g ++ [1]) = drawW g ++ [false] := by
  have : ¬ g.length % 2 = 0 := by omega
  simp [drawW, barsFrom_append, expand_append, this, barsFrom, expand]

theorem drawW_symW (rs : List Nat) (h : ∀ r ∈ rs, (cbW r).length = 7) :
    drawW (symW rs) = joinSep (fun r => drawW (cbW r)) [false] rs := by
  match rs with
  | [] => rfl
  | [r] => rfl
  | a :: b :: rest =>
    have ha := h a (by simp)
    simp only [symW, joinSep]
    rw [drawW_append _ _ (by simp [ha]), drawW_snoc_space _ (by simp [ha])]
    congr 1
    exact drawW_symW (b :: rest) (fun r hr => h r (by simp [hr]))

theorem joinSep_congr_map {α β γ} (f : α → List γ) (g : β → List γ) (k : α → β) (sep : List γ) (l : List α)
    (h : ∀ a ∈ l, f a = g (k a)) : joinSep f sep l = joinSep g sep (l.map k) := by
  match l with
  | [] => rfl
  | [a] => simpa [joinSep] using h a (by simp)
  | a :: b :: rest =>
    simp only [joinSep, List.map_cons]
    rw [h a (by simp)]
    congr 1
    exact joinSep_congr_map f g k sep (b :: rest) (fun x hx => h x (by simp [hx]))

/-- the drawn modules are the drawing of the element widths of the text -/
theorem draw_valid (content : Bytes) (hv : ∀ b ∈ content, ValidRune b.toNat) :
    draw content = drawW (symW (content.map (·.toNat))) := by
  have ha : AllAscii content := by
    intro b hb
    have := hv b hb
    simp only [ValidRune, Bool.or_eq_true] at this
    rcases this with h | h
    · exact isStartStop_lt _ h
    · exact isMiddle_lt _ h
  rw [draw_ascii content ha, drawW_symW]
  · exact joinSep_congr_map _ _ _ _ _ (fun b hb => by
      rw [(keys_facts _ (valid_mem _ (hv b hb))).1]; rfl)
  · intro r hr
    simp only [List.mem_map] at hr
    obtain ⟨b, hb, rfl⟩ := hr
    exact (keys_facts _ (valid_mem _ (hv b hb))).2.1

/-! ### decoding -/

theorem codabarDecode_eq (bits : List Bool) : codabarDecode bits = (do
  let rs := runLengths bits
  let ws ← match widthsFromBar rs with
    | some ws => pure ws
    | none => throw "does not start with a bar"
  if (ws.length + 1) % 8 ≠ 0 then throw "number of elements is not 8n-1"
  if ws.any (fun w => w ≠ 1 ∧ w ≠ 2) then throw "element is neither narrow nor wide"
  let chars ← (splitEvery 8 (ws ++ [1])).mapM cbStep
  let isSS := fun (c : Nat) => 65 ≤ c ∧ c ≤ 68
  if chars.length < 2 then throw "fewer than two characters"
  if ¬ isSS (chars.headD 0) ∨ ¬ isSS (chars.getLastD 0) then throw "start/stop character is not A-D"
  if ((chars.drop 1).dropLast).any (fun c => isSS c) then throw "start/stop character inside the data"
  pure chars) := rfl

theorem joinSep_forall {α β} (P : β → Prop) (f : α → List β) (sep : List β) (l : List α)
    (hf : ∀ a ∈ l, ∀ x ∈ f a, P x) (hs : ∀ x ∈ sep, P x) : ∀ x ∈ joinSep f sep l, P x := by
  match l with
  | [] => simp [joinSep]
  | [a] => simpa [joinSep] using hf a (by simp)
  | a :: b :: rest =>
    intro x hx
    simp only [joinSep, List.mem_append] at hx
    rcases hx with (hx | hx) | hx
    · exact hf a (by simp) x hx
    · exact hs x hx
    · exact joinSep_forall P f sep (b :: rest) (fun y hy => hf y (by simp [hy])) hs x hx

theorem joinSep_snoc {α β} (f : α → List β) (sep : List β) (l : List α) (h : l ≠ []) :
    joinSep f sep l ++ sep = (l.map (fun a => f a ++ sep)).flatten := by
  match l, h with
  | [a], _ => simp [joinSep]
  | a :: b :: rest, _ =>
    simp only [joinSep, List.map_cons, List.flatten_cons, List.append_assoc]
    rw [joinSep_snoc f sep (b :: rest) (by simp)]
    simp

theorem decode_symW (rs : List Nat) (hv : ∀ r ∈ rs, r ∈ keys) (hm : matchesToEnd rs = true) :
    codabarDecode (drawW (symW rs)) = .ok rs := by
  have hne : rs ≠ [] := by intro h; subst h; simp [matchesToEnd] at hm
  have hpos : ∀ w ∈ symW rs, 0 < w :=
    joinSep_forall (fun w => 0 < w) cbW [1] rs (fun r hr => (keys_facts r (hv r hr)).2.2.1) (by simp)
  have hnw : ∀ w ∈ symW rs, ¬ (w ≠ 1 ∧ w ≠ 2) :=
    joinSep_forall (fun w => ¬ (w ≠ 1 ∧ w ≠ 2)) cbW [1] rs (fun r hr w hw => by
      have := (keys_facts r (hv r hr)).2.2.2.1
      rw [List.any_eq_false] at this
      simpa using this w hw) (by simp)
  have hany : (symW rs).any (fun w => w ≠ 1 ∧ w ≠ 2) = false := by
    rw [List.any_eq_false]; intro w hw; simpa using hnw w hw
  have hsnoc : symW rs ++ [1] = (rs.map (fun r => cbW r ++ [1])).flatten := joinSep_snoc cbW [1] rs hne
  have hlen : ∀ g ∈ rs.map (fun r => cbW r ++ [1]), g.length = 8 := by
    intro g hg
    simp only [List.mem_map] at hg
    obtain ⟨r, hr, rfl⟩ := hg
    simp [(keys_facts r (hv r hr)).2.1]
  have hl8 : ((symW rs).length + 1) % 8 = 0 := by
    have := congrArg List.length hsnoc
    rw [flatten_length_const 8 _ hlen] at this
    simp only [List.length_append, List.length_cons, List.length_nil] at this
    omega
  rw [codabarDecode_eq]
  simp only [widths_drawW _ hpos, hl8, hany, hsnoc, splitEvery_flatten 8 (by omega) _ hlen,
    mapM_map_ok cbStep (fun r => cbW r ++ [1]) id rs (fun r hr => eq_of_isOk _ _ (keys_facts r (hv r hr)).2.2.2.2),
    List.map_id, ne_eq, not_true_eq_false, if_false, Bool.false_eq_true, pure_bind]
  match rs, hm with
  | a :: b :: rest, hm =>
    have hne' : b :: rest ≠ [] := by simp
    simp only [matchesToEnd, Bool.and_eq_true, List.all_eq_true] at hm
    obtain ⟨⟨h1, h2⟩, h3⟩ := hm
    have f1 : ¬ ((a :: b :: rest).length < 2) := by simp
    have f2 : ¬ (¬ (65 ≤ (a :: b :: rest).headD 0 ∧ (a :: b :: rest).headD 0 ≤ 68) ∨
        ¬ (65 ≤ (a :: b :: rest).getLastD 0 ∧ (a :: b :: rest).getLastD 0 ≤ 68)) := by
      have e : (a :: b :: rest).getLastD 0 = (b :: rest).getLastD 0 := by simp [List.getLastD]
      rw [e, List.headD_cons]
      simp only [isStartStop, Bool.or_eq_true, beq_iff_eq] at h1 h2
      omega
    have f3 : (((a :: b :: rest).drop 1).dropLast.any fun c => decide (65 ≤ c ∧ c ≤ 68)) = false := by
      rw [List.any_eq_false]
      intro c hc
      have := h3 c (by simpa using hc)
      simp only [isMiddle, Bool.or_eq_true, Bool.and_eq_true, decide_eq_true_eq, beq_iff_eq] at this
      simp only [decide_eq_true_eq]
      omega
    simp only [bind, Except.bind, f1, f2, f3, if_false, Bool.false_eq_true]
    rfl

/-! ### `EncodeWithColor` -/

theorem matchesToEnd_valid (rs : List Nat) (h : matchesToEnd rs = true) : ∀ r ∈ rs, ValidRune r := by
  match rs, h with
  | a :: b :: rest, h =>
    simp only [matchesToEnd, Bool.and_eq_true, List.all_eq_true] at h
    intro r hr
    have hne : b :: rest ≠ [] := by simp
    simp only [List.mem_cons] at hr
    rcases hr with hr | hr
    · rw [hr]; simp [ValidRune, h.1.1]
    · have hr' : r ∈ b :: rest := by simpa using hr
      rw [← List.dropLast_concat_getLast hne, List.mem_append, List.mem_singleton] at hr'
      rcases hr' with hr' | hr'
      · simp [ValidRune, h.2 r hr']
      · rw [List.getLastD_eq_getLast?, List.getLast?_eq_some_getLast hne] at h
        rw [hr']; simp [ValidRune, show isStartStop ((b :: rest).getLast hne) = true from h.1.2]

theorem kindCodabar : kindStr Gen.Root.c_TypeCodabar = "Codabar" := by decide

theorem encode_accepted (content : Bytes) (s : Scheme) (h : matchesCodabar content = true) :
    encodeWithColor content s =
      .ok (mk1D "Codabar" content (drawW (symW (content.map (·.toNat)))) none s) := by
  have hacc := (accepted_iff content).2 h
  have hv : ∀ b ∈ content, ValidRune b.toNat := by
    rw [← matchesToEnd_map] at h
    intro b hb
    exact matchesToEnd_valid _ h _ (List.mem_map_of_mem hb)
  unfold encodeWithColor
  simp only [hacc, Bool.not_true, Bool.false_eq_true, if_false, kindCodabar, draw_valid content hv]

theorem encode_rejected (content : Bytes) (s : Scheme) (h : ¬ matchesCodabar content = true) :
    encodeWithColor content s = .error .rejected := by
  have hacc : accepted content = false := by
    rw [← Bool.not_eq_true, accepted_iff]; exact h
  unfold encodeWithColor
  simp [hacc]

theorem decode_accepted (content : Bytes) (h : matchesCodabar content = true) :
    codabarDecode (drawW (symW (content.map (·.toNat)))) = .ok (content.map (·.toNat)) := by
  rw [← matchesToEnd_map] at h
  exact decode_symW _ (fun r hr => valid_mem r (matchesToEnd_valid _ h r hr)) h

end BV.Proofs.Codabar
