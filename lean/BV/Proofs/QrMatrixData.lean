/-
  QR matrix layer, part 6: the data modules.
  `written` places bit number k of the codeword stream, XOR the mask condition of result i, at the k-th free module of
  the zig-zag walk (`written_rep`); reading the free modules of the walk back in the same order and releasing the
  mask returns the bits (`readback`); the bits are the codewords, most significant bit first, followed by zero
  remainder bits (`dataBits_eq`).
-/
import BV.Proofs.QrMatrixDrawn
import BV.Proofs.QrMatrixWalk
import BV.Proofs.QrStream
namespace BV.Proofs.QrMatrix
open BV BV.Model BV.Model.Qr BV.Gen.Qr BV.Proofs.QrTables BV.Proofs.QrRender BV.Proofs.QrCoords

/-- bit number `n` of the codeword stream as `render` computes it (`false` beyond the last codeword) -/
def dataBit (data : List Nat) (n : Nat) : Bool :=
  if n < data.toArray.size * 8 then ((data.toArray.getD (n / 8) 0) >>> (7 - (n % 8))) % 2 == 1 else false

/-- one iteration of the data loop of `render` -/
def wstep (data : List Nat) (acc : Array QRCode × Nat) (pos : Nat × Nat) : Array QRCode × Nat :=
  ((List.range 8).foldl (fun (rs : Array QRCode) i =>
      rs.modify i (setMasked pos.1 pos.2 (dataBit data acc.2) i QRCode.set)) acc.1, acc.2 + 1)

/-- `wstep` unfolded on a pair -/
theorem wstep_eq (data : List Nat) (rs : Array QRCode) (n : Nat) (pos : Nat × Nat) :
    wstep data (rs, n) pos = ((List.range 8).foldl (fun (rs : Array QRCode) i =>
      rs.modify i (setMasked pos.1 pos.2 (dataBit data n) i QRCode.set)) rs, n + 1) := rfl

/-- the data loop of `render` as a list fold of `wstep` -/
theorem written_eq (data : List Nat) (st : RenderState) :
    written data st = (iterateModules st.occupied).toList.foldl (wstep data) (st.results, 0) := by
  rw [Array.foldl_toList]
  rfl

/-- the cells the data loop writes into result `i`: the positions in order, bit `n, n+1, …` XOR mask condition -/
def writeCells (bit : Nat → Bool) (i : Nat) : List (Nat × Nat) → Nat → List Cell
  | [], _ => []
  | p :: ps, n => (p.1, p.2, bit n != Spec.Qr.maskCond i p.2 p.1) :: writeCells bit i ps (n + 1)

/-- `setMasked` for an arbitrary mask index: Table 10 for 0..7, no masking otherwise -/
theorem setMasked_any (x y : Nat) (val : Bool) (mask : Nat) {σ} (set : Nat → Nat → Bool → σ → σ) :
    setMasked x y val mask set =
      set x y (if mask < 8 then val != Spec.Qr.maskCond mask y x else val) := by
  by_cases h : mask < 8
  · rw [if_pos h, setMasked_eq x y val mask h]
  · rw [if_neg h]
    obtain ⟨n, rfl⟩ : ∃ n, mask = n + 8 := ⟨mask - 8, by omega⟩
    rfl

/-- `RepR` only looks at the eight pictures inside the symbol -/
theorem RepR_congr {c d rs res res'} (h : RepR c d rs res)
    (e : ∀ i X Y, i < 8 → X < d → Y < d → res i X Y = res' i X Y) : RepR c d rs res' :=
  ⟨h.1, h.2.1, fun i X Y hi hX hY => by rw [h.2.2 i X Y hi hX hY, e i X Y hi hX hY]⟩

/-- the data loop on eight bitmaps showing `res`: afterwards they show `res` with the cells of `writeCells` -/
theorem written_fold (c : Scheme) (d : Nat) (data : List Nat) (ps : List (Nat × Nat))
    (hps : ∀ p ∈ ps, p.1 < d ∧ p.2 < d) (rs : Array QRCode) (res : Nat → Nat → Nat → Bool) (n : Nat)
    (h : RepR c d rs res) :
    RepR c d (ps.foldl (wstep data) (rs, n)).1 (fun i => foldUpd (writeCells (dataBit data) i ps n) (res i)) ∧
    (ps.foldl (wstep data) (rs, n)).2 = n + ps.length := by
  induction ps generalizing rs res n with
  | nil => exact ⟨h, rfl⟩
  | cons p ps ih =>
    rw [List.foldl_cons]
    have hp := hps p List.mem_cons_self
    rw [wstep_eq]
    have h1 : RepR c d ((List.range 8).foldl (fun (rs : Array QRCode) i =>
          rs.modify i (setMasked p.1 p.2 (dataBit data n) i QRCode.set)) rs)
        (fun i => upd (res i) p.1 p.2 (dataBit data n != Spec.Qr.maskCond i p.2 p.1)) := by
      have := RepR_modifyAll c d rs res h p.1 p.2 hp.1 hp.2
        (fun i => setMasked p.1 p.2 (dataBit data n) i QRCode.set)
        (fun i => if i < 8 then dataBit data n != Spec.Qr.maskCond i p.2 p.1 else dataBit data n)
        (fun i q => by rw [setMasked_any])
      apply RepR_congr this
      intro i X Y hi _ _
      simp only [if_pos hi]
    obtain ⟨a, b⟩ := ih (fun q hq => hps q (List.mem_cons_of_mem _ hq)) _ _ (n + 1) h1
    refine ⟨a, ?_⟩
    rw [b, List.length_cons]; omega

/-- the data loop of `render`, started in a state showing the picture `P` of side `17 + 4v`: the eight results
    show `P.res i` with bit k XOR mask condition at the k-th module of the walk that is free in `P` -/
theorem written_rep (c : Scheme) (v : Nat) (hv : 1 ≤ v) (data : List Nat) (st : RenderState) (P : Pix)
    (h : Rep c (17 + 4 * v) st P) :
    RepR c (17 + 4 * v) (written data st).1 (fun i =>
      foldUpd (writeCells (dataBit data) i ((walk (17 + 4 * v)).filter (fun p => !P.occ p.1 p.2)) 0) (P.res i)) := by
  rw [written_eq, iterateModules_eq st.occupied v hv h.1.1]
  have hf : (walk (17 + 4 * v)).filter (fun p => !st.occupied.get p.1 p.2) =
      (walk (17 + 4 * v)).filter (fun p => !P.occ p.1 p.2) := by
    apply List.filter_congr
    intro p hp
    have := walk_range v hv p hp
    rw [h.2.1 p.1 p.2 this.1 this.2]
  rw [hf]
  apply (written_fold c _ data _ _ _ _ 0 h.2.2).1
  intro p hp
  exact walk_range v hv p (List.mem_filter.mp hp).1

/-! ### reading back -/

theorem writeCells_coords (bit : Nat → Bool) (i : Nat) (ps : List (Nat × Nat)) (n : Nat) (c : Cell)
    (h : c ∈ writeCells bit i ps n) : (c.1, c.2.1) ∈ ps := by
  induction ps generalizing n with
  | nil => cases h
  | cons p ps ih =>
    unfold writeCells at h
    rcases List.mem_cons.mp h with rfl | h'
    · exact List.mem_cons_self
    · exact List.mem_cons_of_mem _ (ih _ h')

/-- write, then read at the same positions in the same order and release the same mask: the bits come back -/
theorem readback (bit : Nat → Bool) (i : Nat) (ps : List (Nat × Nat)) (hnd : ps.Nodup) (n : Nat)
    (f : Nat → Nat → Bool) :
    ps.map (fun p => foldUpd (writeCells bit i ps n) f p.1 p.2 != Spec.Qr.maskCond i p.2 p.1) =
      (List.range ps.length).map (fun k => bit (n + k)) := by
  induction ps generalizing n f with
  | nil => rfl
  | cons p ps ih =>
    rw [List.nodup_cons] at hnd
    have hmiss : ¬ hasCell (writeCells bit i ps (n + 1)) p.1 p.2 := by
      rintro ⟨c, hc, e1, e2⟩
      have := writeCells_coords bit i ps (n + 1) c hc
      rw [e1, e2] at this
      exact hnd.1 this
    have e : ∀ g, foldUpd (writeCells bit i (p :: ps) n) g =
        foldUpd (writeCells bit i ps (n + 1)) (upd g p.1 p.2 (bit n != Spec.Qr.maskCond i p.2 p.1)) := fun _ => rfl
    rw [List.map_cons, List.length_cons, List.range_succ_eq_map, List.map_cons, List.map_map]
    congr 1
    · rw [e, foldUpd_miss _ _ _ _ hmiss]
      unfold upd
      rw [if_pos ⟨rfl, rfl⟩]
      cases bit n <;> cases Spec.Qr.maskCond i p.2 p.1 <;> rfl
    · have := ih hnd.2 (n + 1) (upd f p.1 p.2 (bit n != Spec.Qr.maskCond i p.2 p.1))
      rw [e]
      rw [this]
      apply List.map_congr_left
      intro k _
      simp only [Function.comp]
      congr 1; omega

/-- a module that is not one of the positions keeps its colour -/
theorem write_frame (bit : Nat → Bool) (i : Nat) (ps : List (Nat × Nat)) (n : Nat) (f : Nat → Nat → Bool)
    (X Y : Nat) (h : (X, Y) ∉ ps) : foldUpd (writeCells bit i ps n) f X Y = f X Y := by
  apply foldUpd_miss
  rintro ⟨c, hc, e1, e2⟩
  have := writeCells_coords bit i ps n c hc
  rw [e1, e2] at this
  exact h this

/-! ### the bits are the codewords -/

theorem dataBit_cons (c : Nat) (cs : List Nat) (k : Nat) : dataBit (c :: cs) (k + 8) = dataBit cs k := by
  unfold dataBit
  simp only [List.size_toArray, List.length_cons, Array.getD_eq_getD_getElem?, List.getElem?_toArray]
  have e1 : (k + 8) / 8 = k / 8 + 1 := by omega
  have e2 : (k + 8) % 8 = k % 8 := by omega
  rw [e1, e2, List.getElem?_cons_succ]
  by_cases h : k < cs.length * 8
  · rw [if_pos h, if_pos (by omega)]
  · rw [if_neg h, if_neg (by omega)]

/-- the first eight bits are the bits of the first codeword, most significant first -/
theorem dataBit_head (c : Nat) (cs : List Nat) (j : Nat) (hj : j < 8) :
    dataBit (c :: cs) j = c.testBit (7 - j) := by
  unfold dataBit
  simp only [List.size_toArray, List.length_cons, Array.getD_eq_getD_getElem?, List.getElem?_toArray]
  rw [if_pos (by omega)]
  have e1 : j / 8 = 0 := by omega
  have e2 : j % 8 = j := by omega
  rw [e1, e2, List.getElem?_cons_zero, Option.getD_some, Nat.testBit_eq_decide_div_mod_eq, Nat.shiftRight_eq_div_pow]
  by_cases h : c / 2 ^ (7 - j) % 2 = 1
  · simp [h]
  · simp [h]

/-- the first `8·len` bits of the stream are the codewords, most significant bit first -/
theorem dataBits_codewords (data : List Nat) :
    (List.range (8 * data.length)).map (dataBit data) = data.flatMap (fun c => msbBits c 8) := by
  induction data with
  | nil => rfl
  | cons c cs ih =>
    have e : 8 * (c :: cs).length = 8 + 8 * cs.length := by rw [List.length_cons]; omega
    rw [e, List.range_add, List.map_append, List.map_map, List.flatMap_cons]
    congr 1
    · unfold msbBits
      apply List.map_congr_left
      intro j hj
      rw [List.mem_range] at hj
      rw [dataBit_head c cs j hj]
    · rw [← ih]
      apply List.map_congr_left
      intro k _
      simp only [Function.comp]
      rw [Nat.add_comm, dataBit_cons]

/-- beyond the last codeword the loop writes `false` -/
theorem dataBit_beyond (data : List Nat) (k : Nat) (h : 8 * data.length ≤ k) : dataBit data k = false := by
  unfold dataBit
  rw [if_neg (by simp only [List.size_toArray]; omega)]

/-- all `N ≥ 8·len` bits: the codewords followed by zero bits -/
theorem dataBits_eq (data : List Nat) (N : Nat) (h : 8 * data.length ≤ N) :
    (List.range N).map (fun k => dataBit data (0 + k)) =
      data.flatMap (fun c => msbBits c 8) ++ List.replicate (N - 8 * data.length) false := by
  have e : N = 8 * data.length + (N - 8 * data.length) := by omega
  rw [e, List.range_add, List.map_append, List.map_map]
  have e2 : 8 * data.length + (N - 8 * data.length) - 8 * data.length = N - 8 * data.length := by omega
  rw [e2]
  congr 1
  · rw [← dataBits_codewords]
    apply List.map_congr_left
    intro k _
    rw [Nat.zero_add]
  · apply List.ext_getElem
    · simp
    · intro k h1 h2
      simp only [List.getElem_map, List.getElem_range, Function.comp, List.getElem_replicate]
      exact dataBit_beyond data _ (by omega)

end BV.Proofs.QrMatrix
