/-
  C02 item 6, implementation side ("two-phase" lemma): whenever the symbolic run `DmSym.run` answers `some st`,
  `CodeLayout.setValues` on ANY data of the expected length does not panic, and the matrix it produces is the
  data painted through the tag map of `st` — the positions written do not depend on the data values.
-/
import BV.Model.Datamatrix
import BV.Proofs.DmSymL
namespace BV.Proofs.DmPlaceM
open BV BV.Model BV.Model.Datamatrix BV.Proofs.DmSym

/-! ### painting data through a tag map -/

/-- the module colour a tag stands for: bit `tag % 10` (1 = most significant) of codeword `tag / 10` (1-based);
    tag 1 = fixed dark module, tag 0 = never written = light -/
def paint (data : Array UInt8) (tag : Nat) : Bool :=
  if tag ≥ 10 then bitOf (data.getD (tag / 10 - 1) 0) (tag % 10 - 1) else tag == 1

theorem paint_tag (data : Array UInt8) (idx k : Nat) (d : UInt8) (hk : k ≤ 7) (hd : data[idx]? = some d) :
    paint data (10 * (idx + 1) + (k + 1)) = bitOf d k := by
  unfold paint
  have h1 : 10 * (idx + 1) + (k + 1) ≥ 10 := by omega
  have h2 : (10 * (idx + 1) + (k + 1)) / 10 - 1 = idx := by omega
  have h3 : (10 * (idx + 1) + (k + 1)) % 10 - 1 = k := by omega
  rw [if_pos h1, h2, h3]
  simp [Array.getD_eq_getD_getElem?, hd]

theorem paint_one (data : Array UInt8) : paint data 1 = bitOf 255 0 := by
  unfold paint; rfl

/-! ### the relation between a layout of the implementation and a symbolic state -/

/-- allocated bits of `NewBitList(n)` -/
def cap (n : Nat) : Nat := 32 * ((n + 31) / 32)

theorem le_cap (n : Nat) : n ≤ cap n := by unfold cap; omega

structure RelM (size : CodeSize) (color : Scheme) (data : Array UInt8) (n : Nat) (l : CodeLayout) (st : PS) : Prop where
  hsize : l.size = size
  hcolor : l.color = color
  hocc : ∀ i, l.occupy[i]? = if i < cap n then some (st.occ.testBit i) else none
  hmat : ∀ i, l.matrix[i]? = if i < cap n then some (paint data (tagAt st.log i)) else none

theorem getBit_nat (a : Array Bool) (i : Nat) (v : Bool) (h : a[i]? = some v) : getBit a (i : Int) = .ok v := by
  unfold getBit
  have h0 : (0 : Int) ≤ (i : Int) := by omega
  have hlt : i < a.size := by
    rcases Nat.lt_or_ge i a.size with h1 | h1
    · exact h1
    · rw [Array.getElem?_eq_none h1] at h; cases h
  rw [if_pos h0, Int.toNat_natCast, dif_pos hlt]
  rw [Array.getElem?_eq_getElem hlt] at h
  cases h; rfl

theorem setBit_nat (a : Array Bool) (i : Nat) (v : Bool) (h : i < a.size) :
    setBit a (i : Int) v = .ok (a.setIfInBounds i v) := by
  unfold setBit
  have h0 : (0 : Int) ≤ (i : Int) := by omega
  rw [if_pos h0, Int.toNat_natCast, if_pos h]
  rfl

/-- `occupied` check + the two `SetBit`s of `Set`, on a linear index -/
def setAt (l : CodeLayout) (idx : Int) (val : Bool) : Res CodeLayout := do
  if (← getBit l.occupy idx) then .error .panic
  let occ ← setBit l.occupy idx true
  let mat ← setBit l.matrix idx val
  pure { l with occupy := occ, matrix := mat }

theorem tmod_nat (a b : Nat) : ((a : Int)).tmod (b : Int) = ((a % b : Nat) : Int) := by
  rw [Int.tmod_eq_emod_of_nonneg (by omega)]
  exact (Int.natCast_emod a b).symm

/-- `Set` = wrap, then `setAt` on the linear index -/
theorem set_eq (l : CodeLayout) (nrow ncol : Nat) (hr : l.size.matrixRows = (nrow : Int))
    (hc : l.size.matrixColumns = (ncol : Int)) (row col : Int) (v : UInt8) (k : Nat) :
    l.set row col v k =
      setAt l ((wrap nrow ncol row col).2 + (wrap nrow ncol row col).1 * (ncol : Int)) (bitOf v k) := by
  unfold CodeLayout.set wrap CodeLayout.occupied setAt
  rw [hr, hc]
  have e1 : ((nrow : Int) + 4).tmod 8 = (((nrow + 4) % 8 : Nat) : Int) := by
    have := tmod_nat (nrow + 4) 8
    rw [← this]; rfl
  have e2 : ((ncol : Int) + 4).tmod 8 = (((ncol + 4) % 8 : Nat) : Int) := by
    have := tmod_nat (ncol + 4) 8
    rw [← this]; rfl
  rw [e1, e2]

theorem setAt_sim {size color data n} {l : CodeLayout} {st : PS} (h : RelM size color data n l st)
    (i tag : Nat) (val : Bool) (hi : i < n) (hfree : st.occ.testBit i = false) (hp : paint data tag = val) :
    ∃ l', setAt l (i : Int) val = .ok l' ∧
      RelM size color data n l' { occ := st.occ ||| (1 <<< i), log := (i, tag) :: st.log } := by
  have hcap : i < cap n := Nat.lt_of_lt_of_le hi (le_cap n)
  have ho := h.hocc i
  rw [if_pos hcap, hfree] at ho
  have hso : i < l.occupy.size := by
    rcases Nat.lt_or_ge i l.occupy.size with h1 | h1
    · exact h1
    · rw [Array.getElem?_eq_none h1] at ho; cases ho
  have hm := h.hmat i
  rw [if_pos hcap] at hm
  have hsm : i < l.matrix.size := by
    rcases Nat.lt_or_ge i l.matrix.size with h1 | h1
    · exact h1
    · rw [Array.getElem?_eq_none h1] at hm; cases hm
  refine ⟨{ l with occupy := l.occupy.setIfInBounds i true, matrix := l.matrix.setIfInBounds i val }, ?_, ?_⟩
  · unfold setAt
    rw [getBit_nat _ _ _ ho, setBit_nat _ _ _ hso, setBit_nat _ _ _ hsm]
    rfl
  · refine ⟨h.hsize, h.hcolor, ?_, ?_⟩
    · intro j
      simp only [Array.getElem?_setIfInBounds, testBit_set]
      by_cases hij : i = j
      · subst hij; simp [hso, hcap]
      · simp [hij, h.hocc j]
    · intro j
      simp only [Array.getElem?_setIfInBounds, tagAt]
      by_cases hij : i = j
      · subst hij; simp [hsm, hcap, hp]
      · simp [hij, h.hmat j]

/-- one `Set`: if the symbolic `set` succeeds with a tag that paints to the bit written, so does `Set` -/
theorem set_sim {size color data} {nrow ncol : Nat} {l : CodeLayout} {st st' : PS}
    (hr : size.matrixRows = (nrow : Int)) (hc : size.matrixColumns = (ncol : Int))
    (h : RelM size color data (nrow * ncol) l st) (row col : Int) (v : UInt8) (k tag : Nat)
    (hp : paint data tag = bitOf v k) (hs : st.set nrow ncol row col tag = some st') :
    ∃ l', l.set row col v k = .ok l' ∧ RelM size color data (nrow * ncol) l' st' := by
  obtain ⟨i, hi, hlt, hfree, rfl⟩ := PS.set_some hs
  rw [set_eq l nrow ncol (h.hsize ▸ hr) (h.hsize ▸ hc), hi]
  exact setAt_sim h i tag _ hlt hfree hp

/-! ### codeword shapes -/

/-- the eight `Set` calls of `SetSimple` / `CornerN` as a fold over the positions -/
def mShape (l : CodeLayout) (ps : List ((Int × Int) × Nat)) (v : UInt8) : Res CodeLayout :=
  ps.foldlM (fun l p => l.set p.1.1 p.1.2 v p.2) l

theorem setSimple_eq (l : CodeLayout) (row col : Int) (v : UInt8) :
    l.setSimple row col v = mShape l (utahPos row col).zipIdx v := by
  simp [CodeLayout.setSimple, mShape, utahPos, List.zipIdx, List.foldlM]

theorem corner1_eq (l : CodeLayout) (v : UInt8) :
    l.corner1 v = mShape l (corner1Pos l.size.matrixRows l.size.matrixColumns).zipIdx v := by
  simp [CodeLayout.corner1, mShape, corner1Pos, List.zipIdx, List.foldlM]

theorem corner2_eq (l : CodeLayout) (v : UInt8) :
    l.corner2 v = mShape l (corner2Pos l.size.matrixRows l.size.matrixColumns).zipIdx v := by
  simp [CodeLayout.corner2, mShape, corner2Pos, List.zipIdx, List.foldlM]

theorem corner3_eq (l : CodeLayout) (v : UInt8) :
    l.corner3 v = mShape l (corner3Pos l.size.matrixRows l.size.matrixColumns).zipIdx v := by
  simp [CodeLayout.corner3, mShape, corner3Pos, List.zipIdx, List.foldlM]

theorem corner4_eq (l : CodeLayout) (v : UInt8) :
    l.corner4 v = mShape l (corner4Pos l.size.matrixRows l.size.matrixColumns).zipIdx v := by
  simp [CodeLayout.corner4, mShape, corner4Pos, List.zipIdx, List.foldlM]

section sim
variable {size : CodeSize} {color : Scheme} {data : Array UInt8} {nrow ncol : Nat}

theorem shape_sim (hr : size.matrixRows = (nrow : Int)) (hc : size.matrixColumns = (ncol : Int))
    (idx : Nat) (d : UInt8) (hd : data[idx]? = some d) :
    ∀ (ps : List ((Int × Int) × Nat)) (l : CodeLayout) (st st' : PS), (∀ p ∈ ps, p.2 ≤ 7) →
      RelM size color data (nrow * ncol) l st → st.shape nrow ncol ps (idx + 1) = some st' →
      ∃ l', mShape l ps d = .ok l' ∧ RelM size color data (nrow * ncol) l' st' := by
  intro ps
  induction ps with
  | nil =>
    intro l st st' _ h hs
    simp only [PS.shape, List.foldlM_nil, pure, Option.some.injEq] at hs
    subst hs
    exact ⟨l, rfl, h⟩
  | cons p ps ih =>
    intro l st st' hk h hs
    simp only [PS.shape, List.foldlM_cons, bind, Option.bind_eq_some_iff] at hs
    obtain ⟨st1, h1, h2⟩ := hs
    obtain ⟨l1, m1, r1⟩ := set_sim hr hc h p.1.1 p.1.2 d p.2 _
      (paint_tag data idx p.2 d (hk p (List.mem_cons_self)) hd) h1
    obtain ⟨l', m2, r2⟩ := ih l1 st1 st' (fun q hq => hk q (List.mem_cons_of_mem _ hq)) r1 h2
    refine ⟨l', ?_, r2⟩
    simp only [mShape, List.foldlM_cons, m1, bind, Except.bind]
    exact m2

theorem zipIdx8_le (ps : List (Int × Int)) (h : ps.length ≤ 8) : ∀ p ∈ ps.zipIdx, p.2 ≤ 7 := by
  intro p hp
  have := List.mem_zipIdx hp
  omega

theorem stepIf_sim (hr : size.matrixRows = (nrow : Int)) (hc : size.matrixColumns = (ncol : Int))
    (hn : data.size = ncw) (guard : Bool) (l : CodeLayout) (st st' : PS) (idx idx' : Nat)
    (ps : List (Int × Int)) (hps : ps.length ≤ 8) (f : CodeLayout → UInt8 → Res CodeLayout)
    (hf : ∀ d, f l d = mShape l ps.zipIdx d)
    (h : RelM size color data (nrow * ncol) l st)
    (hs : DmSym.stepIf nrow ncol ncw guard (st, idx) ps = some (st', idx')) :
    ∃ l', Datamatrix.stepIf guard data (l, idx) f = .ok (l', idx') ∧
      RelM size color data (nrow * ncol) l' st' := by
  unfold DmSym.stepIf at hs
  unfold Datamatrix.stepIf
  cases guard with
  | false =>
    simp only [Bool.false_eq_true, if_false, Option.some.injEq, Prod.mk.injEq] at hs ⊢
    obtain ⟨rfl, rfl⟩ := hs
    exact ⟨l, rfl, h⟩
  | true =>
    simp only [if_true] at hs ⊢
    split at hs
    · rename_i hlt
      simp only [Option.map_eq_some_iff, Prod.mk.injEq] at hs
      obtain ⟨s1, h1, rfl, rfl⟩ := hs
      have hidx : idx < data.size := by omega
      obtain ⟨l', m1, r1⟩ := shape_sim (color := color) hr hc idx data[idx] (Array.getElem?_eq_getElem hidx) ps.zipIdx l st s1
        (zipIdx8_le ps hps) h h1
      refine ⟨l', ?_, r1⟩
      simp only [withNext, dataAt, Array.getElem?_eq_getElem hidx, hf, m1, bind, Except.bind, pure, Except.pure]
    · cases hs

theorem utahPos_length (row col : Int) : (utahPos row col).length ≤ 8 := by simp [utahPos]

theorem place_sim (hr : size.matrixRows = (nrow : Int)) (hc : size.matrixColumns = (ncol : Int))
    (hn : data.size = ncw) (inRange : Bool) (l : CodeLayout) (st st' : PS) (idx idx' : Nat) (row col : Int)
    (h : RelM size color data (nrow * ncol) l st)
    (hs : DmSym.place nrow ncol ncw inRange st idx row col = some (st', idx')) :
    ∃ l', placeIfFree data inRange l idx row col = .ok (l', idx') ∧
      RelM size color data (nrow * ncol) l' st' := by
  unfold DmSym.place at hs
  unfold placeIfFree
  cases inRange with
  | false =>
    simp only [Bool.false_eq_true, if_false, Option.some.injEq, Prod.mk.injEq] at hs ⊢
    obtain ⟨rfl, rfl⟩ := hs
    exact ⟨l, rfl, h⟩
  | true =>
    simp only [if_true] at hs ⊢
    split at hs
    · rename_i i hi
      split at hs
      · rename_i hlt
        have hcap : i < cap (nrow * ncol) := Nat.lt_of_lt_of_le hlt (le_cap _)
        have ho := h.hocc i
        rw [if_pos hcap] at ho
        have hocc : l.occupied row col = .ok (st.occ.testBit i) := by
          unfold CodeLayout.occupied
          rw [h.hsize, hc, hi]
          exact getBit_nat _ _ _ ho
        rw [hocc]
        split at hs
        · rename_i hb
          simp only [Option.some.injEq, Prod.mk.injEq] at hs
          obtain ⟨rfl, rfl⟩ := hs
          refine ⟨l, ?_, h⟩
          simp [bind, Except.bind, hb, pure, Except.pure]
        · rename_i hb
          obtain ⟨l', m1, r1⟩ := stepIf_sim hr hc hn true l st st' idx idx' (utahPos row col)
            (utahPos_length row col) (fun l d => l.setSimple row col d) (fun d => setSimple_eq l row col d) h hs
          refine ⟨l', ?_, r1⟩
          simp only [Datamatrix.stepIf, if_true] at m1
          simp [bind, Except.bind, hb, m1]
      · cases hs
    · cases hs

theorem sweepUp_sim (hr : size.matrixRows = (nrow : Int)) (hc : size.matrixColumns = (ncol : Int))
    (hn : data.size = ncw) : ∀ (f1 f2 : Nat) (l : CodeLayout) (st : PS) (idx : Nat) (row col : Int) (r : WS),
    f1 ≤ f2 → RelM size color data (nrow * ncol) l st →
    DmSym.sweepUp nrow ncol ncw f1 (st, idx, row, col) = some r →
    ∃ l', Datamatrix.sweepUp data f2 (l, idx, row, col) = .ok (l', r.2.1, r.2.2.1, r.2.2.2) ∧
      RelM size color data (nrow * ncol) l' r.1 := by
  intro f1
  induction f1 with
  | zero => intro f2 l st idx row col r _ _ hs; simp [DmSym.sweepUp] at hs
  | succ f1 ih =>
    intro f2 l st idx row col r hf h hs
    obtain ⟨f2, rfl⟩ : ∃ k, f2 = k + 1 := ⟨f2 - 1, by omega⟩
    rw [DmSym.sweepUp] at hs
    split at hs
    · cases hs
    · rename_i st1 idx1 hp
      have hg : (decide (row < l.size.matrixRows ∧ col ≥ 0)) = decide (row < (nrow : Int) ∧ col ≥ 0) := by
        rw [h.hsize, hr]
      obtain ⟨l1, m1, r1⟩ := place_sim hr hc hn _ l st st1 idx idx1 row col h hp
      rw [Datamatrix.sweepUp]
      simp only [hg, m1, bind, Except.bind]
      rw [r1.hsize, hc]
      simp only at hs
      split at hs
      · rename_i hcond
        cases hs
        refine ⟨l1, ?_, r1⟩
        simp only [hcond, if_true]; rfl
      · rename_i hcond
        simp only [hcond, if_false]
        exact ih f2 l1 st1 idx1 _ _ r (by omega) r1 hs

theorem sweepDown_sim (hr : size.matrixRows = (nrow : Int)) (hc : size.matrixColumns = (ncol : Int))
    (hn : data.size = ncw) : ∀ (f1 f2 : Nat) (l : CodeLayout) (st : PS) (idx : Nat) (row col : Int) (r : WS),
    f1 ≤ f2 → RelM size color data (nrow * ncol) l st →
    DmSym.sweepDown nrow ncol ncw f1 (st, idx, row, col) = some r →
    ∃ l', Datamatrix.sweepDown data f2 (l, idx, row, col) = .ok (l', r.2.1, r.2.2.1, r.2.2.2) ∧
      RelM size color data (nrow * ncol) l' r.1 := by
  intro f1
  induction f1 with
  | zero => intro f2 l st idx row col r _ _ hs; simp [DmSym.sweepDown] at hs
  | succ f1 ih =>
    intro f2 l st idx row col r hf h hs
    obtain ⟨f2, rfl⟩ : ∃ k, f2 = k + 1 := ⟨f2 - 1, by omega⟩
    rw [DmSym.sweepDown] at hs
    split at hs
    · cases hs
    · rename_i st1 idx1 hp
      have hg : (decide (row ≥ 0 ∧ col < l.size.matrixColumns)) = decide (row ≥ 0 ∧ col < (ncol : Int)) := by
        rw [h.hsize, hc]
      obtain ⟨l1, m1, r1⟩ := place_sim hr hc hn _ l st st1 idx idx1 row col h hp
      rw [Datamatrix.sweepDown]
      simp only [hg, m1, bind, Except.bind]
      rw [r1.hsize, hr]
      simp only at hs
      split at hs
      · rename_i hcond
        cases hs
        refine ⟨l1, ?_, r1⟩
        simp only [hcond, if_true]; rfl
      · rename_i hcond
        simp only [hcond, if_false]
        exact ih f2 l1 st1 idx1 _ _ r (by omega) r1 hs

theorem tmod_emod (a : Nat) (b : Int) : (a : Int).tmod b = (a : Int) % b :=
  Int.tmod_eq_emod_of_nonneg (by omega)

theorem corner_len (n m : Int) : (corner1Pos n m).length ≤ 8 ∧ (corner2Pos n m).length ≤ 8 ∧
    (corner3Pos n m).length ≤ 8 ∧ (corner4Pos n m).length ≤ 8 := by
  simp [corner1Pos, corner2Pos, corner3Pos, corner4Pos]

theorem mainLoop_sim (hr : size.matrixRows = (nrow : Int)) (hc : size.matrixColumns = (ncol : Int))
    (hn : data.size = ncw) : ∀ (f1 f2 : Nat) (l : CodeLayout) (st : PS) (idx : Nat) (row col : Int) (r : PS × Nat),
    f1 ≤ f2 → RelM size color data (nrow * ncol) l st →
    DmSym.mainLoop nrow ncol ncw f1 (st, idx, row, col) = some r →
    ∃ l' row' col', setValuesLoop data f2 (l, idx, row, col) = .ok (l', r.2, row', col') ∧
      RelM size color data (nrow * ncol) l' r.1 := by
  intro f1
  induction f1 with
  | zero => intro f2 l st idx row col r _ _ hs; simp [DmSym.mainLoop] at hs
  | succ f1 ih =>
    intro f2 l st idx row col r hf h hs
    obtain ⟨f2, rfl⟩ : ∃ k, f2 = k + 1 := ⟨f2 - 1, by omega⟩
    rw [DmSym.mainLoop] at hs
    rw [setValuesLoop]
    simp only [h.hsize, hr, hc]
    simp only at hs
    split at hs
    · rename_i hcond
      rw [if_pos hcond]
      split at hs
      · cases hs
      · rename_i w' hround
        obtain ⟨st', idx', row', col'⟩ := w'
        unfold DmSym.round at hround
        simp only at hround
        split at hround
        · cases hround
        · rename_i s1 hs1
          split at hround
          · cases hround
          · rename_i s2 hs2
            split at hround
            · cases hround
            · rename_i s3 hs3
              split at hround
              · cases hround
              · rename_i s4 hs4
                split at hround
                · cases hround
                · rename_i hfu
                  split at hround
                  · cases hround
                  · rename_i st5 idx5 row5 col5 hs5
                    split at hround
                    · cases hround
                    · rename_i hfd
                      split at hround
                      · cases hround
                      · rename_i st6 idx6 row6 col6 hs6
                        simp only [Option.some.injEq, Prod.mk.injEq] at hround
                        obtain ⟨rfl, rfl, rfl, rfl⟩ := hround
                        have hsz : l.size = size := h.hsize
                        have lens := corner_len (nrow : Int) (ncol : Int)
                        -- the four corner cases
                        obtain ⟨l1, m1, r1⟩ := stepIf_sim hr hc hn _ l st s1.1 idx s1.2 _ lens.1
                          CodeLayout.corner1 (fun d => by rw [corner1_eq, hsz, hr, hc]) h hs1
                        have g2 : decide (row = (nrow : Int) - 2 ∧ col = 0 ∧ (ncol : Int).tmod 4 ≠ 0) =
                            decide (row = (nrow : Int) - 2 ∧ col = 0 ∧ ncol % 4 ≠ 0) := by
                          rw [tmod_emod]; apply decide_eq_decide.mpr; omega
                        have g3 : decide (row = (nrow : Int) - 2 ∧ col = 0 ∧ (ncol : Int).tmod 8 = 4) =
                            decide (row = (nrow : Int) - 2 ∧ col = 0 ∧ ncol % 8 = 4) := by
                          rw [tmod_emod]; apply decide_eq_decide.mpr; omega
                        have g4 : decide (row = (nrow : Int) + 4 ∧ col = 2 ∧ (ncol : Int).tmod 8 = 0) =
                            decide (row = (nrow : Int) + 4 ∧ col = 2 ∧ ncol % 8 = 0) := by
                          rw [tmod_emod]; apply decide_eq_decide.mpr; omega
                        obtain ⟨l2, m2, r2⟩ := stepIf_sim hr hc hn _ l1 s1.1 s2.1 s1.2 s2.2 _ lens.2.1
                          CodeLayout.corner2 (fun d => by rw [corner2_eq, r1.hsize, hr, hc]) r1 hs2
                        obtain ⟨l3, m3, r3⟩ := stepIf_sim hr hc hn _ l2 s2.1 s3.1 s2.2 s3.2 _ lens.2.2.1
                          CodeLayout.corner3 (fun d => by rw [corner3_eq, r2.hsize, hr, hc]) r2 hs3
                        obtain ⟨l4, m4, r4⟩ := stepIf_sim hr hc hn _ l3 s3.1 s4.1 s3.2 s4.2 _ lens.2.2.2
                          CodeLayout.corner4 (fun d => by rw [corner4_eq, r3.hsize, hr, hc]) r3 hs4
                        obtain ⟨l5, m5, r5⟩ := sweepUp_sim hr hc hn _ (row.toNat / 2 + 2) l4 s4.1 s4.2 row col _
                          (Nat.le_refl _) r4 hs5
                        obtain ⟨l6, m6, r6⟩ := sweepDown_sim hr hc hn _ ((col5 + 3).toNat / 2 + 2) l5 st5 idx5
                          (row5 + 1) (col5 + 3) _ (Nat.le_refl _) r5 hs6
                        obtain ⟨l', row'', col'', m7, r7⟩ := ih f2 l6 st6 idx6 (row6 + 3) (col6 + 1) r (by omega) r6 hs
                        refine ⟨l', row'', col'', ?_, r7⟩
                        simp only [g2, g3, g4, m1, m2, m3, m4, m5, m6, bind, Except.bind]
                        exact m7
    · rename_i hcond
      rw [if_neg hcond]
      cases hs
      exact ⟨l, row, col, rfl, h⟩

theorem relM_init (hr : size.matrixRows = (nrow : Int)) (hc : size.matrixColumns = (ncol : Int)) :
    RelM size color data (nrow * ncol) (newCodeLayout size color) { occ := 0, log := [] } := by
  have e : (size.matrixColumns * size.matrixRows).toNat = nrow * ncol := by
    rw [hr, hc, ← Int.natCast_mul, Int.toNat_natCast, Nat.mul_comm]
  refine ⟨rfl, rfl, ?_, ?_⟩
  · intro i
    simp only [newCodeLayout, newBitList, e, Array.getElem?_replicate, cap, Nat.zero_testBit]
  · intro i
    simp only [newCodeLayout, newBitList, e, Array.getElem?_replicate, cap, tagAt]
    rfl

/-- **Two-phase lemma.**  If the symbolic run answers `some st`, then for every data array of the expected
    length `SetValues` on a fresh layout does not panic and returns the layout whose occupancy is the mask of
    `st` and whose matrix is the data painted through the tag map of `st`. -/
theorem setValues_of_run (hr : size.matrixRows = (nrow : Int)) (hc : size.matrixColumns = (ncol : Int))
    {st : PS} (hrun : run nrow ncol ncw = some st) (hn : data.size = ncw) :
    ∃ l, (newCodeLayout size color).setValues data = .ok l ∧ RelM size color data (nrow * ncol) l st := by
  obtain ⟨h2r, h2c, st0, hml, _, hfin⟩ := run_some hrun
  obtain ⟨l0, row', col', m0, r0⟩ := mainLoop_sim (color := color) hr hc hn (nrow + ncol) (nrow + ncol + 2)
    (newCodeLayout size color) _ 0 4 0 _ (by omega) (relM_init hr hc) hml
  obtain ⟨e1, e2, hN⟩ := last_index h2r h2c
  have hlast : nrow * ncol - 1 < cap (nrow * ncol) := Nat.lt_of_lt_of_le (by omega) (le_cap _)
  have hocc : l0.occupied ((nrow : Int) - 1) ((ncol : Int) - 1) = .ok (st0.occ.testBit (nrow * ncol - 1)) := by
    unfold CodeLayout.occupied
    rw [r0.hsize, hc, e1]
    apply getBit_nat
    rw [r0.hocc, if_pos hlast]
  unfold CodeLayout.setValues
  simp only [show (newCodeLayout size color).size = size from rfl, hr, hc, Int.toNat_natCast, m0, bind,
    Except.bind, hocc]
  rcases hfin with ⟨hb, _, rfl⟩ | ⟨hb, _, _, _, _, st1, hs1, hs2⟩
  · refine ⟨l0, ?_, r0⟩
    simp [hb, pure, Except.pure]
  · obtain ⟨l1, m1, r1⟩ := set_sim hr hc r0 _ _ 255 0 1 (paint_one data) hs1
    obtain ⟨l2, m2, r2⟩ := set_sim hr hc r1 _ _ 255 0 1 (paint_one data) hs2
    refine ⟨l2, ?_, r2⟩
    simp [hb, m1, m2]

/-- the layout a successful symbolic run stands for, as explicit arrays -/
theorem relM_arrays {l : CodeLayout} {st : PS} {n : Nat} (h : RelM size color data n l st) :
    l.matrix = Array.ofFn (n := cap n) (fun i => paint data (tagAt st.log i)) ∧
    l.occupy = Array.ofFn (n := cap n) (fun i => st.occ.testBit i) := by
  constructor
  · apply Array.ext_getElem?
    intro i
    rw [h.hmat i]
    by_cases hi : i < cap n
    · simp [hi]
    · simp [hi]
  · apply Array.ext_getElem?
    intro i
    rw [h.hocc i]
    by_cases hi : i < cap n
    · simp [hi]
    · simp [hi]

end sim
end BV.Proofs.DmPlaceM
