/-
  BV.Proofs.QrChain — glue between the bit-stream lemmas (QrStream, QrAlnum) and the codeword lemmas (QrBlocks):
  result records and closed forms in the vocabulary used by the property statements of `BV.Props.QrB`.
-/
import BV.Proofs.QrAlnum
import BV.Proofs.QrBlocks
namespace BV.Proofs.QrChain
open BV BV.Model.Qr BV.Spec.Qr BV.Proofs.Bits BV.Proofs.QrStream BV.Proofs.QrAlnum BV.Proofs.QrBlocks
open BV.Gen.Qr

/-- with a capacity of whole codewords the pad count is what is left after the terminator, in codewords -/
theorem padCount_eq (len cap : Nat) (h8 : cap % 8 = 0) :
    padCount len cap = (cap - (len + min 4 (cap - len))) / 8 := by
  unfold padCount termLen alignLen
  omega

/-- the result `Spec.Qr.parseSegments` must give for a stream with one segment of mode `m` that uses `used` bits
    of the `cap` data bits: the content, a terminator of four zero bits (fewer only if the capacity is reached),
    and pad codewords filling the rest -/
def streamResult (m : Nat) (content : Bytes) (used cap : Nat) : Parsed :=
  { modes := [m], content := content, terminatorBits := min 4 (cap - used),
    padCodewords := (cap - (used + min 4 (cap - used))) / 8 }

/-- the result record in the vocabulary of the property statements -/
theorem singleResult_eq (m : Nat) (content : Bytes) (used cap : Nat) (h8 : cap % 8 = 0) :
    singleResult m content used cap = streamResult m content used cap := by
  simp only [singleResult, streamResult, padCount_eq used cap h8, termLen]

/-- the stream in closed form: `body` followed by terminator, zero bits to the codeword boundary, and
    0xEC / 0x11 alternately -/
def streamShape (body : List Bool) (cap : Nat) : List Bool :=
  body ++ List.replicate (min 4 (cap - body.length)) false ++
    List.replicate ((8 - (body.length + min 4 (cap - body.length)) % 8) % 8) false ++
    ((List.range ((cap - (body.length + min 4 (cap - body.length))) / 8)).map
      (fun j => if j % 2 == 0 then 0xEC else 0x11)).flatMap (fun c => msbBits c 8)

/-- the padded stream in the vocabulary of the property statements -/
theorem padded_eq_shape (body : List Bool) (cap : Nat) (h8 : cap % 8 = 0) :
    padded body cap = streamShape body cap := by
  simp only [padded, streamShape, termLen, alignLen, padCount_eq _ _ h8, padWordsFrom, Nat.zero_add,
    List.append_assoc]

/-- what `decode` computes from the de-interleaved blocks: the data parts in block order -/
theorem zip_take_data (blocks : List Block) (ec : Nat) :
    ((blocks.map (fun b => b.data ++ eccRow ec b)).zip (blocks.map (·.data.length))).flatMap
      (fun (b, l) => (b.take l).flatMap (fun c => msbBits c 8)) =
    (blocks.flatMap (·.data)).flatMap (fun c => msbBits c 8) := by
  induction blocks with
  | nil => rfl
  | cons b bl ih =>
    simp only [List.map_cons, List.zip_cons_cons, List.flatMap_cons, List.flatMap_append, ih]
    simp
/-- a predicate on the pairs of two maps of the same list -/
theorem zip_map_all {α β γ} (l : List α) (f : α → β) (g : α → γ) (P : β × γ → Bool)
    (h : ∀ a ∈ l, P (f a, g a) = true) : ((l.map f).zip (l.map g)).all P = true := by
  induction l with
  | nil => rfl
  | cons a l ih =>
    simp only [List.map_cons, List.zip_cons_cons, List.all_cons, Bool.and_eq_true]
    exact ⟨h a (List.mem_cons_self ..), ih (fun x hx => h x (List.mem_cons_of_mem _ hx))⟩

/-! ### the version found: a table row of the requested level in which count and data fit -/

/-- byte mode: row, level, count and segment fit -/
theorem byte_fits (content : Bytes) (ecl : Nat) (bits : List Bool) (vi : VersionInfo)
    (h : encodeUnicode content ecl = some (bits, vi)) :
    vi ∈ versionInfos ∧ vi.level = ecl ∧ content.length < 2 ^ countBits vi.version 4 ∧
    4 + countBits vi.version 4 + 8 * content.length ≤ vi.totalDataBytes * 8 := by
  unfold encodeUnicode at h
  simp only [] at h
  split at h
  · cases h
  · rename_i vi' hf
    simp only [Option.some.injEq, Prod.mk.injEq] at h
    obtain ⟨_, rfl⟩ := h
    have hs := findSmallest_spec _ _ _ _ hf
    have hcc := charCountBits_eq vi' 4 (by simp)
    have h3 := hs.2.2
    simp only [c_byteMode] at h3
    exact ⟨hs.1, hs.2.1, byte_len_lt vi' content.length hs.1 (by omega), by omega⟩

/-- numeric mode: row, level, count and segment fit -/
theorem numeric_fits (content : Bytes) (ecl : Nat) (bits : List Bool) (vi : VersionInfo)
    (h : encodeNumeric content ecl = some (bits, vi)) :
    vi ∈ versionInfos ∧ vi.level = ecl ∧ content.length < 2 ^ countBits vi.version 1 ∧
    4 + countBits vi.version 1 + numBitCount content.length ≤ vi.totalDataBytes * 8 := by
  unfold encodeNumeric at h
  simp only [] at h
  split at h
  · cases h
  · rename_i vi' hf
    split at h
    · cases h
    · simp only [Option.some.injEq, Prod.mk.injEq] at h
      obtain ⟨_, rfl⟩ := h
      have hs := findSmallest_spec _ _ _ _ hf
      have hcc := charCountBits_eq vi' 1 (by simp)
      have hcap : numBitCount content.length + 4 + vi'.charCountBits 1 ≤ vi'.totalDataBytes * 8 := by
        have := hs.2.2
        unfold numBitCount
        simp only [c_numericMode] at this
        split at this <;> split <;> first | omega | contradiction | (simp only [] at this; omega)
      exact ⟨hs.1, hs.2.1, numeric_len_lt vi' content.length hs.1 hcap, by omega⟩

/-- alphanumeric mode: row, level, count and segment fit -/
theorem alnum_fits (content : Bytes) (ecl : Nat) (bits : List Bool) (vi : VersionInfo)
    (h : encodeAlphaNumeric content ecl = some (bits, vi)) :
    vi ∈ versionInfos ∧ vi.level = ecl ∧ content.length < 2 ^ countBits vi.version 2 ∧
    4 + countBits vi.version 2 + alnumBitCount content.length ≤ vi.totalDataBytes * 8 := by
  unfold encodeAlphaNumeric at h
  simp only [] at h
  split at h
  · cases h
  · rename_i vi' hf
    have hs := findSmallest_spec _ _ _ _ hf
    have hcc := charCountBits_eq vi' 2 (by simp)
    have hcap : alnumBitCount content.length + 4 + vi'.charCountBits 2 ≤ vi'.totalDataBytes * 8 := by
      have := hs.2.2
      unfold alnumBitCount
      simp only [c_alphaNumericMode] at this
      split at this
      · rename_i ho
        have ho : content.length % 2 = 1 := by simpa using ho
        rw [ho]; omega
      · rename_i ho
        have ho : content.length % 2 = 0 := by
          have : ¬ content.length % 2 = 1 := by simpa using ho
          omega
        rw [ho]; omega
    have hvi : vi' = vi := by
      split at h
      · cases h
      · split at h
        · split at h
          · cases h
          · simp only [Option.some.injEq, Prod.mk.injEq] at h; exact h.2
        · simp only [Option.some.injEq, Prod.mk.injEq] at h; exact h.2
    subst hvi
    exact ⟨hs.1, hs.2.1, alnum_len_lt vi' content.length hs.1 hcap, by omega⟩

end BV.Proofs.QrChain
