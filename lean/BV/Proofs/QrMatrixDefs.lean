/-
  QR matrix layer: shared vocabulary.
  * `walk dim` — the zig-zag placement walk of 7.7.3 in closed form (list of (column, row) pairs);
  * `isFn dim version aligns X Y` — "module (column X, row Y) is a function module", as a Boolean predicate on
    coordinates (finder + separator + format squares, timing row/column, 5×5 alignment squares, version areas).
  Coordinates: everywhere (X, Y) = (column, row) = the model's `qr.get X Y` = the spec's `dark X Y`.
-/
import BV.Model.Qr
import BV.Spec.Qr
namespace BV.Proofs.QrMatrix
open BV

/-- right-hand column of the `k`-th column pair of the walk (the vertical timing column 6 is skipped) -/
def walkCol (dim k : Nat) : Nat := if dim - 1 - 2 * k > 6 then dim - 1 - 2 * k else dim - 2 - 2 * k

/-- row visited at step `t` of column pair `k`: upwards for even `k`, downwards for odd `k` -/
def walkRow (dim k t : Nat) : Nat := if k % 2 == 0 then dim - 1 - t else t

/-- all points of the placement walk, in order: (column, row) -/
def walk (dim : Nat) : List (Nat × Nat) :=
  (List.range ((dim - 1) / 2)).flatMap (fun k =>
    (List.range dim).flatMap (fun t =>
      [(walkCol dim k, walkRow dim k t), (walkCol dim k - 1, walkRow dim k t)]))

/-- `|X - c| ≤ 2` -/
def inSq (c X : Nat) : Bool := decide (c ≤ X + 2) && decide (X ≤ c + 2)

/-- (X, Y) lies in the 5×5 square of one of the alignment centres -/
def alignAt (aligns : List (Nat × Nat)) (X Y : Nat) : Bool := aligns.any (fun p => inSq p.1 X && inSq p.2 Y)

/-- function modules of a symbol of side `dim`, for in-range coordinates `X, Y < dim` -/
def isFn (dim version : Nat) (aligns : List (Nat × Nat)) (X Y : Nat) : Bool :=
  (decide (X ≤ 8) && decide (Y ≤ 8)) || (decide (dim - 8 ≤ X) && decide (Y ≤ 8)) ||
  (decide (X ≤ 8) && decide (dim - 8 ≤ Y)) || X == 6 || Y == 6 || alignAt aligns X Y ||
  (decide (version ≥ 7) &&
    ((decide (dim - 11 ≤ X) && decide (X ≤ dim - 9) && decide (Y ≤ 5)) ||
     (decide (X ≤ 5) && decide (dim - 11 ≤ Y) && decide (Y ≤ dim - 9))))

end BV.Proofs.QrMatrix
