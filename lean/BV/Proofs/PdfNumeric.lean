/-
  PDF417 Numeric compaction: the model's `encodeNumeric` (mirror of the Go `encodeNumeric`) never fails on
  ASCII digits and is inverted by the Spec's `flushNumeric` (ISO/IEC 15438 Numeric compaction), for digit
  strings of every length.

  Structure:
    * `chunkVal`, `parseChunk_eq`, `chunkVal_bounds`, `toDigits_chunkVal`: a chunk of `n` digits is parsed to
      `N = "1" ++ digits`, `10^n ≤ N < 2·10^n`, and the decimal digits of `N` are '1' and the chunk;
    * `base900_spec`: the `DivMod 900` loop yields the base-900 digits of `N` (all < 900, folding back to `N`,
      `900^(len-1) ≤ N < 900^len`); the fuel `chunk.length + 2` suffices;
    * `pow_certificate` (finite, `decide` over n = 0..44): `900^(n/3) ≤ 10^n` and `2·10^n ≤ 900^(n/3+1)`, hence
      `chunkWords_spec`: a chunk of `n ≤ 44` digits has exactly `n/3 + 1` codewords (44 digits: 15 codewords,
      so the Spec's cutting into groups of 15 re-aligns with the model's chunks);
    * `go_eq`, `encodeNumeric_eq`: the index-walking loop as a recursion on the list (`encChunks`);
    * `numericGroup_chunkWords`, `flushNumeric_cons`, `flushNumeric_encChunks`: the Spec side;
    * `encodeNumeric_roundtrip`: the theorem used by the properties.
-/
import BV.Model.Pdf417
import BV.Spec.Pdf417
namespace BV.Proofs.PdfNumeric
open BV BV.Model.Pdf417 BV.Spec.Pdf417 BV.Gen.Pdf417

/-- every rune is an ASCII digit -/
def AllDigits (l : List Nat) : Prop := ∀ d ∈ l, 48 ≤ d ∧ d ≤ 57

/-- the number `big.Int.SetString("1" + chunk)` : the chunk's digits appended to `acc` -/
def chunkVal (acc : Nat) (chunk : List Nat) : Nat := chunk.foldl (fun acc r => acc * 10 + (r - 48)) acc

theorem allDigits_cons {d : Nat} {l : List Nat} (h : AllDigits (d :: l)) : (48 ≤ d ∧ d ≤ 57) ∧ AllDigits l :=
  ⟨h d (List.mem_cons_self), fun x hx => h x (List.mem_cons_of_mem _ hx)⟩

theorem allDigits_take {l : List Nat} (h : AllDigits l) (n : Nat) : AllDigits (l.take n) :=
  fun x hx => h x (List.mem_of_mem_take hx)

theorem allDigits_drop {l : List Nat} (h : AllDigits l) (n : Nat) : AllDigits (l.drop n) :=
  fun x hx => h x (List.mem_of_mem_drop hx)

/-- `parseChunk` succeeds on digits and yields "1" followed by the digits -/
theorem parseChunk_eq (chunk : List Nat) (h : AllDigits chunk) : parseChunk chunk = some (chunkVal 1 chunk) := by
  unfold parseChunk
  rw [if_pos]
  · rfl
  · simp only [List.all_eq_true, Bool.and_eq_true, decide_eq_true_eq]
    exact h

/-- appending `n` digits to `acc`: the value lies in `[acc·10^n, (acc+1)·10^n)` -/
theorem chunkVal_bounds (acc : Nat) (chunk : List Nat) (h : AllDigits chunk) :
    acc * 10 ^ chunk.length ≤ chunkVal acc chunk ∧ chunkVal acc chunk < (acc + 1) * 10 ^ chunk.length := by
  induction chunk generalizing acc with
  | nil => simp [chunkVal]
  | cons d l ih =>
    obtain ⟨hd, hl⟩ := allDigits_cons h
    have := ih (acc * 10 + (d - 48)) hl
    simp only [chunkVal, List.foldl_cons, List.length_cons, Nat.pow_succ] at this ⊢
    generalize 10 ^ l.length = p at this ⊢
    generalize List.foldl (fun acc r => acc * 10 + (r - 48)) (acc * 10 + (d - 48)) l = v at this ⊢
    have e1 : acc * (p * 10) = (acc * 10) * p := by
      rw [Nat.mul_comm p 10, Nat.mul_assoc]
    have e2 : (acc + 1) * (p * 10) = (acc * 10 + 10) * p := by
      rw [Nat.mul_comm p 10, ← Nat.mul_assoc, Nat.add_mul]
    rw [e1, e2]
    have h1 : (acc * 10) * p ≤ (acc * 10 + (d - 48)) * p := Nat.mul_le_mul_right _ (by omega)
    have h2 : (acc * 10 + (d - 48) + 1) * p ≤ (acc * 10 + 10) * p := Nat.mul_le_mul_right _ (by omega)
    omega

/-- decimal digits of the value: those of `acc` followed by the chunk's digit characters -/
theorem toDigits_chunkVal (acc : Nat) (chunk : List Nat) (hacc : 0 < acc) (h : AllDigits chunk) :
    Nat.toDigits 10 (chunkVal acc chunk) = Nat.toDigits 10 acc ++ chunk.map (fun d => (d - 48).digitChar) := by
  induction chunk generalizing acc with
  | nil => simp [chunkVal]
  | cons d l ih =>
    obtain ⟨hd, hl⟩ := allDigits_cons h
    have := ih (acc * 10 + (d - 48)) (by omega) hl
    simp only [chunkVal, List.foldl_cons, List.map_cons] at this ⊢
    rw [this, Nat.mul_comm acc 10, ← Nat.toDigits_append_toDigits (by omega) hacc (by omega),
      Nat.toDigits_of_lt_base (n := d - 48) (by omega)]
    simp

/-- the Spec's byte for a digit character is the rune itself -/
theorem digit_byte (d : Nat) (h : 48 ≤ d ∧ d ≤ 57) : UInt8.ofNat ((d - 48).digitChar.toNat) = UInt8.ofNat d := by
  rw [Nat.toNat_digitChar_of_lt_ten (by omega)]
  congr 1; omega

/-- fold used by the Spec: base-900 value of a codeword list -/
def val900 (l : List Nat) : Nat := l.foldl (fun a c => 900 * a + c) 0

theorem val900_snoc (l : List Nat) (x : Nat) : val900 (l ++ [x]) = 900 * val900 l + x := by
  simp [val900, List.foldl_append]

/-- The `DivMod 900` loop with enough fuel prepends the base-900 digits of `n` (most significant first):
    all below 900, folding back to `n`, and as many as `n` needs (`900^(len-1) ≤ n < 900^len`). -/
theorem base900_spec (fuel n : Nat) (cws : List Nat) (h : n < 900 ^ fuel) :
    ∃ pre, base900 fuel n cws = pre ++ cws ∧ (∀ c ∈ pre, c < 900) ∧ val900 pre = n ∧
      n < 900 ^ pre.length ∧ (∀ l, pre.length = l + 1 → 900 ^ l ≤ n) := by
  induction fuel generalizing n cws with
  | zero =>
    have : n = 0 := by simpa using h
    subst this
    exact ⟨[], rfl, by simp, rfl, by simp, by simp⟩
  | succ fuel ih =>
    unfold base900
    by_cases hn : n > 0
    · rw [if_pos hn]
      have hlt : n / 900 < 900 ^ fuel := by
        rw [Nat.div_lt_iff_lt_mul (by omega)]; rw [Nat.pow_succ] at h; exact h
      obtain ⟨pre, e, hlt9, hval, hub, hlb⟩ := ih (n / 900) (n % 900 :: cws) hlt
      refine ⟨pre ++ [n % 900], ?_, ?_, ?_, ?_, ?_⟩
      · rw [e]; simp
      · intro c hc
        simp only [List.mem_append, List.mem_singleton] at hc
        rcases hc with hc | rfl
        · exact hlt9 c hc
        · omega
      · rw [val900_snoc, hval]; omega
      · simp only [List.length_append, List.length_cons, List.length_nil, Nat.pow_succ]
        generalize 900 ^ pre.length = p at hub ⊢
        omega
      · intro l hl
        simp only [List.length_append, List.length_cons, List.length_nil] at hl
        have hl' : pre.length = l := by omega
        cases l with
        | zero => simp; omega
        | succ m =>
          have := hlb m hl'
          rw [Nat.pow_succ]
          generalize 900 ^ m = p at this ⊢
          omega
    · rw [if_neg hn]
      have : n = 0 := by omega
      subst this
      exact ⟨[], rfl, by simp, rfl, by simp, by simp⟩

/-- Certificate (45 cases, `decide`): `n` decimal digits after a leading 1 need exactly `n / 3 + 1` base-900
    digits, for every `n ≤ 44`.  (It fails for n = 47; 44 is the largest chunk size with 15 codewords.) -/
theorem pow_certificate : ∀ n, n < 45 → 900 ^ (n / 3) ≤ 10 ^ n ∧ 2 * 10 ^ n ≤ 900 ^ (n / 3 + 1) := by
  decide

/-- the codewords of one chunk -/
def chunkWords (chunk : List Nat) : List Nat := base900 (chunk.length + 2) (chunkVal 1 chunk) []

theorem chunkWords_spec (chunk : List Nat) (h : AllDigits chunk) (hlen : chunk.length ≤ 44) :
    (∀ c ∈ chunkWords chunk, c < 900) ∧ val900 (chunkWords chunk) = chunkVal 1 chunk ∧
      (chunkWords chunk).length = chunk.length / 3 + 1 := by
  obtain ⟨hlo, hhi⟩ := chunkVal_bounds 1 chunk h
  obtain ⟨c1, c2⟩ := pow_certificate chunk.length (by omega)
  have hfuel : chunkVal 1 chunk < 900 ^ (chunk.length + 2) := by
    have : 900 ^ (chunk.length / 3 + 1) ≤ 900 ^ (chunk.length + 2) :=
      Nat.pow_le_pow_right (by omega) (by omega)
    omega
  obtain ⟨pre, e, hlt, hval, hub, hlb⟩ := base900_spec (chunk.length + 2) (chunkVal 1 chunk) [] hfuel
  rw [List.append_nil] at e
  unfold chunkWords
  rw [e]
  refine ⟨hlt, hval, ?_⟩
  -- 900^(n/3) ≤ 10^n ≤ N < 900^len  and  900^(len-1) ≤ N < 2·10^n ≤ 900^(n/3+1)
  have h1 : 900 ^ (chunk.length / 3) < 900 ^ pre.length := by omega
  have h1' := (Nat.pow_lt_pow_iff_right (by omega)).1 h1
  cases hp : pre.length with
  | zero => omega
  | succ m =>
    have h2 : 900 ^ m < 900 ^ (chunk.length / 3 + 1) := by
      have := hlb m hp; omega
    have h2' := (Nat.pow_lt_pow_iff_right (by omega)).1 h2
    omega

/-- the Spec decodes the codewords of one chunk back to its digits; an inner group must have 44 digits -/
theorem numericGroup_chunkWords (chunk : List Nat) (last : Bool) (h : AllDigits chunk) (hlen : chunk.length ≤ 44)
    (hl : last = true ∨ chunk.length = 44) :
    numericGroup (chunkWords chunk) last = .ok (chunk.map UInt8.ofNat) := by
  obtain ⟨_, hval, hlen'⟩ := chunkWords_spec chunk h hlen
  unfold numericGroup
  simp only
  rw [show List.foldl (fun a c => 900 * a + c) 0 (chunkWords chunk) = chunkVal 1 chunk from hval,
    toDigits_chunkVal 1 chunk (by omega) h]
  have : Nat.toDigits 10 1 = ['1'] := by decide
  rw [this]
  simp only [List.cons_append, List.nil_append, List.length_map, hlen']
  have hg : (!last && chunk.length != 44) = false := by
    rcases hl with hl | hl
    · simp [hl]
    · simp [hl]
  rw [if_neg (by simp), hg]
  simp only [Bool.false_eq_true, if_false, List.map_map]
  show Except.ok _ = _
  congr 1
  apply List.map_congr_left
  intro d hd
  exact digit_byte d (h d hd)

/-- codewords of the first `n` chunks (44 digits each, the last one shorter) of `ds` -/
def encChunks : Nat → List Nat → List Nat
  | 0, _ => []
  | n + 1, ds => chunkWords (ds.take 44) ++ encChunks n (ds.drop 44)

/-- the slice `digits[start:end]` of the Go loop is `take 44` of the suffix -/
theorem chunk_eq (digits : List Nat) (i : Nat) :
    (digits.drop (i * 44)).take ((if i * 44 + 44 > digits.length then digits.length else i * 44 + 44) - i * 44)
      = (digits.drop (i * 44)).take 44 := by
  split
  · rw [List.take_of_length_le (by rw [List.length_drop]; omega),
      List.take_of_length_le (by rw [List.length_drop]; omega)]
  · congr 1; omega

/-- the index-walking loop of `encodeNumeric` as a recursion on the list -/
theorem go_eq (digits : List Nat) (h : AllDigits digits) (n i : Nat) (cw : List Nat) :
    encodeNumeric.go digits digits.length n i cw = .ok (cw ++ encChunks n (digits.drop (i * 44))) := by
  induction n generalizing i cw with
  | zero => simp [encodeNumeric.go, encChunks]
  | succ n ih =>
    unfold encodeNumeric.go
    simp only [chunk_eq]
    rw [parseChunk_eq _ (allDigits_take (allDigits_drop h _) _)]
    simp only
    rw [ih]
    simp only [encChunks, chunkWords, List.append_assoc, List.drop_drop]
    rw [Nat.succ_mul]

theorem encodeNumeric_eq (digits : List Nat) (h : AllDigits digits) :
    encodeNumeric digits =
      .ok (encChunks (digits.length / 44 + (if digits.length % 44 != 0 then 1 else 0)) digits) := by
  unfold encodeNumeric
  simp only [go_eq digits h, Nat.zero_mul, List.drop_zero, List.nil_append]

theorem flushNumeric_nil (f : Nat) : flushNumeric f [] = .ok [] := by
  cases f <;> rfl

theorem chunkWords_ne_nil (c : List Nat) (hc : AllDigits c) (hlen : c.length ≤ 44) : chunkWords c ≠ [] := by
  intro e
  have := (chunkWords_spec c hc hlen).2.2
  rw [e] at this; simp at this

/-- one round of the Spec's group loop: the codewords of a chunk in front are decoded, the rest follows -/
theorem flushNumeric_cons (f : Nat) (c R : List Nat) (out : List UInt8) (hc : AllDigits c)
    (hlen : c.length ≤ 44) (hl : R = [] ∨ c.length = 44) (hR : flushNumeric f R = .ok out) :
    flushNumeric (f + 1) (chunkWords c ++ R) = .ok (c.map UInt8.ofNat ++ out) := by
  have hL := (chunkWords_spec c hc hlen).2.2
  have hne := chunkWords_ne_nil c hc hlen
  have ht : (chunkWords c ++ R).take 15 = chunkWords c ∧ (chunkWords c ++ R).drop 15 = R := by
    rcases hl with rfl | h44
    · rw [List.append_nil]
      exact ⟨List.take_of_length_le (by omega), List.drop_of_length_le (by omega)⟩
    · exact ⟨List.take_left' (by omega), List.drop_left' (by omega)⟩
  have hemp : (chunkWords c ++ R).isEmpty = false := by
    cases hcw : chunkWords c with
    | nil => exact absurd hcw hne
    | cons a l => rfl
  unfold flushNumeric
  simp only [hemp, ht.1, ht.2, Bool.false_eq_true, if_false]
  have hl' : R.isEmpty = true ∨ c.length = 44 := by
    rcases hl with rfl | h44
    · exact Or.inl rfl
    · exact Or.inr h44
  rw [numericGroup_chunkWords c _ hc hlen hl', hR]
  rfl

/-- the Spec's numeric decoder inverts the codewords of `n + 1` chunks -/
theorem flushNumeric_encChunks (n fuel : Nat) (ds : List Nat) (h : AllDigits ds) (hlo : 44 * n < ds.length)
    (hhi : ds.length ≤ 44 * (n + 1)) (hf : n + 1 ≤ fuel) :
    flushNumeric fuel (encChunks (n + 1) ds) = .ok (ds.map UInt8.ofNat) := by
  induction n generalizing ds fuel with
  | zero =>
    obtain ⟨f, rfl⟩ : ∃ f, fuel = f + 1 := ⟨fuel - 1, by omega⟩
    have : ds.take 44 = ds := List.take_of_length_le (by omega)
    simp only [encChunks, this]
    rw [flushNumeric_cons f ds [] [] h (by omega) (Or.inl rfl) (flushNumeric_nil f)]
    simp
  | succ n ih =>
    obtain ⟨f, rfl⟩ : ∃ f, fuel = f + 1 := ⟨fuel - 1, by omega⟩
    have hdl : (ds.drop 44).length = ds.length - 44 := List.length_drop
    have hR := ih f (ds.drop 44) (allDigits_drop h 44) (by omega) (by omega) (by omega)
    have htl : (ds.take 44).length = 44 := by rw [List.length_take]; omega
    rw [show encChunks (n + 1 + 1) ds = chunkWords (ds.take 44) ++ encChunks (n + 1) (ds.drop 44) from rfl,
      flushNumeric_cons f _ _ _ (allDigits_take h 44) (by omega) (Or.inr htl) hR,
      ← List.map_append, List.take_append_drop]

theorem encChunks_lt (n : Nat) (ds : List Nat) (h : AllDigits ds) : ∀ c ∈ encChunks n ds, c < 900 := by
  induction n generalizing ds with
  | zero => intro c hc; simp [encChunks] at hc
  | succ n ih =>
    intro c hc
    simp only [encChunks, List.mem_append] at hc
    rcases hc with hc | hc
    · exact (chunkWords_spec _ (allDigits_take h 44) (by rw [List.length_take]; omega)).1 c hc
    · exact ih _ (allDigits_drop h 44) c hc

/-- at least one codeword per chunk, when the chunks are non-trivial -/
theorem encChunks_length (n : Nat) (ds : List Nat) (h : AllDigits ds) : n ≤ (encChunks n ds).length := by
  induction n generalizing ds with
  | zero => simp
  | succ n ih =>
    have := ih (ds.drop 44) (allDigits_drop h 44)
    have h1 := (chunkWords_spec _ (allDigits_take h 44) (by rw [List.length_take]; omega)).2.2
    simp only [encChunks, List.length_append]
    omega

/-- digits (runes 48..57) are encoded without error into codewords < 900 which the Spec numeric decoder
    (groups of 15 codewords = 44 digits) maps back to the same digits -/
theorem encodeNumeric_roundtrip (digits : List Nat) (h : ∀ d ∈ digits, 48 ≤ d ∧ d ≤ 57) :
    ∃ cws, encodeNumeric digits = .ok cws ∧ (∀ c ∈ cws, c < 900) ∧
      flushNumeric cws.length cws = .ok (digits.map UInt8.ofNat) := by
  refine ⟨_, encodeNumeric_eq digits h, encChunks_lt _ _ h, ?_⟩
  by_cases h0 : digits.length = 0
  · have : digits = [] := List.length_eq_zero_iff.1 h0
    subst this
    rfl
  · have hlen := encChunks_length (digits.length / 44 + (if digits.length % 44 != 0 then 1 else 0)) digits h
    revert hlen
    generalize hk : digits.length / 44 + (if digits.length % 44 != 0 then 1 else 0) = k
    intro hlen
    have hk' : k = (digits.length - 1) / 44 + 1 := by
      rw [← hk]; split
      · rename_i hm; simp only [bne_iff_ne, ne_eq] at hm; omega
      · rename_i hm; simp only [bne_iff_ne, ne_eq, Decidable.not_not] at hm; omega
    subst hk'
    exact flushNumeric_encChunks _ _ digits h (by omega) (by omega) hlen

/-- number of codewords: 15 for each full chunk, `m / 3 + 1` for the last chunk of `m` digits -/
theorem encChunks_length_eq (n : Nat) (ds : List Nat) (h : AllDigits ds) (hlo : 44 * n < ds.length)
    (hhi : ds.length ≤ 44 * (n + 1)) :
    (encChunks (n + 1) ds).length = 15 * n + (ds.length - 44 * n) / 3 + 1 := by
  induction n generalizing ds with
  | zero =>
    have ht : ds.take 44 = ds := List.take_of_length_le (by omega)
    have h1 := (chunkWords_spec ds h (by omega)).2.2
    simp only [encChunks, ht, List.length_append, List.length_nil, h1]
    omega
  | succ n ih =>
    have hdl : (ds.drop 44).length = ds.length - 44 := List.length_drop
    have htl : (ds.take 44).length = 44 := by rw [List.length_take]; omega
    have h1 := (chunkWords_spec _ (allDigits_take h 44) (by omega)).2.2
    have h2 := ih (ds.drop 44) (allDigits_drop h 44) (by omega) (by omega)
    rw [show encChunks (n + 1 + 1) ds = chunkWords (ds.take 44) ++ encChunks (n + 1) (ds.drop 44) from rfl,
      List.length_append, h1, h2, htl, hdl]
    omega

/-- the hypotheses are satisfiable on non-trivial inputs: the example of ISO/IEC 15438 (15 digits) and a
    45-digit string (two chunks: 15 + 1 codewords) -/
example : encodeNumeric [48, 48, 48, 50, 49, 51, 50, 57, 56, 49, 55, 52, 48, 48, 48]
    = .ok [1, 624, 434, 632, 282, 200] := by rfl
example : flushNumeric 6 [1, 624, 434, 632, 282, 200]
    = .ok [48, 48, 48, 50, 49, 51, 50, 57, 56, 49, 55, 52, 48, 48, 48] := by rfl
example : encodeNumeric (List.replicate 45 57)
    = .ok [874, 223, 532, 264, 888, 236, 358, 185, 93, 795, 72, 289, 146, 822, 199, 19] := by rfl
example : ∀ d ∈ List.replicate 45 57, 48 ≤ d ∧ d ≤ 57 := by decide

end BV.Proofs.PdfNumeric
