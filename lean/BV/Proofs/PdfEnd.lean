/-
  BV.Proofs.PdfEnd — C04 end to end: whatever `EncodeWithColor` returns is accepted by the ISO/IEC 15438
  reference decoder, which reports the true dimensions and level and returns the input data.
-/
import BV.Proofs.PdfRender
import BV.Proofs.PdfDecode
namespace BV.Proofs.PdfEnd
open BV BV.Model.Pdf417 BV.Gen.Pdf417 BV.Spec.Pdf417
open BV.Proofs.PdfDims BV.Proofs.PdfFrame BV.Proofs.PdfRS BV.Proofs.PdfHigh BV.Proofs.PdfAccept
open BV.Proofs.PdfRender BV.Proofs.PdfDecode

/-- the reference decoder accepts the accepted symbol -/
theorem decode_symbolOf (data : Bytes) (cws : List Nat) (cols rows lvl : Nat) (s : Scheme)
    (hc : 2 ≤ cols ∧ cols ≤ 30) (hr : 2 ≤ rows ∧ rows ≤ 30) (hl : lvl ≤ 8)
    (hrows : rows = calculateNumberOfRows cws.length (2 ^ (lvl + 1)) cols)
    (hsmall : cws.length + 1 + 2 ^ (lvl + 1) ≤ 900)
    (hlt : ∀ c ∈ cws, c < 929) (hdec : decodeData cws = .ok data) (hlast : cws.getLast? ≠ some 900) :
    decode (symbolOf data cws cols rows lvl s).w (symbolOf data cws cols rows lvl s).h
      (symbolOf data cws cols rows lvl s).dark = .ok (infoOf data cws cols rows lvl) := by
  have hlen := symbolCodewords_length cws cols lvl hl (by omega)
  rw [← hrows] at hlen
  obtain ⟨hp1, hp2, _⟩ := padding_spec cws.length (2 ^ (lvl + 1)) cols (by omega)
  have hk : 2 ≤ 2 ^ (lvl + 1) := by
    have : 2 ^ 1 ≤ 2 ^ (lvl + 1) := Nat.pow_le_pow_right (by omega) (by omega)
    simpa using this
  have hcwlt := symbolCodewords_lt cws cols lvl (by omega) hlt (by omega)
  obtain ⟨g1, _, g3⟩ := gridRows_spec cols (by omega) rows ((symbolCodewords cws cols lvl).length + 1)
    (symbolCodewords cws cols lvl) hlen (by omega)
  obtain ⟨hw, hh, hrowsdec⟩ := symbol_rows data cws cols rows lvl s hc hr hl hlen hcwlt
  have hsame := symbol_lines_equal data cws cols rows lvl s (by omega) hlen
  rw [hw] at hrowsdec hsame
  rw [hw, hh]
  exact decode_of_rows _ data cws cols rows lvl _ hc hr hl hrows hsmall hlt hdec hlast g1 g3 hrowsdec hsame

/-- C04, end to end: if `EncodeWithColor data lvl s` returns a barcode `bc`, then `lvl ≤ 8`, and with `cws` the
    data codewords and `(cols, rows)` the chosen dimensions (within 2..30 each, rows·cols = 1 + data + pad +
    2^(lvl+1) with pad < cols), the reference decoder run on the picture of `bc` succeeds and reports exactly
    these rows, columns, level, length descriptor, pad count, check word count, and the content `data`. -/
theorem encode_decode (data : Bytes) (lvl : Nat) (s : Scheme) (bc : Barcode)
    (h : encodeWithColor data lvl s = .ok bc) :
    lvl ≤ 8 ∧ ∃ cws cols rows, highlevelEncode data = .ok cws ∧
      calcDimensions cws.length (2 ^ (lvl + 1)) = (cols, rows) ∧
      2 ≤ cols ∧ cols ≤ 30 ∧ 2 ≤ rows ∧ rows ≤ 30 ∧
      rows * cols = 1 + cws.length + (getPadding cws.length (2 ^ (lvl + 1)) cols).length + 2 ^ (lvl + 1) ∧
      (getPadding cws.length (2 ^ (lvl + 1)) cols).length < cols ∧
      bc.content = data ∧ bc.w = 17 * (cols + 4) + 1 ∧ bc.h = 2 * rows ∧
      decode bc.w bc.h bc.dark = .ok (infoOf data cws cols rows lvl) := by
  have hl : lvl ≤ 8 := by
    apply Nat.le_of_not_lt
    intro hgt
    rw [reject_level data lvl s hgt] at h
    cases h
  refine ⟨hl, ?_⟩
  obtain ⟨cws, hcws, hlt, hdec, hlast, hcase⟩ := encodeWithColor_cases data lvl s hl
  rcases hcase with ⟨_, hrej⟩ | ⟨hsmall, cols, rows, hdim, hc1, hc2, hr1, hr2, hrows, hok⟩
  · rw [hrej] at h; cases h
  · rw [hok] at h
    injection h with h
    subst h
    obtain ⟨hp1, hp2, _⟩ := padding_spec cws.length (2 ^ (lvl + 1)) cols (by omega)
    rw [← hrows] at hp2
    have hlen := symbolCodewords_length cws cols lvl hl (by omega)
    rw [← hrows] at hlen
    obtain ⟨hw, hh, _⟩ := symbol_lines data cws cols rows lvl s (by omega) hlen
    exact ⟨cws, cols, rows, hcws, hdim, hc1, hc2, hr1, hr2, hp2, hp1, rfl, hw, hh,
      decode_symbolOf data cws cols rows lvl s ⟨hc1, hc2⟩ ⟨hr1, hr2⟩ hl hrows hsmall hlt hdec hlast⟩

end BV.Proofs.PdfEnd
