/-
  BV.Proofs.PdfDims — dimensions of a PDF417 symbol (`dimensions.go`, `getPadding`): lemmas for C13 / C04.
-/
import BV.Model.Pdf417
namespace BV.Proofs.PdfDims
open BV BV.Model.Pdf417 BV.Gen.Pdf417

/-! ### `calculateNumberOfRows` is the ceiling of (m+1+k)/c -/

/-- `calculateNumberOfRows m k c = r` is characterised by `c·(r-1) < m+1+k ≤ c·r` (for `c > 0`). -/
theorem rows_ceil (m k c : Nat) (hc : 0 < c) :
    m + 1 + k ≤ c * calculateNumberOfRows m k c ∧
    c * (calculateNumberOfRows m k c - 1) < m + 1 + k ∧ 1 ≤ calculateNumberOfRows m k c := by
  unfold calculateNumberOfRows
  have h1 := Nat.div_add_mod (m + 1 + k) c
  have h2 := Nat.mod_lt (m + 1 + k) hc
  generalize (m + 1 + k) / c = q at *
  generalize (m + 1 + k) % c = rem at *
  simp only []
  have e : c * (q + 1) = c * q + c := by rw [Nat.mul_add, Nat.mul_one]
  split
  · rename_i h
    rw [e] at h
    simp only [Nat.add_sub_cancel]
    have hq : 1 ≤ q := by
      rcases q with _ | q
      · simp at h1 h; omega
      · omega
    have e2 : c * q = c * (q - 1) + c := by
      obtain ⟨q', rfl⟩ : ∃ q', q = q' + 1 := ⟨q - 1, by omega⟩
      simp [Nat.mul_add]
    refine ⟨by omega, by omega, hq⟩
  · rename_i h
    rw [e] at h
    simp only [Nat.add_sub_cancel]
    refine ⟨by omega, by omega, by omega⟩

/-- closed form: `calculateNumberOfRows m k c = ⌈(m+1+k)/c⌉ = (m+1+k + c - 1) / c` -/
theorem rows_eq_ceil (m k c : Nat) (hc : 0 < c) :
    calculateNumberOfRows m k c = (m + 1 + k + c - 1) / c := by
  obtain ⟨h1, h2, h3⟩ := rows_ceil m k c hc
  generalize calculateNumberOfRows m k c = r at *
  symm
  rw [Nat.div_eq_iff hc]
  obtain ⟨r', rfl⟩ : ∃ r', r = r' + 1 := ⟨r - 1, by omega⟩
  simp only [Nat.add_sub_cancel] at h2
  rw [Nat.mul_comm (r' + 1) c, Nat.mul_add, Nat.mul_one] at *
  generalize c * r' = p at *
  omega

/-- `⌈t/c⌉ ≤ j ↔ t ≤ c·j` -/
theorem rows_le_iff (m k c j : Nat) (hc : 0 < c) :
    calculateNumberOfRows m k c ≤ j ↔ m + 1 + k ≤ c * j := by
  obtain ⟨h1, h2, h3⟩ := rows_ceil m k c hc
  generalize calculateNumberOfRows m k c = r at *
  constructor
  · intro h
    exact Nat.le_trans h1 (Nat.mul_le_mul_left c h)
  · intro h
    have : c * (r - 1) < c * j := Nat.lt_of_lt_of_le h2 h
    have := Nat.lt_of_mul_lt_mul_left this
    omega

/-! ### padding -/

/-- the padding fills the last row: total = rows·cols, fewer than `cols` pads -/
theorem padding_spec (m k c : Nat) (hc : 0 < c) :
    (getPadding m k c).length < c ∧
    calculateNumberOfRows m k c * c = 1 + m + (getPadding m k c).length + k ∧
    (∀ x ∈ getPadding m k c, x = 900) := by
  obtain ⟨h1, h2, h3⟩ := rows_ceil m k c hc
  have hd := Nat.div_add_mod (m + k + 1) c
  have hm := Nat.mod_lt (m + k + 1) hc
  have hlen : (getPadding m k c).length = if (m + k + 1) % c > 0 then c - (m + k + 1) % c else 0 := by
    unfold getPadding
    simp only []
    split <;> simp
  refine ⟨by rw [hlen]; split <;> omega, ?_, ?_⟩
  · rw [hlen]
    generalize calculateNumberOfRows m k c = r at *
    obtain ⟨r', rfl⟩ : ∃ r', r = r' + 1 := ⟨r - 1, by omega⟩
    simp only [Nat.add_sub_cancel] at h2
    rw [Nat.mul_comm (r' + 1) c]
    rw [Nat.mul_add, Nat.mul_one] at *
    generalize hq : (m + k + 1) / c = q at *
    generalize (m + k + 1) % c = rem at *
    -- c * r' < t ≤ c * r' + c  and t = c * q + rem
    have hqr : q = r' ∨ (q = r' + 1 ∧ rem = 0) := by
      rcases Nat.lt_trichotomy q r' with hlt | heq | hgt
      · exfalso
        have : c * (q + 1) ≤ c * r' := Nat.mul_le_mul_left c hlt
        rw [Nat.mul_add, Nat.mul_one] at this
        omega
      · exact Or.inl heq
      · have h5 : c * (r' + 1) ≤ c * q := Nat.mul_le_mul_left c hgt
        rw [Nat.mul_add, Nat.mul_one] at h5
        rcases Nat.lt_or_ge (r' + 1) q with h6 | h6
        · exfalso
          have : c * (r' + 2) ≤ c * q := Nat.mul_le_mul_left c h6
          rw [Nat.mul_add] at this
          omega
        · have : q = r' + 1 := by omega
          subst this
          rw [Nat.mul_add, Nat.mul_one] at hd
          exact Or.inr ⟨rfl, by omega⟩
    rcases hqr with rfl | ⟨rfl, rfl⟩
    · generalize c * q = p at *
      split <;> omega
    · rw [Nat.mul_add, Nat.mul_one] at hd
      generalize c * r' = p at *
      simp
      omega
  · intro x hx
    unfold getPadding at hx
    simp only [] at hx
    split at hx
    · exact (List.mem_replicate.mp hx).2
    · cases hx

/-! ### the column search -/

/-- a state of the search loop is either "nothing found" or a candidate within the limits -/
def GoodState (m k : Nat) (st : Ratio × Nat × Nat) : Prop :=
  (st.2.1 = 0 ∧ st.2.2 = 0) ∨
  (2 ≤ st.2.1 ∧ st.2.1 ≤ 30 ∧ st.2.2 = calculateNumberOfRows m k st.2.1 ∧ 2 ≤ st.2.2 ∧ st.2.2 ≤ 30)

/-- the float value `newRatio` of the loop body -/
def newRatio (cols rows : Nat) : Ratio :=
  if rows * c_moduleHeight == 0 then none else some (17 * cols + 69, rows * c_moduleHeight)

/-- one iteration of the column loop, with the constants spelled out -/
theorem loop_succ (m k n c : Nat) (ratio : Ratio) (cols rows : Nat) :
    calcDimensionsLoop m k (n + 1) c (ratio, cols, rows) =
      if calculateNumberOfRows m k c < 2 then (ratio, cols, rows)
      else if calculateNumberOfRows m k c > 30 then calcDimensionsLoop m k n (c + 1) (ratio, cols, rows)
      else if (rows != 0 && fartherFrom3 (newRatio cols rows) ratio) = true then
        calcDimensionsLoop m k n (c + 1) (ratio, cols, rows)
      else calcDimensionsLoop m k n (c + 1) (newRatio cols rows, c, calculateNumberOfRows m k c) := rfl

theorem loop_good (m k : Nat) : ∀ (n c : Nat) (st : Ratio × Nat × Nat), 2 ≤ c → c + n ≤ 31 →
    GoodState m k st → GoodState m k (calcDimensionsLoop m k n c st) := by
  intro n
  induction n with
  | zero => intro c st _ _ h; simpa [calcDimensionsLoop] using h
  | succ n ih =>
    intro c st hc hn h
    obtain ⟨ratio, cols, rows⟩ := st
    rw [loop_succ]
    split
    · exact h
    · split
      · exact ih (c + 1) _ (by omega) (by omega) h
      · split
        · exact ih (c + 1) _ (by omega) (by omega) h
        · apply ih (c + 1) _ (by omega) (by omega)
          right
          show 2 ≤ c ∧ c ≤ 30 ∧ calculateNumberOfRows m k c = calculateNumberOfRows m k c ∧
            2 ≤ calculateNumberOfRows m k c ∧ calculateNumberOfRows m k c ≤ 30
          exact ⟨hc, by omega, rfl, by omega, by omega⟩

/-- once a candidate is found, the loop never loses it -/
theorem loop_keeps (m k : Nat) : ∀ (n c : Nat) (st : Ratio × Nat × Nat), 2 ≤ c →
    st.2.2 ≠ 0 → (calcDimensionsLoop m k n c st).2.2 ≠ 0 := by
  intro n
  induction n with
  | zero => intro c st _ h; simpa [calcDimensionsLoop] using h
  | succ n ih =>
    intro c st hc h
    obtain ⟨ratio, cols, rows⟩ := st
    rw [loop_succ]
    split
    · exact h
    · split
      · exact ih (c + 1) _ (by omega) h
      · split
        · exact ih (c + 1) _ (by omega) h
        · apply ih (c + 1) _ (by omega)
          simp only []
          omega

/-- if some column count `c0` in the remaining range gives 2..30 rows and no earlier column count gives
    fewer than two rows (the `break`), the loop ends with a candidate -/
theorem loop_finds (m k : Nat) : ∀ (n c : Nat) (st : Ratio × Nat × Nat) (c0 : Nat), 2 ≤ c →
    c ≤ c0 → c0 < c + n → c0 < m + 1 + k → m + 1 + k ≤ 30 * c0 →
    (calcDimensionsLoop m k n c st).2.2 ≠ 0 := by
  intro n
  induction n with
  | zero => intro c st c0 _ h1 h2; omega
  | succ n ih =>
    intro c st c0 hc h1 h2 h3 h4
    obtain ⟨ratio, cols, rows⟩ := st
    have hlt : ¬ calculateNumberOfRows m k c < 2 := by
      intro hh
      have := (rows_le_iff m k c 1 (by omega)).mp (by omega)
      omega
    rw [loop_succ]
    rw [if_neg hlt]
    rcases Nat.eq_or_lt_of_le h1 with heq | hlt2
    · subst heq
      have hle : ¬ calculateNumberOfRows m k c > 30 := by
        have := (rows_le_iff m k c 30 (by omega)).mpr (by omega)
        omega
      rw [if_neg hle]
      split
      · rename_i hh
        simp only [Bool.and_eq_true, bne_iff_ne, ne_eq] at hh
        exact loop_keeps m k n (c + 1) _ (by omega) hh.1
      · apply loop_keeps m k n (c + 1) _ (by omega)
        simp only []
        omega
    · split
      · exact ih (c + 1) _ c0 (by omega) (by omega) (by omega) h3 h4
      · split
        · exact ih (c + 1) _ c0 (by omega) (by omega) (by omega) h3 h4
        · exact ih (c + 1) _ c0 (by omega) (by omega) (by omega) h3 h4

/-- if `m+1+k > 900` no column count is acceptable and the loop returns its initial state -/
theorem loop_none (m k : Nat) (hbig : 900 < m + 1 + k) : ∀ (n c : Nat) (st : Ratio × Nat × Nat), 2 ≤ c →
    c + n ≤ 31 → calcDimensionsLoop m k n c st = st := by
  intro n
  induction n with
  | zero => intro c st _ _; simp [calcDimensionsLoop]
  | succ n ih =>
    intro c st hc hn
    obtain ⟨ratio, cols, rows⟩ := st
    have hgt : calculateNumberOfRows m k c > 30 := by
      apply Nat.lt_of_not_le
      intro hle
      have := (rows_le_iff m k c 30 (by omega)).mp hle
      omega
    rw [loop_succ]
    rw [if_neg (by omega), if_pos hgt]
    exact ih (c + 1) _ (by omega) (by omega)

/-- the part of `calcDimensions` after the loop -/
def finish (m k : Nat) (st : Ratio × Nat × Nat) : Nat × Nat :=
  if (st.2.2 == 0) = true then
    (if calculateNumberOfRows m k 2 < 2 then (2, 2) else (st.2.1, st.2.2))
  else (st.2.1, st.2.2)

/-- `calcDimensions` with the constants spelled out -/
theorem calcDimensions_eq (m k : Nat) :
    calcDimensions m k = finish m k (calcDimensionsLoop m k 29 2 (some (0, 1), 0, 0)) := by
  unfold calcDimensions
  show finish m k (calcDimensionsLoop m k (30 + 1 - 2) 2 (some (0, 1), 0, 0)) = _
  rfl

/-- `calcDimensions` returns (0, 0), or the dead-branch default (2, 2) (only if `m+1+k ≤ 2`), or a pair
    within the limits whose row count is the ceiling for its column count -/
theorem calcDimensions_cases (m k : Nat) :
    calcDimensions m k = (0, 0) ∨ (calcDimensions m k = (2, 2) ∧ m + 1 + k ≤ 2) ∨
    (2 ≤ (calcDimensions m k).1 ∧ (calcDimensions m k).1 ≤ 30 ∧
      (calcDimensions m k).2 = calculateNumberOfRows m k (calcDimensions m k).1 ∧
      2 ≤ (calcDimensions m k).2 ∧ (calcDimensions m k).2 ≤ 30) := by
  have hg := loop_good m k 29 2 (some (0, 1), 0, 0) (by omega) (by omega) (Or.inl ⟨rfl, rfl⟩)
  rw [calcDimensions_eq]
  generalize calcDimensionsLoop m k 29 2 (some (0, 1), 0, 0) = st at *
  obtain ⟨ratio, cols, rows⟩ := st
  simp only [finish]
  rcases hg with ⟨h1, h2⟩ | h
  · simp only [] at h1 h2
    subst h1; subst h2
    simp only [beq_self_eq_true, if_true]
    split
    · rename_i hh
      right; left
      refine ⟨rfl, ?_⟩
      have := (rows_le_iff m k 2 1 (by omega)).mp (by omega)
      omega
    · left; rfl
  · simp only [] at h
    have : ¬ (rows == 0) = true := by simp; omega
    rw [if_neg this]
    right; right
    exact h

/-- acceptance: for `k ≥ 2` check words the dimensions pass the limit test iff everything fits in 900
    codewords -/
theorem calcDimensions_accept_iff (m k : Nat) (hk : 2 ≤ k) :
    (2 ≤ (calcDimensions m k).1 ∧ (calcDimensions m k).1 ≤ 30 ∧
      2 ≤ (calcDimensions m k).2 ∧ (calcDimensions m k).2 ≤ 30) ↔ m + 1 + k ≤ 900 := by
  constructor
  · intro h
    apply Nat.le_of_not_lt
    intro hbig
    have hl := loop_none m k hbig 29 2 (some (0, 1), 0, 0) (by omega) (by omega)
    have : calcDimensions m k = (0, 0) := by
      rw [calcDimensions_eq, hl]
      simp only [finish, beq_self_eq_true, if_true]
      have : ¬ calculateNumberOfRows m k 2 < 2 := by
        intro hh
        have := (rows_le_iff m k 2 1 (by omega)).mp (by omega)
        omega
      rw [if_neg this]
    rw [this] at h
    omega
  · intro hsmall
    -- the column count c0 = max 2 ⌈t/30⌉ is acceptable
    have hf : (calcDimensionsLoop m k 29 2 (some (0, 1), 0, 0)).2.2 ≠ 0 := by
      by_cases h60 : m + 1 + k ≤ 60
      · exact loop_finds m k 29 2 _ 2 (by omega) (by omega) (by omega) (by omega) (by omega)
      · exact loop_finds m k 29 2 _ ((m + 1 + k + 29) / 30) (by omega) (by omega) (by omega) (by omega)
          (by omega)
    rcases calcDimensions_cases m k with h | ⟨_, h⟩ | h
    · exfalso
      rw [calcDimensions_eq] at h
      generalize calcDimensionsLoop m k 29 2 (some (0, 1), 0, 0) = st at *
      obtain ⟨ratio, cols, rows⟩ := st
      simp only [finish] at h hf
      have : ¬ (rows == 0) = true := by simpa using hf
      rw [if_neg this] at h
      simp only [Prod.mk.injEq] at h
      omega
    · omega
    · exact ⟨h.1, h.2.1, h.2.2.2.1, h.2.2.2.2⟩

end BV.Proofs.PdfDims
