/-
  C02 item 7: from a merge certificate to what the reference checks: the merged image has the finder L and the
  clock tracks around every data region (`Spec.finderOk`) and its data regions, butted together
  (`Spec.mappingModule`), are the mapping matrix of the layout.
-/
import BV.Proofs.DmMerge
import BV.Proofs.DmSize
namespace BV.Proofs.DmFrame
open BV BV.Model BV.Model.Datamatrix BV.Spec.Datamatrix BV.Proofs.DmMergeSym BV.Proofs.DmMerge BV.Proofs.DmSize

/-- the module colour function of the `barcode.Barcode` view of a `datamatrixCode` -/
def darkOf (c : DatamatrixCode) : Nat → Nat → Bool :=
  fun x y => match c.get x y with | .ok b => b | .error _ => false

theorem toBarcode_dark (c : DatamatrixCode) : c.toBarcode.dark = darkOf c := rfl

theorem getBit_nat (a : Array Bool) (i : Nat) (v : Bool) (h : a[i]? = some v) : getBit a (i : Int) = .ok v := by
  unfold getBit
  have h0 : (0 : Int) ≤ (i : Int) := by omega
  have hlt : i < a.size := by
    rcases Nat.lt_or_ge i a.size with h1 | h1
    · exact h1
    · rw [Array.getElem?_eq_none h1] at h; cases h
  rw [if_pos h0, Int.toNat_natCast, dif_pos hlt]
  rw [Array.getElem?_eq_getElem hlt] at h
  cases h; rfl

/-- the facts of `agrees` that the frame argument uses -/
theorem agrees_facts {s : CodeSize} {a : Attr} (h : agrees s a = true) :
    s.rows = (a.size : Int) ∧ s.columns = (a.size : Int) ∧ s.matrixRows = (a.mapping : Int) ∧
    s.matrixColumns = (a.mapping : Int) ∧ s.dataCodewords = (a.dataCW : Int) ∧ s.eccCount = (a.eccCW : Int) ∧
    s.blockCount = (a.blocks : Int) ∧ s.errorCorrectionCodewordsPerBlock = (a.blockEcc : Int) ∧
    (∀ b, b < a.blocks → s.dataCodewordsForBlock (b : Int) = (a.blockData b : Int)) ∧
    0 < a.blocks ∧ 2 ≤ a.mapping ∧
    (a.mapping * a.mapping = 8 * (a.dataCW + a.eccCW) ∨ a.mapping * a.mapping = 8 * (a.dataCW + a.eccCW) + 4) := by
  unfold agrees at h
  simp only [Bool.and_eq_true, beq_iff_eq, decide_eq_true_eq, List.all_eq_true, List.mem_range] at h
  obtain ⟨⟨⟨⟨⟨⟨⟨⟨⟨⟨⟨⟨⟨⟨⟨⟨h1, h2⟩, _⟩, _⟩, _⟩, _⟩, h7⟩, h8⟩, h9⟩, h10⟩, h11⟩, h12⟩, h13⟩, h14⟩, _⟩, h16⟩, h17⟩ := h
  exact ⟨h1, h2, h7, h8, h9, h10, h11, h12, h13, h14, h16, h17⟩

section frame
variable {s : CodeSize} {a : Attr} {log : MLog} {c : DatamatrixCode} {color : Scheme} {mat : Array Bool}

/-- inside the image the module colour is the value of the expected source -/
theorem dark_eq (hrows : s.rows = (a.size : Int)) (hf : CertFacts s a log)
    (hrel : RelB s color mat (a.size * a.size) c log) (x y : Nat) (hx : x < a.size) (hy : y < a.size) :
    darkOf c x y = evalSrc mat (specSrc a (x * a.size + y)) := by
  have hk : x * a.size + y < a.size * a.size := by
    have : (x + 1) * a.size ≤ a.size * a.size := Nat.mul_le_mul_right _ hx
    rw [Nat.add_mul] at this
    omega
  have hb := hrel.hbits (x * a.size + y)
  rw [if_pos (Nat.lt_of_lt_of_le hk (DmMerge.le_cap _)), hf.hsrc _ hk] at hb
  unfold darkOf DatamatrixCode.get
  rw [hrel.hsize, hrows]
  have e : (x : Int) * (a.size : Int) + (y : Int) = ((x * a.size + y : Nat) : Int) := by
    rw [Int.natCast_add, Int.natCast_mul]
  rw [e, getBit_nat _ _ _ hb]

theorem evalSrc_bit (p : Prop) [Decidable p] : evalSrc mat (if p then 1 else 0) = decide p := by
  by_cases h : p <;> simp [evalSrc, h]

/-- the finder L and the clock tracks of every data region -/
theorem finder_ok (hrows : s.rows = (a.size : Int)) (hf : CertFacts s a log)
    (hrel : RelB s color mat (a.size * a.size) c log) : finderOk a (darkOf c) = true := by
  have hfr := hf.hframe
  unfold frameCert at hfr
  unfold finderOk regionBorderOk
  simp only [List.all_eq_true, List.mem_range, Bool.and_eq_true, decide_eq_true_eq, beq_iff_eq] at hfr ⊢
  intro ry hry rx hrx k hk
  obtain ⟨⟨⟨⟨hb, c1⟩, c2⟩, c3⟩, c4⟩ := hfr ry hry rx hrx k hk
  have d1 := dark_eq hrows hf hrel (rx * (a.regionSize + 2)) (ry * (a.regionSize + 2) + k) (by omega) (by omega)
  have d2 := dark_eq hrows hf hrel (rx * (a.regionSize + 2) + k)
    (ry * (a.regionSize + 2) + (a.regionSize + 2) - 1) (by omega) (by omega)
  have d3 := dark_eq hrows hf hrel (rx * (a.regionSize + 2) + k) (ry * (a.regionSize + 2)) (by omega) (by omega)
  have d4 := dark_eq hrows hf hrel (rx * (a.regionSize + 2) + (a.regionSize + 2) - 1)
    (ry * (a.regionSize + 2) + k) (by omega) (by omega)
  rw [c1] at d1
  rw [c2] at d2
  rw [c3, evalSrc_bit] at d3
  rw [c4, evalSrc_bit] at d4
  refine ⟨⟨⟨?_, ?_⟩, ?_⟩, ?_⟩
  · rw [d1]; simp [evalSrc]
  · rw [d2]; simp [evalSrc]
  · rw [d3]; cases hz : (k % 2 == 0) <;> simp_all
  · rw [d4]; cases hz : (k % 2 == 1) <;> simp_all

/-- the data regions, borders removed and butted together, are the mapping matrix -/
theorem mapping_ok (hrows : s.rows = (a.size : Int)) (hf : CertFacts s a log)
    (hrel : RelB s color mat (a.size * a.size) c log) (row col : Nat) (hr : row < a.mapping) (hc : col < a.mapping) :
    mappingModule a (darkOf c) row col = mat.getD (col + row * a.mapping) false := by
  have hm := hf.hmap
  unfold mapCert at hm
  simp only [List.all_eq_true, List.mem_range, Bool.and_eq_true, decide_eq_true_eq, beq_iff_eq] at hm
  obtain ⟨hb, hsrc⟩ := hm row hr col hc
  unfold mappingModule
  simp only
  rw [dark_eq hrows hf hrel _ _ hb.1 hb.2, hsrc]
  unfold evalSrc
  have h1 : ¬ 2 + (col + row * a.mapping) = 0 := by omega
  have h2 : ¬ 2 + (col + row * a.mapping) = 1 := by omega
  rw [if_neg h1, if_neg h2]
  congr 1
  omega

end frame

/-- **item 7** for one table pair with a certificate: `Merge` does not panic, keeps size and colour, draws the
    finder pattern the reference checks, and carries the layout's matrix in its data regions. -/
theorem merge_frame (s : CodeSize) (a : Attr) (hag : agrees s a = true) (hcert : certOk s a = true)
    (l : CodeLayout) (hl : l.size = s) (hmat : a.mapping * a.mapping ≤ l.matrix.size) :
    ∃ c, l.merge = .ok c ∧ c.size = s ∧ c.color = l.color ∧ c.content = [] ∧
      finderOk a (darkOf c) = true ∧
      ∀ row col, row < a.mapping → col < a.mapping →
        mappingModule a (darkOf c) row col = l.matrix.getD (col + row * a.mapping) false := by
  obtain ⟨log, hf⟩ := certFacts s a hcert
  obtain ⟨hrows, hcols, hmr, hmc, _⟩ := agrees_facts hag
  have hn : (l.size.rows * l.size.columns).toNat = a.size * a.size := by
    rw [hl, hrows, hcols, ← Int.natCast_mul, Int.toNat_natCast]
  have hnm : (l.size.matrixColumns * l.size.matrixRows).toNat = a.mapping * a.mapping := by
    rw [hl, hmr, hmc, ← Int.natCast_mul, Int.toNat_natCast]
  obtain ⟨c, hm, hrel⟩ := merge_of_sym l log (by rw [hnm]; intro j hj; omega) (hl ▸ hf.hsym)
  rw [hn, hl] at hrel
  exact ⟨c, hm, hrel.hsize, hrel.hcolor, hrel.hcontent, finder_ok hrows hf hrel,
    fun row col hr hc => mapping_ok hrows hf hrel row col hr hc⟩

end BV.Proofs.DmFrame
