/-
  QR: coordinates and sizes in `render`.  The model's `QRCode.get/set` are total (`getD`, `setIfInBounds`) on the
  ground that every call site of package qr uses 0 ≤ x, y < dimension.  This file proves that claim for the
  writes of `render` (function patterns and data modules), that all nine bitmaps keep side `modulWidth`
  (so an in-range coordinate pair is an in-range bit index), and the size of the returned symbol.
-/
import BV.Proofs.QrRender
namespace BV.Proofs.QrCoords
open BV BV.Model BV.Model.Qr BV.Gen.Qr BV.Proofs.QrTables BV.Proofs.QrStreamA BV.Proofs.QrRender

theorem mem_intRange {lo : Int} {n : Nat} {x : Int} (h : x ∈ intRange lo n) : lo ≤ x ∧ x < lo + n := by
  unfold intRange at h
  obtain ⟨i, hi, e⟩ := List.mem_map.mp h
  rw [List.mem_range] at hi
  omega

section
variable {σ : Type} (P : σ → Prop) (set : Nat → Nat → Bool → σ → σ) (vi : VersionInfo)
  (hset : ∀ x y v st, x < vi.modulWidth → y < vi.modulWidth → P st → P (set x y v st))
include hset

/-- `drawFinderPatterns` applies `set` only to coordinates inside the symbol (its own bounds check) -/
theorem drawFinderPatterns_guard (st : σ) (h : P st) : P (drawFinderPatterns vi set st) := by
  unfold drawFinderPatterns
  simp only
  have hdp : ∀ (xoff yoff : Int) (st : σ), P st → P ((intRange (-1) 9).foldl (fun st x =>
      (intRange (-1) 9).foldl (fun st y =>
        let val := (x == 0 || x == 6 || y == 0 || y == 6 || (x > 1 && x < 5 && y > 1 && y < 5)) &&
          (x ≤ 6 && y ≤ 6 && x ≥ 0 && y ≥ 0)
        if x + xoff ≥ 0 && x + xoff < (vi.modulWidth : Int) && y + yoff ≥ 0 && y + yoff < (vi.modulWidth : Int) then
          set (x + xoff).toNat (y + yoff).toNat val st
        else st) st) st) := by
    intro xoff yoff st h
    apply foldl_inv P _ _ _ h
    intro a x _ ha
    apply foldl_inv P _ _ _ ha
    intro a y _ ha
    simp only
    split
    · rename_i hc
      simp only [Bool.and_eq_true, decide_eq_true_eq] at hc
      exact hset _ _ _ _ (by omega) (by omega) ha
    · exact ha
  exact hdp _ _ _ (hdp _ _ _ (hdp _ _ _ h))

/-- `drawAlignmentPatterns` applies `set` only inside the symbol: the centres lie in 6 .. dim-7 -/
theorem drawAlignmentPatterns_guard (occ : σ → Nat → Nat → Bool)
    (h1 : 1 ≤ vi.version) (h40 : vi.version ≤ 40) (st : σ) (h : P st) :
    P (drawAlignmentPatterns occ vi set st) := by
  unfold drawAlignmentPatterns
  simp only
  have hr : ∀ c ∈ vi.alignmentPatternPlacements, 6 ≤ c ∧ c + 7 ≤ vi.modulWidth := by
    intro c hc
    rw [alignmentPatternPlacements_eq] at hc
    have := (alignment_range_cert vi.version (by omega) h1).1 c hc
    rw [modulWidth_eq vi h1]; exact this
  apply foldl_inv P _ _ _ h
  intro a x hx ha
  apply foldl_inv P _ _ _ ha
  intro a y hy ha
  split
  · exact ha
  · have hx' := hr x hx
    have hy' := hr y hy
    apply foldl_inv P _ _ _ ha
    intro a x' hx'' ha
    apply foldl_inv P _ _ _ ha
    intro a y' hy'' ha
    have := mem_intRange hx''
    have := mem_intRange hy''
    exact hset _ _ _ _ (by omega) (by omega) ha

/-- `drawFormatInfo` applies `set` only inside the symbol (dim ≥ 21) -/
theorem drawFormatInfo_guard (usedMask : Int) (hdim : 21 ≤ vi.modulWidth) (st : σ) (h : P st) :
    P (drawFormatInfo vi usedMask set st) := by
  unfold drawFormatInfo
  simp only
  repeat' split
  all_goals first
    | exact h
    | (apply foldl_inv P _ _ _ h
       intro a c hc ha
       have : c.1 < vi.modulWidth ∧ c.2.1 < vi.modulWidth := by
         generalize vi.modulWidth = d at *
         simp only [List.mem_cons, List.not_mem_nil, or_false] at hc
         rcases hc with rfl | rfl | rfl | rfl | rfl | rfl | rfl | rfl | rfl | rfl | rfl | rfl | rfl | rfl | rfl |
           rfl | rfl | rfl | rfl | rfl | rfl | rfl | rfl | rfl | rfl | rfl | rfl | rfl | rfl | rfl <;>
           constructor <;> simp only <;> omega
       exact hset _ _ _ _ this.1 this.2 ha)

/-- `drawVersionInfo` applies `set` only inside the symbol (the 6×3 and 3×6 blocks; dim ≥ 21) -/
theorem drawVersionInfo_guard (hdim : 21 ≤ vi.modulWidth) (st : σ) (h : P st) :
    P (drawVersionInfo vi set st) := by
  unfold drawVersionInfo
  split
  · exact h
  · rename_i bits hb
    have h18 : bits.length = 18 := by
      by_cases hv : vi.version < 7 ∨ 40 < vi.version
      · rw [versionInfoBits_none _ hv] at hb; cases hb
      · obtain ⟨bits', hb', hl, _⟩ := versionInfoBits_bch vi.version (by omega) (by omega)
        rw [hb'] at hb
        simp only [Option.some.injEq] at hb
        rw [← hb]; exact hl
    split
    · apply foldl_inv P _ _ _ h
      intro a i hi ha
      rw [List.mem_range, h18] at hi
      exact hset _ _ _ _ (by omega) (by omega) (hset _ _ _ _ (by omega) (by omega) ha)
    · exact h

end

/-! ### the function-pattern phase of `render`, abstracted over its closures -/

/-- `drawn` with the three closures (`setAll`, `occupied.Set`, `results[i].Set`), the read of `occupied` and
    the initial state as parameters -/
def drawnG {σ : Type} (vi : VersionInfo) (occ : σ → Nat → Nat → Bool)
    (setA setO : Nat → Nat → Bool → σ → σ) (setR : Nat → Nat → Nat → Bool → σ → σ) (st : σ) : σ :=
  let dim := vi.modulWidth
  let st := drawFinderPatterns vi setA st
  let st := drawAlignmentPatterns occ vi setA st
  let st := (List.range dim).foldl (fun (st : σ) i =>
    let st := if !occ st i 6 then setA i 6 (i % 2 == 0) st else st
    let st := if !occ st 6 i then setA 6 i (i % 2 == 0) st else st
    st) st
  let st := setA 8 (dim - 8) true st
  let st := drawVersionInfo vi setA st
  let st := drawFormatInfo vi (-1) setO st
  (List.range 8).foldl (fun st (i : Nat) => drawFormatInfo vi (i : Int) (setR i) st) st

/-- the real `render` is the instance with its own closures -/
theorem drawn_eq_drawnG (vi : VersionInfo) (color : Scheme) :
    drawn vi color = drawnG vi (fun st x y => st.occupied.get x y) setAll setOccupied setResult
      { occupied := newBarCodeWithColor vi.modulWidth color,
        results := (List.range 8).foldl (fun a _ => a.push (newBarCodeWithColor vi.modulWidth color)) #[] } := by
  unfold drawn drawnG
  rfl

/-- Every `Set` call of the function-pattern phase of `render` (finder, alignment, timing patterns, dark module,
    version and format information) has both coordinates inside the symbol: any property that in-range calls
    of the closures preserve is preserved by the whole phase.  For every row of the table. -/
theorem drawnG_guard {σ : Type} (P : σ → Prop) (vi : VersionInfo) (hmem : vi ∈ versionInfos)
    (occ : σ → Nat → Nat → Bool) (setA setO : Nat → Nat → Bool → σ → σ) (setR : Nat → Nat → Nat → Bool → σ → σ)
    (hA : ∀ x y v st, x < vi.modulWidth → y < vi.modulWidth → P st → P (setA x y v st))
    (hO : ∀ x y v st, x < vi.modulWidth → y < vi.modulWidth → P st → P (setO x y v st))
    (hR : ∀ i x y v st, i < 8 → x < vi.modulWidth → y < vi.modulWidth → P st → P (setR i x y v st))
    (st : σ) (h : P st) : P (drawnG vi occ setA setO setR st) := by
  obtain ⟨h1, h40, _⟩ := mem_versionInfos_range hmem
  have hdim : 21 ≤ vi.modulWidth := by rw [modulWidth_eq vi h1]; omega
  unfold drawnG
  simp only
  apply foldl_inv P
  · apply drawFormatInfo_guard P _ vi hO _ hdim
    apply drawVersionInfo_guard P _ vi hA hdim
    apply hA _ _ _ _ (by omega) (by omega)
    apply foldl_inv P
    · apply drawAlignmentPatterns_guard P _ vi hA _ h1 h40
      exact drawFinderPatterns_guard P _ vi hA _ h
    · intro a i hi ha
      rw [List.mem_range] at hi
      have h1 : P (if (!occ a i 6) = true then setA i 6 (i % 2 == 0) a else a) :=
        ite_inv P _ _ _ (hA _ _ _ _ hi (by omega) ha) ha
      exact ite_inv P _ _ _ (hA _ _ _ _ (by omega) hi h1) h1
  · intro a i hi ha
    rw [List.mem_range] at hi
    exact drawFormatInfo_guard P _ vi (hR i · · · · hi) _ hdim _ ha

/-! ### the zig-zag walk stays inside the symbol -/

def PtOk (d : Int) (p : Int × Int) : Prop := 0 ≤ p.1 ∧ p.1 < d ∧ 0 ≤ p.2 ∧ p.2 < d

/-- the column of the walk: even and ≥ 8 right of the timing column, odd and ≥ 1 left of it; so `curX - 1 ≥ 0` -/
def XOk (d x : Int) : Prop := x < d ∧ ((x % 2 = 0 ∧ 8 ≤ x) ∨ (x % 2 = 1 ∧ 1 ≤ x))

theorem go_range (d : Int) (fuel : Nat) (curX curY : Int) (up : Bool) (acc : Array (Int × Int))
    (hx : XOk d curX) (hy : 0 ≤ curY ∧ curY < d) (hacc : ∀ p ∈ acc, PtOk d p) :
    ∀ p ∈ allPoints.go d fuel curX curY up acc, PtOk d p := by
  induction fuel generalizing curX curY up acc with
  | zero => unfold allPoints.go; exact hacc
  | succ fuel ih =>
    unfold allPoints.go
    simp only
    have hacc' : ∀ p ∈ (acc.push (curX, curY)).push (curX - 1, curY), PtOk d p := by
      intro p hp
      rcases Array.mem_push.mp hp with hp | rfl
      · rcases Array.mem_push.mp hp with hp | rfl
        · exact hacc p hp
        · unfold PtOk XOk at *; simp only; omega
      · unfold PtOk XOk at *; simp only; omega
    have hx2 : ∀ x', x' = (if (curX - 2 == 6) = true then curX - 2 - 1 else curX - 2) → ¬ x' < 0 → XOk d x' := by
      intro x' e hn
      unfold XOk at *
      by_cases h6 : curX - 2 = 6
      · have : (curX - 2 == 6) = true := by simp [h6]
        rw [this, if_pos rfl] at e; omega
      · have : (curX - 2 == 6) = false := by simp [h6]
        rw [this] at e; simp only [Bool.false_eq_true, if_false] at e; omega
    generalize hx'e : (if (curX - 2 == 6) = true then curX - 2 - 1 else curX - 2) = x'
    have hx2' := hx2 x' hx'e.symm
    split
    · split
      · split
        · exact hacc'
        · rename_i hn
          exact ih _ _ _ _ (hx2' hn) (by omega) hacc'
      · exact ih _ _ _ _ hx (by omega) hacc'
    · split
      · split
        · exact hacc'
        · rename_i hn
          exact ih _ _ _ _ (hx2' hn) (by omega) hacc'
      · exact ih _ _ _ _ hx (by omega) hacc'

/-- every point of the zig-zag walk lies inside the symbol, for the side length of any version ≥ 1 -/
theorem allPoints_range (v : Nat) (hv : 1 ≤ v) :
    ∀ p ∈ allPoints (17 + 4 * v), PtOk ((17 + 4 * v : Nat) : Int) p := by
  unfold allPoints
  simp only
  apply go_range
  · unfold XOk; omega
  · omega
  · intro p hp; simp [Array.mkEmpty] at hp

/-- every module that the data loop of `render` writes lies inside the symbol -/
theorem iterateModules_range (occupied : QRCode) (v : Nat) (hv : 1 ≤ v) (hd : occupied.dimension = 17 + 4 * v) :
    ∀ p ∈ iterateModules occupied, p.1 < occupied.dimension ∧ p.2 < occupied.dimension := by
  intro p hp
  unfold iterateModules at hp
  rw [Array.mem_filterMap] at hp
  obtain ⟨q, hq, e⟩ := hp
  rw [hd] at hq
  have := allPoints_range v hv q hq
  unfold PtOk at this
  split at e
  · simp only [Option.some.injEq] at e
    rw [← e, hd]; simp only; omega
  · cases e

/-! ### size of the bitmaps -/

/-- in-range coordinates give an in-range bit index `x*dim+y` -/
theorem index_lt (x y d : Nat) (hx : x < d) (hy : y < d) : x * d + y < d * d := by
  have : (x + 1) * d ≤ d * d := Nat.mul_le_mul_right d hx
  rw [Nat.succ_mul] at this
  omega

/-- a bitmap of side `d` with colour scheme `c` -/
def QROk (c : Scheme) (d : Nat) (q : QRCode) : Prop := q.dimension = d ∧ q.data.size = d * d ∧ q.color = c

variable {c : Scheme}

theorem QROk_new (d : Nat) (c : Scheme) : QROk c d (newBarCodeWithColor d c) := by
  unfold QROk newBarCodeWithColor; simp

theorem QROk_set (d x y : Nat) (v : Bool) (q : QRCode) (h : QROk c d q) : QROk c d (QRCode.set x y v q) := by
  unfold QROk QRCode.set at *; simp only [Array.size_setIfInBounds]; exact h

theorem QROk_setMasked (d x y : Nat) (v : Bool) (m : Nat) (q : QRCode) (h : QROk c d q) :
    QROk c d (setMasked x y v m QRCode.set q) := by
  unfold setMasked; exact QROk_set _ _ _ _ _ h

/-- all nine bitmaps of `render` have side `d` -/
def StOk (c : Scheme) (d : Nat) (st : RenderState) : Prop :=
  QROk c d st.occupied ∧ st.results.size = 8 ∧ ∀ q ∈ st.results, QROk c d q

theorem modifyAll_ok (d : Nat) (rs : Array QRCode) (f : Nat → QRCode → QRCode)
    (hf : ∀ i q, QROk c d q → QROk c d (f i q)) (h : ∀ q ∈ rs, QROk c d q) :
    ∀ q ∈ (List.range 8).foldl (fun (rs : Array QRCode) i => rs.modify i (f i)) rs, QROk c d q := by
  apply foldl_inv (fun (a : Array QRCode) => ∀ q ∈ a, QROk c d q)
  · exact h
  · intro a i _ ha q hq
    obtain ⟨j, hj, e⟩ := Array.mem_iff_getElem.mp hq
    rw [Array.getElem_modify] at e
    have hj' : j < a.size := by simpa using hj
    split at e
    · rw [← e]; exact hf _ _ (ha _ (Array.getElem_mem hj'))
    · rw [← e]; exact ha _ (Array.getElem_mem hj')

theorem setAll_ok (d x y : Nat) (v : Bool) (st : RenderState) (h : StOk c d st) : StOk c d (setAll x y v st) := by
  obtain ⟨h1, h2, h3⟩ := h
  unfold StOk setAll
  simp only
  refine ⟨QROk_set _ _ _ _ _ h1, ?_, ?_⟩
  · rw [modifyAll_size st.results (fun _ => QRCode.set x y v)]; exact h2
  · exact modifyAll_ok d st.results (fun _ => QRCode.set x y v) (fun _ q hq => QROk_set _ _ _ _ _ hq) h3

theorem setResult_ok (d i x y : Nat) (v : Bool) (st : RenderState) (h : StOk c d st) :
    StOk c d (setResult i x y v st) := by
  obtain ⟨h1, h2, h3⟩ := h
  have h2' := setResult_eight i x y v st h2
  unfold Eight at h2'
  refine ⟨h1, h2', ?_⟩
  intro q hq
  unfold setResult at hq
  simp only at hq
  obtain ⟨j, hj, e⟩ := Array.mem_iff_getElem.mp hq
  rw [Array.getElem_modify] at e
  have hj' : j < st.results.size := by simpa using hj
  split at e
  · rw [← e]; exact QROk_set _ _ _ _ _ (h3 _ (Array.getElem_mem hj'))
  · rw [← e]; exact h3 _ (Array.getElem_mem hj')

theorem setOccupied_ok (d x y : Nat) (v : Bool) (st : RenderState) (h : StOk c d st) :
    StOk c d (setOccupied x y v st) := by
  obtain ⟨h1, h2, h3⟩ := h
  exact ⟨QROk_set _ _ _ _ _ h1, h2, h3⟩


/-! ### the bitmaps through `render` -/

theorem init_ok (d : Nat) (color : Scheme) :
    StOk color d (RenderState.mk (newBarCodeWithColor d color)
      ((List.range 8).foldl (fun a _ => a.push (newBarCodeWithColor d color)) #[])) := by
  refine ⟨QROk_new d color, pushN_size _ 8, ?_⟩
  simp only
  have e : List.range 8 = [0, 1, 2, 3, 4, 5, 6, 7] := by decide
  rw [e]
  intro q hq
  simp only [List.foldl_cons, List.foldl_nil] at hq
  have : q = newBarCodeWithColor d color := by
    simp only [Array.mem_push, Array.not_mem_empty, false_or, or_self] at hq
    exact hq
  rw [this]; exact QROk_new d color

/-- after the function patterns all nine bitmaps have side `modulWidth` -/
theorem drawn_ok (vi : VersionInfo) (color : Scheme) : StOk color vi.modulWidth (drawn vi color) := by
  have hA := setAll_ok (c := color) vi.modulWidth
  unfold drawn
  simp only
  apply foldl_inv (StOk color vi.modulWidth)
  · apply drawFormatInfo_inv (StOk color vi.modulWidth) _ (setOccupied_ok vi.modulWidth)
    apply drawVersionInfo_inv (StOk color vi.modulWidth) _ hA
    apply hA
    apply foldl_inv (StOk color vi.modulWidth)
    · apply drawAlignmentPatterns_inv (StOk color vi.modulWidth) _ hA
      apply drawFinderPatterns_inv (StOk color vi.modulWidth) _ hA
      exact init_ok _ _
    · intro a i _ ha
      have h1 : StOk color vi.modulWidth (if (!a.occupied.get i 6) = true then setAll i 6 (i % 2 == 0) a else a) :=
        ite_inv (StOk color vi.modulWidth) _ _ _ (hA _ _ _ _ ha) ha
      exact ite_inv (StOk color vi.modulWidth) _ _ _ (hA _ _ _ _ h1) h1
  · intro a i _ ha
    exact drawFormatInfo_inv (StOk color vi.modulWidth) _ (setResult_ok vi.modulWidth i) _ _ _ ha

theorem written_ok (d : Nat) (data : List Nat) (st : RenderState) (h : StOk c d st) :
    ∀ q ∈ (written data st).1, QROk c d q := by
  unfold written
  simp only
  apply array_foldl_inv (fun (acc : Array QRCode × Nat) => ∀ q ∈ acc.1, QROk c d q)
  · exact h.2.2
  · intro acc pos hacc
    obtain ⟨results, n⟩ := acc
    simp only
    exact modifyAll_ok d results _ (fun i q hq => QROk_setMasked _ _ _ _ _ _ hq) hacc

theorem selectMask_mem (color : Scheme) (acc : Array QRCode × Nat) (r : QRCode) (i : Nat)
    (h : selectMask color acc = .ok (r, i)) : acc.1[i]? = some r := by
  obtain ⟨results, n⟩ := acc
  unfold selectMask at h
  simp only at h
  split at h
  · cases h
  · rename_i j hj
    split at h
    · rename_i r' hr
      simp only [Except.ok.injEq, Prod.mk.injEq] at h
      rw [← h.1, ← h.2]; exact hr
    · cases h

/-- the bitmap `render` returns has side `modulWidth` (and `modulWidth²` bits); the mask index is in 0..7 -/
theorem renderWithMask_size (data : List Nat) (vi : VersionInfo) (color : Scheme) (r : QRCode) (i : Nat)
    (h : renderWithMask data vi color = .ok (r, i)) :
    r.dimension = vi.modulWidth ∧ r.data.size = vi.modulWidth * vi.modulWidth ∧ r.color = color ∧ i < 8 := by
  rw [renderWithMask_eq] at h
  have hm := selectMask_mem _ _ _ _ h
  have hsz := written_size data _ (drawn_eight vi color)
  have hi : i < (written data (drawn vi color)).1.size := by
    by_cases hlt : i < (written data (drawn vi color)).1.size
    · exact hlt
    · rw [Array.getElem?_eq_none (by omega)] at hm; cases hm
  have hmem : r ∈ (written data (drawn vi color)).1 := by
    rw [Array.getElem?_eq_getElem hi] at hm
    simp only [Option.some.injEq] at hm
    rw [← hm]; exact Array.getElem_mem hi
  have := written_ok vi.modulWidth data _ (drawn_ok vi color) r hmem
  exact ⟨this.1, this.2.1, this.2.2, by omega⟩

/-- the data loop of `render` writes only modules inside the symbol -/
theorem written_positions_range (vi : VersionInfo) (color : Scheme) (h1 : 1 ≤ vi.version) :
    ∀ p ∈ iterateModules (drawn vi color).occupied, p.1 < vi.modulWidth ∧ p.2 < vi.modulWidth := by
  have hd : (drawn vi color).occupied.dimension = vi.modulWidth := (drawn_ok vi color).1.1
  have := iterateModules_range (drawn vi color).occupied vi.version h1 (by rw [hd, modulWidth_eq vi h1])
  rw [hd] at this
  exact this

/-- size of the symbol `encodeQR` returns: side 17 + 4·version for the row the mode encoder chose -/
theorem encodeQR_size (content : Bytes) (level mode : Nat) (color : Scheme) (qr : QRCode) (vi : VersionInfo)
    (mask : Nat) (h : encodeQR content level mode color = .ok (qr, vi, mask)) :
    vi ∈ versionInfos ∧ vi.level = level ∧ qr.dimension = 17 + 4 * vi.version ∧
    qr.data.size = qr.dimension * qr.dimension ∧ mask < 8 ∧ qr.content = content ∧ qr.color = color := by
  unfold encodeQR at h
  split at h
  · cases h
  · rename_i enc hg
    split at h
    · cases h
    · rename_i bits vi' he
      obtain ⟨hmem, hl, _⟩ := encoder_result hg he
      obtain ⟨blocks, hb, _⟩ := splitToBlocks_ok (iterateBytes bits) vi' hmem
      obtain ⟨rr, hr⟩ := renderWithMask_ok (interleave blocks vi') vi' color
      obtain ⟨res, m⟩ := rr
      simp only [hb, bind, Except.bind, hr, pure, Except.pure, Except.ok.injEq, Prod.mk.injEq] at h
      obtain ⟨hq, hv, hm⟩ := h
      subst hv; subst hm
      obtain ⟨s1, s2, s3, s4⟩ := renderWithMask_size _ _ _ _ _ hr
      have hdim := modulWidth_eq vi' (mem_versionInfos_range hmem).1
      rw [← hq]
      exact ⟨hmem, hl, by simp only; omega, by simp only; rw [s2, s1], s4, rfl, s3⟩

/-! ### where the format and version bits go -/

/-- the cell list of `drawFormatInfo`: (x, y, index into the 15-bit list) -/
def formatCells (dim : Nat) : List (Nat × Nat × Nat) :=
  [(0, 8, 0), (1, 8, 1), (2, 8, 2), (3, 8, 3), (4, 8, 4), (5, 8, 5), (7, 8, 6), (8, 8, 7),
   (8, 7, 8), (8, 5, 9), (8, 4, 10), (8, 3, 11), (8, 2, 12), (8, 1, 13), (8, 0, 14),
   (8, dim - 1, 0), (8, dim - 2, 1), (8, dim - 3, 2), (8, dim - 4, 3), (8, dim - 5, 4),
   (8, dim - 6, 5), (8, dim - 7, 6), (dim - 8, 8, 7), (dim - 7, 8, 8), (dim - 6, 8, 9),
   (dim - 5, 8, 10), (dim - 4, 8, 11), (dim - 3, 8, 12), (dim - 2, 8, 13), (dim - 1, 8, 14)]

theorem drawFormatInfo_eq {σ} (vi : VersionInfo) (usedMask : Int) (set : Nat → Nat → Bool → σ → σ) (st : σ) :
    drawFormatInfo vi usedMask set st =
      let formatInfo : List Bool :=
        if usedMask == -1 then List.replicate 15 true else formatInfoOf vi.level usedMask.toNat
      if formatInfo.length == 15 then
        (formatCells vi.modulWidth).foldl (fun st c => set c.1 c.2.1 (formatInfo.getD c.2.2 false) st) st
      else st := rfl

/-- list index `i` of the format word is written where the reference decoder reads bit `14 - i` of the first
    copy (around the top-left finder) and of the second copy (split between the other two finders): index 0 is
    the most significant bit -/
theorem formatCells_spec (dim : Nat) (h : 21 ≤ dim) :
    formatCells dim =
      (List.range 15).map (fun i => ((Spec.Qr.formatPosA (14 - i)).1, (Spec.Qr.formatPosA (14 - i)).2, i)) ++
      (List.range 15).map (fun i => ((Spec.Qr.formatPosB dim (14 - i)).1, (Spec.Qr.formatPosB dim (14 - i)).2, i)) := by
  have e : List.range 15 = [0, 1, 2, 3, 4, 5, 6, 7, 8, 9, 10, 11, 12, 13, 14] := by decide
  rw [e]
  unfold formatCells Spec.Qr.formatPosA Spec.Qr.formatPosB
  simp
  omega

/-- bit `i` (0 = least significant) of the version word, i.e. list element `n-1-i`, is written where the
    reference decoder reads bit `i` of the two copies (`versionPosA`, `versionPosB`): index 0 of the generated
    list is the most significant bit -/
theorem drawVersionInfo_eq {σ} (vi : VersionInfo) (set : Nat → Nat → Bool → σ → σ) (st : σ) :
    drawVersionInfo vi set st =
      match mapGet v_versionInfoBitsByVersion (vi.version : Int) with
      | none => st
      | some bits =>
        if bits.length > 0 then
          (List.range bits.length).foldl (fun st i =>
            let a := Spec.Qr.versionPosA vi.modulWidth i
            let b := Spec.Qr.versionPosB vi.modulWidth i
            let v := bits.getD (bits.length - i - 1) false
            set b.1 b.2 v (set a.1 a.2 v st)) st
        else st := rfl


/-! ### reads -/

theorem foldl_congr_mem {α β} (f g : α → β → α) (l : List β) (init : α)
    (h : ∀ a b, b ∈ l → f a b = g a b) : l.foldl f init = l.foldl g init := by
  induction l generalizing init with
  | nil => rfl
  | cons x xs ih =>
    rw [List.foldl_cons, List.foldl_cons, h _ _ List.mem_cons_self]
    exact ih _ (fun a b hb => h a b (List.mem_cons_of_mem _ hb))

/-- two bitmaps of the same side that agree on all in-range coordinates -/
def AgreeInRange (q q' : QRCode) : Prop :=
  q.dimension = q'.dimension ∧ ∀ x y, x < q.dimension → y < q.dimension → q.get x y = q'.get x y

theorem patternFound_congr (get get' : Nat → Bool) (p : List Bool) (i : Nat)
    (h : ∀ j, i ≤ j → j < i + p.length → get j = get' j) :
    patternFound get p i = patternFound get' p i := by
  induction p generalizing i with
  | nil => rfl
  | cons b bs ih =>
    unfold patternFound
    rw [h i (Nat.le_refl _) (by simp only [List.length_cons]; omega),
      ih (i + 1) (fun j h1 h2 => h j (by omega) (by simp only [List.length_cons]; omega))]

/-- penalty rule 1 reads only modules inside the symbol -/
theorem calcPenaltyRule1_congr (q q' : QRCode) (h : AgreeInRange q q') :
    q.calcPenaltyRule1 = q'.calcPenaltyRule1 := by
  obtain ⟨hd, hg⟩ := h
  unfold QRCode.calcPenaltyRule1
  simp only
  rw [← hd]
  apply foldl_congr_mem
  intro res x hx
  rw [List.mem_range] at hx
  have : ∀ init, (List.range q.dimension).foldl (fun (st : Nat × Bool × Nat × Bool × Nat) y =>
        let (result, checkForX, cntX, checkForY, cntY) := st
        let (result, checkForX, cntX) :=
          if q.get x y == checkForX then (result, checkForX, cntX + 1)
          else (if cntX ≥ 5 then result + (cntX - 2) else result, !checkForX, 1)
        let (result, checkForY, cntY) :=
          if q.get y x == checkForY then (result, checkForY, cntY + 1)
          else (if cntY ≥ 5 then result + (cntY - 2) else result, !checkForY, 1)
        (result, checkForX, cntX, checkForY, cntY)) init =
      (List.range q.dimension).foldl (fun (st : Nat × Bool × Nat × Bool × Nat) y =>
        let (result, checkForX, cntX, checkForY, cntY) := st
        let (result, checkForX, cntX) :=
          if q'.get x y == checkForX then (result, checkForX, cntX + 1)
          else (if cntX ≥ 5 then result + (cntX - 2) else result, !checkForX, 1)
        let (result, checkForY, cntY) :=
          if q'.get y x == checkForY then (result, checkForY, cntY + 1)
          else (if cntY ≥ 5 then result + (cntY - 2) else result, !checkForY, 1)
        (result, checkForX, cntX, checkForY, cntY)) init := by
    intro init
    apply foldl_congr_mem
    intro st y hy
    rw [List.mem_range] at hy
    rw [hg x y hx hy, hg y x hy hx]
  simp only [this]

/-- penalty rule 2 reads only modules inside the symbol -/
theorem calcPenaltyRule2_congr (q q' : QRCode) (h : AgreeInRange q q') :
    q.calcPenaltyRule2 = q'.calcPenaltyRule2 := by
  obtain ⟨hd, hg⟩ := h
  unfold QRCode.calcPenaltyRule2
  simp only
  rw [← hd]
  apply foldl_congr_mem
  intro res x hx
  rw [List.mem_range] at hx
  apply foldl_congr_mem
  intro res y hy
  rw [List.mem_range] at hy
  rw [hg x y (by omega) (by omega), hg x (y + 1) (by omega) (by omega), hg (x + 1) y (by omega) (by omega),
    hg (x + 1) (y + 1) (by omega) (by omega)]

/-- penalty rule 3 reads only modules inside the symbol -/
theorem calcPenaltyRule3_congr (q q' : QRCode) (h : AgreeInRange q q') :
    q.calcPenaltyRule3 = q'.calcPenaltyRule3 := by
  obtain ⟨hd, hg⟩ := h
  unfold QRCode.calcPenaltyRule3
  simp only
  rw [← hd]
  have hl1 : l_qrcode_calcPenaltyRule3_pattern1.length = 11 := by decide
  have hl2 : l_qrcode_calcPenaltyRule3_pattern2.length = 11 := by decide
  rw [hl1]
  apply foldl_congr_mem
  intro res x hx
  rw [List.mem_range] at hx
  have hx' : x + 11 ≤ q.dimension := by
    split at hx <;> omega
  apply foldl_congr_mem
  intro res y hy
  rw [List.mem_range] at hy
  rw [patternFound_congr (fun i => q.get i y) (fun i => q'.get i y) l_qrcode_calcPenaltyRule3_pattern1 x
        (fun j h1 h2 => hg j y (by omega) hy),
      patternFound_congr (fun i => q.get i y) (fun i => q'.get i y) l_qrcode_calcPenaltyRule3_pattern2 x
        (fun j h1 h2 => hg j y (by omega) hy),
      patternFound_congr (fun i => q.get y i) (fun i => q'.get y i) l_qrcode_calcPenaltyRule3_pattern1 x
        (fun j h1 h2 => hg y j hy (by omega)),
      patternFound_congr (fun i => q.get y i) (fun i => q'.get y i) l_qrcode_calcPenaltyRule3_pattern2 x
        (fun j h1 h2 => hg y j hy (by omega))]

/-- the function-pattern phase reads `occupied` only at coordinates inside the symbol: two read functions that
    agree there give the same run -/
theorem drawnG_occ_congr {σ : Type} (vi : VersionInfo) (hmem : vi ∈ versionInfos)
    (occ occ' : σ → Nat → Nat → Bool)
    (h : ∀ st x y, x < vi.modulWidth → y < vi.modulWidth → occ st x y = occ' st x y)
    (setA setO : Nat → Nat → Bool → σ → σ) (setR : Nat → Nat → Nat → Bool → σ → σ) (st : σ) :
    drawnG vi occ setA setO setR st = drawnG vi occ' setA setO setR st := by
  obtain ⟨h1, h40, _⟩ := mem_versionInfos_range hmem
  have hdim : 21 ≤ vi.modulWidth := by rw [modulWidth_eq vi h1]; omega
  have hr : ∀ c ∈ vi.alignmentPatternPlacements, c < vi.modulWidth := by
    intro c hc
    rw [alignmentPatternPlacements_eq] at hc
    have := (alignment_range_cert vi.version (by omega) h1).1 c hc
    rw [modulWidth_eq vi h1]; omega
  have ha : ∀ st, drawAlignmentPatterns occ vi setA st = drawAlignmentPatterns occ' vi setA st := by
    intro st
    unfold drawAlignmentPatterns
    simp only
    apply foldl_congr_mem
    intro a x hx
    apply foldl_congr_mem
    intro a y hy
    rw [h a x y (hr x hx) (hr y hy)]
  have ht : ∀ st, (List.range vi.modulWidth).foldl (fun (st : σ) i =>
        let st := if !occ st i 6 then setA i 6 (i % 2 == 0) st else st
        let st := if !occ st 6 i then setA 6 i (i % 2 == 0) st else st
        st) st =
      (List.range vi.modulWidth).foldl (fun (st : σ) i =>
        let st := if !occ' st i 6 then setA i 6 (i % 2 == 0) st else st
        let st := if !occ' st 6 i then setA 6 i (i % 2 == 0) st else st
        st) st := by
    intro st
    apply foldl_congr_mem
    intro a i hi
    rw [List.mem_range] at hi
    simp only
    rw [h a i 6 hi (by omega), h _ 6 i (by omega) hi]
  unfold drawnG
  simp only
  rw [ha, ht]


end BV.Proofs.QrCoords
