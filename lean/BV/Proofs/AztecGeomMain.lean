/-
  BV.Proofs.AztecGeomMain — geometry part of property C03: the symbol drawn by `render` (the drawing tail of
  `aztec.EncodeWithColor`) has the side length of ISO/IEC 24778, carries the message bits and the mode message on
  exactly the modules the reference decoder reads them from (in its order), and has the bullseye, orientation
  marks and reference grid the decoder checks — for all 36 shapes and all bit contents.
-/
import BV.Proofs.AztecGeomCert
namespace BV.Proofs.AztecGeom
open BV BV.Model.Aztec BV.Proofs.AztecBits

/-- Geometry of the rendered Aztec symbol.  For every shape (compact 1–4 layers, full-range 1–32 layers), every
    message of `totalBitsInLayer` bits, every mode message of 28 / 40 bits, every content and colour scheme, the
    symbol `code` drawn by `EncodeWithColor` satisfies: its side length is the ISO side length of the shape and
    the barcode is that square with the given content; reading the reference decoder's data modules in its order
    gives back the message bits; reading its mode message modules gives back the mode message; ring 5 is all light
    exactly in full-range symbols; the bullseye square has alternating rings with a dark centre; the orientation
    marks are the six dark corner modules of the standard; and in full-range symbols every reference grid row and
    column alternates with dark modules at even offsets.
    Proof: the drawing functions are lists of tagged `setIf` operations (`render_eq`); a layer of a larger symbol is
    the outermost layer of a smaller one moved outwards (`hit_layer`); per-shape kernel certificates (`cert_all`)
    cover the outermost layer and the fixed patterns of each shape. -/
theorem render_geometry (compact : Bool) (layers : Nat) (h : Shape compact layers)
    (messageBits modeMessage : List Bool)
    (hm : messageBits.length = totalBitsInLayer layers compact)
    (hmm : modeMessage.length = if compact then 28 else 40) (data : Bytes) (color : Scheme) :
    let code := render compact layers messageBits modeMessage data color
    let r := Spec.Aztec.modeRing compact
    code.size = Spec.Aztec.symbolSize compact layers ∧
    code.toBarcode.w = code.size ∧ code.toBarcode.h = code.size ∧ code.toBarcode.content = data ∧
    (Spec.Aztec.dataModules compact layers).map (modAt code) = messageBits ∧
    (Spec.Aztec.modeModules compact).map (modAt code) = modeMessage ∧
    (Spec.Aztec.ringWalk 5).all (fun p => !modAt code p) = !compact ∧
    (Spec.Aztec.square (r - 1)).all (fun p => modAt code p == (Spec.Aztec.cheb p % 2 == 0)) = true ∧
    ((Spec.Aztec.ringWalk r).filter (Spec.Aztec.isOrientation r)).all
        (fun p => modAt code p == (Spec.Aztec.orientationDark r).contains p) = true ∧
    (compact = false → (Spec.Aztec.square (Spec.Aztec.halfSize compact layers)).all (fun p =>
        if p.1 % 16 == 0 then modAt code p == (p.2 % 2 == 0)
        else if p.2 % 16 == 0 then modAt code p == (p.1 % 2 == 0) else true) = true) :=
  geometry_of_certs compact layers h.1
    (fun K hK1 hK2 => cert_all compact K ⟨hK1, Nat.le_trans hK2 h.2⟩) messageBits modeMessage hm hmm data color

/-- the hypotheses are satisfiable: a compact one-layer symbol with a concrete 104-bit message and a concrete
    28-bit mode message returns both on the decoder's modules -/
example :
    let mb := (List.range 104).map (fun i => i % 3 == 0)
    let mm := (List.range 28).map (fun i => i % 2 == 1)
    let code := render true 1 mb mm [65, 66] scheme16
    code.size = 15 ∧ (Spec.Aztec.dataModules true 1).map (modAt code) = mb ∧
      (Spec.Aztec.modeModules true).map (modAt code) = mm := by
  intro mb mm code
  have h := render_geometry true 1 (by decide) mb mm (by decide) (by decide) [65, 66] scheme16
  exact ⟨h.1, h.2.2.2.2.1, h.2.2.2.2.2.1⟩

/-- a full-range instance: 4 layers, 704 message bits, 40 mode bits -/
example :
    let mb := (List.range 704).map (fun i => i % 5 == 0)
    let mm := List.replicate 40 true
    let code := render false 4 mb mm [] scheme16
    (Spec.Aztec.dataModules false 4).map (modAt code) = mb ∧ (Spec.Aztec.ringWalk 5).all (fun p => !modAt code p) = true := by
  intro mb mm code
  have h := render_geometry false 4 (by decide) mb mm (by simp [mb, totalBitsInLayer]) (by decide) [] scheme16
  exact ⟨h.2.2.2.2.1, h.2.2.2.2.2.2.1⟩

end BV.Proofs.AztecGeom
