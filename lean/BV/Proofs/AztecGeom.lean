/-
  BV.Proofs.AztecGeom — geometry of the Aztec symbol drawn by `render` (the drawing tail of `EncodeWithColor`).

  * every drawing function is a list of tagged `setIf` operations (`render_eq`); a module is dark iff an operation
    whose condition holds hits it (`at_applyOps`, `hit`);
  * a packed map (one 16-bit slot per module in a single `Nat`) records which operation determines each module
    (`build`, `hit_of_build`); Boolean checkers compare it with the module positions of the reference decoder;
  * layer `i` of a symbol with `L' + i` layers is the outermost layer of the symbol with `L'` layers, moved
    outwards by the difference of the centres (`hit_layer`), so the certificate of a shape (`cert`) only has to
    cover its outermost layer and its fixed patterns; Chebyshev distance bounds (`farOK`, `nearOK`) keep the
    layers, the fixed patterns and the reference grid apart;
  * `geometry_of_certs` derives the geometry statement of a shape from the certificates of all shapes with at
    most as many layers.  The certificates are evaluated in `AztecGeomCertA/B/C`.
-/
import BV.Proofs.AztecBits
namespace BV.Proofs.AztecGeom
open BV BV.Model.Aztec BV.Proofs.AztecBits

/-! ### tagged operations -/

/-- a drawing operation `(tag, x, y)`: tag 0 = never, 1 = always, `2 i + 2` = message bit `i`,
    `2 i + 3` = mode message bit `i` -/
abbrev Op := Nat × Nat × Nat

/-- the condition denoted by a tag -/
def evalTag (D Mo : Array Bool) (t : Nat) : Bool :=
  if t = 0 then false else if t = 1 then true
  else if t % 2 = 0 then D.getD ((t - 2) / 2) false else Mo.getD ((t - 3) / 2) false

/-- run a list of operations -/
def applyOps (D Mo : Array Bool) (ops : List Op) (c : AztecCode) : AztecCode :=
  ops.foldl (fun c o => c.setIf (evalTag D Mo o.1) o.2.1 o.2.2) c

/-! ### the model's operations -/

/-- closed form of the alignment map -/
def amF (compact : Bool) (bms i : Nat) : Nat :=
  if compact then (if i < bms then i else 0)
  else
    let oc := bms / 2
    let center := (bms + 1 + 2 * ((bms / 2 - 1) / 15)) / 2
    if i < oc then center - ((oc - 1 - i) + (oc - 1 - i) / 15) - 1
    else if i < 2 * oc then center + ((i - oc) + (i - oc) / 15) + 1
    else 0

/-- number of two-module columns on one side of layer `i` (0 = outermost) -/
def rowSize (compact : Bool) (layers i : Nat) : Nat := (layers - i) * 4 + (if compact then 9 else 12)

/-- the writes of layer `i` of the "draw data bits" loop: for every column `j` and `k ∈ {0, 1}` one write on
    each of the four sides; the tag `2 b + 2` stands for message bit `b` -/
def layerOps (compact : Bool) (layers bms : Nat) (a : Nat → Nat) (i rowOffset : Nat) : List Op :=
  (List.range (rowSize compact layers i)).flatMap fun j => (List.range 2).flatMap fun k =>
    [ (2 * (rowOffset + j * 2 + k) + 2, a (i * 2 + k), a (i * 2 + j)),
      (2 * (rowOffset + rowSize compact layers i * 2 + j * 2 + k) + 2, a (i * 2 + j), a (bms - 1 - i * 2 - k)),
      (2 * (rowOffset + rowSize compact layers i * 4 + j * 2 + k) + 2, a (bms - 1 - i * 2 - k),
        a (bms - 1 - i * 2 - j)),
      (2 * (rowOffset + rowSize compact layers i * 6 + j * 2 + k) + 2, a (bms - 1 - i * 2 - j), a (i * 2 + k)) ]

/-- the layer loop with its running bit offset -/
def dataOpsFrom (compact : Bool) (layers bms : Nat) (a : Nat → Nat) : List Nat → Nat → List Op
  | [], _ => []
  | i :: is, off =>
    layerOps compact layers bms a i off ++
      dataOpsFrom compact layers bms a is (off + rowSize compact layers i * 8)

/-- all writes of the "draw data bits" loop -/
def dataOps (compact : Bool) (layers bms : Nat) (a : Nat → Nat) : List Op :=
  dataOpsFrom compact layers bms a (List.range layers) 0

/-- the writes of `drawModeMessage`; the tag `2 b + 3` stands for mode message bit `b` -/
def modeOps (compact : Bool) (n : Nat) : List Op :=
  if compact then
    (List.range 7).flatMap fun i =>
      [ (2 * i + 3, n / 2 - 3 + i, n / 2 - 5), (2 * (i + 7) + 3, n / 2 + 5, n / 2 - 3 + i),
        (2 * (20 - i) + 3, n / 2 - 3 + i, n / 2 + 5), (2 * (27 - i) + 3, n / 2 - 5, n / 2 - 3 + i) ]
  else
    (List.range 10).flatMap fun i =>
      [ (2 * i + 3, n / 2 - 5 + i + i / 5, n / 2 - 7), (2 * (i + 10) + 3, n / 2 + 7, n / 2 - 5 + i + i / 5),
        (2 * (29 - i) + 3, n / 2 - 5 + i + i / 5, n / 2 + 7), (2 * (39 - i) + 3, n / 2 - 7, n / 2 - 5 + i + i / 5) ]

/-- the (unconditional) writes of `drawBullsEye` -/
def bullOps (center size : Nat) : List Op :=
  ((List.range ((size + 1) / 2)).flatMap fun h => (List.range (2 * (2 * h) + 1)).flatMap fun d =>
    [ (1, center - 2 * h + d, center - 2 * h), (1, center - 2 * h + d, center + 2 * h),
      (1, center - 2 * h, center - 2 * h + d), (1, center + 2 * h, center - 2 * h + d) ]) ++
  [ (1, center - size, center - size), (1, center - size + 1, center - size), (1, center - size, center - size + 1),
    (1, center + size, center - size), (1, center + size, center - size + 1), (1, center + size, center + size - 1) ]

/-- the (unconditional) writes of the reference grid loop -/
def gridOps (bms n : Nat) : List Op :=
  (List.range ((bms / 2 + 14) / 15)).flatMap fun l =>
    (List.range ((n + 1 - n / 2 % 2) / 2)).flatMap fun t =>
      [ (1, n / 2 - 16 * l, n / 2 % 2 + 2 * t), (1, n / 2 + 16 * l, n / 2 % 2 + 2 * t),
        (1, n / 2 % 2 + 2 * t, n / 2 - 16 * l), (1, n / 2 % 2 + 2 * t, n / 2 + 16 * l) ]

/-- `baseMatrixSize` of `EncodeWithColor` -/
def baseSize (compact : Bool) (layers : Nat) : Nat := if compact then 11 + layers * 4 else 14 + layers * 4

/-- `matrixSize` of `EncodeWithColor` -/
def matSize (compact : Bool) (layers : Nat) : Nat :=
  if compact then baseSize compact layers
  else baseSize compact layers + 1 + 2 * ((baseSize compact layers / 2 - 1) / 15)

/-- all writes of `EncodeWithColor` in program order -/
def allOps (compact : Bool) (layers : Nat) : List Op :=
  dataOps compact layers (baseSize compact layers) (amF compact (baseSize compact layers)) ++
  (modeOps compact (matSize compact layers) ++
  (bullOps (matSize compact layers / 2) (if compact then 5 else 7) ++
  (if compact then [] else gridOps (baseSize compact layers) (matSize compact layers))))

/-! ### the packed map -/

/-- the 16-bit slot `s` of the packed map `M` -/
def val (M s : Nat) : Nat := (M >>> (16 * s)) % 65536

/-- run the operations against the packed map of a matrix of side `n`: every operation must lie inside the
    matrix and may only write to an empty slot or repeat the tag that is already there -/
def build (n : Nat) : List Op → Nat → Option Nat
  | [], M => some M
  | o :: os, M =>
    bif Nat.blt o.2.1 n && Nat.blt o.2.2 n && Nat.blt o.1 65536 &&
        (Nat.beq (val M (o.2.1 * n + o.2.2)) 0 || Nat.beq (val M (o.2.1 * n + o.2.2)) o.1) then
      build n os (M ||| (o.1 <<< (16 * (o.2.1 * n + o.2.2))))
    else none

/-! ### the model's drawing functions are operation lists -/

/-- an even tag `2 i + 2` denotes message bit `i` -/
theorem evalTag_data (D Mo : Array Bool) (i : Nat) : evalTag D Mo (2 * i + 2) = D.getD i false := by
  unfold evalTag
  have h0 : ¬ (2 * i + 2 = 0) := by omega
  have h1 : ¬ (2 * i + 2 = 1) := by omega
  have h2 : (2 * i + 2) % 2 = 0 := by omega
  have h3 : (2 * i + 2 - 2) / 2 = i := by omega
  rw [if_neg h0, if_neg h1, if_pos h2, h3]

/-- an odd tag `2 i + 3` denotes mode message bit `i` -/
theorem evalTag_mode (D Mo : Array Bool) (i : Nat) : evalTag D Mo (2 * i + 3) = Mo.getD i false := by
  unfold evalTag
  have h0 : ¬ (2 * i + 3 = 0) := by omega
  have h1 : ¬ (2 * i + 3 = 1) := by omega
  have h2 : ¬ ((2 * i + 3) % 2 = 0) := by omega
  have h3 : (2 * i + 3 - 3) / 2 = i := by omega
  rw [if_neg h0, if_neg h1, if_neg h2, h3]

/-- tag 1 is the unconditional `set` -/
theorem evalTag_one (D Mo : Array Bool) : evalTag D Mo 1 = true := by
  simp [evalTag]

/-- tag 0 never draws -/
theorem evalTag_zero (D Mo : Array Bool) : evalTag D Mo 0 = false := by
  simp [evalTag]

/-- no operation: nothing changes -/
theorem applyOps_nil (D Mo : Array Bool) (c : AztecCode) : applyOps D Mo [] c = c := rfl

/-- the first operation is a `setIf` -/
theorem applyOps_cons (D Mo : Array Bool) (o : Op) (os : List Op) (c : AztecCode) :
    applyOps D Mo (o :: os) c = applyOps D Mo os (c.setIf (evalTag D Mo o.1) o.2.1 o.2.2) := rfl

/-- running a concatenation is running the parts in turn -/
theorem applyOps_append (D Mo : Array Bool) (a b : List Op) (c : AztecCode) :
    applyOps D Mo (a ++ b) c = applyOps D Mo b (applyOps D Mo a c) := by
  simp [applyOps, List.foldl_append]

/-- running a `flatMap` is a fold over the outer list -/
theorem applyOps_flatMap {α : Type} (D Mo : Array Bool) (l : List α) (f : α → List Op) (c : AztecCode) :
    applyOps D Mo (l.flatMap f) c = l.foldl (fun c i => applyOps D Mo (f i) c) c := by
  simp [applyOps, List.foldl_flatMap]

/-- `set` is `setIf true` -/
theorem set_eq_setIf (c : AztecCode) (x y : Nat) : c.set x y = c.setIf true x y := rfl

/-- one layer of the data loop is the operation list `layerOps` -/
theorem layer_eq (D Mo : Array Bool) (compact : Bool) (layers bms : Nat) (am : Array Nat) (i rowOffset : Nat)
    (c : AztecCode) :
    (List.range ((layers - i) * 4 + (if compact then 9 else 12))).foldl
        (fun code j =>
          (List.range 2).foldl
            (fun (code : AztecCode) k =>
              let code := code.setIf (D.getD (rowOffset + j * 2 + k) false)
                (am.getD (i * 2 + k) 0) (am.getD (i * 2 + j) 0)
              let code := code.setIf
                (D.getD (rowOffset + ((layers - i) * 4 + (if compact then 9 else 12)) * 2 + j * 2 + k) false)
                (am.getD (i * 2 + j) 0) (am.getD (bms - 1 - i * 2 - k) 0)
              let code := code.setIf
                (D.getD (rowOffset + ((layers - i) * 4 + (if compact then 9 else 12)) * 4 + j * 2 + k) false)
                (am.getD (bms - 1 - i * 2 - k) 0) (am.getD (bms - 1 - i * 2 - j) 0)
              code.setIf
                (D.getD (rowOffset + ((layers - i) * 4 + (if compact then 9 else 12)) * 6 + j * 2 + k) false)
                (am.getD (bms - 1 - i * 2 - j) 0) (am.getD (i * 2 + k) 0))
            code)
        c =
      applyOps D Mo (layerOps compact layers bms (fun t => am.getD t 0) i rowOffset) c := by
  unfold layerOps rowSize
  rw [applyOps_flatMap]
  congr 1
  funext code j
  rw [applyOps_flatMap]
  congr 1
  funext code k
  simp only [applyOps_cons, applyOps_nil, evalTag_data]

/-- the layer loop with an arbitrary start offset -/
theorem dataFold_eq (D Mo : Array Bool) (compact : Bool) (layers bms : Nat) (am : Array Nat) (l : List Nat) :
    ∀ (code : AztecCode) (off : Nat),
    (l.foldl
      (fun (st : AztecCode × Nat) i =>
        ((List.range ((layers - i) * 4 + (if compact then 9 else 12))).foldl
        (fun code j =>
          (List.range 2).foldl
            (fun (code : AztecCode) k =>
              let code := code.setIf (D.getD (st.2 + j * 2 + k) false)
                (am.getD (i * 2 + k) 0) (am.getD (i * 2 + j) 0)
              let code := code.setIf
                (D.getD (st.2 + ((layers - i) * 4 + (if compact then 9 else 12)) * 2 + j * 2 + k) false)
                (am.getD (i * 2 + j) 0) (am.getD (bms - 1 - i * 2 - k) 0)
              let code := code.setIf
                (D.getD (st.2 + ((layers - i) * 4 + (if compact then 9 else 12)) * 4 + j * 2 + k) false)
                (am.getD (bms - 1 - i * 2 - k) 0) (am.getD (bms - 1 - i * 2 - j) 0)
              code.setIf
                (D.getD (st.2 + ((layers - i) * 4 + (if compact then 9 else 12)) * 6 + j * 2 + k) false)
                (am.getD (bms - 1 - i * 2 - j) 0) (am.getD (i * 2 + k) 0))
            code)
        st.1, st.2 + ((layers - i) * 4 + (if compact then 9 else 12)) * 8))
      (code, off)).1 =
    applyOps D Mo (dataOpsFrom compact layers bms (fun t => am.getD t 0) l off) code := by
  induction l with
  | nil => intro code off; rfl
  | cons i is ih =>
    intro code off
    rw [List.foldl_cons, dataOpsFrom, applyOps_append]
    simp only []
    rw [layer_eq D Mo, ih]
    rfl

/-- the "draw data bits" loop is the operation list `dataOps` -/
theorem drawDataBits_eq (D Mo : Array Bool) (code : AztecCode) (compact : Bool) (layers bms : Nat)
    (am : Array Nat) :
    drawDataBits code compact layers bms am D =
      applyOps D Mo (dataOps compact layers bms (fun t => am.getD t 0)) code :=
  dataFold_eq D Mo compact layers bms am (List.range layers) code 0

/-- `drawModeMessage` is the operation list `modeOps` -/
theorem drawModeMessage_eq (D Mo : Array Bool) (code : AztecCode) (compact : Bool) (n : Nat) :
    drawModeMessage code compact n Mo = applyOps D Mo (modeOps compact n) code := by
  unfold drawModeMessage modeOps
  cases compact
  · simp only [Bool.false_eq_true, if_false]
    rw [applyOps_flatMap]
    congr 1
    funext c i
    simp only [applyOps_cons, applyOps_nil, evalTag_mode]
  · simp only [if_true]
    rw [applyOps_flatMap]
    congr 1
    funext c i
    simp only [applyOps_cons, applyOps_nil, evalTag_mode]

/-- `drawBullsEye` is the operation list `bullOps` -/
theorem drawBullsEye_eq (D Mo : Array Bool) (code : AztecCode) (center size : Nat) :
    drawBullsEye code center size = applyOps D Mo (bullOps center size) code := by
  unfold drawBullsEye bullOps
  rw [applyOps_append, applyOps_flatMap]
  simp only [applyOps_cons, applyOps_nil, evalTag_one, set_eq_setIf]
  congr 7
  funext c h
  rw [applyOps_flatMap]
  congr 1

/-- `drawReferenceGrid` is the operation list `gridOps` -/
theorem drawReferenceGrid_eq (D Mo : Array Bool) (code : AztecCode) (bms n : Nat) :
    drawReferenceGrid code bms n = applyOps D Mo (gridOps bms n) code := by
  unfold drawReferenceGrid gridOps
  rw [applyOps_flatMap]
  simp only []
  congr 1
  funext c l
  rw [applyOps_flatMap]
  congr 1

/-! ### the alignment map -/

/-- reading an array after one write -/
theorem getD_setIfInBounds (am : Array Nat) (i v t : Nat) :
    (am.setIfInBounds i v).getD t 0 = if i = t ∧ i < am.size then v else am.getD t 0 := by
  simp only [Array.getD_eq_getD_getElem?, Array.getElem?_setIfInBounds]
  by_cases h : i = t
  · subst h
    by_cases h2 : i < am.size
    · simp [h2]
    · simp [h2]
  · simp [h]

/-- the compact alignment map after `m` steps -/
theorem am_compact (bms m : Nat) (hm : m ≤ bms) :
    ((List.range m).foldl (fun (am : Array Nat) i => am.setIfInBounds i i) (Array.replicate bms 0)).size = bms ∧
    ∀ t, ((List.range m).foldl (fun (am : Array Nat) i => am.setIfInBounds i i) (Array.replicate bms 0)).getD t 0 =
      if t < m then t else 0 := by
  induction m with
  | zero =>
    refine ⟨by simp, fun t => ?_⟩
    simp only [List.range_zero, List.foldl_nil, Array.getD_eq_getD_getElem?, Array.getElem?_replicate]
    split <;> simp
  | succ m ih =>
    obtain ⟨hs, hg⟩ := ih (by omega)
    rw [List.range_succ, List.foldl_append]
    simp only [List.foldl_cons, List.foldl_nil]
    refine ⟨by rw [Array.size_setIfInBounds, hs], fun t => ?_⟩
    rw [getD_setIfInBounds, hg, hs]
    by_cases h : m = t
    · subst h
      rw [if_pos ⟨rfl, by omega⟩, if_pos (by omega)]
    · rw [if_neg (by omega)]
      by_cases h2 : t < m
      · rw [if_pos h2, if_pos (by omega)]
      · rw [if_neg h2, if_neg (by omega)]

/-- the full-range alignment map after `m` steps -/
theorem am_full (bms center m : Nat) (hm : m ≤ bms / 2) :
    ((List.range m).foldl
      (fun (am : Array Nat) i =>
        (am.setIfInBounds (bms / 2 - i - 1) (center - (i + i / 15) - 1)).setIfInBounds (bms / 2 + i)
          (center + (i + i / 15) + 1))
      (Array.replicate bms 0)).size = bms ∧
    ∀ t, ((List.range m).foldl
      (fun (am : Array Nat) i =>
        (am.setIfInBounds (bms / 2 - i - 1) (center - (i + i / 15) - 1)).setIfInBounds (bms / 2 + i)
          (center + (i + i / 15) + 1))
      (Array.replicate bms 0)).getD t 0 =
      if bms / 2 - m ≤ t ∧ t < bms / 2 then center - ((bms / 2 - 1 - t) + (bms / 2 - 1 - t) / 15) - 1
      else if bms / 2 ≤ t ∧ t < bms / 2 + m then center + ((t - bms / 2) + (t - bms / 2) / 15) + 1
      else 0 := by
  induction m with
  | zero =>
    refine ⟨by simp, fun t => ?_⟩
    simp only [List.range_zero, List.foldl_nil, Array.getD_eq_getD_getElem?, Array.getElem?_replicate]
    have e : (if t < bms then some 0 else none : Option Nat).getD 0 = 0 := by split <;> rfl
    rw [e]
    repeat' split
    all_goals omega
  | succ m ih =>
    obtain ⟨hs, hg⟩ := ih (by omega)
    rw [List.range_succ, List.foldl_append]
    simp only [List.foldl_cons, List.foldl_nil]
    refine ⟨by rw [Array.size_setIfInBounds, Array.size_setIfInBounds, hs], fun t => ?_⟩
    rw [getD_setIfInBounds, getD_setIfInBounds, hg, Array.size_setIfInBounds, hs]
    have hoc : 2 * (bms / 2) ≤ bms := by omega
    generalize bms / 2 = oc at *
    repeat' split
    all_goals omega

/-- closed form of the alignment map of `EncodeWithColor` (0 outside the matrix) -/
theorem amF_eq (compact : Bool) (bms i : Nat) : (alignmentMap compact bms).1.getD i 0 = amF compact bms i := by
  unfold alignmentMap amF
  cases compact
  · simp only [Bool.false_eq_true, if_false]
    rw [(am_full bms _ (bms / 2) (Nat.le_refl _)).2]
    by_cases h : i < bms / 2
    · rw [if_pos (by omega), if_pos h]
    · rw [if_neg (by omega), if_neg h]
      by_cases h2 : i < 2 * (bms / 2)
      · rw [if_pos (by omega), if_pos h2]
      · rw [if_neg (by omega), if_neg h2]
  · simp only [if_true]
    rw [(am_compact bms bms (Nat.le_refl _)).2]

/-- the side length chosen by `EncodeWithColor` -/
theorem matSize_eq (compact : Bool) (layers : Nat) :
    (alignmentMap compact (baseSize compact layers)).2 = matSize compact layers := by
  unfold alignmentMap matSize
  cases compact <;> rfl

/-! ### `render` as one operation list -/

/-- the blank symbol the drawing starts from -/
def blank (n : Nat) (data : Bytes) (color : Scheme) : AztecCode :=
  { newAztecCode n color with content := data }

/-- the symbol drawn by `EncodeWithColor` is the blank symbol after the operation list `allOps` -/
theorem render_eq (compact : Bool) (layers : Nat) (mb mm : List Bool) (data : Bytes) (color : Scheme) :
    render compact layers mb mm data color =
      applyOps mb.toArray mm.toArray (allOps compact layers) (blank (matSize compact layers) data color) := by
  have ha : (fun t => (alignmentMap compact (baseSize compact layers)).1.getD t 0) =
      amF compact (baseSize compact layers) := funext (amF_eq _ _)
  have hr : render compact layers mb mm data color =
      (let code := drawDataBits (blank (alignmentMap compact (baseSize compact layers)).2 data color) compact layers
          (baseSize compact layers) (alignmentMap compact (baseSize compact layers)).1 mb.toArray
       let code := drawModeMessage code compact (alignmentMap compact (baseSize compact layers)).2 mm.toArray
       if compact then drawBullsEye code ((alignmentMap compact (baseSize compact layers)).2 / 2) 5
       else drawReferenceGrid (drawBullsEye code ((alignmentMap compact (baseSize compact layers)).2 / 2) 7)
         (baseSize compact layers) (alignmentMap compact (baseSize compact layers)).2) := rfl
  rw [hr]
  simp only [matSize_eq]
  rw [drawDataBits_eq mb.toArray mm.toArray, ha, drawModeMessage_eq mb.toArray mm.toArray]
  unfold allOps
  cases compact
  · simp only [Bool.false_eq_true, if_false]
    rw [drawBullsEye_eq mb.toArray mm.toArray, drawReferenceGrid_eq mb.toArray mm.toArray]
    simp only [applyOps_append]
  · simp only [if_true]
    rw [drawBullsEye_eq mb.toArray mm.toArray]
    simp only [applyOps_append, applyOps_nil]

/-! ### soundness of the packed map -/

/-- a 16-bit value shifted to slot `s0` and read back at slot `s` -/
theorem slot_shift (t s0 s : Nat) (ht : t < 65536) :
    ((t <<< (16 * s0)) >>> (16 * s)) % 65536 = if s = s0 then t else 0 := by
  by_cases h : s = s0
  · subst h
    rw [if_pos rfl, Nat.shiftLeft_shiftRight, Nat.mod_eq_of_lt ht]
  · rw [if_neg h]
    apply Nat.eq_of_testBit_eq
    intro j
    have e : (65536 : Nat) = 2 ^ 16 := by decide
    rw [e, Nat.testBit_mod_two_pow, Nat.testBit_shiftRight, Nat.testBit_shiftLeft, Nat.zero_testBit]
    by_cases hj : j < 16
    · by_cases hge : 16 * s + j ≥ 16 * s0
      · have hlt : t < 2 ^ (16 * s + j - 16 * s0) :=
          Nat.lt_of_lt_of_le (e ▸ ht) (Nat.pow_le_pow_right (by decide) (by omega))
        rw [Nat.testBit_lt_two_pow hlt]
        simp
      · simp [hge]
    · simp [hj]

/-- writing a tag into a slot changes only that slot -/
theorem val_or_shift (M t s0 s : Nat) (ht : t < 65536) :
    val (M ||| (t <<< (16 * s0))) s = val M s ||| (if s = s0 then t else 0) := by
  unfold val
  have e : (65536 : Nat) = 2 ^ 16 := by decide
  rw [Nat.shiftRight_or_distrib, e, Nat.or_mod_two_pow, ← e, slot_shift t s0 s ht]

/-- the empty map has tag 0 everywhere -/
theorem val_zero (s : Nat) : val 0 s = 0 := by
  simp [val]

/-- what the map says about slot `s` -/
def sem (D Mo : Array Bool) (M s : Nat) : Bool := evalTag D Mo (val M s)

/-- the map `M` describes the matrix `c` of side `n` -/
structure Inv (D Mo : Array Bool) (n : Nat) (c : AztecCode) (M : Nat) : Prop where
  size : c.size = n
  bsize : c.bits.size = n * n
  cell : ∀ s, s < n * n → c.bits.getD s false = sem D Mo M s

/-- reading an array after one write (any element type) -/
theorem getD_setIfInBounds' {α : Type} (am : Array α) (i : Nat) (v d : α) (t : Nat) :
    (am.setIfInBounds i v).getD t d = if i = t ∧ i < am.size then v else am.getD t d := by
  simp only [Array.getD_eq_getD_getElem?, Array.getElem?_setIfInBounds]
  by_cases h : i = t
  · subst h
    by_cases h2 : i < am.size
    · simp [h2]
    · simp [h2]
  · simp [h]

/-- one checked operation keeps the invariant -/
theorem inv_step (D Mo : Array Bool) (n : Nat) (c : AztecCode) (M t x y : Nat) (h : Inv D Mo n c M)
    (hx : x < n) (hy : y < n) (ht : t < 65536) (hv : val M (x * n + y) = 0 ∨ val M (x * n + y) = t) :
    Inv D Mo n (c.setIf (evalTag D Mo t) x y) (M ||| (t <<< (16 * (x * n + y)))) := by
  obtain ⟨h1, h2, h3⟩ := h
  have hs : x * n + y < n * n := by
    have : (x + 1) * n ≤ n * n := Nat.mul_le_mul_right n hx
    rw [Nat.add_mul] at this
    omega
  have hnew : ∀ s, val (M ||| (t <<< (16 * (x * n + y)))) s = if s = x * n + y then t else val M s := by
    intro s
    rw [val_or_shift _ _ _ _ ht]
    by_cases e : s = x * n + y
    · rw [if_pos e, if_pos e, e]
      rcases hv with hv | hv
      · rw [hv, Nat.zero_or]
      · rw [hv, Nat.or_self]
    · rw [if_neg e, if_neg e, Nat.or_zero]
  cases hc : evalTag D Mo t
  · refine ⟨h1, h2, ?_⟩
    intro s hsn
    show c.bits.getD s false = _
    rw [h3 s hsn]
    unfold sem
    rw [hnew]
    by_cases e : s = x * n + y
    · rw [if_pos e, e, hc]
      rcases hv with hv | hv
      · rw [hv, evalTag_zero]
      · rw [hv, hc]
    · rw [if_neg e]
  · refine ⟨h1, ?_, ?_⟩
    · show (c.bits.setIfInBounds (x * c.size + y) true).size = _
      rw [Array.size_setIfInBounds, h2]
    · intro s hsn
      show (c.bits.setIfInBounds (x * c.size + y) true).getD s false = _
      rw [getD_setIfInBounds', h1, h2]
      unfold sem
      rw [hnew]
      by_cases e : s = x * n + y
      · rw [if_pos ⟨e.symm, hs⟩, if_pos e, hc]
      · rw [if_neg (fun hh => e hh.1.symm), if_neg e, h3 s hsn]
        rfl

/-- a successful `build` describes the matrix after all operations -/
theorem build_sound (D Mo : Array Bool) (n : Nat) : ∀ (ops : List Op) (M : Nat) (c : AztecCode) (M' : Nat),
    Inv D Mo n c M → build n ops M = some M' → Inv D Mo n (applyOps D Mo ops c) M'
  | [], M, c, M', h, hb => by
    simp only [build, Option.some.injEq] at hb
    subst hb
    exact h
  | o :: os, M, c, M', h, hb => by
    rw [build] at hb
    cases hc : (Nat.blt o.2.1 n && Nat.blt o.2.2 n && Nat.blt o.1 65536 &&
        (Nat.beq (val M (o.2.1 * n + o.2.2)) 0 || Nat.beq (val M (o.2.1 * n + o.2.2)) o.1))
    · rw [hc] at hb
      simp at hb
    · rw [hc] at hb
      simp only [cond_true] at hb
      simp only [Bool.and_eq_true, Bool.or_eq_true, Nat.blt_eq, Nat.beq_eq] at hc
      obtain ⟨⟨⟨hx, hy⟩, ht⟩, hv⟩ := hc
      rw [applyOps_cons]
      exact build_sound D Mo n os _ _ M' (inv_step D Mo n c M o.1 o.2.1 o.2.2 h hx hy ht hv) hb

/-- the blank symbol is described by the empty map -/
theorem inv_blank (D Mo : Array Bool) (n : Nat) (data : Bytes) (color : Scheme) :
    Inv D Mo n (blank n data color) 0 := by
  refine ⟨rfl, by simp [blank, newAztecCode], ?_⟩
  intro s hs
  unfold sem
  rw [val_zero, evalTag_zero]
  simp [blank, newAztecCode, Array.getD_eq_getD_getElem?, hs]

/-- operations keep the content -/
theorem applyOps_content (D Mo : Array Bool) (ops : List Op) (c : AztecCode) :
    (applyOps D Mo ops c).content = c.content := by
  induction ops generalizing c with
  | nil => rfl
  | cons o os ih =>
    rw [applyOps_cons, ih]
    unfold AztecCode.setIf
    split <;> rfl

/-! ### which operations hit a module -/

/-- some operation whose condition holds writes module `(x, y)` -/
def hit (D Mo : Array Bool) (ops : List Op) (x y : Nat) : Bool :=
  ops.any (fun o => evalTag D Mo o.1 && (o.2.1 == x && o.2.2 == y))

/-- no operation hits nothing -/
theorem hit_nil (D Mo : Array Bool) (x y : Nat) : hit D Mo [] x y = false := rfl

/-- hits of a concatenation -/
theorem hit_append (D Mo : Array Bool) (a b : List Op) (x y : Nat) :
    hit D Mo (a ++ b) x y = (hit D Mo a x y || hit D Mo b x y) := by
  simp [hit, List.any_append]

/-- hits of a `flatMap` -/
theorem hit_flatMap {α : Type} (D Mo : Array Bool) (l : List α) (f : α → List Op) (x y : Nat) :
    hit D Mo (l.flatMap f) x y = l.any (fun i => hit D Mo (f i) x y) := by
  simp [hit, List.any_flatMap]

/-- no operation at `(x, y)`: not hit -/
theorem hit_eq_false (D Mo : Array Bool) (ops : List Op) (x y : Nat)
    (h : ∀ o ∈ ops, ¬ (o.2.1 = x ∧ o.2.2 = y)) : hit D Mo ops x y = false := by
  unfold hit
  rw [List.any_eq_false]
  intro o ho hh
  simp only [Bool.and_eq_true, beq_iff_eq] at hh
  exact h o ho hh.2

/-- the size of the matrix never changes -/
theorem applyOps_size (D Mo : Array Bool) (ops : List Op) (c : AztecCode) :
    (applyOps D Mo ops c).size = c.size ∧ (applyOps D Mo ops c).bits.size = c.bits.size := by
  induction ops generalizing c with
  | nil => exact ⟨rfl, rfl⟩
  | cons o os ih =>
    rw [applyOps_cons]
    obtain ⟨a, b⟩ := ih (c.setIf (evalTag D Mo o.1) o.2.1 o.2.2)
    rw [a, b]
    unfold AztecCode.setIf
    split
    · exact ⟨rfl, by simp [AztecCode.set]⟩
    · exact ⟨rfl, rfl⟩

/-- a module inside the matrix is dark after the operations iff it was dark before or an operation hit it
    (all operations inside the matrix) -/
theorem at_applyOps (D Mo : Array Bool) (n : Nat) (ops : List Op) : ∀ (c : AztecCode), c.size = n →
    c.bits.size = n * n → (∀ o ∈ ops, o.2.1 < n ∧ o.2.2 < n) → ∀ x y, x < n → y < n →
    (applyOps D Mo ops c).at x y = (c.at x y || hit D Mo ops x y) := by
  induction ops with
  | nil => intro c _ _ _ x y _ _; simp [applyOps_nil, hit_nil]
  | cons o os ih =>
    intro c hs hb hr x y hx hy
    have hro := hr o (List.mem_cons_self ..)
    have hsb := applyOps_size D Mo [o] c
    rw [applyOps_cons, ih _ (by rw [← hs]; exact hsb.1) (by rw [← hb]; exact hsb.2)
      (fun o' ho' => hr o' (List.mem_cons_of_mem _ ho')) x y hx hy]
    have hstep : (c.setIf (evalTag D Mo o.1) o.2.1 o.2.2).at x y =
        (c.at x y || (evalTag D Mo o.1 && (o.2.1 == x && o.2.2 == y))) := by
      unfold AztecCode.setIf
      cases evalTag D Mo o.1
      · simp
      · simp only [if_true, Bool.true_and]
        show (c.bits.setIfInBounds (o.2.1 * c.size + o.2.2) true).getD (x * c.size + y) false = _
        rw [getD_setIfInBounds', hs, hb]
        have hslot : o.2.1 * n + o.2.2 < n * n := by
          have : (o.2.1 + 1) * n ≤ n * n := Nat.mul_le_mul_right n hro.1
          rw [Nat.add_mul] at this
          omega
        by_cases e : o.2.1 = x ∧ o.2.2 = y
        · obtain ⟨e1, e2⟩ := e
          rw [if_pos ⟨by rw [e1, e2], hslot⟩]
          simp [e1, e2]
        · have hne : ¬ (o.2.1 * n + o.2.2 = x * n + y) := by
            intro hh
            apply e
            have h1 : (o.2.1 * n + o.2.2) / n = o.2.1 := by
              rw [Nat.mul_comm, Nat.mul_add_div (by omega), Nat.div_eq_of_lt hro.2, Nat.add_zero]
            have h2 : (x * n + y) / n = x := by
              rw [Nat.mul_comm, Nat.mul_add_div (by omega), Nat.div_eq_of_lt hy, Nat.add_zero]
            have h3 : o.2.1 = x := by rw [← h1, hh, h2]
            refine ⟨h3, ?_⟩
            rw [h3] at hh
            omega
          rw [if_neg (fun hh => hne hh.1)]
          have : (o.2.1 == x && o.2.2 == y) = false := by
            rw [Bool.and_eq_false_iff]
            by_cases e1 : o.2.1 = x
            · right; simp only [beq_eq_false_iff_ne, ne_eq]; exact fun e2 => e ⟨e1, e2⟩
            · left; simp only [beq_eq_false_iff_ne, ne_eq]; exact e1
          rw [this]
          simp [AztecCode.at, hs]
    rw [hstep]
    simp only [hit, List.any_cons, Bool.or_assoc]

/-- a successful `build` only saw operations inside the matrix -/
theorem build_range (n : Nat) : ∀ (ops : List Op) (M M' : Nat), build n ops M = some M' →
    ∀ o ∈ ops, o.2.1 < n ∧ o.2.2 < n
  | [], _, _, _, o, ho => by simp at ho
  | o :: os, M, M', hb, o', ho' => by
    rw [build] at hb
    cases hc : (Nat.blt o.2.1 n && Nat.blt o.2.2 n && Nat.blt o.1 65536 &&
        (Nat.beq (val M (o.2.1 * n + o.2.2)) 0 || Nat.beq (val M (o.2.1 * n + o.2.2)) o.1))
    · rw [hc] at hb
      simp at hb
    · rw [hc] at hb
      simp only [cond_true] at hb
      simp only [Bool.and_eq_true, Bool.or_eq_true, Nat.blt_eq, Nat.beq_eq] at hc
      rcases List.mem_cons.mp ho' with rfl | ho'
      · exact ⟨hc.1.1.1, hc.1.1.2⟩
      · exact build_range n os _ M' hb o' ho'

/-- after a successful `build` from the empty map, a module is hit iff the tag in its slot holds -/
theorem hit_of_build (D Mo : Array Bool) (n : Nat) (ops : List Op) (M : Nat) (hb : build n ops 0 = some M)
    (x y : Nat) (hx : x < n) (hy : y < n) : hit D Mo ops x y = evalTag D Mo (val M (x * n + y)) := by
  have inv := build_sound D Mo n ops 0 _ M (inv_blank D Mo n [] scheme16) hb
  have hat := at_applyOps D Mo n ops (blank n [] scheme16) rfl (by simp [blank, newAztecCode])
    (build_range n ops 0 M hb) x y hx hy
  have hblank : (blank n [] scheme16).at x y = false := by
    simp only [blank, newAztecCode, AztecCode.at, Array.getD_eq_getD_getElem?, Array.getElem?_replicate]
    split <;> rfl
  rw [hblank, Bool.false_or] at hat
  rw [← hat]
  have hs : x * n + y < n * n := by
    have : (x + 1) * n ≤ n * n := Nat.mul_le_mul_right n hx
    rw [Nat.add_mul] at this
    omega
  show (applyOps D Mo ops (blank n [] scheme16)).bits.getD (x * (applyOps D Mo ops (blank n [] scheme16)).size + y)
    false = _
  rw [inv.size]
  exact inv.cell _ hs

/-! ### reading the map at the reference decoder's positions -/

/-- matrix coordinate of the centre offset `u` (centre `c`) -/
def cx (c : Nat) (u : Int) : Nat := ((c : Int) + u).toNat

/-- the centre offset `u` is a coordinate of the matrix of side `n` -/
def insideAx (n c : Nat) (u : Int) : Bool :=
  match (c : Int) + u with
  | .ofNat x => Nat.blt x n
  | .negSucc _ => false

/-- `insideAx` says that the coordinate is non-negative and below `n` -/
theorem insideAx_iff (n c : Nat) (u : Int) : insideAx n c u = true ↔ 0 ≤ (c : Int) + u ∧ cx c u < n := by
  unfold insideAx cx
  cases h : (c : Int) + u with
  | ofNat x => simp only [Int.ofNat_eq_natCast, Nat.blt_eq, Int.toNat_natCast]; omega
  | negSucc k => simp only [Bool.false_eq_true, false_iff]; omega

/-- the centre offset `p` is a module of the matrix of side `n` with centre `c` -/
def inside (n c : Nat) (p : Int × Int) : Bool := insideAx n c p.1 && insideAx n c p.2

/-- the slot of the module at centre offset `p` -/
def slotOf (n c : Nat) (p : Int × Int) : Nat := cx c p.1 * n + cx c p.2

/-- the positions `ps` lie inside the matrix and carry the consecutive tags `t, t + 2, …` up to `tEnd` -/
def checkSeq (M n c : Nat) : List (Int × Int) → Nat → Nat → Bool
  | [], t, tEnd => Nat.beq t tEnd
  | p :: ps, t, tEnd =>
    inside n c p && Nat.beq (val M (slotOf n c p)) t && checkSeq M n c ps (t + 2) tEnd

/-- the positions with an expectation lie inside the matrix and are unconditionally dark (tag 1) or never
    written (tag 0) as expected -/
def checkFixed (M n c : Nat) (exp : Int × Int → Option Bool) : List (Int × Int) → Bool
  | [] => true
  | p :: ps =>
    (match exp p with
     | none => true
     | some b => inside n c p && Nat.beq (val M (slotOf n c p)) b.toNat) && checkFixed M n c exp ps

/-- a successful sequence check: the list has the expected length and its `j`-th position carries tag `t + 2 j` -/
theorem checkSeq_sound (M n c : Nat) : ∀ (ps : List (Int × Int)) (t tEnd : Nat),
    checkSeq M n c ps t tEnd = true →
    t + 2 * ps.length = tEnd ∧
    ∀ (j : Nat) (hj : j < ps.length), inside n c ps[j] = true ∧ val M (slotOf n c ps[j]) = t + 2 * j
  | [], t, tEnd, h => by
    simp only [checkSeq, Nat.beq_eq] at h
    refine ⟨by simpa using h, ?_⟩
    intro j hj
    simp at hj
  | p :: ps, t, tEnd, h => by
    simp only [checkSeq, Bool.and_eq_true, Nat.beq_eq] at h
    obtain ⟨⟨h1, h2⟩, h3⟩ := h
    obtain ⟨a, b⟩ := checkSeq_sound M n c ps (t + 2) tEnd h3
    refine ⟨by simp only [List.length_cons]; omega, ?_⟩
    intro j hj
    cases j with
    | zero => exact ⟨h1, by simpa using h2⟩
    | succ j =>
      have hj' : j < ps.length := by simpa using hj
      obtain ⟨b1, b2⟩ := b j hj'
      refine ⟨by simpa using b1, ?_⟩
      simp only [List.getElem_cons_succ]
      rw [b2]
      omega

/-- a successful fixed-pattern check -/
theorem checkFixed_sound (M n c : Nat) (exp : Int × Int → Option Bool) : ∀ (ps : List (Int × Int)),
    checkFixed M n c exp ps = true →
    ∀ p ∈ ps, ∀ b, exp p = some b → inside n c p = true ∧ val M (slotOf n c p) = b.toNat
  | [], _, p, hp, _, _ => by simp at hp
  | q :: ps, h, p, hp, b, hb => by
    simp only [checkFixed, Bool.and_eq_true] at h
    obtain ⟨h1, h2⟩ := h
    rcases List.mem_cons.mp hp with rfl | hp
    · rw [hb] at h1
      simp only [Bool.and_eq_true, Nat.beq_eq] at h1
      exact h1
    · exact checkFixed_sound M n c exp ps h2 p hp b hb

/-- tag 1 / 0 for an expected dark / light module -/
theorem evalTag_toNat (D Mo : Array Bool) (b : Bool) : evalTag D Mo b.toNat = b := by
  cases b
  · exact evalTag_zero D Mo
  · exact evalTag_one D Mo

/-! ### near the centre / far from the centre -/

/-- `|a - b|` -/
def dist (a b : Nat) : Nat := (a - b) + (b - a)

/-- Chebyshev distance of the module `(x, y)` from the centre `(c, c)` -/
def chebN (c x y : Nat) : Nat := max (dist x c) (dist y c)

/-- the coordinate `x` lies on a reference grid line (offset from the centre divisible by 16) -/
def onGrid (c x : Nat) : Bool := Nat.beq ((x + 15 * c) % 16) 0

/-- at distance at least `lo` from the centre and, in full-range symbols, on no reference grid line -/
def farOK (compact : Bool) (c lo x y : Nat) : Bool :=
  Nat.ble lo (chebN c x y) && (compact || (!onGrid c x && !onGrid c y))

/-- at distance at most `r` from the centre or, in full-range symbols, on a reference grid line -/
def nearOK (compact : Bool) (c r x y : Nat) : Bool :=
  Nat.ble (chebN c x y) r || (!compact && (onGrid c x || onGrid c y))

/-- a module is not both near and far -/
theorem far_near_absurd (compact : Bool) (c lo r x y : Nat) (hf : farOK compact c lo x y = true)
    (hn : nearOK compact c r x y = true) (h : r < lo) : False := by
  unfold farOK at hf
  unfold nearOK at hn
  simp only [Bool.and_eq_true, Bool.or_eq_true, Nat.ble_eq, Bool.not_eq_true'] at hf hn
  obtain ⟨f1, f2⟩ := hf
  rcases hn with hn | ⟨hc, hg⟩
  · omega
  · rcases f2 with f2 | ⟨g1, g2⟩
    · rw [f2] at hc; simp at hc
    · rcases hg with hg | hg
      · rw [g1] at hg; simp at hg
      · rw [g2] at hg; simp at hg

/-- moving the centre and the module by the same amount changes nothing -/
theorem farOK_shift (compact : Bool) (c lo x y d : Nat) :
    farOK compact (c + d) lo (x + d) (y + d) = farOK compact c lo x y := by
  unfold farOK chebN dist onGrid
  have e1 : x + d - (c + d) = x - c := by omega
  have e2 : c + d - (x + d) = c - x := by omega
  have e3 : y + d - (c + d) = y - c := by omega
  have e4 : c + d - (y + d) = c - y := by omega
  have e5 : (x + d + 15 * (c + d)) % 16 = (x + 15 * c) % 16 := by omega
  have e6 : (y + d + 15 * (c + d)) % 16 = (y + 15 * c) % 16 := by omega
  rw [e1, e2, e3, e4, e5, e6]

/-- operations far from the centre do not hit near modules -/
theorem hit_far_near (D Mo : Array Bool) (compact : Bool) (c lo r : Nat) (ops : List Op)
    (hops : ∀ o ∈ ops, farOK compact c lo o.2.1 o.2.2 = true) (x y : Nat)
    (hn : nearOK compact c r x y = true) (h : r < lo) : hit D Mo ops x y = false := by
  apply hit_eq_false
  rintro o ho ⟨rfl, rfl⟩
  exact far_near_absurd compact c lo r _ _ (hops o ho) hn h

/-- operations near the centre do not hit far modules -/
theorem hit_near_far (D Mo : Array Bool) (compact : Bool) (c lo r : Nat) (ops : List Op)
    (hops : ∀ o ∈ ops, nearOK compact c r o.2.1 o.2.2 = true) (x y : Nat)
    (hf : farOK compact c lo x y = true) (h : r < lo) : hit D Mo ops x y = false := by
  apply hit_eq_false
  rintro o ho ⟨rfl, rfl⟩
  exact far_near_absurd compact c lo r _ _ hf (hops o ho) h

/-! ### the certificate of one shape -/

/-- centre coordinate -/
def cen (compact : Bool) (L : Nat) : Nat := matSize compact L / 2

/-- the inner Chebyshev radius of the outermost data layer of the shape with `L` layers -/
def loOf (compact : Bool) (L : Nat) : Nat := if compact then 4 + 2 * L else 6 + 2 * L + (5 + 2 * L) / 15

/-- the operations of the outermost data layer, bit indices counted from 0 -/
def outerOps (compact : Bool) (L : Nat) : List Op :=
  layerOps compact L (baseSize compact L) (amF compact (baseSize compact L)) 0 0

/-- mode message, bullseye and reference grid -/
def fixedOps (compact : Bool) (L : Nat) : List Op :=
  modeOps compact (matSize compact L) ++
  (bullOps (matSize compact L / 2) (if compact then 5 else 7) ++
  (if compact then [] else gridOps (baseSize compact L) (matSize compact L)))

/-- the reference decoder's modules of the outermost layer of the shape with `L` layers, in true offsets -/
def ringSpec (compact : Bool) (L : Nat) : List (Int × Int) :=
  (Spec.Aztec.layerModules compact (Spec.Aztec.modeRing compact + 2 * L)).map
    (fun p => (Spec.Aztec.real compact p.1, Spec.Aztec.real compact p.2))

/-- bit index of the first bit of layer `i` (0 = outermost) -/
def rowOff (compact : Bool) (L : Nat) : Nat → Nat
  | 0 => 0
  | i + 1 => rowOff compact L i + rowSize compact L i * 8

/-- what the reference decoder expects on the reference grid -/
def gridExp (p : Int × Int) : Option Bool :=
  if p.1 % 16 == 0 then some (p.2 % 2 == 0) else if p.2 % 16 == 0 then some (p.1 % 2 == 0) else none

/-- the modules of the square of half-width `hs` that lie on a grid row or column -/
def gridCells (hs : Nat) : List (Int × Int) :=
  (((List.range (2 * hs + 1)).map (fun (t : Nat) => (t : Int) - hs)).filter (fun u => u % 16 == 0)).flatMap
    (fun x => ((List.range (2 * hs + 1)).map (fun (t : Nat) => (t : Int) - hs)).map (fun y => (x, y))) ++
  (((List.range (2 * hs + 1)).map (fun (t : Nat) => (t : Int) - hs)).filter (fun u => u % 16 == 0)).flatMap
    (fun y => ((List.range (2 * hs + 1)).map (fun (t : Nat) => (t : Int) - hs)).map (fun x => (x, y)))

/-- all positions of the list are near the centre (or on the grid) -/
def allNear (compact : Bool) (c r : Nat) (ps : List (Int × Int)) : Bool :=
  ps.all (fun p => nearOK compact c r (cx c p.1) (cx c p.2))

/-- the checks of the fixed patterns against the map `M` of `fixedOps` -/
def fixedChecks (compact : Bool) (L M : Nat) : Bool :=
  checkSeq M (matSize compact L) (cen compact L) (Spec.Aztec.modeModules compact) 3
    (2 * (if compact then 28 else 40) + 3) &&
  allNear compact (cen compact L) (Spec.Aztec.modeRing compact) (Spec.Aztec.modeModules compact) &&
  (if compact then
     checkFixed M (matSize compact L) (cen compact L) (fun _ => some true) [(-5, -5)]
   else checkFixed M (matSize compact L) (cen compact L) (fun _ => some false) (Spec.Aztec.ringWalk 5)) &&
  allNear compact (cen compact L) (Spec.Aztec.modeRing compact) (Spec.Aztec.ringWalk 5) &&
  checkFixed M (matSize compact L) (cen compact L)
    (fun p => some (Spec.Aztec.cheb p % 2 == 0)) (Spec.Aztec.square (Spec.Aztec.modeRing compact - 1)) &&
  allNear compact (cen compact L) (Spec.Aztec.modeRing compact)
    (Spec.Aztec.square (Spec.Aztec.modeRing compact - 1)) &&
  checkFixed M (matSize compact L) (cen compact L)
    (fun p => some ((Spec.Aztec.orientationDark (Spec.Aztec.modeRing compact)).contains p))
    ((Spec.Aztec.ringWalk (Spec.Aztec.modeRing compact)).filter
      (Spec.Aztec.isOrientation (Spec.Aztec.modeRing compact))) &&
  allNear compact (cen compact L) (Spec.Aztec.modeRing compact)
    ((Spec.Aztec.ringWalk (Spec.Aztec.modeRing compact)).filter
      (Spec.Aztec.isOrientation (Spec.Aztec.modeRing compact))) &&
  (if compact then true
   else checkFixed M (matSize compact L) (cen compact L) gridExp (gridCells (Spec.Aztec.halfSize compact L)))

/-- the certificate of the shape with `L` layers.  It concerns the outermost data layer and the fixed patterns
    only: the side length; the number of data bits; the outermost layer's operations do not collide, sit exactly
    on the reference decoder's modules of that layer in bit order, far from the centre and off the grid; the
    fixed operations are near the centre or on the grid, do not collide, and produce the mode message modules,
    bullseye, orientation marks and reference grid the decoder expects. -/
def cert (compact : Bool) (L : Nat) : Bool :=
  Nat.beq (matSize compact L) (Spec.Aztec.symbolSize compact L) &&
  Nat.beq (rowOff compact L L) (totalBitsInLayer L compact) &&
  (match build (matSize compact L) (outerOps compact L) 0 with
   | none => false
   | some M => checkSeq M (matSize compact L) (cen compact L) (ringSpec compact L) 2
       (2 * (rowSize compact L 0 * 8) + 2)) &&
  (outerOps compact L).all (fun o => farOK compact (cen compact L) (loOf compact L) o.2.1 o.2.2) &&
  (ringSpec compact L).all
    (fun p => farOK compact (cen compact L) (loOf compact L) (cx (cen compact L) p.1) (cx (cen compact L) p.2)) &&
  (fixedOps compact L).all (fun o => nearOK compact (cen compact L) (Spec.Aztec.modeRing compact) o.2.1 o.2.2) &&
  (match build (matSize compact L) (fixedOps compact L) 0 with
   | none => false
   | some M => fixedChecks compact L M)


/-! ### the data layers one by one -/

theorem any_congr_mem {α : Type} (l : List α) (f g : α → Bool) (h : ∀ a ∈ l, f a = g a) : l.any f = l.any g := by
  induction l with
  | nil => rfl
  | cons a as ih =>
    rw [List.any_cons, List.any_cons, h a (List.mem_cons_self ..),
      ih (fun b hb => h b (List.mem_cons_of_mem _ hb))]

/-- the data operations are the layers' operations with the running bit offsets `rowOff` -/
theorem dataOpsFrom_range' (compact : Bool) (L bms : Nat) (a : Nat → Nat) : ∀ (m s : Nat),
    dataOpsFrom compact L bms a (List.range' s m) (rowOff compact L s) =
      (List.range' s m).flatMap (fun i => layerOps compact L bms a i (rowOff compact L i)) := by
  intro m
  induction m with
  | zero => intro s; rfl
  | succ m ih =>
    intro s
    rw [List.range'_succ, dataOpsFrom, List.flatMap_cons]
    have e : rowOff compact L s + rowSize compact L s * 8 = rowOff compact L (s + 1) := rfl
    rw [e, ih (s + 1)]

/-- the data operations as a `flatMap` over the layers -/
theorem dataOps_eq (compact : Bool) (L bms : Nat) (a : Nat → Nat) :
    dataOps compact L bms a =
      (List.range' 0 L).flatMap (fun i => layerOps compact L bms a i (rowOff compact L i)) := by
  unfold dataOps
  rw [List.range_eq_range']
  exact dataOpsFrom_range' compact L bms a L 0

/-- the alignment map of a larger symbol is the alignment map of a smaller one, moved outwards (full-range) -/
theorem amF_shift_full (L' i u : Nat) (hu : u < baseSize false L') :
    amF false (baseSize false (L' + i)) (2 * i + u) =
      amF false (baseSize false L') u + (matSize false (L' + i) / 2 - matSize false L' / 2) := by
  unfold baseSize at hu
  unfold amF matSize baseSize
  simp only [Bool.false_eq_true, if_false] at *
  repeat' split
  all_goals omega

/-- the alignment map of a larger symbol is the alignment map of a smaller one, moved outwards (compact) -/
theorem amF_shift_compact (L' i u : Nat) (hu : u < baseSize true L') :
    amF true (baseSize true (L' + i)) (2 * i + u) =
      amF true (baseSize true L') u + (matSize true (L' + i) / 2 - matSize true L' / 2) := by
  unfold baseSize at hu
  unfold amF matSize baseSize
  simp only [if_true] at *
  repeat' split
  all_goals omega

/-- the alignment map of a larger symbol is the alignment map of a smaller one, moved outwards by the
    difference of the centres -/
theorem amF_shift (compact : Bool) (L' i u : Nat) (hu : u < baseSize compact L') :
    amF compact (baseSize compact (L' + i)) (2 * i + u) =
      amF compact (baseSize compact L') u + (cen compact (L' + i) - cen compact L') := by
  unfold cen
  cases compact
  · exact amF_shift_full L' i u hu
  · exact amF_shift_compact L' i u hu

/-- four more base modules per layer -/
theorem baseSize_add (compact : Bool) (L' i : Nat) :
    baseSize compact (L' + i) = baseSize compact L' + 4 * i := by
  unfold baseSize
  cases compact <;> simp <;> omega

/-- low coordinates of layer `i` of the larger symbol -/
theorem amF_lo (compact : Bool) (L' i u : Nat) (hu : u < baseSize compact L') :
    amF compact (baseSize compact (L' + i)) (i * 2 + u) =
      amF compact (baseSize compact L') (0 * 2 + u) + (cen compact (L' + i) - cen compact L') := by
  have e1 : i * 2 + u = 2 * i + u := by omega
  have e2 : 0 * 2 + u = u := by omega
  rw [e1, e2, amF_shift compact L' i u hu]

/-- high coordinates of layer `i` of the larger symbol -/
theorem amF_hi (compact : Bool) (L' i u : Nat) (hu : u < baseSize compact L') :
    amF compact (baseSize compact (L' + i)) (baseSize compact (L' + i) - 1 - i * 2 - u) =
      amF compact (baseSize compact L') (baseSize compact L' - 1 - 0 * 2 - u) +
        (cen compact (L' + i) - cen compact L') := by
  have e1 : baseSize compact (L' + i) - 1 - i * 2 - u = 2 * i + (baseSize compact L' - 1 - u) := by
    rw [baseSize_add]; omega
  have e2 : baseSize compact L' - 1 - 0 * 2 - u = baseSize compact L' - 1 - u := by omega
  rw [e1, e2, amF_shift compact L' i _ (by omega)]

/-- the columns of the outermost layer are alignment map indices -/
theorem rowSize_lt_baseSize (compact : Bool) (L : Nat) : rowSize compact L 0 < baseSize compact L := by
  unfold rowSize baseSize
  cases compact <;> simp <;> omega

/-- layer `i` of `L' + i` layers is as long as the outermost layer of `L'` layers -/
theorem rowSize_add (compact : Bool) (L' i : Nat) : rowSize compact (L' + i) i = rowSize compact L' 0 := by
  unfold rowSize
  have : L' + i - i = L' - 0 := by omega
  rw [this]

/-- one write of a layer of the larger symbol and the corresponding write of the outermost layer of the
    smaller symbol -/
theorem disj_shift (D D' Mo : Array Bool) (off : Nat) (hD : ∀ j, D'.getD j false = D.getD (off + j) false)
    (t t' : Nat) (ht : t = off + t') (a a' b b' d x y : Nat) (ha : a = a' + d) (hb : b = b' + d) :
    (evalTag D Mo (2 * t + 2) && (a == x && b == y)) =
      (evalTag D' Mo (2 * t' + 2) && (a' + d == x && b' + d == y)) := by
  subst ht ha hb
  rw [evalTag_data, evalTag_data, hD]

/-- congruence for a disjunction of four -/
theorem or4 {a1 a2 a3 a4 b1 b2 b3 b4 : Bool} (h1 : a1 = b1) (h2 : a2 = b2) (h3 : a3 = b3) (h4 : a4 = b4) :
    (a1 || (a2 || (a3 || a4))) = (b1 || (b2 || (b3 || b4))) := by
  rw [h1, h2, h3, h4]

/-- layer `i` of the symbol with `L' + i` layers is the outermost layer of the symbol with `L'` layers, moved
    outwards by the difference of the centres and reading the message from bit `off` on -/
theorem hit_layer (D D' Mo : Array Bool) (compact : Bool) (L' i off : Nat)
    (hD : ∀ j, D'.getD j false = D.getD (off + j) false) (x y : Nat) :
    hit D Mo (layerOps compact (L' + i) (baseSize compact (L' + i)) (amF compact (baseSize compact (L' + i)))
      i off) x y =
    (outerOps compact L').any (fun o => evalTag D' Mo o.1 &&
      (o.2.1 + (cen compact (L' + i) - cen compact L') == x &&
       o.2.2 + (cen compact (L' + i) - cen compact L') == y)) := by
  unfold hit outerOps layerOps
  simp only [List.any_flatMap, List.any_cons, List.any_nil, Bool.or_false]
  rw [rowSize_add]
  apply any_congr_mem
  intro j hj
  apply any_congr_mem
  intro k hk
  have hj' : j < baseSize compact L' :=
    Nat.lt_trans (List.mem_range.mp hj) (rowSize_lt_baseSize compact L')
  have hk' : k < baseSize compact L' := by
    have h1 := List.mem_range.mp hk
    have h2 : 2 < baseSize compact L' := by unfold baseSize; cases compact <;> simp <;> omega
    omega
  refine or4 ?_ ?_ ?_ ?_
  · refine disj_shift D D' Mo off hD _ _ ?_ _ _ _ _ _ x y (amF_lo compact L' i k hk')
      (amF_lo compact L' i j hj')
    omega
  · refine disj_shift D D' Mo off hD _ _ ?_ _ _ _ _ _ x y (amF_lo compact L' i j hj')
      (amF_hi compact L' i k hk')
    omega
  · refine disj_shift D D' Mo off hD _ _ ?_ _ _ _ _ _ x y (amF_hi compact L' i k hk')
      (amF_hi compact L' i j hj')
    omega
  · refine disj_shift D D' Mo off hD _ _ ?_ _ _ _ _ _ x y (amF_hi compact L' i j hj')
      (amF_lo compact L' i k hk')
    omega

/-- every alignment map entry is a coordinate of the matrix -/
theorem amF_lt (compact : Bool) (L u : Nat) : amF compact (baseSize compact L) u < matSize compact L := by
  unfold amF matSize baseSize
  cases compact
  · simp only [Bool.false_eq_true, if_false]
    repeat' split
    all_goals omega
  · simp only [if_true]
    repeat' split
    all_goals omega

/-- the data operations of one layer stay inside the matrix -/
theorem layerOps_range (compact : Bool) (L bms : Nat) (a : Nat → Nat) (i off n : Nat) (ha : ∀ u, a u < n) :
    ∀ o ∈ layerOps compact L bms a i off, o.2.1 < n ∧ o.2.2 < n := by
  intro o ho
  unfold layerOps at ho
  simp only [List.mem_flatMap, List.mem_cons, List.not_mem_nil, or_false] at ho
  obtain ⟨j, _, k, _, h⟩ := ho
  rcases h with rfl | rfl | rfl | rfl <;> exact ⟨ha _, ha _⟩

/-- all data operations stay inside the matrix -/
theorem dataOps_range (compact : Bool) (L : Nat) :
    ∀ o ∈ dataOps compact L (baseSize compact L) (amF compact (baseSize compact L)),
      o.2.1 < matSize compact L ∧ o.2.2 < matSize compact L := by
  intro o ho
  rw [dataOps_eq, List.mem_flatMap] at ho
  obtain ⟨i, _, h⟩ := ho
  exact layerOps_range compact L _ _ i _ _ (amF_lt compact L) o h

/-- the bit offsets of the layers increase -/
theorem rowOff_mono (compact : Bool) (L : Nat) (i d : Nat) : rowOff compact L i ≤ rowOff compact L (i + d) := by
  induction d with
  | zero => exact Nat.le_refl _
  | succ d ih =>
    have : rowOff compact L (i + (d + 1)) = rowOff compact L (i + d) + rowSize compact L (i + d) * 8 := rfl
    omega

/-- consecutive chunks of the message, one per layer, concatenate to a segment of the message -/
theorem chunks (bits : List Bool) (compact : Bool) (L : Nat) : ∀ (m s : Nat),
    (List.range' s m).flatMap
        (fun i => (bits.drop (rowOff compact L i)).take (rowSize compact L i * 8)) =
      (bits.drop (rowOff compact L s)).take (rowOff compact L (s + m) - rowOff compact L s) := by
  intro m
  induction m with
  | zero => intro s; simp
  | succ m ih =>
    intro s
    rw [List.range'_succ, List.flatMap_cons, ih (s + 1)]
    have e1 : rowOff compact L (s + 1) = rowOff compact L s + rowSize compact L s * 8 := rfl
    have e2 : s + 1 + m = s + (m + 1) := by omega
    have e3 := rowOff_mono compact L (s + 1) m
    have e4 : rowOff compact L (s + (m + 1)) - rowOff compact L s =
        rowSize compact L s * 8 + (rowOff compact L (s + 1 + m) - rowOff compact L (s + 1)) := by
      rw [← e2]; omega
    rw [e4, List.take_add, List.drop_drop, ← e1]

/-- a disjunction over a list in which at most the entry `a` can hold -/
theorem any_unique {α : Type} (l : List α) (f : α → Bool) (a : α) (ha : a ∈ l)
    (h : ∀ b ∈ l, b ≠ a → f b = false) : l.any f = f a := by
  cases hfa : f a
  · rw [List.any_eq_false]
    intro b hb
    by_cases e : b = a
    · rw [e, hfa]; simp
    · rw [h b hb e]; simp
  · rw [List.any_eq_true]
    exact ⟨a, ha, hfa⟩

/-! ### what a certificate says -/

/-- the content of `cert compact L = true` -/
theorem cert_facts (compact : Bool) (L : Nat) (h : cert compact L = true) :
    matSize compact L = Spec.Aztec.symbolSize compact L ∧
    rowOff compact L L = totalBitsInLayer L compact ∧
    (∃ M, build (matSize compact L) (outerOps compact L) 0 = some M ∧
      checkSeq M (matSize compact L) (cen compact L) (ringSpec compact L) 2
        (2 * (rowSize compact L 0 * 8) + 2) = true) ∧
    (∀ o ∈ outerOps compact L, farOK compact (cen compact L) (loOf compact L) o.2.1 o.2.2 = true) ∧
    (∀ p ∈ ringSpec compact L,
      farOK compact (cen compact L) (loOf compact L) (cx (cen compact L) p.1) (cx (cen compact L) p.2) = true) ∧
    (∀ o ∈ fixedOps compact L,
      nearOK compact (cen compact L) (Spec.Aztec.modeRing compact) o.2.1 o.2.2 = true) ∧
    (∃ M, build (matSize compact L) (fixedOps compact L) 0 = some M ∧ fixedChecks compact L M = true) := by
  unfold cert at h
  simp only [Bool.and_eq_true, Nat.beq_eq, List.all_eq_true] at h
  obtain ⟨⟨⟨⟨⟨⟨h1, h2⟩, h3⟩, h4⟩, h5⟩, h6⟩, h7⟩ := h
  refine ⟨h1, h2, ?_, h4, h5, h6, ?_⟩
  · cases hb : build (matSize compact L) (outerOps compact L) 0 with
    | none => rw [hb] at h3; simp at h3
    | some M => rw [hb] at h3; exact ⟨M, rfl, h3⟩
  · cases hb : build (matSize compact L) (fixedOps compact L) 0 with
    | none => rw [hb] at h7; simp at h7
    | some M => rw [hb] at h7; exact ⟨M, rfl, h7⟩

/-! ### arithmetic of centres and layer radii -/

theorem matSize_odd (compact : Bool) (L : Nat) : matSize compact L = 2 * cen compact L + 1 := by
  unfold cen matSize baseSize
  cases compact <;> simp <;> omega

/-- larger symbols have a larger centre coordinate -/
theorem cen_mono (compact : Bool) (L' d : Nat) : cen compact L' ≤ cen compact (L' + d) := by
  unfold cen matSize baseSize
  cases compact <;> simp <;> omega

/-- a smaller symbol ends before the outermost layer of a larger one begins -/
theorem cen_lt_lo (compact : Bool) (L'' L' : Nat) (h : L'' < L') : cen compact L'' < loOf compact L' := by
  unfold cen loOf matSize baseSize
  cases compact <;> simp <;> omega

/-- without data layers the symbol ends at the mode message ring -/
theorem cen_zero (compact : Bool) : cen compact 0 = Spec.Aztec.modeRing compact := by
  cases compact <;> rfl

/-- moving the centre and the module by the same amount keeps the distance -/
theorem chebN_shift (c x y d : Nat) : chebN (c + d) (x + d) (y + d) = chebN c x y := by
  unfold chebN dist
  have e1 : x + d - (c + d) = x - c := by omega
  have e2 : c + d - (x + d) = c - x := by omega
  have e3 : y + d - (c + d) = y - c := by omega
  have e4 : c + d - (y + d) = c - y := by omega
  rw [e1, e2, e3, e4]

/-- cancel a common summand in a comparison -/
theorem beq_add_right (a b d : Nat) : (a + d == b + d) = (a == b) := by
  rw [Bool.eq_iff_iff]
  simp

/-- reading a message from bit `off` on -/
theorem getD_drop (bits : List Bool) (off j : Nat) :
    (bits.drop off).toArray.getD j false = bits.toArray.getD (off + j) false := by
  simp [Array.getD_eq_getD_getElem?, List.getElem?_drop]

/-! ### one data layer of a larger symbol -/

/-- a layer does not hit modules that are nearer to the centre than its inner radius, or on the grid -/
theorem layer_near (compact : Bool) (L L' i : Nat) (hL : L = L' + i) (bits : List Bool) (Mo : Array Bool)
    (hc : cert compact L' = true) (x y ρ : Nat) (hn : nearOK compact (cen compact L) ρ x y = true)
    (hρ : ρ < loOf compact L') (off : Nat) :
    hit bits.toArray Mo (layerOps compact L (baseSize compact L) (amF compact (baseSize compact L)) i off) x y =
      false := by
  subst hL
  rw [hit_layer bits.toArray (bits.drop off).toArray Mo compact L' i off (getD_drop bits off), List.any_eq_false]
  intro o ho hh
  simp only [Bool.and_eq_true, beq_iff_eq] at hh
  obtain ⟨_, hx, hy⟩ := hh
  have hf := (cert_facts compact L' hc).2.2.2.1 o ho
  have hcen : cen compact (L' + i) = cen compact L' + (cen compact (L' + i) - cen compact L') := by
    have := cen_mono compact L' i; omega
  rw [← farOK_shift compact _ _ _ _ (cen compact (L' + i) - cen compact L'), ← hcen, hx, hy] at hf
  exact far_near_absurd compact _ _ _ _ _ hf hn hρ

/-- a layer does not hit modules outside the symbol it is the outermost layer of -/
theorem layer_far (compact : Bool) (L L' i : Nat) (hL : L = L' + i) (bits : List Bool) (Mo : Array Bool)
    (x y : Nat) (hch : cen compact L' < chebN (cen compact L) x y) (off : Nat) :
    hit bits.toArray Mo (layerOps compact L (baseSize compact L) (amF compact (baseSize compact L)) i off) x y =
      false := by
  subst hL
  rw [hit_layer bits.toArray (bits.drop off).toArray Mo compact L' i off (getD_drop bits off), List.any_eq_false]
  intro o ho hh
  simp only [Bool.and_eq_true, beq_iff_eq] at hh
  obtain ⟨_, hx, hy⟩ := hh
  have hr := layerOps_range compact L' _ _ 0 0 _ (amF_lt compact L') o ho
  rw [matSize_odd] at hr
  have hcen : cen compact (L' + i) = cen compact L' + (cen compact (L' + i) - cen compact L') := by
    have := cen_mono compact L' i; omega
  rw [hcen, ← hx, ← hy, chebN_shift] at hch
  unfold chebN dist at hch
  omega

/-- what the certificate of the symbol with `L'` layers says about its outermost layer's `j`-th module, seen
    in a larger symbol -/
theorem ring_cell_facts (compact : Bool) (L L' i : Nat) (hL : L = L' + i) (hc : cert compact L' = true)
    (p : Int × Int) (hp : p ∈ ringSpec compact L') (hin : inside (matSize compact L') (cen compact L') p = true) :
    cx (cen compact L) p.1 = cx (cen compact L') p.1 + (cen compact L - cen compact L') ∧
    cx (cen compact L) p.2 = cx (cen compact L') p.2 + (cen compact L - cen compact L') ∧
    farOK compact (cen compact L) (loOf compact L') (cx (cen compact L) p.1) (cx (cen compact L) p.2) = true ∧
    chebN (cen compact L) (cx (cen compact L) p.1) (cx (cen compact L) p.2) ≤ cen compact L' ∧
    loOf compact L' ≤ chebN (cen compact L) (cx (cen compact L) p.1) (cx (cen compact L) p.2) ∧
    inside (matSize compact L) (cen compact L) p = true := by
  subst hL
  have hmono := cen_mono compact L' i
  simp only [inside, Bool.and_eq_true, insideAx_iff] at hin
  obtain ⟨⟨a1, a2⟩, ⟨b1, b2⟩⟩ := hin
  have hx : cx (cen compact (L' + i)) p.1 = cx (cen compact L') p.1 + (cen compact (L' + i) - cen compact L') := by
    unfold cx; omega
  have hy : cx (cen compact (L' + i)) p.2 = cx (cen compact L') p.2 + (cen compact (L' + i) - cen compact L') := by
    unfold cx; omega
  have hcen : cen compact (L' + i) = cen compact L' + (cen compact (L' + i) - cen compact L') := by omega
  have hf := (cert_facts compact L' hc).2.2.2.2.1 p hp
  have hf' : farOK compact (cen compact (L' + i)) (loOf compact L') (cx (cen compact (L' + i)) p.1)
      (cx (cen compact (L' + i)) p.2) = true := by
    rw [hx, hy]
    rw [← farOK_shift compact _ _ _ _ (cen compact (L' + i) - cen compact L'), ← hcen] at hf
    exact hf
  have hch : chebN (cen compact (L' + i)) (cx (cen compact (L' + i)) p.1) (cx (cen compact (L' + i)) p.2) =
      chebN (cen compact L') (cx (cen compact L') p.1) (cx (cen compact L') p.2) := by
    rw [hx, hy]
    generalize cen compact (L' + i) - cen compact L' = d at hcen ⊢
    rw [hcen, chebN_shift]
  refine ⟨hx, hy, hf', ?_, ?_, ?_⟩
  · rw [hch]
    rw [matSize_odd] at a2 b2
    unfold chebN dist
    omega
  · have := hf'
    unfold farOK at this
    simp only [Bool.and_eq_true, Nat.ble_eq] at this
    exact this.1
  · simp only [inside, Bool.and_eq_true, insideAx_iff]
    rw [matSize_odd] at a2 b2 ⊢
    rw [hx, hy]
    refine ⟨⟨?_, ?_⟩, ⟨?_, ?_⟩⟩ <;> omega

/-- the outermost layer writes message bit `j` into its `j`-th module (in the reference decoder's order) -/
theorem outer_own (compact : Bool) (L' : Nat) (D Mo : Array Bool) (hc : cert compact L' = true) (j : Nat)
    (hj : j < (ringSpec compact L').length) :
    hit D Mo (outerOps compact L') (cx (cen compact L') (ringSpec compact L')[j].1)
      (cx (cen compact L') (ringSpec compact L')[j].2) = D.getD j false := by
  obtain ⟨M, hb, hs⟩ := (cert_facts compact L' hc).2.2.1
  obtain ⟨hin, hv⟩ := (checkSeq_sound M _ _ _ _ _ hs).2 j hj
  simp only [inside, Bool.and_eq_true, insideAx_iff] at hin
  rw [hit_of_build D Mo (matSize compact L') (outerOps compact L') M hb _ _ hin.1.2 hin.2.2]
  unfold slotOf at hv
  rw [hv]
  have e : 2 + 2 * j = 2 * j + 2 := by omega
  rw [e, evalTag_data]

/-- a layer writes message bit `off + j` into its `j`-th module (in the reference decoder's order) -/
theorem layer_own (compact : Bool) (L L' i : Nat) (hL : L = L' + i) (bits : List Bool) (Mo : Array Bool)
    (hc : cert compact L' = true) (off j : Nat) (hj : j < (ringSpec compact L').length) :
    hit bits.toArray Mo (layerOps compact L (baseSize compact L) (amF compact (baseSize compact L)) i off)
        (cx (cen compact L) (ringSpec compact L')[j].1) (cx (cen compact L) (ringSpec compact L')[j].2) =
      bits.toArray.getD (off + j) false := by
  obtain ⟨M, hb, hs⟩ := (cert_facts compact L' hc).2.2.1
  obtain ⟨hin, hv⟩ := (checkSeq_sound M _ _ _ _ _ hs).2 j hj
  obtain ⟨hx, hy, _, _, _, _⟩ := ring_cell_facts compact L L' i hL hc _ (List.getElem_mem hj) hin
  subst hL
  rw [hit_layer bits.toArray (bits.drop off).toArray Mo compact L' i off (getD_drop bits off), hx, hy]
  simp only [beq_add_right]
  have := outer_own compact L' (bits.drop off).toArray Mo hc j hj
  unfold hit at this
  rw [this, getD_drop]

/-- the data operations write message bit `rowOff i + j` into the `j`-th module of layer `i` -/
theorem data_own (compact : Bool) (L L' i : Nat) (hL : L = L' + i) (hL' : 1 ≤ L') (bits : List Bool)
    (Mo : Array Bool) (hall : ∀ K, 1 ≤ K → K ≤ L → cert compact K = true) (j : Nat)
    (hj : j < (ringSpec compact L').length) :
    hit bits.toArray Mo (dataOps compact L (baseSize compact L) (amF compact (baseSize compact L)))
        (cx (cen compact L) (ringSpec compact L')[j].1) (cx (cen compact L) (ringSpec compact L')[j].2) =
      bits.toArray.getD (rowOff compact L i + j) false := by
  have hc := hall L' hL' (by omega)
  obtain ⟨M, hb, hs⟩ := (cert_facts compact L' hc).2.2.1
  obtain ⟨hin, _⟩ := (checkSeq_sound M _ _ _ _ _ hs).2 j hj
  obtain ⟨_, _, _, hle, hge, _⟩ := ring_cell_facts compact L L' i hL hc _ (List.getElem_mem hj) hin
  rw [dataOps_eq, hit_flatMap]
  rw [any_unique _ _ i (by rw [List.mem_range']; exact ⟨i, by omega, by omega⟩)]
  · exact layer_own compact L L' i hL bits Mo hc _ j hj
  · intro k hk hne
    rw [List.mem_range'] at hk
    obtain ⟨k', hk1, hk2⟩ := hk
    have hkL : k < L := by omega
    by_cases hlt : k < i
    · -- an outer layer: the module is inside its inner radius
      apply layer_near compact L (L' + (i - k)) k (by omega) bits Mo (hall _ (by omega) (by omega)) _ _
        (cen compact L')
      · unfold nearOK
        simp only [Bool.or_eq_true, Nat.ble_eq]
        exact Or.inl hle
      · exact cen_lt_lo compact _ _ (by omega)
    · -- an inner layer: the module is outside the symbol that layer is the outermost layer of
      apply layer_far compact L (L - k) k (by omega) bits Mo
      have := cen_lt_lo compact (L - k) L' (by omega)
      omega

/-- the data operations do not hit modules near the centre or on the grid -/
theorem data_near (compact : Bool) (L : Nat) (bits : List Bool) (Mo : Array Bool)
    (hall : ∀ K, 1 ≤ K → K ≤ L → cert compact K = true) (x y : Nat)
    (hn : nearOK compact (cen compact L) (Spec.Aztec.modeRing compact) x y = true) :
    hit bits.toArray Mo (dataOps compact L (baseSize compact L) (amF compact (baseSize compact L))) x y = false := by
  rw [dataOps_eq, hit_flatMap, List.any_eq_false]
  intro k hk
  rw [List.mem_range'] at hk
  obtain ⟨k', hk1, hk2⟩ := hk
  rw [layer_near compact L (L - k) k (by omega) bits Mo (hall _ (by omega) (by omega)) x y _ hn
    (by rw [← cen_zero]; exact cen_lt_lo compact 0 _ (by omega))]
  simp

/-! ### the whole symbol -/

theorem allOps_eq (compact : Bool) (L : Nat) :
    allOps compact L =
      dataOps compact L (baseSize compact L) (amF compact (baseSize compact L)) ++ fixedOps compact L := rfl

/-- a module of the rendered symbol is dark iff a data operation or a fixed-pattern operation hit it -/
theorem modAt_hit (compact : Bool) (L : Nat) (hc : cert compact L = true) (bits mm : List Bool) (data : Bytes)
    (color : Scheme) (p : Int × Int) (hin : inside (matSize compact L) (cen compact L) p = true) :
    modAt (render compact L bits mm data color) p =
      (hit bits.toArray mm.toArray (dataOps compact L (baseSize compact L) (amF compact (baseSize compact L)))
          (cx (cen compact L) p.1) (cx (cen compact L) p.2) ||
       hit bits.toArray mm.toArray (fixedOps compact L) (cx (cen compact L) p.1) (cx (cen compact L) p.2)) := by
  obtain ⟨M, hb, _⟩ := (cert_facts compact L hc).2.2.2.2.2.2
  simp only [inside, Bool.and_eq_true, insideAx_iff] at hin
  have hr : ∀ o ∈ allOps compact L, o.2.1 < matSize compact L ∧ o.2.2 < matSize compact L := by
    intro o ho
    rw [allOps_eq, List.mem_append] at ho
    rcases ho with ho | ho
    · exact dataOps_range compact L o ho
    · exact build_range _ _ _ _ hb o ho
  have hsz := applyOps_size bits.toArray mm.toArray (allOps compact L) (blank (matSize compact L) data color)
  have hsize : (render compact L bits mm data color).size = matSize compact L := by
    rw [render_eq, hsz.1]; rfl
  unfold modAt
  show (render compact L bits mm data color).at _ _ = _
  rw [hsize]
  show (render compact L bits mm data color).at (cx (cen compact L) p.1) (cx (cen compact L) p.2) = _
  rw [render_eq, at_applyOps bits.toArray mm.toArray (matSize compact L) (allOps compact L) _ rfl
    (by simp [blank, newAztecCode]) hr _ _ hin.1.2 hin.2.2, allOps_eq, hit_append]
  have hblank : (blank (matSize compact L) data color).at (cx (cen compact L) p.1) (cx (cen compact L) p.2) =
      false := by
    simp only [blank, newAztecCode, AztecCode.at, Array.getD_eq_getD_getElem?, Array.getElem?_replicate]
    split <;> rfl
  rw [hblank, Bool.false_or]

/-- `flatMap` of functions that agree on the list -/
theorem flatMap_congr_mem {α β : Type} (l : List α) (f g : α → List β) (h : ∀ a ∈ l, f a = g a) :
    l.flatMap f = l.flatMap g := by
  induction l with
  | nil => rfl
  | cons a as ih =>
    rw [List.flatMap_cons, List.flatMap_cons, h a (List.mem_cons_self ..),
      ih (fun b hb => h b (List.mem_cons_of_mem _ hb))]

/-- the reference decoder's data modules, layer by layer -/
theorem dataModules_eq (compact : Bool) (L : Nat) :
    Spec.Aztec.dataModules compact L = (List.range' 0 L).flatMap (fun i => ringSpec compact (L - i)) := by
  unfold Spec.Aztec.dataModules
  rw [List.map_flatMap, List.range_eq_range']
  rfl

/-- the modules of layer `i` spell the message bits `rowOff i …` -/
theorem layer_modules (compact : Bool) (L i : Nat) (hi : i < L) (hall : ∀ K, 1 ≤ K → K ≤ L → cert compact K = true)
    (bits mm : List Bool) (hm : bits.length = totalBitsInLayer L compact) (data : Bytes) (color : Scheme) :
    (ringSpec compact (L - i)).map (modAt (render compact L bits mm data color)) =
      (bits.drop (rowOff compact L i)).take (rowSize compact L i * 8) := by
  have hcL := hall L (by omega) (Nat.le_refl _)
  have hc := hall (L - i) (by omega) (by omega)
  have hLe : L = (L - i) + i := by omega
  obtain ⟨M, hb, hs⟩ := (cert_facts compact (L - i) hc).2.2.1
  obtain ⟨hlen, hcells⟩ := checkSeq_sound M _ _ _ _ _ hs
  have hrs : rowSize compact (L - i) 0 = rowSize compact L i := by
    have := rowSize_add compact (L - i) i
    rw [← hLe] at this
    exact this.symm
  rw [hrs] at hlen
  have htot : rowOff compact L L = bits.length := by rw [hm]; exact (cert_facts compact L hcL).2.1
  have hmono : rowOff compact L (i + 1) ≤ rowOff compact L L := by
    have := rowOff_mono compact L (i + 1) (L - (i + 1))
    have e : i + 1 + (L - (i + 1)) = L := by omega
    rw [e] at this
    exact this
  have hstep : rowOff compact L (i + 1) = rowOff compact L i + rowSize compact L i * 8 := rfl
  apply List.ext_getElem
  · rw [List.length_map, List.length_take, List.length_drop]
    omega
  · intro j hj1 hj2
    have hj : j < (ringSpec compact (L - i)).length := by simpa using hj1
    obtain ⟨hin, _⟩ := hcells j hj
    obtain ⟨_, _, hfar, _, _, hinL⟩ :=
      ring_cell_facts compact L (L - i) i hLe hc _ (List.getElem_mem hj) hin
    rw [List.getElem_map, modAt_hit compact L hcL bits mm data color _ hinL,
      data_own compact L (L - i) i hLe (by omega) bits mm.toArray hall j hj,
      hit_near_far bits.toArray mm.toArray compact (cen compact L) (loOf compact (L - i))
        (Spec.Aztec.modeRing compact) (fixedOps compact L) (cert_facts compact L hcL).2.2.2.2.2.1 _ _ hfar
        (by rw [← cen_zero]; exact cen_lt_lo compact 0 _ (by omega)),
      Bool.or_false, List.getElem_take, List.getElem_drop]
    have hlt : rowOff compact L i + j < bits.length := by omega
    simp [Array.getD_eq_getD_getElem?, hlt]

/-- the data modules of the rendered symbol, read in the reference decoder's order, are the message bits -/
theorem data_modules (compact : Bool) (L : Nat) (hall : ∀ K, 1 ≤ K → K ≤ L → cert compact K = true)
    (hL : 1 ≤ L) (bits mm : List Bool) (hm : bits.length = totalBitsInLayer L compact) (data : Bytes)
    (color : Scheme) :
    (Spec.Aztec.dataModules compact L).map (modAt (render compact L bits mm data color)) = bits := by
  have hcL := hall L hL (Nat.le_refl _)
  rw [dataModules_eq, List.map_flatMap,
    flatMap_congr_mem _ _ (fun i => (bits.drop (rowOff compact L i)).take (rowSize compact L i * 8))]
  · rw [chunks bits compact L L 0]
    have htot : rowOff compact L L = bits.length := by rw [hm]; exact (cert_facts compact L hcL).2.1
    have e0 : rowOff compact L 0 = 0 := rfl
    rw [Nat.zero_add, htot, e0]
    simp
  · intro i hi
    rw [List.mem_range'] at hi
    obtain ⟨k, hk1, hk2⟩ := hi
    exact layer_modules compact L i (by omega) hall bits mm hm data color

/-! ### the fixed patterns -/

/-- a module near the centre or on the grid is what the map of the fixed operations says -/
theorem fixed_modAt (compact : Bool) (L : Nat) (hall : ∀ K, 1 ≤ K → K ≤ L → cert compact K = true)
    (hL : 1 ≤ L) (bits mm : List Bool) (data : Bytes) (color : Scheme) (M : Nat)
    (hb : build (matSize compact L) (fixedOps compact L) 0 = some M) (p : Int × Int)
    (hin : inside (matSize compact L) (cen compact L) p = true)
    (hn : nearOK compact (cen compact L) (Spec.Aztec.modeRing compact) (cx (cen compact L) p.1)
      (cx (cen compact L) p.2) = true) :
    modAt (render compact L bits mm data color) p =
      evalTag bits.toArray mm.toArray (val M (slotOf (matSize compact L) (cen compact L) p)) := by
  rw [modAt_hit compact L (hall L hL (Nat.le_refl _)) bits mm data color p hin,
    data_near compact L bits mm.toArray hall _ _ hn, Bool.false_or]
  simp only [inside, Bool.and_eq_true, insideAx_iff] at hin
  exact hit_of_build _ _ _ _ M hb _ _ hin.1.2 hin.2.2

/-- a member of a list that passed `allNear` -/
theorem allNear_mem (compact : Bool) (c r : Nat) (ps : List (Int × Int)) (h : allNear compact c r ps = true)
    (p : Int × Int) (hp : p ∈ ps) : nearOK compact c r (cx c p.1) (cx c p.2) = true := by
  unfold allNear at h
  rw [List.all_eq_true] at h
  exact h p hp

/-- modules of a checked fixed pattern have the expected colour -/
theorem fixed_pattern (compact : Bool) (L : Nat) (hall : ∀ K, 1 ≤ K → K ≤ L → cert compact K = true)
    (hL : 1 ≤ L) (bits mm : List Bool) (data : Bytes) (color : Scheme) (M : Nat)
    (hb : build (matSize compact L) (fixedOps compact L) 0 = some M) (exp : Int × Int → Option Bool)
    (ps : List (Int × Int)) (hf : checkFixed M (matSize compact L) (cen compact L) exp ps = true)
    (p : Int × Int) (hp : p ∈ ps) (b : Bool) (he : exp p = some b)
    (hn : inside (matSize compact L) (cen compact L) p = true →
      nearOK compact (cen compact L) (Spec.Aztec.modeRing compact) (cx (cen compact L) p.1)
        (cx (cen compact L) p.2) = true) :
    modAt (render compact L bits mm data color) p = b := by
  obtain ⟨h1, h2⟩ := checkFixed_sound M _ _ exp ps hf p hp b he
  rw [fixed_modAt compact L hall hL bits mm data color M hb p h1 (hn h1), h2, evalTag_toNat]

/-- an offset divisible by 16 is a grid coordinate -/
theorem onGrid_of_mod (c : Nat) (u : Int) (h0 : 0 ≤ (c : Int) + u) (h : (u % 16 == 0) = true) :
    onGrid c (cx c u) = true := by
  unfold onGrid cx
  simp only [beq_iff_eq] at h
  simp only [Nat.beq_eq]
  omega

/-- both coordinates of a module of `square hs` are on the axis list -/
theorem mem_square (hs : Nat) (p : Int × Int) (hp : p ∈ Spec.Aztec.square hs) :
    p.1 ∈ (List.range (2 * hs + 1)).map (fun (t : Nat) => (t : Int) - hs) ∧
    p.2 ∈ (List.range (2 * hs + 1)).map (fun (t : Nat) => (t : Int) - hs) := by
  unfold Spec.Aztec.square at hp
  simp only [List.mem_flatMap] at hp
  obtain ⟨y, hy, hp⟩ := hp
  rw [List.mem_map] at hp
  obtain ⟨x, hx, rfl⟩ := hp
  exact ⟨hx, hy⟩

/-- the modules of a square with a grid expectation are among `gridCells` -/
theorem mem_gridCells (hs : Nat) (p : Int × Int) (hp : p ∈ Spec.Aztec.square hs) (b : Bool)
    (he : gridExp p = some b) : p ∈ gridCells hs := by
  obtain ⟨h1, h2⟩ := mem_square hs p hp
  unfold gridCells
  rw [List.mem_append]
  unfold gridExp at he
  by_cases c1 : (p.1 % 16 == 0) = true
  · left
    rw [List.mem_flatMap]
    exact ⟨p.1, List.mem_filter.mpr ⟨h1, c1⟩, List.mem_map.mpr ⟨p.2, h2, rfl⟩⟩
  · rw [if_neg c1] at he
    by_cases c2 : (p.2 % 16 == 0) = true
    · right
      rw [List.mem_flatMap]
      exact ⟨p.2, List.mem_filter.mpr ⟨h2, c2⟩, List.mem_map.mpr ⟨p.1, h1, rfl⟩⟩
    · rw [if_neg c2] at he
      simp at he

/-! ### from the certificates to the geometry statement -/

/-- the geometry statement of one shape (what `render_geometry` asserts) -/
def Geometry (compact : Bool) (layers : Nat) : Prop :=
  ∀ (messageBits modeMessage : List Bool),
    messageBits.length = totalBitsInLayer layers compact →
    modeMessage.length = (if compact then 28 else 40) → ∀ (data : Bytes) (color : Scheme),
    let code := render compact layers messageBits modeMessage data color
    let r := Spec.Aztec.modeRing compact
    code.size = Spec.Aztec.symbolSize compact layers ∧
    code.toBarcode.w = code.size ∧ code.toBarcode.h = code.size ∧ code.toBarcode.content = data ∧
    (Spec.Aztec.dataModules compact layers).map (modAt code) = messageBits ∧
    (Spec.Aztec.modeModules compact).map (modAt code) = modeMessage ∧
    (Spec.Aztec.ringWalk 5).all (fun p => !modAt code p) = !compact ∧
    (Spec.Aztec.square (r - 1)).all (fun p => modAt code p == (Spec.Aztec.cheb p % 2 == 0)) = true ∧
    ((Spec.Aztec.ringWalk r).filter (Spec.Aztec.isOrientation r)).all
        (fun p => modAt code p == (Spec.Aztec.orientationDark r).contains p) = true ∧
    (compact = false → (Spec.Aztec.square (Spec.Aztec.halfSize compact layers)).all (fun p =>
        if p.1 % 16 == 0 then modAt code p == (p.2 % 2 == 0)
        else if p.2 % 16 == 0 then modAt code p == (p.1 % 2 == 0) else true) = true)

/-- soundness of the certificates: if the certificates of all shapes with at most `L` layers evaluate to `true`,
    the shape with `L` layers has the stated geometry for every message, mode message, content and colour -/
theorem geometry_of_certs (compact : Bool) (L : Nat) (hL : 1 ≤ L)
    (hall : ∀ K, 1 ≤ K → K ≤ L → cert compact K = true) : Geometry compact L := by
  intro bits mm hm hmm data color
  have hcL := hall L hL (Nat.le_refl _)
  obtain ⟨c1, _, _, _, _, _, ⟨M, hb, hfc⟩⟩ := cert_facts compact L hcL
  unfold fixedChecks at hfc
  simp only [Bool.and_eq_true] at hfc
  obtain ⟨⟨⟨⟨⟨⟨⟨⟨f1, f2⟩, f3⟩, f4⟩, f5⟩, f6⟩, f7⟩, f8⟩, f9⟩ := hfc
  intro code r
  have hsz := applyOps_size bits.toArray mm.toArray (allOps compact L) (blank (matSize compact L) data color)
  refine ⟨?_, rfl, rfl, ?_, ?_, ?_, ?_, ?_, ?_, ?_⟩
  · show (render compact L bits mm data color).size = _
    rw [render_eq, hsz.1, ← c1]
    rfl
  · show (render compact L bits mm data color).content = data
    rw [render_eq, applyOps_content]
    rfl
  · exact data_modules compact L hall hL bits mm hm data color
  · -- mode message
    obtain ⟨hlen, hcells⟩ := checkSeq_sound M _ _ _ _ _ f1
    apply List.ext_getElem
    · rw [List.length_map]; omega
    · intro j hj1 hj2
      have hj : j < (Spec.Aztec.modeModules compact).length := by simpa using hj1
      obtain ⟨a, b⟩ := hcells j hj
      rw [List.getElem_map, fixed_modAt compact L hall hL bits mm data color M hb _ a
        (allNear_mem _ _ _ _ f2 _ (List.getElem_mem hj)), b]
      have e : 3 + 2 * j = 2 * j + 3 := by omega
      rw [e, evalTag_mode]
      simp [Array.getD_eq_getD_getElem?, hj2]
  · -- ring 5
    cases compact
    · simp only [Bool.false_eq_true, if_false] at f3
      simp only [Bool.not_false, List.all_eq_true, Bool.not_eq_true']
      intro p hp
      exact fixed_pattern false L hall hL bits mm data color M hb _ _ f3 p hp false rfl
        (fun _ => allNear_mem _ _ _ _ f4 p hp)
    · simp only [if_true] at f3
      simp only [Bool.not_true, List.all_eq_false, Bool.not_eq_true', Bool.not_eq_false]
      refine ⟨(-5, -5), by decide, ?_⟩
      exact fixed_pattern true L hall hL bits mm data color M hb _ _ f3 (-5, -5) (by simp) true rfl
        (fun _ => allNear_mem _ _ _ _ f4 (-5, -5) (by decide))
  · -- bullseye
    simp only [List.all_eq_true, beq_iff_eq]
    intro p hp
    exact fixed_pattern compact L hall hL bits mm data color M hb _ _ f5 p hp _ rfl
      (fun _ => allNear_mem _ _ _ _ f6 p hp)
  · -- orientation marks
    simp only [List.all_eq_true, beq_iff_eq]
    intro p hp
    exact fixed_pattern compact L hall hL bits mm data color M hb _ _ f7 p hp _ rfl
      (fun _ => allNear_mem _ _ _ _ f8 p hp)
  · -- reference grid
    intro hcf
    subst hcf
    simp only [Bool.false_eq_true, if_false] at f9
    rw [List.all_eq_true]
    intro p hp
    have key : ∀ b, gridExp p = some b → modAt code p = b := by
      intro b he
      refine fixed_pattern false L hall hL bits mm data color M hb _ _ f9 p (mem_gridCells _ p hp b he) b he ?_
      intro hin
      simp only [inside, Bool.and_eq_true, insideAx_iff] at hin
      unfold nearOK
      simp only [Bool.or_eq_true, Bool.and_eq_true, Bool.not_false, true_and]
      right
      unfold gridExp at he
      by_cases c1 : (p.1 % 16 == 0) = true
      · exact Or.inl (onGrid_of_mod _ _ hin.1.1 c1)
      · rw [if_neg c1] at he
        by_cases c2 : (p.2 % 16 == 0) = true
        · exact Or.inr (onGrid_of_mod _ _ hin.2.1 c2)
        · rw [if_neg c2] at he
          simp at he
    by_cases h1 : (p.1 % 16 == 0) = true
    · rw [if_pos h1, beq_iff_eq]
      exact key _ (by unfold gridExp; rw [if_pos h1])
    · rw [if_neg h1]
      by_cases h2 : (p.2 % 16 == 0) = true
      · rw [if_pos h2, beq_iff_eq]
        exact key _ (by unfold gridExp; rw [if_neg h1, if_pos h2])
      · rw [if_neg h2]

end BV.Proofs.AztecGeom
