/-
  QR: version choice (`findSmallestVersionInfo`) and the length / shape of the data bit stream that the mode
  encoders return (`addPaddingAndTerminator`, `encodeNumeric`, `encodeAlphaNumeric`, `encodeUnicode`,
  `encodeAuto`).  Everything here is for ALL inputs; the only finite facts used are the table certificates of
  `BV.Proofs.QrTables`.
-/
import BV.Proofs.QrTables
namespace BV.Proofs.QrStreamA
open BV BV.Model BV.Model.Qr BV.Gen.Qr BV.Proofs.QrTables

/-! ## B — version choice -/

/-- row `vi` can hold `dataBits` payload bits in mode `mode`: mode indicator (4) + character count + payload
    do not exceed the data capacity -/
def Fits (mode dataBits : Nat) (vi : VersionInfo) : Prop :=
  dataBits + 4 + vi.charCountBits mode ≤ 8 * vi.totalDataBytes

instance (mode dataBits : Nat) (vi : VersionInfo) : Decidable (Fits mode dataBits vi) := by
  unfold Fits; infer_instance

theorem findSmallest_pred (ecl mode dataBits : Nat) (vi : VersionInfo) :
    ((vi.level == ecl && decide (vi.totalDataBytes * 8 ≥ dataBits + 4 + vi.charCountBits mode)) = true) ↔
      (vi.level = ecl ∧ Fits mode dataBits vi) := by
  unfold Fits
  simp only [Bool.and_eq_true, beq_iff_eq, decide_eq_true_eq]
  constructor
  · rintro ⟨a, b⟩; exact ⟨a, by omega⟩
  · rintro ⟨a, b⟩; exact ⟨a, by omega⟩

/-- B1: a returned row is a row of the table, has the requested level and fits -/
theorem findSmallest_fits {ecl mode dataBits : Nat} {vi : VersionInfo}
    (h : findSmallestVersionInfo ecl mode dataBits = some vi) :
    vi ∈ versionInfos ∧ vi.level = ecl ∧ Fits mode dataBits vi := by
  unfold findSmallestVersionInfo at h
  have hm := List.mem_of_find?_eq_some h
  have hp := List.find?_some h
  exact ⟨hm, (findSmallest_pred ecl mode dataBits vi).mp hp⟩

/-- B2: no row of the same level with a smaller version fits (the table is sorted by version) -/
theorem findSmallest_minimal {ecl mode dataBits : Nat} {vi : VersionInfo}
    (h : findSmallestVersionInfo ecl mode dataBits = some vi) :
    ∀ vi', vi' ∈ versionInfos → vi'.level = ecl → vi'.version < vi.version → ¬ Fits mode dataBits vi' := by
  unfold findSmallestVersionInfo at h
  obtain ⟨_, as, bs, e, hall⟩ := List.find?_eq_some_iff_append.mp h
  intro vi' hmem hl hv hf
  have hs := versionInfos_sorted
  rw [e] at hmem hs
  rcases List.mem_append.mp hmem with h1 | h2
  · have := hall vi' h1
    rw [Bool.not_eq_true', ← Bool.not_eq_true, findSmallest_pred] at this
    exact this ⟨hl, hf⟩
  · rcases List.mem_cons.mp h2 with rfl | h3
    · omega
    · have := (List.pairwise_append.mp hs).2.1
      have := List.rel_of_pairwise_cons this h3
      omega

/-- B3: `none` iff no row of that level fits -/
theorem findSmallest_none_iff (ecl mode dataBits : Nat) :
    findSmallestVersionInfo ecl mode dataBits = none ↔
      ∀ vi, vi ∈ versionInfos → vi.level = ecl → ¬ Fits mode dataBits vi := by
  unfold findSmallestVersionInfo
  rw [List.find?_eq_none]
  constructor
  · intro h vi hm hl hf
    exact h vi hm ((findSmallest_pred ecl mode dataBits vi).mpr ⟨hl, hf⟩)
  · intro h vi hm hp
    obtain ⟨hl, hf⟩ := (findSmallest_pred ecl mode dataBits vi).mp hp
    exact h vi hm hl hf

/-- B3: an undefined level (≥ 4) never has a row -/
theorem findSmallest_none_of_level (ecl mode dataBits : Nat) (h : 4 ≤ ecl) :
    findSmallestVersionInfo ecl mode dataBits = none := by
  rw [findSmallest_none_iff]
  intro vi hm hl
  have := (mem_versionInfos_range hm).2.2
  omega

/-- `some` iff some row of that level fits -/
theorem findSmallest_isSome_iff (ecl mode dataBits : Nat) :
    (findSmallestVersionInfo ecl mode dataBits).isSome = true ↔
      ∃ vi, vi ∈ versionInfos ∧ vi.level = ecl ∧ Fits mode dataBits vi := by
  constructor
  · intro h
    obtain ⟨vi, hvi⟩ := Option.isSome_iff_exists.mp h
    exact ⟨vi, findSmallest_fits hvi⟩
  · rintro ⟨vi, hm, hl, hf⟩
    cases hr : findSmallestVersionInfo ecl mode dataBits with
    | some _ => rfl
    | none => exact absurd hf ((findSmallest_none_iff ecl mode dataBits).mp hr vi hm hl)

/-! ## C — padding -/

theorem length_msbBits (x k : Nat) : (msbBits x k).length = k := by simp [msbBits]

theorem msbBits_succ (x k : Nat) : msbBits x (k + 1) = x.testBit k :: msbBits x k := by
  unfold msbBits
  rw [List.range_succ_eq_map, List.map_cons, List.map_map]
  congr 1
  apply List.map_congr_left
  intro i _
  simp only [Function.comp]
  congr 1
  omega

theorem bitsToNat_foldl (bs : List Bool) (a : Nat) :
    bs.foldl (fun a b => 2 * a + (if b then 1 else 0)) a = a * 2 ^ bs.length + bitsToNat bs := by
  unfold bitsToNat
  induction bs generalizing a with
  | nil => simp
  | cons b bs ih =>
    simp only [List.foldl_cons, List.length_cons]
    rw [ih, ih (2 * 0 + _)]
    rw [Nat.pow_succ]
    generalize 2 ^ bs.length = p
    have e1 : (2 * a + 1) * p = 2 * (a * p) + p := by rw [Nat.add_mul, Nat.mul_assoc, Nat.one_mul]
    have e2 : a * (p * 2) = 2 * (a * p) := by rw [← Nat.mul_assoc, Nat.mul_comm]
    have e3 : 2 * a * p = 2 * (a * p) := Nat.mul_assoc _ _ _
    cases b <;> simp <;> omega

/-- the `k` bits written by `AddBits(x, k)` read back as `x mod 2^k` -/
theorem bitsToNat_msbBits (x k : Nat) : bitsToNat (msbBits x k) = x % 2 ^ k := by
  induction k with
  | zero => simp [msbBits, bitsToNat, Nat.mod_one]
  | succ k ih =>
    rw [msbBits_succ]
    show List.foldl _ _ _ = _
    rw [List.foldl_cons, bitsToNat_foldl, ih, length_msbBits, Nat.mod_pow_succ, Nat.testBit_eq_decide_div_mod_eq]
    have hr : x / 2 ^ k % 2 < 2 := Nat.mod_lt _ (by decide)
    generalize x / 2 ^ k % 2 = r at hr
    have : r = 0 ∨ r = 1 := by omega
    rcases this with rfl | rfl <;> simp <;> omega

theorem terminatorBits_eq (k len cap : Nat) :
    terminatorBits k len cap = List.replicate (min k (cap - len)) false := by
  induction k generalizing len with
  | zero => simp [terminatorBits]
  | succ k ih =>
    unfold terminatorBits
    by_cases h : len < cap
    · rw [if_pos h, ih]
      have : min (k + 1) (cap - len) = min k (cap - (len + 1)) + 1 := by omega
      rw [this, List.replicate_succ]
    · rw [if_neg h]
      have : min (k + 1) (cap - len) = 0 := by omega
      rw [this]; rfl

theorem alignBits_eq (k len : Nat) :
    alignBits k len = List.replicate (min k ((8 - len % 8) % 8)) false := by
  induction k generalizing len with
  | zero => simp [alignBits]
  | succ k ih =>
    unfold alignBits
    by_cases h : len % 8 = 0
    · have : (len % 8 != 0) = false := by simp [h]
      rw [this, h]; simp
    · have : (len % 8 != 0) = true := by simp [h]
      rw [this, if_pos rfl, ih]
      have : min (k + 1) ((8 - len % 8) % 8) = min k ((8 - (len + 1) % 8) % 8) + 1 := by omega
      rw [this, List.replicate_succ]

/-- `n` pad codewords, starting with 236 when `i` is even -/
def padSeq (n i : Nat) : List Bool :=
  (List.range n).flatMap (fun j => msbBits (if (i + j) % 2 == 0 then 236 else 17) 8)

theorem padSeq_succ (n i : Nat) :
    padSeq (n + 1) i = msbBits (if i % 2 == 0 then 236 else 17) 8 ++ padSeq n (i + 1) := by
  unfold padSeq
  rw [List.range_succ_eq_map, List.flatMap_cons, List.flatMap_map]
  congr 2
  funext j
  rw [show i + j.succ = i + 1 + j by omega]

theorem length_padSeq (n i : Nat) : (padSeq n i).length = 8 * n := by
  induction n generalizing i with
  | zero => rfl
  | succ n ih => rw [padSeq_succ, List.length_append, length_msbBits, ih]; omega

theorem padBytes_eq (k i len cap : Nat) :
    padBytes k i len cap = padSeq (min k ((cap - len + 7) / 8)) i := by
  induction k generalizing i len with
  | zero => simp [padBytes, padSeq]
  | succ k ih =>
    unfold padBytes
    by_cases h : len < cap
    · rw [if_pos h, ih]
      have : min (k + 1) ((cap - len + 7) / 8) = min k ((cap - (len + 8) + 7) / 8) + 1 := by omega
      rw [this, padSeq_succ]
    · rw [if_neg h]
      have : min (k + 1) ((cap - len + 7) / 8) = 0 := by omega
      rw [this]; rfl

/-- number of terminator bits for a stream of `len` bits in a symbol of `cap` bits -/
def termLen (len cap : Nat) : Nat := min 4 (cap - len)
/-- number of zero bits up to the next codeword boundary -/
def alignLen (len : Nat) : Nat := (8 - len % 8) % 8

/-- the stream after `addPaddingAndTerminator`: the input, at most four 0 bits (fewer only if the capacity is
    reached), 0 bits up to a codeword boundary, then the pad codewords 236, 17, 236, … up to the capacity -/
def padded (bl : List Bool) (cap : Nat) : List Bool :=
  let t := termLen bl.length cap
  let a := alignLen (bl.length + t)
  bl ++ (List.replicate t false ++ (List.replicate a false ++ padSeq ((cap - (bl.length + t + a)) / 8) 0))

/-- `addPaddingAndTerminator` in closed form, when the input does not exceed the capacity -/
theorem addPaddingAndTerminator_eq (bl : List Bool) (vi : VersionInfo)
    (h : bl.length ≤ 8 * vi.totalDataBytes) :
    addPaddingAndTerminator bl vi = padded bl (8 * vi.totalDataBytes) := by
  unfold addPaddingAndTerminator padded termLen alignLen
  simp only [terminatorBits_eq, alignBits_eq, padBytes_eq, List.length_replicate]
  generalize vi.totalDataBytes = T at *
  generalize bl.length = n at *
  have e1 : T * 8 = 8 * T := Nat.mul_comm _ _
  rw [e1]
  have e2 : min 8 ((8 - (n + min 4 (8 * T - n)) % 8) % 8) = (8 - (n + min 4 (8 * T - n)) % 8) % 8 := by omega
  rw [e2]
  have e3 : min (8 * T) ((8 * T - (n + min 4 (8 * T - n) + (8 - (n + min 4 (8 * T - n)) % 8) % 8) + 7) / 8)
      = (8 * T - (n + min 4 (8 * T - n) + (8 - (n + min 4 (8 * T - n)) % 8) % 8)) / 8 := by omega
  rw [e3]

/-- the padded stream fills the capacity exactly -/
theorem length_padded (bl : List Bool) (T : Nat) (h : bl.length ≤ 8 * T) :
    (padded bl (8 * T)).length = 8 * T := by
  unfold padded termLen alignLen
  simp only [List.length_append, List.length_replicate, length_padSeq]
  generalize bl.length = n at *
  omega

/-- total length exactly the capacity -/
theorem length_addPaddingAndTerminator (bl : List Bool) (vi : VersionInfo)
    (h : bl.length ≤ 8 * vi.totalDataBytes) :
    (addPaddingAndTerminator bl vi).length = 8 * vi.totalDataBytes := by
  rw [addPaddingAndTerminator_eq bl vi h, length_padded bl _ h]

/-! ## B4 — payload bit counts -/

/-- payload bits of `n` digits: 10 per group of three, 4 / 7 for a final group of one / two -/
def numericBits (n : Nat) : Nat := 10 * (n / 3) + (if n % 3 = 1 then 4 else if n % 3 = 2 then 7 else 0)
/-- payload bits of `n` alphanumeric characters: 11 per pair, 6 for a final single one -/
def alnumBits (n : Nat) : Nat := 11 * (n / 2) + 6 * (n % 2)
/-- payload bits of `n` bytes -/
def byteBits (n : Nat) : Nat := 8 * n

/-- the header the encoders write: mode indicator and character count -/
def header (mode n : Nat) (vi : VersionInfo) : List Bool :=
  msbBits mode 4 ++ msbBits n (vi.charCountBits mode)

theorem length_header (mode n : Nat) (vi : VersionInfo) :
    (header mode n vi).length = 4 + vi.charCountBits mode := by
  simp [header, length_msbBits]

/-- B4: `encodeNumeric` asks for `numericBits (byte length)` bits; its result in terms of the pieces -/
theorem encodeNumeric_eq (content : Bytes) (ecl : Nat) :
    encodeNumeric content ecl =
      match findSmallestVersionInfo ecl 1 (numericBits content.length) with
      | none => none
      | some vi =>
        match numericChunks content.length content with
        | none => none
        | some chunks => some (addPaddingAndTerminator (header 1 content.length vi ++ chunks) vi, vi) := by
  unfold encodeNumeric numericBits header c_numericMode
  have h : content.length % 3 = 0 ∨ content.length % 3 = 1 ∨ content.length % 3 = 2 := by omega
  rw [Nat.mul_comm 10]
  rcases h with h | h | h <;> simp only [h] <;> rfl

/-- B4: `encodeAlphaNumeric` asks for `alnumBits (byte length)` bits -/
theorem encodeAlphaNumeric_eq (content : Bytes) (ecl : Nat) :
    encodeAlphaNumeric content ecl =
      match findSmallestVersionInfo ecl 2 (alnumBits content.length) with
      | none => none
      | some vi =>
        match alphaPairs (content.length / 2) (stringToAlphaIdx content) with
        | none => none
        | some (pairs, rest) =>
          if content.length % 2 = 1 then
            if (recv rest).1 < 0 then none
            else some (addPaddingAndTerminator
              (header 2 content.length vi ++ (pairs ++ msbBits (recv rest).1.toNat 6)) vi, vi)
          else some (addPaddingAndTerminator (header 2 content.length vi ++ pairs) vi, vi) := by
  unfold encodeAlphaNumeric alnumBits header c_alphaNumericMode
  have h : content.length % 2 = 0 ∨ content.length % 2 = 1 := by omega
  rw [Nat.mul_comm 11]
  rcases h with h | h <;> simp only [h] <;> rfl

/-- B4: `encodeUnicode` asks for `8 · (byte length)` bits -/
theorem encodeUnicode_eq (content : Bytes) (ecl : Nat) :
    encodeUnicode content ecl =
      match findSmallestVersionInfo ecl 4 (byteBits content.length) with
      | none => none
      | some vi => some (addPaddingAndTerminator
          (header 4 content.length vi ++ content.flatMap (fun b => msbBits b.toNat 8)) vi, vi) := by
  unfold encodeUnicode byteBits header c_byteMode
  rw [Nat.mul_comm]
  rfl

/-! ## C — length of the payloads -/

theorem numericChunks_nil (fuel : Nat) : numericChunks fuel [] = some [] := by
  cases fuel <;> rfl

theorem numericBits_step (n : Nat) (h : 3 ≤ n) : numericBits n = 10 + numericBits (n - 3) := by
  unfold numericBits
  have e1 : n / 3 = (n - 3) / 3 + 1 := by omega
  have e2 : n % 3 = (n - 3) % 3 := by omega
  rw [e1, e2]; omega

/-- the digit groups have exactly `numericBits (byte length)` bits -/
theorem length_numericChunks (fuel : Nat) (s : Bytes) (chunks : List Bool)
    (h : numericChunks fuel s = some chunks) (hf : s.length ≤ fuel) :
    chunks.length = numericBits s.length := by
  induction fuel generalizing s chunks with
  | zero =>
    have : s = [] := List.eq_nil_of_length_eq_zero (by omega)
    subst this
    simp only [numericChunks, Option.some.injEq] at h
    subst h; rfl
  | succ fuel ih =>
    unfold numericChunks at h
    by_cases he : s.isEmpty = true
    · rw [if_pos he] at h
      have : s = [] := List.isEmpty_iff.mp he
      subst this
      simp only [Option.some.injEq] at h
      subst h; rfl
    · rw [if_neg he] at h
      simp only at h
      split at h
      · cases h
      · rename_i i hi
        split at h
        · cases h
        · split at h
          · cases h
          · rename_i rest hrest
            simp only [Option.some.injEq] at h
            subst h
            have hne : s ≠ [] := fun e => he (by rw [e]; rfl)
            have hpos : 0 < s.length := List.length_pos_iff.mpr hne
            have hl : (s.take 3).length = min 3 s.length := List.length_take
            rw [List.length_append, length_msbBits, hl]
            by_cases h3 : 3 ≤ s.length
            · have := ih (s.drop 3) rest hrest (by rw [List.length_drop]; omega)
              rw [this, List.length_drop, numericBits_step _ h3]
              have : min 3 s.length % 3 = 0 := by omega
              rw [this]
              rfl
            · have hd : s.drop 3 = [] := List.drop_eq_nil_of_le (by omega)
              rw [hd, numericChunks_nil] at hrest
              simp only [Option.some.injEq] at hrest
              subst hrest
              unfold numericBits
              have : s.length = 1 ∨ s.length = 2 := by omega
              rcases this with e | e <;> rw [e] <;> rfl

theorem length_alphaPairs (n : Nat) (ch : List Int) (bits : List Bool) (ch' : List Int)
    (h : alphaPairs n ch = some (bits, ch')) : bits.length = 11 * n := by
  induction n generalizing ch bits ch' with
  | zero =>
    simp only [alphaPairs, Option.some.injEq, Prod.mk.injEq] at h
    rw [← h.1]; rfl
  | succ n ih =>
    unfold alphaPairs at h
    simp only at h
    split at h
    · cases h
    · split at h
      · cases h
      · rename_i b c hr
        simp only [Option.some.injEq, Prod.mk.injEq] at h
        rw [← h.1, List.length_append, length_msbBits, ih _ _ _ hr]
        omega

theorem length_byteBits (data : Bytes) : (data.flatMap (fun b => msbBits b.toNat 8)).length = 8 * data.length := by
  induction data with
  | nil => rfl
  | cons b bs ih => rw [List.flatMap_cons, List.length_append, length_msbBits, ih, List.length_cons]; omega

/-! ## C — the finished stream -/

theorem numericBits_ge (n : Nat) : 10 * n ≤ 3 * numericBits n := by
  unfold numericBits
  split
  · omega
  · split <;> omega

theorem alnumBits_ge (n : Nat) : 11 * n ≤ 2 * alnumBits n := by
  unfold alnumBits; omega

/-- What an encoder returns: `bits` is the complete data bit stream for the row `vi`.
    `mode` = mode indicator, `payloadBits` = number of payload bits for `content`. -/
structure StreamSpec (mode : Nat) (content : Bytes) (payloadBits : Nat) (ecl : Nat)
    (bits : List Bool) (vi : VersionInfo) : Prop where
  /-- `vi` is a row of the table … -/
  mem : vi ∈ versionInfos
  /-- … of the requested level … -/
  level : vi.level = ecl
  /-- … namely the one the version search returns for the payload size (hence the smallest that fits) -/
  found : findSmallestVersionInfo ecl mode payloadBits = some vi
  /-- the stream fills the data capacity exactly: `IterateBytes` yields `totalDataBytes` bytes -/
  length : bits.length = 8 * vi.totalDataBytes
  /-- mode indicator, character count, payload, terminator, bit padding, pad codewords -/
  shape : ∃ payload : List Bool, payload.length = payloadBits ∧
    bits = padded (header mode content.length vi ++ payload) (8 * vi.totalDataBytes)
  /-- the byte length fits into the character count field … -/
  count_lt : content.length < 2 ^ vi.charCountBits mode
  /-- … whose width is that of Table 3 -/
  width : vi.charCountBits mode = Spec.Qr.countBits vi.version mode

theorem StreamSpec.of_find {mode : Nat} {content : Bytes} {payloadBits ecl : Nat} {vi : VersionInfo}
    (hfind : findSmallestVersionInfo ecl mode payloadBits = some vi)
    (payload : List Bool) (hp : payload.length = payloadBits) (hm : mode ≠ 8)
    (hc : vi ∈ versionInfos → Fits mode payloadBits vi → content.length < 2 ^ vi.charCountBits mode) :
    StreamSpec mode content payloadBits ecl
      (addPaddingAndTerminator (header mode content.length vi ++ payload) vi) vi := by
  obtain ⟨hmem, hl, hf⟩ := findSmallest_fits hfind
  have hlen : (header mode content.length vi ++ payload).length ≤ 8 * vi.totalDataBytes := by
    rw [List.length_append, length_header, hp]
    unfold Fits at hf; omega
  exact
    { mem := hmem, level := hl, found := hfind,
      length := length_addPaddingAndTerminator _ _ hlen,
      shape := ⟨payload, hp, addPaddingAndTerminator_eq _ _ hlen⟩,
      count_lt := hc hmem hf,
      width := charCountBits_eq vi mode hm }

/-- the stream starts with the 4-bit mode indicator followed by the character count, which reads back as the
    byte length of the content -/
theorem StreamSpec.prefix {mode : Nat} {content : Bytes} {payloadBits ecl : Nat} {bits : List Bool}
    {vi : VersionInfo} (h : StreamSpec mode content payloadBits ecl bits vi) :
    ∃ rest, bits = msbBits mode 4 ++ (msbBits content.length (Spec.Qr.countBits vi.version mode) ++ rest) ∧
      bitsToNat (msbBits content.length (Spec.Qr.countBits vi.version mode)) = content.length := by
  obtain ⟨payload, _, hb⟩ := h.shape
  refine ⟨?_, ?_, ?_⟩
  rotate_left
  · rw [hb]; unfold padded header
    rw [h.width]
    simp only [List.append_assoc]
    rfl
  · rw [bitsToNat_msbBits, ← h.width]
    exact Nat.mod_eq_of_lt h.count_lt

/-- C (numeric): shape and length of the result of `encodeNumeric` -/
theorem encodeNumeric_stream {content : Bytes} {ecl : Nat} {bits : List Bool} {vi : VersionInfo}
    (h : encodeNumeric content ecl = some (bits, vi)) :
    StreamSpec 1 content (numericBits content.length) ecl bits vi := by
  rw [encodeNumeric_eq] at h
  split at h
  · cases h
  · rename_i vi' hfind
    split at h
    · cases h
    · rename_i chunks hch
      simp only [Option.some.injEq, Prod.mk.injEq] at h
      obtain ⟨hb, hv⟩ := h
      subst hv; subst hb
      refine StreamSpec.of_find hfind chunks (length_numericChunks _ _ _ hch (Nat.le_refl _)) (by decide) ?_
      intro hmem hf
      have := (rowSide_of_mem hmem).2.2.1
      have := numericBits_ge content.length
      unfold Fits at hf
      unfold c_numericMode at *
      generalize 2 ^ vi'.charCountBits 1 = P at *
      omega

/-- C (alphanumeric): shape and length of the result of `encodeAlphaNumeric` -/
theorem encodeAlphaNumeric_stream {content : Bytes} {ecl : Nat} {bits : List Bool} {vi : VersionInfo}
    (h : encodeAlphaNumeric content ecl = some (bits, vi)) :
    StreamSpec 2 content (alnumBits content.length) ecl bits vi := by
  rw [encodeAlphaNumeric_eq] at h
  have hcount : ∀ vi' : VersionInfo, vi' ∈ versionInfos → Fits 2 (alnumBits content.length) vi' →
      content.length < 2 ^ vi'.charCountBits 2 := by
    intro vi' hmem hf
    have := (rowSide_of_mem hmem).2.2.2.1
    have := alnumBits_ge content.length
    unfold Fits at hf
    unfold c_alphaNumericMode at *
    generalize 2 ^ vi'.charCountBits 2 = P at *
    omega
  split at h
  · cases h
  · rename_i vi' hfind
    split at h
    · cases h
    · rename_i pairs rest hpairs
      have hpl := length_alphaPairs _ _ _ _ hpairs
      split at h
      · rename_i hodd
        split at h
        · cases h
        · simp only [Option.some.injEq, Prod.mk.injEq] at h
          obtain ⟨hb, hv⟩ := h
          subst hv; subst hb
          refine StreamSpec.of_find hfind _ ?_ (by decide) (hcount vi')
          rw [List.length_append, length_msbBits, hpl]
          unfold alnumBits; omega
      · rename_i heven
        simp only [Option.some.injEq, Prod.mk.injEq] at h
        obtain ⟨hb, hv⟩ := h
        subst hv; subst hb
        refine StreamSpec.of_find hfind _ ?_ (by decide) (hcount vi')
        rw [hpl]
        unfold alnumBits; omega

/-- C (byte): shape and length of the result of `encodeUnicode` -/
theorem encodeUnicode_stream {content : Bytes} {ecl : Nat} {bits : List Bool} {vi : VersionInfo}
    (h : encodeUnicode content ecl = some (bits, vi)) :
    StreamSpec 4 content (byteBits content.length) ecl bits vi := by
  rw [encodeUnicode_eq] at h
  split at h
  · cases h
  · rename_i vi' hfind
    simp only [Option.some.injEq, Prod.mk.injEq] at h
    obtain ⟨hb, hv⟩ := h
    subst hv; subst hb
    refine StreamSpec.of_find hfind _ (length_byteBits content) (by decide) ?_
    intro hmem hf
    have := (rowSide_of_mem hmem).2.2.2.2
    unfold Fits byteBits at hf
    unfold c_byteMode at *
    generalize 2 ^ vi'.charCountBits 4 = P at *
    omega

/-- `encodeAuto` is the first success of numeric, alphanumeric, byte -/
theorem encodeAuto_eq (content : Bytes) (ecl : Nat) :
    encodeAuto content ecl =
      ((encodeNumeric content ecl).orElse fun _ =>
        (encodeAlphaNumeric content ecl).orElse fun _ => encodeUnicode content ecl) := by
  unfold encodeAuto
  cases encodeNumeric content ecl <;> cases encodeAlphaNumeric content ecl <;>
    cases encodeUnicode content ecl <;> rfl

/-- C (auto): the result of `encodeAuto` is a numeric, alphanumeric or byte stream -/
theorem encodeAuto_stream {content : Bytes} {ecl : Nat} {bits : List Bool} {vi : VersionInfo}
    (h : encodeAuto content ecl = some (bits, vi)) :
    StreamSpec 1 content (numericBits content.length) ecl bits vi ∨
    StreamSpec 2 content (alnumBits content.length) ecl bits vi ∨
    StreamSpec 4 content (byteBits content.length) ecl bits vi := by
  unfold encodeAuto at h
  split at h
  · rename_i r hr
    simp only [Option.some.injEq] at h; subst h
    exact Or.inl (encodeNumeric_stream hr)
  · split at h
    · rename_i r hr
      simp only [Option.some.injEq] at h; subst h
      exact Or.inr (Or.inl (encodeAlphaNumeric_stream hr))
    · split at h
      · rename_i r hr
        simp only [Option.some.injEq] at h; subst h
        exact Or.inr (Or.inr (encodeUnicode_stream hr))
      · cases h

end BV.Proofs.QrStreamA
