/-
  Proofs for C17, part 2: polynomials over the field (`gfpoly.go`).

  * `Laws f n`: the field laws of part 1, abstracted from the concrete tables.
  * `xs`: finite XOR-sums.  `cf p d`: the coefficient of degree `d` of a coefficient list (highest degree first);
    two lists denote the same polynomial iff all `cf` agree.  `conv`: the Cauchy product of coefficient functions.
  * `newPoly`, `polyAdd`, `mulMonomial`, `monomial`, `polyMul`, `polyDiv` meet their coefficient-wise
    specifications; `Norm` is the normal form produced by `NewGFPoly`.
  * `EV`: evaluation as a XOR-sum; it is additive and multiplicative (w.r.t. `conv`), and Horner evaluation of a
    list is `EV` of its coefficients.
-/
import BV.Proofs.GF
namespace BV.Proofs.GF
open BV BV.Model.GF

/-- the field laws for the elements `[0, n)` of `f` -/
structure Laws (f : Field) (n : Nat) : Prop where
  two_le : 2 ≤ n
  mul_lt : ∀ x y, x < n → y < n → f.mul x y < n
  mul_assoc : ∀ x y z, x < n → y < n → z < n → f.mul (f.mul x y) z = f.mul x (f.mul y z)
  mul_one : ∀ x, x < n → f.mul x 1 = x
  mul_pos : ∀ x y, 0 < x → x < n → 0 < y → y < n → 0 < f.mul x y
  mul_xor_left : ∀ x z y, x < n → z < n → y < n → f.mul (x ^^^ z) y = f.mul x y ^^^ f.mul z y
  xor_lt : ∀ x y, x < n → y < n → x ^^^ y < n
  inv : ∀ x, 0 < x → x < n → f.mul x (f.inv x) = 1 ∧ f.inv x < n ∧ 0 < f.inv x

theorem laws_of_ok {pp n : Nat} (h : FieldOK pp n) (b : Nat) : Laws (newField pp n b) n where
  two_le := h.prim.two_le
  mul_lt := mul_lt h.prim b
  mul_assoc := mul_assoc h.prim b
  mul_one := mul_one h.prim b
  mul_pos := fun x y hx0 hx hy0 hy => mul_pos h.prim b x y hx0 hx hy0 hy
  mul_xor_left := fun x z y hx hz hy => (ok_distrib h b x y z hx hy hz).1
  xor_lt := fun x y hx hy => (ok_distrib h b x 0 y hx (by have := h.prim.two_le; omega) hy).2.2
  inv := fun x hx0 hx => mul_inv h.prim b x hx0 hx

namespace Laws
variable {f : Field} {n : Nat} (L : Laws f n)
include L

theorem pos : 0 < n := by have := L.two_le; omega
theorem one_lt : 1 < n := L.two_le

theorem one_mul (x : Nat) (hx : x < n) : f.mul 1 x = x := by rw [mul_comm]; exact L.mul_one x hx

theorem mul_xor_right (x y z : Nat) (hx : x < n) (hy : y < n) (hz : z < n) :
    f.mul x (y ^^^ z) = f.mul x y ^^^ f.mul x z := by
  rw [mul_comm, L.mul_xor_left y z x hy hz hx, mul_comm f y, mul_comm f z]

theorem mul_left_comm (x y z : Nat) (hx : x < n) (hy : y < n) (hz : z < n) :
    f.mul x (f.mul y z) = f.mul y (f.mul x z) := by
  rw [← L.mul_assoc x y z hx hy hz, mul_comm f x y, L.mul_assoc y x z hy hx hz]

end Laws

/-! ### finite XOR-sums -/

/-- `g 0 ^^^ g 1 ^^^ … ^^^ g (k-1)` -/
def xs : Nat → (Nat → Nat) → Nat
  | 0, _ => 0
  | k + 1, g => xs k g ^^^ g k

theorem xs_congr {g h : Nat → Nat} : ∀ k, (∀ i, i < k → g i = h i) → xs k g = xs k h
  | 0, _ => rfl
  | k + 1, H => by
    show xs k g ^^^ g k = xs k h ^^^ h k
    rw [xs_congr k (fun i hi => H i (by omega)), H k (by omega)]

theorem xs_zero {g : Nat → Nat} : ∀ k, (∀ i, i < k → g i = 0) → xs k g = 0
  | 0, _ => rfl
  | k + 1, H => by
    show xs k g ^^^ g k = 0
    rw [xs_zero k (fun i hi => H i (by omega)), H k (by omega)]; rfl

theorem xor_xor_xor_comm (a b c d : Nat) : (a ^^^ b) ^^^ (c ^^^ d) = (a ^^^ c) ^^^ (b ^^^ d) := by
  rw [Nat.xor_assoc, Nat.xor_assoc, ← Nat.xor_assoc b c d, Nat.xor_comm b c, Nat.xor_assoc c b d]

theorem xs_xor (g h : Nat → Nat) : ∀ k, xs k (fun i => g i ^^^ h i) = xs k g ^^^ xs k h
  | 0 => (Nat.xor_zero 0).symm
  | k + 1 => by
    show xs k (fun i => g i ^^^ h i) ^^^ (g k ^^^ h k) = (xs k g ^^^ g k) ^^^ (xs k h ^^^ h k)
    rw [xs_xor g h k, xor_xor_xor_comm]

theorem xs_extend {g : Nat → Nat} (k : Nat) : ∀ j, (∀ i, k ≤ i → i < k + j → g i = 0) → xs (k + j) g = xs k g
  | 0, _ => rfl
  | j + 1, H => by
    show xs (k + j) g ^^^ g (k + j) = xs k g
    rw [xs_extend k j (fun i h1 h2 => H i h1 (by omega)), H (k + j) (by omega) (by omega)]; exact Nat.xor_zero _

theorem xs_extend' {g : Nat → Nat} (k k' : Nat) (hk : k ≤ k') (H : ∀ i, k ≤ i → i < k' → g i = 0) :
    xs k' g = xs k g := by
  obtain ⟨j, rfl⟩ : ∃ j, k' = k + j := ⟨k' - k, by omega⟩
  exact xs_extend k j H

theorem xs_single {g : Nat → Nat} (j : Nat) : ∀ k, j < k → (∀ i, i < k → i ≠ j → g i = 0) → xs k g = g j
  | 0, h, _ => by omega
  | k + 1, hj, H => by
    show xs k g ^^^ g k = g j
    by_cases hjk : j = k
    · subst hjk
      rw [xs_zero j (fun i hi => H i (by omega) (by omega))]; exact Nat.zero_xor _
    · rw [xs_single j k (by omega) (fun i hi hne => H i (by omega) hne), H k (by omega) (Ne.symm hjk)]; exact Nat.xor_zero _

/-- split a sum: the first `k` terms and the following `j` terms -/
theorem xs_add (g : Nat → Nat) (k : Nat) : ∀ j, xs (k + j) g = xs k g ^^^ xs j (fun i => g (k + i))
  | 0 => (Nat.xor_zero _).symm
  | j + 1 => by
    show xs (k + j) g ^^^ g (k + j) = xs k g ^^^ (xs j (fun i => g (k + i)) ^^^ g (k + j))
    rw [xs_add g k j, Nat.xor_assoc]

theorem xs_lt {f : Field} {n : Nat} (L : Laws f n) {g : Nat → Nat} : ∀ k, (∀ i, i < k → g i < n) → xs k g < n
  | 0, _ => L.pos
  | k + 1, H => L.xor_lt _ _ (xs_lt L k (fun i hi => H i (by omega))) (H k (by omega))

theorem mul_xs {f : Field} {n : Nat} (L : Laws f n) {g : Nat → Nat} (c : Nat) (hc : c < n) :
    ∀ k, (∀ i, i < k → g i < n) → f.mul (xs k g) c = xs k (fun i => f.mul (g i) c)
  | 0, _ => mul_zero_left f c
  | k + 1, H => by
    show f.mul (xs k g ^^^ g k) c = xs k (fun i => f.mul (g i) c) ^^^ f.mul (g k) c
    rw [L.mul_xor_left _ _ _ (xs_lt L k (fun i hi => H i (by omega))) (H k (by omega)) hc,
      mul_xs L c hc k (fun i hi => H i (by omega))]

theorem xs_mul {f : Field} {n : Nat} (L : Laws f n) {g : Nat → Nat} (c : Nat) (hc : c < n)
    (k : Nat) (H : ∀ i, i < k → g i < n) : f.mul c (xs k g) = xs k (fun i => f.mul c (g i)) := by
  rw [mul_comm, mul_xs L c hc k H]
  exact xs_congr k (fun i _ => mul_comm f _ _)

/-! ### coefficients by degree -/

/-- the coefficient of degree `d` of a coefficient list (highest degree first); 0 beyond the list -/
def cf : Poly → Nat → Nat
  | [], _ => 0
  | a :: p, d => if d = p.length then a else cf p d

/-- all entries are field elements -/
def AllLt (n : Nat) (p : Poly) : Prop := ∀ x ∈ p, x < n

instance (n : Nat) (p : Poly) : Decidable (AllLt n p) := by unfold AllLt; infer_instance

theorem cf_nil (d : Nat) : cf [] d = 0 := rfl
theorem cf_cons (a : Nat) (p : Poly) (d : Nat) : cf (a :: p) d = if d = p.length then a else cf p d := rfl

theorem cf_ge : ∀ (p : Poly) (d : Nat), p.length ≤ d → cf p d = 0
  | [], _, _ => rfl
  | a :: p, d, h => by
    rw [List.length_cons] at h
    rw [cf_cons, if_neg (by omega), cf_ge p d (by omega)]

theorem cf_append : ∀ (p q : Poly) (d : Nat),
    cf (p ++ q) d = if d < q.length then cf q d else cf p (d - q.length)
  | [], q, d => by
    show cf q d = _
    split
    · rfl
    · exact cf_ge q d (by omega)
  | a :: p, q, d => by
    show cf (a :: (p ++ q)) d = _
    rw [cf_cons, cf_append p q d, List.length_append, cf_cons]
    by_cases h1 : d < q.length
    · rw [if_neg (by omega), if_pos h1, if_pos h1]
    · rw [if_neg h1, if_neg h1]
      by_cases h2 : d = p.length + q.length
      · rw [if_pos h2, if_pos (by omega)]
      · rw [if_neg h2, if_neg (by omega)]

theorem cf_replicate_zero : ∀ (k d : Nat), cf (List.replicate k 0) d = 0
  | 0, _ => rfl
  | k + 1, d => by
    rw [List.replicate_succ, cf_cons, cf_replicate_zero k d]; split <;> rfl

theorem cf_map (g : Nat → Nat) (hg : g 0 = 0) : ∀ (p : Poly) (d : Nat), cf (p.map g) d = g (cf p d)
  | [], _ => hg.symm
  | a :: p, d => by
    rw [List.map_cons, cf_cons, cf_cons, List.length_map, cf_map g hg p d]
    split <;> rfl

theorem cf_zipWith_xor : ∀ (p q : Poly) (d : Nat), p.length = q.length →
    cf (List.zipWith (· ^^^ ·) p q) d = cf p d ^^^ cf q d
  | [], [], _, _ => (Nat.xor_zero 0).symm
  | [], _ :: _, _, h => by simp at h
  | _ :: _, [], _, h => by simp at h
  | a :: p, b :: q, d, h => by
    simp only [List.length_cons, Nat.add_right_cancel_iff] at h
    rw [List.zipWith_cons_cons, cf_cons, cf_cons, cf_cons, List.length_zipWith, ← h, Nat.min_self,
      cf_zipWith_xor p q d h]
    split <;> rfl

theorem cf_lt {n : Nat} (hn : 0 < n) : ∀ (p : Poly) (d : Nat), AllLt n p → cf p d < n
  | [], _, _ => hn
  | a :: p, d, h => by
    rw [cf_cons]
    split
    · exact h a (List.mem_cons_self ..)
    · exact cf_lt hn p d (fun x hx => h x (List.mem_cons_of_mem _ hx))

theorem cf_head : ∀ (p : Poly), cf p (p.length - 1) = p.headD 0
  | [] => rfl
  | a :: p => by
    rw [cf_cons, if_pos (by simp)]; rfl

/-- `cf` is the model's `GetCoefficient` for degrees inside the list -/
theorem cf_eq_coeff : ∀ (p : Poly) (d : Nat), d < p.length → cf p d = coeff p d
  | [], _, h => by simp at h
  | a :: p, d, h => by
    rw [List.length_cons] at h
    unfold coeff
    rw [cf_cons, List.length_cons, Nat.add_sub_cancel]
    by_cases hd : d = p.length
    · rw [if_pos hd, hd, Nat.sub_self]; rfl
    · rw [if_neg hd, cf_eq_coeff p d (by omega)]
      unfold coeff
      have : p.length - d = (p.length - 1 - d) + 1 := by omega
      rw [this, List.getD_cons_succ]

/-! ### `NewGFPoly` and the normal form -/

/-- the normal form of `NewGFPoly`: one coefficient, or a non-zero leading coefficient -/
def Norm (p : Poly) : Prop := p.length = 1 ∨ p.headD 0 ≠ 0

theorem Norm.ne_nil {p : Poly} (h : Norm p) : p ≠ [] := by
  rintro rfl
  rcases h with h | h
  · simp at h
  · exact h rfl

theorem Norm.length_pos {p : Poly} (h : Norm p) : 0 < p.length :=
  List.length_pos_iff.mpr h.ne_nil

theorem newPoly_cons_cons (c d : Nat) (rest : Poly) :
    newPoly (c :: d :: rest) = if c = 0 then newPoly (d :: rest) else c :: d :: rest := rfl

theorem cf_newPoly : ∀ (p : Poly) (d : Nat), cf (newPoly p) d = cf p d
  | [], _ => rfl
  | [_], _ => rfl
  | c :: e :: rest, d => by
    rw [newPoly_cons_cons]
    split
    · rename_i hc
      rw [cf_newPoly (e :: rest) d, cf_cons c, hc]
      split
      · rename_i hd
        rw [cf_ge _ _ (by omega)]
      · rfl
    · rfl

theorem newPoly_norm : ∀ (p : Poly), p ≠ [] → Norm (newPoly p)
  | [], h => absurd rfl h
  | [_], _ => Or.inl rfl
  | c :: e :: rest, _ => by
    rw [newPoly_cons_cons]
    split
    · exact newPoly_norm (e :: rest) (by simp)
    · rename_i hc; exact Or.inr hc

theorem newPoly_length_le : ∀ (p : Poly), (newPoly p).length ≤ p.length
  | [] => Nat.le_refl _
  | [_] => Nat.le_refl _
  | c :: e :: rest => by
    rw [newPoly_cons_cons]
    split
    · have := newPoly_length_le (e :: rest)
      simp only [List.length_cons] at this ⊢
      omega
    · exact Nat.le_refl _

theorem newPoly_allLt {n : Nat} : ∀ (p : Poly), AllLt n p → AllLt n (newPoly p)
  | [], h => h
  | [_], h => h
  | c :: e :: rest, h => by
    rw [newPoly_cons_cons]
    split
    · exact newPoly_allLt (e :: rest) (fun x hx => h x (List.mem_cons_of_mem _ hx))
    · exact h

theorem newPoly_of_norm : ∀ (p : Poly), Norm p → newPoly p = p
  | [], _ => rfl
  | [_], _ => rfl
  | c :: e :: rest, h => by
    rw [newPoly_cons_cons, if_neg]
    rcases h with h | h
    · simp at h
    · exact h

/-- a normal form is zero iff it is `[0]` iff all its coefficients vanish -/
theorem isZero_iff {p : Poly} (h : Norm p) : isZero p = true ↔ p = [0] := by
  unfold isZero
  constructor
  · intro hz
    have hz' : p.headD 0 = 0 := by simpa using hz
    rcases h with h | h
    · match p, h, hz' with
      | [a], _, hz' => simp at hz'; rw [hz']
    · exact absurd hz' h
  · rintro rfl; rfl

theorem norm_eq_zero_of_cf {p : Poly} (h : Norm p) (hc : ∀ d, cf p d = 0) : p = [0] := by
  rw [← isZero_iff h]
  unfold isZero
  rw [← cf_head, hc]; rfl

theorem cf_of_isZero {p : Poly} (h : Norm p) (hz : isZero p = true) (d : Nat) : cf p d = 0 := by
  rw [(isZero_iff h).mp hz, cf_cons]; split <;> rfl

/-- a normal form whose coefficients vanish from degree `k` on (`k ≥ 1`) has at most `k` coefficients -/
theorem norm_length_le {p : Poly} (h : Norm p) (k : Nat) (hk : 1 ≤ k) (hc : ∀ d, k ≤ d → cf p d = 0) :
    p.length ≤ k := by
  rcases h with h | h
  · omega
  · rcases Nat.lt_or_ge k p.length with hlt | hge
    · have := hc (p.length - 1) (by omega)
      rw [cf_head] at this
      exact absurd this h
    · exact hge

/-! ### `AddOrSubstract` -/

/-- the non-trivial branch of `AddOrSubstract` before normalisation -/
def addRaw (small large : Poly) : Poly :=
  large.take (large.length - small.length) ++
    List.zipWith (· ^^^ ·) small (large.drop (large.length - small.length))

theorem cf_addRaw (small large : Poly) (h : small.length ≤ large.length) (d : Nat) :
    cf (addRaw small large) d = cf small d ^^^ cf large d := by
  have hdl : (large.drop (large.length - small.length)).length = small.length := by
    rw [List.length_drop]; omega
  have hl : cf large d = cf (large.take (large.length - small.length) ++
      large.drop (large.length - small.length)) d := by rw [List.take_append_drop]
  unfold addRaw
  rw [hl, cf_append, cf_append, List.length_zipWith, hdl, Nat.min_self]
  split
  · exact cf_zipWith_xor _ _ d hdl.symm
  · rw [cf_ge small d (by omega), Nat.zero_xor]

theorem allLt_zipWith_xor {f : Field} {n : Nat} (L : Laws f n) : ∀ (p q : Poly), AllLt n p → AllLt n q →
    AllLt n (List.zipWith (· ^^^ ·) p q)
  | [], _, _, _ => by intro x hx; simp at hx
  | _ :: _, [], _, _ => by intro x hx; simp at hx
  | a :: p, b :: q, hp, hq => by
    intro x hx
    rw [List.zipWith_cons_cons, List.mem_cons] at hx
    rcases hx with rfl | hx
    · exact L.xor_lt _ _ (hp a (List.mem_cons_self ..)) (hq b (List.mem_cons_self ..))
    · exact allLt_zipWith_xor L p q (fun y hy => hp y (List.mem_cons_of_mem _ hy))
        (fun y hy => hq y (List.mem_cons_of_mem _ hy)) x hx

theorem allLt_addRaw {f : Field} {n : Nat} (L : Laws f n) (small large : Poly) (hs : AllLt n small)
    (hl : AllLt n large) : AllLt n (addRaw small large) := by
  intro x hx
  unfold addRaw at hx
  rw [List.mem_append] at hx
  rcases hx with hx | hx
  · exact hl x (List.mem_of_mem_take hx)
  · exact allLt_zipWith_xor L _ _ hs (fun y hy => hl y (List.mem_of_mem_drop hy)) x hx

theorem addRaw_ne_nil (small large : Poly) (h : large ≠ []) (hs : small.length ≤ large.length) :
    addRaw small large ≠ [] := by
  intro he
  have := congrArg List.length he
  unfold addRaw at this
  rw [List.length_append, List.length_take, List.length_zipWith, List.length_drop] at this
  have := List.length_pos_iff.mpr h
  simp only [List.length_nil] at *
  omega

theorem polyAdd_eq (p q : Poly) (hp : isZero p = false) (hq : isZero q = false) :
    polyAdd p q = newPoly (if p.length > q.length then addRaw q p else addRaw p q) := by
  unfold polyAdd
  rw [if_neg (by rw [hp]; simp), if_neg (by rw [hq]; simp)]
  by_cases h : p.length > q.length
  · simp only [if_pos h]; rfl
  · simp only [if_neg h]; rfl

theorem polyAdd_spec {f : Field} {n : Nat} (L : Laws f n) (p q : Poly) (hp : Norm p) (hq : Norm q) :
    (∀ d, cf (polyAdd p q) d = cf p d ^^^ cf q d) ∧ Norm (polyAdd p q) ∧
      (AllLt n p → AllLt n q → AllLt n (polyAdd p q)) := by
  cases hzp : isZero p with
  | true =>
    have : polyAdd p q = q := by unfold polyAdd; rw [if_pos hzp]
    rw [this]
    exact ⟨fun d => by rw [cf_of_isZero hp hzp, Nat.zero_xor], hq, fun _ h => h⟩
  | false =>
    cases hzq : isZero q with
    | true =>
      have : polyAdd p q = p := by unfold polyAdd; rw [if_neg (by rw [hzp]; simp), if_pos hzq]
      rw [this]
      exact ⟨fun d => by rw [cf_of_isZero hq hzq, Nat.xor_zero], hp, fun h _ => h⟩
    | false =>
      rw [polyAdd_eq p q hzp hzq]
      by_cases h : p.length > q.length
      · rw [if_pos h]
        refine ⟨fun d => ?_, newPoly_norm _ (addRaw_ne_nil _ _ hp.ne_nil (by omega)),
          fun h1 h2 => newPoly_allLt _ (allLt_addRaw L _ _ h2 h1)⟩
        rw [cf_newPoly, cf_addRaw q p (by omega), Nat.xor_comm]
      · rw [if_neg h]
        refine ⟨fun d => ?_, newPoly_norm _ (addRaw_ne_nil _ _ hq.ne_nil (by omega)),
          fun h1 h2 => newPoly_allLt _ (allLt_addRaw L _ _ h1 h2)⟩
        rw [cf_newPoly, cf_addRaw p q (by omega)]

/-! ### `MultByMonominal`, `NewMonominalPoly` -/

theorem pZero_eq : pZero = [0] := rfl

theorem norm_pZero : Norm pZero := Or.inl rfl

theorem cf_pZero (d : Nat) : cf pZero d = 0 := by
  rw [pZero_eq, cf_cons]; split <;> rfl

theorem allLt_pZero {n : Nat} (hn : 0 < n) : AllLt n pZero := by
  intro x hx
  rw [pZero_eq, List.mem_singleton] at hx
  omega

theorem mulMonomial_spec {f : Field} {n : Nat} (L : Laws f n) (p : Poly) (deg c : Nat) :
    (∀ d, cf (mulMonomial f p deg c) d = if d < deg then 0 else f.mul (cf p (d - deg)) c) ∧
    (p ≠ [] ∨ 0 < deg → Norm (mulMonomial f p deg c)) ∧
    (AllLt n p → c < n → AllLt n (mulMonomial f p deg c)) := by
  unfold mulMonomial
  by_cases hc : c = 0
  · rw [if_pos hc]
    refine ⟨fun d => ?_, fun _ => norm_pZero, fun _ _ => allLt_pZero L.pos⟩
    rw [cf_pZero, hc, mul_zero_right]; split <;> rfl
  · rw [if_neg hc]
    refine ⟨fun d => ?_, fun h => newPoly_norm _ ?_, fun h1 h2 => newPoly_allLt _ ?_⟩
    · rw [cf_newPoly, cf_append, List.length_replicate]
      split
      · exact cf_replicate_zero _ _
      · exact cf_map (fun x => f.mul x c) (mul_zero_left f c) p _
    · intro he
      have := congrArg List.length he
      rw [List.length_append, List.length_map, List.length_replicate, List.length_nil] at this
      rcases h with h | h
      · have := List.length_pos_iff.mpr h; omega
      · omega
    · intro x hx
      rw [List.mem_append, List.mem_map, List.mem_replicate] at hx
      rcases hx with ⟨y, hy, rfl⟩ | ⟨_, rfl⟩
      · exact L.mul_lt _ _ (h1 y hy) h2
      · exact L.pos

theorem monomial_spec {n : Nat} (hn : 0 < n) (deg c : Nat) :
    (∀ d, cf (monomial deg c) d = if d = deg then c else 0) ∧ Norm (monomial deg c) ∧
    (c < n → AllLt n (monomial deg c)) := by
  unfold monomial
  by_cases hc : c = 0
  · rw [if_pos hc]
    refine ⟨fun d => ?_, norm_pZero, fun _ => allLt_pZero hn⟩
    rw [cf_pZero, hc]; split <;> rfl
  · rw [if_neg hc]
    refine ⟨fun d => ?_, newPoly_norm _ (by simp), fun h => newPoly_allLt _ ?_⟩
    · rw [cf_newPoly, cf_cons, List.length_replicate, cf_replicate_zero]
    · intro x hx
      rw [List.mem_cons, List.mem_replicate] at hx
      rcases hx with rfl | ⟨_, rfl⟩
      · exact h
      · exact hn

/-! ### the Cauchy product of coefficient functions -/

/-- coefficient `d` of the product of the polynomials with coefficient functions `g` and `h` -/
def conv (f : Field) (g h : Nat → Nat) (d : Nat) : Nat := xs (d + 1) (fun i => f.mul (g i) (h (d - i)))

theorem conv_lt {f : Field} {n : Nat} (L : Laws f n) (g h : Nat → Nat) (hg : ∀ i, g i < n) (hh : ∀ i, h i < n)
    (d : Nat) : conv f g h d < n :=
  xs_lt L _ (fun i _ => L.mul_lt _ _ (hg i) (hh _))

theorem conv_xor_left {f : Field} {n : Nat} (L : Laws f n) (g1 g2 h : Nat → Nat) (h1 : ∀ i, g1 i < n)
    (h2 : ∀ i, g2 i < n) (hh : ∀ i, h i < n) (d : Nat) :
    conv f (fun i => g1 i ^^^ g2 i) h d = conv f g1 h d ^^^ conv f g2 h d := by
  unfold conv
  rw [← xs_xor]
  exact xs_congr _ (fun i _ => L.mul_xor_left _ _ _ (h1 i) (h2 i) (hh _))

theorem conv_zero_left (f : Field) (g h : Nat → Nat) (hg : ∀ i, g i = 0) (d : Nat) : conv f g h d = 0 :=
  xs_zero _ (fun i _ => by show f.mul (g i) _ = 0; rw [hg i, mul_zero_left])

/-- multiplication by `c·x^k` shifts and scales -/
theorem conv_delta (f : Field) (k c : Nat) (h : Nat → Nat) (d : Nat) :
    conv f (fun i => if i = k then c else 0) h d = if d < k then 0 else f.mul c (h (d - k)) := by
  unfold conv
  split
  · rename_i hd
    apply xs_zero
    intro i hi
    show f.mul (if i = k then c else 0) _ = 0
    rw [if_neg (by omega), mul_zero_left]
  · rename_i hd
    rw [xs_single k (d + 1) (by omega)]
    · show f.mul (if k = k then c else 0) _ = _
      rw [if_pos rfl]
    · intro i _ hik
      show f.mul (if i = k then c else 0) _ = 0
      rw [if_neg hik, mul_zero_left]

/-! ### `Divide` -/

theorem polyDivAux_succ (f : Field) (other : Poly) (il fuel : Nat) (quot rem : Poly) :
    polyDivAux f other il (fuel + 1) quot rem =
      if degree rem ≥ degree other ∧ (!isZero rem) = true then
        polyDivAux f other il fuel
          (polyAdd quot (monomial (degree rem - degree other).toNat
            (f.mul (coeff rem (degree rem).toNat) il)))
          (polyAdd rem (mulMonomial f other (degree rem - degree other).toNat
            (f.mul (coeff rem (degree rem).toNat) il)))
      else (quot, rem) := rfl

theorem coeff_lead (p : Poly) (h : p ≠ []) : coeff p (degree p).toNat = p.headD 0 := by
  have hl := List.length_pos_iff.mpr h
  have : (degree p).toNat = p.length - 1 := by unfold degree; omega
  rw [this, ← cf_eq_coeff p _ (by omega), cf_head]

/-- the loop measure: number of coefficients of a non-zero remainder -/
def mu (p : Poly) : Nat := if isZero p then 0 else p.length

theorem xor_cancel_mid (a t r : Nat) : (a ^^^ t) ^^^ (r ^^^ t) = a ^^^ r := by
  rw [xor_xor_xor_comm, Nat.xor_self, Nat.xor_zero]

theorem polyDivAux_spec {f : Field} {n : Nat} (L : Laws f n) (other : Poly) (ho : AllLt n other)
    (hlead : other.headD 0 ≠ 0) :
    ∀ (fuel : Nat) (quot rem : Poly), Norm quot → Norm rem → AllLt n quot → AllLt n rem → mu rem < fuel →
      Norm (polyDivAux f other (f.inv (other.headD 0)) fuel quot rem).1 ∧
      Norm (polyDivAux f other (f.inv (other.headD 0)) fuel quot rem).2 ∧
      AllLt n (polyDivAux f other (f.inv (other.headD 0)) fuel quot rem).1 ∧
      AllLt n (polyDivAux f other (f.inv (other.headD 0)) fuel quot rem).2 ∧
      ((polyDivAux f other (f.inv (other.headD 0)) fuel quot rem).2 = [0] ∨
        (polyDivAux f other (f.inv (other.headD 0)) fuel quot rem).2.length < other.length) ∧
      ∀ d, conv f (cf (polyDivAux f other (f.inv (other.headD 0)) fuel quot rem).1) (cf other) d ^^^
            cf (polyDivAux f other (f.inv (other.headD 0)) fuel quot rem).2 d =
          conv f (cf quot) (cf other) d ^^^ cf rem d
  | 0, _, _, _, _, _, _, h => by omega
  | fuel + 1, quot, rem, hnq, hnr, haq, har, hmu => by
    have hone : other ≠ [] := by rintro rfl; exact hlead rfl
    have hol := List.length_pos_iff.mpr hone
    have hlead_lt : other.headD 0 < n := by rw [← cf_head]; exact cf_lt L.pos _ _ ho
    obtain ⟨hinv1, hinv2, _⟩ := L.inv _ (Nat.pos_of_ne_zero hlead) hlead_lt
    rw [polyDivAux_succ]
    by_cases hc : degree rem ≥ degree other ∧ (!isZero rem) = true
    · rw [if_pos hc]
      obtain ⟨hdeg, hnz⟩ := hc
      have hz : isZero rem = false := by simpa using hnz
      have hrl := hnr.length_pos
      have hlen : other.length ≤ rem.length := by unfold degree at hdeg; omega
      have hdd : (degree rem - degree other).toNat = rem.length - other.length := by
        unfold degree; omega
      rw [hdd, coeff_lead rem hnr.ne_nil]
      have hr0 : rem.headD 0 ≠ 0 := by
        intro h; unfold isZero at hz; rw [h] at hz; simp at hz
      have hrlt : rem.headD 0 < n := by rw [← cf_head]; exact cf_lt L.pos _ _ har
      have hscale : f.mul (rem.headD 0) (f.inv (other.headD 0)) < n := L.mul_lt _ _ hrlt hinv2
      generalize hsc : f.mul (rem.headD 0) (f.inv (other.headD 0)) = scale at hscale
      generalize hddg : rem.length - other.length = dd
      obtain ⟨hm1, hm2, hm3⟩ := monomial_spec L.pos dd scale
      obtain ⟨ht1, ht2, ht3⟩ := mulMonomial_spec L other dd scale
      have ht2 := ht2 (Or.inl hone)
      have ht3 := ht3 ho hscale
      obtain ⟨hq1, hq2, hq3⟩ := polyAdd_spec L quot (monomial dd scale) hnq hm2
      obtain ⟨hr1, hr2, hr3⟩ := polyAdd_spec L rem (mulMonomial f other dd scale) hnr ht2
      -- the top coefficient cancels
      have htop : ∀ d, rem.length - 1 ≤ d → cf (polyAdd rem (mulMonomial f other dd scale)) d = 0 := by
        intro d hd
        rw [hr1, ht1, if_neg (by omega)]
        by_cases hd' : d = rem.length - 1
        · have h1 : d - dd = other.length - 1 := by omega
          rw [h1, cf_head, hd', cf_head, ← hsc,
            L.mul_left_comm _ _ _ hlead_lt hrlt hinv2, hinv1, L.mul_one _ hrlt, Nat.xor_self]
        · rw [cf_ge rem d (by omega), cf_ge other _ (by omega), mul_zero_left]; rfl
      have hmu' : mu (polyAdd rem (mulMonomial f other dd scale)) < fuel := by
        have hmr : mu rem = rem.length := by unfold mu; rw [hz]; rfl
        rw [hmr] at hmu
        by_cases h1 : rem.length = 1
        · have : polyAdd rem (mulMonomial f other dd scale) = [0] :=
            norm_eq_zero_of_cf hr2 (fun d => htop d (by omega))
          rw [this]
          show 0 < fuel
          omega
        · have := norm_length_le hr2 (rem.length - 1) (by omega) htop
          unfold mu
          split <;> omega
      obtain ⟨r1, r2, r3, r4, r5, r6⟩ := polyDivAux_spec L other ho hlead fuel _ _ hq2 hr2 (hq3 haq (hm3 hscale))
        (hr3 har ht3) hmu'
      refine ⟨r1, r2, r3, r4, r5, fun d => ?_⟩
      rw [r6 d]
      have hfun : cf (polyAdd quot (monomial dd scale)) =
          fun i => cf quot i ^^^ (if i = dd then scale else 0) := by
        funext i; rw [hq1, hm1]
      rw [hfun, conv_xor_left L _ _ _ (fun i => cf_lt L.pos _ _ haq)
        (fun i => by split; exact hscale; exact L.pos) (fun i => cf_lt L.pos _ _ ho), conv_delta, hr1, ht1]
      by_cases hd : d < dd
      · rw [if_pos hd, if_pos hd, Nat.xor_zero, Nat.xor_zero]
      · rw [if_neg hd, if_neg hd, mul_comm f scale, xor_cancel_mid]
    · rw [if_neg hc]
      refine ⟨hnq, hnr, haq, har, ?_, fun _ => rfl⟩
      by_cases hz : isZero rem = true
      · exact Or.inl ((isZero_iff hnr).mp hz)
      · right
        have hz' : (!isZero rem) = true := by simpa using hz
        have : ¬ degree rem ≥ degree other := fun h => hc ⟨h, hz'⟩
        unfold degree at this
        show rem.length < other.length
        omega

theorem polyDiv_spec {f : Field} {n : Nat} (L : Laws f n) (p other : Poly) (hp : Norm p) (hap : AllLt n p)
    (ho : AllLt n other) (hlead : other.headD 0 ≠ 0) :
    Norm (polyDiv f p other).1 ∧ Norm (polyDiv f p other).2 ∧
    AllLt n (polyDiv f p other).1 ∧ AllLt n (polyDiv f p other).2 ∧
    ((polyDiv f p other).2 = [0] ∨ (polyDiv f p other).2.length < other.length) ∧
    ∀ d, cf p d = conv f (cf (polyDiv f p other).1) (cf other) d ^^^ cf (polyDiv f p other).2 d := by
  have hone : other ≠ [] := by rintro rfl; exact hlead rfl
  unfold polyDiv
  rw [coeff_lead other hone]
  have hmu : mu p < p.length + 1 := by unfold mu; split <;> omega
  obtain ⟨r1, r2, r3, r4, r5, r6⟩ :=
    polyDivAux_spec L other ho hlead (p.length + 1) pZero p norm_pZero hp (allLt_pZero L.pos) hap hmu
  refine ⟨r1, r2, r3, r4, r5, fun d => ?_⟩
  rw [r6 d, conv_zero_left f _ _ cf_pZero, Nat.zero_xor]

/-! ### normal forms are unique -/

theorem eq_of_cf_of_length : ∀ (p q : Poly), p.length = q.length → (∀ d, cf p d = cf q d) → p = q
  | [], [], _, _ => rfl
  | [], _ :: _, h, _ => by simp at h
  | _ :: _, [], h, _ => by simp at h
  | a :: p, b :: q, h, hc => by
    simp only [List.length_cons, Nat.add_right_cancel_iff] at h
    have hab : a = b := by
      have := hc p.length
      rw [cf_cons, cf_cons, if_pos rfl, if_pos h] at this
      exact this
    have : p = q := by
      apply eq_of_cf_of_length p q h
      intro d
      by_cases hd : d = p.length
      · rw [cf_ge p d (by omega), cf_ge q d (by omega)]
      · have := hc d
        rw [cf_cons, cf_cons, if_neg hd, if_neg (by omega)] at this
        exact this
    rw [hab, this]

/-- two normal forms with the same coefficients are the same list -/
theorem norm_ext {p q : Poly} (hp : Norm p) (hq : Norm q) (hc : ∀ d, cf p d = cf q d) : p = q := by
  apply eq_of_cf_of_length p q _ hc
  have h1 : q.length ≤ p.length :=
    norm_length_le hq p.length hp.length_pos (fun d hd => by rw [← hc d]; exact cf_ge p d hd)
  have h2 : p.length ≤ q.length :=
    norm_length_le hp q.length hq.length_pos (fun d hd => by rw [hc d]; exact cf_ge q d hd)
  omega

/-! ### `Multiply` -/

theorem xorPrefix_length : ∀ (acc s : Poly), (xorPrefix acc s).length = acc.length
  | [], [] => rfl
  | _ :: _, [] => rfl
  | [], _ :: _ => rfl
  | a :: acc, b :: s => by
    show ((a ^^^ b) :: xorPrefix acc s).length = _
    rw [List.length_cons, List.length_cons, xorPrefix_length acc s]

theorem xorPrefix_nil (acc : Poly) : xorPrefix acc [] = acc := by cases acc <;> rfl

theorem cf_xorPrefix : ∀ (acc s : Poly) (d : Nat), s.length ≤ acc.length →
    cf (xorPrefix acc s) d =
      cf acc d ^^^ (if d < acc.length - s.length then 0 else cf s (d - (acc.length - s.length)))
  | acc, [], d, _ => by
    rw [xorPrefix_nil]
    split
    · exact (Nat.xor_zero _).symm
    · exact (Nat.xor_zero _).symm
  | [], _ :: _, _, h => by simp at h
  | a :: acc, b :: s, d, h => by
    simp only [List.length_cons] at h
    show cf ((a ^^^ b) :: xorPrefix acc s) d = _
    rw [cf_cons, xorPrefix_length, cf_xorPrefix acc s d (by omega), cf_cons, cf_cons]
    simp only [List.length_cons]
    have e1 : acc.length + 1 - (s.length + 1) = acc.length - s.length := by omega
    rw [e1]
    by_cases hd : d = acc.length
    · rw [if_pos hd, if_pos hd, if_neg (by omega), if_pos (by omega)]
    · rw [if_neg hd, if_neg hd]
      by_cases hr : d < acc.length - s.length
      · rw [if_pos hr, if_pos hr]
      · rw [if_neg hr, if_neg hr, if_neg (by omega)]

theorem allLt_xorPrefix {f : Field} {n : Nat} (L : Laws f n) : ∀ (acc s : Poly), AllLt n acc → AllLt n s →
    AllLt n (xorPrefix acc s)
  | acc, [], h, _ => by rw [xorPrefix_nil]; exact h
  | [], _ :: _, _, _ => by intro x hx; simp [xorPrefix] at hx
  | a :: acc, b :: s, ha, hs => by
    intro x hx
    have : xorPrefix (a :: acc) (b :: s) = (a ^^^ b) :: xorPrefix acc s := rfl
    rw [this, List.mem_cons] at hx
    rcases hx with rfl | hx
    · exact L.xor_lt _ _ (ha a (List.mem_cons_self ..)) (hs b (List.mem_cons_self ..))
    · exact allLt_xorPrefix L acc s (fun y hy => ha y (List.mem_cons_of_mem _ hy))
        (fun y hy => hs y (List.mem_cons_of_mem _ hy)) x hx

theorem polyMulGo_cons (f : Field) (q : Poly) (a : Nat) (rest doneRev pending : Poly) :
    polyMulGo f q (a :: rest) doneRev pending =
      match xorPrefix pending (q.map (fun b => f.mul a b)) with
      | [] => doneRev.reverse
      | h :: t => polyMulGo f q rest (h :: doneRev) t := rfl

theorem cf_cons_xor (a : Nat) (p : Poly) :
    cf (a :: p) = fun i => cf p i ^^^ (if i = p.length then a else 0) := by
  funext i
  rw [cf_cons]
  split
  · rename_i h; rw [cf_ge p i (by omega), Nat.zero_xor]
  · rw [Nat.xor_zero]

theorem polyMulGo_spec {f : Field} {n : Nat} (L : Laws f n) (q : Poly) (hq : AllLt n q) (hql : 0 < q.length) :
    ∀ (rest done pending : Poly), AllLt n rest → AllLt n done → AllLt n pending →
      pending.length + 1 = rest.length + q.length →
      (∀ d, cf (polyMulGo f q rest done pending) d =
        cf (done.reverse ++ pending) d ^^^ conv f (cf rest) (cf q) d) ∧
      (polyMulGo f q rest done pending).length = done.length + pending.length ∧
      AllLt n (polyMulGo f q rest done pending)
  | [], done, pending, _, hd, hp, _ => by
    show (∀ d, cf (done.reverse ++ pending) d = _) ∧ (done.reverse ++ pending).length = _ ∧
      AllLt n (done.reverse ++ pending)
    refine ⟨fun d => ?_, by rw [List.length_append, List.length_reverse], ?_⟩
    · rw [conv_zero_left f _ _ cf_nil, Nat.xor_zero]
    · intro x hx
      rw [List.mem_append, List.mem_reverse] at hx
      rcases hx with hx | hx
      · exact hd x hx
      · exact hp x hx
  | a :: rest, done, pending, hr, hd, hp, hlen => by
    rw [polyMulGo_cons]
    have han : a < n := hr a (List.mem_cons_self ..)
    have hr' : AllLt n rest := fun y hy => hr y (List.mem_cons_of_mem _ hy)
    have hs : AllLt n (q.map (fun b => f.mul a b)) := by
      intro x hx
      rw [List.mem_map] at hx
      obtain ⟨y, hy, rfl⟩ := hx
      exact L.mul_lt _ _ han (hq y hy)
    have hsl : (q.map (fun b => f.mul a b)).length = q.length := List.length_map _
    simp only [List.length_cons] at hlen
    have hXl := xorPrefix_length pending (q.map (fun b => f.mul a b))
    have hXa := allLt_xorPrefix L pending _ hp hs
    have hXc := fun d => cf_xorPrefix pending (q.map (fun b => f.mul a b)) d (by omega)
    cases hX : xorPrefix pending (q.map (fun b => f.mul a b)) with
    | nil => rw [hX] at hXl; simp only [List.length_nil] at hXl; omega
    | cons h t =>
      rw [hX] at hXl hXa hXc
      simp only [List.length_cons] at hXl
      obtain ⟨i1, i2, i3⟩ := polyMulGo_spec L q hq hql rest (h :: done) t hr'
        (fun y hy => by
          rw [List.mem_cons] at hy
          rcases hy with rfl | hy
          · exact hXa _ (List.mem_cons_self ..)
          · exact hd y hy)
        (fun y hy => hXa y (List.mem_cons_of_mem _ hy)) (by omega)
      refine ⟨fun d => ?_, by rw [i2, List.length_cons]; omega, i3⟩
      rw [i1 d, List.reverse_cons, List.append_assoc, List.singleton_append, cf_append, cf_append,
        List.length_cons, hXl, hXc d, hsl, cf_cons_xor,
        conv_xor_left L _ _ _ (fun i => cf_lt L.pos _ _ hr') (fun i => by split; exact han; exact L.pos)
          (fun i => cf_lt L.pos _ _ hq), conv_delta,
        cf_map (fun b => f.mul a b) (mul_zero_right f a)]
      have e : pending.length - q.length = rest.length := by omega
      rw [e]
      by_cases hdp : d < pending.length
      · rw [if_pos hdp, if_pos hdp, Nat.xor_assoc, Nat.xor_comm (conv f _ _ _)]
      · rw [if_neg hdp, if_neg hdp, if_neg (by omega), cf_ge q _ (by omega), mul_zero_right, Nat.xor_zero]

/-- the top coefficient of a product is the product of the leading coefficients -/
theorem conv_top (f : Field) (p q : Poly) (hp : p ≠ []) (hq : q ≠ []) :
    conv f (cf p) (cf q) (p.length + q.length - 2) = f.mul (p.headD 0) (q.headD 0) := by
  have hpl := List.length_pos_iff.mpr hp
  have hql := List.length_pos_iff.mpr hq
  unfold conv
  rw [xs_single (p.length - 1) _ (by omega)]
  · have : p.length + q.length - 2 - (p.length - 1) = q.length - 1 := by omega
    show f.mul (cf p (p.length - 1)) (cf q (p.length + q.length - 2 - (p.length - 1))) = _
    rw [this, cf_head, cf_head]
  · intro i hi hne
    show f.mul (cf p i) (cf q (p.length + q.length - 2 - i)) = 0
    rcases Nat.lt_or_ge i (p.length - 1) with h | h
    · rw [cf_ge q _ (by omega), mul_zero_right]
    · rw [cf_ge p _ (by omega), mul_zero_left]

theorem conv_ge (f : Field) (p q : Poly) (d : Nat) (hd : p.length + q.length - 1 ≤ d) :
    conv f (cf p) (cf q) d = 0 := by
  apply xs_zero
  intro i _
  show f.mul (cf p i) (cf q (d - i)) = 0
  rcases Nat.lt_or_ge i p.length with h | h
  · rw [cf_ge q _ (by omega), mul_zero_right]
  · rw [cf_ge p _ h, mul_zero_left]

theorem polyMul_spec {f : Field} {n : Nat} (L : Laws f n) (p q : Poly) (hp : Norm p) (hq : Norm q)
    (hap : AllLt n p) (haq : AllLt n q) :
    (∀ d, cf (polyMul f p q) d = conv f (cf p) (cf q) d) ∧ Norm (polyMul f p q) ∧ AllLt n (polyMul f p q) ∧
    (isZero p = false → isZero q = false → (polyMul f p q).length = p.length + q.length - 1 ∧
      (polyMul f p q).headD 0 = f.mul (p.headD 0) (q.headD 0)) := by
  unfold polyMul
  by_cases hz : isZero p = true ∨ isZero q = true
  · rw [if_pos hz]
    refine ⟨fun d => ?_, norm_pZero, allLt_pZero L.pos, fun h1 h2 => ?_⟩
    · rw [cf_pZero]
      rcases hz with hz | hz
      · rw [conv_zero_left f _ _ (cf_of_isZero hp hz)]
      · symm
        apply xs_zero
        intro i _
        show f.mul _ (cf q _) = 0
        rw [cf_of_isZero hq hz, mul_zero_right]
    · rcases hz with hz | hz
      · rw [h1] at hz; cases hz
      · rw [h2] at hz; cases hz
  · rw [if_neg hz]
    have hzp : isZero p = false := by cases h : isZero p <;> simp [h] at hz ⊢
    have hzq : isZero q = false := by cases h : isZero q <;> simp [h] at hz ⊢
    have hp0 : p.headD 0 ≠ 0 := by intro h; unfold isZero at hzp; rw [h] at hzp; simp at hzp
    have hq0 : q.headD 0 ≠ 0 := by intro h; unfold isZero at hzq; rw [h] at hzq; simp at hzq
    have hpl := hp.length_pos
    have hql := hq.length_pos
    obtain ⟨i1, i2, i3⟩ := polyMulGo_spec L q haq hql p [] (List.replicate (p.length + q.length - 1) 0) hap
      (fun x hx => by simp at hx)
      (fun x hx => by rw [List.mem_replicate] at hx; rw [hx.2]; exact L.pos)
      (by rw [List.length_replicate]; omega)
    rw [List.length_replicate, List.length_nil, Nat.zero_add] at i2
    have hcf : ∀ d, cf (polyMulGo f q p [] (List.replicate (p.length + q.length - 1) 0)) d =
        conv f (cf p) (cf q) d := by
      intro d
      rw [i1 d, List.reverse_nil, List.nil_append, cf_replicate_zero, Nat.zero_xor]
    have hhead : (polyMulGo f q p [] (List.replicate (p.length + q.length - 1) 0)).headD 0 =
        f.mul (p.headD 0) (q.headD 0) := by
      rw [← cf_head, i2, hcf, ← conv_top f p q hp.ne_nil hq.ne_nil]
      congr 1
    have hpos : 0 < f.mul (p.headD 0) (q.headD 0) :=
      L.mul_pos _ _ (Nat.pos_of_ne_zero hp0) (by rw [← cf_head]; exact cf_lt L.pos _ _ hap)
        (Nat.pos_of_ne_zero hq0) (by rw [← cf_head]; exact cf_lt L.pos _ _ haq)
    have hnorm : Norm (polyMulGo f q p [] (List.replicate (p.length + q.length - 1) 0)) :=
      Or.inr (by rw [hhead]; omega)
    rw [newPoly_of_norm _ hnorm]
    exact ⟨hcf, hnorm, i3, fun _ _ => ⟨i2, hhead⟩⟩

/-- recomposition inside the model: `quotient × divisor + remainder` is literally the dividend -/
theorem polyDiv_recompose {f : Field} {n : Nat} (L : Laws f n) (p other : Poly) (hp : Norm p) (hap : AllLt n p)
    (ho : AllLt n other) (hlead : other.headD 0 ≠ 0) :
    polyAdd (polyMul f (polyDiv f p other).1 other) (polyDiv f p other).2 = p := by
  obtain ⟨r1, r2, r3, _, _, r6⟩ := polyDiv_spec L p other hp hap ho hlead
  obtain ⟨m1, m2, _, _⟩ := polyMul_spec L _ other r1 (Or.inr hlead) r3 ho
  obtain ⟨a1, a2, _⟩ := polyAdd_spec L _ _ m2 r2
  exact norm_ext a2 hp (fun d => by rw [a1 d, m1 d, ← r6 d])

end BV.Proofs.GF
