/-
  BV.Proofs.Code128Bits — table facts and the module-level round trip for Code 128.
-/
import BV.Proofs.SplitOn
import BV.Proofs.Bars
import BV.Proofs.Code128
namespace BV.Proofs.Code128
open BV BV.Model.Code128 BV.Gen.Code128 BV.Spec.OneD BV.Proofs.Bars BV.Proofs.SplitOn
set_option maxRecDepth 100000

/-! ### the reference width table in evaluable form

`Spec.OneD.c128Widths` is written as one string split at blanks; `String.splitOn` is defined by well-founded recursion
and does not reduce, so it is first rewritten (`splitOn_singleton`) and then evaluated by the kernel. -/

/-- the characters of the string literal in `Spec.OneD.c128Widths` -/
def c128Chars : List Char :=
  ['2', '1', '2', '2', '2', '2', ' ', '2', '2', '2', '1', '2', '2', ' ', '2', '2', '2', '2', '2', '1', ' ', '1', 
   '2', '1', '2', '2', '3', ' ', '1', '2', '1', '3', '2', '2', ' ', '1', '3', '1', '2', '2', '2', ' ', '1', '2', 
   '2', '2', '1', '3', ' ', '1', '2', '2', '3', '1', '2', ' ', '1', '3', '2', '2', '1', '2', ' ', '2', '2', '1', 
   '2', '1', '3', ' ', '2', '2', '1', '3', '1', '2', ' ', '2', '3', '1', '2', '1', '2', ' ', '1', '1', '2', '2', 
   '3', '2', ' ', '1', '2', '2', '1', '3', '2', ' ', '1', '2', '2', '2', '3', '1', ' ', '1', '1', '3', '2', '2', 
   '2', ' ', '1', '2', '3', '1', '2', '2', ' ', '1', '2', '3', '2', '2', '1', ' ', '2', '2', '3', '2', '1', '1', 
   ' ', '2', '2', '1', '1', '3', '2', ' ', '2', '2', '1', '2', '3', '1', ' ', '2', '1', '3', '2', '1', '2', ' ', 
   '2', '2', '3', '1', '1', '2', ' ', '3', '1', '2', '1', '3', '1', ' ', '3', '1', '1', '2', '2', '2', ' ', '3', 
   '2', '1', '1', '2', '2', ' ', '3', '2', '1', '2', '2', '1', ' ', '3', '1', '2', '2', '1', '2', ' ', '3', '2', 
   '2', '1', '1', '2', ' ', '3', '2', '2', '2', '1', '1', ' ', '2', '1', '2', '1', '2', '3', ' ', '2', '1', '2', 
   '3', '2', '1', ' ', '2', '3', '2', '1', '2', '1', ' ', '1', '1', '1', '3', '2', '3', ' ', '1', '3', '1', '1', 
   '2', '3', ' ', '1', '3', '1', '3', '2', '1', ' ', '1', '1', '2', '3', '1', '3', ' ', '1', '3', '2', '1', '1', 
   '3', ' ', '1', '3', '2', '3', '1', '1', ' ', '2', '1', '1', '3', '1', '3', ' ', '2', '3', '1', '1', '1', '3', 
   ' ', '2', '3', '1', '3', '1', '1', ' ', '1', '1', '2', '1', '3', '3', ' ', '1', '1', '2', '3', '3', '1', ' ', 
   '1', '3', '2', '1', '3', '1', ' ', '1', '1', '3', '1', '2', '3', ' ', '1', '1', '3', '3', '2', '1', ' ', '1', 
   '3', '3', '1', '2', '1', ' ', '3', '1', '3', '1', '2', '1', ' ', '2', '1', '1', '3', '3', '1', ' ', '2', '3', 
   '1', '1', '3', '1', ' ', '2', '1', '3', '1', '1', '3', ' ', '2', '1', '3', '3', '1', '1', ' ', '2', '1', '3', 
   '1', '3', '1', ' ', '3', '1', '1', '1', '2', '3', ' ', '3', '1', '1', '3', '2', '1', ' ', '3', '3', '1', '1', 
   '2', '1', ' ', '3', '1', '2', '1', '1', '3', ' ', '3', '1', '2', '3', '1', '1', ' ', '3', '3', '2', '1', '1', 
   '1', ' ', '3', '1', '4', '1', '1', '1', ' ', '2', '2', '1', '4', '1', '1', ' ', '4', '3', '1', '1', '1', '1', 
   ' ', '1', '1', '1', '2', '2', '4', ' ', '1', '1', '1', '4', '2', '2', ' ', '1', '2', '1', '1', '2', '4', ' ', 
   '1', '2', '1', '4', '2', '1', ' ', '1', '4', '1', '1', '2', '2', ' ', '1', '4', '1', '2', '2', '1', ' ', '1', 
   '1', '2', '2', '1', '4', ' ', '1', '1', '2', '4', '1', '2', ' ', '1', '2', '2', '1', '1', '4', ' ', '1', '2', 
   '2', '4', '1', '1', ' ', '1', '4', '2', '1', '1', '2', ' ', '1', '4', '2', '2', '1', '1', ' ', '2', '4', '1', 
   '2', '1', '1', ' ', '2', '2', '1', '1', '1', '4', ' ', '4', '1', '3', '1', '1', '1', ' ', '2', '4', '1', '1', 
   '1', '2', ' ', '1', '3', '4', '1', '1', '1', ' ', '1', '1', '1', '2', '4', '2', ' ', '1', '2', '1', '1', '4', 
   '2', ' ', '1', '2', '1', '2', '4', '1', ' ', '1', '1', '4', '2', '1', '2', ' ', '1', '2', '4', '1', '1', '2', 
   ' ', '1', '2', '4', '2', '1', '1', ' ', '4', '1', '1', '2', '1', '2', ' ', '4', '2', '1', '1', '1', '2', ' ', 
   '4', '2', '1', '2', '1', '1', ' ', '2', '1', '2', '1', '4', '1', ' ', '2', '1', '4', '1', '2', '1', ' ', '4', 
   '1', '2', '1', '2', '1', ' ', '1', '1', '1', '1', '4', '3', ' ', '1', '1', '1', '3', '4', '1', ' ', '1', '3', 
   '1', '1', '4', '1', ' ', '1', '1', '4', '1', '1', '3', ' ', '1', '1', '4', '3', '1', '1', ' ', '4', '1', '1', 
   '1', '1', '3', ' ', '4', '1', '1', '3', '1', '1', ' ', '1', '1', '3', '1', '4', '1', ' ', '1', '1', '4', '1', 
   '3', '1', ' ', '3', '1', '1', '1', '4', '1', ' ', '4', '1', '1', '1', '3', '1', ' ', '2', '1', '1', '4', '1', 
   '2', ' ', '2', '1', '1', '2', '1', '4', ' ', '2', '1', '1', '2', '3', '2', ' ', '2', '3', '3', '1', '1', '1', 
   '2']

/-- ISO/IEC 15417 Table 1 as an explicit list (equal to `Spec.OneD.c128Table`, see `c128Table_eq`) -/
def c128T : List (List Nat) :=
  [[2, 1, 2, 2, 2, 2],
   [2, 2, 2, 1, 2, 2],
   [2, 2, 2, 2, 2, 1],
   [1, 2, 1, 2, 2, 3],
   [1, 2, 1, 3, 2, 2],
   [1, 3, 1, 2, 2, 2],
   [1, 2, 2, 2, 1, 3],
   [1, 2, 2, 3, 1, 2],
   [1, 3, 2, 2, 1, 2],
   [2, 2, 1, 2, 1, 3],
   [2, 2, 1, 3, 1, 2],
   [2, 3, 1, 2, 1, 2],
   [1, 1, 2, 2, 3, 2],
   [1, 2, 2, 1, 3, 2],
   [1, 2, 2, 2, 3, 1],
   [1, 1, 3, 2, 2, 2],
   [1, 2, 3, 1, 2, 2],
   [1, 2, 3, 2, 2, 1],
   [2, 2, 3, 2, 1, 1],
   [2, 2, 1, 1, 3, 2],
   [2, 2, 1, 2, 3, 1],
   [2, 1, 3, 2, 1, 2],
   [2, 2, 3, 1, 1, 2],
   [3, 1, 2, 1, 3, 1],
   [3, 1, 1, 2, 2, 2],
   [3, 2, 1, 1, 2, 2],
   [3, 2, 1, 2, 2, 1],
   [3, 1, 2, 2, 1, 2],
   [3, 2, 2, 1, 1, 2],
   [3, 2, 2, 2, 1, 1],
   [2, 1, 2, 1, 2, 3],
   [2, 1, 2, 3, 2, 1],
   [2, 3, 2, 1, 2, 1],
   [1, 1, 1, 3, 2, 3],
   [1, 3, 1, 1, 2, 3],
   [1, 3, 1, 3, 2, 1],
   [1, 1, 2, 3, 1, 3],
   [1, 3, 2, 1, 1, 3],
   [1, 3, 2, 3, 1, 1],
   [2, 1, 1, 3, 1, 3],
   [2, 3, 1, 1, 1, 3],
   [2, 3, 1, 3, 1, 1],
   [1, 1, 2, 1, 3, 3],
   [1, 1, 2, 3, 3, 1],
   [1, 3, 2, 1, 3, 1],
   [1, 1, 3, 1, 2, 3],
   [1, 1, 3, 3, 2, 1],
   [1, 3, 3, 1, 2, 1],
   [3, 1, 3, 1, 2, 1],
   [2, 1, 1, 3, 3, 1],
   [2, 3, 1, 1, 3, 1],
   [2, 1, 3, 1, 1, 3],
   [2, 1, 3, 3, 1, 1],
   [2, 1, 3, 1, 3, 1],
   [3, 1, 1, 1, 2, 3],
   [3, 1, 1, 3, 2, 1],
   [3, 3, 1, 1, 2, 1],
   [3, 1, 2, 1, 1, 3],
   [3, 1, 2, 3, 1, 1],
   [3, 3, 2, 1, 1, 1],
   [3, 1, 4, 1, 1, 1],
   [2, 2, 1, 4, 1, 1],
   [4, 3, 1, 1, 1, 1],
   [1, 1, 1, 2, 2, 4],
   [1, 1, 1, 4, 2, 2],
   [1, 2, 1, 1, 2, 4],
   [1, 2, 1, 4, 2, 1],
   [1, 4, 1, 1, 2, 2],
   [1, 4, 1, 2, 2, 1],
   [1, 1, 2, 2, 1, 4],
   [1, 1, 2, 4, 1, 2],
   [1, 2, 2, 1, 1, 4],
   [1, 2, 2, 4, 1, 1],
   [1, 4, 2, 1, 1, 2],
   [1, 4, 2, 2, 1, 1],
   [2, 4, 1, 2, 1, 1],
   [2, 2, 1, 1, 1, 4],
   [4, 1, 3, 1, 1, 1],
   [2, 4, 1, 1, 1, 2],
   [1, 3, 4, 1, 1, 1],
   [1, 1, 1, 2, 4, 2],
   [1, 2, 1, 1, 4, 2],
   [1, 2, 1, 2, 4, 1],
   [1, 1, 4, 2, 1, 2],
   [1, 2, 4, 1, 1, 2],
   [1, 2, 4, 2, 1, 1],
   [4, 1, 1, 2, 1, 2],
   [4, 2, 1, 1, 1, 2],
   [4, 2, 1, 2, 1, 1],
   [2, 1, 2, 1, 4, 1],
   [2, 1, 4, 1, 2, 1],
   [4, 1, 2, 1, 2, 1],
   [1, 1, 1, 1, 4, 3],
   [1, 1, 1, 3, 4, 1],
   [1, 3, 1, 1, 4, 1],
   [1, 1, 4, 1, 1, 3],
   [1, 1, 4, 3, 1, 1],
   [4, 1, 1, 1, 1, 3],
   [4, 1, 1, 3, 1, 1],
   [1, 1, 3, 1, 4, 1],
   [1, 1, 4, 1, 3, 1],
   [3, 1, 1, 1, 4, 1],
   [4, 1, 1, 1, 3, 1],
   [2, 1, 1, 4, 1, 2],
   [2, 1, 1, 2, 1, 4],
   [2, 1, 1, 2, 3, 2],
   [2, 3, 3, 1, 1, 1, 2]]

theorem c128Widths_eq : c128Widths = (splitChars ' ' [] c128Chars).map String.ofList := by
  unfold c128Widths
  rw [show " " = String.singleton ' ' from rfl, splitOn_singleton]
  have : "212222 222122 222221 121223 121322 131222 122213 122312 132212 221213 221312 231212 112232 122132 122231 113222 123122 123221 223211 221132 221231 213212 223112 312131 311222 321122 321221 312212 322112 322211 212123 212321 232121 111323 131123 131321 112313 132113 132311 211313 231113 231311 112133 112331 132131 113123 113321 133121 313121 211331 231131 213113 213311 213131 311123 311321 331121 312113 312311 332111 314111 221411 431111 111224 111422 121124 121421 141122 141221 112214 112412 122114 122411 142112 142211 241211 221114 413111 241112 134111 111242 121142 121241 114212 124112 124211 411212 421112 421211 212141 214121 412121 111143 111341 131141 114113 114311 411113 411311 113141 114131 311141 411131 211412 211214 211232 2331112" = String.ofList c128Chars := by
    unfold c128Chars; exact rfl
  rw [this, String.toList_ofList]

/-- certificate: the string form of the table evaluates to the explicit list -/
theorem c128Table_eq : c128Table = c128T := by
  unfold c128Table digitsOfString
  rw [c128Widths_eq, List.map_map]
  have : ((fun s : String => s.toList.map (fun c => c.toNat - 48)) ∘ String.ofList) =
      fun cs : List Char => cs.map (fun c => c.toNat - 48) := by
    funext cs; simp
  rw [this]
  decide +kernel


/-- certificate (107 entries): the generated module table is the expansion of the reference width table -/
theorem table_expand : v_encodingTable = c128Table.map (expand true) := by
  rw [c128Table_eq]; decide +kernel

/-- decoding of one 11-module group, as in `c128Decode` -/
def c128Group (grp : List Bool) : Except String Nat :=
  match widthsFromBar (runLengths grp) with
  | some ws =>
    if ws.length ≠ 6 then throw "symbol is not 3 bars + 3 spaces"
    else match (c128Table.take 106).findIdx? (· == ws) with
      | some i => pure i
      | none => throw "unknown symbol pattern"
  | none => throw "symbol does not start with a bar"

def groupCheck (i : Nat) : Bool :=
  (pattern i).length == 11 && (pattern i).head? == some true && (pattern i).getLast? == some false &&
  match widthsFromBar (runLengths (pattern i)) with
  | some ws => ws.length == 6 && ((c128T.take 106).findIdx? (· == ws) == some i)
  | none => false

/-- certificate (106 entries): every start/data pattern has 11 modules, begins with a bar, ends with a space, and its
    run lengths are found in the reference table at its own index first (so the 106 patterns are pairwise distinct) -/
theorem cert_groups : ∀ i < 106, groupCheck i = true := by decide +kernel

theorem pattern_length {i : Nat} (h : i < 106) : (pattern i).length = 11 := by
  have := cert_groups i h
  unfold groupCheck at this
  simp only [Bool.and_eq_true, beq_iff_eq] at this
  exact this.1.1.1

theorem c128Group_pattern {i : Nat} (h : i < 106) : c128Group (pattern i) = .ok i := by
  have := cert_groups i h
  unfold groupCheck at this
  unfold c128Group
  rw [c128Table_eq]
  split at this
  · rename_i ws hws
    simp only [Bool.and_eq_true, beq_iff_eq] at this
    simp only [this.2.1, ne_eq, not_true_eq_false, if_false, this.2.2]
    rfl
  · simp at this

/-- certificate: the stop pattern -/
theorem cert_stop : (pattern c_stopSymbol).length = 13 ∧
    widthsFromBar (runLengths (pattern c_stopSymbol)) = some [2, 3, 3, 1, 1, 1, 2] := by decide +kernel

/-! ### check character -/

theorem checksum_go_eq (l : List Nat) : ∀ (i sum : Nat), 1 ≤ i →
    checksum.go l i sum = c128CheckValue.go l i sum := by
  induction l with
  | nil => intro i sum _; rfl
  | cons x rest ih =>
    intro i sum hi
    rw [checksum.go, c128CheckValue.go]
    have : (i == 0) = false := by simp; omega
    rw [this]
    exact ih (i + 1) _ (by omega)

/-- the model's check value is the reference modulo-103 value of start and data characters -/
theorem checksum_eq (start : Nat) (data : List Nat) : checksum (start :: data) = c128CheckValue start data := by
  unfold checksum c128CheckValue
  rw [checksum.go]
  simp only [beq_self_eq_true, if_true]
  rw [checksum_go_eq data (0 + 1) start (by omega)]

theorem checksum_lt (idxs : List Nat) : checksum idxs < 103 := by
  unfold checksum; exact Nat.mod_lt _ (by omega)


/-! ### module-level round trip -/

/-- the module row of a symbol sequence followed by the stop pattern -/
def symbolBits (syms : List Nat) : List Bool := syms.flatMap pattern ++ pattern c_stopSymbol

theorem symbolBits_length (syms : List Nat) (h : ∀ v ∈ syms, v < 106) :
    (symbolBits syms).length = 11 * syms.length + 13 := by
  unfold symbolBits
  rw [List.length_append, cert_stop.1, List.flatMap_def,
    length_flatten_const 11 (syms.map pattern) (by
      intro g hg
      obtain ⟨v, hv, rfl⟩ := List.mem_map.1 hg
      exact pattern_length (h v hv)), List.length_map]

/-- the reference decoder reads the symbol values back from the module row (any start, data and optional check
    values below 106 followed by the stop pattern) and then validates start, check character and code sets -/
theorem decode_symbols (wc : Bool) (start : Nat) (data : List Nat) (rs : List Nat)
    (hs : start = 103 ∨ start = 104 ∨ start = 105) (hd : ∀ v ∈ data, v < 103)
    (hint : c128Interpret (setOf start) data = some rs) :
    c128Decode wc (symbolBits (start :: data ++ (if wc then [c128CheckValue start data] else []))) =
      .ok { runes := rs,
            symbols := start :: data ++ (if wc then [c128CheckValue start data] else []),
            check := if wc then some (c128CheckValue start data) else none } := by
  generalize hsy : (start :: data ++ (if wc then [c128CheckValue start data] else [])) = syms
  have hck : c128CheckValue start data < 103 := by unfold c128CheckValue; exact Nat.mod_lt _ (by omega)
  have hlt : ∀ v ∈ syms, v < 106 := by
    intro v hv
    rw [← hsy] at hv
    simp only [List.cons_append, List.mem_cons, List.mem_append] at hv
    rcases hv with rfl | hv | hv
    · omega
    · have := hd v hv; omega
    · split at hv
      · simp only [List.mem_cons, List.not_mem_nil, or_false] at hv; omega
      · simp at hv
  have hlen := symbolBits_length syms hlt
  have hn : 1 ≤ syms.length := by rw [← hsy]; simp
  have hgl : ∀ g ∈ syms.map pattern, g.length = 11 := by
    intro g hg
    obtain ⟨v, hv, rfl⟩ := List.mem_map.1 hg
    exact pattern_length (hlt v hv)
  have hbody : (symbolBits syms).take ((symbolBits syms).length - 13) = (syms.map pattern).flatten := by
    rw [hlen]; unfold symbolBits; rw [List.flatMap_def]
    apply List.take_left'
    rw [length_flatten_const 11 _ hgl, List.length_map]; omega
  have hstop : (symbolBits syms).drop ((symbolBits syms).length - 13) = pattern c_stopSymbol := by
    rw [hlen]; unfold symbolBits; rw [List.flatMap_def]
    apply List.drop_left'
    rw [length_flatten_const 11 _ hgl, List.length_map]; omega
  have hmap : List.mapM c128Group (splitEvery 11 ((symbolBits syms).take ((symbolBits syms).length - 13))) =
      .ok syms := by
    rw [hbody, splitEvery_flatten 11 (by omega) _ hgl]
    exact mapM_map_ok c128Group pattern syms (fun v hv => c128Group_pattern (hlt v hv))
  unfold c128Decode
  simp only [bind, Except.bind, pure, Except.pure, throw, throwThe, MonadExceptOf.throw]
  rw [if_neg (by omega), if_neg (by rw [hlen]; simp), hstop, if_neg (by rw [cert_stop.2]; simp)]
  generalize hf : List.mapM (m := Except String) (α := List Bool) (β := Nat) _ (splitEvery 11 _) = m
  have hm : m = .ok syms := by rw [← hf]; exact hmap
  subst hm
  simp only
  rw [← hsy]
  simp only [List.cons_append]
  cases wc with
  | false =>
    simp only [Bool.false_eq_true, if_false, List.append_nil]
    rcases hs with rfl | rfl | rfl <;> simp [setOf] at hint <;> simp [hint]
  | true =>
    simp only [if_true]
    rcases hs with rfl | rfl | rfl <;> simp [setOf] at hint <;> simp [hint]


/-! ### the encoders -/

theorem encode_eq (content : Bytes) (idxs : List Nat) (h1 : 1 ≤ (runeList content).length)
    (h80 : (runeList content).length ≤ 80) (hidx : getCodeIndexList (runeList content) = some idxs) :
    encode content = .ok (mk1D (Model.kindStr Gen.Root.c_TypeCode128) content
      (symbolBits (idxs ++ [checksum idxs])) (some (checksum idxs : Nat)) scheme16) := by
  unfold encode encodeWithColor strToRunes
  simp only
  rw [if_neg (by omega), hidx]
  simp [symbolBits]

theorem encodeWithoutChecksum_eq (content : Bytes) (idxs : List Nat) (h1 : 1 ≤ (runeList content).length)
    (h80 : (runeList content).length ≤ 80) (hidx : getCodeIndexList (runeList content) = some idxs) :
    encodeWithoutChecksum content = .ok (mk1D (Model.kindStr Gen.Root.c_TypeCode128) content
      (symbolBits idxs) none scheme16) := by
  unfold encodeWithoutChecksum encodeWithoutChecksumWithColor strToRunes
  simp only
  rw [if_neg (by omega), hidx]
  simp [symbolBits]

theorem encode_reject (content : Bytes)
    (h : (runeList content).length = 0 ∨ 80 < (runeList content).length ∨ ∃ r ∈ runeList content, ¬ InAlpha r) :
    encode content = .error .rejected ∧ encodeWithoutChecksum content = .error .rejected := by
  unfold encode encodeWithColor encodeWithoutChecksum encodeWithoutChecksumWithColor strToRunes
  simp only
  by_cases hl : (runeList content).length ≤ 0 ∨ (runeList content).length > 80
  · rw [if_pos hl, if_pos hl]; exact ⟨rfl, rfl⟩
  · rw [if_neg hl, if_neg hl]
    have hb : ∃ r ∈ runeList content, ¬ InAlpha r := by
      rcases h with h | h | h
      · exact absurd (Or.inl (by omega)) hl
      · exact absurd (Or.inr h) hl
      · exact h
    rw [symbols_reject _ hb]
    exact ⟨rfl, rfl⟩

/-- the generated pattern of a symbol value is the expansion of the reference width entry -/
theorem pattern_eq_expand (v : Nat) : pattern v = expand true (c128Table.getD v []) := by
  unfold pattern
  rw [table_expand]
  simp only [List.getD_eq_getElem?_getD, List.getElem?_map]
  cases c128Table[v]? <;> rfl

theorem symbolBits_eq_expand (syms : List Nat) :
    symbolBits syms = (syms.map (fun v => expand true (c128Table.getD v []))).flatten ++
      expand true (c128Table.getD 106 []) := by
  unfold symbolBits
  rw [List.flatMap_def, pattern_eq_expand]
  congr 2
  apply List.map_congr_left
  intro v _
  exact pattern_eq_expand v

end BV.Proofs.Code128
