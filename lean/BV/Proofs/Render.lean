/-
  Render — C11: colour scheme, bounds, metadata.  Shared vocabulary and the 1-D families.

  `Barcode.recolor s b` replaces the scheme of `b`.  For every family we show
  `encodeWithColor a s = (encode a).map (Barcode.recolor s)`, which yields `SameButScheme`.
-/
import BV.Model.Ean
import BV.Model.Code39
import BV.Model.Code93
import BV.Model.Code128
import BV.Model.Codabar
import BV.Model.Twooffive
namespace BV.Proofs.Render
open BV BV.Model

/-! ### generic fold lemmas -/

/-- a map that commutes with every step commutes with the fold -/
theorem foldl_comm {σ α} (φ : σ → σ) (f : σ → α → σ) (h : ∀ a x, f (φ a) x = φ (f a x)) :
    ∀ (l : List α) (a : σ), l.foldl f (φ a) = φ (l.foldl f a) := by
  intro l
  induction l with
  | nil => intro a; rfl
  | cons x l ih => intro a; rw [List.foldl_cons, List.foldl_cons, h, ih]

/-- a property that every step preserves is preserved by the fold -/
theorem foldl_inv {σ α} (P : σ → Prop) (f : σ → α → σ) (h : ∀ a x, P a → P (f a x)) :
    ∀ (l : List α) (a : σ), P a → P (l.foldl f a) := by
  intro l
  induction l with
  | nil => intro a ha; exact ha
  | cons x l ih => intro a ha; exact ih _ (h _ _ ha)

/-- the same barcode with another colour scheme -/
def _root_.BV.Barcode.recolor (s : Scheme) (b : Barcode) : Barcode := { b with scheme := s }

/-- Two encoder results agree in everything except the colour scheme, and the scheme of the first is `s`. -/
def SameButScheme (r r0 : Res Barcode) (s : Scheme) : Prop :=
  match r, r0 with
  | .ok b, .ok b0 => b.scheme = s ∧ b.kind = b0.kind ∧ b.dims = b0.dims ∧ b.w = b0.w ∧ b.h = b0.h ∧
                     b.content = b0.content ∧ b.checksum = b0.checksum ∧ ∀ x y, b.dark x y = b0.dark x y
  | .error e, .error e0 => e = e0
  | _, _ => False

theorem sameButScheme_of_map (r r0 : Res Barcode) (s : Scheme) (h : r = r0.map (Barcode.recolor s)) :
    SameButScheme r r0 s := by
  subst h
  cases r0 with
  | error e => simp [SameButScheme, Except.map]
  | ok b => simp [SameButScheme, Except.map, Barcode.recolor]

theorem mk1D_recolor (k : String) (c : Bytes) (bits : List Bool) (cs : Option Int) (s s0 : Scheme) :
    mk1D k c bits cs s = (mk1D k c bits cs s0).recolor s := rfl

/-! ### 1-D families: `encodeWithColor a s = (encode a).map (recolor s)` -/

theorem ean_map (code : Bytes) (s : Scheme) :
    Ean.encodeWithColor code s = (Ean.encode code).map (Barcode.recolor s) := by
  unfold Ean.encode Ean.encodeWithColor
  simp only []
  split
  · rfl
  · split
    · split <;> rfl
    · split
      · split <;> rfl
      · rfl

theorem code39_map (c : Bytes) (cs full : Bool) (s : Scheme) :
    Code39.encodeWithColor c cs full s = (Code39.encode c cs full).map (Barcode.recolor s) := by
  unfold Code39.encode Code39.encodeWithColor
  simp only []
  split
  · rfl
  · split <;> rfl

theorem code93_map (c : Bytes) (cs full : Bool) (s : Scheme) :
    Code93.encodeWithColor c cs full s = (Code93.encode c cs full).map (Barcode.recolor s) := by
  unfold Code93.encode Code93.encodeWithColor
  simp only []
  split
  · rfl
  · split <;> rfl

theorem code128_map (c : Bytes) (s : Scheme) :
    Code128.encodeWithColor c s = (Code128.encode c).map (Barcode.recolor s) := by
  unfold Code128.encode Code128.encodeWithColor
  simp only []
  split
  · rfl
  · split <;> rfl

theorem code128nc_map (c : Bytes) (s : Scheme) :
    Code128.encodeWithoutChecksumWithColor c s =
      (Code128.encodeWithoutChecksum c).map (Barcode.recolor s) := by
  unfold Code128.encodeWithoutChecksum Code128.encodeWithoutChecksumWithColor
  simp only []
  split
  · rfl
  · split <;> rfl

theorem codabar_map (c : Bytes) (s : Scheme) :
    Codabar.encodeWithColor c s = (Codabar.encode c).map (Barcode.recolor s) := by
  unfold Codabar.encode Codabar.encodeWithColor
  split <;> rfl

theorem twooffive_map (c : Bytes) (il : Bool) (s : Scheme) :
    Twooffive.encodeWithColor c il s = (Twooffive.encode c il).map (Barcode.recolor s) := by
  unfold Twooffive.encode Twooffive.encodeWithColor
  simp only []
  split
  · rfl
  · split
    · rfl
    · split <;> rfl

/-! ### kind strings (certificates: the generated constants of package `barcode` are the expected strings) -/

theorem kind_ean8 : kindStr Gen.Root.c_TypeEAN8 = "EAN 8" := by decide
theorem kind_ean13 : kindStr Gen.Root.c_TypeEAN13 = "EAN 13" := by decide
theorem kind_code128 : kindStr Gen.Root.c_TypeCode128 = "Code 128" := by decide
theorem kind_code39 : kindStr Gen.Root.c_TypeCode39 = "Code 39" := by decide
theorem kind_code93 : kindStr Gen.Root.c_TypeCode93 = "Code 93" := by decide
theorem kind_codabar : kindStr Gen.Root.c_TypeCodabar = "Codabar" := by decide
theorem kind_2of5 : kindStr Gen.Root.c_Type2of5 = "2 of 5" := by decide
theorem kind_2of5il : kindStr Gen.Root.c_Type2of5Interleaved = "2 of 5 (interleaved)" := by decide
theorem kind_qr : kindStr Gen.Root.c_TypeQR = "QR Code" := by decide
theorem kind_dm : kindStr Gen.Root.c_TypeDataMatrix = "DataMatrix" := by decide
theorem kind_aztec : kindStr Gen.Root.c_TypeAztec = "Aztec" := by decide
theorem kind_pdf : kindStr Gen.Root.c_TypePDF = "PDF417" := by decide

/-! ### 1-D families: shape of an accepted result -/

/-- what `mk1D` fixes -/
structure Is1D (b : Barcode) (kind : String) (s : Scheme) : Prop where
  kind : b.kind = kind
  dims : b.dims = 1
  h : b.h = 1
  scheme : b.scheme = s

theorem is1D_mk1D (k : String) (c : Bytes) (bits : List Bool) (cs : Option Int) (s : Scheme) :
    Is1D (mk1D k c bits cs s) k s := ⟨rfl, rfl, rfl, rfl⟩

theorem ean_ok (code : Bytes) (s : Scheme) (b : Barcode) (h : Ean.encodeWithColor code s = .ok b) :
    (b.content.length = 8 ∧ Is1D b "EAN 8" s) ∨ (b.content.length = 13 ∧ Is1D b "EAN 13" s) := by
  unfold Ean.encodeWithColor at h
  simp only [] at h
  split at h
  · cases h
  · rename_i c cs _
    split at h
    · rename_i h8
      split at h
      · cases h; left; exact ⟨show c.length = 8 by simpa using h8, kind_ean8 ▸ is1D_mk1D ..⟩
      · cases h
    · split at h
      · rename_i h13
        split at h
        · cases h; right; exact ⟨show c.length = 13 by simpa using h13, kind_ean13 ▸ is1D_mk1D ..⟩
        · cases h
      · cases h

theorem code39_ok (c : Bytes) (cs full : Bool) (s : Scheme) (b : Barcode)
    (h : Code39.encodeWithColor c cs full s = .ok b) :
    Is1D b "Code 39" s ∧ (full = false → b.content = c) := by
  unfold Code39.encodeWithColor at h
  simp only [] at h
  split at h
  · cases h
  · rename_i c' hc
    split at h
    · cases h
    · cases h
      refine ⟨kind_code39 ▸ is1D_mk1D .., ?_⟩
      intro hf
      subst hf
      simp only [Bool.false_eq_true, if_false] at hc
      split at hc
      · cases hc
      · cases hc; rfl

theorem code93_ok (c : Bytes) (cs full : Bool) (s : Scheme) (b : Barcode)
    (h : Code93.encodeWithColor c cs full s = .ok b) :
    Is1D b "Code 93" s ∧ (full = false → b.content = c) := by
  unfold Code93.encodeWithColor at h
  simp only [] at h
  split at h
  · cases h
  · rename_i c' hc
    split at h
    · cases h
    · cases h
      refine ⟨kind_code93 ▸ is1D_mk1D .., ?_⟩
      intro hf
      subst hf
      simp only [Bool.false_eq_true, if_false] at hc
      split at hc
      · cases hc
      · cases hc; rfl

theorem code128_ok (c : Bytes) (s : Scheme) (b : Barcode) (h : Code128.encodeWithColor c s = .ok b) :
    Is1D b "Code 128" s ∧ b.content = c := by
  unfold Code128.encodeWithColor at h
  simp only [] at h
  split at h
  · cases h
  · split at h
    · cases h
    · cases h; exact ⟨kind_code128 ▸ is1D_mk1D .., rfl⟩

theorem code128nc_ok (c : Bytes) (s : Scheme) (b : Barcode)
    (h : Code128.encodeWithoutChecksumWithColor c s = .ok b) :
    Is1D b "Code 128" s ∧ b.content = c := by
  unfold Code128.encodeWithoutChecksumWithColor at h
  simp only [] at h
  split at h
  · cases h
  · split at h
    · cases h
    · cases h; exact ⟨kind_code128 ▸ is1D_mk1D .., rfl⟩

theorem codabar_ok (c : Bytes) (s : Scheme) (b : Barcode) (h : Codabar.encodeWithColor c s = .ok b) :
    Is1D b "Codabar" s ∧ b.content = c := by
  unfold Codabar.encodeWithColor at h
  split at h
  · cases h
  · cases h; exact ⟨kind_codabar ▸ is1D_mk1D .., rfl⟩

theorem twooffive_ok (c : Bytes) (il : Bool) (s : Scheme) (b : Barcode)
    (h : Twooffive.encodeWithColor c il s = .ok b) :
    Is1D b (if il then "2 of 5 (interleaved)" else "2 of 5") s ∧ b.content = c := by
  unfold Twooffive.encodeWithColor at h
  simp only [] at h
  split at h
  · cases h
  · split at h
    · cases h
    · split at h
      · cases h
      · cases h
        refine ⟨?_, rfl⟩
        cases il
        · exact kind_2of5 ▸ is1D_mk1D ..
        · exact kind_2of5il ▸ is1D_mk1D ..

/-! ### helpers for the concrete examples of `BV.Props.C11` -/

/-- a colour scheme different from `scheme16` -/
def red : Scheme := { model := "RGBAModel", bg := "RGBA:ffff00ff", fg := "RGBA:ff0000ff" }

/-- the result is a barcode with this kind, dimensionality, width, height, scheme and these colours at the
    pixels (0,0) and (1,0) -/
def check (r : Res Barcode) (kind : String) (dims w h : Nat) (s : Scheme) (c00 c10 : String) : Bool :=
  match r with
  | .ok b => b.kind == kind && b.dims == dims && b.w == w && b.h == h && b.scheme == s &&
      b.colourAt 0 0 == c00 && b.colourAt 1 0 == c10
  | .error _ => false

/-- the result is the error return -/
def isRejected (r : Res Barcode) : Bool :=
  match r with
  | .error .rejected => true
  | _ => false

end BV.Proofs.Render
