/-
  Lemmas for C15/C16: searches in tables with unique keys do not depend on the iteration order;
  a rendezvous (unbuffered) channel between one producer and one consumer.
-/
import BV.Base
namespace BV.Proofs.Purity

/-! ### order independence of `for k, v := range table { if v.value == x { return k } }` -/

theorem find_of_mem_nodup {α} (key : α → Int) (v : Int) : ∀ (l : List α) (e : α),
    (l.map key).Nodup → e ∈ l → key e = v → l.find? (fun x => key x == v) = some e := by
  intro l
  induction l with
  | nil => intro e _ h; cases h
  | cons a rest ih =>
    intro e hn hm hk
    rw [List.map_cons, List.nodup_cons] at hn
    rcases List.mem_cons.mp hm with rfl | hm'
    · simp [List.find?, hk]
    · have hne : key a ≠ v := by
        intro h
        apply hn.1
        rw [h, ← hk]
        exact List.mem_map_of_mem hm'
      have : (key a == v) = false := by simp [hne]
      simp only [List.find?, this]
      exact ih e hn.2 hm' hk

theorem find_none_of_forall {α} (key : α → Int) (v : Int) (l : List α) (h : ∀ e ∈ l, key e ≠ v) :
    l.find? (fun x => key x == v) = none := by
  rw [List.find?_eq_none]
  intro e he
  simp [h e he]

/-- a Go `range` over a map visits the entries in an arbitrary order; when the searched values are unique the
    first match is the same for every order -/
theorem find_perm_invariant {α} (key : α → Int) (v : Int) (l l' : List α) (hp : l.Perm l')
    (hn : (l.map key).Nodup) :
    l'.find? (fun x => key x == v) = l.find? (fun x => key x == v) := by
  have hn' : (l'.map key).Nodup := (hp.map key).nodup_iff.mp hn
  cases h : l.find? (fun x => key x == v) with
  | none =>
    rw [List.find?_eq_none] at h
    apply find_none_of_forall
    intro e he
    have := h e (hp.mem_iff.mpr he)
    simpa using this
  | some e =>
    have hmem : e ∈ l := List.mem_of_find?_eq_some h
    have hk : key e = v := by
      have := List.find?_some h
      simpa using this
    exact find_of_mem_nodup key v l' e hn' (hp.mem_iff.mp hmem) hk

/-! ### one producer, one consumer, one unbuffered channel -/

/-- state: values the producer still has to send (then it closes the channel and exits), number of receive
    operations the consumer still performs (then it returns), whether the channel is closed -/
structure Chan where
  toSend : Nat
  closed : Bool
  toRecv : Nat
  deriving DecidableEq, Repr

/-- the only enabled transition, if any: a send needs a receiver (rendezvous); the producer closes when it has
    sent everything; a receive on a closed channel returns at once -/
def Chan.step (s : Chan) : Option Chan :=
  if s.toSend > 0 then
    (if s.toRecv > 0 then some { s with toSend := s.toSend - 1, toRecv := s.toRecv - 1 } else none)  -- blocked sender
  else if !s.closed then some { s with closed := true }
  else if s.toRecv > 0 then some { s with toRecv := s.toRecv - 1 }
  else none

/-- both goroutines have finished -/
def Chan.done (s : Chan) : Bool := s.toSend == 0 && s.closed && s.toRecv == 0

def Chan.run : Nat → Chan → Chan
  | 0, s => s
  | fuel + 1, s => match s.step with
    | some s' => Chan.run fuel s'
    | none => s

/-- if the consumer performs at least as many receives as the producer sends, every run ends with both
    goroutines finished (no deadlock, no leak) -/
theorem run_done (k j : Nat) (h : k ≤ j) : ∀ fuel, fuel ≥ k + j + 2 →
    (Chan.run fuel { toSend := k, closed := false, toRecv := j }).done = true := by
  induction k generalizing j with
  | zero =>
    intro fuel hf
    -- close, then j receives on the closed channel
    have hclosed : ∀ (j fuel : Nat), fuel ≥ j + 1 →
        (Chan.run fuel { toSend := 0, closed := true, toRecv := j }).done = true := by
      intro j
      induction j with
      | zero => intro fuel hf; cases fuel with
        | zero => omega
        | succ f => simp [Chan.run, Chan.step, Chan.done]
      | succ j ih =>
        intro fuel hf
        cases fuel with
        | zero => omega
        | succ f =>
          simp only [Chan.run, Chan.step]
          simp
          exact ih f (by omega)
    cases fuel with
    | zero => omega
    | succ f =>
      simp only [Chan.run, Chan.step]
      simp
      exact hclosed j f (by omega)
  | succ k ih =>
    intro fuel hf
    cases j with
    | zero => omega
    | succ j =>
      cases fuel with
      | zero => omega
      | succ f =>
        simp only [Chan.run, Chan.step]
        simp
        exact ih j (by omega) f (by omega)

/-- if the consumer returns after fewer receives than the producer sends, the producer goroutine stays blocked
    for ever (a goroutine leak): the run stops in a state that is not `done` -/
theorem run_leak (k j : Nat) (h : j < k) : ∀ fuel,
    (Chan.run fuel { toSend := k, closed := false, toRecv := j }).done = false := by
  induction j generalizing k with
  | zero =>
    intro fuel
    cases fuel with
    | zero => simp [Chan.run, Chan.done]
    | succ f =>
      have : k > 0 := h
      simp [Chan.run, Chan.step, this, Chan.done]
  | succ j ih =>
    intro fuel
    cases k with
    | zero => omega
    | succ k =>
      cases fuel with
      | zero => simp [Chan.run, Chan.done]
      | succ f =>
        simp only [Chan.run, Chan.step]
        simp
        exact ih k (by omega) f

end BV.Proofs.Purity
