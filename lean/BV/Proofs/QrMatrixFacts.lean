/-
  QR matrix layer, part 4: where the cells of each drawing procedure are and what colour they carry.
-/
import BV.Proofs.QrMatrixFn
namespace BV.Proofs.QrMatrix
open BV BV.Model BV.Model.Qr BV.Gen.Qr BV.Proofs.QrTables BV.Proofs.QrRender BV.Proofs.QrCoords

/-! ### finder patterns -/

/-- the three 8×8 corner squares (finder pattern + separator) -/
def inFinderP (dim X Y : Nat) : Prop := (X ≤ 7 ∧ Y ≤ 7) ∨ (X ≤ 7 ∧ dim ≤ Y + 8) ∨ (dim ≤ X + 8 ∧ Y ≤ 7)

/-- the finder cells are the cells of the three patterns -/
theorem mem_finderCells (dim : Nat) (c : Cell) :
    c ∈ finderCells dim ↔ c ∈ patCells dim 0 0 ∨ c ∈ patCells dim 0 ((dim : Int) - 7) ∨
      c ∈ patCells dim ((dim : Int) - 7) 0 := by
  unfold finderCells
  rw [List.mem_append, List.mem_append]

/-- the finder cells are the three corner squares -/
theorem hasCell_finder (dim : Nat) (hdim : 21 ≤ dim) (X Y : Nat) (hX : X < dim) (hY : Y < dim) :
    hasCell (finderCells dim) X Y ↔ inFinderP dim X Y := by
  unfold hasCell inFinderP
  constructor
  · rintro ⟨c, hc, rfl, rfl⟩
    rw [mem_finderCells, mem_patCells, mem_patCells, mem_patCells] at hc
    rcases hc with ⟨x, y, _, _, _, _, _, _, _, _, rfl⟩ | ⟨x, y, _, _, _, _, _, _, _, _, rfl⟩ |
      ⟨x, y, _, _, _, _, _, _, _, _, rfl⟩ <;> simp only <;> omega
  · intro h
    rcases h with ⟨h1, h2⟩ | ⟨h1, h2⟩ | ⟨h1, h2⟩
    · refine ⟨((((X : Int) + 0).toNat), (((Y : Int) + 0).toNat), finderVal X Y), ?_, by simp, by simp⟩
      rw [mem_finderCells, mem_patCells]
      exact Or.inl ⟨X, Y, by omega, by omega, by omega, by omega, by omega, by omega, by omega, by omega, rfl⟩
    · refine ⟨((((X : Int) + 0).toNat), ((((Y : Int) - ((dim : Int) - 7)) + ((dim : Int) - 7)).toNat),
        finderVal X ((Y : Int) - ((dim : Int) - 7))), ?_, by simp, by simp only; omega⟩
      rw [mem_finderCells, mem_patCells, mem_patCells]
      exact Or.inr (Or.inl ⟨X, (Y : Int) - ((dim : Int) - 7), by omega, by omega, by omega, by omega, by omega,
        by omega, by omega, by omega, rfl⟩)
    · refine ⟨(((((X : Int) - ((dim : Int) - 7)) + ((dim : Int) - 7)).toNat), (((Y : Int) + 0).toNat),
        finderVal ((X : Int) - ((dim : Int) - 7)) Y), ?_, by simp only; omega, by simp⟩
      rw [mem_finderCells, mem_patCells, mem_patCells, mem_patCells]
      exact Or.inr (Or.inr ⟨(X : Int) - ((dim : Int) - 7), Y, by omega, by omega, by omega, by omega, by omega,
        by omega, by omega, by omega, rfl⟩)

/-- colour of the finder cells: at offset (dx, dy) from the corner (ox, oy) of one of the three patterns -/
theorem finder_val (dim : Nat) (hdim : 21 ≤ dim) (ox oy : Nat)
    (hc : (ox = 0 ∧ oy = 0) ∨ (ox = dim - 7 ∧ oy = 0) ∨ (ox = 0 ∧ oy = dim - 7))
    (dx dy : Int) (h1 : -1 ≤ dx) (h2 : dx ≤ 7) (h3 : -1 ≤ dy) (h4 : dy ≤ 7)
    (h5 : 0 ≤ (ox : Int) + dx) (h6 : (ox : Int) + dx < dim) (h7 : 0 ≤ (oy : Int) + dy) (_h8 : (oy : Int) + dy < dim) :
    ∀ c ∈ finderCells dim, c.1 = ((ox : Int) + dx).toNat → c.2.1 = ((oy : Int) + dy).toNat →
      c.2.2 = finderVal dx dy := by
  intro c hcm e1 e2
  rw [mem_finderCells, mem_patCells, mem_patCells, mem_patCells] at hcm
  rcases hcm with ⟨x, y, _, _, _, _, _, _, _, _, rfl⟩ | ⟨x, y, _, _, _, _, _, _, _, _, rfl⟩ |
      ⟨x, y, _, _, _, _, _, _, _, _, rfl⟩ <;> simp only at e1 e2 ⊢ <;>
    (have hx : x = dx := by omega
     have hy : y = dy := by omega
     rw [hx, hy])

/-- occupied after the finder patterns: the three corner squares -/
theorem pixF_occ (dim : Nat) (hdim : 21 ≤ dim) (X Y : Nat) (hX : X < dim) (hY : Y < dim) :
    (pixF dim).occ X Y = true ↔ inFinderP dim X Y := by
  unfold pixF
  rw [applyAll_occ_eq, hasCell_finder dim hdim X Y hX hY]
  simp [Pix.blank]

/-! ### alignment patterns -/

/-- the version row, its centres and what the certificate says about them -/
structure Geo (vi : VersionInfo) : Prop where
  h1 : 1 ≤ vi.version
  h40 : vi.version ≤ 40
  lvl : vi.level ≤ 3
  hdim : vi.modulWidth = 17 + 4 * vi.version
  d21 : 21 ≤ vi.modulWidth
  hcs : Spec.Qr.alignmentCentres.lookup vi.version = some vi.alignmentPatternPlacements
  even : ∀ c ∈ vi.alignmentPatternPlacements, c % 2 = 0
  cls : ∀ c ∈ vi.alignmentPatternPlacements, c = 6 ∨ c = vi.modulWidth - 7 ∨ (18 ≤ c ∧ c + 23 ≤ vi.modulWidth)
  apart : ∀ a ∈ vi.alignmentPatternPlacements, ∀ b ∈ vi.alignmentPatternPlacements, a = b ∨ a + 5 ≤ b ∨ b + 5 ≤ a
  last : vi.alignmentPatternPlacements ≠ [] → vi.alignmentPatternPlacements.getLastD 0 = vi.modulWidth - 7

/-- version 1 has no alignment pattern -/
theorem alignOfVersion_one : alignOfVersion 1 = [] := by decide

/-- every row of the version table satisfies `Geo` (certificate `centreGeo_cert`) -/
theorem geo_of_mem {vi : VersionInfo} (hmem : vi ∈ versionInfos) : Geo vi := by
  obtain ⟨h1, h40, hl3⟩ := mem_versionInfos_range hmem
  have hdim := modulWidth_eq vi h1
  obtain ⟨cf1, cf2, _, cf4⟩ := centreGeo_facts vi.version h1 h40
  rw [← alignmentPatternPlacements_eq] at cf1 cf2 cf4
  refine ⟨h1, h40, hl3, hdim, by omega, alignment_eq_annexE vi h1 h40, fun c hc => (cf1 c hc).1, ?_, cf2, ?_⟩
  · intro c hc; rw [hdim]; exact (cf1 c hc).2
  · intro hne
    rw [cf4, hdim]
    by_cases hv : vi.version = 1
    · exfalso; apply hne; rw [alignmentPatternPlacements_eq, hv]; exact alignOfVersion_one
    · rw [if_neg hv]

/-- the alignment patterns that are drawn are those of the reference decoder: all pairs of centres except the
    three that collide with a finder pattern -/
theorem drawn_aligns {vi : VersionInfo} (g : Geo vi) :
    (centrePairs vi.alignmentPatternPlacements).filter (fun p => !(pixF vi.modulWidth).occ p.1 p.2) =
      Spec.Qr.alignmentPositions vi.alignmentPatternPlacements := by
  rw [alignmentPositions_eq]
  show List.filter _ (centrePairs vi.alignmentPatternPlacements) = List.filter _ (centrePairs vi.alignmentPatternPlacements)
  apply List.filter_congr
  intro p hp
  rw [mem_centrePairs] at hp
  have hne : vi.alignmentPatternPlacements ≠ [] := by
    intro e; rw [e] at hp; cases hp.1
  have hd : 21 ≤ vi.modulWidth := by rw [g.hdim]; have := g.h1; omega
  have c1 := g.cls p.1 hp.1
  have c2 := g.cls p.2 hp.2
  rw [g.last hne]
  congr 1
  rw [Bool.eq_iff_iff, pixF_occ _ hd _ _ (by omega) (by omega)]
  simp only [Bool.or_eq_true, Bool.and_eq_true, beq_iff_eq]
  unfold inFinderP
  omega

/-- the cells of the alignment patterns, in terms of the reference decoder's list of centres -/
theorem alignCells_eq {vi : VersionInfo} (g : Geo vi) :
    alignCells vi.modulWidth vi.alignmentPatternPlacements =
      (Spec.Qr.alignmentPositions vi.alignmentPatternPlacements).flatMap sqCells := by
  unfold alignCells; rw [drawn_aligns g]

/-- what the certificate says about a centre pair of the reference decoder's list -/
theorem aligns_geo {vi : VersionInfo} (g : Geo vi) (p : Nat × Nat)
    (hp : p ∈ Spec.Qr.alignmentPositions vi.alignmentPatternPlacements) :
    p.1 ∈ vi.alignmentPatternPlacements ∧ p.2 ∈ vi.alignmentPatternPlacements ∧
    p.1 % 2 = 0 ∧ p.2 % 2 = 0 ∧
    (p.1 = 6 ∨ p.1 = vi.modulWidth - 7 ∨ (18 ≤ p.1 ∧ p.1 + 23 ≤ vi.modulWidth)) ∧
    (p.2 = 6 ∨ p.2 = vi.modulWidth - 7 ∨ (18 ≤ p.2 ∧ p.2 + 23 ≤ vi.modulWidth)) ∧
    ¬ (p.1 = 6 ∧ p.2 = 6) ∧ ¬ (p.1 = 6 ∧ p.2 = vi.modulWidth - 7) ∧ ¬ (p.1 = vi.modulWidth - 7 ∧ p.2 = 6) ∧
    21 ≤ vi.modulWidth := by
  rw [mem_alignmentPositions] at hp
  obtain ⟨m1, m2, hn⟩ := hp
  have hne : vi.alignmentPatternPlacements ≠ [] := by
    intro e; rw [e] at m1; cases m1
  rw [g.last hne] at hn
  refine ⟨m1, m2, g.even _ m1, g.even _ m2, g.cls _ m1, g.cls _ m2, ?_, ?_, ?_, g.d21⟩ <;>
    (intro h; apply hn; simp [h])

/-- "(X, Y) lies in the 5×5 square of a drawn alignment pattern" -/
def alignP (vi : VersionInfo) (X Y : Nat) : Prop :=
  ∃ p ∈ Spec.Qr.alignmentPositions vi.alignmentPatternPlacements,
    (p.1 ≤ X + 2 ∧ X ≤ p.1 + 2) ∧ (p.2 ≤ Y + 2 ∧ Y ≤ p.2 + 2)

/-- `alignAt` as a proposition -/
theorem alignAt_iff (vi : VersionInfo) (X Y : Nat) :
    alignAt (Spec.Qr.alignmentPositions vi.alignmentPatternPlacements) X Y = true ↔ alignP vi X Y := by
  unfold alignAt alignP inSq
  simp only [List.any_eq_true, Bool.and_eq_true, decide_eq_true_eq]

/-- the alignment cells are the 5×5 squares of the drawn centres -/
theorem hasCell_align {vi : VersionInfo} (g : Geo vi) (X Y : Nat) :
    hasCell (alignCells vi.modulWidth vi.alignmentPatternPlacements) X Y ↔ alignP vi X Y := by
  rw [alignCells_eq g]
  unfold alignP
  constructor
  · rintro ⟨c, hc, e⟩
    obtain ⟨p, hp, hcp⟩ := List.mem_flatMap.mp hc
    have gp := aligns_geo g p hp
    exact ⟨p, hp, (hasCell_sqCells p (by omega) (by omega) X Y).mp ⟨c, hcp, e⟩⟩
  · rintro ⟨p, hp, h⟩
    have gp := aligns_geo g p hp
    obtain ⟨c, hc, e⟩ := (hasCell_sqCells p (by omega) (by omega) X Y).mpr h
    exact ⟨c, List.mem_flatMap.mpr ⟨p, hp, hc⟩, e⟩

/-- colour of the alignment cells: at offset (a, b) from the centre `p` -/
theorem align_val {vi : VersionInfo} (g : Geo vi) (p : Nat × Nat)
    (hp : p ∈ Spec.Qr.alignmentPositions vi.alignmentPatternPlacements)
    (a b : Int) (h1 : -2 ≤ a) (h2 : a ≤ 2) (h3 : -2 ≤ b) (h4 : b ≤ 2) :
    ∀ c ∈ alignCells vi.modulWidth vi.alignmentPatternPlacements,
      c.1 = ((p.1 : Int) + a).toNat → c.2.1 = ((p.2 : Int) + b).toNat → c.2.2 = alignVal a b := by
  intro c hc e1 e2
  rw [alignCells_eq g] at hc
  obtain ⟨q, hq, hcq⟩ := List.mem_flatMap.mp hc
  have gp := aligns_geo g p hp
  have gq := aligns_geo g q hq
  obtain ⟨x, y, a1, a2, a3, a4, rfl⟩ := (mem_sqCells q c).mp hcq
  simp only at e1 e2 ⊢
  have hx := g.apart _ gp.1 _ gq.1
  have hy := g.apart _ gp.2.1 _ gq.2.1
  have : x = a := by omega
  have : y = b := by omega
  subst_vars
  rfl

/-- occupied after finder and alignment patterns -/
theorem pixA_occ {vi : VersionInfo} (g : Geo vi) (X Y : Nat) (hX : X < vi.modulWidth) (hY : Y < vi.modulWidth) :
    (pixA vi.modulWidth vi.alignmentPatternPlacements).occ X Y = true ↔ inFinderP vi.modulWidth X Y ∨ alignP vi X Y := by
  have hd : 21 ≤ vi.modulWidth := by rw [g.hdim]; have := g.h1; omega
  unfold pixA
  rw [applyAll_occ_eq, pixF_occ _ hd X Y hX hY, hasCell_align g]

/-! ### timing patterns -/

theorem mem_timingCells (dim : Nat) (c : Cell) :
    c ∈ timingCells dim ↔ ∃ i, i < dim ∧ (c = (i, 6, i % 2 == 0) ∨ c = (6, i, i % 2 == 0)) := by
  unfold timingCells
  rw [List.mem_flatMap]
  constructor
  · rintro ⟨i, hi, hc⟩
    simp only [List.mem_cons, List.not_mem_nil, or_false] at hc
    exact ⟨i, List.mem_range.mp hi, hc⟩
  · rintro ⟨i, hi, hc⟩
    exact ⟨i, List.mem_range.mpr hi, by simp only [List.mem_cons, List.not_mem_nil, or_false]; exact hc⟩

/-- the timing cells that are drawn: row 6 and column 6 outside finder and alignment patterns -/
theorem hasCell_timing {vi : VersionInfo} (g : Geo vi) (X Y : Nat) (hX : X < vi.modulWidth) (hY : Y < vi.modulWidth) :
    hasCell (timingFree vi.modulWidth vi.alignmentPatternPlacements) X Y ↔
      (X = 6 ∨ Y = 6) ∧ ¬ (inFinderP vi.modulWidth X Y ∨ alignP vi X Y) := by
  unfold hasCell timingFree
  constructor
  · rintro ⟨c, hc, rfl, rfl⟩
    rw [List.mem_filter, mem_timingCells] at hc
    obtain ⟨⟨i, hi, hci⟩, hocc⟩ := hc
    rw [← pixA_occ g _ _ hX hY]
    simp only [Bool.not_eq_true', ] at hocc
    refine ⟨?_, by rw [hocc]; simp⟩
    rcases hci with rfl | rfl
    · right; rfl
    · left; rfl
  · rintro ⟨h6, hn⟩
    rw [← pixA_occ g _ _ hX hY] at hn
    rcases h6 with rfl | rfl
    · refine ⟨(6, Y, Y % 2 == 0), ?_, rfl, rfl⟩
      rw [List.mem_filter, mem_timingCells]
      exact ⟨⟨Y, hY, Or.inr rfl⟩, by simpa using hn⟩
    · refine ⟨(X, 6, X % 2 == 0), ?_, rfl, rfl⟩
      rw [List.mem_filter, mem_timingCells]
      exact ⟨⟨X, hX, Or.inl rfl⟩, by simpa using hn⟩

/-- colour of the timing cells: dark on even positions (the other coordinate is 6) -/
theorem timing_val (dim : Nat) (cs : List Nat) (X Y : Nat) :
    ∀ c ∈ timingFree dim cs, c.1 = X → c.2.1 = Y → c.2.2 = ((X + Y) % 2 == 0) := by
  intro c hc e1 e2
  unfold timingFree at hc
  rw [List.mem_filter, mem_timingCells] at hc
  obtain ⟨⟨i, _, hci⟩, _⟩ := hc
  rcases hci with rfl | rfl
  · simp only at e1 e2 ⊢
    subst e1; subst e2
    have : (i + 6) % 2 = i % 2 := by omega
    rw [this]
  · simp only at e1 e2 ⊢
    subst e1; subst e2
    have : (6 + i) % 2 = i % 2 := by omega
    rw [this]

/-! ### version information -/

/-- the two version areas -/
def verRegionP (dim X Y : Nat) : Prop :=
  (dim ≤ X + 11 ∧ X + 9 ≤ dim ∧ Y ≤ 5) ∨ (X ≤ 5 ∧ dim ≤ Y + 11 ∧ Y + 9 ≤ dim)

/-- index (0 = least significant) of the version bit at a module of the version areas -/
def verIdx (dim X Y : Nat) : Nat := if dim ≤ X + 11 then 3 * Y + (X + 11 - dim) else 3 * X + (Y + 11 - dim)

/-- no version cells below version 7 -/
theorem versionCells_low (vi : VersionInfo) (h : vi.version < 7) : versionCells vi = [] := by
  unfold versionCells
  rw [versionInfoBits_none _ (Or.inl h)]

/-- the version cells: bit `i` at the two places -/
theorem mem_versionCells (vi : VersionInfo) (bits : List Bool)
    (hb : mapGet v_versionInfoBitsByVersion (vi.version : Int) = some bits) (hl : bits.length = 18) (c : Cell) :
    c ∈ versionCells vi ↔ ∃ i, i < 18 ∧
      (c = ((vi.modulWidth - 11) + i % 3, i / 3, bits.getD (17 - i) false) ∨
       c = (i / 3, (vi.modulWidth - 11) + i % 3, bits.getD (17 - i) false)) := by
  unfold versionCells
  rw [hb]
  simp only
  rw [List.mem_flatMap, hl]
  constructor
  · rintro ⟨i, hi, hc⟩
    simp only [List.mem_cons, List.not_mem_nil, or_false] at hc
    have : 18 - i - 1 = 17 - i := by omega
    rw [this] at hc
    exact ⟨i, List.mem_range.mp hi, hc⟩
  · rintro ⟨i, hi, hc⟩
    refine ⟨i, List.mem_range.mpr hi, ?_⟩
    simp only [List.mem_cons, List.not_mem_nil, or_false]
    have : 18 - i - 1 = 17 - i := by omega
    rw [this]
    exact hc

/-- the version cells are the two version areas -/
theorem hasCell_version (vi : VersionInfo) (hd : 21 ≤ vi.modulWidth) (bits : List Bool)
    (hb : mapGet v_versionInfoBitsByVersion (vi.version : Int) = some bits) (hl : bits.length = 18) (X Y : Nat) :
    hasCell (versionCells vi) X Y ↔ verRegionP vi.modulWidth X Y := by
  unfold hasCell verRegionP
  constructor
  · rintro ⟨c, hc, rfl, rfl⟩
    rw [mem_versionCells vi bits hb hl] at hc
    obtain ⟨i, hi, rfl | rfl⟩ := hc <;> simp only <;> omega
  · intro h
    rcases h with ⟨h1, h2, h3⟩ | ⟨h1, h2, h3⟩
    · refine ⟨_, (mem_versionCells vi bits hb hl _).mpr ⟨3 * Y + (X + 11 - vi.modulWidth), by omega, Or.inl rfl⟩,
        ?_, ?_⟩ <;> simp only <;> omega
    · refine ⟨_, (mem_versionCells vi bits hb hl _).mpr ⟨3 * X + (Y + 11 - vi.modulWidth), by omega, Or.inr rfl⟩,
        ?_, ?_⟩ <;> simp only <;> omega

/-- colour of the version cells: the bit with the index of the module -/
theorem version_val (vi : VersionInfo) (hd : 21 ≤ vi.modulWidth) (bits : List Bool)
    (hb : mapGet v_versionInfoBitsByVersion (vi.version : Int) = some bits) (hl : bits.length = 18) :
    ∀ c ∈ versionCells vi, c.2.2 = bits.getD (17 - verIdx vi.modulWidth c.1 c.2.1) false := by
  intro c hc
  rw [mem_versionCells vi bits hb hl] at hc
  obtain ⟨i, hi, rfl | rfl⟩ := hc
  · simp only
    have : verIdx vi.modulWidth (vi.modulWidth - 11 + i % 3) (i / 3) = i := by
      unfold verIdx; rw [if_pos (by omega)]; omega
    rw [this]
  · simp only
    have : verIdx vi.modulWidth (i / 3) (vi.modulWidth - 11 + i % 3) = i := by
      unfold verIdx; rw [if_neg (by omega)]; omega
    rw [this]

/-- the reference decoder reads bit `i` of the first version copy at a module with index `i` -/
theorem verIdx_posA (dim i : Nat) (hd : 21 ≤ dim) (hi : i < 18) :
    verIdx dim (Spec.Qr.versionPosA dim i).1 (Spec.Qr.versionPosA dim i).2 = i ∧
    verRegionP dim (Spec.Qr.versionPosA dim i).1 (Spec.Qr.versionPosA dim i).2 := by
  unfold verIdx Spec.Qr.versionPosA verRegionP
  simp only
  constructor
  · rw [if_pos (by omega)]; omega
  · omega

/-- the reference decoder reads bit `i` of the second version copy at a module with index `i` -/
theorem verIdx_posB (dim i : Nat) (hd : 21 ≤ dim) (hi : i < 18) :
    verIdx dim (Spec.Qr.versionPosB dim i).1 (Spec.Qr.versionPosB dim i).2 = i ∧
    verRegionP dim (Spec.Qr.versionPosB dim i).1 (Spec.Qr.versionPosB dim i).2 := by
  unfold verIdx Spec.Qr.versionPosB verRegionP
  simp only
  constructor
  · rw [if_neg (by omega)]; omega
  · omega

/-! ### format information -/

/-- the format areas: row 8 and column 8 next to the finder patterns, without the timing modules and the dark
    module -/
def fmtRegionP (dim X Y : Nat) : Prop :=
  (Y = 8 ∧ (X ≤ 5 ∨ X = 7 ∨ X = 8 ∨ dim ≤ X + 8)) ∨ (X = 8 ∧ (Y ≤ 5 ∨ Y = 7 ∨ dim ≤ Y + 7))

/-- list index (0 = most significant bit) of the format bit at a module of the format areas -/
def fmtIdx (dim X Y : Nat) : Nat :=
  if Y = 8 then (if X ≤ 5 then X else if X = 7 then 6 else if X = 8 then 7 else X + 15 - dim)
  else (if Y ≤ 5 then 14 - Y else if Y = 7 then 8 else dim - 1 - Y)

/-- the format cells are the format areas -/
theorem hasCell_fmt (dim : Nat) (hd : 21 ≤ dim) (fi : List Bool) (X Y : Nat) (hX : X < dim) (hY : Y < dim) :
    hasCell (fmtCells dim fi) X Y ↔ fmtRegionP dim X Y := by
  have hh : hasCell (fmtCells dim fi) X Y ↔ ∃ c ∈ formatCells dim, c.1 = X ∧ c.2.1 = Y := by
    unfold hasCell fmtCells
    constructor
    · rintro ⟨c, hc, e⟩
      obtain ⟨c', hc', rfl⟩ := List.mem_map.mp hc
      exact ⟨c', hc', e⟩
    · rintro ⟨c, hc, e⟩
      exact ⟨_, List.mem_map.mpr ⟨c, hc, rfl⟩, e⟩
  rw [hh]
  clear hh
  unfold formatCells fmtRegionP
  simp only [List.mem_cons, List.not_mem_nil, or_false, exists_eq_or_imp, exists_eq_left]
  constructor
  · intro h
    rcases h with h | h | h | h | h | h | h | h | h | h | h | h | h | h | h |
      h | h | h | h | h | h | h | h | h | h | h | h | h | h | h <;> omega
  · intro h
    rcases h with ⟨rfl, h⟩ | ⟨rfl, h⟩
    · have : X = 0 ∨ X = 1 ∨ X = 2 ∨ X = 3 ∨ X = 4 ∨ X = 5 ∨ X = 7 ∨ X = 8 ∨ X = dim - 8 ∨ X = dim - 7 ∨
          X = dim - 6 ∨ X = dim - 5 ∨ X = dim - 4 ∨ X = dim - 3 ∨ X = dim - 2 ∨ X = dim - 1 := by omega
      rcases this with rfl | rfl | rfl | rfl | rfl | rfl | rfl | rfl | rfl | rfl | rfl | rfl | rfl | rfl | rfl | rfl
        <;> simp
    · have : Y = 0 ∨ Y = 1 ∨ Y = 2 ∨ Y = 3 ∨ Y = 4 ∨ Y = 5 ∨ Y = 7 ∨ Y = dim - 7 ∨
          Y = dim - 6 ∨ Y = dim - 5 ∨ Y = dim - 4 ∨ Y = dim - 3 ∨ Y = dim - 2 ∨ Y = dim - 1 := by omega
      rcases this with rfl | rfl | rfl | rfl | rfl | rfl | rfl | rfl | rfl | rfl | rfl | rfl | rfl | rfl
        <;> simp

/-- colour of the format cells: the bit with the index of the module -/
theorem fmt_val (dim : Nat) (hd : 21 ≤ dim) (fi : List Bool) :
    ∀ c ∈ fmtCells dim fi, c.2.2 = fi.getD (fmtIdx dim c.1 c.2.1) false := by
  intro c hc
  unfold fmtCells formatCells at hc
  simp only [List.map_cons, List.map_nil, List.mem_cons, List.not_mem_nil, or_false] at hc
  rcases hc with rfl | rfl | rfl | rfl | rfl | rfl | rfl | rfl | rfl | rfl | rfl | rfl | rfl | rfl | rfl |
    rfl | rfl | rfl | rfl | rfl | rfl | rfl | rfl | rfl | rfl | rfl | rfl | rfl | rfl | rfl
  all_goals (dsimp only; congr 1 <;> (unfold fmtIdx; repeat' split))
  all_goals omega

/-- the reference decoder reads bit `i` of the first format copy at the module with list index `14 - i` -/
theorem fmtIdx_posA (dim i : Nat) (hd : 21 ≤ dim) (hi : i < 15) :
    fmtIdx dim (Spec.Qr.formatPosA i).1 (Spec.Qr.formatPosA i).2 = 14 - i ∧
    fmtRegionP dim (Spec.Qr.formatPosA i).1 (Spec.Qr.formatPosA i).2 ∧
    (Spec.Qr.formatPosA i).1 < dim ∧ (Spec.Qr.formatPosA i).2 < dim := by
  unfold Spec.Qr.formatPosA
  simp only [beq_iff_eq]
  (repeat' split) <;> dsimp only <;> unfold fmtIdx fmtRegionP <;> refine ⟨?_, by omega, by omega, by omega⟩ <;>
    (repeat' split) <;> omega

/-- the reference decoder reads bit `i` of the second format copy at the module with list index `14 - i` -/
theorem fmtIdx_posB (dim i : Nat) (hd : 21 ≤ dim) (hi : i < 15) :
    fmtIdx dim (Spec.Qr.formatPosB dim i).1 (Spec.Qr.formatPosB dim i).2 = 14 - i ∧
    fmtRegionP dim (Spec.Qr.formatPosB dim i).1 (Spec.Qr.formatPosB dim i).2 ∧
    (Spec.Qr.formatPosB dim i).1 < dim ∧ (Spec.Qr.formatPosB dim i).2 < dim := by
  unfold Spec.Qr.formatPosB
  (repeat' split) <;> dsimp only <;> unfold fmtIdx fmtRegionP <;> refine ⟨?_, by omega, by omega, by omega⟩ <;>
    (repeat' split) <;> omega

end BV.Proofs.QrMatrix
