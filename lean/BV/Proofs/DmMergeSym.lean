/-
  Symbolic `Merge` for the DataMatrix proofs (C02, item 7).

  `mergeSym s` runs the loops of `CodeLayout.merge` for the table row `s`, but instead of bits it records for
  every write the *source* of the written value: `1` = the constant `true` (finder / clock modules),
  `j + 2` = cell `j` of the mapping matrix.  It answers `none` if any index leaves the image or the matrix.
  `certOk` then checks (linearly) that this log is exactly the picture the reference expects.
-/
import BV.Model.Datamatrix
import BV.Spec.Datamatrix
namespace BV.Proofs.DmMergeSym
open BV BV.Model.Datamatrix BV.Spec.Datamatrix

abbrev MLog := List (Nat × Nat)

/-- `result.set(x, y, src)` on the bit index `x*Rows + y` -/
def symSet (n : Nat) (rows : Int) (log : MLog) (x y : Int) (src : Nat) : Option MLog :=
  match x * rows + y with
  | .ofNat i => if i < n then some ((i, src) :: log) else none
  | .negSucc _ => none

def symLines (n : Nat) (rows : Int) (log : MLog) (swap : Bool) (outer inner : List Int) : Option MLog :=
  outer.foldlM (fun log o =>
    inner.foldlM (fun log i => if swap then symSet n rows log o i 1 else symSet n rows log i o 1) log) log

/-- reading `l.matrix` at a linear index: the source `j + 2` -/
def symGet (nm : Nat) (idx : Int) : Option Nat :=
  match idx with
  | .ofNat j => if j < nm then some (j + 2) else none
  | .negSucc _ => none

def mergeSym (s : CodeSize) : Option MLog :=
  let rr := s.regionRows
  let rc := s.regionColumns
  let n := (s.rows * s.columns).toNat
  let nm := (s.matrixColumns * s.matrixRows).toNat
  match symLines n s.rows [] false (strideList 0 s.rows (rr + 2)) (strideList 0 s.columns 2) with
  | none => none
  | some log =>
  match symLines n s.rows log false (strideList (rr + 1) s.rows (rr + 2)) (strideList 0 s.columns 1) with
  | none => none
  | some log =>
  match symLines n s.rows log true (strideList (rc + 1) s.columns (rc + 2)) (strideList 1 s.rows 2) with
  | none => none
  | some log =>
  match symLines n s.rows log true (strideList 0 s.columns (rc + 2)) (strideList 0 s.rows 1) with
  | none => none
  | some log =>
  (strideList 0 s.regionCountHorizontal 1).foldlM (fun log hRegion =>
    (strideList 0 s.regionCountVertical 1).foldlM (fun log vRegion =>
      (strideList 0 rc 1).foldlM (fun log x =>
        let colMatrix := rc * hRegion + x
        let colResult := (2 + rc) * hRegion + x + 1
        (strideList 0 rr 1).foldlM (fun (log : MLog) y =>
          let rowMatrix := rr * vRegion + y
          let rowResult := (2 + rr) * vRegion + y + 1
          match symGet nm (colMatrix + rowMatrix * s.matrixColumns) with
          | none => none
          | some src => symSet n s.rows log colResult rowResult src) log) log) log) log

/-! ### the picture the reference expects -/

/-- expected source of image bit `idx = x*size + y` for the symbol `a`: 1 = dark frame module, 0 = light frame
    module, `2 + (col + row*mapping)` = mapping-matrix module (row, col) -/
def specSrc (a : Attr) (idx : Nat) : Nat :=
  let x := idx / a.size
  let y := idx % a.size
  let bs := a.regionSize + 2
  let xr := x % bs
  let yr := y % bs
  if xr = 0 then 1
  else if yr = bs - 1 then 1
  else if yr = 0 then (if xr % 2 = 0 then 1 else 0)
  else if xr = bs - 1 then (if yr % 2 = 1 then 1 else 0)
  else 2 + (((x / bs) * a.regionSize + xr - 1) + ((y / bs) * a.regionSize + yr - 1) * a.mapping)

/-- mask of the written bits -/
def maskOf : MLog → Nat → Nat
  | [], m => m
  | (i, _) :: rest, m => maskOf rest (m ||| (1 <<< i))

/-- the finder conditions of `Spec.finderOk`, on the expected picture -/
def frameCert (a : Attr) : Bool :=
  let bs := a.regionSize + 2
  (List.range a.regionsPerSide).all (fun ry =>
    (List.range a.regionsPerSide).all (fun rx =>
      (List.range bs).all (fun k =>
        let ox := rx * bs
        let oy := ry * bs
        decide (ox + bs - 1 < a.size ∧ oy + bs - 1 < a.size) &&
        specSrc a (ox * a.size + (oy + k)) == 1 &&
        specSrc a ((ox + k) * a.size + (oy + bs - 1)) == 1 &&
        specSrc a ((ox + k) * a.size + oy) == (if k % 2 == 0 then 1 else 0) &&
        specSrc a ((ox + bs - 1) * a.size + (oy + k)) == (if k % 2 == 1 then 1 else 0))))

/-- `Spec.mappingModule` on the expected picture returns the module (row, col) of the mapping matrix -/
def mapCert (a : Attr) : Bool :=
  let rs := a.regionSize
  (List.range a.mapping).all (fun row =>
    (List.range a.mapping).all (fun col =>
      let x := (col / rs) * (rs + 2) + 1 + col % rs
      let y := (row / rs) * (rs + 2) + 1 + row % rs
      decide (x < a.size ∧ y < a.size) && specSrc a (x * a.size + y) == 2 + (col + row * a.mapping)))

/-- the whole certificate for one size: the symbolic merge succeeds, every write agrees with the expected
    picture, every bit never written is an expected light frame module, and the expected picture satisfies the
    finder and mapping conditions of the reference -/
def certOk (s : CodeSize) (a : Attr) : Bool :=
  match mergeSym s with
  | none => false
  | some log =>
    log.all (fun p => p.2 == specSrc a p.1) &&
    (let m := maskOf log 0
     (List.range (a.size * a.size)).all (fun i => m.testBit i || specSrc a i == 0)) &&
    frameCert a && mapCert a

end BV.Proofs.DmMergeSym
