/-
  BV.Proofs.PdfFrame — row frame of a PDF417 symbol (C04): row indicators, start/stop words, and the
  symbol-character tables (certificates by kernel evaluation over the 3 × 929 entries).
-/
import BV.Model.Pdf417
import BV.Spec.Pdf417
namespace BV.Proofs.PdfFrame
open BV BV.Model.Pdf417 BV.Gen.Pdf417 BV.Spec.Pdf417
set_option maxRecDepth 100000

/-! ### row indicators -/

/-- `getLeftCodeWord` is the ISO/IEC 15438 left row indicator, for all arguments -/
theorem left_eq (r rows cols level : Nat) :
    getLeftCodeWord r rows cols level = leftIndicator r rows cols level := by
  unfold getLeftCodeWord leftIndicator indRows indLevel indCols
  have h : r % 3 = 0 ∨ r % 3 = 1 ∨ r % 3 = 2 := by omega
  rcases h with h | h | h <;> simp [h, Nat.mul_comm]

/-- `getRightCodeWord` is the ISO/IEC 15438 right row indicator, for all arguments -/
theorem right_eq (r rows cols level : Nat) :
    getRightCodeWord r rows cols level = rightIndicator r rows cols level := by
  unfold getRightCodeWord rightIndicator indRows indLevel indCols
  have h : r % 3 = 0 ∨ r % 3 = 1 ∨ r % 3 = 2 := by omega
  rcases h with h | h | h <;> simp [h, Nat.mul_comm]

/-- within the limits of the encoder every indicator is a codeword value (< 929; in fact < 300) -/
theorem indicators_lt (r rows cols level : Nat) (hr : r < rows) (hrows : rows ≤ 30) (hcols : 1 ≤ cols ∧ cols ≤ 30)
    (hl : level ≤ 8) :
    getLeftCodeWord r rows cols level < 929 ∧ getRightCodeWord r rows cols level < 929 := by
  unfold getLeftCodeWord getRightCodeWord
  simp only []
  constructor <;> (repeat' split) <;> omega

/-- the indicators of rows 0 and 1 let the decoder recover rows, columns and level (what `Spec.decode`
    reads: `a = left₀ mod 30`, `b = left₁ mod 30`, `c = right₀ mod 30`) -/
theorem indicators_declare (rows cols level : Nat) (hrows : 1 ≤ rows ∧ rows ≤ 90) (hcols : 1 ≤ cols ∧ cols ≤ 30)
    (hl : level ≤ 8) :
    3 * (getLeftCodeWord 0 rows cols level % 30) + getLeftCodeWord 1 rows cols level % 30 % 3 + 1 = rows ∧
    getRightCodeWord 0 rows cols level % 30 + 1 = cols ∧
    getLeftCodeWord 1 rows cols level % 30 / 3 = level := by
  unfold getLeftCodeWord getRightCodeWord
  simp
  omega

/-! ### start and stop -/

/-- the start word is the 17-module pattern 81111113 -/
theorem start_word : msbBits c_start_word 17 = startPattern := by decide

/-- the stop word is the 18-module pattern 711311121 -/
theorem stop_word : msbBits c_stop_word 18 = stopPattern := by decide

/-! ### symbol character tables -/

/-- certificate: the three generated tables (17-module values) are the frozen ISO snapshot (bar/space
    width notation) entry by entry -/
theorem tables_eq_snapshot :
    v_codewords.map (fun t => t.map Int.toNat) =
      [cluster0.map entryModules, cluster3.map entryModules, cluster6.map entryModules] := by
  decide +kernel

/-- per entry: 4 bars and 4 spaces of 1..6 modules, 17 modules in total, cluster number `k`; the 17-module
    value starts with a bar, reading its run lengths gives the widths back, the widths spell the entry -/
def entryOk (k n : Nat) : Bool :=
  let ws := entryWidths n
  let bits := msbBits (entryModules n) 17
  ws.length == 8 && ws.all (fun w => 1 ≤ w && w ≤ 6) && ws.foldl (· + ·) 0 == 17 && clusterNumber ws == k &&
  bits.head? == some true && runLengths bits == ws && widthsNumber ws == n && entryModules n < 2 ^ 17

/-- certificate over the 929 entries of cluster 0 -/
theorem cluster0_ok : cluster0.length = 929 ∧ cluster0.all (entryOk 0) = true := by decide +kernel
/-- certificate over the 929 entries of cluster 3 -/
theorem cluster3_ok : cluster3.length = 929 ∧ cluster3.all (entryOk 3) = true := by decide +kernel
/-- certificate over the 929 entries of cluster 6 -/
theorem cluster6_ok : cluster6.length = 929 ∧ cluster6.all (entryOk 6) = true := by decide +kernel

/-- O(n) duplicate check with a `Nat` bitmask (kernel friendly) -/
def nodupMask : List Nat → Nat → Bool
  | [], _ => true
  | x :: xs, seen => !seen.testBit x && nodupMask xs (seen ||| (1 <<< x))

theorem testBit_or_one_shl (seen x y : Nat) :
    (seen ||| (1 <<< x)).testBit y = (seen.testBit y || decide (x = y)) := by
  rw [Nat.testBit_or, Nat.one_shiftLeft, Nat.testBit_two_pow]

theorem nodupMask_sound : ∀ (l : List Nat) (seen : Nat), nodupMask l seen = true →
    l.Nodup ∧ ∀ x ∈ l, seen.testBit x = false
  | [], _, _ => by simp
  | x :: xs, seen, h => by
    simp only [nodupMask, Bool.and_eq_true, Bool.not_eq_true'] at h
    obtain ⟨hx, hrest⟩ := h
    obtain ⟨hnd, hseen⟩ := nodupMask_sound xs _ hrest
    refine ⟨?_, ?_⟩
    · rw [List.nodup_cons]
      refine ⟨?_, hnd⟩
      intro hmem
      have := hseen x hmem
      rw [testBit_or_one_shl] at this
      simp at this
    · intro y hy
      rcases List.mem_cons.mp hy with rfl | hy
      · exact hx
      · have := hseen y hy
        rw [testBit_or_one_shl] at this
        simp at this
        exact this.1

/-- certificate: within each cluster no 17-module value occurs twice -/
theorem modules_nodup :
    (cluster0.map entryModules).Nodup ∧ (cluster3.map entryModules).Nodup ∧ (cluster6.map entryModules).Nodup :=
  ⟨(nodupMask_sound _ 0 (by decide +kernel)).1, (nodupMask_sound _ 0 (by decide +kernel)).1,
   (nodupMask_sound _ 0 (by decide +kernel)).1⟩

theorem nodup_of_map {α β} (f : α → β) : ∀ (l : List α), (l.map f).Nodup → l.Nodup
  | [], _ => List.nodup_nil
  | a :: l, h => by
    rw [List.map_cons, List.nodup_cons] at h
    rw [List.nodup_cons]
    exact ⟨fun hm => h.1 (List.mem_map_of_mem hm), nodup_of_map f l h.2⟩

/-- hence no pattern occurs twice within a cluster of the snapshot -/
theorem clusters_nodup : cluster0.Nodup ∧ cluster3.Nodup ∧ cluster6.Nodup :=
  ⟨nodup_of_map _ _ modules_nodup.1, nodup_of_map _ _ modules_nodup.2.1, nodup_of_map _ _ modules_nodup.2.2⟩

/-- the snapshot table of cluster index `ci` (= row mod 3) -/
def clusterList (ci : Nat) : List Nat :=
  match ci with
  | 0 => cluster0
  | 1 => cluster3
  | _ => cluster6

theorem clusterList_spec (ci : Nat) (hci : ci < 3) :
    (clusterList ci).length = 929 ∧ (clusterList ci).all (entryOk (3 * ci)) = true ∧ (clusterList ci).Nodup ∧
    clusterTables.getD ci #[] = (clusterList ci).toArray := by
  have h : ci = 0 ∨ ci = 1 ∨ ci = 2 := by omega
  rcases h with rfl | rfl | rfl
  · exact ⟨cluster0_ok.1, cluster0_ok.2, clusters_nodup.1, rfl⟩
  · exact ⟨cluster3_ok.1, cluster3_ok.2, clusters_nodup.2.1, rfl⟩
  · exact ⟨cluster6_ok.1, cluster6_ok.2, clusters_nodup.2.2, rfl⟩

/-- `getCodeword` never panics for a cluster index < 3 and a codeword < 929, and returns the 17-module
    value of the snapshot entry -/
theorem getCodeword_ok (ci w : Nat) (hci : ci < 3) (hw : w < 929) :
    ∃ hlt : w < (clusterList ci).length, getCodeword ci w = .ok (entryModules ((clusterList ci)[w])) := by
  have hlen := (clusterList_spec ci hci).1
  refine ⟨by omega, ?_⟩
  have htab : codewordTable =
      #[(cluster0.map entryModules).toArray, (cluster3.map entryModules).toArray,
        (cluster6.map entryModules).toArray] := by
    unfold codewordTable
    have := tables_eq_snapshot
    have e : v_codewords.map (fun t => (t.map Int.toNat).toArray) =
        (v_codewords.map (fun t => t.map Int.toNat)).map List.toArray := by simp
    rw [e, this]
    rfl
  unfold getCodeword
  rw [htab]
  have h : ci = 0 ∨ ci = 1 ∨ ci = 2 := by omega
  rcases h with rfl | rfl | rfl <;>
    simp [clusterList] at hlen ⊢ <;> simp [hlen, hw]

/-- length of `msbBits` -/
theorem msbBits_length (x k : Nat) : (msbBits x k).length = k := by simp [msbBits]

/-- the Spec reads every symbol character the encoder can draw back to its codeword: for cluster index
    `ci < 3` and codeword `w < 929`, the 17 modules of `getCodeword ci w` are a well-formed character of the
    right cluster and `symbolValue` returns `w` -/
theorem symbolValue_getCodeword (ci w : Nat) (hci : ci < 3) (hw : w < 929) :
    ∃ v, getCodeword ci w = .ok v ∧ v < 2 ^ 17 ∧ symbolValue ci (msbBits v 17) = .ok w := by
  obtain ⟨hlt, hget⟩ := getCodeword_ok ci w hci hw
  obtain ⟨hlen, hall, hnd, htab⟩ := clusterList_spec ci hci
  refine ⟨_, hget, ?_⟩
  have hmem : (clusterList ci)[w] ∈ clusterList ci := List.getElem_mem hlt
  have hok := List.all_eq_true.mp hall _ hmem
  generalize hn : (clusterList ci)[w] = n at *
  simp only [entryOk, Bool.and_eq_true, beq_iff_eq, decide_eq_true_eq] at hok
  obtain ⟨⟨⟨⟨⟨⟨⟨h1, h2⟩, h3⟩, h4⟩, h5⟩, h6⟩, h7⟩, h8⟩ := hok
  refine ⟨h8, ?_⟩
  have hidx : (clusterList ci).idxOf? n = some w := by
    rw [List.idxOf?_eq_some_iff]
    refine ⟨hlt, hn, ?_⟩
    intro j hj hjn
    have hjl : j < (clusterList ci).length := by omega
    have : j = w := (List.getElem?_inj hjl hnd).mp (by
      rw [List.getElem?_eq_getElem hjl, List.getElem?_eq_getElem hlt, hjn, hn])
    omega
  unfold symbolValue
  simp only [msbBits_length, bne_self_eq_false, h5, h6, h1, h2, h4, h7, htab, List.idxOf?_toArray, hidx]
  rfl

end BV.Proofs.PdfFrame
