/-
  C02: reading a painted mapping matrix back through the placement array (`Spec.readCodewords`) returns the
  codewords that were painted — because a successful symbolic run assigns every (codeword, bit) pair to exactly
  one module (`DmTags.run_inv`).
-/
import BV.Proofs.DmPlaceM
import BV.Proofs.DmPlaceS
namespace BV.Proofs.DmRead
open BV BV.Model.Datamatrix BV.Spec.Datamatrix BV.Proofs.DmSym BV.Proofs.DmTags BV.Proofs.DmPlaceM BV.Proofs.DmPlaceS

/-! ### sums over cells and over the log -/

theorem sum_update (p q : Nat → Nat) (c : Nat) (hq : q c = 0) (hpq : ∀ i, i ≠ c → p i = q i) : ∀ N, c < N →
    ((List.range N).map p).sum = ((List.range N).map q).sum + p c := by
  intro N
  induction N with
  | zero => intro h; omega
  | succ N ih =>
    intro hc
    rw [List.range_succ, List.map_append, List.map_append, List.sum_append, List.sum_append]
    simp only [List.map_cons, List.map_nil, List.sum_cons, List.sum_nil, Nat.add_zero]
    by_cases hcN : c = N
    · subst hcN
      have : (List.range c).map p = (List.range c).map q := by
        apply List.map_congr_left
        intro i hi
        exact hpq i (by have := List.mem_range.mp hi; omega)
      rw [this, hq]; omega
    · rw [ih (by omega), hpq N (by omega)]; omega

theorem sum_zero {α} (L : List α) : (L.map (fun _ => 0)).sum = 0 := by
  induction L with
  | nil => rfl
  | cons a L ih => simp [ih]

theorem opt_add_zero (o : Option Nat) : o.map (· + 0) = o := by cases o <;> rfl

/-- summing a function of the tag over all cells = summing it over the log (cells distinct, inside, `f 0 = 0`) -/
theorem cells_sum (f : Nat → Nat) (hf : f 0 = 0) (N : Nat) : ∀ (log : List (Nat × Nat)),
    (log.map Prod.fst).Nodup → (∀ p ∈ log, p.1 < N) →
    ((List.range N).map (fun i => f (tagAt log i))).sum = (log.map (fun e => f e.2)).sum := by
  intro log
  induction log with
  | nil => intro _ _; simp [tagAt, hf, sum_zero]
  | cons e rest ih =>
    intro hn hlt
    obtain ⟨c, t⟩ := e
    simp only [List.map_cons, List.nodup_cons] at hn
    rw [sum_update (fun i => f (tagAt ((c, t) :: rest) i)) (fun i => f (tagAt rest i)) c
      (by simp only [tagAt_of_not_mem rest c hn.1, hf]) (fun i hi => by simp [tagAt, Ne.symm hi]) N
      (hlt (c, t) List.mem_cons_self),
      ih hn.2 (fun p hp => hlt p (List.mem_cons_of_mem _ hp))]
    simp [tagAt, Nat.add_comm]

/-! ### one cell of `readCodewords` -/

/-- the weight a module with tag `t` adds to codeword `k` when reading the painted matrix -/
def weight (data : Array UInt8) (k t : Nat) : Nat :=
  if t ≥ 10 ∧ paint data t = true ∧ t / 10 - 1 = k then 2 ^ (8 - t % 10) else 0

/-- the update of the codeword array for one module -/
def stepR (data : Array UInt8) (cw : Array Nat) (t : Nat) : Array Nat :=
  if t ≥ 10 then (if paint data t then cw.modify (t / 10 - 1) (· + 2 ^ (8 - t % 10)) else cw) else cw

theorem stepR_get (data : Array UInt8) (cw : Array Nat) (t k : Nat) :
    (stepR data cw t)[k]? = (cw[k]?).map (· + weight data k t) := by
  unfold stepR weight
  by_cases h1 : t ≥ 10
  · by_cases h2 : paint data t = true
    · simp only [h1, h2, if_true, true_and, Array.getElem?_modify]
      by_cases h3 : t / 10 - 1 = k
      · simp [h3]
      · simp only [h3, if_false]
        exact (opt_add_zero _).symm
    · simp only [h1, h2, if_true, Bool.false_eq_true, if_false, false_and, and_false]
      exact (opt_add_zero _).symm
  · simp only [h1, if_false, false_and]
    exact (opt_add_zero _).symm

theorem foldl_stepR (data : Array UInt8) (tag : Nat → Nat) (k : Nat) : ∀ (L : List Nat) (cw : Array Nat),
    (L.foldl (fun cw i => stepR data cw (tag i)) cw)[k]? =
      (cw[k]?).map (· + (L.map (fun i => weight data k (tag i))).sum) := by
  intro L
  induction L with
  | nil => intro cw; exact (opt_add_zero _).symm
  | cons i L ih =>
    intro cw
    rw [List.foldl_cons, ih, stepR_get]
    cases cw[k]? <;> simp [Nat.add_assoc]

/-! ### the weights of one codeword add up to its value -/

/-- certificate (256 bytes): a byte is the sum of its bits, most significant first -/
theorem byte_bits : ∀ d : UInt8,
    ((List.range 8).map (fun b => if bitOf d b = true then 2 ^ (7 - b) else 0)).sum = d.toNat := by
  have h : ∀ n, n < 256 → ((List.range 8).map
      (fun b => if bitOf (UInt8.ofNat n) b = true then 2 ^ (7 - b) else 0)).sum = (UInt8.ofNat n).toNat := by
    decide +kernel
  intro d
  have := h d.toNat d.toNat_lt
  simpa using this

theorem weight_tag (data : Array UInt8) (k j b : Nat) (d : UInt8) (hb : b ≤ 7) (hd : data[j]? = some d) :
    weight data k (10 * (j + 1) + (b + 1)) = if j = k then (if bitOf d b = true then 2 ^ (7 - b) else 0) else 0 := by
  unfold weight
  rw [paint_tag data j b d hb hd]
  have h1 : 10 * (j + 1) + (b + 1) ≥ 10 := by omega
  have h2 : (10 * (j + 1) + (b + 1)) / 10 - 1 = j := by omega
  have h3 : 8 - (10 * (j + 1) + (b + 1)) % 10 = 7 - b := by omega
  rw [h2, h3]
  by_cases hjk : j = k
  · subst hjk
    by_cases hbit : bitOf d b = true
    · simp [h1, hbit]
    · simp [hbit]
  · simp [hjk]

theorem tagsRev_sum (data : Array UInt8) (k : Nat) : ∀ idx, idx ≤ data.size →
    ((tagsRev idx).map (weight data k)).sum = if k < idx then (data.getD k 0).toNat else 0 := by
  intro idx
  induction idx with
  | zero => intro _; simp [tagsRev]
  | succ idx ih =>
    intro hle
    have hlt : idx < data.size := by omega
    have hd : data[idx]? = some data[idx] := Array.getElem?_eq_getElem hlt
    rw [tagsRev, List.map_append, List.sum_append, ih (by omega), List.map_reverse, List.sum_reverse, List.map_map]
    have : (List.range 8).map (weight data k ∘ fun b => 10 * (idx + 1) + (b + 1)) =
        (List.range 8).map (fun b => if idx = k then (if bitOf data[idx] b = true then 2 ^ (7 - b) else 0) else 0) := by
      apply List.map_congr_left
      intro b hb
      exact weight_tag data k idx b data[idx] (by have := List.mem_range.mp hb; omega) hd
    rw [this]
    by_cases hik : idx = k
    · subst hik
      simp only [if_true]
      rw [byte_bits]
      simp [Array.getD_eq_getD_getElem?, hd]
    · simp only [hik, if_false, sum_zero, Nat.zero_add]
      by_cases hk : k < idx
      · rw [if_pos hk, if_pos (by omega)]
      · rw [if_neg hk, if_neg (by omega)]

/-! ### reading back -/

theorem weight_small (data : Array UInt8) (k t : Nat) (ht : t < 10) : weight data k t = 0 := by
  unfold weight
  have : ¬ t ≥ 10 := by omega
  simp [this]

/-- **Read-back.**  Let the symbolic run answer `some st`, and let `mm` be a mapping matrix whose module `i`
    (row-major) is the data painted through the tag map of `st`.  Then the reference, reading `mm` through its
    placement array, accepts the fixed pattern and returns exactly the data codewords. -/
theorem read_back {nrow ncol ncw : Nat} {st : PS} (hrun : run nrow ncol ncw = some st) (data : Array UInt8)
    (hn : data.size = ncw) (mm : Nat → Nat → Bool)
    (hmm : ∀ i, i < nrow * ncol → mm (i / ncol) (i % ncol) = paint data (tagAt st.log i)) :
    ∃ cw, readCodewords nrow ncol (arrOf (nrow * ncol) st) ncw mm = some cw ∧
      cw.toList = data.toList.map UInt8.toNat := by
  obtain ⟨hnodup, hcells, htags⟩ := run_inv hrun
  -- 1. the monadic fold never rejects and is the pure fold of `stepR`
  have hfold : ∀ (L : List Nat) (cw : Array Nat), (∀ i ∈ L, i < nrow * ncol) →
      L.foldlM (fun (cw : Array Nat) i =>
        let v := (arrOf (nrow * ncol) st).getD i 0
        let d := mm (i / ncol) (i % ncol)
        if v ≥ 10 then
          let chr := v / 10
          let bit := v % 10
          some (if d then cw.modify (chr - 1) (· + 2 ^ (8 - bit)) else cw)
        else if d == (v == 1) then some cw
        else none) cw = some (L.foldl (fun cw i => stepR data cw (tagAt st.log i)) cw) := by
    intro L
    induction L with
    | nil => intro cw _; rfl
    | cons i L ih =>
      intro cw hL
      have hi : i < nrow * ncol := hL i List.mem_cons_self
      have hv : (arrOf (nrow * ncol) st).getD i 0 = tagAt st.log i := by
        simp [arrOf, Array.getD_eq_getD_getElem?, hi]
      rw [List.foldlM_cons, List.foldl_cons]
      simp only [hv, hmm i hi]
      have hstep : (if tagAt st.log i ≥ 10 then
            some (if paint data (tagAt st.log i) = true
              then cw.modify (tagAt st.log i / 10 - 1) (· + 2 ^ (8 - tagAt st.log i % 10)) else cw)
          else if (paint data (tagAt st.log i) == (tagAt st.log i == 1)) = true then some cw else none) =
          some (stepR data cw (tagAt st.log i)) := by
        unfold stepR
        by_cases h10 : tagAt st.log i ≥ 10
        · simp only [h10, if_true]
        · have hp : paint data (tagAt st.log i) = (tagAt st.log i == 1) := by
            unfold paint; rw [if_neg h10]
          simp only [h10, if_false, hp, beq_self_eq_true, if_true]
      rw [hstep]
      exact ih _ (fun j hj => hL j (List.mem_cons_of_mem _ hj))
  refine ⟨_, hfold (List.range (nrow * ncol)) _ (fun i hi => List.mem_range.mp hi), ?_⟩
  -- 2. pointwise value of the result
  apply List.ext_getElem?
  intro k
  rw [Array.getElem?_toList, foldl_stepR data (tagAt st.log) k]
  have hw0 : weight data k 0 = 0 := weight_small data k 0 (by omega)
  rw [cells_sum (weight data k) hw0 (nrow * ncol) st.log hnodup hcells]
  have hsum : (st.log.map (fun e => weight data k e.2)).sum = if k < ncw then (data.getD k 0).toNat else 0 := by
    have : st.log.map (fun e => weight data k e.2) = (st.log.map Prod.snd).map (weight data k) := by
      rw [List.map_map]; rfl
    rw [this]
    rcases htags with ht | ht
    · rw [ht, tagsRev_sum data k ncw (by omega)]
    · rw [ht]
      simp only [List.map_cons, List.sum_cons, weight_small data k 1 (by omega), Nat.zero_add]
      rw [tagsRev_sum data k ncw (by omega)]
  rw [hsum]
  by_cases hk : k < ncw
  · have hk' : k < data.size := by omega
    simp [hk, hk', Array.getD_eq_getD_getElem?]
  · have hk' : ¬ k < data.size := by omega
    simp [hk]
    rw [Array.getElem?_eq_none (by omega)]
    rfl
