/-
  Proofs for C17, part 2b: the specification's raw polynomial operations (`BV.Spec.RS.polyAddRaw`, `polyMulRaw`,
  `polyEq`) in terms of coefficients, so that the division theorem can be stated with them.
-/
import BV.Proofs.GFPoly
namespace BV.Proofs.GF
open BV BV.Model.GF BV.Spec.RS

theorem cf_pad (k : Nat) (p : Poly) (d : Nat) : cf (List.replicate k 0 ++ p) d = cf p d := by
  rw [cf_append]
  split
  · rfl
  · rw [cf_replicate_zero, cf_ge p d (by omega)]

theorem cf_polyAddRaw (p q : Poly) (d : Nat) : cf (polyAddRaw p q) d = cf p d ^^^ cf q d := by
  unfold polyAddRaw
  simp only []
  rw [cf_zipWith_xor _ _ d (by
    rw [List.length_append, List.length_append, List.length_replicate, List.length_replicate]; omega),
    cf_pad, cf_pad]

theorem allLt_polyAddRaw {f : Field} {n : Nat} (L : Laws f n) (p q : Poly) (hp : AllLt n p) (hq : AllLt n q) :
    AllLt n (polyAddRaw p q) := by
  unfold polyAddRaw
  have pad : ∀ (k : Nat) (r : Poly), AllLt n r → AllLt n (List.replicate k 0 ++ r) := by
    intro k r hr x hx
    rw [List.mem_append, List.mem_replicate] at hx
    rcases hx with ⟨_, rfl⟩ | hx
    · exact L.pos
    · exact hr x hx
  exact allLt_zipWith_xor L _ _ (pad _ p hp) (pad _ q hq)

theorem stripZeros_zero (rest : List Nat) : stripZeros (0 :: rest) = stripZeros rest := rfl

theorem stripZeros_of_ne (a : Nat) (rest : List Nat) (h : a ≠ 0) : stripZeros (a :: rest) = a :: rest := by
  cases a with
  | zero => exact absurd rfl h
  | succ a => rfl

theorem cf_stripZeros : ∀ (p : List Nat) (d : Nat), cf (stripZeros p) d = cf p d
  | [], _ => rfl
  | a :: p, d => by
    by_cases h : a = 0
    · subst h
      rw [stripZeros_zero, cf_stripZeros p d, cf_cons]
      split
      · rename_i hd; rw [cf_ge p d (by omega)]
      · rfl
    · rw [stripZeros_of_ne a p h]

theorem stripZeros_head : ∀ (p : List Nat), stripZeros p = [] ∨ (stripZeros p).headD 0 ≠ 0
  | [] => Or.inl rfl
  | a :: p => by
    by_cases h : a = 0
    · subst h; rw [stripZeros_zero]; exact stripZeros_head p
    · rw [stripZeros_of_ne a p h]; exact Or.inr h

theorem strict_length_le {p : List Nat} (h : p = [] ∨ p.headD 0 ≠ 0) (k : Nat) (hc : ∀ d, k ≤ d → cf p d = 0) :
    p.length ≤ k := by
  rcases h with rfl | h
  · exact Nat.zero_le _
  · rcases Nat.lt_or_ge k p.length with hlt | hge
    · have := hc (p.length - 1) (by omega)
      rw [cf_head] at this
      exact absurd this h
    · exact hge

/-- the specification's equality modulo leading zeros is equality of all coefficients -/
theorem polyEq_of_cf (p q : List Nat) (hc : ∀ d, cf p d = cf q d) : polyEq p q = true := by
  unfold polyEq
  rw [beq_iff_eq]
  have hc' : ∀ d, cf (stripZeros p) d = cf (stripZeros q) d := fun d => by
    rw [cf_stripZeros, cf_stripZeros, hc d]
  apply eq_of_cf_of_length _ _ _ hc'
  have h1 := strict_length_le (stripZeros_head q) (stripZeros p).length
    (fun d hd => by rw [← hc' d]; exact cf_ge _ d hd)
  have h2 := strict_length_le (stripZeros_head p) (stripZeros q).length
    (fun d hd => by rw [hc' d]; exact cf_ge _ d hd)
  omega

theorem cf_of_polyEq (p q : List Nat) (h : polyEq p q = true) (d : Nat) : cf p d = cf q d := by
  unfold polyEq at h
  rw [beq_iff_eq] at h
  rw [← cf_stripZeros p, ← cf_stripZeros q, h]

/-- one Horner step of the specification's product -/
def mulRawStep (f : Field) (q : Poly) (acc : Poly) (a : Nat) : Poly :=
  polyAddRaw (acc ++ [0]) (q.map (f.mul a))

theorem mulRaw_foldl {f : Field} {n : Nat} (L : Laws f n) (q : Poly) (hq : AllLt n q) :
    ∀ (p acc : Poly), AllLt n p → AllLt n acc →
      (∀ d, cf (p.foldl (mulRawStep f q) acc) d =
        (if d < p.length then 0 else cf acc (d - p.length)) ^^^ conv f (cf p) (cf q) d) ∧
      AllLt n (p.foldl (mulRawStep f q) acc)
  | [], acc, _, ha => by
    refine ⟨fun d => ?_, ha⟩
    show cf acc d = _
    rw [if_neg (by simp), conv_zero_left f _ _ cf_nil, Nat.xor_zero]; rfl
  | a :: p, acc, hp, ha => by
    have han : a < n := hp a (List.mem_cons_self ..)
    have hp' : AllLt n p := fun y hy => hp y (List.mem_cons_of_mem _ hy)
    have hs : AllLt n (q.map (f.mul a)) := by
      intro x hx
      rw [List.mem_map] at hx
      obtain ⟨y, hy, rfl⟩ := hx
      exact L.mul_lt _ _ han (hq y hy)
    have ha0 : AllLt n (acc ++ [0]) := by
      intro x hx
      rw [List.mem_append, List.mem_singleton] at hx
      rcases hx with hx | rfl
      · exact ha x hx
      · exact L.pos
    have hacc' : AllLt n (mulRawStep f q acc a) := allLt_polyAddRaw L _ _ ha0 hs
    obtain ⟨i1, i2⟩ := mulRaw_foldl L q hq p (mulRawStep f q acc a) hp' hacc'
    rw [List.foldl_cons]
    refine ⟨fun d => ?_, i2⟩
    rw [i1 d, cf_cons_xor, conv_xor_left L _ _ _ (fun i => cf_lt L.pos _ _ hp')
      (fun i => by split; exact han; exact L.pos) (fun i => cf_lt L.pos _ _ hq), conv_delta, List.length_cons]
    by_cases h1 : d < p.length
    · rw [if_pos h1, if_pos (by omega), if_pos h1, Nat.xor_zero]
    · rw [if_neg h1, if_neg h1]
      unfold mulRawStep
      rw [cf_polyAddRaw, cf_append, cf_map (f.mul a) (mul_zero_right f a)]
      simp only [List.length_singleton]
      by_cases h2 : d < p.length + 1
      · rw [if_pos h2, if_pos (by omega), Nat.zero_xor]
        have : cf [0] (d - p.length) = 0 := by rw [cf_cons]; split <;> rfl
        rw [this, Nat.zero_xor]
        exact Nat.xor_comm _ _
      · rw [if_neg h2, if_neg (by omega)]
        have : d - p.length - 1 = d - (p.length + 1) := by omega
        rw [this, Nat.xor_assoc, Nat.xor_comm (f.mul a _)]

/-- the specification's raw product has the Cauchy product as coefficients -/
theorem cf_polyMulRaw {pp n : Nat} (h : FieldOK pp n) (b : Nat) (p q : Poly) (hp : AllLt n p) (hq : AllLt n q)
    (d : Nat) :
    cf ((BinField.mk pp n).polyMulRaw p q) d = conv (newField pp n b) (cf p) (cf q) d := by
  have L := laws_of_ok h b
  have : (BinField.mk pp n).polyMulRaw p q = p.foldl (mulRawStep (newField pp n b) q) [] := by
    unfold BinField.polyMulRaw
    apply foldl_congr_mem
    intro acc a ha
    unfold mulRawStep
    congr 1
    apply List.map_congr_left
    intro y hy
    exact (ok_mul_eq_spec h b a y (hp a ha) (hq y hy)).symm
  rw [this, (mulRaw_foldl L q hq p [] hp (fun x hx => by simp at hx)).1 d]
  split
  · exact Nat.zero_xor _
  · exact Nat.zero_xor _

end BV.Proofs.GF
