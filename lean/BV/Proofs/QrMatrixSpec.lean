/-
  QR matrix layer: general lemmas about the structural checks of the reference decoder `BV.Spec.Qr`
  (function module map, finder / alignment / timing checks, word reader).  Everything is proved for all
  sizes from the shape of the nested loops; no array is evaluated.
  Coordinates: (X, Y) = (column, row); the function map is indexed by `Y * dim + X`.
-/
import BV.Proofs.QrMatrixDefs
import BV.Proofs.Bits
namespace BV.Proofs.QrMatrix
open BV BV.Proofs.Bits

/-! ### S1: `markRect` -/

/-- Index injectivity of the row-major index: for columns below `dim` the index determines column and row. -/
theorem index_inj {dim X Y X' Y' : Nat} (hX : X < dim) (hX' : X' < dim) :
    Y * dim + X = Y' * dim + X' ↔ X = X' ∧ Y = Y' := by
  constructor
  · intro h
    have hd : 0 < dim := by omega
    have e1 : (Y * dim + X) / dim = Y := by
      rw [Nat.add_comm, Nat.add_mul_div_right _ _ hd, Nat.div_eq_of_lt hX, Nat.zero_add]
    have e2 : (Y' * dim + X') / dim = Y' := by
      rw [Nat.add_comm, Nat.add_mul_div_right _ _ hd, Nat.div_eq_of_lt hX', Nat.zero_add]
    have hY : Y = Y' := by rw [← e1, ← e2, h]
    subst hY
    exact ⟨by omega, rfl⟩
  · rintro ⟨rfl, rfl⟩; rfl

/-- In-range coordinates give an in-range index. -/
theorem index_lt {dim X Y : Nat} (hX : X < dim) (hY : Y < dim) : Y * dim + X < dim * dim := by
  have h1 : (Y + 1) * dim ≤ dim * dim := Nat.mul_le_mul_right dim hY
  rw [Nat.add_mul, Nat.one_mul] at h1
  omega

/-- Writing `true` at index `j`: reading index `k` (default `true`) gives the old value or `j = k`. -/
theorem setIfInBounds_getD_true (f : Array Bool) (j k : Nat) :
    (f.setIfInBounds j true).getD k true = (f.getD k true || j == k) := by
  simp only [Array.getD_eq_getD_getElem?, Array.getElem?_setIfInBounds]
  by_cases hjk : j = k
  · subst hjk
    by_cases hj : j < f.size
    · simp [hj]
    · simp [hj]
  · simp [hjk]

/-- A fold of steps each of which ORs a condition into the entry `k` ORs the disjunction of all conditions. -/
theorem foldl_getD_or {α : Type} (step : Array Bool → α → Array Bool) (p : α → Bool) (k : Nat) (l : List α)
    (hstep : ∀ f a, a ∈ l → (step f a).getD k true = (f.getD k true || p a)) (f : Array Bool) :
    (l.foldl step f).getD k true = (f.getD k true || l.any p) := by
  induction l generalizing f with
  | nil => simp
  | cons a l ih =>
    rw [List.foldl_cons, ih (fun f b hb => hstep f b (List.mem_cons_of_mem _ hb)),
      hstep f a (List.mem_cons_self ..), List.any_cons, Bool.or_assoc]

/-- A fold of size-preserving steps preserves the size. -/
theorem foldl_size {α : Type} (step : Array Bool → α → Array Bool) (l : List α)
    (hstep : ∀ f a, (step f a).size = f.size) (f : Array Bool) : (l.foldl step f).size = f.size := by
  induction l generalizing f with
  | nil => rfl
  | cons a l ih => rw [List.foldl_cons, ih, hstep]

/-- `markRect` does not change the size of the map. -/
theorem markRect_size (dim : Nat) (f : Array Bool) (x0 y0 x1 y1 : Nat) :
    (Spec.Qr.markRect dim f x0 y0 x1 y1).size = f.size := by
  unfold Spec.Qr.markRect
  apply foldl_size
  intro f dy
  apply foldl_size
  intro f dx
  exact Array.size_setIfInBounds ..

/-- membership of `X` in `[x0, x1]` as an existence of an offset below `x1 + 1 - x0` -/
theorem any_range_offset (x0 x1 : Nat) (q : Nat → Bool) :
    (List.range (x1 + 1 - x0)).any (fun d => q (x0 + d)) = true ↔ ∃ X, x0 ≤ X ∧ X ≤ x1 ∧ q X = true := by
  simp only [List.any_eq_true, List.mem_range]
  constructor
  · rintro ⟨d, hd, hq⟩; exact ⟨x0 + d, by omega, by omega, hq⟩
  · rintro ⟨X, h0, h1, hq⟩
    refine ⟨X - x0, by omega, ?_⟩
    have : x0 + (X - x0) = X := by omega
    rw [this]; exact hq

/-- `markRect` marks exactly the modules with `x0 ≤ X ≤ x1` and `y0 ≤ Y ≤ y1` (for a rectangle whose right edge
    `x1` is inside the symbol) and leaves the others as they were. -/
theorem markRect_getD (dim : Nat) (f : Array Bool) (x0 y0 x1 y1 X Y : Nat) (hx1 : x1 < dim) (hX : X < dim) :
    (Spec.Qr.markRect dim f x0 y0 x1 y1).getD (Y * dim + X) true =
      (f.getD (Y * dim + X) true ||
        (decide (x0 ≤ X) && decide (X ≤ x1) && decide (y0 ≤ Y) && decide (Y ≤ y1))) := by
  unfold Spec.Qr.markRect
  rw [foldl_getD_or _ (fun dy => (List.range (x1 + 1 - x0)).any
      (fun dx => (y0 + dy) * dim + (x0 + dx) == Y * dim + X))]
  · congr 1
    rw [Bool.eq_iff_iff]
    rw [any_range_offset y0 y1 (fun Y' => (List.range (x1 + 1 - x0)).any
        (fun dx => Y' * dim + (x0 + dx) == Y * dim + X))]
    simp only [Bool.and_eq_true, decide_eq_true_eq]
    constructor
    · rintro ⟨Y', hy0, hy1, hq⟩
      rw [any_range_offset x0 x1 (fun X' => Y' * dim + X' == Y * dim + X)] at hq
      obtain ⟨X', hx0, hx1', hq⟩ := hq
      rw [beq_iff_eq, index_inj (by omega) hX] at hq
      obtain ⟨rfl, rfl⟩ := hq
      exact ⟨⟨⟨hx0, hx1'⟩, hy0⟩, hy1⟩
    · rintro ⟨⟨⟨hx0, hx1'⟩, hy0⟩, hy1⟩
      refine ⟨Y, hy0, hy1, ?_⟩
      rw [any_range_offset x0 x1 (fun X' => Y * dim + X' == Y * dim + X)]
      exact ⟨X, hx0, hx1', by simp⟩
  · intro f dy _
    apply foldl_getD_or
    intro f dx _
    exact setIfInBounds_getD_true ..

/-! ### S2: `functionMap` -/

/-- `functionMap` has one entry per module. -/
theorem functionMap_size (dim version : Nat) (aligns : List (Nat × Nat)) :
    (Spec.Qr.functionMap dim version aligns).size = dim * dim := by
  have hal : ∀ f : Array Bool, (aligns.foldl (fun f p =>
      Spec.Qr.markRect dim f (p.1 - 2) (p.2 - 2) (p.1 + 2) (p.2 + 2)) f).size = f.size :=
    fun f => foldl_size _ _ (fun f p => markRect_size ..) f
  unfold Spec.Qr.functionMap
  simp only []
  split <;> simp only [markRect_size, hal, Array.size_replicate]

/-- The alignment fold of `functionMap` marks exactly the 5×5 squares around the centres. -/
theorem alignFold_getD (dim : Nat) (aligns : List (Nat × Nat))
    (ha : ∀ p ∈ aligns, p.1 + 2 < dim) (f : Array Bool) (X Y : Nat) (hX : X < dim) :
    (aligns.foldl (fun f p => Spec.Qr.markRect dim f (p.1 - 2) (p.2 - 2) (p.1 + 2) (p.2 + 2)) f).getD
        (Y * dim + X) true = (f.getD (Y * dim + X) true || alignAt aligns X Y) := by
  unfold alignAt
  apply foldl_getD_or
  intro f p hp
  rw [markRect_getD dim f _ _ _ _ X Y (ha p hp) hX]
  congr 1
  unfold inSq
  rw [Bool.eq_iff_iff]
  simp only [Bool.and_eq_true, decide_eq_true_eq]
  omega

/-- The function map of the reference decoder is the coordinate predicate `isFn`: finder corners with
    separators and format areas, timing row and column, alignment squares, version areas. -/
theorem functionMap_getD (dim version : Nat) (aligns : List (Nat × Nat)) (hdim : 21 ≤ dim)
    (ha : ∀ p ∈ aligns, 2 ≤ p.1 ∧ p.1 + 2 < dim ∧ 2 ≤ p.2 ∧ p.2 + 2 < dim)
    (X Y : Nat) (hX : X < dim) (hY : Y < dim) :
    (Spec.Qr.functionMap dim version aligns).getD (Y * dim + X) true = isFn dim version aligns X Y := by
  have h0 : (Array.replicate (dim * dim) false).getD (Y * dim + X) true = false := by
    simp [Array.getD_eq_getD_getElem?, index_lt hX hY]
  have ha' : ∀ p ∈ aligns, p.1 + 2 < dim := fun p hp => (ha p hp).2.1
  unfold Spec.Qr.functionMap isFn
  simp only []
  generalize hA : alignAt aligns X Y = A
  split
  · rw [markRect_getD _ _ _ _ _ _ X Y (by omega) hX, markRect_getD _ _ _ _ _ _ X Y (by omega) hX,
      alignFold_getD dim aligns ha' _ X Y hX, hA,
      markRect_getD _ _ _ _ _ _ X Y (by omega) hX, markRect_getD _ _ _ _ _ _ X Y (by omega) hX,
      markRect_getD _ _ _ _ _ _ X Y (by omega) hX, markRect_getD _ _ _ _ _ _ X Y (by omega) hX,
      markRect_getD _ _ _ _ _ _ X Y (by omega) hX, h0]
    rw [Bool.eq_iff_iff]
    cases A <;>
      simp only [Bool.or_eq_true, Bool.and_eq_true, decide_eq_true_eq, beq_iff_eq, Bool.false_eq_true,
        false_or, or_false, or_true, true_or] <;> omega
  · rw [alignFold_getD dim aligns ha' _ X Y hX, hA,
      markRect_getD _ _ _ _ _ _ X Y (by omega) hX, markRect_getD _ _ _ _ _ _ X Y (by omega) hX,
      markRect_getD _ _ _ _ _ _ X Y (by omega) hX, markRect_getD _ _ _ _ _ _ X Y (by omega) hX,
      markRect_getD _ _ _ _ _ _ X Y (by omega) hX, h0]
    rw [Bool.eq_iff_iff]
    cases A <;>
      simp only [Bool.or_eq_true, Bool.and_eq_true, decide_eq_true_eq, beq_iff_eq, Bool.false_eq_true,
        false_or, or_false, or_true, true_or] <;> omega


/-! ### S3: finder patterns -/

/-- The finder check succeeds when every in-range module of the 9×9 neighbourhood (pattern plus separator)
    has the colour `finderModule`. -/
theorem checkFinder_intro (dim : Nat) (dark : Nat → Nat → Bool) (ox oy : Nat)
    (h : ∀ dx dy : Int, -1 ≤ dx → dx ≤ 7 → -1 ≤ dy → dy ≤ 7 →
      0 ≤ (ox : Int) + dx → (ox : Int) + dx < dim → 0 ≤ (oy : Int) + dy → (oy : Int) + dy < dim →
      dark ((ox : Int) + dx).toNat ((oy : Int) + dy).toNat = Spec.Qr.finderModule dx dy) :
    Spec.Qr.checkFinder dim dark ox oy = true := by
  unfold Spec.Qr.checkFinder
  simp only [List.all_eq_true, List.mem_range]
  intro a ha b hb
  split
  · next hc =>
    simp only [Bool.and_eq_true, decide_eq_true_eq] at hc
    obtain ⟨⟨⟨h1, h2⟩, h3⟩, h4⟩ := hc
    rw [beq_iff_eq]
    exact h ((a : Int) - 1) ((b : Int) - 1) (by omega) (by omega) (by omega) (by omega) h1 h2 h3 h4
  · rfl

/-- certificate: the 81 offsets of the 9×9 neighbourhood, checked by `decide` -/
theorem finderModule_eq_fin : ∀ a b : Fin 9,
    Spec.Qr.finderModule ((a.val : Int) - 1) ((b.val : Int) - 1) =
      ((((a.val : Int) - 1) == 0 || ((a.val : Int) - 1) == 6 || ((b.val : Int) - 1) == 0 ||
        ((b.val : Int) - 1) == 6 ||
        (decide (((a.val : Int) - 1) > 1) && decide (((a.val : Int) - 1) < 5) &&
          decide (((b.val : Int) - 1) > 1) && decide (((b.val : Int) - 1) < 5))) &&
       (decide (((a.val : Int) - 1) ≤ 6) && decide (((b.val : Int) - 1) ≤ 6) &&
          decide (((a.val : Int) - 1) ≥ 0) && decide (((b.val : Int) - 1) ≥ 0))) := by
  decide

/-- On the 9×9 neighbourhood the finder colour of the standard (`finderModule`: 7×7 dark ring, light ring,
    3×3 core, light separator) is the colour expression `val` of `Model.Qr.drawFinderPatterns`. -/
theorem finderModule_eq (dx dy : Int) (h1 : -1 ≤ dx) (h2 : dx ≤ 7) (h3 : -1 ≤ dy) (h4 : dy ≤ 7) :
    Spec.Qr.finderModule dx dy =
      ((dx == 0 || dx == 6 || dy == 0 || dy == 6 || (dx > 1 && dx < 5 && dy > 1 && dy < 5)) &&
        (dx ≤ 6 && dy ≤ 6 && dx ≥ 0 && dy ≥ 0)) := by
  have e := finderModule_eq_fin ⟨(dx + 1).toNat, by omega⟩ ⟨(dy + 1).toNat, by omega⟩
  have ex : (((dx + 1).toNat : Nat) : Int) - 1 = dx := by omega
  have ey : (((dy + 1).toNat : Nat) : Int) - 1 = dy := by omega
  simp only [ex, ey] at e
  exact e

/-! ### S4: alignment patterns -/

/-- certificate: the 25 offsets of an alignment pattern, checked by `decide` -/
theorem alignModule_eq_fin : ∀ a b : Fin 5,
    (max ((a.val : Int) - 2).natAbs ((b.val : Int) - 2).natAbs != 1) =
      (((a.val : Int) - 2) == -2 || ((a.val : Int) - 2) == 2 || ((b.val : Int) - 2) == -2 ||
        ((b.val : Int) - 2) == 2 || (((a.val : Int) - 2) == 0 && ((b.val : Int) - 2) == 0)) := by
  decide

/-- The alignment check succeeds when the 5×5 square around the centre has the colours that
    `Model.Qr.drawAlignmentPatterns` draws (its expression `val`). -/
theorem checkAlignment_intro (dark : Nat → Nat → Bool) (cx cy : Nat) (hx : 2 ≤ cx) (hy : 2 ≤ cy)
    (h : ∀ a b : Int, -2 ≤ a → a ≤ 2 → -2 ≤ b → b ≤ 2 →
      dark ((cx : Int) + a).toNat ((cy : Int) + b).toNat =
        (a == -2 || a == 2 || b == -2 || b == 2 || (a == 0 && b == 0))) :
    Spec.Qr.checkAlignment dark cx cy = true := by
  unfold Spec.Qr.checkAlignment
  simp only [List.all_eq_true, List.mem_range]
  intro a ha b hb
  rw [beq_iff_eq]
  have e := h ((a : Int) - 2) ((b : Int) - 2) (by omega) (by omega) (by omega) (by omega)
  have e1 : ((cx : Int) + ((a : Int) - 2)).toNat = cx + a - 2 := by omega
  have e2 : ((cy : Int) + ((b : Int) - 2)).toNat = cy + b - 2 := by omega
  rw [e1, e2] at e
  rw [e]
  exact (alignModule_eq_fin ⟨a, ha⟩ ⟨b, hb⟩).symm

/-! ### S5: alignment centres -/

/-- `alignmentPositions` in closed form (definitional). -/
theorem alignmentPositions_eq (cs : List Nat) :
    Spec.Qr.alignmentPositions cs =
      (cs.flatMap (fun cx => cs.map (fun cy => (cx, cy)))).filter (fun p =>
        !((p.1 == 6 && p.2 == 6) || (p.1 == 6 && p.2 == cs.getLastD 0) || (p.1 == cs.getLastD 0 && p.2 == 6))) :=
  rfl

/-- A centre carries an alignment pattern iff both coordinates are in the list of Annex E and it is not one of
    the three finder corners (6,6), (6,last), (last,6). -/
theorem mem_alignmentPositions (cs : List Nat) (p : Nat × Nat) :
    p ∈ Spec.Qr.alignmentPositions cs ↔
      p.1 ∈ cs ∧ p.2 ∈ cs ∧
        ¬((p.1 = 6 ∧ p.2 = 6) ∨ (p.1 = 6 ∧ p.2 = cs.getLastD 0) ∨ (p.1 = cs.getLastD 0 ∧ p.2 = 6)) := by
  obtain ⟨x, y⟩ := p
  rw [alignmentPositions_eq]
  simp only [List.mem_filter, List.mem_flatMap, List.mem_map, Prod.mk.injEq, Bool.not_eq_true',
    Bool.or_eq_false_iff, Bool.and_eq_false_iff, beq_eq_false_iff_ne, ne_eq]
  constructor
  · rintro ⟨⟨cx, hcx, cy, hcy, rfl, rfl⟩, hn⟩
    refine ⟨hcx, hcy, ?_⟩
    omega
  · rintro ⟨hx, hy, hn⟩
    refine ⟨⟨x, hx, y, hy, rfl, rfl⟩, ?_⟩
    omega

/-! ### S6: `readWord` -/

/-- `readWord` reads the big-endian value of a bit list when the module of bit `i` (0 = least significant)
    carries list element `n - 1 - i`. -/
theorem readWord_eq_bitsToNat (dark : Nat → Nat → Bool) (pos : Nat → Nat × Nat) (bits : List Bool)
    (h : ∀ i, i < bits.length → dark (pos i).1 (pos i).2 = bits.getD (bits.length - 1 - i) false) :
    Spec.Qr.readWord dark pos bits.length = bitsToNat bits := by
  induction bits with
  | nil => rfl
  | cons b l ih =>
    have ih' := ih (by
      intro i hi
      rw [h i (by simp only [List.length_cons]; omega)]
      have e : (b :: l).length - 1 - i = (l.length - 1 - i) + 1 := by simp only [List.length_cons]; omega
      rw [e, List.getD_cons_succ])
    have hb := h l.length (by simp)
    have e0 : (b :: l).length - 1 - l.length = 0 := by simp
    rw [e0, List.getD_cons_zero] at hb
    unfold Spec.Qr.readWord at ih' ⊢
    rw [List.length_cons, List.range_succ, List.foldl_append, ih', bitsToNat_cons]
    simp only [List.foldl_cons, List.foldl_nil, hb]
    cases b <;> simp <;> omega

/-! ### S7: timing patterns -/

/-- The timing check of `decode` succeeds when row 6 and column 6 alternate (dark on even coordinates)
    between the finder patterns. -/
theorem timing_intro (dim : Nat) (dark : Nat → Nat → Bool)
    (h : ∀ k, 8 ≤ k → k + 8 < dim → dark k 6 = (k % 2 == 0) ∧ dark 6 k = (k % 2 == 0)) :
    (List.range (dim - 16)).all (fun t =>
      let k := t + 8
      dark k 6 == (k % 2 == 0) && dark 6 k == (k % 2 == 0)) = true := by
  simp only [List.all_eq_true, List.mem_range]
  intro t ht
  obtain ⟨h1, h2⟩ := h (t + 8) (by omega) (by omega)
  rw [h1, h2]
  simp

end BV.Proofs.QrMatrix
