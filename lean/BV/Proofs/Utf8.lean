/-
  BV.Proofs.Utf8 — lemmas about Go's UTF-8 decoding as modelled by `BV.runes` / `BV.runeList`:
  fuel independence, concatenation, ASCII strings, and runes below U+0800 (one- and two-byte encodings).
-/
import BV.Base
import Mathlib.Tactic.SplitIfs
namespace BV.Proofs.Utf8
open BV

/-! ### one rune -/

theorem toNat_lt (b : UInt8) : b.toNat < 256 := by
  have := b.toBitVec.isLt; exact this

/-- a decoded rune consumes at least one and at most the available bytes -/
theorem decodeRune_width (b : UInt8) (rest : Bytes) :
    1 ≤ (decodeRune (b :: rest)).2 ∧ (decodeRune (b :: rest)).2 ≤ (b :: rest).length := by
  unfold decodeRune
  simp only
  split_ifs
  all_goals first
    | (simp only [List.length_cons]; omega)
    | (split <;> (try split_ifs) <;> simp only [List.length_cons] <;> omega)

theorem decodeRune_ascii (b : UInt8) (rest : Bytes) (h : b.toNat < 128) :
    decodeRune (b :: rest) = (b.toNat, 1) := by
  unfold decodeRune
  simp only
  rw [if_pos h]


/-- a rune below 128 comes from a single ASCII byte -/
theorem decodeRune_lt128 (b : UInt8) (rest : Bytes) (h : (decodeRune (b :: rest)).1 < 128) :
    b.toNat < 128 := by
  by_cases hb : b.toNat < 128
  · exact hb
  · exfalso
    have hb256 := toNat_lt b
    revert h
    unfold decodeRune
    simp only [runeError, isCont, Bool.and_eq_true, decide_eq_true_eq]
    rw [if_neg hb]
    split_ifs <;> (try split) <;> (try split_ifs) <;> simp only <;> omega

/-! ### the rune sequence -/

theorem runesAux_nil (fuel off : Nat) : runesAux fuel off [] = [] := by
  cases fuel <;> rfl

theorem runesAux_cons (fuel off : Nat) (b : UInt8) (rest : Bytes) :
    runesAux (fuel + 1) off (b :: rest) =
      (off, (decodeRune (b :: rest)).1) ::
        runesAux fuel (off + (decodeRune (b :: rest)).2) ((b :: rest).drop (decodeRune (b :: rest)).2) := by
  rw [runesAux]

/-- any fuel `≥` the number of bytes gives the same result -/
theorem runesAux_fuel (n : Nat) : ∀ (f1 f2 off : Nat) (s : Bytes), s.length ≤ n → n ≤ f1 → n ≤ f2 →
    runesAux f1 off s = runesAux f2 off s := by
  induction n with
  | zero =>
    intro f1 f2 off s hs _ _
    have : s = [] := List.length_eq_zero_iff.1 (by omega)
    subst this
    rw [runesAux_nil, runesAux_nil]
  | succ n ih =>
    intro f1 f2 off s hs h1 h2
    cases s with
    | nil => rw [runesAux_nil, runesAux_nil]
    | cons b rest =>
      obtain ⟨g1, rfl⟩ : ∃ g, f1 = g + 1 := ⟨f1 - 1, by omega⟩
      obtain ⟨g2, rfl⟩ : ∃ g, f2 = g + 1 := ⟨f2 - 1, by omega⟩
      rw [runesAux_cons, runesAux_cons]
      congr 1
      have hw := decodeRune_width b rest
      apply ih
      · rw [List.length_drop]; simp only [List.length_cons] at hs hw ⊢; omega
      · omega
      · omega

/-- `for off, r := range s` started at byte offset `off` -/
def runesFrom (off : Nat) (s : Bytes) : List (Nat × Nat) := runesAux s.length off s

theorem runes_eq (s : Bytes) : runes s = runesFrom 0 s := rfl

theorem runeList_eq (s : Bytes) : runeList s = (runesFrom 0 s).map (·.2) := rfl

@[simp] theorem runesFrom_nil (off : Nat) : runesFrom off [] = [] := rfl

theorem runesFrom_cons (off : Nat) (b : UInt8) (rest : Bytes) :
    runesFrom off (b :: rest) =
      (off, (decodeRune (b :: rest)).1) ::
        runesFrom (off + (decodeRune (b :: rest)).2) ((b :: rest).drop (decodeRune (b :: rest)).2) := by
  unfold runesFrom
  rw [List.length_cons, runesAux_cons]
  congr 1
  have hw := decodeRune_width b rest
  apply runesAux_fuel ((b :: rest).drop (decodeRune (b :: rest)).2).length
  · omega
  · rw [List.length_drop]; simp only [List.length_cons] at hw ⊢; omega
  · omega

theorem runesFrom_cons_ascii (off : Nat) (b : UInt8) (rest : Bytes) (h : b.toNat < 128) :
    runesFrom off (b :: rest) = (off, b.toNat) :: runesFrom (off + 1) rest := by
  rw [runesFrom_cons, decodeRune_ascii b rest h]
  rfl

/-- the offsets are shifted by the start offset, the runes do not depend on it -/
theorem runesFrom_shift (n : Nat) : ∀ (s : Bytes) (off : Nat), s.length ≤ n →
    runesFrom off s = (runesFrom 0 s).map (fun p => (p.1 + off, p.2)) := by
  induction n with
  | zero =>
    intro s off hs
    have : s = [] := List.length_eq_zero_iff.1 (by omega)
    subst this; rfl
  | succ n ih =>
    intro s off hs
    cases s with
    | nil => rfl
    | cons b rest =>
      have hw := decodeRune_width b rest
      have hl : ((b :: rest).drop (decodeRune (b :: rest)).2).length ≤ n := by
        rw [List.length_drop]; simp only [List.length_cons] at hs hw ⊢; omega
      rw [runesFrom_cons, runesFrom_cons 0, List.map_cons, ih _ (off + _) hl, ih _ (0 + _) hl, List.map_map]
      congr 1
      · simp
      · apply List.map_congr_left
        intro p _
        simp only [Function.comp, Prod.mk.injEq, and_true]
        omega

theorem runesFrom_snd (off : Nat) (s : Bytes) : (runesFrom off s).map (·.2) = runeList s := by
  rw [runesFrom_shift s.length s off (Nat.le_refl _), List.map_map, runeList_eq]
  apply List.map_congr_left
  intro p _; rfl

/-- every offset is at least the start offset -/
theorem runesFrom_off_ge (off : Nat) (s : Bytes) : ∀ p ∈ runesFrom off s, off ≤ p.1 := by
  rw [runesFrom_shift s.length s off (Nat.le_refl _)]
  intro p hp
  obtain ⟨q, _, rfl⟩ := List.mem_map.1 hp
  simp

/-- only the first rune has offset 0 -/
theorem runes_cons_offsets (b : UInt8) (rest : Bytes) :
    ∃ r tl, runes (b :: rest) = (0, r) :: tl ∧ ∀ p ∈ tl, p.1 ≠ 0 := by
  rw [runes_eq, runesFrom_cons]
  refine ⟨_, _, rfl, ?_⟩
  intro p hp
  have := runesFrom_off_ge _ _ p hp
  have hw := decodeRune_width b rest
  omega


/-! ### concatenation -/

/-- the byte string is empty or starts with a byte that is not a UTF-8 continuation byte -/
def CleanStart (b : Bytes) : Prop := ∀ c ∈ b.head?, isCont c = false

theorem cleanStart_nil : CleanStart [] := by intro c hc; simp at hc

theorem cleanStart_cons {c : UInt8} {t : Bytes} (h : isCont c = false) : CleanStart (c :: t) := by
  intro d hd; simp at hd; subst hd; exact h

theorem cleanStart_ascii {c : UInt8} {t : Bytes} (h : c.toNat < 128) : CleanStart (c :: t) := by
  apply cleanStart_cons
  unfold isCont
  simp only [Bool.and_eq_false_iff, decide_eq_false_iff_not]
  left; omega

theorem cleanStart_append {a b : Bytes} (ha : CleanStart a) (hb : CleanStart b) : CleanStart (a ++ b) := by
  cases a with
  | nil => exact hb
  | cons x t => exact ha

theorem decodeRune_branch (x : UInt8) (rest : Bytes) :
    decodeRune (x :: rest) =
      if x.toNat < 0x80 then (x.toNat, 1)
      else if x.toNat < 0xC2 then (runeError, 1)
      else if x.toNat < 0xE0 then
        match rest with
        | b1 :: _ => if isCont b1 then ((x.toNat % 32) * 64 + b1.toNat % 64, 2) else (runeError, 1)
        | _ => (runeError, 1)
      else if x.toNat < 0xF0 then
        match rest with
        | b1 :: b2 :: _ =>
          if (if x.toNat = 0xE0 then 0xA0 else 0x80) ≤ b1.toNat && b1.toNat ≤ (if x.toNat = 0xED then 0x9F else 0xBF)
              && isCont b2 then
            ((x.toNat % 16) * 4096 + (b1.toNat % 64) * 64 + b2.toNat % 64, 3)
          else (runeError, 1)
        | _ => (runeError, 1)
      else if x.toNat < 0xF5 then
        match rest with
        | b1 :: b2 :: b3 :: _ =>
          if (if x.toNat = 0xF0 then 0x90 else 0x80) ≤ b1.toNat && b1.toNat ≤ (if x.toNat = 0xF4 then 0x8F else 0xBF)
              && isCont b2 && isCont b3 then
            ((x.toNat % 8) * 262144 + (b1.toNat % 64) * 4096 + (b2.toNat % 64) * 64 + b3.toNat % 64, 4)
          else (runeError, 1)
        | _ => (runeError, 1)
      else (runeError, 1) := by
  unfold decodeRune; rfl

/-- bytes after a rune boundary that cannot continue a sequence do not change how the front decodes -/
theorem decodeRune_append (x : UInt8) (a b : Bytes) (hb : CleanStart b) :
    decodeRune (x :: a ++ b) = decodeRune (x :: a) := by
  cases b with
  | nil => simp
  | cons c t =>
    have hc : c.toNat < 128 ∨ 191 < c.toNat := by
      have := hb c (by simp)
      simp only [isCont, Bool.and_eq_false_iff, decide_eq_false_iff_not] at this
      omega
    rw [List.cons_append, decodeRune_branch, decodeRune_branch]
    by_cases h1 : x.toNat < 0x80
    · rw [if_pos h1, if_pos h1]
    rw [if_neg h1, if_neg h1]
    by_cases h2 : x.toNat < 0xC2
    · rw [if_pos h2, if_pos h2]
    rw [if_neg h2, if_neg h2]
    have hcc : isCont c = false := by
      simp only [isCont, Bool.and_eq_false_iff, decide_eq_false_iff_not]; omega
    by_cases h3 : x.toNat < 0xE0
    · rw [if_pos h3, if_pos h3]
      rcases a with _ | ⟨a1, a'⟩
      · simp [hcc]
      · rfl
    rw [if_neg h3, if_neg h3]
    by_cases h4 : x.toNat < 0xF0
    · rw [if_pos h4, if_pos h4]
      rcases a with _ | ⟨a1, _ | ⟨a2, a'⟩⟩
      · rcases t with _ | ⟨c2, t'⟩
        · rfl
        · simp only [List.nil_append]
          rw [if_neg]
          simp only [Bool.and_eq_true, decide_eq_true_eq]
          split_ifs <;> omega
      · simp [hcc]
      · rfl
    rw [if_neg h4, if_neg h4]
    by_cases h5 : x.toNat < 0xF5
    · rw [if_pos h5, if_pos h5]
      rcases a with _ | ⟨a1, _ | ⟨a2, _ | ⟨a3, a'⟩⟩⟩
      · rcases t with _ | ⟨c2, _ | ⟨c3, t'⟩⟩
        · rfl
        · rfl
        · simp only [List.nil_append]
          rw [if_neg]
          simp only [Bool.and_eq_true, decide_eq_true_eq]
          split_ifs <;> omega
      · rcases t with _ | ⟨c2, t'⟩
        · rfl
        · simp [hcc]
      · simp [hcc]
      · rfl
    rw [if_neg h5, if_neg h5]

theorem runesFrom_append (n : Nat) : ∀ (a b : Bytes) (off : Nat), a.length ≤ n → CleanStart b →
    runesFrom off (a ++ b) = runesFrom off a ++ runesFrom (off + a.length) b := by
  induction n with
  | zero =>
    intro a b off ha _
    have : a = [] := List.length_eq_zero_iff.1 (by omega)
    subst this; simp
  | succ n ih =>
    intro a b off ha hb
    cases a with
    | nil => simp
    | cons x a =>
      have hw := decodeRune_width x a
      rw [List.cons_append, runesFrom_cons, runesFrom_cons off x a, ← List.cons_append, decodeRune_append x a b hb,
        List.drop_append_of_le_length hw.2, ih _ b _ (by
          rw [List.length_drop]; simp only [List.length_cons] at ha hw ⊢; omega) hb, List.cons_append]
      congr 3
      rw [List.length_drop]; simp only [List.length_cons] at hw ⊢; omega

/-- `[]rune(a + b) = []rune(a) ++ []rune(b)` whenever `b` does not start with a continuation byte -/
theorem runeList_append (a b : Bytes) (hb : CleanStart b) : runeList (a ++ b) = runeList a ++ runeList b := by
  rw [runeList_eq, runesFrom_append a.length a b 0 (Nat.le_refl _) hb, List.map_append, runesFrom_snd, runesFrom_snd]

/-! ### ASCII strings -/

def IsAscii (s : Bytes) : Prop := ∀ b ∈ s, b.toNat < 128

theorem runesFrom_ascii (s : Bytes) : ∀ (off : Nat), IsAscii s →
    runesFrom off s = (List.range s.length).map (fun i => (off + i, (s.getD i 0).toNat)) := by
  induction s with
  | nil => intro off _; rfl
  | cons b rest ih =>
    intro off h
    rw [runesFrom_cons_ascii off b rest (h b (by simp)), ih (off + 1) (fun x hx => h x (by simp [hx])),
      List.length_cons, List.range_succ_eq_map, List.map_cons, List.map_map]
    congr 1
    apply List.map_congr_left
    intro i _
    simp only [Function.comp, List.getD_cons_succ, Prod.mk.injEq, and_true]
    omega

theorem runeList_ascii (s : Bytes) (h : IsAscii s) : runeList s = s.map (·.toNat) := by
  induction s with
  | nil => rfl
  | cons b rest ih =>
    rw [runeList_eq, runesFrom_cons_ascii 0 b rest (h b (by simp)), List.map_cons, runesFrom_snd,
      ih (fun x hx => h x (by simp [hx]))]
    rfl

/-- if every rune is below 128 the string consists of ASCII bytes -/
theorem isAscii_of_runes_lt (n : Nat) : ∀ (s : Bytes), s.length ≤ n → (∀ r ∈ runeList s, r < 128) → IsAscii s := by
  induction n with
  | zero =>
    intro s hs _
    have : s = [] := List.length_eq_zero_iff.1 (by omega)
    subst this; intro b hb; simp at hb
  | succ n ih =>
    intro s hs h
    cases s with
    | nil => intro b hb; simp at hb
    | cons b rest =>
      rw [runeList_eq, runesFrom_cons, List.map_cons, runesFrom_snd] at h
      have hb := decodeRune_lt128 b rest (h _ (by simp))
      rw [decodeRune_ascii b rest hb] at h
      have := ih rest (by simp only [List.length_cons] at hs; omega) (fun r hr => h r (by simp [hr]))
      intro x hx
      rcases List.mem_cons.1 hx with rfl | hx
      · exact hb
      · exact this x hx

theorem isAscii_of_runeList_lt (s : Bytes) (h : ∀ r ∈ runeList s, r < 128) : IsAscii s :=
  isAscii_of_runes_lt s.length s (Nat.le_refl _) h

theorem isAscii_append {a b : Bytes} : IsAscii (a ++ b) ↔ IsAscii a ∧ IsAscii b := by
  unfold IsAscii
  simp only [List.mem_append]
  exact ⟨fun h => ⟨fun x hx => h x (Or.inl hx), fun x hx => h x (Or.inr hx)⟩,
    fun h x hx => hx.elim (h.1 x) (h.2 x)⟩


/-! ### encoding -/

theorem encodeRune_ascii {c : Nat} (h : c < 128) : encodeRune c = [UInt8.ofNat c] := by
  unfold encodeRune
  have : (if (0xD800 ≤ c ∧ c ≤ 0xDFFF) ∨ c > 0x10FFFF then runeError else c) = c := if_neg (by omega)
  simp only [this]
  rw [if_pos h]

theorem toNat_ofNat_lt {c : Nat} (h : c < 256) : (UInt8.ofNat c).toNat = c := by
  rw [UInt8.toNat_ofNat']; omega

theorem isAscii_encodeRune {c : Nat} (h : c < 128) : IsAscii (encodeRune c) := by
  rw [encodeRune_ascii h]
  intro b hb
  simp only [List.mem_cons, List.not_mem_nil, or_false] at hb
  subst hb
  rw [toNat_ofNat_lt (by omega)]; exact h

theorem runeList_encodeRune_ascii {c : Nat} (h : c < 128) : runeList (encodeRune c) = [c] := by
  rw [runeList_ascii _ (isAscii_encodeRune h), encodeRune_ascii h]
  simp [toNat_ofNat_lt (show c < 256 by omega)]


theorem containsRune_iff (t : Bytes) (r : Nat) : containsRune t r = true ↔ r ∈ runeList t := by
  unfold containsRune runeList
  rw [List.any_eq_true, List.mem_map]
  constructor
  · rintro ⟨p, hp, hr⟩; exact ⟨p, hp, by simpa using hr⟩
  · rintro ⟨p, hp, hr⟩; exact ⟨p, hp, by simpa using hr⟩


/-! ### runes below U+0800 (one or two bytes) -/

theorem runeList_cons_ascii (b : UInt8) (rest : Bytes) (h : b.toNat < 128) :
    runeList (b :: rest) = b.toNat :: runeList rest := by
  rw [runeList_eq, runesFrom_cons_ascii 0 b rest h, List.map_cons, runesFrom_snd]

theorem encodeRune_two {c : Nat} (h1 : 128 ≤ c) (h2 : c < 0x800) :
    encodeRune c = [UInt8.ofNat (0xC0 + c / 64), UInt8.ofNat (0x80 + c % 64)] := by
  unfold encodeRune
  have : (if (0xD800 ≤ c ∧ c ≤ 0xDFFF) ∨ c > 0x10FFFF then runeError else c) = c := if_neg (by omega)
  simp only [this]
  rw [if_neg (by omega), if_pos h2]

theorem decodeRune_two {c : Nat} (h1 : 128 ≤ c) (h2 : c < 0x800) (rest : Bytes) :
    decodeRune (UInt8.ofNat (0xC0 + c / 64) :: UInt8.ofNat (0x80 + c % 64) :: rest) = (c, 2) := by
  have e0 : (UInt8.ofNat (0xC0 + c / 64)).toNat = 0xC0 + c / 64 := toNat_ofNat_lt (by omega)
  have e1 : (UInt8.ofNat (0x80 + c % 64)).toNat = 0x80 + c % 64 := toNat_ofNat_lt (by omega)
  rw [decodeRune_branch, e0]
  rw [if_neg (by omega), if_neg (by omega), if_pos (by omega)]
  simp only [isCont, e1]
  rw [if_pos (by simp; omega)]
  congr 1
  omega

/-- a rune below U+0800 in front of any bytes is decoded as itself -/
theorem runeList_encodeRune_append {c : Nat} (h : c < 0x800) (rest : Bytes) :
    runeList (encodeRune c ++ rest) = c :: runeList rest := by
  by_cases h1 : c < 128
  · rw [encodeRune_ascii h1, List.cons_append, List.nil_append,
      runeList_cons_ascii _ _ (by rw [toNat_ofNat_lt (by omega)]; exact h1), toNat_ofNat_lt (by omega)]
  · rw [encodeRune_two (by omega) h, List.cons_append, List.cons_append, List.nil_append, runeList_eq,
      runesFrom_cons, decodeRune_two (by omega) h, List.map_cons, runesFrom_snd]
    rfl

theorem cleanStart_encodeRune {c : Nat} (h : c < 0x800) (rest : Bytes) : CleanStart (encodeRune c ++ rest) := by
  by_cases h1 : c < 128
  · rw [encodeRune_ascii h1]
    exact cleanStart_ascii (by rw [toNat_ofNat_lt (by omega)]; exact h1)
  · rw [encodeRune_two (by omega) h]
    apply cleanStart_cons
    unfold isCont
    rw [toNat_ofNat_lt (by omega)]
    simp only [Bool.and_eq_false_iff, decide_eq_false_iff_not]
    right; omega

end BV.Proofs.Utf8
