/-
  Proofs for C02 / C10 / C12 / C13 (DataMatrix): certificates tying the generated size table of the encoder to
  the ECC 200 attribute table of the reference, and the size choice of `encodeWithColor`.
-/
import BV.Model.Datamatrix
import BV.Spec.Datamatrix
namespace BV.Proofs.DmSize
open BV BV.Model BV.Model.Datamatrix BV.Spec.Datamatrix

/-! ### item 4: table certificates -/

/-- row `s` of the encoder's table describes the symbol `a` of the standard: size, regions, region size,
    mapping matrix, codeword counts, blocks, per-block counts -/
def agrees (s : CodeSize) (a : Attr) : Bool :=
  s.rows == (a.size : Int) && s.columns == (a.size : Int) &&
  s.regionCountHorizontal == (a.regionsPerSide : Int) && s.regionCountVertical == (a.regionsPerSide : Int) &&
  s.regionRows == (a.regionSize : Int) && s.regionColumns == (a.regionSize : Int) &&
  s.matrixRows == (a.mapping : Int) && s.matrixColumns == (a.mapping : Int) &&
  s.dataCodewords == (a.dataCW : Int) && s.eccCount == (a.eccCW : Int) && s.blockCount == (a.blocks : Int) &&
  s.errorCorrectionCodewordsPerBlock == (a.blockEcc : Int) &&
  (List.range a.blocks).all (fun b => s.dataCodewordsForBlock (b : Int) == (a.blockData b : Int)) &&
  -- sanity of the row itself
  decide (0 < a.blocks) && decide (0 < a.regionsPerSide) && decide (2 ≤ a.mapping) &&
  decide (a.mapping * a.mapping = 8 * (a.dataCW + a.eccCW) ∨ a.mapping * a.mapping = 8 * (a.dataCW + a.eccCW) + 4)

/-- the encoder's rows paired with the rows of the standard -/
def sizePairs : List (CodeSize × Attr) := codeSizes.zip attrTable

/-- certificate: the table has 24 rows -/
theorem codeSizes_length : codeSizes.length = 24 := by decide

/-- certificate (24 rows): every generated row agrees with the row of `attrTable` at the same position -/
theorem table_agrees : sizePairs.all (fun p => agrees p.1 p.2) = true := by decide +kernel

theorem sizePairs_fst : sizePairs.map Prod.fst = codeSizes := by decide +kernel
theorem sizePairs_snd : sizePairs.map Prod.snd = attrTable := by decide +kernel

/-- every row of the encoder's table has its partner in the standard's table -/
theorem exists_attr {s : CodeSize} (h : s ∈ codeSizes) : ∃ a, (s, a) ∈ sizePairs ∧ a ∈ attrTable ∧ agrees s a = true := by
  rw [← sizePairs_fst] at h
  obtain ⟨p, hp, rfl⟩ := List.mem_map.mp h
  refine ⟨p.2, hp, ?_, ?_⟩
  · rw [← sizePairs_snd]; exact List.mem_map.mpr ⟨p, hp, rfl⟩
  · exact List.all_eq_true.mp table_agrees p hp

/-- certificate: 144×144 has 10 blocks, eight of 156 and two of 155 data codewords, 62 check codewords each -/
theorem blocks_144 :
    ∃ s ∈ codeSizes, s.rows = 144 ∧ s.blockCount = 10 ∧ s.errorCorrectionCodewordsPerBlock = 62 ∧
      (List.range 10).map (fun (b : Nat) => s.dataCodewordsForBlock (b : Int)) =
        [156, 156, 156, 156, 156, 156, 156, 156, 155, 155] ∧ s.dataCodewords = 8 * 156 + 2 * 155 := by
  refine ⟨codeSizes.getLast (by decide), List.getLast_mem _, ?_⟩
  decide +kernel

/-- certificate: the field parameters passed to `NewGaloisField` -/
theorem field_params : Gen.Datamatrix.call_NewGaloisField = [[301, 256, 1]] := rfl

/-- the encoder's field is GF(256) with the polynomial x^8+x^5+x^3+x^2+1 (301 = 0x12D) of the standard,
    generator base 1 -/
theorem ecField_eq : ecField = GF.newField Spec.RS.dmField.pp Spec.RS.dmField.size 1 := rfl

/-! ### item 3: the size choice -/

/-- the `for _, s := range codeSizes { if s.DataCodewords() >= len(data) … break }` loop -/
def chooseSize (m : Nat) : Option CodeSize := codeSizes.find? (fun s => s.dataCodewords ≥ (m : Int))

/-- certificate: capacities and sizes increase strictly along the table -/
theorem table_sorted :
    codeSizes.Pairwise (fun s t => s.dataCodewords < t.dataCodewords ∧ s.rows < t.rows) := by
  decide +kernel

/-- certificate: no row holds more than 1558 codewords, the last one holds 1558 -/
theorem table_max : codeSizes.all (fun s => s.dataCodewords ≤ 1558) = true ∧
    (codeSizes.getLast (by decide)).dataCodewords = 1558 := by decide +kernel

theorem chooseSize_none (m : Nat) (h : 1558 < m) : chooseSize m = none := by
  unfold chooseSize
  rw [List.find?_eq_none]
  intro s hs
  have := List.all_eq_true.mp table_max.1 s hs
  simp only [decide_eq_true_eq] at this ⊢
  omega

/-- The chosen row: it is in the table, it holds the codewords, every earlier row does not, and no row of
    smaller symbol size (or smaller capacity) holds them. -/
theorem chooseSize_some (m : Nat) (h : m ≤ 1558) :
    ∃ s pre post, chooseSize m = some s ∧ codeSizes = pre ++ s :: post ∧ (m : Int) ≤ s.dataCodewords ∧
      (∀ t ∈ pre, t.dataCodewords < (m : Int)) ∧
      (∀ t ∈ codeSizes, (m : Int) ≤ t.dataCodewords → s.rows ≤ t.rows ∧ s.dataCodewords ≤ t.dataCodewords) := by
  unfold chooseSize
  cases hf : codeSizes.find? (fun s => s.dataCodewords ≥ (m : Int)) with
  | none =>
    rw [List.find?_eq_none] at hf
    have := hf _ (List.getLast_mem (by decide : codeSizes ≠ []))
    rw [table_max.2] at this
    simp only [decide_eq_true_eq] at this
    omega
  | some s =>
    obtain ⟨hp, pre, post, hl, hpre⟩ := List.find?_eq_some_iff_append.mp hf
    simp only [decide_eq_true_eq] at hp
    refine ⟨s, pre, post, rfl, hl, hp, ?_, ?_⟩
    · intro t ht
      have := hpre t ht
      simp only [Bool.not_eq_eq_eq_not, Bool.not_true, decide_eq_false_iff_not] at this
      omega
    · intro t ht hm
      have hs := table_sorted
      rw [hl] at hs ht
      rw [List.pairwise_append] at hs
      obtain ⟨_, h2, _⟩ := hs
      rw [List.pairwise_cons] at h2
      rcases List.mem_append.mp ht with h1 | h1
      · have := hpre t h1
        simp only [Bool.not_eq_eq_eq_not, Bool.not_true, decide_eq_false_iff_not] at this
        omega
      · rcases List.mem_cons.mp h1 with e | e
        · subst e; omega
        · have := h2.1 t e; omega

theorem chooseSize_mem {m : Nat} {s : CodeSize} (h : chooseSize m = some s) : s ∈ codeSizes :=
  List.mem_of_find?_eq_some h

/-- `EncodeWithColor` after the size choice -/
theorem encodeWithColor_eq (content : Bytes) (color : Scheme) :
    encodeWithColor content color =
      match chooseSize (encodeText content).length with
      | none => .error .rejected
      | some size =>
        (calcECC (addPadding (encodeText content) size.dataCodewords) size).bind (fun data =>
          (render data size color).bind (fun code =>
            .ok ({ code with content := content }).toBarcode)) := rfl
