/-
  RenderPdf — C11 for PDF417: colour scheme independence, metadata, and the bounds
  `17·(cols+4)+1` × `2·rows`.
-/
import BV.Proofs.Render
import BV.Model.Pdf417
namespace BV.Proofs.RenderPdf
open BV BV.Model BV.Model.Pdf417 BV.Gen.Pdf417 BV.Proofs.Render

theorem mkBarcode_recolor (d : Bytes) (w : Nat) (code : Array Bool) (s s0 : Scheme) :
    mkBarcode d w code s = (mkBarcode d w code s0).recolor s := rfl

theorem pdf_map (data : Bytes) (lvl : Nat) (s : Scheme) :
    encodeWithColor data lvl s = (encode data lvl).map (Barcode.recolor s) := by
  unfold encode encodeWithColor
  split
  · rfl
  · cases highlevelEncode data with
    | error e => rfl
    | ok dw =>
      simp only [bind, Except.bind, pure, Except.pure]
      split
      · rfl
      · cases encodeData dw _ lvl with
        | error e => rfl
        | ok cw =>
          simp only []
          split <;> rfl

/-! ### the number of rows -/

/-- `calculateNumberOfRows m k c = ⌈(m+1+k)/c⌉` -/
theorem calcRows_eq (m k c : Nat) (hc : 0 < c) :
    calculateNumberOfRows m k c =
      if (m + 1 + k) % c = 0 then (m + 1 + k) / c else (m + 1 + k) / c + 1 := by
  unfold calculateNumberOfRows
  simp only []
  have h := Nat.div_add_mod (m + 1 + k) c
  have hm := Nat.mod_lt (m + 1 + k) hc
  rw [Nat.mul_succ]
  generalize (m + 1 + k) / c = q at *
  generalize (m + 1 + k) % c = r at *
  generalize hn : m + 1 + k = n at *
  generalize c * q = t at *
  by_cases h0 : r = 0
  · subst h0
    rw [if_pos (by omega), if_pos rfl]; omega
  · rw [if_neg (by omega), if_neg h0]

/-- padding fills the last row: data + ecc + length word + padding is `c · rows` -/
theorem padded_total (m k c : Nat) (hc : 0 < c) :
    m + (getPadding m k c).length + 1 + k = c * calculateNumberOfRows m k c := by
  rw [calcRows_eq m k c hc]
  unfold getPadding
  simp only []
  rw [show m + k + 1 = m + 1 + k by omega]
  have h := Nat.div_add_mod (m + 1 + k) c
  have hm := Nat.mod_lt (m + 1 + k) hc
  by_cases h0 : (m + 1 + k) % c = 0
  · rw [if_neg (by omega), if_pos h0]
    simp only [List.length_nil]
    omega
  · rw [if_pos (by omega), if_neg h0, Nat.mul_succ, List.length_replicate]
    omega

theorem calcRows_ge_two (m k : Nat) (hk : 2 ≤ k) : 2 ≤ calculateNumberOfRows m k 2 := by
  rw [calcRows_eq m k 2 (by decide)]
  split <;> omega

/-! ### `calcDimensions` returns a column count with its own row count -/

theorem calcLoop_inv (m k : Nat) : ∀ (n c : Nat) (st : Ratio × Nat × Nat),
    (st.2.2 = 0 ∨ st.2.2 = calculateNumberOfRows m k st.2.1) →
    ((calcDimensionsLoop m k n c st).2.2 = 0 ∨
      (calcDimensionsLoop m k n c st).2.2 = calculateNumberOfRows m k (calcDimensionsLoop m k n c st).2.1) := by
  intro n
  induction n with
  | zero => intro c st h; exact h
  | succ n ih =>
    intro c st h
    obtain ⟨ratio, cols, rows⟩ := st
    unfold calcDimensionsLoop
    simp only []
    repeat' split
    all_goals first
      | exact h
      | exact ih _ _ h
      | exact ih _ (_, c, calculateNumberOfRows m k c) (Or.inr rfl)

theorem calcDimensions_rows (m k cols rows : Nat) (hk : 2 ≤ k) (h : calcDimensions m k = (cols, rows))
    (hr : rows ≠ 0) : rows = calculateNumberOfRows m k cols := by
  unfold calcDimensions at h
  have inv := calcLoop_inv m k (c_maxCols + 1 - c_minCols) c_minCols (some (0, 1), 0, 0) (Or.inl rfl)
  revert h inv
  generalize calcDimensionsLoop m k (c_maxCols + 1 - c_minCols) c_minCols (some (0, 1), 0, 0) = res
  obtain ⟨ra, c', r'⟩ := res
  intro h inv
  simp only [] at h inv
  split at h
  · rename_i h0
    split at h
    · rename_i hlt
      have := calcRows_ge_two m k hk
      simp only [c_minCols, c_minRows] at hlt
      omega
    · cases h
      simp at h0
      exact absurd h0 hr
  · cases h
    rcases inv with h0 | h1
    · exact absurd h0 hr
    · exact h1

/-! ### lengths: error correction words, code words, grid, rendered bits -/

theorem computeStep_go_size (factors : Array Nat) (count temp : Nat) :
    ∀ (n : Nat) (ec ec' : Array Nat), computeStep.go factors count temp n ec = .ok ec' → ec'.size = ec.size := by
  intro n
  induction n with
  | zero => intro ec ec' h; unfold computeStep.go at h; cases h; rfl
  | succ i ih =>
    intro ec ec' h
    unfold computeStep.go at h
    simp only [] at h
    split at h
    · cases h
    · have := ih _ _ h
      simpa using this

theorem compute_go_size (factors : Array Nat) (count : Nat) :
    ∀ (l : List Nat) (ec ec' : Array Nat), compute.go factors count l ec = .ok ec' → ec'.size = ec.size := by
  intro l
  induction l with
  | nil => intro ec ec' h; unfold compute.go at h; cases h; rfl
  | cons v rest ih =>
    intro ec ec' h
    unfold compute.go at h
    split at h
    · cases h
    · rename_i ec1 h1
      have h2 := ih _ _ h
      unfold computeStep at h1
      have h3 := computeStep_go_size _ _ _ _ _ _ h1
      omega

theorem compute_length (lvl : Nat) (data ecw : List Nat) (h : compute lvl data = .ok ecw) :
    ecw.length = errorCorrectionWordCount lvl := by
  unfold compute at h
  split at h
  · cases h
  · simp only [] at h
    split at h
    · cases h
    · rename_i ec hgo
      cases h
      have := compute_go_size _ _ _ _ _ hgo
      simpa using this

theorem encodeData_length (dw cw : List Nat) (c lvl : Nat) (hc : 0 < c) (h : encodeData dw c lvl = .ok cw) :
    cw.length = c * calculateNumberOfRows dw.length (errorCorrectionWordCount lvl) c := by
  unfold encodeData at h
  simp only [] at h
  split at h
  · cases h
  · rename_i ecw hec
    cases h
    have h1 := compute_length _ _ _ hec
    have h2 := padded_total dw.length (errorCorrectionWordCount lvl) c hc
    simp only [List.length_append, List.length_cons, h1]
    omega

theorem gridRows_shape (c : Nat) (hc : 0 < c) : ∀ (r fuel : Nat) (cw : List Nat),
    cw.length = c * r → r ≤ fuel →
    (gridRows fuel cw c).length = r ∧ ∀ row ∈ gridRows fuel cw c, row.length = c := by
  intro r
  induction r with
  | zero =>
    intro fuel cw hl _
    have : cw.length = 0 := by simpa using hl
    cases fuel with
    | zero => simp [gridRows]
    | succ f => unfold gridRows; simp [this]
  | succ r ih =>
    intro fuel cw hl hf
    cases fuel with
    | zero => omega
    | succ f =>
      rw [Nat.mul_succ] at hl
      unfold gridRows
      have hpos : cw.length > 0 := by omega
      rw [if_pos hpos]
      have hd : (cw.drop c).length = c * r := by rw [List.length_drop]; omega
      obtain ⟨h1, h2⟩ := ih f (cw.drop c) hd (by omega)
      refine ⟨by simp [h1], ?_⟩
      intro row hrow
      rcases List.mem_cons.1 hrow with h | h
      · subst h
        rw [List.length_take]
        unfold Pdf417.min
        generalize c * r = t at *
        split <;> omega
      · exact h2 row h

theorem mapM_length {α β} (f : α → Res β) : ∀ (l : List α) (out : List β), l.mapM f = .ok out → out.length = l.length := by
  intro l
  induction l with
  | nil => intro out h; simp [List.mapM_nil, pure, Except.pure] at h; subst h; rfl
  | cons a l ih =>
    intro out h
    rw [List.mapM_cons] at h
    simp only [bind, Except.bind, pure, Except.pure] at h
    split at h
    · cases h
    · split at h
      · cases h
      · rename_i t ht
        cases h
        simp [ih _ ht]

theorem rowCodes_length (rowNum : Nat) (row : List Nat) (rows c lvl : Nat) (rc : List Nat)
    (h : rowCodes rowNum row rows c lvl = .ok rc) : rc.length = row.length + 4 := by
  unfold rowCodes at h
  simp only [bind, Except.bind, pure, Except.pure] at h
  split at h
  · cases h
  · split at h
    · cases h
    · rename_i body hb
      split at h
      · cases h
      · cases h
        have := mapM_length _ _ _ hb
        simp [this]

theorem go_shape (lvl c rows : Nat) : ∀ (g : List (List Nat)) (rowNum : Nat) (codes out : List (List Nat)),
    encodeWithColor.go lvl c rows g rowNum codes = .ok out →
    (∀ row ∈ g, row.length = c) → (∀ row ∈ codes, row.length = c + 4) →
    out.length = codes.length + g.length ∧ ∀ row ∈ out, row.length = c + 4 := by
  intro g
  induction g with
  | nil => intro rowNum codes out h _ hc; unfold encodeWithColor.go at h; cases h; exact ⟨rfl, hc⟩
  | cons row rest ih =>
    intro rowNum codes out h hg hc
    unfold encodeWithColor.go at h
    simp only [bind, Except.bind] at h
    split at h
    · cases h
    · rename_i rc hrc
      have hl := rowCodes_length _ _ _ _ _ _ hrc
      have hrow := hg row (List.mem_cons_self)
      obtain ⟨h1, h2⟩ := ih _ _ _ h (fun r hr => hg r (List.mem_cons_of_mem _ hr))
        (by
          intro r hr
          rcases List.mem_append.1 hr with h | h
          · exact hc r h
          · simp at h; subst h; omega)
      refine ⟨?_, h2⟩
      simp at h1 ⊢; omega

theorem render_go_size (lastIdx : Nat) : ∀ (l : List Nat) (i : Nat) (bl : Array Bool),
    (renderBarcode.go lastIdx l i bl).size =
      bl.size + 17 * l.length + (if i ≤ lastIdx ∧ lastIdx < i + l.length then 1 else 0) := by
  intro l
  induction l with
  | nil => intro i bl; unfold renderBarcode.go; simp
  | cons col rest ih =>
    intro i bl
    unfold renderBarcode.go
    rw [ih]
    simp only [Array.size_append, List.size_toArray, msbBits, List.length_map, List.length_range,
      List.length_cons]
    by_cases h : i = lastIdx
    · subst h
      simp only [beq_self_eq_true, if_true]
      rw [if_neg (by omega), if_pos (by omega)]
      omega
    · have : (i == lastIdx) = false := by simpa using h
      simp only [this, Bool.false_eq_true, if_false]
      repeat' split
      all_goals omega

theorem renderBarcode_size (c : Nat) : ∀ (codes : List (List Nat)), (∀ row ∈ codes, row.length = c + 4) →
    (renderBarcode codes).size = codes.length * ((c + 4) * 17 + 1) := by
  intro codes
  unfold renderBarcode
  suffices ∀ (bl : Array Bool), (∀ row ∈ codes, row.length = c + 4) →
      (codes.foldl (fun bl row => renderBarcode.go (row.length - 1) row 0 bl) bl).size =
        bl.size + codes.length * ((c + 4) * 17 + 1) by
    intro h; simpa using this #[] h
  induction codes with
  | nil => intro bl _; simp
  | cons row rest ih =>
    intro bl h
    rw [List.foldl_cons, ih _ (fun r hr => h r (List.mem_cons_of_mem _ hr)), render_go_size]
    have := h row List.mem_cons_self
    rw [if_pos (by omega), this, List.length_cons]
    have e : (rest.length + 1) * ((c + 4) * 17 + 1) = rest.length * ((c + 4) * 17 + 1) + ((c + 4) * 17 + 1) :=
      Nat.succ_mul _ _
    generalize rest.length * ((c + 4) * 17 + 1) = t at *
    omega

theorem ecwc_ge_two (lvl : Nat) : 2 ≤ errorCorrectionWordCount lvl := by
  unfold errorCorrectionWordCount
  rw [Nat.one_shiftLeft]
  have := Nat.pow_le_pow_right (n := 2) (by decide) (show 1 ≤ lvl + 1 by omega)
  simpa using this

/-- Shape of an accepted PDF417 symbol. -/
theorem pdf_ok (data : Bytes) (lvl : Nat) (s : Scheme) (b : Barcode) (h : encodeWithColor data lvl s = .ok b) :
    b.kind = "PDF417" ∧ b.dims = 2 ∧ b.content = data ∧ b.checksum = none ∧ b.scheme = s ∧
    ∃ dw, highlevelEncode data = .ok dw ∧
      ∃ cols rows, calcDimensions dw.length (errorCorrectionWordCount lvl) = (cols, rows) ∧
        2 ≤ cols ∧ cols ≤ 30 ∧ 2 ≤ rows ∧ rows ≤ 30 ∧ b.w = 17 * (cols + 4) + 1 ∧ b.h = rows * 2 := by
  unfold encodeWithColor at h
  split at h
  · cases h
  · cases hdw : highlevelEncode data with
    | error e => rw [hdw] at h; cases h
    | ok dw =>
      rw [hdw] at h
      simp only [bind, Except.bind, pure, Except.pure] at h
      generalize hcd : calcDimensions dw.length (errorCorrectionWordCount lvl) = cd at h
      obtain ⟨cols, rows⟩ := cd
      simp only [] at h
      split at h
      · cases h
      · rename_i hrange
        simp only [Bool.or_eq_true, decide_eq_true_eq, not_or] at hrange
        obtain ⟨⟨⟨hc2, hc30⟩, hr2⟩, hr30⟩ := hrange
        have hc2 : 2 ≤ cols := by simp only [c_minCols] at hc2; omega
        have hc30 : cols ≤ 30 := by simp only [c_maxCols] at hc30; omega
        have hr2 : 2 ≤ rows := by simp only [c_minRows] at hr2; omega
        have hr30 : rows ≤ 30 := by simp only [c_maxRows] at hr30; omega
        cases hcw : encodeData dw cols lvl with
        | error e => rw [hcw] at h; cases h
        | ok cw =>
          rw [hcw] at h
          simp only [] at h
          split at h
          · cases h
          · rename_i codes hgo
            cases h
            refine ⟨kind_pdf, rfl, rfl, rfl, rfl, dw, rfl, cols, rows, hcd, hc2, hc30, hr2, hr30, ?_, ?_⟩
            · show (cols + 4) * 17 + 1 = _
              omega
            · have hrows := calcDimensions_rows _ _ _ _ (ecwc_ge_two lvl) hcd (by omega)
              have hlen := encodeData_length _ _ _ _ (by omega) hcw
              rw [← hrows] at hlen
              obtain ⟨g1, g2⟩ := gridRows_shape cols (by omega) rows (cw.length + 1) cw hlen (by
                rw [hlen]
                have : rows * 1 ≤ rows * cols := Nat.mul_le_mul_left rows (by omega)
                rw [Nat.mul_comm cols rows]; omega)
              obtain ⟨k1, k2⟩ := go_shape _ _ _ _ _ _ _ hgo g2 (by simp)
              have hsz := renderBarcode_size cols codes k2
              show (renderBarcode codes).size / ((cols + 4) * 17 + 1) * c_moduleHeight = rows * 2
              rw [hsz, k1, g1]
              simp [c_moduleHeight]

end BV.Proofs.RenderPdf
