/-
  BV.Proofs.Twooffive — lemmas for C08 (2 of 5): the encoder model against `Spec.OneD.tofDecodeStandard`,
  `tofDecodeInterleaved`, `tofWeightedSum`.
-/
import BV.Model.Twooffive
import BV.Proofs.OneD
namespace BV.Proofs.Twooffive
open BV BV.Model BV.Model.Twooffive BV.Spec.OneD BV.Proofs.Ascii BV.Proofs.OneD

/-! ### vocabulary -/

/-- the five wide flags of a digit (weights 1-2-4-7-parity), from the reference -/
def pat (d : Nat) : List Bool := twoOfFive d
/-- element width: wide = 3 modules, narrow = 1 -/
def wOf (b : Bool) : Nat := if b then 3 else 1
/-- standard 2 of 5: five bars carrying the digit, each followed by a narrow space -/
def stdW (d : Nat) : List Nat := (pat d).flatMap (fun b => [wOf b, 1])
/-- interleaved 2 of 5: bars carry the first digit, spaces the second -/
def ilW (d1 d2 : Nat) : List Nat := (List.zipWith (fun a b => [wOf a, wOf b]) (pat d1) (pat d2)).flatten
def startStd : List Nat := [2, 1, 2, 1, 1, 1]
def stopStd : List Nat := [2, 1, 1, 1, 2]
def startIl : List Nat := [1, 1, 1, 1]
def stopIl : List Nat := [3, 1, 1]

def pairs : List Nat → List (Nat × Nat)
  | a :: b :: rest => (a, b) :: pairs rest
  | _ => []

/-- element widths of a standard symbol -/
def widthsStd (ds : List Nat) : List Nat := startStd ++ (ds.map stdW).flatten ++ stopStd
/-- element widths of an interleaved symbol -/
def widthsIl (ds : List Nat) : List Nat := startIl ++ ((pairs ds).map (fun p => ilW p.1 p.2)).flatten ++ stopIl

/-! ### table certificates (by `decide`) -/

theorem table_keys : table.map (·.1) = [48, 49, 50, 51, 52, 53, 54, 55, 56, 57] := by decide

theorem table_digit : ∀ d : Fin 10, mapGet table ((48 + d.val : Nat) : Int) = some (pat d.val) := by decide

theorem mapGet_byte (b : UInt8) (h : isDigitByte b = true) : mapGet table (b.toNat : Int) = some (pat (b.toNat - 48)) := by
  rw [isDigitByte_iff] at h
  have := table_digit ⟨b.toNat - 48, by omega⟩
  simp only at this
  rwa [show 48 + (b.toNat - 48) = b.toNat by omega] at this

theorem mapGet_nondigit (r : Nat) (h : ¬ (48 ≤ r ∧ r ≤ 57)) : mapGet table (r : Int) = none := by
  unfold mapGet
  rw [List.lookup_eq_none_iff]
  intro p hp
  have : p.1 ∈ table.map (·.1) := List.mem_map_of_mem hp
  rw [table_keys] at this
  simp only [List.mem_cons, List.not_mem_nil, or_false] at this
  simp only [bne_iff_ne, ne_eq]
  omega

/-- certificate: a digit drawn by the standard mode is its element-width pattern -/
theorem std_draw : ∀ d : Fin 10,
    drawPair (modeOf false) (pat d.val) Gen.Twooffive.v_nonInterleavedSpace = drawW (stdW d.val) := by decide

/-- certificate: a digit pair drawn by the interleaved mode is its element-width pattern -/
theorem il_draw : ∀ d1 d2 : Fin 10,
    drawPair (modeOf true) (pat d1.val) (pat d2.val) = drawW (ilW d1.val d2.val) := by decide

theorem modes_draw :
    (modeOf false).start = drawW startStd ∧ (modeOf false).stop = drawW stopStd ∧
    (modeOf true).start = drawW startIl ∧ (modeOf true).stop = drawW stopIl := by decide

/-- certificate: element groups have ten positive elements and decode to their digit(s) -/
theorem std_group : ∀ d : Fin 10, (stdW d.val).length = 10 ∧ (∀ w ∈ stdW d.val, 0 < w) := by decide

theorem il_group : ∀ d1 d2 : Fin 10, (ilW d1.val d2.val).length = 10 ∧ (∀ w ∈ ilW d1.val d2.val, 0 < w) ∧
    (ilW d1.val d2.val).any (fun w => w ≠ 1 ∧ w ≠ 3) = false := by decide

/-! ### the reference decoders on element-width lists -/

/-- the per-group step of the standard decoder -/
def stdStep (grp : List Nat) : Except String Nat := do
    let bars := (List.range 5).map (fun i => grp.getD (2 * i) 0)
    let spaces := (List.range 5).map (fun i => grp.getD (2 * i + 1) 0)
    if spaces.any (· ≠ 1) then throw "space is not narrow"
    if bars.any (fun w => w ≠ 1 ∧ w ≠ 3) then throw "bar is neither narrow nor wide"
    match tofDigit (bars.map (· == 3)) with
    | some d => pure (48 + d)
    | none => throw "not a 2-of-5 pattern"

theorem stdStep_digit : ∀ d : Fin 10, isOk (stdStep (stdW d.val)) (48 + d.val) = true := by decide

theorem tofDecodeStandard_eq (bits : List Bool) : tofDecodeStandard bits = (do
  let ws ← match widthsFromBar (runLengths bits) with
    | some ws => pure ws
    | none => throw "does not start with a bar"
  if ws.take 6 ≠ [2, 1, 2, 1, 1, 1] then throw "start pattern"
  if ws.length < 11 ∨ ws.drop (ws.length - 5) ≠ [2, 1, 1, 1, 2] then throw "stop pattern"
  let body := (ws.drop 6).take (ws.length - 11)
  if body.length % 10 ≠ 0 then throw "data elements are not groups of ten"
  (splitEvery 10 body).mapM stdStep) := rfl

theorem tofDecodeStandard_widths (bits : List Bool) (body : List Nat)
    (h : widthsFromBar (runLengths bits) = some (startStd ++ body ++ stopStd)) (hb : body.length % 10 = 0) :
    tofDecodeStandard bits = (splitEvery 10 body).mapM stdStep := by
  rw [tofDecodeStandard_eq, h]
  obtain ⟨f1, f2, f3⟩ := frame3 startStd body stopStd
  have hlen : (startStd ++ body ++ stopStd).length = body.length + 11 := by
    simp only [List.length_append, startStd, stopStd, List.length_cons, List.length_nil]; omega
  rw [hlen] at f2 f3
  have g1 : ¬ ((startStd ++ body ++ stopStd).take 6 ≠ [2, 1, 2, 1, 1, 1]) := by
    rw [show (6 : Nat) = startStd.length from rfl, f1]; simp [startStd]
  have g2 : ¬ ((startStd ++ body ++ stopStd).length < 11 ∨
      (startStd ++ body ++ stopStd).drop ((startStd ++ body ++ stopStd).length - 5) ≠ [2, 1, 1, 1, 2]) := by
    rw [hlen, show (5 : Nat) = stopStd.length from rfl, f2]; simp [stopStd]
  have g3 : ((startStd ++ body ++ stopStd).drop 6).take ((startStd ++ body ++ stopStd).length - 11) = body := by
    rw [hlen]; exact f3
  simp only [g1, g2, g3, hb, if_false, pure_bind, ne_eq, not_true_eq_false]

/-- the per-group step of the interleaved decoder -/
def ilStep (grp : List Nat) : Except String (List Nat) := do
    let bars := (List.range 5).map (fun i => grp.getD (2 * i) 0 == 3)
    let spaces := (List.range 5).map (fun i => grp.getD (2 * i + 1) 0 == 3)
    match tofDigit bars, tofDigit spaces with
    | some a, some b => pure [48 + a, 48 + b]
    | _, _ => throw "not a 2-of-5 pattern"

theorem ilStep_digits : ∀ d1 d2 : Fin 10, isOk (ilStep (ilW d1.val d2.val)) [48 + d1.val, 48 + d2.val] = true := by
  decide

theorem tofDecodeInterleaved_eq (bits : List Bool) : tofDecodeInterleaved bits = (do
  let ws ← match widthsFromBar (runLengths bits) with
    | some ws => pure ws
    | none => throw "does not start with a bar"
  if ws.take 4 ≠ [1, 1, 1, 1] then throw "start pattern"
  if ws.length < 7 ∨ ws.drop (ws.length - 3) ≠ [3, 1, 1] then throw "stop pattern"
  let body := (ws.drop 4).take (ws.length - 7)
  if body.length % 10 ≠ 0 then throw "data elements are not groups of ten"
  if body.any (fun w => w ≠ 1 ∧ w ≠ 3) then throw "element is neither narrow nor wide"
  let pairs ← (splitEvery 10 body).mapM ilStep
  pure pairs.flatten) := rfl

theorem tofDecodeInterleaved_widths (bits : List Bool) (body : List Nat)
    (h : widthsFromBar (runLengths bits) = some (startIl ++ body ++ stopIl)) (hb : body.length % 10 = 0)
    (hw : body.any (fun w => w ≠ 1 ∧ w ≠ 3) = false) :
    tofDecodeInterleaved bits = (do let pairs ← (splitEvery 10 body).mapM ilStep; pure pairs.flatten) := by
  rw [tofDecodeInterleaved_eq, h]
  obtain ⟨f1, f2, f3⟩ := frame3 startIl body stopIl
  have hlen : (startIl ++ body ++ stopIl).length = body.length + 7 := by
    simp only [List.length_append, startIl, stopIl, List.length_cons, List.length_nil]; omega
  rw [hlen] at f2 f3
  have g1 : ¬ ((startIl ++ body ++ stopIl).take 4 ≠ [1, 1, 1, 1]) := by
    rw [show (4 : Nat) = startIl.length from rfl, f1]; simp [startIl]
  have g2 : ¬ ((startIl ++ body ++ stopIl).length < 7 ∨
      (startIl ++ body ++ stopIl).drop ((startIl ++ body ++ stopIl).length - 3) ≠ [3, 1, 1]) := by
    rw [hlen, show (3 : Nat) = stopIl.length from rfl, f2]; simp [stopIl]
  have g3 : ((startIl ++ body ++ stopIl).drop 4).take ((startIl ++ body ++ stopIl).length - 7) = body := by
    rw [hlen]; exact f3
  simp only [g1, g2, g3, hb, hw, if_false, pure_bind, ne_eq, not_true_eq_false, Bool.false_eq_true]

/-! ### the encoder loops on digit strings -/

theorem go_std (bs : Bytes) (hd : AllDigits bs) (off : Nat) (acc : List Bool) :
    encodeWithColor.go false (modeOf false) (asciiRunes off bs) none acc =
      some (acc ++ ((digitsOf bs).map (fun d => drawW (stdW d))).flatten) := by
  induction bs generalizing off acc with
  | nil => simp [asciiRunes, encodeWithColor.go, digitsOf]
  | cons b bs ih =>
    obtain ⟨hb, hbs⟩ := hd.cons
    have hlt : b.toNat - 48 < 10 := by rw [isDigitByte_iff] at hb; omega
    simp only [asciiRunes, encodeWithColor.go, mapGet_byte b hb, Bool.false_eq_true, if_false]
    rw [ih hbs, std_draw ⟨b.toNat - 48, hlt⟩]
    simp [digitsOf]

theorem go_il (n : Nat) : ∀ (bs : Bytes), bs.length = 2 * n → AllDigits bs → ∀ (off : Nat) (acc : List Bool),
    encodeWithColor.go true (modeOf true) (asciiRunes off bs) none acc =
      some (acc ++ ((pairs (digitsOf bs)).map (fun p => drawW (ilW p.1 p.2))).flatten) := by
  induction n with
  | zero =>
    intro bs hl _ off acc
    have : bs = [] := by simpa using hl
    subst this
    simp [asciiRunes, encodeWithColor.go, digitsOf, pairs]
  | succ n ih =>
    intro bs hl hd off acc
    match bs, hl with
    | b1 :: b2 :: bs, hl =>
      obtain ⟨hb1, hd'⟩ := hd.cons
      obtain ⟨hb2, hbs⟩ := hd'.cons
      have hlt1 : b1.toNat - 48 < 10 := by rw [isDigitByte_iff] at hb1; omega
      have hlt2 : b2.toNat - 48 < 10 := by rw [isDigitByte_iff] at hb2; omega
      simp only [asciiRunes, encodeWithColor.go, mapGet_byte b1 hb1, mapGet_byte b2 hb2, if_true]
      rw [ih bs (by simp only [List.length_cons] at hl; omega) hbs, il_draw ⟨_, hlt1⟩ ⟨_, hlt2⟩]
      simp [digitsOf, pairs]

/-! ### rejection -/

theorem go_std_bad (pre : Bytes) (hp : AllDigits pre) (off k r : Nat) (tl : List (Nat × Nat)) (acc : List Bool)
    (hr : mapGet table (r : Int) = none) (m : Mode) :
    encodeWithColor.go false m (asciiRunes off pre ++ (k, r) :: tl) none acc = none := by
  induction pre generalizing off acc with
  | nil => simp [asciiRunes, encodeWithColor.go, hr]
  | cons b pre ih =>
    obtain ⟨hb, hpre⟩ := hp.cons
    simp only [asciiRunes, List.cons_append, encodeWithColor.go, mapGet_byte b hb, Bool.false_eq_true, if_false]
    exact ih hpre _ _

theorem go_il_pending_bad (r : Nat) (hr : mapGet table (r : Int) = none) (m : Mode) (tl : List (Nat × Nat))
    (acc : List Bool) : encodeWithColor.go true m tl (some r) acc = none := by
  cases tl with
  | nil => simp [encodeWithColor.go]
  | cons p tl => obtain ⟨k, r2⟩ := p; simp [encodeWithColor.go, hr]

theorem go_il_bad (pre : Bytes) (off k r : Nat) (tl : List (Nat × Nat)) (last : Option Nat) (acc : List Bool)
    (hr : mapGet table (r : Int) = none) (m : Mode) :
    encodeWithColor.go true m (asciiRunes off pre ++ (k, r) :: tl) last acc = none := by
  induction pre generalizing off acc last with
  | nil =>
    cases last with
    | none =>
      simp only [asciiRunes, List.nil_append, encodeWithColor.go, if_true]
      exact go_il_pending_bad r hr m tl acc
    | some l =>
      simp only [asciiRunes, List.nil_append, encodeWithColor.go, if_true, hr]
      split <;> simp_all
  | cons b pre ih =>
    cases last with
    | none =>
      simp only [asciiRunes, List.cons_append, encodeWithColor.go, if_true]
      exact ih _ _ _
    | some l =>
      simp only [asciiRunes, List.cons_append, encodeWithColor.go, if_true]
      split
      · exact ih _ _ _
      · rfl

/-- the rune that `range` yields at the first non-digit byte is not in the table -/
theorem first_bad_rune (code : Bytes) (h : ¬ AllDigits code) :
    ∃ (pre : Bytes) (r : Nat) (tl : List (Nat × Nat)) (k : Nat),
      AllDigits pre ∧ mapGet table (r : Int) = none ∧ runes code = asciiRunes 0 pre ++ (k, r) :: tl := by
  obtain ⟨pre, b, rest, rfl, hpre, hb⟩ := split_first_bad isDigitByte code h
  obtain ⟨r, tl, hr, hrunes⟩ := runes_first_bad pre rest b (AllDigits.ascii hpre)
  refine ⟨pre, r, tl, pre.length, hpre, ?_, hrunes⟩
  apply mapGet_nondigit
  have hb' : ¬ (48 ≤ b.toNat ∧ b.toNat ≤ 57) := by
    rw [← isDigitByte_iff]; simp [hb]
  rcases hr with hr | hr
  · rw [hr]; exact hb'
  · omega

theorem encode_nondigit (content : Bytes) (il : Bool) (s : Scheme) (h : ¬ AllDigits content) :
    encodeWithColor content il s = .error .rejected := by
  obtain ⟨pre, r, tl, k, hpre, hr, hrunes⟩ := first_bad_rune content h
  unfold encodeWithColor
  split
  · rfl
  · split
    · rfl
    · simp only [hrunes]
      cases il with
      | false => rw [go_std_bad pre hpre 0 k r tl _ hr]
      | true => rw [go_il_bad pre 0 k r tl none _ hr]

/-! ### `EncodeWithColor` on accepted inputs -/

theorem kindStd : kindStr Gen.Root.c_Type2of5 = "2 of 5" := by decide
theorem kindIl : kindStr Gen.Root.c_Type2of5Interleaved = "2 of 5 (interleaved)" := by decide

theorem stdW_even (ds : List Nat) (hd : ∀ d ∈ ds, d < 10) : ∀ g ∈ ds.map stdW, g.length % 2 = 0 := by
  intro g hg
  simp only [List.mem_map] at hg
  obtain ⟨d, hd', rfl⟩ := hg
  rw [(std_group ⟨d, hd d hd'⟩).1]

theorem pairs_lt (ds : List Nat) (hd : ∀ d ∈ ds, d < 10) : ∀ p ∈ pairs ds, p.1 < 10 ∧ p.2 < 10 := by
  match ds with
  | [] => simp [pairs]
  | [_] => simp [pairs]
  | a :: b :: rest =>
    intro p hp
    simp only [pairs, List.mem_cons] at hp
    rcases hp with hp | hp
    · rw [hp]; exact ⟨hd a (by simp), hd b (by simp)⟩
    · exact pairs_lt rest (fun d h => hd d (by simp [h])) p hp

theorem ilW_even (ds : List Nat) (hd : ∀ d ∈ ds, d < 10) :
    ∀ g ∈ (pairs ds).map (fun p => ilW p.1 p.2), g.length % 2 = 0 := by
  intro g hg
  simp only [List.mem_map] at hg
  obtain ⟨p, hp, rfl⟩ := hg
  obtain ⟨h1, h2⟩ := pairs_lt ds hd p hp
  rw [(il_group ⟨p.1, h1⟩ ⟨p.2, h2⟩).1]

theorem encode_std (content : Bytes) (s : Scheme) (hne : content ≠ []) (hd : AllDigits content) :
    encodeWithColor content false s =
      .ok (mk1D "2 of 5" content (drawW (widthsStd (digitsOf content))) none s) := by
  unfold encodeWithColor
  have h0 : content.isEmpty = false := by cases content <;> simp_all
  simp only [h0, Bool.false_eq_true, if_false, Bool.false_and, runes_ascii _ hd.ascii, go_std content hd, kindStd]
  congr 2
  rw [modes_draw.1, modes_draw.2.1, widthsStd, drawW_append _ _ (by
        rw [List.length_append, show startStd.length = 6 from rfl]
        have := flatten_length_even _ (stdW_even _ (digitsOf_lt hd)); omega),
    drawW_append _ _ (show startStd.length % 2 = 0 from rfl), drawW_flatten _ (stdW_even _ (digitsOf_lt hd)),
    List.map_map]
  rfl

theorem encode_il (content : Bytes) (s : Scheme) (hne : content ≠ []) (hd : AllDigits content)
    (he : content.length % 2 = 0) :
    encodeWithColor content true s =
      .ok (mk1D "2 of 5 (interleaved)" content (drawW (widthsIl (digitsOf content))) none s) := by
  unfold encodeWithColor
  have h0 : content.isEmpty = false := by cases content <;> simp_all
  have h1 : ¬ ((true && content.length % 2 == 1) = true) := by simp [he]
  simp only [h0, Bool.false_eq_true, if_false, h1, runes_ascii _ hd.ascii,
    go_il (content.length / 2) content (by omega) hd, kindIl, if_true]
  congr 2
  rw [modes_draw.2.2.1, modes_draw.2.2.2, widthsIl, drawW_append _ _ (by
        rw [List.length_append, show startIl.length = 4 from rfl]
        have := flatten_length_even _ (ilW_even _ (digitsOf_lt hd)); omega),
    drawW_append _ _ (show startIl.length % 2 = 0 from rfl), drawW_flatten _ (ilW_even _ (digitsOf_lt hd)),
    List.map_map]
  rfl

/-! ### decoding the drawn symbols -/

theorem runeVals (content : Bytes) (hd : AllDigits content) :
    (digitsOf content).map (48 + ·) = content.map (·.toNat) := by
  simp only [digitsOf, List.map_map]
  apply List.map_congr_left
  intro b hb
  have := (isDigitByte_iff b).1 (hd b hb)
  simp only [Function.comp]
  omega

theorem decode_std (ds : List Nat) (hd : ∀ d ∈ ds, d < 10) :
    tofDecodeStandard (drawW (widthsStd ds)) = .ok (ds.map (48 + ·)) := by
  have hlen : ∀ g ∈ ds.map stdW, g.length = 10 := by
    intro g hg
    simp only [List.mem_map] at hg
    obtain ⟨d, hd', rfl⟩ := hg
    exact (std_group ⟨d, hd d hd'⟩).1
  have hpos : ∀ w ∈ widthsStd ds, 0 < w := by
    intro w hw
    simp only [widthsStd, List.mem_append, List.mem_flatten, List.mem_map] at hw
    rcases hw with (hw | ⟨g, ⟨d, hd', rfl⟩, hw⟩) | hw
    · revert w; decide
    · exact (std_group ⟨d, hd d hd'⟩).2 w hw
    · revert w; decide
  rw [tofDecodeStandard_widths (drawW (widthsStd ds)) ((ds.map stdW).flatten) (widths_drawW _ hpos)
    (by rw [flatten_length_const 10 _ hlen]; omega),
    splitEvery_flatten 10 (by omega) _ hlen]
  exact mapM_map_ok _ _ _ _ (fun d hd' => eq_of_isOk _ _ (stdStep_digit ⟨d, hd d hd'⟩))

theorem flatten_pairs (ds : List Nat) (h : ds.length % 2 = 0) :
    ((pairs ds).map (fun p => [48 + p.1, 48 + p.2])).flatten = ds.map (48 + ·) := by
  match ds with
  | [] => rfl
  | [_] => simp at h
  | a :: b :: rest =>
    simp only [pairs, List.map_cons, List.flatten_cons, List.cons_append, List.nil_append]
    rw [flatten_pairs rest (by simp only [List.length_cons] at h; omega)]

theorem decode_il (ds : List Nat) (hd : ∀ d ∈ ds, d < 10) (he : ds.length % 2 = 0) :
    tofDecodeInterleaved (drawW (widthsIl ds)) = .ok (ds.map (48 + ·)) := by
  have hp := pairs_lt ds hd
  have hlen : ∀ g ∈ (pairs ds).map (fun p => ilW p.1 p.2), g.length = 10 := by
    intro g hg
    simp only [List.mem_map] at hg
    obtain ⟨p, hp', rfl⟩ := hg
    exact (il_group ⟨p.1, (hp p hp').1⟩ ⟨p.2, (hp p hp').2⟩).1
  have hpos : ∀ w ∈ widthsIl ds, 0 < w := by
    intro w hw
    simp only [widthsIl, List.mem_append, List.mem_flatten, List.mem_map] at hw
    rcases hw with (hw | ⟨g, ⟨p, hp', rfl⟩, hw⟩) | hw
    · revert w; decide
    · exact (il_group ⟨p.1, (hp p hp').1⟩ ⟨p.2, (hp p hp').2⟩).2.1 w hw
    · revert w; decide
  have hany : ((pairs ds).map (fun p => ilW p.1 p.2)).flatten.any (fun w => w ≠ 1 ∧ w ≠ 3) = false := by
    rw [List.any_flatten, List.any_eq_false]
    intro g hg
    simp only [List.mem_map] at hg
    obtain ⟨p, hp', rfl⟩ := hg
    simpa using (il_group ⟨p.1, (hp p hp').1⟩ ⟨p.2, (hp p hp').2⟩).2.2
  rw [tofDecodeInterleaved_widths (drawW (widthsIl ds)) _ (widths_drawW _ hpos) (by rw [flatten_length_const 10 _ hlen]; omega) hany,
    splitEvery_flatten 10 (by omega) _ hlen,
    mapM_map_ok _ _ (fun p : Nat × Nat => [48 + p.1, 48 + p.2]) _
      (fun p hp' => eq_of_isOk _ _ (ilStep_digits ⟨p.1, (hp p hp').1⟩ ⟨p.2, (hp p hp').2⟩))]
  show Except.ok _ = _
  rw [flatten_pairs ds he]

/-! ### `AddCheckSum` -/

theorem addCheckSum_go_digits (bs : Bytes) (hd : AllDigits bs) (off : Nat) (even : Bool) (sum : Int) :
    addCheckSum.go (asciiRunes off bs) even sum = some (sum + (altB (digitsOf bs) even : Nat)) := by
  induction bs generalizing off even sum with
  | nil => simp [asciiRunes, addCheckSum.go, digitsOf, altB]
  | cons b bs ih =>
    obtain ⟨hb, hbs⟩ := hd.cons
    simp only [asciiRunes, addCheckSum.go, mapGet_byte b hb, runeToInt_digit b hb]
    rw [ih hbs]
    congr 1
    simp only [digitsOf, List.map_cons, altB]
    cases even <;> simp <;> omega

theorem addCheckSum_go_bad (pre : Bytes) (hp : AllDigits pre) (off k r : Nat) (tl : List (Nat × Nat)) (even : Bool)
    (sum : Int) (hr : mapGet table (r : Int) = none) :
    addCheckSum.go (asciiRunes off pre ++ (k, r) :: tl) even sum = none := by
  induction pre generalizing off even sum with
  | nil => simp [asciiRunes, addCheckSum.go, hr]
  | cons b pre ih =>
    obtain ⟨hb, hpre⟩ := hp.cons
    simp only [asciiRunes, List.cons_append, addCheckSum.go, mapGet_byte b hb]
    exact ih hpre _ _ _

/-- the digit `AddCheckSum` appends -/
def checkDigit (ds : List Nat) : Nat := (10 - alt ds.reverse 3 % 10) % 10

theorem checkDigit_lt (ds : List Nat) : checkDigit ds < 10 := by unfold checkDigit; omega

theorem checkDigit_spec (ds : List Nat) : tofWeightedSum (ds ++ [checkDigit ds]) % 10 = 0 := by
  rw [tofWeightedSum, List.reverse_append, List.reverse_singleton, List.singleton_append, tof_go_eq, alt]
  simp only [checkDigit, Nat.zero_add, Nat.mul_one, show 4 - 1 = 3 from rfl]
  omega

theorem addCheckSum_digits (content : Bytes) (hne : content ≠ []) (hd : AllDigits content) :
    addCheckSum content = some (content ++ [digitByte (checkDigit (digitsOf content))]) := by
  unfold addCheckSum
  have h0 : content.isEmpty = false := by cases content <;> simp_all
  simp only [h0, Bool.false_eq_true, if_false, runes_ascii _ hd.ascii, addCheckSum_go_digits content hd]
  have hw : wt ((content.length % 2 == 1) ^^ ((digitsOf content).length % 2 == 0)) = 3 := by
    rw [digitsOf_length]
    rcases Nat.mod_two_eq_zero_or_one content.length with h | h <;> simp [h, wt]
  rw [altB_eq_alt_reverse, hw, Int.zero_add, intToRune_check]
  show some (content ++ encodeRune (48 + checkDigit (digitsOf content))) = _
  rw [encodeRune_digit _ (checkDigit_lt _)]

theorem addCheckSum_bad (content : Bytes) (h : content = [] ∨ ¬ AllDigits content) : addCheckSum content = none := by
  rcases h with h | h
  · subst h; rfl
  · obtain ⟨pre, r, tl, k, hpre, hr, hrunes⟩ := first_bad_rune content h
    unfold addCheckSum
    split
    · rfl
    · simp only [hrunes, addCheckSum_go_bad pre hpre 0 k r tl _ _ hr]

/-! ### vocabulary of the property -/

/-- the inputs the 2-of-5 encoder must accept: a non-empty ASCII digit string, of even length when interleaved -/
def Accepts (c : Bytes) (interleaved : Bool) : Prop :=
  c ≠ [] ∧ AllDigits c ∧ (interleaved = true → c.length % 2 = 0)

instance (c : Bytes) (il : Bool) : Decidable (Accepts c il) := by unfold Accepts; infer_instance

/-- the barcode the encoder must return -/
def expected (c : Bytes) (interleaved : Bool) (s : Scheme) : Barcode :=
  mk1D (if interleaved then "2 of 5 (interleaved)" else "2 of 5") c
    (drawW (if interleaved then widthsIl (digitsOf c) else widthsStd (digitsOf c))) none s

theorem encode_accepts (c : Bytes) (il : Bool) (s : Scheme) (h : Accepts c il) :
    encodeWithColor c il s = .ok (expected c il s) := by
  obtain ⟨hne, hd, he⟩ := h
  cases il with
  | false => rw [encode_std c s hne hd]; rfl
  | true => rw [encode_il c s hne hd (he rfl)]; rfl

theorem encode_rejects (c : Bytes) (il : Bool) (s : Scheme) (h : ¬ Accepts c il) :
    encodeWithColor c il s = .error .rejected := by
  by_cases hd : AllDigits c
  · by_cases hne : c = []
    · subst hne; rfl
    · have he : ¬ (il = true → c.length % 2 = 0) := fun he => h ⟨hne, hd, he⟩
      have hil : il = true := by cases il <;> simp_all
      have hodd : c.length % 2 = 1 := by
        have : ¬ c.length % 2 = 0 := fun h0 => he (fun _ => h0)
        omega
      unfold encodeWithColor
      simp [hil, hodd]
  · exact encode_nondigit c il s hd

end BV.Proofs.Twooffive
