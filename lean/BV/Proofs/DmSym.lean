/-
  Symbolic placement run for the DataMatrix proofs (C02, item 6).

  `Sym.run nrow ncol ncw` walks the mapping matrix exactly like `CodeLayout.setValues` and like the Annex F
  program of the reference, but instead of bits it records *which* codeword bit goes to which cell:
  a log of `(cell, tag)` with `tag = 10·chr + bit` (chr = 1…, bit = 1…8; 1 = fixed dark module) plus an
  occupancy bitmask (`Nat`, so that the kernel evaluates a run in linear time).
  It answers `none` whenever anything happens on which the implementation and the reference could differ:
  a cell written twice, a cell or an occupancy test outside the matrix, more codewords than expected, fuel
  exhausted.  `BV.Proofs.DmPlaceM` / `DmPlaceS` prove that a run answering `some` describes both.
-/
import BV.Base
namespace BV.Proofs.DmSym

structure PS where
  occ : Nat                  -- bit i set ⇔ cell i (row-major) has been written
  log : List (Nat × Nat)     -- (cell, tag), newest first

/-- the tag recorded for a cell (0 = never written) -/
def tagAt : List (Nat × Nat) → Nat → Nat
  | [], _ => 0
  | (j, t) :: rest, i => if j = i then t else tagAt rest i

/-- the two wrap-around rules of `Set` / `module` for negative coordinates -/
def wrap (nrow ncol : Nat) (row col : Int) : Int × Int :=
  match (if row < 0 then (row + nrow, col + (4 - (((nrow + 4) % 8 : Nat) : Int))) else (row, col) : Int × Int) with
  | (r, c) => if c < 0 then (r + (4 - (((ncol + 4) % 8 : Nat) : Int)), c + ncol) else (r, c)

/-- `Set` / `module`: wrap negative coordinates, then record `tag` at the cell, which must be inside the
    matrix and free (the `match`es make the kernel evaluate the shared subterms once) -/
def PS.set (nrow ncol : Nat) (st : PS) (row col : Int) (tag : Nat) : Option PS :=
  match wrap nrow ncol row col with
  | (r, c) =>
    match c + r * ncol with
    | .ofNat i =>
      if i < nrow * ncol then
        if st.occ.testBit i then none
        else some { occ := st.occ ||| (1 <<< i), log := (i, tag) :: st.log }
      else none
    | .negSucc _ => none

/-- the eight bits of codeword `chr` on the listed positions -/
def PS.shape (nrow ncol : Nat) (st : PS) (ps : List ((Int × Int) × Nat)) (chr : Nat) : Option PS :=
  ps.foldlM (fun st p => st.set nrow ncol p.1.1 p.1.2 (10 * chr + (p.2 + 1))) st

def utahPos (row col : Int) : List (Int × Int) :=
  [(row - 2, col - 2), (row - 2, col - 1), (row - 1, col - 2), (row - 1, col - 1), (row - 1, col),
   (row, col - 2), (row, col - 1), (row, col)]

def corner1Pos (n m : Int) : List (Int × Int) :=
  [(n-1, 0), (n-1, 1), (n-1, 2), (0, m-2), (0, m-1), (1, m-1), (2, m-1), (3, m-1)]
def corner2Pos (n m : Int) : List (Int × Int) :=
  [(n-3, 0), (n-2, 0), (n-1, 0), (0, m-4), (0, m-3), (0, m-2), (0, m-1), (1, m-1)]
def corner3Pos (n m : Int) : List (Int × Int) :=
  [(n-3, 0), (n-2, 0), (n-1, 0), (0, m-2), (0, m-1), (1, m-1), (2, m-1), (3, m-1)]
def corner4Pos (n m : Int) : List (Int × Int) :=
  [(n-1, 0), (n-1, m-1), (0, m-3), (0, m-2), (0, m-1), (1, m-3), (1, m-2), (1, m-1)]

/-- `if guard { shape(ps, data[idx]); idx++ }` -/
def stepIf (nrow ncol ncw : Nat) (guard : Bool) (st : PS × Nat) (ps : List (Int × Int)) : Option (PS × Nat) :=
  if guard then
    if st.2 < ncw then (st.1.shape nrow ncol ps.zipIdx (st.2 + 1)).map (fun s => (s, st.2 + 1)) else none
  else some st

/-- `if inRange && !occupied(row, col) { utah(row, col, data[idx]); idx++ }` -/
def place (nrow ncol ncw : Nat) (inRange : Bool) (st : PS) (idx : Nat) (row col : Int) : Option (PS × Nat) :=
  if inRange then
    match col + row * ncol with
    | .ofNat i =>
      if i < nrow * ncol then
        if st.occ.testBit i then some (st, idx)
        else stepIf nrow ncol ncw true (st, idx) (utahPos row col)
      else none
    | .negSucc _ => none
  else some (st, idx)

abbrev WS := PS × Nat × Int × Int

def sweepUp (nrow ncol ncw : Nat) : Nat → WS → Option WS
  | 0, _ => none
  | fuel + 1, (st, idx, row, col) =>
    match place nrow ncol ncw (decide (row < nrow ∧ col ≥ 0)) st idx row col with
    | none => none
    | some (st, idx) =>
      let row := row - 2
      let col := col + 2
      if row < 0 ∨ col ≥ ncol then some (st, idx, row, col)
      else sweepUp nrow ncol ncw fuel (st, idx, row, col)

def sweepDown (nrow ncol ncw : Nat) : Nat → WS → Option WS
  | 0, _ => none
  | fuel + 1, (st, idx, row, col) =>
    match place nrow ncol ncw (decide (row ≥ 0 ∧ col < ncol)) st idx row col with
    | none => none
    | some (st, idx) =>
      let row := row + 2
      let col := col - 2
      if row ≥ nrow ∨ col < 0 then some (st, idx, row, col)
      else sweepDown nrow ncol ncw fuel (st, idx, row, col)

/-- one round of the outer loop (the caller has checked `row < nrow ∨ col < ncol`) -/
def round (nrow ncol ncw : Nat) (w : WS) : Option WS :=
  let (st, idx, row, col) := w
  let n : Int := nrow
  let m : Int := ncol
  match stepIf nrow ncol ncw (decide (row = n ∧ col = 0)) (st, idx) (corner1Pos n m) with
  | none => none
  | some s1 =>
  match stepIf nrow ncol ncw (decide (row = n - 2 ∧ col = 0 ∧ ncol % 4 ≠ 0)) s1 (corner2Pos n m) with
  | none => none
  | some s2 =>
  match stepIf nrow ncol ncw (decide (row = n - 2 ∧ col = 0 ∧ ncol % 8 = 4)) s2 (corner3Pos n m) with
  | none => none
  | some s3 =>
  match stepIf nrow ncol ncw (decide (row = n + 4 ∧ col = 2 ∧ ncol % 8 = 0)) s3 (corner4Pos n m) with
  | none => none
  | some s4 =>
  if row.toNat / 2 + 2 > nrow + ncol then none else
  match sweepUp nrow ncol ncw (row.toNat / 2 + 2) (s4.1, s4.2, row, col) with
  | none => none
  | some (st, idx, row, col) =>
  let row := row + 1
  let col := col + 3
  if col.toNat / 2 + 2 > nrow + ncol then none else
  match sweepDown nrow ncol ncw (col.toNat / 2 + 2) (st, idx, row, col) with
  | none => none
  | some (st, idx, row, col) => some (st, idx, row + 3, col + 1)

def mainLoop (nrow ncol ncw : Nat) : Nat → WS → Option (PS × Nat)
  | 0, _ => none
  | fuel + 1, w =>
    if w.2.2.1 < nrow ∨ w.2.2.2 < ncol then
      match round nrow ncol ncw w with
      | none => none
      | some w' => mainLoop nrow ncol ncw fuel w'
    else some (w.1, w.2.1)

/-- the whole run: the walk, then the fixed pattern in the lower right corner if that corner is still free;
    answers `some` only if exactly `ncw` codewords were placed and every cell is accounted for -/
def run (nrow ncol ncw : Nat) : Option PS :=
  if nrow < 2 ∨ ncol < 2 then none else
  match mainLoop nrow ncol ncw (nrow + ncol) ({ occ := 0, log := [] }, 0, 4, 0) with
  | none => none
  | some (st, idx) =>
    let total := nrow * ncol
    let last := total - 1
    if idx ≠ ncw ∨ st.log.length ≠ 8 * idx then none
    else if st.occ.testBit last then
      if st.log.length = total then some st else none
    else if st.log.length + 4 = total ∧ !st.occ.testBit (last - 1) ∧ !st.occ.testBit (last - ncol) ∧
        !st.occ.testBit (last - ncol - 1) then
      match st.set nrow ncol ((nrow : Int) - 1) ((ncol : Int) - 1) 1 with
      | none => none
      | some st => st.set nrow ncol ((nrow : Int) - 2) ((ncol : Int) - 2) 1
    else none

end BV.Proofs.DmSym
