/-
  BV.Proofs.OneD — lemmas shared by the proofs about linear symbologies:
  `mk1D`/`row0`, `splitEvery` of equal-length chunks, `mapM` in `Except`, alternating 3-1 weighted sums.
-/
import BV.Base
import BV.Model.Util
import BV.Spec.OneD
import BV.Proofs.Ascii
namespace BV.Proofs.OneD
open BV BV.Model BV.Spec.OneD

/-! ### `mk1D` -/

theorem row0_mk1D (k : String) (c : Bytes) (bits : List Bool) (cs : Option Int) (s : Scheme) :
    (mk1D k c bits cs s).row0 = bits := by
  simp only [Barcode.row0, mk1D]
  apply List.ext_getElem
  · simp
  · intro i h1 h2
    simp at h1
    simp [Array.getD, h1]

/-! ### `splitEvery` -/

theorem length_le_flatten {α} (n : Nat) (hn : 0 < n) (ps : List (List α)) (h : ∀ p ∈ ps, p.length = n) :
    ps.length ≤ ps.flatten.length := by
  induction ps with
  | nil => simp
  | cons p ps ih =>
    have := h p (by simp)
    have := ih (fun q hq => h q (by simp [hq]))
    simp only [List.flatten_cons, List.length_append, List.length_cons]
    omega

theorem splitEvery_go_flatten {α} (n : Nat) (hn : 0 < n) (ps : List (List α)) :
    ∀ fuel, ps.length < fuel → (∀ p ∈ ps, p.length = n) → splitEvery.go n fuel ps.flatten = ps := by
  induction ps with
  | nil => intro fuel hf _; cases fuel <;> simp [splitEvery.go]
  | cons p ps ih =>
    intro fuel hf h
    cases fuel with
    | zero => simp at hf
    | succ fuel =>
      have hp := h p (by simp)
      have hne : (p ++ ps.flatten).isEmpty = false := by
        cases p with
        | nil => simp at hp; omega
        | cons _ _ => rfl
      simp only [splitEvery.go, List.flatten_cons, hne]
      have ht : (p ++ ps.flatten).take n = p := by rw [← hp]; exact List.take_left' rfl
      have hd : (p ++ ps.flatten).drop n = ps.flatten := by rw [← hp]; exact List.drop_left' rfl
      rw [ht, hd, ih fuel (by simpa using hf) (fun q hq => h q (by simp [hq]))]
      simp

/-- a concatenation of chunks of length `n > 0` splits back into the chunks -/
theorem splitEvery_flatten {α} (n : Nat) (hn : 0 < n) (ps : List (List α)) (h : ∀ p ∈ ps, p.length = n) :
    splitEvery n ps.flatten = ps := by
  unfold splitEvery
  have : ¬ n = 0 := by omega
  simp only [this, if_false]
  exact splitEvery_go_flatten n hn ps _ (by have := length_le_flatten n hn ps h; omega) h

/-! ### ASCII digit strings -/

def isDigitByte (b : UInt8) : Bool := 48 ≤ b.toNat && b.toNat ≤ 57
/-- all bytes are ASCII digits `'0'..'9'` -/
def AllDigits (s : Bytes) : Prop := ∀ b ∈ s, isDigitByte b = true
/-- the digit values of a digit string -/
def digitsOf (s : Bytes) : List Nat := s.map (fun b => b.toNat - 48)
/-- the ASCII byte of a digit -/
def digitByte (d : Nat) : UInt8 := UInt8.ofNat (48 + d)

instance (s : Bytes) : Decidable (AllDigits s) := by unfold AllDigits; infer_instance

theorem isDigitByte_iff (b : UInt8) : isDigitByte b = true ↔ 48 ≤ b.toNat ∧ b.toNat ≤ 57 := by
  simp [isDigitByte]

theorem AllDigits.ascii {s : Bytes} (h : AllDigits s) : Ascii.AllAscii s := by
  intro b hb
  have := (isDigitByte_iff b).1 (h b hb)
  omega

theorem AllDigits.cons {b : UInt8} {s : Bytes} (h : AllDigits (b :: s)) : isDigitByte b = true ∧ AllDigits s :=
  ⟨h b (by simp), fun x hx => h x (by simp [hx])⟩

theorem AllDigits.append {a b : Bytes} (ha : AllDigits a) (hb : AllDigits b) : AllDigits (a ++ b) := by
  intro x hx
  simp only [List.mem_append] at hx
  rcases hx with hx | hx
  · exact ha x hx
  · exact hb x hx

theorem digitsOf_lt {s : Bytes} (h : AllDigits s) : ∀ d ∈ digitsOf s, d < 10 := by
  intro d hd
  simp only [digitsOf, List.mem_map] at hd
  obtain ⟨b, hb, rfl⟩ := hd
  have := (isDigitByte_iff b).1 (h b hb)
  omega

theorem digitByte_toNat (d : Nat) (h : d < 10) : (digitByte d).toNat = 48 + d := by
  simp [digitByte, UInt8.toNat_ofNat']
  omega

theorem isDigitByte_digitByte (d : Nat) (h : d < 10) : isDigitByte (digitByte d) = true := by
  rw [isDigitByte_iff, digitByte_toNat d h]; omega

theorem mapM_map_ok {ε α β γ} (f : β → Except ε γ) (h : α → β) (g : α → γ) (l : List α)
    (hf : ∀ x ∈ l, f (h x) = .ok (g x)) : (l.map h).mapM f = .ok (l.map g) := by
  induction l with
  | nil => rfl
  | cons a l ih =>
    rw [List.map_cons, List.mapM_cons, hf a (by simp), ih (fun x hx => hf x (by simp [hx]))]
    rfl

/-! ### `mapM` in `Except` -/

theorem mapM_ok {ε α β} (f : α → Except ε β) (g : α → β) (l : List α) (h : ∀ x ∈ l, f x = .ok (g x)) :
    l.mapM f = .ok (l.map g) := by
  induction l with
  | nil => rfl
  | cons a l ih =>
    rw [List.mapM_cons, h a (by simp), ih (fun x hx => h x (by simp [hx]))]
    rfl

/-! ### alternating 3-1 weighted sums -/

/-- left-to-right sum with weights `w, 4-w, w, …` — the accumulator loop of the reference check digits -/
def alt : List Nat → Nat → Nat
  | [], _ => 0
  | d :: rest, w => d * w + alt rest (4 - w)

/-- left-to-right sum with weights 3/1 chosen by an alternating flag — the loops of the implementation -/
def altB : List Nat → Bool → Nat
  | [], _ => 0
  | d :: rest, b => (if b then d * 3 else d) + altB rest (!b)

def wt (b : Bool) : Nat := if b then 3 else 1

theorem gs1_go_eq (l : List Nat) (w acc : Nat) : gs1Check.go l w acc = acc + alt l w := by
  induction l generalizing w acc with
  | nil => simp [gs1Check.go, alt]
  | cons d l ih => simp [gs1Check.go, alt, ih, Nat.add_assoc]

theorem tof_go_eq (l : List Nat) (w acc : Nat) : tofWeightedSum.go l w acc = acc + alt l w := by
  induction l generalizing w acc with
  | nil => simp [tofWeightedSum.go, alt]
  | cons d l ih => simp [tofWeightedSum.go, alt, ih, Nat.add_assoc]

theorem alt_snoc (l : List Nat) (d w : Nat) (hw : w = 1 ∨ w = 3) :
    alt (l ++ [d]) w = alt l w + d * (if l.length % 2 = 0 then w else 4 - w) := by
  induction l generalizing w with
  | nil => simp [alt]
  | cons x l ih =>
    have hw' : 4 - w = 1 ∨ 4 - w = 3 := by omega
    simp only [List.cons_append, alt, ih (4 - w) hw', List.length_cons]
    have h4 : 4 - (4 - w) = w := by omega
    by_cases hl : l.length % 2 = 0
    · have : ¬ (l.length + 1) % 2 = 0 := by omega
      simp [hl, this, Nat.add_assoc]
    · have : (l.length + 1) % 2 = 0 := by omega
      simp [hl, this, h4, Nat.add_assoc]

theorem wt_or (b : Bool) : wt b = 1 ∨ wt b = 3 := by cases b <;> simp [wt]

/-- the implementation's flag-driven sum equals the right-to-left reference sum -/
theorem altB_eq_alt_reverse (l : List Nat) (b : Bool) :
    altB l b = alt l.reverse (wt (b ^^ (l.length % 2 == 0))) := by
  induction l generalizing b with
  | nil => simp [altB, alt]
  | cons d l ih =>
    rw [altB, ih, List.reverse_cons, alt_snoc _ _ _ (wt_or _)]
    simp only [List.length_reverse, List.length_cons]
    by_cases hl : l.length % 2 = 0
    · have h1 : ¬ (l.length + 1) % 2 = 0 := by omega
      cases b <;> simp [hl, h1, wt] <;> omega
    · have h1 : (l.length + 1) % 2 = 0 := by omega
      cases b <;> simp [hl, h1, wt] <;> omega

/-! ### run lengths of element-width drawings -/

/-- the modules of a run list -/
def expand : List (Bool × Nat) → List Bool
  | [] => []
  | (c, n) :: rest => List.replicate n c ++ expand rest

/-- alternating runs with the given widths, the first of colour `c` -/
def barsFrom : Bool → List Nat → List (Bool × Nat)
  | _, [] => []
  | c, w :: rest => (c, w) :: barsFrom (!c) rest

/-- the module list of an element-width list that starts with a bar -/
def drawW (ws : List Nat) : List Bool := expand (barsFrom true ws)

theorem runLengths_cons_run (c : Bool) (l : List Bool) (n : Nat) (tl : List (Bool × Nat))
    (h : runLengths l = (c, n) :: tl) : runLengths (c :: l) = (c, n + 1) :: tl := by
  simp [runLengths, h]

theorem runLengths_cons_new (c : Bool) (l : List Bool) (h : ∀ p ∈ (runLengths l).head?, p.1 ≠ c) :
    runLengths (c :: l) = (c, 1) :: runLengths l := by
  rw [runLengths]
  cases hr : runLengths l with
  | nil => rfl
  | cons p tl =>
    obtain ⟨c', m⟩ := p
    have : c' ≠ c := h (c', m) (by simp [hr])
    simp [this]

theorem runLengths_replicate_append (c : Bool) (n : Nat) (l : List Bool)
    (h : ∀ p ∈ (runLengths l).head?, p.1 ≠ c) :
    runLengths (List.replicate (n + 1) c ++ l) = (c, n + 1) :: runLengths l := by
  induction n with
  | zero => simpa using runLengths_cons_new c l h
  | succ n ih =>
    rw [List.replicate_succ, List.cons_append]
    exact runLengths_cons_run c _ _ _ ih

theorem runLengths_expand_barsFrom (ws : List Nat) (c : Bool) (hpos : ∀ w ∈ ws, 0 < w) :
    runLengths (expand (barsFrom c ws)) = barsFrom c ws := by
  induction ws generalizing c with
  | nil => rfl
  | cons w rest ih =>
    have hw : 0 < w := hpos w (by simp)
    have ih' := ih (!c) (fun x hx => hpos x (by simp [hx]))
    obtain ⟨n, rfl⟩ : ∃ n, w = n + 1 := ⟨w - 1, by omega⟩
    simp only [barsFrom, expand]
    rw [runLengths_replicate_append, ih']
    rw [ih']
    intro p hp
    cases rest with
    | nil => simp [barsFrom] at hp
    | cons w' rest' =>
      simp only [barsFrom, List.head?_cons, Option.mem_def, Option.some.injEq] at hp
      rw [← hp]
      cases c <;> simp

theorem barsFrom_map_snd (ws : List Nat) (c : Bool) : (barsFrom c ws).map (·.2) = ws := by
  induction ws generalizing c with
  | nil => rfl
  | cons w rest ih => simp [barsFrom, ih]

/-- reading back the element widths of a drawing -/
theorem widths_drawW (ws : List Nat) (hpos : ∀ w ∈ ws, 0 < w) :
    widthsFromBar (runLengths (drawW ws)) = some ws := by
  rw [drawW, runLengths_expand_barsFrom ws true hpos]
  cases ws with
  | nil => rfl
  | cons w rest =>
    simp only [barsFrom, widthsFromBar, List.map_cons, barsFrom_map_snd]

theorem expand_append (a b : List (Bool × Nat)) : expand (a ++ b) = expand a ++ expand b := by
  induction a with
  | nil => rfl
  | cons p a ih => obtain ⟨c, n⟩ := p; simp [expand, ih]

theorem barsFrom_append (a b : List Nat) (c : Bool) :
    barsFrom c (a ++ b) = barsFrom c a ++ barsFrom (if a.length % 2 = 0 then c else !c) b := by
  induction a generalizing c with
  | nil => simp [barsFrom]
  | cons w a ih =>
    simp only [List.cons_append, barsFrom, ih, List.length_cons]
    by_cases h : a.length % 2 = 0
    · have : ¬ (a.length + 1) % 2 = 0 := by omega
      simp [h, this]
    · have : (a.length + 1) % 2 = 0 := by omega
      simp [h, this]

/-- drawings of element lists concatenate when the first has an even number of elements (ends with a space) -/
theorem drawW_append (a b : List Nat) (h : a.length % 2 = 0) : drawW (a ++ b) = drawW a ++ drawW b := by
  simp [drawW, barsFrom_append, expand_append, h]

theorem drawW_flatten (gs : List (List Nat)) (h : ∀ g ∈ gs, g.length % 2 = 0) :
    drawW gs.flatten = (gs.map drawW).flatten := by
  induction gs with
  | nil => rfl
  | cons g gs ih =>
    rw [List.flatten_cons, drawW_append _ _ (h g (by simp)), ih (fun x hx => h x (by simp [hx]))]
    rfl

theorem flatten_length_even (gs : List (List Nat)) (h : ∀ g ∈ gs, g.length % 2 = 0) :
    gs.flatten.length % 2 = 0 := by
  induction gs with
  | nil => rfl
  | cons g gs ih =>
    have := h g (by simp)
    have := ih (fun x hx => h x (by simp [hx]))
    simp only [List.flatten_cons, List.length_append]
    omega

/-! ### misc -/

theorem flatten_length_const {α} (n : Nat) (ps : List (List α)) (h : ∀ p ∈ ps, p.length = n) :
    ps.flatten.length = n * ps.length := by
  induction ps with
  | nil => simp
  | cons p ps ih =>
    simp only [List.flatten_cons, List.length_append, List.length_cons, h p (by simp),
      ih (fun q hq => h q (by simp [hq]))]
    rw [Nat.mul_add]; omega


def isOk {ε α} [BEq α] (e : Except ε α) (v : α) : Bool :=
  match e with
  | .ok x => x == v
  | .error _ => false

theorem eq_of_isOk {ε α} [BEq α] [LawfulBEq α] (e : Except ε α) (v : α) (h : isOk e v = true) : e = .ok v := by
  cases e with
  | error _ => simp [isOk] at h
  | ok x => simp only [isOk, beq_iff_eq] at h; rw [h]

theorem frame3 {α} (a body z : List α) :
    (a ++ body ++ z).take a.length = a ∧
    (a ++ body ++ z).drop ((a ++ body ++ z).length - z.length) = z ∧
    ((a ++ body ++ z).drop a.length).take ((a ++ body ++ z).length - (a.length + z.length)) = body := by
  refine ⟨?_, ?_, ?_⟩
  · rw [List.append_assoc]; exact List.take_left' rfl
  · have : (a ++ body ++ z).length - z.length = (a ++ body).length := by
      simp only [List.length_append]; omega
    rw [this]; exact List.drop_left' rfl
  · rw [List.append_assoc, List.drop_left' rfl]
    have : (a ++ (body ++ z)).length - (a.length + z.length) = body.length := by
      simp only [List.length_append]; omega
    rw [this]; exact List.take_left' rfl


/-! ### rune helpers (`utils.RuneToInt`, `utils.IntToRune`, `string(rune)`) on digits -/

theorem runeToInt_digit (b : UInt8) (h : isDigitByte b = true) :
    runeToInt b.toNat = ((b.toNat - 48 : Nat) : Int) := by
  rw [isDigitByte_iff] at h
  simp only [runeToInt, h.1, h.2, and_self, if_true]
  omega

theorem intToRune_check (S : Nat) :
    intToRune ((10 - (S : Int).tmod 10).tmod 10) = 48 + (10 - S % 10) % 10 := by
  rw [Int.tmod_eq_emod_of_nonneg (Int.natCast_nonneg S)]
  rw [Int.tmod_eq_emod_of_nonneg (by omega)]
  unfold intToRune
  have h : 0 ≤ (10 - (S : Int) % 10) % 10 ∧ (10 - (S : Int) % 10) % 10 ≤ 9 := by omega
  simp only [h, and_self, if_true]
  omega

theorem encodeRune_ascii (r : Nat) (h : r < 128) : encodeRune r = [UInt8.ofNat r] := by
  unfold encodeRune
  have : ¬ ((0xD800 ≤ r ∧ r ≤ 0xDFFF) ∨ r > 0x10FFFF) := by omega
  simp only [this, if_false, h, if_true]

theorem runeToInt_digitByte (d : Nat) (h : d < 10) : runeToInt (digitByte d).toNat = (d : Int) := by
  rw [runeToInt_digit _ (isDigitByte_digitByte d h), digitByte_toNat d h]
  congr 1; omega

theorem digitsOf_append (a b : Bytes) : digitsOf (a ++ b) = digitsOf a ++ digitsOf b := by
  simp [digitsOf]

theorem digitsOf_length (a : Bytes) : (digitsOf a).length = a.length := by simp [digitsOf]

theorem digitsOf_concat_getLastD (a : Bytes) (b : UInt8) : (digitsOf (a ++ [b])).getLastD 0 = b.toNat - 48 := by
  simp [digitsOf]

theorem encodeRune_digit (d : Nat) (h : d < 10) : encodeRune (48 + d) = [digitByte d] :=
  encodeRune_ascii _ (by omega)


end BV.Proofs.OneD
