/-
  Proofs for C02 (text stage): the ASCII encodation of the DataMatrix encoder (`encodeText`) and its
  253-state padding (`addPadding`) are read back by the reference decoder `Spec.Datamatrix.decodeAscii`.
-/
import BV.Model.Datamatrix
import BV.Spec.Datamatrix
namespace BV.Proofs.DmAscii
open BV BV.Model.Datamatrix BV.Spec.Datamatrix

/-- the codewords as the numbers the reference decoder reads -/
def toNats (l : Bytes) : List Nat := l.map UInt8.toNat

@[simp] theorem toNats_nil : toNats [] = [] := rfl
@[simp] theorem toNats_cons (a : UInt8) (l : Bytes) : toNats (a :: l) = a.toNat :: toNats l := rfl
@[simp] theorem toNats_append (a b : Bytes) : toNats (a ++ b) = toNats a ++ toNats b := by
  simp [toNats]
@[simp] theorem toNats_length (a : Bytes) : (toNats a).length = a.length := by simp [toNats]

/-! ### byte facts (certificates over the 256 byte values / the 100 digit pairs) -/

theorem byte_cases (P : UInt8 → Prop) (h : ∀ n, n < 256 → P (UInt8.ofNat n)) (c : UInt8) : P c := by
  have := h c.toNat c.toNat_lt
  simpa using this

/-- certificate: a byte above 127 is `235, c - 127`, the operand is in 1…128 and decodes to `c` -/
theorem hi_byte : ∀ c : UInt8, c > 127 →
    1 ≤ (c - 127).toNat ∧ (c - 127).toNat ≤ 128 ∧ UInt8.ofNat ((c - 127).toNat - 1 + 128) = c := by
  apply byte_cases; decide +kernel

/-- certificate: a byte up to 127 is `c + 1`, in 1…128, and decodes to `c` -/
theorem lo_byte : ∀ c : UInt8, ¬ c > 127 →
    1 ≤ (c + 1).toNat ∧ (c + 1).toNat ≤ 128 ∧ UInt8.ofNat ((c + 1).toNat - 1) = c := by
  apply byte_cases; decide +kernel

theorem digit_cases (P : UInt8 → Prop) (h : ∀ n, n < 10 → P (UInt8.ofNat (48 + n)))
    (c : UInt8) (hc : isDigitByte c = true) : P c := by
  revert hc
  revert c
  apply byte_cases
  intro n hn hc
  have h1 : 48 ≤ n ∧ n ≤ 57 := by
    revert hc; revert n; decide +kernel
  have := h (n - 48) (by omega)
  have e : 48 + (n - 48) = n := by omega
  rwa [e] at this

/-- certificate over the 100 digit pairs: the pair codeword is in 130…229 and decodes to the two digits -/
theorem digit_pair : ∀ c : UInt8, isDigitByte c = true → ∀ c2 : UInt8, isDigitByte c2 = true →
    130 ≤ ((c - 48) * 10 + (c2 - 48) + 130).toNat ∧ ((c - 48) * 10 + (c2 - 48) + 130).toNat ≤ 229 ∧
    twoDigits (((c - 48) * 10 + (c2 - 48) + 130).toNat - 130) = [c, c2] := by
  apply digit_cases
  intro n hn
  apply digit_cases
  revert n
  decide +kernel

/-! ### unfolding the reference decoder -/

theorem dec_nil (pos : Nat) : decodeAscii pos [] = .ok ([], 0) := by
  rw [decodeAscii]

theorem dec_lo (pos c : Nat) (rest : List Nat) (h1 : 1 ≤ c) (h2 : c ≤ 128) :
    decodeAscii pos (c :: rest) =
      (decodeAscii (pos + 1) rest).map (fun (s, p) => (UInt8.ofNat (c - 1) :: s, p)) := by
  rw [decodeAscii.eq_def]
  have : ¬ c = 129 := by omega
  simp only [this, if_false, h1, h2, and_self, if_true]

theorem dec_pair (pos c : Nat) (rest : List Nat) (h1 : 130 ≤ c) (h2 : c ≤ 229) :
    decodeAscii pos (c :: rest) =
      (decodeAscii (pos + 1) rest).map (fun (s, p) => (twoDigits (c - 130) ++ s, p)) := by
  rw [decodeAscii.eq_def]
  have a : ¬ c = 129 := by omega
  have b : ¬ (1 ≤ c ∧ c ≤ 128) := by omega
  simp only [a, b, if_false, h1, h2, and_self, if_true]

theorem dec_shift (pos d : Nat) (rest : List Nat) (h1 : 1 ≤ d) (h2 : d ≤ 128) :
    decodeAscii pos (235 :: d :: rest) =
      (decodeAscii (pos + 2) rest).map (fun (s, p) => (UInt8.ofNat (d - 1 + 128) :: s, p)) := by
  rw [decodeAscii.eq_def]
  simp [h1, h2]

theorem dec_pad (pos : Nat) (rest : List Nat)
    (h : (rest.zipIdx).all (fun (v, i) => v == padValue (pos + 1 + i)) = true) :
    decodeAscii pos (129 :: rest) = .ok ([], 1 + rest.length) := by
  rw [decodeAscii.eq_def]
  simp only [if_true]
  rw [if_pos h]

/-! ### item 1: round trip of `encodeText` -/

theorem encodeOne_length_pos (c : UInt8) : 1 ≤ (encodeOne c).length := by
  unfold encodeOne; split <;> simp

/-- one non-pair character: decoding `encodeOne c ++ tail` at `pos` yields `c` in front of what `tail` yields -/
theorem dec_encodeOne (c : UInt8) (pos : Nat) (tail : List Nat) :
    decodeAscii pos (toNats (encodeOne c) ++ tail) =
      (decodeAscii (pos + (encodeOne c).length) tail).map (fun (s, p) => (c :: s, p)) := by
  unfold encodeOne
  by_cases h : c > 127
  · obtain ⟨h1, h2, h3⟩ := hi_byte c h
    simp only [h, if_true, toNats_cons, toNats_nil, List.cons_append, List.nil_append, List.length_cons,
      List.length_nil]
    have e : (235 : UInt8).toNat = 235 := by decide
    rw [e, dec_shift pos _ tail h1 h2, h3]
  · obtain ⟨h1, h2, h3⟩ := lo_byte c h
    simp only [h, if_false, toNats_cons, toNats_nil, List.cons_append, List.nil_append, List.length_cons,
      List.length_nil]
    rw [dec_lo pos _ tail h1 h2, h3]

theorem except_map_map {ε α β γ} (x : Except ε α) (f : α → β) (g : β → γ) :
    (x.map f).map g = x.map (g ∘ f) := by
  cases x <;> rfl

/-- Round trip with an arbitrary continuation: if the codewords after the encodation decode (at their
    position) to `(s, p)`, the whole decodes to `(c ++ s, p)`. -/
theorem dec_encodeText (c : Bytes) : ∀ (pos : Nat) (tail : List Nat),
    decodeAscii pos (toNats (encodeText c) ++ tail) =
      (decodeAscii (pos + (encodeText c).length) tail).map (fun (s, p) => (c ++ s, p)) := by
  induction c using encodeText.induct with
  | case1 =>
    intro pos tail
    simp only [encodeText, toNats_nil, List.nil_append, List.length_nil, Nat.add_zero]
    cases decodeAscii pos tail <;> rfl
  | case2 c =>
    intro pos tail
    simp only [encodeText]
    rw [dec_encodeOne]
    rfl
  | case3 c c2 rest hd ih =>
    intro pos tail
    simp only [Bool.and_eq_true] at hd
    obtain ⟨h1, h2, h3⟩ := digit_pair c hd.1 c2 hd.2
    rw [encodeText]
    simp only [hd.1, hd.2, Bool.and_self, if_true, toNats_cons, List.cons_append, List.length_cons]
    rw [dec_pair pos _ _ h1 h2, ih (pos + 1) tail, h3, except_map_map]
    have e : pos + 1 + (encodeText rest).length = pos + ((encodeText rest).length + 1) := by omega
    rw [e]
    rfl
  | case4 c c2 rest hd ih =>
    intro pos tail
    rw [encodeText]
    simp only [hd, if_false, toNats_append, List.append_assoc, List.length_append, Bool.false_eq_true]
    rw [dec_encodeOne, ih, except_map_map]
    have e : pos + (encodeOne c).length + (encodeText (c2 :: rest)).length =
        pos + ((encodeOne c).length + (encodeText (c2 :: rest)).length) := by omega
    rw [e]
    rfl

/-- `ascii_roundtrip` without padding: the encodation alone decodes to the content, zero pads -/
theorem dec_encodeText_nopad (c : Bytes) (pos : Nat) :
    decodeAscii pos (toNats (encodeText c)) = .ok (c, 0) := by
  have := dec_encodeText c pos []
  rw [List.append_nil, dec_nil] at this
  rw [this]
  simp [Except.map]

/-! ### the alphabet of `encodeText` -/

/-- what a codeword list of the ASCII encodation may contain: 1…128, 130…229, or 235 followed by 1…128 -/
def asciiAlphabet : List Nat → Bool
  | [] => true
  | c :: rest =>
    if 1 ≤ c ∧ c ≤ 128 then asciiAlphabet rest
    else if 130 ≤ c ∧ c ≤ 229 then asciiAlphabet rest
    else if c = 235 then
      match rest with
      | d :: rest' => (1 ≤ d ∧ d ≤ 128) && asciiAlphabet rest'
      | [] => false
    else false

theorem alphabet_lo (v : Nat) (rest : List Nat) (h1 : 1 ≤ v) (h2 : v ≤ 128) (h : asciiAlphabet rest = true) :
    asciiAlphabet (v :: rest) = true := by
  rw [asciiAlphabet.eq_def]; simp only [h1, h2, and_self, if_true, h]

theorem alphabet_pair (v : Nat) (rest : List Nat) (h1 : 130 ≤ v) (h2 : v ≤ 229) (h : asciiAlphabet rest = true) :
    asciiAlphabet (v :: rest) = true := by
  have a : ¬ (1 ≤ v ∧ v ≤ 128) := by omega
  rw [asciiAlphabet.eq_def]; simp only [a, if_false, h1, h2, and_self, if_true, h]

theorem alphabet_hi (d : Nat) (rest : List Nat) (h1 : 1 ≤ d) (h2 : d ≤ 128) (h : asciiAlphabet rest = true) :
    asciiAlphabet (235 :: d :: rest) = true := by
  rw [asciiAlphabet.eq_def]; simp [h1, h2, h]

theorem alphabet_encodeOne (c : UInt8) (rest : List Nat) (h : asciiAlphabet rest = true) :
    asciiAlphabet (toNats (encodeOne c) ++ rest) = true := by
  unfold encodeOne
  by_cases hc : c > 127
  · obtain ⟨h1, h2, _⟩ := hi_byte c hc
    have e : (235 : UInt8).toNat = 235 := by decide
    simp only [hc, if_true, toNats_cons, toNats_nil, List.cons_append, List.nil_append, e]
    exact alphabet_hi _ _ h1 h2 h
  · obtain ⟨h1, h2, _⟩ := lo_byte c hc
    simp only [hc, if_false, toNats_cons, toNats_nil, List.cons_append, List.nil_append]
    exact alphabet_lo _ _ h1 h2 h

/-- `encodeText` emits only 1…128, 130…229 and 235 followed by an operand in 1…128 -/
theorem alphabet_encodeText (c : Bytes) : asciiAlphabet (toNats (encodeText c)) = true := by
  induction c using encodeText.induct with
  | case1 => rfl
  | case2 c =>
    have := alphabet_encodeOne c [] rfl
    simpa [encodeText] using this
  | case3 c c2 rest hd ih =>
    simp only [Bool.and_eq_true] at hd
    obtain ⟨h1, h2, _⟩ := digit_pair c hd.1 c2 hd.2
    rw [encodeText]
    simp only [hd.1, hd.2, Bool.and_self, if_true, toNats_cons]
    exact alphabet_pair _ _ h1 h2 ih
  | case4 c c2 rest hd ih =>
    rw [encodeText]
    simp only [hd, if_false, toNats_append, Bool.false_eq_true]
    exact alphabet_encodeOne c _ ih

/-- a list over the ASCII alphabet never contains the pad codeword 129 nor any value outside
    1…128, 130…229, 235 -/
theorem alphabet_mem : ∀ (l : List Nat), asciiAlphabet l = true → ∀ v ∈ l,
    (1 ≤ v ∧ v ≤ 128) ∨ (130 ≤ v ∧ v ≤ 229) ∨ v = 235
  | [], _, v, hv => by cases hv
  | c :: rest, h, v, hv => by
    unfold asciiAlphabet at h
    by_cases h1 : 1 ≤ c ∧ c ≤ 128
    · simp only [h1, and_self, if_true] at h
      rcases List.mem_cons.mp hv with e | e
      · exact Or.inl (e ▸ h1)
      · exact alphabet_mem rest h v e
    · by_cases h2 : 130 ≤ c ∧ c ≤ 229
      · simp only [h1, if_false, h2, and_self, if_true] at h
        rcases List.mem_cons.mp hv with e | e
        · exact Or.inr (Or.inl (e ▸ h2))
        · exact alphabet_mem rest h v e
      · by_cases h3 : c = 235
        · simp only [h3, if_true] at h
          match rest, h, hv with
          | [], h, _ => cases h
          | d :: rest', h, hv =>
            simp only [Bool.and_eq_true, decide_eq_true_eq, show ¬ (1 ≤ 235 ∧ 235 ≤ 128) by omega,
              show ¬ (130 ≤ 235 ∧ 235 ≤ 229) by omega, if_false] at h
            rcases List.mem_cons.mp hv with e | e
            · exact Or.inr (Or.inr (e ▸ h3))
            · rcases List.mem_cons.mp e with e | e
              · exact Or.inl (e ▸ h.1)
              · exact alphabet_mem rest' h.2 v e
        · simp [h1, h2, h3] at h

/-! ### item 2: padding -/

/-- the pad bytes `addPadding` appends behind a list of `m` codewords (after the 129, if any): position by
    position the 253-state value of the reference -/
def padTail (m k : Nat) : Bytes := (List.range' 0 k).map (fun i => UInt8.ofNat (padValue (m + 1 + i)))

theorem padValue_le (pos : Nat) : padValue pos ≤ 254 ∧ 1 ≤ padValue pos := by
  unfold padValue
  have : 149 * pos % 253 < 253 := Nat.mod_lt _ (by decide)
  generalize 149 * pos % 253 = r at this
  simp only
  split <;> omega

theorem padValue_toNat (pos : Nat) : (UInt8.ofNat (padValue pos)).toNat = padValue pos := by
  have := (padValue_le pos).1
  simp only [UInt8.toNat_ofNat']
  omega

/-- the loop body computes `padValue` of the 1-based position of the new codeword -/
theorem padLoop_step (len : Nat) :
    (let r := ((149 * (len + 1)) % 253) + 1
     let tmp := 129 + r
     if tmp > 254 then tmp - 254 else tmp) = padValue (len + 1) := by
  unfold padValue
  simp only
  split <;> split <;> omega

theorem map_range'_shift {α} (f : Nat → α) (k : Nat) : ∀ s,
    (List.range' (s + 1) k).map f = (List.range' s k).map (fun i => f (i + 1)) := by
  induction k with
  | zero => intro s; rfl
  | succ k ih => intro s; simp only [List.range'_succ, List.map_cons, ih]

theorem padLoop_eq (k : Nat) : ∀ (data : Bytes),
    padLoop k data = data ++ padTail data.length k := by
  induction k with
  | zero => intro data; simp [padLoop, padTail]
  | succ k ih =>
    intro data
    rw [padLoop]
    have := padLoop_step data.length
    simp only at this
    rw [this, ih]
    unfold padTail
    rw [List.range'_succ]
    simp only [List.map_cons, List.length_append, List.length_cons, List.length_nil, Nat.add_zero,
      List.append_assoc, List.cons_append, List.nil_append]
    congr 2
    rw [map_range'_shift]
    apply List.map_congr_left
    intro i _
    congr 2
    omega

@[simp] theorem padTail_length (m k : Nat) : (padTail m k).length = k := by simp [padTail]

/-- what `addPadding` appends to `m` codewords to reach `n`: nothing if `m = n`, else 129 and the
    253-state pads for positions `m + 2 … n` -/
def padding (m n : Nat) : Bytes := if m < n then 129 :: padTail (m + 1) (n - m - 1) else []

theorem padding_length (m n : Nat) (h : m ≤ n) : (padding m n).length = n - m := by
  unfold padding; split
  · simp; omega
  · simp; omega

/-- `addPadding` for a target that is not below the current length -/
theorem addPadding_eq (data : Bytes) (n : Nat) (h : data.length ≤ n) :
    addPadding data (n : Int) = data ++ padding data.length n := by
  unfold addPadding padding
  by_cases hlt : data.length < n
  · have h1 : ((data.length : Nat) : Int) < (n : Int) := by omega
    simp only [h1, if_true, hlt]
    rw [padLoop_eq]
    simp only [List.length_append, List.length_cons, List.length_nil, List.append_assoc, List.cons_append,
      List.nil_append]
    congr 3
    omega
  · have h1 : ¬ ((data.length : Nat) : Int) < (n : Int) := by omega
    have h2 : ((n : Int) - (data.length : Int)).toNat = 0 := by omega
    simp only [h1, if_false, hlt, h2, padLoop, List.append_nil]

/-- the pad check of the reference accepts the 253-state tail -/
theorem padTail_ok (q k : Nat) : ∀ s,
    (((List.range' s k).map (fun i => padValue (q + i))).zipIdx s).all
      (fun (v, i) => v == padValue (q + i)) = true := by
  induction k with
  | zero => intro s; rfl
  | succ k ih =>
    intro s
    simp only [List.range'_succ, List.map_cons, List.zipIdx_cons, List.all_cons, beq_self_eq_true, Bool.true_and]
    exact ih (s + 1)

theorem toNats_padTail (m k : Nat) :
    toNats (padTail m k) = (List.range' 0 k).map (fun i => padValue (m + 1 + i)) := by
  unfold toNats padTail
  rw [List.map_map]
  apply List.map_congr_left
  intro i _
  exact padValue_toNat _

/-- the reference decoder, standing at the 1-based position `m + 1` of the first pad, accepts the padding
    and counts `n - m` pad codewords -/
theorem dec_padding (m n : Nat) (h : m ≤ n) :
    decodeAscii (m + 1) (toNats (padding m n)) = .ok ([], n - m) := by
  unfold padding
  by_cases hlt : m < n
  · simp only [hlt, if_true, toNats_cons]
    have e : (129 : UInt8).toNat = 129 := by decide
    rw [e, dec_pad]
    · simp only [toNats_length, padTail_length]
      congr 2
      omega
    · rw [toNats_padTail]
      have := padTail_ok (m + 1 + 1) (n - m - 1) 0
      simpa using this
  · have : n - m = 0 := by omega
    simp only [hlt, if_false, toNats_nil, dec_nil, this]

/-- items 1 + 2 composed: the padded encodation decodes to the content, with `n - |encodeText c|` pads -/
theorem dec_padded (c : Bytes) (n : Nat) (h : (encodeText c).length ≤ n) :
    decodeAscii 1 (toNats (addPadding (encodeText c) (n : Int))) = .ok (c, n - (encodeText c).length) := by
  rw [addPadding_eq _ n h, toNats_append, dec_encodeText, Nat.add_comm 1, dec_padding _ n h]
  simp [Except.map]
