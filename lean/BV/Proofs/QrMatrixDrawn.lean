/-
  QR matrix layer, part 5: the picture after the function-pattern phase, module by module.
  For a row `vi` of the version table, `(drawnP vi).occ` is the function-module predicate `isFn` of the reference
  decoder (`drawn_occ`), and the eight result pictures carry, on the function modules, exactly the colours the
  reference decoder checks: finder patterns and separators (`drawn_finder`), alignment patterns (`drawn_align`),
  timing patterns (`drawn_timing`), the dark module (`drawn_dark`), the version word at both places
  (`drawn_version`) and the format word of mask `i` at both places of result `i` (`drawn_format`).
-/
import BV.Proofs.QrMatrixFacts
namespace BV.Proofs.QrMatrix
open BV BV.Model BV.Model.Qr BV.Gen.Qr BV.Proofs.QrTables BV.Proofs.QrRender BV.Proofs.QrCoords

/-- the loop over the eight results writing a cell list into result `i` -/
theorem fold8 (cells : Nat → List Cell) (ok : Nat → Bool) (P : Pix) (n : Nat) :
    ((List.range n).foldl (fun P (i : Nat) => if ok i then applyCells (Pix.setRes i) (cells i) P else P) P).occ = P.occ ∧
    ∀ j, ((List.range n).foldl (fun P (i : Nat) =>
        if ok i then applyCells (Pix.setRes i) (cells i) P else P) P).res j =
      if j < n ∧ ok j = true then foldUpd (cells j) (P.res j) else P.res j := by
  induction n with
  | zero => exact ⟨rfl, fun j => by simp⟩
  | succ n ih =>
    rw [List.range_succ, List.foldl_append, List.foldl_cons, List.foldl_nil]
    generalize (List.range n).foldl (fun P (i : Nat) =>
      if ok i then applyCells (Pix.setRes i) (cells i) P else P) P = Q at ih
    obtain ⟨ih1, ih2⟩ := ih
    by_cases hok : ok n = true
    · rw [if_pos hok]
      obtain ⟨a1, a2, a3⟩ := applyRes_res n (cells n) Q
      refine ⟨by rw [a1, ih1], ?_⟩
      intro j
      by_cases hj : j = n
      · subst hj
        rw [a2, ih2, if_neg (by omega), if_pos ⟨by omega, hok⟩]
      · rw [a3 j hj, ih2]
        by_cases hjn : j < n
        · by_cases hoj : ok j = true
          · rw [if_pos ⟨hjn, hoj⟩, if_pos ⟨by omega, hoj⟩]
          · rw [if_neg (fun h => hoj h.2), if_neg (fun h => hoj h.2)]
        · rw [if_neg (fun h => hjn h.1), if_neg (fun h => by omega)]
    · rw [if_neg hok]
      refine ⟨ih1, ?_⟩
      intro j
      rw [ih2]
      by_cases hj : j = n
      · subst hj
        rw [if_neg (by omega), if_neg (fun h => hok h.2)]
      · by_cases hjn : j < n
        · by_cases hoj : ok j = true
          · rw [if_pos ⟨hjn, hoj⟩, if_pos ⟨by omega, hoj⟩]
          · rw [if_neg (fun h => hoj h.2), if_neg (fun h => hoj h.2)]
        · rw [if_neg (fun h => hjn h.1), if_neg (fun h => by omega)]

/-- the result pictures before the format information: all `setAll` cells over the blank picture -/
def baseRes (vi : VersionInfo) : Nat → Nat → Bool := foldUpd (fnCells vi) (fun _ _ => false)

/-- occupancy of `drawnP`: the format cells (all-true word) over the `setAll` cells -/
theorem drawnP_occ (vi : VersionInfo) (hmem : vi ∈ versionInfos) :
    (drawnP vi).occ = foldUpd (fmtCells vi.modulWidth (List.replicate 15 true))
      (applyCells Pix.setAll (fnCells vi) Pix.blank).occ := by
  rw [drawnP_eq vi hmem]
  rw [(fold8 (fun i => fmtCells vi.modulWidth (formatInfoOf vi.level i))
    (fun i => (formatInfoOf vi.level i).length == 15) _ 8).1, (applyOcc_occ _ _).1]

/-- result `i` of `drawnP`: the format word of mask `i` over the `setAll` cells -/
theorem drawnP_res (vi : VersionInfo) (hmem : vi ∈ versionInfos) (i : Nat) (hi : i < 8) :
    (drawnP vi).res i = foldUpd (fmtCells vi.modulWidth (formatInfoOf vi.level i)) (baseRes vi) := by
  have hl := (formatInfos_bch vi.level i (mem_versionInfos_range hmem).2.2 (by omega)).1
  rw [drawnP_eq vi hmem]
  rw [(fold8 (fun i => fmtCells vi.modulWidth (formatInfoOf vi.level i))
    (fun i => (formatInfoOf vi.level i).length == 15) _ 8).2 i, if_pos ⟨hi, by simp [hl]⟩,
    (applyOcc_occ _ _).2, applyAll_res]
  rfl

/-! ### occupancy -/

theorem hasCell_version' {vi : VersionInfo} (g : Geo vi) (X Y : Nat) :
    hasCell (versionCells vi) X Y ↔ 7 ≤ vi.version ∧ verRegionP vi.modulWidth X Y := by
  by_cases h7 : vi.version < 7
  · rw [versionCells_low vi h7]
    constructor
    · intro h; exact absurd h (hasCell_nil _ _)
    · rintro ⟨h, _⟩; omega
  · obtain ⟨bits, hb, hl, _⟩ := versionInfoBits_bch vi.version (by omega) g.h40
    rw [hasCell_version vi g.d21 bits hb hl]
    constructor
    · intro h; exact ⟨by omega, h⟩
    · exact fun h => h.2

/-- the dark module is a single cell -/
theorem hasCell_dark (d X Y : Nat) : hasCell [(8, d, true)] X Y ↔ X = 8 ∧ Y = d := by
  unfold hasCell
  simp only [List.mem_cons, List.not_mem_nil, or_false, exists_eq_left]
  constructor
  · rintro ⟨rfl, rfl⟩; exact ⟨rfl, rfl⟩
  · rintro ⟨rfl, rfl⟩; exact ⟨rfl, rfl⟩

/-- where the `setAll` phases have a cell -/
theorem hasCell_fn {vi : VersionInfo} (g : Geo vi) (X Y : Nat) (hX : X < vi.modulWidth) (hY : Y < vi.modulWidth) :
    hasCell (fnCells vi) X Y ↔
      inFinderP vi.modulWidth X Y ∨ alignP vi X Y ∨ X = 6 ∨ Y = 6 ∨ (X = 8 ∧ Y = vi.modulWidth - 8) ∨
      (7 ≤ vi.version ∧ verRegionP vi.modulWidth X Y) := by
  unfold fnCells
  rw [hasCell_append, hasCell_append, hasCell_append, hasCell_append, hasCell_finder _ g.d21 X Y hX hY,
    hasCell_align g, hasCell_timing g X Y hX hY, hasCell_dark, hasCell_version' g]
  unfold verRegionP
  by_cases hF : inFinderP vi.modulWidth X Y <;> by_cases hA : alignP vi X Y <;>
    simp only [hF, hA, true_or, false_or, or_false, or_true, not_true_eq_false, not_false_eq_true, and_true,
      and_false, or_self] <;> try omega

/-- the bit indices in `formatCells` are below 15 -/
theorem formatCells_idx (dim : Nat) : ∀ c ∈ formatCells dim, c.2.2 < 15 := by
  intro c hc
  unfold formatCells at hc
  simp only [List.mem_cons, List.not_mem_nil, or_false] at hc
  rcases hc with rfl | rfl | rfl | rfl | rfl | rfl | rfl | rfl | rfl | rfl | rfl | rfl | rfl | rfl | rfl |
    rfl | rfl | rfl | rfl | rfl | rfl | rfl | rfl | rfl | rfl | rfl | rfl | rfl | rfl | rfl <;> (dsimp only; omega)

/-- occupied after the function patterns: a format module or a `setAll` cell -/
theorem drawnP_occ_iff {vi : VersionInfo} (hmem : vi ∈ versionInfos) (X Y : Nat) (hX : X < vi.modulWidth)
    (hY : Y < vi.modulWidth) :
    (drawnP vi).occ X Y = true ↔ fmtRegionP vi.modulWidth X Y ∨ hasCell (fnCells vi) X Y := by
  have g := geo_of_mem hmem
  rw [drawnP_occ vi hmem]
  by_cases hf : hasCell (fmtCells vi.modulWidth (List.replicate 15 true)) X Y
  · rw [foldUpd_hit _ _ X Y true hf]
    · rw [hasCell_fmt _ g.d21 _ X Y hX hY] at hf
      simp [hf]
    · intro c hc _ _
      unfold fmtCells at hc
      obtain ⟨c', hc', rfl⟩ := List.mem_map.mp hc
      have := formatCells_idx _ c' hc'
      simp only [List.getD_eq_getElem?_getD, List.getElem?_replicate, if_pos this, Option.getD_some]
  · rw [foldUpd_miss _ _ X Y hf, applyAll_occ_eq]
    rw [hasCell_fmt _ g.d21 _ X Y hX hY] at hf
    simp [hf, Pix.blank]

/-- `isFn` as a proposition -/
theorem isFn_iff (dim v : Nat) (aligns : List (Nat × Nat)) (X Y : Nat) :
    isFn dim v aligns X Y = true ↔
      (X ≤ 8 ∧ Y ≤ 8) ∨ (dim - 8 ≤ X ∧ Y ≤ 8) ∨ (X ≤ 8 ∧ dim - 8 ≤ Y) ∨ X = 6 ∨ Y = 6 ∨
      alignAt aligns X Y = true ∨
      (v ≥ 7 ∧ ((dim - 11 ≤ X ∧ X ≤ dim - 9 ∧ Y ≤ 5) ∨ (X ≤ 5 ∧ dim - 11 ≤ Y ∧ Y ≤ dim - 9))) := by
  unfold isFn
  simp only [Bool.or_eq_true, Bool.and_eq_true, decide_eq_true_eq, beq_iff_eq, or_assoc, and_assoc]

/-- F1: after the function-pattern phase, `occupied` is the reference decoder's map of function modules -/
theorem drawn_occ {vi : VersionInfo} (hmem : vi ∈ versionInfos) (X Y : Nat) (hX : X < vi.modulWidth)
    (hY : Y < vi.modulWidth) :
    (drawnP vi).occ X Y =
      isFn vi.modulWidth vi.version (Spec.Qr.alignmentPositions vi.alignmentPatternPlacements) X Y := by
  have g := geo_of_mem hmem
  have hd := g.d21
  rw [Bool.eq_iff_iff, drawnP_occ_iff hmem X Y hX hY, hasCell_fn g X Y hX hY, isFn_iff, alignAt_iff]
  unfold inFinderP verRegionP fmtRegionP
  by_cases hA : alignP vi X Y <;> simp only [hA, true_or, false_or, or_true] <;> try omega

/-! ### colours -/

theorem drawnP_res_nofmt {vi : VersionInfo} (hmem : vi ∈ versionInfos) (i : Nat) (hi : i < 8) (X Y : Nat)
    (hX : X < vi.modulWidth) (hY : Y < vi.modulWidth) (h : ¬ fmtRegionP vi.modulWidth X Y) :
    (drawnP vi).res i X Y = baseRes vi X Y := by
  rw [drawnP_res vi hmem i hi]
  apply foldUpd_miss
  rw [hasCell_fmt _ (geo_of_mem hmem).d21 _ X Y hX hY]
  exact h

/-- on a format module result `i` shows the format bit of that module -/
theorem drawnP_res_fmt {vi : VersionInfo} (hmem : vi ∈ versionInfos) (i : Nat) (hi : i < 8) (X Y : Nat)
    (hX : X < vi.modulWidth) (hY : Y < vi.modulWidth) (h : fmtRegionP vi.modulWidth X Y) :
    (drawnP vi).res i X Y = (formatInfoOf vi.level i).getD (fmtIdx vi.modulWidth X Y) false := by
  rw [drawnP_res vi hmem i hi]
  apply foldUpd_hit
  · rw [hasCell_fmt _ (geo_of_mem hmem).d21 _ X Y hX hY]
    exact h
  · intro c hc e1 e2
    rw [fmt_val _ (geo_of_mem hmem).d21 _ c hc, e1, e2]

section
variable {vi : VersionInfo}

/-- a module of the version areas shows its version bit -/
theorem baseRes_ver (X Y : Nat) (b : Bool) (h : hasCell (versionCells vi) X Y)
    (hv : ∀ c ∈ versionCells vi, c.1 = X → c.2.1 = Y → c.2.2 = b) : baseRes vi X Y = b := by
  unfold baseRes fnCells
  exact foldUpd_append_hit _ _ _ X Y b h hv

/-- the dark module is dark -/
theorem baseRes_dark (hV : ¬ hasCell (versionCells vi) 8 (vi.modulWidth - 8)) :
    baseRes vi 8 (vi.modulWidth - 8) = true := by
  unfold baseRes fnCells
  rw [foldUpd_append_miss _ _ _ _ _ hV]
  apply foldUpd_append_hit
  · exact (hasCell_dark _ _ _).mpr ⟨rfl, rfl⟩
  · intro c hc _ _
    simp only [List.mem_cons, List.not_mem_nil, or_false] at hc
    rw [hc]

/-- a timing cell outside the later phases shows the timing colour -/
theorem baseRes_timing (X Y : Nat) (hV : ¬ hasCell (versionCells vi) X Y)
    (hD : ¬ (X = 8 ∧ Y = vi.modulWidth - 8))
    (hT : hasCell (timingFree vi.modulWidth vi.alignmentPatternPlacements) X Y) :
    baseRes vi X Y = ((X + Y) % 2 == 0) := by
  unfold baseRes fnCells
  rw [foldUpd_append_miss _ _ _ _ _ hV, foldUpd_append_miss _ _ _ _ _ (fun h => hD ((hasCell_dark _ _ _).mp h))]
  exact foldUpd_append_hit _ _ _ X Y _ hT (timing_val _ _ X Y)

/-- an alignment cell outside the later phases shows its alignment colour -/
theorem baseRes_align (X Y : Nat) (b : Bool) (hV : ¬ hasCell (versionCells vi) X Y)
    (hD : ¬ (X = 8 ∧ Y = vi.modulWidth - 8))
    (hT : ¬ hasCell (timingFree vi.modulWidth vi.alignmentPatternPlacements) X Y)
    (hA : hasCell (alignCells vi.modulWidth vi.alignmentPatternPlacements) X Y)
    (hv : ∀ c ∈ alignCells vi.modulWidth vi.alignmentPatternPlacements, c.1 = X → c.2.1 = Y → c.2.2 = b) :
    baseRes vi X Y = b := by
  unfold baseRes fnCells
  rw [foldUpd_append_miss _ _ _ _ _ hV, foldUpd_append_miss _ _ _ _ _ (fun h => hD ((hasCell_dark _ _ _).mp h)),
    foldUpd_append_miss _ _ _ _ _ hT]
  exact foldUpd_append_hit _ _ _ X Y b hA hv

/-- a finder cell outside the later phases shows its finder colour -/
theorem baseRes_finder (X Y : Nat) (b : Bool) (hV : ¬ hasCell (versionCells vi) X Y)
    (hD : ¬ (X = 8 ∧ Y = vi.modulWidth - 8))
    (hT : ¬ hasCell (timingFree vi.modulWidth vi.alignmentPatternPlacements) X Y)
    (hA : ¬ hasCell (alignCells vi.modulWidth vi.alignmentPatternPlacements) X Y)
    (hF : hasCell (finderCells vi.modulWidth) X Y)
    (hv : ∀ c ∈ finderCells vi.modulWidth, c.1 = X → c.2.1 = Y → c.2.2 = b) :
    baseRes vi X Y = b := by
  unfold baseRes fnCells
  rw [foldUpd_append_miss _ _ _ _ _ hV, foldUpd_append_miss _ _ _ _ _ (fun h => hD ((hasCell_dark _ _ _).mp h)),
    foldUpd_append_miss _ _ _ _ _ hT, foldUpd_append_miss _ _ _ _ _ hA]
  exact foldUpd_hit _ _ X Y b hF hv

end

/-- an alignment square does not meet the finder squares, the format areas, the version areas or the dark module -/
theorem align_disjoint {vi : VersionInfo} (g : Geo vi) (X Y : Nat) (h : alignP vi X Y) :
    ¬ inFinderP vi.modulWidth X Y ∧ ¬ fmtRegionP vi.modulWidth X Y ∧ ¬ verRegionP vi.modulWidth X Y ∧
    ¬ (X = 8 ∧ Y = vi.modulWidth - 8) ∧ X < vi.modulWidth ∧ Y < vi.modulWidth := by
  obtain ⟨p, hp, hsq⟩ := h
  have gp := aligns_geo g p hp
  unfold inFinderP fmtRegionP verRegionP
  omega

/-- F2: finder patterns with separators, at the three corners, in every result picture -/
theorem drawn_finder {vi : VersionInfo} (hmem : vi ∈ versionInfos) (i : Nat) (hi : i < 8) (ox oy : Nat)
    (hc : (ox = 0 ∧ oy = 0) ∨ (ox = vi.modulWidth - 7 ∧ oy = 0) ∨ (ox = 0 ∧ oy = vi.modulWidth - 7))
    (dx dy : Int) (h1 : -1 ≤ dx) (h2 : dx ≤ 7) (h3 : -1 ≤ dy) (h4 : dy ≤ 7)
    (h5 : 0 ≤ (ox : Int) + dx) (h6 : (ox : Int) + dx < vi.modulWidth) (h7 : 0 ≤ (oy : Int) + dy)
    (h8 : (oy : Int) + dy < vi.modulWidth) :
    (drawnP vi).res i ((ox : Int) + dx).toNat ((oy : Int) + dy).toNat = finderVal dx dy := by
  have g := geo_of_mem hmem
  have hd := g.d21
  have hX : ((ox : Int) + dx).toNat < vi.modulWidth := by omega
  have hY : ((oy : Int) + dy).toNat < vi.modulWidth := by omega
  have hF : inFinderP vi.modulWidth ((ox : Int) + dx).toNat ((oy : Int) + dy).toNat := by
    unfold inFinderP; omega
  have hnA : ¬ alignP vi ((ox : Int) + dx).toNat ((oy : Int) + dy).toNat :=
    fun hA => (align_disjoint g _ _ hA).1 hF
  rw [drawnP_res_nofmt hmem i hi _ _ hX hY (by unfold fmtRegionP; unfold inFinderP at hF; omega)]
  apply baseRes_finder
  · rw [hasCell_version' g]; unfold verRegionP; unfold inFinderP at hF; omega
  · unfold inFinderP at hF; omega
  · rw [hasCell_timing g _ _ hX hY]; exact fun h => h.2 (Or.inl hF)
  · rw [hasCell_align g]; exact hnA
  · rw [hasCell_finder _ hd _ _ hX hY]; exact hF
  · exact finder_val _ hd ox oy hc dx dy h1 h2 h3 h4 h5 h6 h7 h8

/-- F3: the alignment patterns of the reference decoder's list, in every result picture -/
theorem drawn_align {vi : VersionInfo} (hmem : vi ∈ versionInfos) (i : Nat) (hi : i < 8) (p : Nat × Nat)
    (hp : p ∈ Spec.Qr.alignmentPositions vi.alignmentPatternPlacements)
    (a b : Int) (h1 : -2 ≤ a) (h2 : a ≤ 2) (h3 : -2 ≤ b) (h4 : b ≤ 2) :
    (drawnP vi).res i ((p.1 : Int) + a).toNat ((p.2 : Int) + b).toNat = alignVal a b := by
  have g := geo_of_mem hmem
  have gp := aligns_geo g p hp
  have hA : alignP vi ((p.1 : Int) + a).toNat ((p.2 : Int) + b).toNat := ⟨p, hp, by omega⟩
  obtain ⟨d1, d2, d3, d4, hX, hY⟩ := align_disjoint g _ _ hA
  rw [drawnP_res_nofmt hmem i hi _ _ hX hY d2]
  apply baseRes_align
  · rw [hasCell_version' g]; exact fun h => d3 h.2
  · exact d4
  · rw [hasCell_timing g _ _ hX hY]; exact fun h => h.2 (Or.inr hA)
  · rw [hasCell_align g]; exact hA
  · exact align_val g p hp a b h1 h2 h3 h4

/-- along the centre row / column of an alignment pattern with even centre `c` the colours alternate like the
    timing pattern: dark on even positions -/
theorem alignVal_line (a : Int) (h1 : -2 ≤ a) (h2 : a ≤ 2) (k c : Nat) (hc : c % 2 = 0) (ha : a = (k : Int) - c) :
    alignVal a 0 = (k % 2 == 0) ∧ alignVal 0 a = (k % 2 == 0) := by
  rcases (show a = -2 ∨ a = -1 ∨ a = 0 ∨ a = 1 ∨ a = 2 by omega) with h | h | h | h | h
  · have hk : k % 2 = 0 := by omega
    rw [h, hk]; exact ⟨by decide, by decide⟩
  · have hk : k % 2 = 1 := by omega
    rw [h, hk]; exact ⟨by decide, by decide⟩
  · have hk : k % 2 = 0 := by omega
    rw [h, hk]; exact ⟨by decide, by decide⟩
  · have hk : k % 2 = 1 := by omega
    rw [h, hk]; exact ⟨by decide, by decide⟩
  · have hk : k % 2 = 0 := by omega
    rw [h, hk]; exact ⟨by decide, by decide⟩

/-- F4: the timing patterns between the finder patterns, in every result picture (where an alignment pattern
    lies on the timing row or column its colours continue the alternation, the centres being even) -/
theorem drawn_timing {vi : VersionInfo} (hmem : vi ∈ versionInfos) (i : Nat) (hi : i < 8) (k : Nat)
    (hk8 : 8 ≤ k) (hk : k + 8 < vi.modulWidth) :
    (drawnP vi).res i k 6 = (k % 2 == 0) ∧ (drawnP vi).res i 6 k = (k % 2 == 0) := by
  have g := geo_of_mem hmem
  have hd := g.d21
  constructor
  · by_cases hA : alignP vi k 6
    · obtain ⟨p, hp, hsq⟩ := hA
      have gp := aligns_geo g p hp
      have h6 : p.2 = 6 := by omega
      have := drawn_align hmem i hi p hp ((k : Int) - p.1) 0 (by omega) (by omega) (by omega) (by omega)
      have e1 : ((p.1 : Int) + ((k : Int) - p.1)).toNat = k := by omega
      have e2 : ((p.2 : Int) + 0).toNat = 6 := by omega
      rw [e1, e2] at this
      rw [this]
      exact (alignVal_line ((k : Int) - p.1) (by omega) (by omega) k p.1 gp.2.2.1 rfl).1
    · rw [drawnP_res_nofmt hmem i hi _ _ (by omega) (by omega) (by unfold fmtRegionP; omega)]
      rw [baseRes_timing k 6 (by rw [hasCell_version' g]; unfold verRegionP; omega) (by omega)
        (by rw [hasCell_timing g _ _ (by omega) (by omega)]
            exact ⟨Or.inr rfl, fun h => h.elim (fun hF => by unfold inFinderP at hF; omega) hA⟩)]
      have : (k + 6) % 2 = k % 2 := by omega
      rw [this]
  · by_cases hA : alignP vi 6 k
    · obtain ⟨p, hp, hsq⟩ := hA
      have gp := aligns_geo g p hp
      have h6 : p.1 = 6 := by omega
      have := drawn_align hmem i hi p hp 0 ((k : Int) - p.2) (by omega) (by omega) (by omega) (by omega)
      have e1 : ((p.2 : Int) + ((k : Int) - p.2)).toNat = k := by omega
      have e2 : ((p.1 : Int) + 0).toNat = 6 := by omega
      rw [e1, e2] at this
      rw [this]
      exact (alignVal_line ((k : Int) - p.2) (by omega) (by omega) k p.2 gp.2.2.2.1 rfl).2
    · rw [drawnP_res_nofmt hmem i hi _ _ (by omega) (by omega) (by unfold fmtRegionP; omega)]
      rw [baseRes_timing 6 k (by rw [hasCell_version' g]; unfold verRegionP; omega) (by omega)
        (by rw [hasCell_timing g _ _ (by omega) (by omega)]
            exact ⟨Or.inl rfl, fun h => h.elim (fun hF => by unfold inFinderP at hF; omega) hA⟩)]
      have : (6 + k) % 2 = k % 2 := by omega
      rw [this]

/-- F5: the dark module, in every result picture -/
theorem drawn_dark {vi : VersionInfo} (hmem : vi ∈ versionInfos) (i : Nat) (hi : i < 8) :
    (drawnP vi).res i 8 (vi.modulWidth - 8) = true := by
  have g := geo_of_mem hmem
  have hd := g.d21
  rw [drawnP_res_nofmt hmem i hi _ _ (by omega) (by omega) (by unfold fmtRegionP; omega)]
  apply baseRes_dark
  rw [hasCell_version' g]; unfold verRegionP; omega

/-- F6: for versions ≥ 7, bit `j` (0 = least significant) of the version word, i.e. list element `17 - j`, at
    both places where the reference decoder reads bit `j`, in every result picture -/
theorem drawn_version {vi : VersionInfo} (hmem : vi ∈ versionInfos) (i : Nat) (hi : i < 8) (bits : List Bool)
    (hb : mapGet v_versionInfoBitsByVersion (vi.version : Int) = some bits) (hl : bits.length = 18)
    (j : Nat) (hj : j < 18) :
    (drawnP vi).res i (Spec.Qr.versionPosA vi.modulWidth j).1 (Spec.Qr.versionPosA vi.modulWidth j).2 =
      bits.getD (17 - j) false ∧
    (drawnP vi).res i (Spec.Qr.versionPosB vi.modulWidth j).1 (Spec.Qr.versionPosB vi.modulWidth j).2 =
      bits.getD (17 - j) false := by
  have g := geo_of_mem hmem
  have hd := g.d21
  obtain ⟨a1, a2⟩ := verIdx_posA vi.modulWidth j hd hj
  obtain ⟨b1, b2⟩ := verIdx_posB vi.modulWidth j hd hj
  constructor
  · generalize (Spec.Qr.versionPosA vi.modulWidth j).1 = X at *
    generalize (Spec.Qr.versionPosA vi.modulWidth j).2 = Y at *
    rw [drawnP_res_nofmt hmem i hi _ _ (by unfold verRegionP at a2; omega) (by unfold verRegionP at a2; omega)
      (by unfold fmtRegionP; unfold verRegionP at a2; omega)]
    apply baseRes_ver
    · rw [hasCell_version vi hd bits hb hl]; exact a2
    · intro c hc e1 e2
      rw [version_val vi hd bits hb hl c hc, e1, e2, a1]
  · generalize (Spec.Qr.versionPosB vi.modulWidth j).1 = X at *
    generalize (Spec.Qr.versionPosB vi.modulWidth j).2 = Y at *
    rw [drawnP_res_nofmt hmem i hi _ _ (by unfold verRegionP at b2; omega) (by unfold verRegionP at b2; omega)
      (by unfold fmtRegionP; unfold verRegionP at b2; omega)]
    apply baseRes_ver
    · rw [hasCell_version vi hd bits hb hl]; exact b2
    · intro c hc e1 e2
      rw [version_val vi hd bits hb hl c hc, e1, e2, b1]

/-- F7: bit `j` (0 = least significant) of the format word of mask `i`, i.e. list element `14 - j`, at both
    places where the reference decoder reads bit `j`, in result picture `i` -/
theorem drawn_format {vi : VersionInfo} (hmem : vi ∈ versionInfos) (i : Nat) (hi : i < 8) (j : Nat) (hj : j < 15) :
    (drawnP vi).res i (Spec.Qr.formatPosA j).1 (Spec.Qr.formatPosA j).2 =
      (formatInfoOf vi.level i).getD (14 - j) false ∧
    (drawnP vi).res i (Spec.Qr.formatPosB vi.modulWidth j).1 (Spec.Qr.formatPosB vi.modulWidth j).2 =
      (formatInfoOf vi.level i).getD (14 - j) false := by
  have g := geo_of_mem hmem
  obtain ⟨a1, a2, a3, a4⟩ := fmtIdx_posA vi.modulWidth j g.d21 hj
  obtain ⟨b1, b2, b3, b4⟩ := fmtIdx_posB vi.modulWidth j g.d21 hj
  exact ⟨by rw [drawnP_res_fmt hmem i hi _ _ a3 a4 a2, a1], by rw [drawnP_res_fmt hmem i hi _ _ b3 b4 b2, b1]⟩

end BV.Proofs.QrMatrix
