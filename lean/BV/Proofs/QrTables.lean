/-
  QR: table certificates.  Every generated table of package qr (`BV.Gen.Qr`) is compared with the tables /
  formulas of ISO/IEC 18004 as written down independently in `BV.Spec.Qr`.  The finite facts are discharged by
  kernel evaluation (`decide +kernel`) over the WHOLE table ("certificate"); each one is lifted to a lemma
  quantified over all rows / versions / levels / masks.
-/
import BV.Model.Qr
import BV.Spec.Qr
namespace BV.Proofs.QrTables
open BV BV.Model BV.Model.Qr BV.Gen.Qr

set_option maxRecDepth 100000

/-! ## generic helpers -/

theorem lookup_none_of_keys {α} (tbl : List (Int × α)) (k : Int) (h : ∀ p ∈ tbl, p.1 ≠ k) :
    tbl.lookup k = none := by
  rw [List.lookup_eq_none_iff]
  intro p hp
  have := h p hp
  simp only [bne_iff_ne, ne_eq]
  exact fun e => this e.symm

theorem lookup_mem {α} (tbl : List (Int × α)) (k : Int) (v : α) (h : tbl.lookup k = some v) : (k, v) ∈ tbl := by
  induction tbl with
  | nil => cases h
  | cons p ps ih =>
    obtain ⟨pk, pv⟩ := p
    rw [List.lookup_cons] at h
    by_cases e : k = pk
    · subst e; simp at h; subst h; exact List.mem_cons_self
    · have : (k == pk) = false := by simpa using e
      rw [this] at h
      exact List.mem_cons_of_mem _ (ih h)

theorem nodup_map_inj {α β} (f : α → β) :
    ∀ (l : List α), (l.map f).Nodup → ∀ a b, a ∈ l → b ∈ l → f a = f b → a = b := by
  intro l
  induction l with
  | nil => intro _ a b ha; cases ha
  | cons x xs ih =>
    intro hn a b ha hb e
    rw [List.map_cons, List.nodup_cons] at hn
    rcases List.mem_cons.mp ha with rfl | ha' <;> rcases List.mem_cons.mp hb with rfl | hb'
    · rfl
    · exact absurd (e ▸ List.mem_map.mpr ⟨b, hb', rfl⟩) hn.1
    · exact absurd (e ▸ List.mem_map.mpr ⟨a, ha', rfl⟩) hn.1
    · exact ih hn.2 a b ha' hb' e

/-! ## A1 — `versionInfos` against Table 9 (`Spec.Qr.blockTable`) -/

/-- index of a level letter in the order L, M, Q, H (the Go constants `L, M, Q, H = 0, 1, 2, 3`) -/
def levelIdx (c : Char) : Nat := if c = 'L' then 0 else if c = 'M' then 1 else if c = 'Q' then 2 else 3

/-- one entry of Table 9 as a `VersionInfo` (a missing second group is `0 × 0`) -/
def isoRow (v : Nat) (e : Char × Nat × List (Nat × Nat)) : VersionInfo :=
  { version := v, level := levelIdx e.1, errorCorrectionCodewordsPerBlock := e.2.1,
    numberOfBlocksInGroup1 := (e.2.2.getD 0 (0, 0)).1, dataCodeWordsPerBlockInGroup1 := (e.2.2.getD 0 (0, 0)).2,
    numberOfBlocksInGroup2 := (e.2.2.getD 1 (0, 0)).1, dataCodeWordsPerBlockInGroup2 := (e.2.2.getD 1 (0, 0)).2 }

/-- Table 9 flattened in table order -/
def isoRows : List VersionInfo :=
  Spec.Qr.blockTable.flatMap (fun vr => vr.2.map (isoRow vr.1))

/-- certificate: Table 9 lists the versions 1..40 in order, every version has the four levels in the order
    L, M, Q, H, and every entry has one or two groups (so `isoRow` drops nothing) -/
theorem blockTable_shape :
    Spec.Qr.blockTable.map (·.1) = (List.range 40).map (· + 1) ∧
    (∀ vr ∈ Spec.Qr.blockTable, vr.2.map (·.1) = ['L', 'M', 'Q', 'H']) ∧
    (∀ vr ∈ Spec.Qr.blockTable, ∀ e ∈ vr.2, e.2.2.length = 1 ∨ e.2.2.length = 2) := by
  decide +kernel

/-- certificate: the 160 generated rows are exactly Table 9, in table order -/
theorem versionInfos_eq_isoRows : versionInfos = isoRows := by decide +kernel

/-- certificate: the (version, level) keys of the rows are (1,0),(1,1),(1,2),(1,3),(2,0),…,(40,3) -/
theorem versionInfos_keys :
    versionInfos.map (fun vi => (vi.version, vi.level)) = (List.range 160).map (fun i => (i / 4 + 1, i % 4)) := by
  decide +kernel

theorem versionInfos_length : versionInfos.length = 160 := by decide +kernel

/-- certificate: the table is sorted by version -/
theorem versionInfos_sorted : versionInfos.Pairwise (fun a b => a.version ≤ b.version) := by decide +kernel

/-- certificate: no (version, level) occurs twice -/
theorem versionInfos_keys_nodup : (versionInfos.map (fun vi => (vi.version, vi.level))).Nodup := by
  decide +kernel

/-- certificate: every (version, level) with 1 ≤ version ≤ 40, level ≤ 3 occurs exactly once -/
theorem versionInfos_count_cert :
    ∀ v, v < 41 → ∀ l, l < 4 → 1 ≤ v →
      (versionInfos.map (fun vi => (vi.version, vi.level))).count (v, l) = 1 := by
  decide +kernel

theorem versionInfos_count (v l : Nat) (h1 : 1 ≤ v) (h2 : v ≤ 40) (hl : l ≤ 3) :
    (versionInfos.map (fun vi => (vi.version, vi.level))).count (v, l) = 1 :=
  versionInfos_count_cert v (by omega) l (by omega) h1

/-- every row has a version in 1..40 and a level in 0..3 -/
theorem mem_versionInfos_range {vi : VersionInfo} (h : vi ∈ versionInfos) :
    1 ≤ vi.version ∧ vi.version ≤ 40 ∧ vi.level ≤ 3 := by
  have hk : (vi.version, vi.level) ∈ versionInfos.map (fun vi => (vi.version, vi.level)) :=
    List.mem_map.mpr ⟨vi, h, rfl⟩
  rw [versionInfos_keys, List.mem_map] at hk
  obtain ⟨i, hi, e⟩ := hk
  rw [List.mem_range] at hi
  simp only [Prod.mk.injEq] at e
  omega

/-- there is a row for every version 1..40 and level 0..3, and it is unique -/
theorem exists_unique_row (v l : Nat) (h1 : 1 ≤ v) (h2 : v ≤ 40) (hl : l ≤ 3) :
    ∃ vi, vi ∈ versionInfos ∧ vi.version = v ∧ vi.level = l ∧
      ∀ vi', vi' ∈ versionInfos → vi'.version = v → vi'.level = l → vi' = vi := by
  have hc := versionInfos_count v l h1 h2 hl
  have hm : (v, l) ∈ versionInfos.map (fun vi => (vi.version, vi.level)) :=
    List.count_pos_iff.mp (by rw [hc]; exact Nat.one_pos)
  obtain ⟨vi, hvi, e⟩ := List.mem_map.mp hm
  simp only [Prod.mk.injEq] at e
  refine ⟨vi, hvi, e.1, e.2, ?_⟩
  intro vi' hvi' ev el
  exact nodup_map_inj _ _ versionInfos_keys_nodup vi' vi hvi' hvi
    (by simp only [Prod.mk.injEq]; exact ⟨ev.trans e.1.symm, el.trans e.2.symm⟩)

/-! ### the same facts in the vocabulary of the reference decoder -/

/-- what `Spec.Qr.decode` looks up for (version, level): ec codewords per block and the groups -/
def specEntry (v l : Nat) : Option (Nat × List (Nat × Nat)) :=
  match Spec.Qr.blockTable.lookup v with
  | none => none
  | some row =>
    match row.find? (fun e => e.1 == Spec.Qr.levelChar l) with
    | some e => some e.2
    | none => none

/-- block lengths as `Spec.Qr.decode` derives them -/
def specLens (groups : List (Nat × Nat)) : List Nat := groups.flatMap (fun g => List.replicate g.1 g.2)

/-- per-row check used by `versionInfos_spec_cert` -/
def rowMatchesSpec (vi : VersionInfo) : Bool :=
  match specEntry vi.version vi.level with
  | none => false
  | some (ec, groups) =>
    let lens := specLens groups
    ec == vi.errorCorrectionCodewordsPerBlock &&
    lens == List.replicate vi.numberOfBlocksInGroup1 vi.dataCodeWordsPerBlockInGroup1 ++
            List.replicate vi.numberOfBlocksInGroup2 vi.dataCodeWordsPerBlockInGroup2 &&
    lens.length == vi.numberOfBlocksInGroup1 + vi.numberOfBlocksInGroup2 &&
    lens.foldl (· + ·) 0 == vi.totalDataBytes

theorem versionInfos_spec_cert : versionInfos.all rowMatchesSpec = true := by decide +kernel

/-- for every generated row the reference decoder's table lookup yields the same error correction count, the
    same block lengths in the same order (group 1 first), the same number of blocks and the same number of
    data codewords (`totalDataBytes`) -/
theorem versionInfos_spec {vi : VersionInfo} (h : vi ∈ versionInfos) :
    ∃ groups, specEntry vi.version vi.level = some (vi.errorCorrectionCodewordsPerBlock, groups) ∧
      specLens groups = List.replicate vi.numberOfBlocksInGroup1 vi.dataCodeWordsPerBlockInGroup1 ++
        List.replicate vi.numberOfBlocksInGroup2 vi.dataCodeWordsPerBlockInGroup2 ∧
      (specLens groups).length = vi.numberOfBlocksInGroup1 + vi.numberOfBlocksInGroup2 ∧
      (specLens groups).foldl (· + ·) 0 = vi.totalDataBytes := by
  have := List.all_eq_true.mp versionInfos_spec_cert vi h
  unfold rowMatchesSpec at this
  split at this
  · exact absurd this (by decide)
  · rename_i ec groups he
    simp only [Bool.and_eq_true, beq_iff_eq] at this
    obtain ⟨⟨⟨h1, h2⟩, h3⟩, h4⟩ := this
    exact ⟨groups, by rw [he, h1], h2, h3, h4⟩

/-! ## A2 — format information -/

/-- the two level bits of the format information (Table 25): L = 01, M = 00, Q = 11, H = 10 -/
def isoLevelBits (l : Nat) : Nat := match l with | 0 => 1 | 1 => 0 | 2 => 3 | _ => 2

/-- certificate over the 32 words -/
theorem formatInfos_cert : ∀ l, l < 4 → ∀ m, m < 8 →
    (formatInfoOf l m).length = 15 ∧
    Spec.Qr.formatWordValid (bitsToNat (formatInfoOf l m) ^^^ Spec.Qr.formatMaskPattern) = true ∧
    (bitsToNat (formatInfoOf l m) ^^^ Spec.Qr.formatMaskPattern) / 2 ^ 10 = isoLevelBits l * 8 + m := by
  decide +kernel

/-- certificate: the map has the keys 0..3 and every inner map the keys 0..7 (so exactly 32 entries) -/
theorem formatInfos_keys :
    v_formatInfos.map (·.1) = [0, 1, 2, 3] ∧
    ∀ e ∈ v_formatInfos, e.2.map (·.1) = [0, 1, 2, 3, 4, 5, 6, 7] := by
  decide +kernel

theorem formatInfoOf_level_undefined (l m : Nat) (h : 4 ≤ l) : formatInfoOf l m = [] := by
  unfold formatInfoOf mapGet
  rw [lookup_none_of_keys]
  intro p hp
  have : p.1 ∈ v_formatInfos.map (·.1) := List.mem_map.mpr ⟨p, hp, rfl⟩
  rw [formatInfos_keys.1] at this
  simp only [List.mem_cons, List.not_mem_nil, or_false] at this
  omega

theorem formatInfoOf_mask_undefined (l m : Nat) (h : 8 ≤ m) : formatInfoOf l m = [] := by
  unfold formatInfoOf mapGet
  split
  · rfl
  · rename_i mp he
    have hmem := lookup_mem _ _ _ he
    have hk := formatInfos_keys.2 _ hmem
    rw [lookup_none_of_keys]
    · rfl
    · intro p hp
      have : p.1 ∈ mp.map (·.1) := List.mem_map.mpr ⟨p, hp, rfl⟩
      rw [hk] at this
      simp only [List.mem_cons, List.not_mem_nil, or_false] at this
      omega

/-- the level bits are the ones the reference decoder maps back to the level -/
theorem levelOfFormatBits_isoLevelBits (l : Nat) (h : l ≤ 3) :
    Spec.Qr.levelOfFormatBits (isoLevelBits l) = l := by
  have : ∀ l, l < 4 → Spec.Qr.levelOfFormatBits (isoLevelBits l) = l := by decide
  exact this l (by omega)

/-- A2: for every level `l ≤ 3` and mask `m ≤ 7` the generated word has 15 bits, is (after removing the mask
    pattern 0x5412) a BCH(15,5) word, its five data bits are (ISO level bits of `l`) ‖ `m`, and the reference
    decoder reads back exactly level `l` and mask `m` from it.  (List index 0 is the most significant bit:
    `drawFormatInfo` puts index `i` where `Spec.Qr.formatPosA/B` expect bit `14 - i`.) -/
theorem formatInfos_bch (l m : Nat) (hl : l ≤ 3) (hm : m ≤ 7) :
    (formatInfoOf l m).length = 15 ∧
    Spec.Qr.formatWordValid (bitsToNat (formatInfoOf l m) ^^^ Spec.Qr.formatMaskPattern) = true ∧
    (bitsToNat (formatInfoOf l m) ^^^ Spec.Qr.formatMaskPattern) / 2 ^ 10 = isoLevelBits l * 8 + m ∧
    Spec.Qr.levelOfFormatBits ((bitsToNat (formatInfoOf l m) ^^^ Spec.Qr.formatMaskPattern) / 2 ^ 13) = l ∧
    ((bitsToNat (formatInfoOf l m) ^^^ Spec.Qr.formatMaskPattern) / 2 ^ 10) % 8 = m := by
  obtain ⟨h1, h2, h3⟩ := formatInfos_cert l (by omega) m (by omega)
  refine ⟨h1, h2, h3, ?_, ?_⟩
  · have : (bitsToNat (formatInfoOf l m) ^^^ Spec.Qr.formatMaskPattern) / 2 ^ 13 = isoLevelBits l := by
      have e : (2 : Nat) ^ 13 = 2 ^ 10 * 8 := by decide
      rw [e, ← Nat.div_div_eq_div_mul, h3]
      omega
    rw [this]
    exact levelOfFormatBits_isoLevelBits l hl
  · rw [h3]; omega

/-! ## A3 — version information -/

/-- per-version check used by `versionInfoBits_cert` -/
def versionWordOk (v : Nat) : Bool :=
  match mapGet v_versionInfoBitsByVersion (v : Int) with
  | none => false
  | some bits =>
    bits.length == 18 && Spec.Qr.versionWordValid (bitsToNat bits) && bitsToNat bits / 2 ^ 12 == v

/-- certificate over the 34 words -/
theorem versionInfoBits_cert : ∀ v : Nat, v < 41 → 7 ≤ v → versionWordOk v = true := by
  decide +kernel

/-- certificate: the keys are 7..40 -/
theorem versionInfoBits_keys :
    v_versionInfoBitsByVersion.map (·.1) = (List.range 34).map (fun i => ((i + 7 : Nat) : Int)) := by
  decide +kernel

/-- A3: for 7 ≤ v ≤ 40 the generated word has 18 bits, is a BCH(18,6) word and its six data bits are `v`.
    (List index 0 is the most significant bit: `drawVersionInfo` writes `bits[n-1-i]` at the place where
    `Spec.Qr.versionPosA/B` expect bit `i`.) -/
theorem versionInfoBits_bch (v : Nat) (h7 : 7 ≤ v) (h40 : v ≤ 40) :
    ∃ bits, mapGet v_versionInfoBitsByVersion (v : Int) = some bits ∧ bits.length = 18 ∧
      Spec.Qr.versionWordValid (bitsToNat bits) = true ∧ bitsToNat bits / 2 ^ 12 = v := by
  have := versionInfoBits_cert v (by omega) h7
  unfold versionWordOk at this
  split at this
  · exact absurd this (by decide)
  · rename_i bits he
    simp only [Bool.and_eq_true, beq_iff_eq] at this
    exact ⟨bits, he, this.1.1, this.1.2, this.2⟩

/-- A3: there is no entry for versions below 7 (nor above 40) -/
theorem versionInfoBits_none (v : Nat) (h : v < 7 ∨ 40 < v) :
    mapGet v_versionInfoBitsByVersion (v : Int) = none := by
  unfold mapGet
  apply lookup_none_of_keys
  intro p hp
  have : p.1 ∈ v_versionInfoBitsByVersion.map (·.1) := List.mem_map.mpr ⟨p, hp, rfl⟩
  rw [versionInfoBits_keys, List.mem_map] at this
  obtain ⟨i, hi, e⟩ := this
  rw [List.mem_range] at hi
  omega

/-! ## A4 — the alphanumeric character set -/

/-- A4: the generated `charSet` is the alphanumeric set of the standard (value = index) -/
theorem charSet_eq : c_charSet = Spec.Qr.alnumChars := by decide +kernel

theorem charSet_length : c_charSet.length = 45 := by decide

/-- A4: the 45 characters are pairwise distinct -/
theorem charSet_nodup : c_charSet.Nodup := by decide +kernel

/-- every character of the set is ASCII -/
theorem charSet_ascii : ∀ b ∈ c_charSet, b.toNat < 128 := by decide +kernel

/-! ## A5 — alignment pattern centres -/

/-- `alignmentPatternPlacements` only looks at the version -/
def alignOfVersion (v : Nat) : List Nat :=
  VersionInfo.alignmentPatternPlacements ⟨v, 0, 0, 0, 0, 0, 0⟩

theorem alignmentPatternPlacements_eq (vi : VersionInfo) :
    vi.alignmentPatternPlacements = alignOfVersion vi.version := by
  cases vi; rfl

/-- certificate: evaluation of the model function on the 40 versions -/
theorem alignment_cert : ∀ v : Nat, v < 41 → 1 ≤ v →
    Spec.Qr.alignmentCentres.lookup v = some (alignOfVersion v) := by
  decide +kernel

/-- certificate: Annex E has exactly the rows 1..40 -/
theorem alignmentCentres_keys : Spec.Qr.alignmentCentres.map (·.1) = (List.range 40).map (· + 1) := by
  decide +kernel

/-- A5: for every version 1..40 the computed centres are the row of Annex E -/
theorem alignment_eq_annexE (vi : VersionInfo) (h1 : 1 ≤ vi.version) (h40 : vi.version ≤ 40) :
    Spec.Qr.alignmentCentres.lookup vi.version = some vi.alignmentPatternPlacements := by
  rw [alignmentPatternPlacements_eq]
  exact alignment_cert vi.version (by omega) h1

/-- certificate: all centres lie in 6 .. dim-7, the list starts with 6 (versions ≥ 2) and is strictly increasing -/
theorem alignment_range_cert : ∀ v : Nat, v < 41 → 1 ≤ v →
    (∀ c ∈ alignOfVersion v, 6 ≤ c ∧ c + 7 ≤ 17 + 4 * v) ∧ (alignOfVersion v).Pairwise (· < ·) := by
  decide +kernel

/-! ## A6 — character count widths, symbol size, data capacity -/

/-- A6: the character count indicator has the width of Table 3, for every version and for the three modes
    the encoder uses (numeric 1, alphanumeric 2, byte 4; also for every other mode value except kanji 8, which
    the reference decoder does not support) -/
theorem charCountBits_eq (vi : VersionInfo) (m : Nat) (hm : m ≠ 8) :
    vi.charCountBits m = Spec.Qr.countBits vi.version m := by
  unfold VersionInfo.charCountBits Spec.Qr.countBits c_numericMode c_alphaNumericMode c_byteMode c_kanjiMode
  by_cases h1 : m = 1
  · subst h1
    by_cases a : vi.version < 10
    · have : vi.version ≤ 9 := by omega
      simp [a, this]
    · by_cases b : vi.version < 27
      · have h9 : ¬ vi.version ≤ 9 := by omega
        have h26 : vi.version ≤ 26 := by omega
        simp [a, b, h9, h26]
      · have h9 : ¬ vi.version ≤ 9 := by omega
        have h26 : ¬ vi.version ≤ 26 := by omega
        simp [a, b, h9, h26]
  · by_cases h2 : m = 2
    · subst h2
      by_cases a : vi.version < 10
      · have : vi.version ≤ 9 := by omega
        simp [a, this]
      · by_cases b : vi.version < 27
        · have h9 : ¬ vi.version ≤ 9 := by omega
          have h26 : vi.version ≤ 26 := by omega
          simp [a, b, h9, h26]
        · have h9 : ¬ vi.version ≤ 9 := by omega
          have h26 : ¬ vi.version ≤ 26 := by omega
          simp [a, b, h9, h26]
    · by_cases h4 : m = 4
      · subst h4
        by_cases a : vi.version < 10
        · have : vi.version ≤ 9 := by omega
          simp [a, this]
        · by_cases b : vi.version < 27
          · have h9 : ¬ vi.version ≤ 9 := by omega
            have h26 : vi.version ≤ 26 := by omega
            simp [a, h9, h26]
          · have h9 : ¬ vi.version ≤ 9 := by omega
            have h26 : ¬ vi.version ≤ 26 := by omega
            simp [a, h9, h26]
      · simp only [beq_iff_eq, h1, h2, h4, hm, if_false]
        split <;> first | rfl | omega

/-- A6: the side length is 17 + 4·version -/
theorem modulWidth_eq (vi : VersionInfo) (h1 : 1 ≤ vi.version) : vi.modulWidth = 17 + 4 * vi.version := by
  unfold VersionInfo.modulWidth; omega

/-- A6: `totalDataBytes` of every generated row is the number of data codewords the reference decoder derives
    from Table 9 for that version and level -/
theorem totalDataBytes_eq {vi : VersionInfo} (h : vi ∈ versionInfos) :
    ∃ ec groups, specEntry vi.version vi.level = some (ec, groups) ∧
      vi.totalDataBytes = (specLens groups).foldl (· + ·) 0 := by
  obtain ⟨groups, h1, _, _, h4⟩ := versionInfos_spec h
  exact ⟨_, groups, h1, h4.symm⟩

/-! ## further per-row certificates used by the stream / pipeline proofs -/

/-- per-row side conditions -/
def rowSide (vi : VersionInfo) : Bool :=
  -- the `byte` addition in `splitToBlocks` does not wrap
  decide (vi.numberOfBlocksInGroup1 + vi.numberOfBlocksInGroup2 < 256) &&
  decide (1 ≤ vi.totalDataBytes) &&
  -- the largest character count that fits is below 2^(width of the count field)
  decide (3 * (8 * vi.totalDataBytes) < 10 * 2 ^ vi.charCountBits c_numericMode) &&
  decide (2 * (8 * vi.totalDataBytes) < 11 * 2 ^ vi.charCountBits c_alphaNumericMode) &&
  decide (vi.totalDataBytes ≤ 2 ^ vi.charCountBits c_byteMode)

theorem rowSide_cert : versionInfos.all rowSide = true := by decide +kernel

theorem rowSide_of_mem {vi : VersionInfo} (h : vi ∈ versionInfos) :
    vi.numberOfBlocksInGroup1 + vi.numberOfBlocksInGroup2 < 256 ∧ 1 ≤ vi.totalDataBytes ∧
    3 * (8 * vi.totalDataBytes) < 10 * 2 ^ vi.charCountBits c_numericMode ∧
    2 * (8 * vi.totalDataBytes) < 11 * 2 ^ vi.charCountBits c_alphaNumericMode ∧
    vi.totalDataBytes ≤ 2 ^ vi.charCountBits c_byteMode := by
  have := List.all_eq_true.mp rowSide_cert vi h
  unfold rowSide at this
  simp only [Bool.and_eq_true, decide_eq_true_eq] at this
  obtain ⟨⟨⟨⟨a, b⟩, c⟩, d⟩, e⟩ := this
  exact ⟨a, b, c, d, e⟩

end BV.Proofs.QrTables
