/-
  QR: which inputs the mode encoders accept (`encodeNumeric`, `encodeAlphaNumeric`, `encodeUnicode`,
  `encodeAuto`), for ALL byte strings and levels.
-/
import BV.Proofs.QrStreamA
namespace BV.Proofs.QrAccept
open BV BV.Model BV.Model.Qr BV.Gen.Qr BV.Proofs.QrTables BV.Proofs.QrStreamA

set_option maxRecDepth 100000

/-! ## D — numeric -/

/-- ASCII digit -/
def IsDigit (b : UInt8) : Prop := 48 ≤ b.toNat ∧ b.toNat ≤ 57

instance (b : UInt8) : Decidable (IsDigit b) := by unfold IsDigit; infer_instance

theorem foldl_digits_nonneg (body : Bytes) (a : Int) (ha : 0 ≤ a) :
    0 ≤ body.foldl (fun (a : Int) b => a * 10 + ((b.toNat - 48 : Nat) : Int)) a := by
  induction body generalizing a with
  | nil => exact ha
  | cons b bs ih =>
    rw [List.foldl_cons]
    apply ih
    have : (0 : Int) ≤ ((b.toNat - 48 : Nat) : Int) := Int.natCast_nonneg _
    omega

/-- one chunk: `Atoi` succeeds with a non-negative value and the chunk has no sign iff it consists of digits -/
theorem chunk_accept (c : Bytes) (hne : c ≠ []) :
    (∃ i, atoi c = some i ∧ ¬ ((decide (i < 0) || c.head? == some 43 || c.head? == some 45) = true)) ↔
      ∀ b ∈ c, IsDigit b := by
  cases c with
  | nil => exact absurd rfl hne
  | cons x rest =>
    unfold atoi
    simp only [List.head?_cons]
    by_cases hs : x = 45 ∨ x = 43
    · constructor
      · rintro ⟨i, _, hn⟩
        exfalso; apply hn
        rcases hs with rfl | rfl <;> simp
      · intro h
        have := h x List.mem_cons_self
        unfold IsDigit at this
        rcases hs with rfl | rfl <;> simp at this
    · have h45 : ¬ x = 45 := fun e => hs (Or.inl e)
      have h43 : ¬ x = 43 := fun e => hs (Or.inr e)
      have hb : (x == 45 || x == 43) = false := by simp [h45, h43]
      simp only [hb, Bool.false_eq_true, if_false, List.isEmpty_cons]
      by_cases hall : (x :: rest).all (fun b => 48 ≤ b.toNat && b.toNat ≤ 57) = true
      · rw [if_pos hall]
        constructor
        · intro _ b hb
          have := List.all_eq_true.mp hall b hb
          simpa [IsDigit] using this
        · intro _
          refine ⟨_, rfl, ?_⟩
          have := foldl_digits_nonneg (x :: rest) 0 (Int.le_refl 0)
          have e45 : (x == 45) = false := by simp [h45]
          simp only [e45, Bool.false_eq_true, if_false]
          simp [h45, h43]
          exact foldl_digits_nonneg rest _ (Int.natCast_nonneg _)
      · rw [if_neg hall]
        constructor
        · rintro ⟨i, hi, _⟩; cases hi
        · intro h
          exfalso; apply hall
          rw [List.all_eq_true]
          intro b hb
          have := h b hb
          simpa [IsDigit] using this

/-- the chunk loop succeeds iff every byte is an ASCII digit -/
theorem numericChunks_isSome (fuel : Nat) (s : Bytes) (hf : s.length ≤ fuel) :
    (numericChunks fuel s).isSome = true ↔ ∀ b ∈ s, IsDigit b := by
  induction fuel generalizing s with
  | zero =>
    have : s = [] := List.eq_nil_of_length_eq_zero (by omega)
    subst this
    simp [numericChunks]
  | succ fuel ih =>
    by_cases he : s = []
    · subst he; simp [numericChunks]
    · have hpos : 0 < s.length := List.length_pos_iff.mpr he
      have hem : ¬ s.isEmpty = true := fun h => he (List.isEmpty_iff.mp h)
      have htake : s.take 3 ≠ [] := by
        intro h
        have := congrArg List.length h
        rw [List.length_take] at this
        simp only [List.length_nil] at this; omega
      have hsplit : (∀ b ∈ s, IsDigit b) ↔ (∀ b ∈ s.take 3, IsDigit b) ∧ (∀ b ∈ s.drop 3, IsDigit b) := by
        conv => lhs; rw [← List.take_append_drop 3 s]
        simp only [List.mem_append]
        constructor
        · intro h; exact ⟨fun b hb => h b (Or.inl hb), fun b hb => h b (Or.inr hb)⟩
        · rintro ⟨h1, h2⟩ b (hb | hb)
          · exact h1 b hb
          · exact h2 b hb
      have ihd := ih (s.drop 3) (by rw [List.length_drop]; omega)
      have hc := chunk_accept (s.take 3) htake
      rw [hsplit, ← hc, ← ihd]
      conv => lhs; unfold numericChunks
      rw [if_neg hem]
      simp only
      cases hat : atoi (s.take 3) with
      | none => simp
      | some i =>
        simp only [Option.some.injEq, exists_eq_left']
        by_cases hrej : (decide (i < 0) || (s.take 3).head? == some 43 || (s.take 3).head? == some 45) = true
        · rw [if_pos hrej]; simp [hrej]
        · rw [if_neg hrej]
          cases hr : numericChunks fuel (s.drop 3) with
          | none => simp
          | some rest => simp [hrej]

/-! ## D — alphanumeric -/

/-- rune values of the 45 characters -/
def setRunes : List Nat := c_charSet.map (·.toNat)

/-- certificate: ranging over `charSet` gives its 45 bytes as runes at offsets 0..44 -/
theorem runes_charSet : runes c_charSet = (List.range 45).map (fun i => (i, (c_charSet.getD i 0).toNat)) := by
  decide +kernel

theorem runes_charSet_snd : (runes c_charSet).map (·.2) = setRunes := by decide +kernel

/-- certificate: the value `strings.IndexRune` returns for the `i`-th character is `i` -/
theorem indexRune_charSet : ∀ i : Nat, i < 45 → indexRune c_charSet (c_charSet.getD i 0).toNat = (i : Int) := by
  decide +kernel

theorem setRunes_lt : ∀ r ∈ setRunes, r < 128 := by decide +kernel

theorem indexRune_ge_neg_one (tbl : Bytes) (r : Nat) : -1 ≤ indexRune tbl r := by
  unfold indexRune
  split
  · rename_i p _
    have : (0 : Int) ≤ (p.1 : Int) := Int.natCast_nonneg _
    omega
  · omega

theorem indexRune_nonneg_iff (r : Nat) : 0 ≤ indexRune c_charSet r ↔ r ∈ setRunes := by
  rw [← runes_charSet_snd]
  unfold indexRune
  cases h : (runes c_charSet).find? (fun p => decide (p.2 = r)) with
  | none =>
    simp only
    rw [List.find?_eq_none] at h
    constructor
    · intro h0; omega
    · intro hm
      obtain ⟨p, hp, e⟩ := List.mem_map.mp hm
      exact absurd (by simpa using e) (h p hp)
  | some p =>
    simp only
    have := List.find?_some h
    have hm := List.mem_of_find?_eq_some h
    constructor
    · intro _; exact List.mem_map.mpr ⟨p, hm, by simpa using this⟩
    · intro _; exact Int.natCast_nonneg _

theorem toNat_mem_setRunes (b : UInt8) : b.toNat ∈ setRunes ↔ b ∈ c_charSet := by
  unfold setRunes
  rw [List.mem_map]
  constructor
  · rintro ⟨a, ha, e⟩
    have : a = b := UInt8.toNat_inj.mp e
    exact this ▸ ha
  · intro h; exact ⟨b, h, rfl⟩

/-! ### the producer -/

theorem go_cons (o r : Nat) (rest : List (Nat × Nat)) :
    stringToAlphaIdx.go ((o, r) :: rest) =
      if indexRune c_charSet r < 0 then [indexRune c_charSet r]
      else indexRune c_charSet r :: stringToAlphaIdx.go rest := rfl

theorem go_length_le (rs : List (Nat × Nat)) : (stringToAlphaIdx.go rs).length ≤ rs.length := by
  induction rs with
  | nil => exact Nat.le_refl _
  | cons p rest ih =>
    obtain ⟨o, r⟩ := p
    rw [go_cons]
    split
    · simp
    · simp only [List.length_cons]; omega

theorem go_nonneg (rs : List (Nat × Nat)) :
    (∀ x ∈ stringToAlphaIdx.go rs, 0 ≤ x) ↔ ∀ p ∈ rs, p.2 ∈ setRunes := by
  induction rs with
  | nil => simp [stringToAlphaIdx.go]
  | cons p rest ih =>
    obtain ⟨o, r⟩ := p
    rw [go_cons]
    by_cases h : indexRune c_charSet r < 0
    · rw [if_pos h]
      have hn : ¬ r ∈ setRunes := fun hm => by
        have := (indexRune_nonneg_iff r).mpr hm; omega
      constructor
      · intro hx
        have := hx _ List.mem_cons_self
        omega
      · intro hp
        exact absurd (hp (o, r) List.mem_cons_self) hn
    · rw [if_neg h]
      have hm : r ∈ setRunes := (indexRune_nonneg_iff r).mp (by omega)
      simp only [List.forall_mem_cons]
      rw [ih]
      constructor
      · rintro ⟨_, h2⟩; exact ⟨hm, h2⟩
      · rintro ⟨_, h2⟩; exact ⟨by omega, h2⟩

theorem runesAux_length_le (fuel off : Nat) (s : Bytes) : (runesAux fuel off s).length ≤ fuel := by
  induction fuel generalizing off s with
  | zero => simp [runesAux]
  | succ fuel ih =>
    cases s with
    | nil => simp [runesAux]
    | cons b rest =>
      unfold runesAux
      simp only [List.length_cons]
      have := ih (off + (decodeRune (b :: rest)).2) ((b :: rest).drop (decodeRune (b :: rest)).2)
      omega

theorem decodeRune_ascii (b : UInt8) (rest : Bytes) (h : b.toNat < 128) :
    decodeRune (b :: rest) = (b.toNat, 1) := by
  unfold decodeRune
  simp only
  rw [if_pos (by omega)]

theorem decodeRune_nonascii (b : UInt8) (rest : Bytes) (h : 128 ≤ b.toNat) :
    128 ≤ (decodeRune (b :: rest)).1 := by
  unfold decodeRune runeError isCont
  simp only
  have hb := b.toNat_lt
  repeat' split
  all_goals simp only [Bool.and_eq_true, decide_eq_true_eq] at *
  all_goals omega

/-- every rune of the content is in the set iff every byte is (a byte ≥ 0x80 starts a rune ≥ 0x80 or U+FFFD) -/
theorem runesAux_all_iff (fuel off : Nat) (s : Bytes) (hf : s.length ≤ fuel) :
    (∀ p ∈ runesAux fuel off s, p.2 ∈ setRunes) ↔ ∀ b ∈ s, b ∈ c_charSet := by
  induction fuel generalizing off s with
  | zero =>
    have : s = [] := List.eq_nil_of_length_eq_zero (by omega)
    subst this
    simp [runesAux]
  | succ fuel ih =>
    cases s with
    | nil => simp [runesAux]
    | cons b rest =>
      unfold runesAux
      simp only [List.forall_mem_cons]
      by_cases hb : b.toNat < 128
      · rw [decodeRune_ascii b rest hb]
        simp only [List.drop_succ_cons, List.drop_zero]
        rw [ih (off + 1) rest (by simp only [List.length_cons] at hf; omega), toNat_mem_setRunes]
      · have h1 : ¬ (decodeRune (b :: rest)).1 ∈ setRunes := fun hm => by
          have := setRunes_lt _ hm
          have := decodeRune_nonascii b rest (by omega)
          omega
        have h2 : ¬ b ∈ c_charSet := fun hm => hb (charSet_ascii b hm)
        constructor
        · rintro ⟨h, _⟩; exact absurd h h1
        · rintro ⟨h, _⟩; exact absurd h h2

/-! ### the consumer -/

theorem recv_eq (ch : List Int) : recv ch = (ch.getD 0 0, ch.drop 1) := by
  cases ch <;> rfl

theorem getD_drop (ch : List Int) (k i : Nat) : (ch.drop k).getD i 0 = ch.getD (k + i) 0 := by
  simp only [List.getD_eq_getElem?_getD, List.getElem?_drop]

/-- the pair loop succeeds iff its `2k` receives are all non-negative; it leaves the rest of the channel -/
theorem alphaPairs_spec (k : Nat) (ch : List Int) :
    ((alphaPairs k ch).isSome = true ↔ ∀ i, i < 2 * k → 0 ≤ ch.getD i 0) ∧
    ∀ bits ch', alphaPairs k ch = some (bits, ch') → ch' = ch.drop (2 * k) := by
  induction k generalizing ch with
  | zero =>
    constructor
    · simp [alphaPairs]
    · intro bits ch' h
      simp only [alphaPairs, Option.some.injEq, Prod.mk.injEq] at h
      rw [← h.2]; rfl
  | succ k ih =>
    obtain ⟨ih1, ih2⟩ := ih (ch.drop 2)
    unfold alphaPairs
    simp only [recv_eq, List.drop_drop]
    have e1 : (ch.drop 1).getD 0 0 = ch.getD 1 0 := getD_drop ch 1 0
    rw [e1]
    have hall : (∀ i, i < 2 * (k + 1) → 0 ≤ ch.getD i 0) ↔
        0 ≤ ch.getD 0 0 ∧ 0 ≤ ch.getD 1 0 ∧ ∀ i, i < 2 * k → 0 ≤ (ch.drop 2).getD i 0 := by
      constructor
      · intro h
        refine ⟨h 0 (by omega), h 1 (by omega), fun i hi => ?_⟩
        rw [getD_drop]; exact h (2 + i) (by omega)
      · rintro ⟨h0, h1, h2⟩ i hi
        by_cases i0 : i = 0
        · subst i0; exact h0
        · by_cases i1 : i = 1
          · subst i1; exact h1
          · have := h2 (i - 2) (by omega)
            rw [getD_drop] at this
            have e : 2 + (i - 2) = i := by omega
            rw [e] at this; exact this
    by_cases hneg : (decide (ch.getD 0 0 < 0) || decide (ch.getD 1 0 < 0)) = true
    · rw [if_pos hneg]
      constructor
      · rw [hall]
        simp only [Bool.or_eq_true, decide_eq_true_eq] at hneg
        constructor
        · intro h; cases h
        · rintro ⟨h0, h1, _⟩; omega
      · intro bits ch' h; cases h
    · rw [if_neg hneg]
      simp only [Bool.or_eq_true, decide_eq_true_eq, not_or] at hneg
      have e2 : (1 + 1 : Nat) = 2 := rfl
      simp only [e2]
      cases hr : alphaPairs k (ch.drop 2) with
      | none =>
        constructor
        · rw [hall, ← ih1, hr]; simp
        · intro bits ch' h; cases h
      | some r =>
        obtain ⟨bits, ch''⟩ := r
        constructor
        · rw [hall, ← ih1, hr]
          simp only [Option.isSome_some, true_iff, and_true]
          omega
        · intro bits' ch' h
          simp only [Option.some.injEq, Prod.mk.injEq] at h
          rw [← h.2, ih2 _ _ hr, List.drop_drop]
          congr 1; omega

theorem getD_all_iff (ch : List Int) (n : Nat) (h : ch.length ≤ n) :
    (∀ i, i < n → 0 ≤ ch.getD i 0) ↔ ∀ x ∈ ch, 0 ≤ x := by
  constructor
  · intro hi x hx
    obtain ⟨i, hlt, e⟩ := List.getElem_of_mem hx
    have := hi i (by omega)
    rw [List.getD_eq_getElem?_getD, List.getElem?_eq_getElem hlt] at this
    simpa [e] using this
  · intro hx i _
    rw [List.getD_eq_getElem?_getD]
    by_cases hlt : i < ch.length
    · rw [List.getElem?_eq_getElem hlt]
      exact hx _ (List.getElem_mem hlt)
    · rw [List.getElem?_eq_none (by omega)]
      exact Int.le_refl 0

/-- producer and consumer together: the `len(content)` receives of `encodeAlphaNumeric` are all non-negative
    iff every byte of the content is one of the 45 characters -/
theorem alpha_receives_ok (content : Bytes) :
    (∀ i, i < content.length → 0 ≤ (stringToAlphaIdx content).getD i 0) ↔ ∀ b ∈ content, b ∈ c_charSet := by
  have hlen : (stringToAlphaIdx content).length ≤ content.length :=
    Nat.le_trans (go_length_le _) (runesAux_length_le _ _ _)
  rw [getD_all_iff _ _ hlen]
  unfold stringToAlphaIdx
  rw [go_nonneg]
  exact runesAux_all_iff _ _ _ (Nat.le_refl _)

/-- D (alphanumeric): accepted iff every byte is in the 45-character set and a version fits -/
theorem encodeAlphaNumeric_isSome (content : Bytes) (ecl : Nat) :
    (encodeAlphaNumeric content ecl).isSome = true ↔
      (∀ b ∈ content, b ∈ c_charSet) ∧
      (findSmallestVersionInfo ecl 2 (alnumBits content.length)).isSome = true := by
  rw [encodeAlphaNumeric_eq, ← alpha_receives_ok]
  cases hfind : findSmallestVersionInfo ecl 2 (alnumBits content.length) with
  | none => simp
  | some vi =>
    simp only [Option.isSome_some, and_true]
    obtain ⟨h1, h2⟩ := alphaPairs_spec (content.length / 2) (stringToAlphaIdx content)
    cases hp : alphaPairs (content.length / 2) (stringToAlphaIdx content) with
    | none =>
      simp only [Option.isSome_none, Bool.false_eq_true, false_iff]
      intro hall
      rw [hp] at h1
      have := h1.mpr (fun i hi => hall i (by omega))
      cases this
    | some r =>
      obtain ⟨pairs, rest⟩ := r
      have hrest := h2 _ _ hp
      rw [hp] at h1
      have hpre := h1.mp rfl
      simp only
      by_cases hodd : content.length % 2 = 1
      · rw [if_pos hodd, recv_eq, hrest]
        simp only [getD_drop, Nat.add_zero]
        by_cases hneg : (stringToAlphaIdx content).getD (2 * (content.length / 2)) 0 < 0
        · rw [if_pos hneg]
          simp only [Option.isSome_none, Bool.false_eq_true, false_iff]
          intro hall
          have := hall (2 * (content.length / 2)) (by omega)
          omega
        · rw [if_neg hneg]
          simp only [Option.isSome_some, true_iff]
          intro i hi
          by_cases hi2 : i < 2 * (content.length / 2)
          · exact hpre i hi2
          · have : i = 2 * (content.length / 2) := by omega
            rw [this]; omega
      · rw [if_neg hodd]
        simp only [Option.isSome_some, true_iff]
        intro i hi
        exact hpre i (by omega)


/-! ## D — the acceptance theorems -/

/-- D (numeric): accepted iff every byte is an ASCII digit and a version fits -/
theorem encodeNumeric_isSome (content : Bytes) (ecl : Nat) :
    (encodeNumeric content ecl).isSome = true ↔
      (∀ b ∈ content, IsDigit b) ∧
      (findSmallestVersionInfo ecl 1 (numericBits content.length)).isSome = true := by
  rw [encodeNumeric_eq, ← numericChunks_isSome content.length content (Nat.le_refl _)]
  cases findSmallestVersionInfo ecl 1 (numericBits content.length) with
  | none => simp
  | some vi =>
    cases numericChunks content.length content <;> simp

/-- D (byte): accepted iff a version fits -/
theorem encodeUnicode_isSome (content : Bytes) (ecl : Nat) :
    (encodeUnicode content ecl).isSome = true ↔
      (findSmallestVersionInfo ecl 4 (byteBits content.length)).isSome = true := by
  rw [encodeUnicode_eq]
  cases findSmallestVersionInfo ecl 4 (byteBits content.length) <;> simp

/-- D (auto): accepted iff one of the three is -/
theorem encodeAuto_isSome (content : Bytes) (ecl : Nat) :
    (encodeAuto content ecl).isSome = true ↔
      (encodeNumeric content ecl).isSome = true ∨ (encodeAlphaNumeric content ecl).isSome = true ∨
      (encodeUnicode content ecl).isSome = true := by
  rw [encodeAuto_eq]
  cases encodeNumeric content ecl <;> cases encodeAlphaNumeric content ecl <;>
    cases encodeUnicode content ecl <;> simp

/-- no encoder accepts anything for an undefined level -/
theorem encoders_none_of_level (content : Bytes) (ecl : Nat) (h : 4 ≤ ecl) :
    encodeNumeric content ecl = none ∧ encodeAlphaNumeric content ecl = none ∧
    encodeUnicode content ecl = none ∧ encodeAuto content ecl = none := by
  have h1 : encodeNumeric content ecl = none := by
    rw [encodeNumeric_eq, findSmallest_none_of_level _ _ _ h]
  have h2 : encodeAlphaNumeric content ecl = none := by
    rw [encodeAlphaNumeric_eq, findSmallest_none_of_level _ _ _ h]
  have h3 : encodeUnicode content ecl = none := by
    rw [encodeUnicode_eq, findSmallest_none_of_level _ _ _ h]
  refine ⟨h1, h2, h3, ?_⟩
  rw [encodeAuto_eq, h1, h2, h3]; rfl

end BV.Proofs.QrAccept
