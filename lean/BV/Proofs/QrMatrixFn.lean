/-
  QR matrix layer, part 3: the function patterns as a picture, in closed form.
  `drawnP vi` (the picture after the function-pattern phase, see QrMatrixPix) is computed:
  `drawnP_eq` — it is the fold of explicit cell lists over the blank picture: finder cells, the alignment squares
  of the Annex-E centres that do not collide with a finder, the free timing cells, the dark module, the version
  cells; then the format cells (all-true word on `occupied`, the word of mask `i` on result `i`).
-/
import BV.Proofs.QrMatrixCells
import BV.Proofs.QrMatrixSpec
namespace BV.Proofs.QrMatrix
open BV BV.Model BV.Model.Qr BV.Gen.Qr BV.Proofs.QrTables BV.Proofs.QrRender BV.Proofs.QrCoords

/-! ### certificate about the alignment centres -/

/-- per-version facts (evaluated over the 40 rows): the centres are even, each is 6, dim-7 or in 18 .. dim-23,
    different centres are at least 5 apart, the list is increasing with gaps ≥ 5, and its last element is dim-7 -/
def centresOk (v : Nat) : Bool :=
  let cs := alignOfVersion v
  let dim := 17 + 4 * v
  cs.all (fun c => c % 2 == 0 && (c == 6 || c == dim - 7 || (decide (18 ≤ c) && decide (c + 23 ≤ dim)))) &&
  cs.all (fun a => cs.all (fun b => a == b || decide (a + 5 ≤ b) || decide (b + 5 ≤ a))) &&
  decide (cs.Pairwise (fun a b => a + 5 ≤ b)) &&
  (cs.getLastD 0 == (if v == 1 then 0 else dim - 7))

/-- certificate: `centresOk` for the 40 versions -/
theorem centreGeo_cert : ∀ v : Nat, v < 41 → 1 ≤ v → centresOk v = true := by decide +kernel

/-- the certificate, unpacked -/
theorem centreGeo_facts (v : Nat) (h1 : 1 ≤ v) (h40 : v ≤ 40) :
    (∀ c ∈ alignOfVersion v, c % 2 = 0 ∧ (c = 6 ∨ c = 17 + 4 * v - 7 ∨ (18 ≤ c ∧ c + 23 ≤ 17 + 4 * v))) ∧
    (∀ a ∈ alignOfVersion v, ∀ b ∈ alignOfVersion v, a = b ∨ a + 5 ≤ b ∨ b + 5 ≤ a) ∧
    (alignOfVersion v).Pairwise (fun a b => a + 5 ≤ b) ∧
    (alignOfVersion v).getLastD 0 = (if v = 1 then 0 else 17 + 4 * v - 7) := by
  have h := centreGeo_cert v (by omega) h1
  unfold centresOk at h
  simp only [Bool.and_eq_true, List.all_eq_true, Bool.or_eq_true, beq_iff_eq, decide_eq_true_eq] at h
  obtain ⟨⟨⟨a, b⟩, c⟩, d⟩ := h
  exact ⟨fun x hx => by have := a x hx; omega, fun x hx y hy => by have := b x hx y hy; omega, c, d⟩

/-! ### the remaining drawing procedures as cell lists -/

/-- the cells the timing loop looks at, in order -/
def timingCells (dim : Nat) : List Cell :=
  (List.range dim).flatMap (fun i => [(i, 6, i % 2 == 0), (6, i, i % 2 == 0)])

/-- the timing loop as a guarded loop over `timingCells` -/
theorem timing_eq {σ} (occ : σ → Nat → Nat → Bool) (setA : Nat → Nat → Bool → σ → σ) (dim : Nat) (st : σ) :
    (List.range dim).foldl (fun (st : σ) i =>
      let st := if !occ st i 6 then setA i 6 (i % 2 == 0) st else st
      let st := if !occ st 6 i then setA 6 i (i % 2 == 0) st else st
      st) st =
    (timingCells dim).foldl (fun st c => if occ st c.1 c.2.1 then st else applyCells setA [c] st) st := by
  unfold timingCells
  rw [List.foldl_flatMap]
  apply foldl_congr_mem
  intro a i _
  simp only [List.foldl_cons, List.foldl_nil, applyCells]
  cases occ a i 6 <;> simp only [Bool.not_false, Bool.not_true, if_true, Bool.false_eq_true, if_false]
  · cases occ (setA i 6 (i % 2 == 0) a) 6 i <;> simp
  · cases occ a 6 i <;> simp

/-- the cells of `drawVersionInfo` (none for versions below 7) -/
def versionCells (vi : VersionInfo) : List Cell :=
  match mapGet v_versionInfoBitsByVersion (vi.version : Int) with
  | none => []
  | some bits =>
    (List.range bits.length).flatMap (fun i =>
      [((vi.modulWidth - 11) + i % 3, i / 3, bits.getD (bits.length - i - 1) false),
       (i / 3, (vi.modulWidth - 11) + i % 3, bits.getD (bits.length - i - 1) false)])

/-- `drawVersionInfo` is `set` applied to `versionCells` -/
theorem drawVersionInfo_cells {σ} (vi : VersionInfo) (set : Nat → Nat → Bool → σ → σ) (st : σ) :
    drawVersionInfo vi set st = applyCells set (versionCells vi) st := by
  unfold drawVersionInfo versionCells
  cases mapGet v_versionInfoBitsByVersion (vi.version : Int) with
  | none => rfl
  | some bits =>
    simp only
    split
    · unfold applyCells
      rw [List.foldl_flatMap]
      rfl
    · rename_i h
      have : bits.length = 0 := by omega
      rw [this]; rfl

/-- the cells of `drawFormatInfo` for the 15-bit word `fi` -/
def fmtCells (dim : Nat) (fi : List Bool) : List Cell :=
  (formatCells dim).map (fun c => (c.1, c.2.1, fi.getD c.2.2 false))

/-- `drawFormatInfo` is `set` applied to `fmtCells` (if the word has 15 bits) -/
theorem drawFormatInfo_cells {σ} (vi : VersionInfo) (usedMask : Int) (set : Nat → Nat → Bool → σ → σ) (st : σ) :
    drawFormatInfo vi usedMask set st =
      let fi := if usedMask == -1 then List.replicate 15 true else formatInfoOf vi.level usedMask.toNat
      if fi.length == 15 then applyCells set (fmtCells vi.modulWidth fi) st else st := by
  rw [drawFormatInfo_eq]
  simp only
  split
  · unfold applyCells fmtCells
    rw [List.foldl_map]
  · rfl

/-! ### the pipeline on pictures -/

/-- picture after the finder patterns -/
def pixF (dim : Nat) : Pix := applyCells Pix.setAll (finderCells dim) Pix.blank

/-- cells of the alignment patterns that are drawn: centres that are free after the finder patterns -/
def alignCells (dim : Nat) (cs : List Nat) : List Cell :=
  ((centrePairs cs).filter (fun p => !(pixF dim).occ p.1 p.2)).flatMap sqCells

/-- picture after the alignment patterns -/
def pixA (dim : Nat) (cs : List Nat) : Pix := applyCells Pix.setAll (alignCells dim cs) (pixF dim)

/-- the timing cells that are drawn: those that are free after finder and alignment patterns -/
def timingFree (dim : Nat) (cs : List Nat) : List Cell :=
  (timingCells dim).filter (fun c => !(pixA dim cs).occ c.1 c.2.1)

/-- all cells written with `setAll`, in order: finder, alignment, timing, dark module, version -/
def fnCells (vi : VersionInfo) : List Cell :=
  (((finderCells vi.modulWidth ++ alignCells vi.modulWidth vi.alignmentPatternPlacements) ++
    timingFree vi.modulWidth vi.alignmentPatternPlacements) ++ [(8, vi.modulWidth - 8, true)]) ++ versionCells vi

/-- the 25 cells of an alignment pattern are the square around its centre -/
theorem hasCell_sqCells (p : Nat × Nat) (h1 : 2 ≤ p.1) (h2 : 2 ≤ p.2) (X Y : Nat) :
    hasCell (sqCells p) X Y ↔ (p.1 ≤ X + 2 ∧ X ≤ p.1 + 2) ∧ (p.2 ≤ Y + 2 ∧ Y ≤ p.2 + 2) := by
  unfold hasCell
  constructor
  · rintro ⟨c, hc, rfl, rfl⟩
    obtain ⟨x, y, a1, a2, a3, a4, rfl⟩ := (mem_sqCells p c).mp hc
    simp only
    omega
  · rintro ⟨⟨a1, a2⟩, a3, a4⟩
    refine ⟨_, (mem_sqCells p _).mpr ⟨(X : Int) - p.1, (Y : Int) - p.2, by omega, by omega, by omega, by omega, rfl⟩,
      ?_, ?_⟩
    · simp only; omega
    · simp only; omega

/-- the pairs of centres are so far apart that no 5×5 square contains another centre -/
theorem centrePairs_apart (cs : List Nat) (h : cs.Pairwise (fun a b => a + 5 ≤ b)) :
    (centrePairs cs).Pairwise (fun p q => ¬ ((p.1 ≤ q.1 + 2 ∧ q.1 ≤ p.1 + 2) ∧ (p.2 ≤ q.2 + 2 ∧ q.2 ≤ p.2 + 2))) := by
  unfold centrePairs
  rw [List.pairwise_flatMap]
  constructor
  · intro a _
    rw [List.pairwise_map]
    apply List.Pairwise.imp _ h
    intro b b' hb
    simp only; omega
  · apply List.Pairwise.imp _ h
    intro a a' ha x hx y hy
    obtain ⟨b, _, rfl⟩ := List.mem_map.mp hx
    obtain ⟨b', _, rfl⟩ := List.mem_map.mp hy
    simp only; omega

/-- the pairs of centres -/
theorem mem_centrePairs (cs : List Nat) (p : Nat × Nat) : p ∈ centrePairs cs ↔ p.1 ∈ cs ∧ p.2 ∈ cs := by
  unfold centrePairs
  rw [List.mem_flatMap]
  constructor
  · rintro ⟨x, hx, hp⟩
    obtain ⟨y, hy, rfl⟩ := List.mem_map.mp hp
    exact ⟨hx, hy⟩
  · rintro ⟨h1, h2⟩
    exact ⟨p.1, h1, List.mem_map.mpr ⟨p.2, h2, rfl⟩⟩

/-- the picture `drawnP vi` is the fold of the explicit cell lists -/
theorem drawnP_eq (vi : VersionInfo) (hmem : vi ∈ versionInfos) :
    drawnP vi =
      (List.range 8).foldl (fun P (i : Nat) =>
          if (formatInfoOf vi.level i).length == 15 then
            applyCells (Pix.setRes i) (fmtCells vi.modulWidth (formatInfoOf vi.level i)) P else P)
        (applyCells Pix.setOcc (fmtCells vi.modulWidth (List.replicate 15 true))
          (applyCells Pix.setAll (fnCells vi) Pix.blank)) := by
  obtain ⟨h1, h40, _⟩ := mem_versionInfos_range hmem
  have hdim := modulWidth_eq vi h1
  obtain ⟨cf1, cf2, cf3, cf4⟩ := centreGeo_facts vi.version h1 h40
  rw [← alignmentPatternPlacements_eq] at cf1 cf2 cf3 cf4
  unfold drawnP drawnG
  simp only
  rw [drawFinderPatterns_eq, drawAlignmentPatterns_eq, timing_eq]
  -- alignment patterns
  have hA : (centrePairs vi.alignmentPatternPlacements).foldl (fun (st : Pix) p =>
        if st.occ p.1 p.2 then st else applyCells Pix.setAll (sqCells p) st)
        (applyCells Pix.setAll (finderCells vi.modulWidth) Pix.blank) =
      pixA vi.modulWidth vi.alignmentPatternPlacements := by
    rw [guarded_eq (fun p => p) sqCells _ (fun _ _ => rfl)]
    · rfl
    · apply List.Pairwise.imp_of_mem _ (centrePairs_apart _ cf3)
      intro p q hp hq hR hc
      rw [mem_centrePairs] at hp
      have := (cf1 p.1 hp.1).2
      have := (cf1 p.2 hp.2).2
      rw [hasCell_sqCells p (by omega) (by omega)] at hc
      exact absurd hc hR
  rw [hA]
  -- timing
  have h66 : (pixA vi.modulWidth vi.alignmentPatternPlacements).occ 6 6 = true := by
    unfold pixA
    rw [applyAll_occ_eq]
    left
    unfold pixF
    apply applyAll_occ_hit
    refine ⟨(6, 6, finderVal 6 6), ?_, rfl, rfl⟩
    unfold finderCells
    apply List.mem_append_left
    rw [mem_patCells]
    exact ⟨6, 6, by omega, by omega, by omega, by omega, by omega, by omega, by omega, by omega, rfl⟩
  have hT : (timingCells vi.modulWidth).foldl (fun (st : Pix) c =>
        if st.occ c.1 c.2.1 then st else applyCells Pix.setAll [c] st)
        (pixA vi.modulWidth vi.alignmentPatternPlacements) =
      applyCells Pix.setAll (timingFree vi.modulWidth vi.alignmentPatternPlacements)
        (pixA vi.modulWidth vi.alignmentPatternPlacements) := by
    rw [guarded_eq (fun (c : Cell) => (c.1, c.2.1)) (fun c => [c]) _ (fun _ _ => rfl)]
    · unfold timingFree
      congr 1
      generalize (timingCells vi.modulWidth).filter _ = l
      induction l with
      | nil => rfl
      | cons a l ih => rw [List.flatMap_cons, ih]; rfl
    · unfold timingCells
      rw [List.pairwise_flatMap]
      constructor
      · intro i _
        simp only [List.pairwise_cons, List.mem_cons, List.not_mem_nil, or_false, forall_eq,
          List.Pairwise.nil, and_true, false_imp_iff, implies_true]
        rintro ⟨c, hc, e1, e2⟩
        simp only [List.mem_cons, List.not_mem_nil, or_false] at hc
        subst hc
        simp only at e1 e2
        subst e1
        exact h66
      · apply List.Pairwise.imp _ List.pairwise_lt_range
        intro i j hij x hx y hy
        simp only [List.mem_cons, List.not_mem_nil, or_false] at hx hy
        rintro ⟨c, hc, e1, e2⟩
        simp only [List.mem_cons, List.not_mem_nil, or_false] at hc
        subst hc
        rcases hx with rfl | rfl <;> rcases hy with rfl | rfl <;> simp only at e1 e2 <;> omega
  rw [hT, drawVersionInfo_cells]
  -- collect the `setAll` phases
  have hall : applyCells Pix.setAll (versionCells vi)
        (Pix.setAll 8 (vi.modulWidth - 8) true
          (applyCells Pix.setAll (timingFree vi.modulWidth vi.alignmentPatternPlacements)
            (pixA vi.modulWidth vi.alignmentPatternPlacements))) =
      applyCells Pix.setAll (fnCells vi) Pix.blank := by
    unfold fnCells pixA pixF
    rw [applyCells_append, applyCells_append, applyCells_append, applyCells_append]
    rfl
  rw [hall, drawFormatInfo_cells]
  simp only [beq_self_eq_true, if_true, List.length_replicate]
  apply foldl_congr_mem
  intro P i hi
  rw [drawFormatInfo_cells]
  have : ((i : Int) == -1) = false := by
    rw [beq_eq_false_iff_ne]; omega
  simp only [this, Bool.false_eq_true, if_false, Int.toNat_natCast]

end BV.Proofs.QrMatrix
