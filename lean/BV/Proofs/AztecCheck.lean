/-
  BV.Proofs.AztecCheck — the check words and the mode message of an Aztec symbol (property C03):
  `bitsToWords` is the reference decoder's `groups`; `generateCheckWords` appends Reed–Solomon check words that make
  the word sequence a codeword of the standard's field (via C17); reading the message back the way
  `Spec.Aztec.decode` does returns the words; the mode message is a GF(16) codeword that spells `layers - 1` and
  `dataWords - 1`; neither function panics.
-/
import BV.Proofs.AztecBits
import BV.Props.C17
namespace BV.Proofs.AztecCheck
open BV BV.Model BV.Model.Aztec BV.Proofs.Bits BV.Proofs.AztecBits

/-! ### `bitsToWords` -/

/-- OR-ing a single bit above a number that has no such bit is addition -/
theorem or_two_pow (acc w : Nat) (h : acc % 2 ^ (w + 1) = 0) : acc ||| 2 ^ w = acc + 2 ^ w := by
  have e : acc = 2 ^ (w + 1) * (acc / 2 ^ (w + 1)) := by
    have := Nat.div_add_mod acc (2 ^ (w + 1)); omega
  rw [e, ← Nat.two_pow_add_eq_or_of_lt (Nat.pow_lt_pow_right (by omega) (Nat.lt_succ_self w))]

/-- the inner loop of `bitsToWords` (set bit `w-j-1` when cell `j` is set), started on a multiple of `2^w`, adds the
    big-endian value of the cells -/
theorem orFold_eq (w : Nat) : ∀ (g : Nat → Bool) (acc : Nat), acc % 2 ^ w = 0 →
    (List.range w).foldl (fun value j => if g j then value ||| (1 <<< (w - j - 1)) else value) acc =
      acc + bitsToNat ((List.range w).map g) := by
  induction w with
  | zero => intro g acc _; simp
  | succ w ih =>
    intro g acc h
    rw [List.range_succ_eq_map, List.foldl_cons, List.foldl_map, List.map_cons, List.map_map, bitsToNat_cons]
    have e : ∀ (v : Nat) (j : Nat), (if g (j + 1) then v ||| (1 <<< (w + 1 - (j + 1) - 1)) else v) =
        (if (g ∘ Nat.succ) j then v ||| (1 <<< (w - j - 1)) else v) := by
      intro v j
      have : w + 1 - (j + 1) - 1 = w - j - 1 := by omega
      rw [this]; rfl
    simp only [Nat.succ_eq_add_one, e]
    have hacc : acc % 2 ^ w = 0 :=
      Nat.mod_eq_zero_of_dvd (Nat.dvd_trans (Nat.pow_dvd_pow 2 (Nat.le_succ w)) (Nat.dvd_of_mod_eq_zero h))
    rw [ih]
    · simp only [List.length_map, List.length_range, Nat.sub_zero, Nat.add_sub_cancel, Nat.one_shiftLeft]
      cases g 0
      · simp
      · simp only [if_true, Nat.one_mul]
        rw [or_two_pow acc w h]; omega
    · simp only [Nat.sub_zero, Nat.add_sub_cancel, Nat.one_shiftLeft]
      cases g 0
      · simpa using hacc
      · simp only [if_true]
        rw [or_two_pow acc w h, Nat.add_mod_right]; exact hacc

/-- word `i` of the reference decoder's grouping is the slice at offset `i·w` -/
theorem groups_eq_map (w : Nat) : ∀ (n : Nat) (bs : List Bool),
    Spec.Aztec.groups w n bs = (List.range n).map (fun i => bitsToNat ((bs.drop (i * w)).take w)) := by
  intro n
  induction n with
  | zero => intro bs; rfl
  | succ n ih =>
    intro bs
    rw [List.range_succ_eq_map, List.map_cons, List.map_map]
    simp only [Spec.Aztec.groups, ih, toNat_eq, Nat.zero_mul, List.drop_zero]
    congr 1
    apply List.map_congr_left
    intro i _
    simp only [Function.comp, List.drop_drop, Nat.succ_eq_add_one]
    congr 3
    rw [Nat.succ_mul]; omega

/-- `bitsToWords` (array reads, OR-ing single bits) computes the reference decoder's grouping of the bit list into
    `n` words of `w` bits, as long as the `n` words lie inside the list -/
theorem bitsToWords_eq (bits : List Bool) (w n : Nat) (h : n * w ≤ bits.length) :
    bitsToWords bits.toArray w n = Spec.Aztec.groups w n bits := by
  rw [groups_eq_map]
  unfold bitsToWords
  apply List.map_congr_left
  intro i hi
  have hi : i < n := List.mem_range.mp hi
  have hle : i * w + w ≤ bits.length := by
    have := Nat.mul_le_mul_right w (Nat.succ_le_of_lt hi)
    rw [Nat.succ_mul] at this; omega
  rw [orFold_eq w (fun j => bits.toArray.getD (i * w + j) false) 0 (Nat.zero_mod _), Nat.zero_add]
  rw [← map_getD_eq_take_drop bits (i * w) w hle]
  congr 1
  apply List.map_congr_left
  intro j _
  simp

/-! ### the fields -/

/-- the five word sizes of Aztec: `getGF` builds the field `NewGaloisField(pp, 2^w, 1)` whose polynomial and size
    are those of the standard's field for that word size; the triple is one of the six of C17 (table fact, by cases) -/
theorem getGF_spec (w : Nat) (hw : w ∈ [4, 6, 8, 10, 12]) :
    ∃ pp n, getGF w = some (GF.newField pp n 1) ∧ Spec.RS.aztecField w = some ⟨pp, n⟩ ∧ n = 2 ^ w ∧
      (pp, n, 1) ∈ BV.Props.C17.fields := by
  simp only [List.mem_cons, List.not_mem_nil, or_false] at hw
  rcases hw with rfl | rfl | rfl | rfl | rfl
  · exact ⟨19, 16, rfl, rfl, rfl, by decide⟩
  · exact ⟨67, 64, rfl, rfl, rfl, by decide⟩
  · exact ⟨301, 256, rfl, rfl, rfl, by decide⟩
  · exact ⟨1033, 1024, rfl, rfl, rfl, by decide⟩
  · exact ⟨4201, 4096, rfl, rfl, rfl, by decide⟩

/-! ### `generateCheckWords` -/

/-- words written with `w` bits each take `w` bits per word -/
theorem length_flatMap_msbBits (ws : List Nat) (w : Nat) :
    (ws.flatMap (fun x => msbBits x w)).length = ws.length * w := by
  induction ws with
  | nil => simp
  | cons x ws ih => rw [List.flatMap_cons, List.length_append, ih, length_msbBits, List.length_cons, Nat.succ_mul]; omega

/-- `AddBits` on the (non-negative) words is `msbBits` -/
theorem flatMap_addBits (ws : List Nat) (w : Nat) :
    ws.flatMap (fun (x : Nat) => addBits (x : Int) w) = ws.flatMap (fun x => msbBits x w) := by
  congr 1; funext x; exact addBits_natCast x w

/-- `generateCheckWords` as a formula, whenever the field exists and at least one check word is requested:
    the start padding, the message words and the Reed–Solomon check words, `w` bits each -/
theorem generateCheckWords_eq (bits : List Bool) (totalBits w : Nat) (gf : GF.Field) (hgf : getGF w = some gf)
    (hk : 1 ≤ totalBits / w - bits.length / w) :
    generateCheckWords bits totalBits w = .ok (List.replicate (totalBits % w) false ++
      (Spec.Aztec.groups w (bits.length / w) bits ++
        GF.rsEncode gf (Spec.Aztec.groups w (bits.length / w) bits) (totalBits / w - bits.length / w)).flatMap
          (fun x => msbBits x w)) := by
  unfold generateCheckWords
  rw [hgf]
  simp only []
  rw [if_neg (by omega), if_neg (by simp; omega)]
  rw [bitsToWords_eq bits w _ (Nat.div_mul_le_self _ _), flatMap_addBits, flatMap_addBits,
    show (0 : Int) = ((0 : Nat) : Int) from rfl, addBits_natCast, msbBits_zero_val, List.flatMap_append,
    List.append_assoc]

/-- the words of a bit list are below `2^w` -/
theorem groups_lt (w : Nat) : ∀ (n : Nat) (bs : List Bool), ∀ x ∈ Spec.Aztec.groups w n bs, x < 2 ^ w := by
  intro n
  induction n with
  | zero => intro bs x hx; simp [Spec.Aztec.groups] at hx
  | succ n ih =>
    intro bs x hx
    simp only [Spec.Aztec.groups, List.mem_cons] at hx
    rcases hx with rfl | hx
    · rw [toNat_eq]
      exact Nat.lt_of_lt_of_le (bitsToNat_lt _) (Nat.pow_le_pow_right (by omega) (by simp; omega))
    · exact ih _ x hx

/-- **Check words** (explicit field).  Let `w` be a word size whose field is `NewGaloisField(pp, 2^w, 1)`, one of
    the C17 fields, `dw` the `m = len(stuffed)/w` message words and `k = totalBits/w - m` with `1 ≤ k ≤ 2^w - 1`.
    Then `generateCheckWords` returns `totalBits % w` zero bits followed by `dw` and the `k` check words
    `ecc = Encode(dw, k)`, `w` bits per word; all words are below `2^w` and `dw ++ ecc` is a codeword of the
    specification's field `GF(2)[x]/(pp)` with roots `α^1 … α^k`. -/
theorem generateCheckWords_core (w pp n : Nat) (hgf : getGF w = some (GF.newField pp n 1)) (hn : n = 2 ^ w)
    (hf : (pp, n, 1) ∈ BV.Props.C17.fields) (stuffed : List Bool) (totalBits : Nat)
    (hk1 : 1 ≤ totalBits / w - stuffed.length / w) (hkn : totalBits / w - stuffed.length / w ≤ 2 ^ w - 1) :
    let m := stuffed.length / w
    let k := totalBits / w - m
    let dw := Spec.Aztec.groups w m stuffed
    let ecc := GF.rsEncode (GF.newField pp n 1) dw k
    generateCheckWords stuffed totalBits w =
        .ok (List.replicate (totalBits % w) false ++ (dw ++ ecc).flatMap (fun x => msbBits x w)) ∧
      dw.length = m ∧ ecc.length = k ∧ (∀ x ∈ dw, x < 2 ^ w) ∧ (∀ x ∈ ecc, x < 2 ^ w) ∧
      (Spec.RS.BinField.mk pp n).valid 1 k (dw ++ ecc) = true := by
  intro m k dw ecc
  have hdw : ∀ x ∈ dw, x < 2 ^ w := groups_lt w m stuffed
  have hd : BV.Proofs.GF.AllLt n dw := by intro x hx; rw [hn]; exact hdw x hx
  obtain ⟨e1, e2, e3, e4, _⟩ := BV.Props.C17.C17_rs_encode pp n 1 hf dw hd k hk1 (by rw [hn]; exact hkn)
    GF.newEncoder (BV.Props.C17.C17_newEncoder_inv _)
  rw [e4] at e1 e2 e3
  refine ⟨generateCheckWords_eq stuffed totalBits w _ hgf hk1, length_groups w m stuffed, e1, hdw, ?_, e3⟩
  intro x hx; rw [← hn]; exact e2 x hx

/-- **Check words** (C03).  For each of the five Aztec word sizes, with `m = len(stuffed)/w` message words and
    `k = totalBits/w - m` check words, `1 ≤ k ≤ 2^w - 1`: `generateCheckWords` succeeds and returns the start
    padding, the message words `dw` (the reference decoder's grouping of `stuffed`) and `k` check words `ecc`
    (those of `Encode` in the library's field), every word below `2^w`, such that `dw ++ ecc` is a Reed–Solomon
    codeword with `k` check symbols in the field that the specification prescribes for this word size. -/
theorem generateCheckWords_spec (w : Nat) (hw : w ∈ [4, 6, 8, 10, 12]) (stuffed : List Bool) (totalBits : Nat)
    (hk1 : 1 ≤ totalBits / w - stuffed.length / w) (hkn : totalBits / w - stuffed.length / w ≤ 2 ^ w - 1) :
    let m := stuffed.length / w
    let k := totalBits / w - m
    let dw := Spec.Aztec.groups w m stuffed
    ∃ pp n ecc, getGF w = some (GF.newField pp n 1) ∧ Spec.RS.aztecField w = some ⟨pp, n⟩ ∧ n = 2 ^ w ∧
      ecc = GF.rsEncode (GF.newField pp n 1) dw k ∧
      generateCheckWords stuffed totalBits w =
        .ok (List.replicate (totalBits % w) false ++ (dw ++ ecc).flatMap (fun x => msbBits x w)) ∧
      dw.length = m ∧ ecc.length = k ∧ (∀ x ∈ dw, x < 2 ^ w) ∧ (∀ x ∈ ecc, x < 2 ^ w) ∧
      (Spec.RS.BinField.mk pp n).valid 1 k (dw ++ ecc) = true := by
  intro m k dw
  obtain ⟨pp, n, h1, h2, h3, h4⟩ := getGF_spec w hw
  exact ⟨pp, n, _, h1, h2, h3, rfl, generateCheckWords_core w pp n h1 h3 h4 stuffed totalBits hk1 hkn⟩

/-- the length of the message that `generateCheckWords` builds from `nw` words: with `nw = totalBits / w` words
    it is `totalBits` -/
theorem length_message (p w : Nat) (ws : List Nat) :
    (List.replicate p false ++ ws.flatMap (fun x => msbBits x w)).length = p + ws.length * w := by
  rw [List.length_append, List.length_replicate, length_flatMap_msbBits]

/-- under the hypotheses of `generateCheckWords_spec` the result has exactly `totalBits` bits -/
theorem generateCheckWords_length (w : Nat) (hw : w ∈ [4, 6, 8, 10, 12]) (stuffed : List Bool) (totalBits : Nat)
    (hk1 : 1 ≤ totalBits / w - stuffed.length / w) (hkn : totalBits / w - stuffed.length / w ≤ 2 ^ w - 1) :
    ∃ r, generateCheckWords stuffed totalBits w = .ok r ∧ r.length = totalBits := by
  obtain ⟨pp, n, ecc, _, _, _, _, h, hm, hk, _⟩ := generateCheckWords_spec w hw stuffed totalBits hk1 hkn
  refine ⟨_, h, ?_⟩
  rw [length_message, List.length_append, hm, hk]
  have := Nat.div_add_mod totalBits w
  have e : stuffed.length / w + (totalBits / w - stuffed.length / w) = totalBits / w := by omega
  rw [e, Nat.mul_comm]; omega

/-- when the message length is a multiple of the word size, the message words spell `stuffed` itself -/
theorem flatMap_groups (w : Nat) (stuffed : List Bool) (h : stuffed.length % w = 0) :
    (Spec.Aztec.groups w (stuffed.length / w) stuffed).flatMap (fun x => msbBits x w) = stuffed := by
  refine (groups_spec w _ stuffed ?_).2.2
  have := Nat.div_add_mod stuffed.length w
  rw [Nat.mul_comm]; omega

/-- `generateCheckWords` does not panic when the word size is one of the five Aztec sizes and the message has
    fewer words than the symbol (no other hypothesis: neither the nil field, nor a negative, nor a zero number
    of check words) -/
theorem generateCheckWords_no_panic (w : Nat) (hw : w ∈ [4, 6, 8, 10, 12]) (bits : List Bool) (totalBits : Nat)
    (h : bits.length / w < totalBits / w) : ∃ r, generateCheckWords bits totalBits w = .ok r := by
  obtain ⟨pp, n, h1, _⟩ := getGF_spec w hw
  exact ⟨_, generateCheckWords_eq bits totalBits w _ h1 (by omega)⟩

/-! ### reading the message back the way `Spec.Aztec.decode` does -/

/-- the reference decoder takes `len % w` leading pad bits, checks that they are zero and groups the rest into
    `len / w` words: on a message made of `p < w` zero bits and the words `ws` (each below `2^w`, written with `w`
    bits) it finds `p` pad bits, all zero, and exactly the words `ws` -/
theorem read_back (p w : Nat) (ws : List Nat) (hp : p < w) (hws : ∀ x ∈ ws, x < 2 ^ w) :
    let msg := List.replicate p false ++ ws.flatMap (fun x => msbBits x w)
    msg.length % w = p ∧ msg.length / w = ws.length ∧ (msg.take p).all (fun b => !b) = true ∧
      Spec.Aztec.groups w (msg.length / w) (msg.drop (msg.length % w)) = ws := by
  intro msg
  have hl : msg.length = p + ws.length * w := length_message p w ws
  have h1 : msg.length % w = p := by
    rw [hl, Nat.add_mul_mod_self_right, Nat.mod_eq_of_lt hp]
  have h2 : msg.length / w = ws.length := by
    rw [hl, Nat.add_mul_div_right _ _ (by omega), Nat.div_eq_of_lt hp, Nat.zero_add]
  refine ⟨h1, h2, ?_, ?_⟩
  · have : msg.take p = List.replicate p false := List.take_left' (List.length_replicate ..)
    rw [this]; simp
  · rw [h1, h2]
    have : msg.drop p = ws.flatMap (fun x => msbBits x w) := List.drop_left' (List.length_replicate ..)
    rw [this]
    have := groups_flatMap w ws hws []
    rwa [List.append_nil] at this

/-! ### the mode message -/

/-- the two call sites of `generateCheckWords` in `generateModeMessage` with their (generated) arguments -/
theorem generateModeMessage_eq (compact : Bool) (L W : Nat) :
    generateModeMessage compact L W =
      if compact then generateCheckWords (addBits ((L : Int) - 1) 2 ++ addBits ((W : Int) - 1) 6) 28 4
      else generateCheckWords (addBits ((L : Int) - 1) 5 ++ addBits ((W : Int) - 1) 11) 40 4 := rfl

/-- folding 4-bit words with `16·a + x` is the big-endian value of their bits -/
theorem fold16 (ws : List Nat) (h : ∀ x ∈ ws, x < 2 ^ 4) : ∀ acc : Nat,
    ws.foldl (fun a x => 16 * a + x) acc =
      acc * 2 ^ (ws.length * 4) + bitsToNat (ws.flatMap (fun x => msbBits x 4)) := by
  induction ws with
  | nil => intro acc; simp
  | cons x ws ih =>
    intro acc
    rw [List.foldl_cons, ih (fun y hy => h y (List.mem_cons_of_mem _ hy)), List.flatMap_cons, bitsToNat_append,
      length_flatMap_msbBits, bitsToNat_msbBits_of_lt x 4 (h x (List.mem_cons_self ..)), List.length_cons,
      show (ws.length + 1) * 4 = ws.length * 4 + 4 by omega, Nat.pow_add]
    generalize 2 ^ (ws.length * 4) = P
    have : (16 * acc + x) * P = acc * (P * 2 ^ 4) + x * P := by
      rw [Nat.add_mul, Nat.mul_comm 16 acc, Nat.mul_assoc, Nat.mul_comm 16 P]
    omega

/-- a mode message: `md` data words (the bits `stuffed`) completed to `tw` words of 4 bits in GF(16).  The result has
    `4·tw` bits; grouped as the reference decoder does it is a codeword with `tw - md` check words whose first `md`
    words have the value of `stuffed` -/
theorem mode_aux (stuffed : List Bool) (md tw total : Nat) (hlen : stuffed.length = md * 4) (ht : total = tw * 4)
    (h1 : md < tw) (h2 : tw - md ≤ 15) :
    ∃ mm, generateCheckWords stuffed total 4 = .ok mm ∧ mm.length = total ∧
      (let words := Spec.Aztec.groups 4 (mm.length / 4) mm
       (Spec.RS.BinField.mk 0x13 16).valid 1 (words.length - md) words = true ∧
       (words.take md).foldl (fun a x => 16 * a + x) 0 = bitsToNat stuffed) := by
  subst ht
  have hm : stuffed.length / 4 = md := by omega
  have htw : tw * 4 / 4 = tw := by omega
  have hp : tw * 4 % 4 = 0 := by omega
  obtain ⟨e, hdl, hel, hdw, hecc, hv⟩ := generateCheckWords_core 4 19 16 rfl rfl (by decide) stuffed (tw * 4)
    (by omega) (by rw [hm, htw]; exact h2)
  simp only [hm, htw, hp] at e hdl hel hdw hecc hv
  generalize GF.rsEncode (GF.newField 19 16 1) (Spec.Aztec.groups 4 md stuffed) (tw - md) = ecc at *
  have hall : ∀ x ∈ Spec.Aztec.groups 4 md stuffed ++ ecc, x < 2 ^ 4 := by
    intro x hx
    rcases List.mem_append.mp hx with hx | hx
    · exact hdw x hx
    · exact hecc x hx
  obtain ⟨r1, r2, _, r4⟩ := read_back 0 4 (Spec.Aztec.groups 4 md stuffed ++ ecc) (by omega) hall
  refine ⟨_, e, ?_, ?_⟩
  · rw [length_message, List.length_append, hdl, hel]; omega
  · intro words
    have hw : words = Spec.Aztec.groups 4 md stuffed ++ ecc := by
      rw [r1, List.drop_zero] at r4; exact r4
    rw [hw, List.length_append, hdl, hel, List.take_left' hdl]
    refine ⟨by rw [show md + (tw - md) - md = tw - md by omega]; exact hv, ?_⟩
    rw [fold16 _ hdw 0, Nat.zero_mul, Nat.zero_add]
    have := flatMap_groups 4 stuffed (by omega)
    rw [hm] at this
    rw [this]

/-- two bit fields side by side have the value `a·2^lb + b` -/
theorem bitsToNat_two_fields (a la b lb : Nat) (ha : a < 2 ^ la) (hb : b < 2 ^ lb) :
    bitsToNat (msbBits a la ++ msbBits b lb) = a * 2 ^ lb + b := by
  rw [bitsToNat_append, length_msbBits, bitsToNat_msbBits_of_lt a la ha, bitsToNat_msbBits_of_lt b lb hb]

/-- **Mode message** (C03).  For each of the 36 shapes and `1 ≤ W ≤ 64` (compact) resp. `2048` (full range) data
    words, `generateModeMessage` succeeds with 28 resp. 40 bits; grouped into 4-bit words the way the reference
    decoder does, they form a GF(16) Reed–Solomon codeword with 5 resp. 6 check words, and the 2 resp. 4 data words
    have the value `(L-1)·64 + (W-1)` resp. `(L-1)·2048 + (W-1)`. -/
theorem generateModeMessage_spec (compact : Bool) (L W : Nat) (hL : Shape compact L)
    (hW : 1 ≤ W ∧ W ≤ (if compact then 64 else 2048)) :
    ∃ mm, generateModeMessage compact L W = .ok mm ∧ mm.length = (if compact then 28 else 40) ∧
      (let words := Spec.Aztec.groups 4 (mm.length / 4) mm
       let modeData := if compact then 2 else 4
       (Spec.RS.BinField.mk 0x13 16).valid 1 (words.length - modeData) words = true ∧
       (words.take modeData).foldl (fun a x => 16 * a + x) 0 =
         (L - 1) * (if compact then 64 else 2048) + (W - 1)) := by
  have eL : ((L : Int) - 1) = ((L - 1 : Nat) : Int) := by have := hL.1; omega
  have eW : ((W : Int) - 1) = ((W - 1 : Nat) : Int) := by omega
  rw [generateModeMessage_eq, eL, eW, addBits_natCast, addBits_natCast, addBits_natCast, addBits_natCast]
  cases compact
  · have hL2 : L ≤ 32 := hL.2
    have hW2 : W ≤ 2048 := hW.2
    obtain ⟨mm, h1, h2, h3⟩ := mode_aux (msbBits (L - 1) 5 ++ msbBits (W - 1) 11) 4 10 40 (by simp) rfl
      (by omega) (by omega)
    refine ⟨mm, h1, h2, ?_⟩
    rw [bitsToNat_two_fields (L - 1) 5 (W - 1) 11 (by omega) (by omega)] at h3
    exact h3
  · have hL2 : L ≤ 4 := hL.2
    have hW2 : W ≤ 64 := hW.2
    obtain ⟨mm, h1, h2, h3⟩ := mode_aux (msbBits (L - 1) 2 ++ msbBits (W - 1) 6) 2 7 28 (by simp) rfl
      (by omega) (by omega)
    refine ⟨mm, h1, h2, ?_⟩
    rw [bitsToNat_two_fields (L - 1) 2 (W - 1) 6 (by omega) (by omega)] at h3
    exact h3

/-- from the value of the compact mode message the reference decoder recovers the number of layers … -/
theorem mode_layers_compact (L W : Nat) (hL : 1 ≤ L) (hW : 1 ≤ W ∧ W ≤ 64) :
    ((L - 1) * 64 + (W - 1)) / 64 + 1 = L := by omega

/-- … and the number of data words -/
theorem mode_words_compact (L W : Nat) (hW : 1 ≤ W ∧ W ≤ 64) :
    ((L - 1) * 64 + (W - 1)) % 64 + 1 = W := by omega

/-- the same for a full-range symbol: layers … -/
theorem mode_layers_full (L W : Nat) (hL : 1 ≤ L) (hW : 1 ≤ W ∧ W ≤ 2048) :
    ((L - 1) * 2048 + (W - 1)) / 2048 + 1 = L := by omega

/-- … and data words -/
theorem mode_words_full (L W : Nat) (hW : 1 ≤ W ∧ W ≤ 2048) :
    ((L - 1) * 2048 + (W - 1)) % 2048 + 1 = W := by omega

/-- both read-back values in the form in which `Spec.Aztec.decode` computes them -/
theorem mode_read_back (compact : Bool) (L W : Nat) (hL : 1 ≤ L) (hW : 1 ≤ W ∧ W ≤ (if compact then 64 else 2048)) :
    let v := (L - 1) * (if compact then 64 else 2048) + (W - 1)
    (if compact then v / 64 else v / 2048) + 1 = L ∧ (if compact then v % 64 else v % 2048) + 1 = W := by
  cases compact
  · exact ⟨mode_layers_full L W hL hW, mode_words_full L W hW⟩
  · exact ⟨mode_layers_compact L W hL hW, mode_words_compact L W hW⟩

/-- `generateModeMessage` never panics, whatever the arguments (even `W = 0`, where `AddBits(-1, …)` writes all
    ones): the call has 2 (4) message words and 7 (10) words in total in GF(16) -/
theorem generateModeMessage_no_panic (compact : Bool) (L W : Nat) :
    ∃ mm, generateModeMessage compact L W = .ok mm := by
  rw [generateModeMessage_eq]
  cases compact
  · exact generateCheckWords_no_panic 4 (by decide) _ 40 (by simp)
  · exact generateCheckWords_no_panic 4 (by decide) _ 28 (by simp)

/-! ### concrete instances (kernel evaluation in GF(16) and GF(64) only) -/

/-- the mode message of a compact 1-layer symbol with 3 data words: words `0 2 | 5 8 12 4 2`; it is a codeword with 5
    check words and reads back as layers 1, data words 3 -/
example :
    (generateModeMessage true 1 3).toOption = some ([0, 2, 5, 8, 12, 4, 2].flatMap (fun x => msbBits x 4)) ∧
    Spec.Aztec.groups 4 7 ([0, 2, 5, 8, 12, 4, 2].flatMap (fun x => msbBits x 4)) = [0, 2, 5, 8, 12, 4, 2] ∧
    (Spec.RS.BinField.mk 0x13 16).valid 1 5 [0, 2, 5, 8, 12, 4, 2] = true ∧
    ([0, 2].foldl (fun a x => 16 * a + x) 0) / 64 + 1 = 1 ∧ ([0, 2].foldl (fun a x => 16 * a + x) 0) % 64 + 1 = 3 := by
  decide +kernel

/-- a full-range mode message: 5 layers, 100 data words, value `4·2048 + 99 = 0x2063` -/
example :
    (generateModeMessage false 5 100).toOption.map (Spec.Aztec.groups 4 10) = some [2, 0, 6, 3, 7, 14, 10, 8, 4, 14] ∧
    (Spec.RS.BinField.mk 0x13 16).valid 1 6 [2, 0, 6, 3, 7, 14, 10, 8, 4, 14] = true := by
  decide +kernel

/-- outside the domain (`W = 0`) the data words are `3 15` (all ones in the 6-bit field), no panic -/
example : (generateModeMessage true 1 0).toOption.map (Spec.Aztec.groups 4 7) = some [3, 15, 7, 14, 0, 1, 1] := by
  decide +kernel

/-- the hypotheses of `generateCheckWords_spec` are satisfiable: word size 6, two message words `44 10`, 33 bits in
    total (3 pad bits, 5 words), check words `59 62 24` in GF(64) -/
example :
    let stuffed := [true, false, true, true, false, false, false, false, true, false, true, false]
    6 ∈ [4, 6, 8, 10, 12] ∧ 1 ≤ 33 / 6 - stuffed.length / 6 ∧ 33 / 6 - stuffed.length / 6 ≤ 2 ^ 6 - 1 ∧
    Spec.Aztec.groups 6 2 stuffed = [44, 10] ∧
    (generateCheckWords stuffed 33 6).toOption =
      some (List.replicate 3 false ++ [44, 10, 59, 62, 24].flatMap (fun x => msbBits x 6)) ∧
    (Spec.RS.BinField.mk 0x43 64).valid 1 3 [44, 10, 59, 62, 24] = true := by
  decide +kernel

/-- a message with as many words as the symbol holds (no check word) is the Go panic `result[-1:]`; the guard
    `len(bits)/w < totalBits/w` of `generateCheckWords_no_panic` excludes it -/
example : (match generateCheckWords [true, false, true, true] 4 4 with
    | .error .panic => true
    | _ => false) = true := by decide +kernel

end BV.Proofs.AztecCheck
