/-
  BV.Proofs.AztecStuff — bit stuffing of the Aztec encoder (`Model.Aztec.stuffBits`, part of property C03),
  for every word size `w ≥ 2`: the output consists of whole `w`-bit words, none of them all-zero or all-one;
  removing the stuffing bits (`Spec.Aztec.unstuffWord`) gives the input back followed by fewer than `w`
  one-bits; length bounds.  An empty input yields the single word `1…10` (wrapper `stuffBits`; `words`).  Route: the bit tests `&&& mask` become tests on `word / 2`, `stuffBitsAux` becomes
  the word list `stuffWords`, one case analysis (`stuffWords_cons`) describes a step, the rest is induction
  on the fuel.
-/
import BV.Proofs.AztecBits
namespace BV.Proofs.AztecStuff
open BV BV.Model.Aztec BV.Proofs.Bits BV.Proofs.AztecBits

/-! ### the bit tests of `stuffBits` as arithmetic -/

/-- masking a `w`-bit value with `1…10` clears the lowest bit -/
theorem and_mask (x w : Nat) (hw : 1 ≤ w) (hx : x < 2 ^ w) :
    x &&& ((1 <<< w) - 2) = 2 * (x / 2) := by
  apply Nat.eq_of_testBit_eq
  intro i
  have h1 : (1 : Nat) < 2 ^ w := Nat.one_lt_two_pow (by omega)
  rw [Nat.testBit_and, Nat.one_shiftLeft, show (2 ^ w - 2) = 2 ^ w - (1 + 1) from rfl,
    Nat.testBit_two_pow_sub_succ h1]
  cases i with
  | zero => simp [Nat.testBit_zero]
  | succ i =>
    rw [Nat.testBit_succ, Nat.testBit_succ, Nat.testBit_succ,
      Nat.mul_div_cancel_left _ (by omega : 0 < 2)]
    by_cases hi : i + 1 < w
    · simp [hi]
    · have : x < 2 ^ (i + 1) := Nat.lt_of_lt_of_le hx (Nat.pow_le_pow_right (by omega) (by omega))
      have := Nat.testBit_lt_two_pow this
      rw [Nat.testBit_succ] at this
      simp [this]

/-- `2^w = 2 * 2^(w-1)` -/
theorem two_pow_pred (w : Nat) (hw : 1 ≤ w) : 2 ^ w = 2 * 2 ^ (w - 1) := by
  obtain ⟨k, rfl⟩ : ∃ k, w = k + 1 := ⟨w - 1, by omega⟩
  rw [Nat.pow_succ, Nat.add_sub_cancel, Nat.mul_comm]

/-! ### the list-level form of `stuffBits` -/

/-- the next (up to) `w` bits, padded with ones to `w` bits -/
def padded (w : Nat) (bits : List Bool) : List Bool :=
  bits.take w ++ List.replicate (w - (bits.take w).length) true

/-- the padded chunk has exactly `w` bits -/
theorem length_padded (w : Nat) (bits : List Bool) : (padded w bits).length = w := by
  simp [padded]; omega

/-- the words that `stuffBits` emits, as numbers: a word whose upper `w-1` bits are all one / all zero is
    replaced by `1…10` / `0…01` and consumes only `w-1` bits -/
def stuffWords (w : Nat) : Nat → List Bool → List Nat
  | 0, _ => []
  | _, [] => []
  | fuel + 1, b :: rest =>
    let x := bitsToNat (padded w (b :: rest))
    if x / 2 = 2 ^ (w - 1) - 1 then (2 ^ w - 2) :: stuffWords w fuel ((b :: rest).drop (w - 1))
    else if x / 2 = 0 then 1 :: stuffWords w fuel ((b :: rest).drop (w - 1))
    else x :: stuffWords w fuel ((b :: rest).drop w)

/-- `stuffBitsAux` writes the words of `stuffWords` with `w` bits each -/
theorem stuffBitsAux_eq (w : Nat) (hw : 1 ≤ w) (fuel : Nat) (bits : List Bool) :
    stuffBitsAux w fuel bits = (stuffWords w fuel bits).flatMap (fun x => msbBits x w) := by
  induction fuel generalizing bits with
  | zero => simp [stuffBitsAux, stuffWords]
  | succ fuel ih =>
    cases bits with
    | nil => simp [stuffBitsAux, stuffWords]
    | cons b rest =>
      have hlt : bitsToNat (padded w (b :: rest)) < 2 ^ w := by
        have := bitsToNat_lt (padded w (b :: rest)); rwa [length_padded] at this
      have hm := and_mask _ w hw hlt
      have hp := two_pow_pred w hw
      simp only [stuffBitsAux, stuffWords]
      rw [show (List.take w (b :: rest) ++ List.replicate (w - (List.take w (b :: rest)).length) true)
        = padded w (b :: rest) from rfl, hm, Nat.one_shiftLeft]
      generalize bitsToNat (padded w (b :: rest)) = x at *
      by_cases h1 : x / 2 = 2 ^ (w - 1) - 1
      · have e : (2 * (x / 2) == 2 ^ w - 2) = true := by
          rw [beq_iff_eq]; omega
        have e2 : 2 * (x / 2) = 2 ^ w - 2 := by omega
        rw [if_pos e, if_pos h1, List.flatMap_cons, ih, addBits_natCast, e2]
      · have e : ¬ ((2 * (x / 2) == 2 ^ w - 2) = true) := by
          rw [beq_iff_eq]; omega
        rw [if_neg e, if_neg h1]
        by_cases h2 : x / 2 = 0
        · have e' : (2 * (x / 2) == 0) = true := by rw [beq_iff_eq]; omega
          have e2 : x ||| 1 = 1 := by
            have : x = 0 ∨ x = 1 := by omega
            rcases this with rfl | rfl <;> rfl
          rw [if_pos e', if_pos h2, List.flatMap_cons, ih, addBits_natCast, e2]
        · have e' : ¬ ((2 * (x / 2) == 0) = true) := by rw [beq_iff_eq]; omega
          rw [if_neg e', if_neg h2, List.flatMap_cons, ih, addBits_natCast]

/-! ### un-stuffing one word -/

/-- peeling the least significant bit off `msbBits` -/
theorem msbBits_succ_last (y k : Nat) : msbBits y (k + 1) = msbBits (y / 2) k ++ [y.testBit 0] := by
  simp only [msbBits, List.range_succ, List.map_append, List.map_cons, List.map_nil]
  congr 1
  · apply List.map_congr_left
    intro i hi
    have hi : i < k := List.mem_range.mp hi
    rw [show k + 1 - 1 - i = (k - 1 - i) + 1 by omega, Nat.testBit_succ]
  · simp

/-- `unstuffWord` in terms of `msbBits`: a word whose upper `w-1` bits are all equal carries those bits only -/
theorem unstuffWord_eq (w y : Nat) (hw : 1 ≤ w) :
    Spec.Aztec.unstuffWord w y =
      if y / 2 = 0 ∨ y / 2 = 2 ^ (w - 1) - 1 then msbBits (y / 2) (w - 1) else msbBits y w := by
  obtain ⟨k, rfl⟩ : ∃ k, w = k + 1 := ⟨w - 1, by omega⟩
  show (if _ then (msbBits y (k + 1)).dropLast else msbBits y (k + 1)) = _
  rw [msbBits_succ_last, List.dropLast_concat, Nat.add_sub_cancel]

/-- halving the value of a bit list drops its last bit -/
theorem bitsToNat_half (P : List Bool) (k : Nat) (h : P.length = k + 1) :
    bitsToNat P / 2 = bitsToNat (P.take k) := by
  have e : P = P.take k ++ P.drop k := (List.take_append_drop k P).symm
  have hl : (P.drop k).length = 1 := by simp; omega
  have h2 := bitsToNat_lt (P.drop k)
  rw [hl] at h2
  conv => lhs; rw [e, bitsToNat_append, hl]
  omega

/-- the first `k ≤ w` bits of the padded chunk: the first `k` bits, padded with ones if there are fewer -/
theorem take_padded (w k : Nat) (bits : List Bool) (hk : k ≤ w) :
    (padded w bits).take k = bits.take k ++ List.replicate (k - bits.length) true := by
  unfold padded
  rw [List.take_append, List.take_take, List.take_replicate, Nat.min_eq_left hk]
  congr 2
  simp only [List.length_take]
  omega

/-! ### one step of `stuffWords` -/

/-- no bits, no words (whatever the fuel) -/
theorem stuffWords_nil (w fuel : Nat) : stuffWords w fuel [] = [] := by
  cases fuel <;> rfl

/-- One step: the emitted word `y` is a proper `w`-bit word, neither all-zero nor all-one; it consumes
    `k ∈ {w-1, w}` bits and un-stuffs to the first `k` bits of the (one-padded) input. -/
theorem stuffWords_cons (w : Nat) (hw : 2 ≤ w) (fuel : Nat) (b : Bool) (rest : List Bool) :
    ∃ y k, stuffWords w (fuel + 1) (b :: rest) = y :: stuffWords w fuel ((b :: rest).drop k) ∧
      (k = w - 1 ∨ k = w) ∧ y < 2 ^ w ∧ y ≠ 0 ∧ y ≠ 2 ^ w - 1 ∧
      Spec.Aztec.unstuffWord w y = (padded w (b :: rest)).take k := by
  have hlen := length_padded w (b :: rest)
  have hlt : bitsToNat (padded w (b :: rest)) < 2 ^ w := by
    have := bitsToNat_lt (padded w (b :: rest)); rwa [hlen] at this
  have hp := two_pow_pred w (by omega)
  have hp1 : 2 ≤ 2 ^ (w - 1) := by
    have := two_pow_pred (w - 1) (by omega)
    have : 0 < 2 ^ (w - 1 - 1) := Nat.two_pow_pos _
    omega
  have hhalf := bitsToNat_half (padded w (b :: rest)) (w - 1) (by omega)
  have hback : msbBits (bitsToNat ((padded w (b :: rest)).take (w - 1))) (w - 1)
      = (padded w (b :: rest)).take (w - 1) := by
    have := msbBits_bitsToNat ((padded w (b :: rest)).take (w - 1))
    rwa [show ((padded w (b :: rest)).take (w - 1)).length = w - 1 by simp [hlen]] at this
  simp only [stuffWords]
  by_cases h1 : bitsToNat (padded w (b :: rest)) / 2 = 2 ^ (w - 1) - 1
  · refine ⟨2 ^ w - 2, w - 1, by rw [if_pos h1], Or.inl rfl, by omega, by omega, by omega, ?_⟩
    have e : (2 ^ w - 2) / 2 = bitsToNat (padded w (b :: rest)) / 2 := by omega
    rw [unstuffWord_eq w _ (by omega), e, if_pos (Or.inr h1), hhalf, hback]
  · by_cases h2 : bitsToNat (padded w (b :: rest)) / 2 = 0
    · refine ⟨1, w - 1, by rw [if_neg h1, if_pos h2], Or.inl rfl, by omega, by omega, by omega, ?_⟩
      have e : 1 / 2 = bitsToNat (padded w (b :: rest)) / 2 := by omega
      rw [unstuffWord_eq w _ (by omega), e, if_pos (Or.inl h2), hhalf, hback]
    · refine ⟨_, w, by rw [if_neg h1, if_neg h2], Or.inr rfl, hlt, by omega, by omega, ?_⟩
      rw [unstuffWord_eq w _ (by omega), if_neg (by omega)]
      have := msbBits_bitsToNat (padded w (b :: rest))
      rw [hlen] at this
      rw [this, List.take_of_length_le (by omega)]

/-! ### the words of `stuffBits` -/

/-- every emitted word fits in `w` bits and is neither all-zero nor all-one -/
theorem stuffWords_range (w : Nat) (hw : 2 ≤ w) (fuel : Nat) (bits : List Bool) :
    ∀ x ∈ stuffWords w fuel bits, x < 2 ^ w ∧ x ≠ 0 ∧ x ≠ 2 ^ w - 1 := by
  induction fuel generalizing bits with
  | zero => intro x hx; simp [stuffWords] at hx
  | succ fuel ih =>
    cases bits with
    | nil => intro x hx; simp [stuffWords] at hx
    | cons b rest =>
      obtain ⟨y, k, e, _, h1, h2, h3, _⟩ := stuffWords_cons w hw fuel b rest
      rw [e]
      intro x hx
      rcases List.mem_cons.mp hx with rfl | hx
      · exact ⟨h1, h2, h3⟩
      · exact ih _ x hx

/-- un-stuffing the words gives the input bits back, followed by fewer than `w` one-bits -/
theorem stuffWords_unstuff (w : Nat) (hw : 2 ≤ w) (fuel : Nat) (bits : List Bool)
    (hf : bits.length ≤ fuel) :
    ∃ pad : List Bool, pad.length < w ∧ pad.all id = true ∧
      (stuffWords w fuel bits).flatMap (Spec.Aztec.unstuffWord w) = bits ++ pad := by
  induction fuel generalizing bits with
  | zero =>
    have : bits = [] := List.eq_nil_of_length_eq_zero (by omega)
    subst this
    exact ⟨[], by simp; omega, rfl, rfl⟩
  | succ fuel ih =>
    cases bits with
    | nil => exact ⟨[], by simp; omega, rfl, rfl⟩
    | cons b rest =>
      obtain ⟨y, k, e, hk, _, _, _, hu⟩ := stuffWords_cons w hw fuel b rest
      rw [e, List.flatMap_cons, hu, take_padded w k _ (by omega)]
      by_cases hl : (b :: rest).length ≤ k
      · rw [List.drop_of_length_le hl, stuffWords_nil, List.take_of_length_le hl]
        refine ⟨List.replicate (k - (b :: rest).length) true, ?_, by simp, by simp⟩
        simp only [List.length_replicate, List.length_cons]
        omega
      · obtain ⟨pad, p1, p2, p3⟩ := ih ((b :: rest).drop k) (by
          simp only [List.length_drop, List.length_cons] at hf ⊢; omega)
        refine ⟨pad, p1, p2, ?_⟩
        rw [p3, show k - (b :: rest).length = 0 by omega, List.replicate_zero, List.append_nil,
          ← List.append_assoc, List.take_append_drop]

/-- the input is no longer than the output: each word consumes at most `w` bits -/
theorem stuffWords_length_ge (w : Nat) (hw : 2 ≤ w) (fuel : Nat) (bits : List Bool)
    (hf : bits.length ≤ fuel) : bits.length ≤ (stuffWords w fuel bits).length * w := by
  induction fuel generalizing bits with
  | zero => omega
  | succ fuel ih =>
    cases bits with
    | nil => simp
    | cons b rest =>
      obtain ⟨y, k, e, hk, _⟩ := stuffWords_cons w hw fuel b rest
      have := ih ((b :: rest).drop k) (by
        simp only [List.length_drop, List.length_cons] at hf ⊢; omega)
      rw [e]
      simp only [List.length_drop, List.length_cons, Nat.add_one_mul] at this ⊢
      generalize (stuffWords w fuel (List.drop k (b :: rest))).length * w = t at *
      omega

/-- each word consumes at least `w-1` bits (the first possibly fewer, at the end of the input) -/
theorem stuffWords_length_le (w : Nat) (hw : 2 ≤ w) (fuel : Nat) (bits : List Bool) :
    (stuffWords w fuel bits).length * (w - 1) ≤ bits.length + (w - 2) := by
  induction fuel generalizing bits with
  | zero => simp [stuffWords]
  | succ fuel ih =>
    cases bits with
    | nil => simp [stuffWords]
    | cons b rest =>
      obtain ⟨y, k, e, hk, _⟩ := stuffWords_cons w hw fuel b rest
      rw [e]
      by_cases hl : (b :: rest).length ≤ k
      · rw [List.drop_of_length_le hl, stuffWords_nil]
        simp only [List.length_nil, List.length_cons, Nat.add_one_mul, Nat.zero_mul] at hl ⊢
        omega
      · have := ih ((b :: rest).drop k)
        simp only [List.length_drop, List.length_cons, Nat.add_one_mul] at this hl ⊢
        generalize (stuffWords w fuel (List.drop k (b :: rest))).length * (w - 1) = t at *
        omega

/-! ### `stuffBits` -/

/-- `n` words of `w` bits are `n·w` bits -/
theorem length_flatMap_msbBits (w : Nat) (ws : List Nat) :
    (ws.flatMap (fun x => msbBits x w)).length = ws.length * w := by
  induction ws with
  | nil => simp
  | cons x ws ih => rw [List.flatMap_cons, List.length_append, ih, length_msbBits, List.length_cons,
      Nat.add_one_mul, Nat.add_comm]

/-- the `k` low bits of `2^k - 1` are all one -/
theorem msbBits_ones (k : Nat) : msbBits (2 ^ k - 1) k = List.replicate k true := by
  unfold msbBits
  rw [List.eq_replicate_iff]
  refine ⟨by simp, ?_⟩
  intro b hb
  obtain ⟨i, hi, rfl⟩ := List.mem_map.mp hb
  have hi : i < k := List.mem_range.mp hi
  rw [Nat.testBit_two_pow_sub_one]
  simp; omega

/-- the words of `stuffBits`: an empty stream yields the single word `1…10` (padding ones and a stuffed
    zero), a non-empty one the words of `stuffWords` -/
def words (w : Nat) (bits : List Bool) : List Nat :=
  if bits.isEmpty then [2 ^ w - 2] else stuffWords w bits.length bits

/-- the words of a non-empty stream -/
theorem words_of_ne_nil (w : Nat) (bits : List Bool) (h : bits ≠ []) :
    words w bits = stuffWords w bits.length bits := by
  cases bits with
  | nil => exact absurd rfl h
  | cons b rest => rfl

/-- the word of the empty stream -/
theorem words_nil (w : Nat) : words w [] = [2 ^ w - 2] := rfl

/-- `stuffBits` writes the words `words` with `w` bits each -/
theorem stuffBits_eq (bits : List Bool) (w : Nat) (hw : 2 ≤ w) :
    stuffBits bits w = (words w bits).flatMap (fun x => msbBits x w) := by
  cases bits with
  | nil =>
    show addBits (((1 <<< w) - 2 : Nat) : Int) w = _
    rw [addBits_natCast, Nat.one_shiftLeft, words_nil]
    simp
  | cons b rest =>
    show stuffBitsAux w (b :: rest).length (b :: rest) = _
    rw [words_of_ne_nil w _ (by simp)]
    exact stuffBitsAux_eq w (by omega) _ _

/-- the length of the stuffed stream is the number of words times `w` -/
theorem stuffBits_length (bits : List Bool) (w : Nat) (hw : 2 ≤ w) :
    (stuffBits bits w).length = (words w bits).length * w := by
  rw [stuffBits_eq bits w hw, length_flatMap_msbBits]

/-- every word fits in `w` bits and is neither all-zero nor all-one -/
theorem words_range (w : Nat) (hw : 2 ≤ w) (bits : List Bool) :
    ∀ x ∈ words w bits, x < 2 ^ w ∧ x ≠ 0 ∧ x ≠ 2 ^ w - 1 := by
  cases bits with
  | nil =>
    intro x hx
    rw [words_nil, List.mem_singleton] at hx
    have hp := two_pow_pred w (by omega)
    have hp1 := two_pow_pred (w - 1) (by omega)
    have : 0 < 2 ^ (w - 1 - 1) := Nat.two_pow_pos _
    omega
  | cons b rest =>
    rw [words_of_ne_nil w _ (by simp)]
    exact stuffWords_range w hw _ _

/-- un-stuffing the words gives the input bits back, followed by fewer than `w` one-bits -/
theorem words_unstuff (w : Nat) (hw : 2 ≤ w) (bits : List Bool) :
    ∃ pad : List Bool, pad.length < w ∧ pad.all id = true ∧
      (words w bits).flatMap (Spec.Aztec.unstuffWord w) = bits ++ pad := by
  cases bits with
  | nil =>
    refine ⟨List.replicate (w - 1) true, by simp; omega, by simp, ?_⟩
    have hp := two_pow_pred w (by omega)
    have e : (2 ^ w - 2) / 2 = 2 ^ (w - 1) - 1 := by omega
    rw [words_nil, List.flatMap_cons, List.flatMap_nil, List.append_nil, List.nil_append,
      unstuffWord_eq w _ (by omega), e, if_pos (Or.inr rfl), msbBits_ones]
  | cons b rest =>
    rw [words_of_ne_nil w _ (by simp)]
    exact stuffWords_unstuff w hw _ _ (Nat.le_refl _)

/-- regrouping the stuffed stream into `w`-bit words gives exactly the words `words` -/
theorem stuffBits_groups (bits : List Bool) (w : Nat) (hw : 2 ≤ w) :
    Spec.Aztec.groups w ((stuffBits bits w).length / w) (stuffBits bits w) = words w bits := by
  rw [stuffBits_length bits w hw, Nat.mul_div_cancel _ (by omega : 0 < w), stuffBits_eq bits w hw]
  have := groups_flatMap w (words w bits) (fun x hx => (words_range w hw _ x hx).1) []
  rwa [List.append_nil] at this

/-- Stuffing an empty stream gives the single word `1…10`: `w-1` padding ones and a stuffed zero. -/
theorem stuffBits_nil (w : Nat) : stuffBits [] w = msbBits (2 ^ w - 2) w := by
  show addBits (((1 <<< w) - 2 : Nat) : Int) w = _
  rw [addBits_natCast, Nat.one_shiftLeft]

/-- The stuffed bit stream consists of whole `w`-bit words. -/
theorem stuffBits_length_mod (bits : List Bool) (w : Nat) (hw : 2 ≤ w) :
    (stuffBits bits w).length % w = 0 := by
  rw [stuffBits_length bits w hw, Nat.mul_mod_left]

/-- The `w`-bit words `ws` of the stuffed stream: (a) none of them is all-zero or all-one (and each is
    below `2^w`); (b) removing the stuffing bit from every word whose upper `w-1` bits are equal
    (`Spec.Aztec.unstuffWord`) gives the original bits back, followed by fewer than `w` one-bits of padding;
    (c) the words written with `w` bits each are the stuffed stream. -/
theorem stuffBits_words (bits : List Bool) (w : Nat) (hw : 2 ≤ w) :
    let ws := Spec.Aztec.groups w ((stuffBits bits w).length / w) (stuffBits bits w)
    (∀ x ∈ ws, x < 2 ^ w ∧ x ≠ 0 ∧ x ≠ 2 ^ w - 1) ∧
    (∃ pad : List Bool, pad.length < w ∧ pad.all id = true ∧
      ws.flatMap (Spec.Aztec.unstuffWord w) = bits ++ pad) ∧
    ws.flatMap (fun x => msbBits x w) = stuffBits bits w := by
  intro ws
  have e : ws = words w bits := stuffBits_groups bits w hw
  rw [e]
  exact ⟨words_range w hw _, words_unstuff w hw _, (stuffBits_eq bits w hw).symm⟩

/-- The stuffed stream is never empty: it has at least one word. -/
theorem stuffBits_length_ge_word (bits : List Bool) (w : Nat) (hw : 2 ≤ w) :
    w ≤ (stuffBits bits w).length := by
  rw [stuffBits_length bits w hw]
  have : 1 ≤ (words w bits).length := by
    cases bits with
    | nil => simp [words_nil]
    | cons b rest =>
      rw [words_of_ne_nil w _ (by simp)]
      obtain ⟨y, k, e, _⟩ := stuffWords_cons w hw rest.length b rest
      rw [List.length_cons, e]; simp
  exact Nat.le_mul_of_pos_left _ this

/-- The stuffed stream is never empty. -/
theorem stuffBits_length_pos (bits : List Bool) (w : Nat) (hw : 2 ≤ w) :
    1 ≤ (stuffBits bits w).length :=
  Nat.le_trans (by omega) (stuffBits_length_ge_word bits w hw)

/-- Stuffing never shortens the stream. -/
theorem stuffBits_length_ge (bits : List Bool) (w : Nat) (hw : 2 ≤ w) :
    bits.length ≤ (stuffBits bits w).length := by
  cases bits with
  | nil => simp
  | cons b rest =>
    rw [stuffBits_length _ w hw, words_of_ne_nil w _ (by simp)]
    exact stuffWords_length_ge w hw _ _ (Nat.le_refl _)

/-- Every output word consumes at least `w-1` input bits: the stuffed form of a non-empty stream of `n` bits
    has at most `⌈n / (w-1)⌉` words.  (The empty stream yields one word.) -/
theorem stuffBits_length_le_ceil (bits : List Bool) (w : Nat) (hw : 2 ≤ w) (hne : bits ≠ []) :
    (stuffBits bits w).length ≤ ((bits.length + (w - 2)) / (w - 1)) * w := by
  rw [stuffBits_length bits w hw, words_of_ne_nil w bits hne]
  apply Nat.mul_le_mul_right
  rw [Nat.le_div_iff_mul_le (by omega)]
  exact stuffWords_length_le w hw _ _

/-- The stuffed form of `n` bits has at most `n / (w-1) + 1` words. -/
theorem stuffBits_length_le (bits : List Bool) (w : Nat) (hw : 2 ≤ w) :
    (stuffBits bits w).length ≤ (bits.length / (w - 1) + 1) * w := by
  by_cases hne : bits = []
  · subst hne
    rw [stuffBits_length _ w hw, words_nil]
    simp
  · refine Nat.le_trans (stuffBits_length_le_ceil bits w hw hne) (Nat.mul_le_mul_right _ ?_)
    rw [← Nat.add_div_right _ (by omega : 0 < w - 1)]
    exact Nat.div_le_div_right (by omega)

/-! ### the statements on a concrete input (`w = 6`, 13 bits with a run of ones and a run of zeros) -/

/-- thirteen bits `11111 00000 101`: both kinds of stuffing occur, and the last word is padded -/
def sample : List Bool :=
  [true, true, true, true, true, false, false, false, false, false, true, false, true]

example : stuffBits sample 6 =
    [true, true, true, true, true, false,    -- 11111 + stuffed 0
     false, false, false, false, false, true, -- 00000 + stuffed 1
     true, false, true, true, true, true]     -- 101 + pad 111
    := by decide
example : (stuffBits sample 6).length % 6 = 0 := by decide
example : Spec.Aztec.groups 6 ((stuffBits sample 6).length / 6) (stuffBits sample 6) = [62, 1, 47] := by
  decide
example : (Spec.Aztec.groups 6 ((stuffBits sample 6).length / 6) (stuffBits sample 6)).flatMap
    (Spec.Aztec.unstuffWord 6) = sample ++ [true, true, true] := by decide
example : sample.length ≤ (stuffBits sample 6).length ∧
    (stuffBits sample 6).length ≤ (sample.length / (6 - 1) + 1) * 6 := by decide
/-- a final chunk of exactly `w-1` equal bits is a stuffed word with empty padding -/
example : stuffBits [true, true, true, true, true] 6 = [true, true, true, true, true, false] ∧
    Spec.Aztec.unstuffWord 6 62 = [true, true, true, true, true] := by decide
/-- the empty stream: one word `111110`, which un-stuffs to five padding ones -/
example : stuffBits [] 6 = [true, true, true, true, true, false] ∧
    Spec.Aztec.groups 6 ((stuffBits [] 6).length / 6) (stuffBits [] 6) = [62] := by decide

end BV.Proofs.AztecStuff
