/-
  PDF417 Byte compaction: the model's `encodeBinary` (mirror of the Go `encodeBinary`) is inverted by the
  Spec's `flushByte` (ISO/IEC 15438 Byte compaction, 901 / 924), for byte strings of every length.

  Structure:
    * `val6`, `words5`: one six-byte group and its five base-900 digits; `sixBytes_words5` (Spec inverts them,
      because 256^6 < 900^5);
    * `groups`, `sixpacks_eq`, `encodeBinary_eq`: the fuelled `sixpacks` loop in closed (list-recursive) form;
      the fuel `count / 6 + 1` passed by `encodeBinary` suffices;
    * `byteGroups_groups`, `flushByte_body`: the Spec's group count (`len / 5`, one less when a 901 segment
      has a multiple of five codewords) equals the model's `count / 6`;
    * `encodeBinary_shift`, `encodeBinary_latch`: the two theorems used by the properties.
-/
import BV.Model.Pdf417
import BV.Spec.Pdf417
namespace BV.Proofs.PdfByte
open BV BV.Model.Pdf417 BV.Spec.Pdf417 BV.Gen.Pdf417

/-- value of a six-byte group, first byte most significant (the `t` of the Go loop) -/
def val6 (b0 b1 b2 b3 b4 b5 : UInt8) : Nat :=
  ((((b0.toNat * 256 + b1.toNat) * 256 + b2.toNat) * 256 + b3.toNat) * 256 + b4.toNat) * 256 + b5.toNat

/-- the five base-900 digits of `t`, most significant first, as the Go code computes them -/
def words5 (t : Nat) : List Nat :=
  [t / 900 / 900 / 900 / 900 % 900, t / 900 / 900 / 900 % 900, t / 900 / 900 % 900, t / 900 % 900, t % 900]

theorem val6_lt (b0 b1 b2 b3 b4 b5 : UInt8) : val6 b0 b1 b2 b3 b4 b5 < 256 ^ 6 := by
  have h0 := b0.toNat_lt; have h1 := b1.toNat_lt; have h2 := b2.toNat_lt
  have h3 := b3.toNat_lt; have h4 := b4.toNat_lt; have h5 := b5.toNat_lt
  unfold val6; omega

theorem words5_lt (t : Nat) : ∀ c ∈ words5 t, c < 900 := by
  intro c hc
  simp only [words5, List.mem_cons, List.not_mem_nil, or_false] at hc
  omega

theorem words5_fold (t : Nat) (h : t < 900 ^ 5) : (words5 t).foldl (fun a c => 900 * a + c) 0 = t := by
  simp only [words5, List.foldl_cons, List.foldl_nil]
  omega

/-- the Spec's base-900 → base-256 conversion inverts the model's base-256 → base-900 conversion -/
theorem sixBytes_words5 (b0 b1 b2 b3 b4 b5 : UInt8) :
    sixBytes (words5 (val6 b0 b1 b2 b3 b4 b5)) = .ok [b0, b1, b2, b3, b4, b5] := by
  have hlt := val6_lt b0 b1 b2 b3 b4 b5
  have hfold := words5_fold (val6 b0 b1 b2 b3 b4 b5) (by omega)
  unfold sixBytes
  simp only [hfold]
  rw [if_neg (by omega)]
  have h0 := b0.toNat_lt; have h1 := b1.toNat_lt; have h2 := b2.toNat_lt
  have h3 := b3.toNat_lt; have h4 := b4.toNat_lt; have h5 := b5.toNat_lt
  show Except.ok _ = _
  congr 1
  simp only [List.range, List.range.loop, List.map_cons, List.map_nil]
  have e0 : val6 b0 b1 b2 b3 b4 b5 / 256 ^ (5 - 0) % 256 = b0.toNat := by unfold val6; omega
  have e1 : val6 b0 b1 b2 b3 b4 b5 / 256 ^ (5 - 1) % 256 = b1.toNat := by unfold val6; omega
  have e2 : val6 b0 b1 b2 b3 b4 b5 / 256 ^ (5 - 2) % 256 = b2.toNat := by unfold val6; omega
  have e3 : val6 b0 b1 b2 b3 b4 b5 / 256 ^ (5 - 3) % 256 = b3.toNat := by unfold val6; omega
  have e4 : val6 b0 b1 b2 b3 b4 b5 / 256 ^ (5 - 4) % 256 = b4.toNat := by unfold val6; omega
  have e5 : val6 b0 b1 b2 b3 b4 b5 / 256 ^ (5 - 5) % 256 = b5.toNat := by unfold val6; omega
  rw [e0, e1, e2, e3, e4, e5]
  simp only [UInt8.ofNat_toNat]

/-- value of the first six bytes exactly as the model folds them -/
def valOf (d : Bytes) : Nat := (d.take 6).foldl (fun t b => t * 256 + b.toNat) 0

/-- `n` six-byte groups of `d`, five codewords each: the list form of the `sixpacks` loop -/
def groups : Nat → Bytes → List Nat
  | 0, _ => []
  | n + 1, d => words5 (valOf d) ++ groups n (d.drop 6)

theorem groups_length (n : Nat) (d : Bytes) : (groups n d).length = 5 * n := by
  induction n generalizing d with
  | zero => rfl
  | succ n ih => simp only [groups, List.length_append, ih, words5, List.length_cons, List.length_nil]; omega

theorem groups_lt (n : Nat) (d : Bytes) : ∀ c ∈ groups n d, c < 900 := by
  induction n generalizing d with
  | zero => intro c hc; simp [groups] at hc
  | succ n ih =>
    intro c hc
    simp only [groups, List.mem_append] at hc
    rcases hc with hc | hc
    · exact words5_lt _ c hc
    · exact ih _ c hc

/-- the `sixpacks` loop with enough fuel: all complete groups are converted, the remainder is returned -/
theorem sixpacks_eq (fuel : Nat) (data : Bytes) (acc : List Nat) (h : data.length / 6 ≤ fuel) :
    sixpacks fuel data acc = (acc ++ groups (data.length / 6) data, data.drop (6 * (data.length / 6))) := by
  induction fuel generalizing data acc with
  | zero =>
    have : data.length / 6 = 0 := by omega
    simp [sixpacks, this, groups]
  | succ fuel ih =>
    unfold sixpacks
    by_cases h6 : data.length ≥ 6
    · rw [if_pos h6]
      have hl : (data.drop 6).length = data.length - 6 := List.length_drop
      have hq : data.length / 6 = (data.length - 6) / 6 + 1 := by omega
      rw [ih (data.drop 6) _ (by rw [hl]; omega), hl, hq]
      simp only [groups, valOf, words5, List.append_assoc, List.drop_drop]
      congr 2
      omega
    · rw [if_neg h6]
      have : data.length / 6 = 0 := by omega
      simp [this, groups]

/-- the latch / shift codeword `encodeBinary` starts with -/
def header (count startmode : Nat) : Nat :=
  if count == 1 && startmode == c_encText then c_shift_to_byte
  else if count % 6 == 0 then c_latch_to_byte else c_latch_to_byte_padded

/-- `encodeBinary` in closed form: header, all complete six-byte groups, the remaining bytes one by one -/
theorem encodeBinary_eq (data : Bytes) (startmode : Nat) :
    encodeBinary data startmode =
      header data.length startmode :: (groups (data.length / 6) data ++
        (data.drop (6 * (data.length / 6))).map (fun b => b.toNat % 256)) := by
  unfold encodeBinary header
  by_cases h6 : data.length ≥ 6
  · simp only [h6, if_true]
    rw [sixpacks_eq _ _ _ (by omega)]
    split
    · rfl
    · split <;> rfl
  · have h0 : data.length / 6 = 0 := by omega
    simp only [h6, if_false, h0, groups, Nat.mul_zero, List.drop_zero, List.nil_append]
    split
    · rfl
    · split <;> rfl

theorem six_cons (d : Bytes) (h : 6 ≤ d.length) :
    ∃ b0 b1 b2 b3 b4 b5 d', d = b0 :: b1 :: b2 :: b3 :: b4 :: b5 :: d' := by
  match d, h with
  | b0 :: b1 :: b2 :: b3 :: b4 :: b5 :: d', _ => exact ⟨b0, b1, b2, b3, b4, b5, d', rfl⟩

theorem valOf_cons (b0 b1 b2 b3 b4 b5 : UInt8) (d' : Bytes) :
    valOf (b0 :: b1 :: b2 :: b3 :: b4 :: b5 :: d') = val6 b0 b1 b2 b3 b4 b5 := by
  simp [valOf, val6]

/-- the Spec decodes `k` model groups followed by single-byte codewords -/
theorem byteGroups_groups (k : Nat) (data : Bytes) (tail : List Nat) (hk : 6 * k ≤ data.length)
    (ht : ∀ c ∈ tail, c < 256) :
    byteGroups k (groups k data ++ tail) = .ok (data.take (6 * k) ++ tail.map UInt8.ofNat) := by
  induction k generalizing data with
  | zero =>
    have hall : (tail.all fun x => decide (x < 256)) = true := by simpa using ht
    show byteGroups 0 tail = _
    simp only [byteGroups, hall, if_true, Nat.mul_zero, List.take_zero, List.nil_append]
    rfl
  | succ k ih =>
    obtain ⟨b0, b1, b2, b3, b4, b5, d', rfl⟩ := six_cons data (by omega)
    have hl : 6 * k ≤ d'.length := by simp only [List.length_cons] at hk; omega
    simp only [groups, valOf_cons, byteGroups]
    have e1 : (words5 (val6 b0 b1 b2 b3 b4 b5) ++ groups k (List.drop 6 (b0 :: b1 :: b2 :: b3 :: b4 :: b5 :: d')) ++ tail).take 5
        = words5 (val6 b0 b1 b2 b3 b4 b5) := by simp [words5]
    have e2 : (words5 (val6 b0 b1 b2 b3 b4 b5) ++ groups k (List.drop 6 (b0 :: b1 :: b2 :: b3 :: b4 :: b5 :: d')) ++ tail).drop 5
        = groups k d' ++ tail := by simp [words5]
    rw [e1, e2, sixBytes_words5, ih d' hl]
    have : 6 * (k + 1) = 6 * k + 6 := by omega
    rw [this]
    rfl

/-- one byte in Text mode: shift 913 followed by the byte value -/
theorem encodeBinary_shift (b : UInt8) : encodeBinary [b] c_encText = [913, b.toNat] := by
  have := b.toNat_lt
  rw [encodeBinary_eq]
  have e : b.toNat % 256 = b.toNat := by omega
  have hh : header [b].length c_encText = 913 := rfl
  have hq : [b].length / 6 = 0 := by simp
  rw [hh, hq]
  simp only [groups, Nat.mul_zero, List.drop_zero, List.nil_append, List.map_cons, List.map_nil, e]

/-- the body (everything after the latch) of a Byte segment -/
def body (data : Bytes) : List Nat :=
  groups (data.length / 6) data ++ (data.drop (6 * (data.length / 6))).map (fun b => b.toNat % 256)

theorem body_lt (data : Bytes) : ∀ c ∈ body data, c < 900 := by
  intro c hc
  simp only [body, List.mem_append, List.mem_map] at hc
  rcases hc with hc | ⟨b, _, rfl⟩
  · exact groups_lt _ _ c hc
  · omega

theorem body_length (data : Bytes) : (body data).length = 5 * (data.length / 6) + data.length % 6 := by
  simp only [body, List.length_append, groups_length, List.length_map, List.length_drop]
  omega

/-- the Spec byte decoder inverts the model's body, for 924 (exact) and 901 alike -/
theorem flushByte_body (data : Bytes) : flushByte (data.length % 6 == 0) (body data) = .ok data := by
  have hlen := body_length data
  have key : byteGroups (data.length / 6) (body data) = .ok data := by
    unfold body
    rw [byteGroups_groups _ _ _ (by omega)]
    · congr 1
      rw [List.map_map]
      have : (UInt8.ofNat ∘ fun (b : UInt8) => b.toNat % 256) = id := by
        funext b
        have := b.toNat_lt
        simp only [Function.comp, id]
        rw [Nat.mod_eq_of_lt this]; exact UInt8.ofNat_toNat
      rw [this, List.map_id, List.take_append_drop]
    · intro c hc
      simp only [List.mem_map] at hc
      obtain ⟨b, _, rfl⟩ := hc
      omega
  unfold flushByte
  by_cases h0 : data.length % 6 = 0
  · have hb : (data.length % 6 == 0) = true := by simp [h0]
    simp only [hb, if_true]
    have h5 : ((body data).length % 5 != 0) = false := by rw [hlen, h0]; simp
    have hq : (body data).length / 5 = data.length / 6 := by rw [hlen, h0]; omega
    simp only [h5, hq]
    exact key
  · have hb : (data.length % 6 == 0) = false := by simp [h0]
    simp only [hb]
    have hq : (if ((body data).length % 5 == 0) = true then (body data).length / 5 - 1 else (body data).length / 5)
        = data.length / 6 := by
      rw [hlen]
      split
      · rename_i h; simp only [beq_iff_eq] at h; omega
      · rename_i h; simp only [beq_iff_eq] at h; omega
    simp only [Bool.false_eq_true, if_false, hq]
    exact key

/-- all other cases: a latch (924 iff the byte count is a multiple of six, else 901) followed by codewords
    < 900 which the Spec byte decoder maps back to the bytes -/
theorem encodeBinary_latch (data : Bytes) (startmode : Nat) (h : ¬ (data.length = 1 ∧ startmode = c_encText)) :
    ∃ body, encodeBinary data startmode = (if data.length % 6 = 0 then 924 else 901) :: body ∧
      (∀ c ∈ body, c < 900) ∧ flushByte (data.length % 6 == 0) body = .ok data := by
  refine ⟨body data, ?_, body_lt data, flushByte_body data⟩
  rw [encodeBinary_eq]
  have hh : (data.length == 1 && startmode == c_encText) = false := by
    simp only [Bool.and_eq_false_imp, beq_iff_eq, beq_eq_false_iff_ne, ne_eq]
    intro h1 h2; exact h ⟨h1, h2⟩
  simp only [header, hh, body, c_latch_to_byte, c_latch_to_byte_padded, beq_iff_eq, Bool.false_eq_true, if_false]

/-- the hypotheses are satisfiable on non-trivial inputs (13 bytes: two groups and one single byte; 6 bytes) -/
example : encodeBinary [1, 2, 3, 4, 5, 6, 7, 8, 9, 10, 11, 12, 255] c_encText
    = [901, 1, 620, 89, 74, 846, 11, 705, 58, 895, 432, 255] := by decide
example : flushByte false [1, 620, 89, 74, 846, 11, 705, 58, 895, 432, 255]
    = .ok [1, 2, 3, 4, 5, 6, 7, 8, 9, 10, 11, 12, 255] := by rfl
example : encodeBinary [255, 255, 255, 255, 255, 255] c_encBinary = [924, 429, 11, 71, 222, 855] := by decide

end BV.Proofs.PdfByte
