import BV.Model.Code128
import BV.Spec.OneD
import Mathlib.Tactic.SplitIfs
namespace BV.Proofs.Code128
open BV BV.Model.Code128 BV.Gen.Code128 BV.Spec.OneD
set_option maxRecDepth 100000

/-- the alphabet of Code 128 in this library: ASCII and the four FNC placeholders -/
def InAlpha (r : Nat) : Prop := r < 128 ∨ (0xF1 ≤ r ∧ r ≤ 0xF4)
instance (r : Nat) : Decidable (InAlpha r) := by unfold InAlpha; infer_instance

def fncs : List Nat := [241, 242, 243, 244]

theorem mem_of_containsRune {t : Bytes} {r : Nat} (h : containsRune t r = true) : r ∈ runeList t := by
  unfold containsRune at h
  rw [List.any_eq_true] at h
  obtain ⟨p, hp, hr⟩ := h
  unfold runeList
  exact List.mem_map.2 ⟨p, hp, by simpa using hr⟩

theorem mem_of_tableContainsRune {t : Bytes} {r : Nat} (h : tableContainsRune t r = true) :
    r ∈ runeList t ++ fncs := by
  unfold tableContainsRune at h
  simp only [Bool.or_eq_true, beq_iff_eq] at h
  rw [List.mem_append]
  rcases h with (((h | h) | h) | h) | h
  · exact Or.inl (mem_of_containsRune h)
  all_goals (right; subst h; decide)

/-- rune of a data symbol value in code set A / B (non-switching values only) -/
def symA (v : Nat) : Option Nat :=
  if v < 64 then some (v + 32) else if v < 96 then some (v - 64) else if v = 96 then some (fnc 3)
  else if v = 97 then some (fnc 2) else if v = 101 then some (fnc 4) else if v = 102 then some (fnc 1) else none

def symB (v : Nat) : Option Nat :=
  if v < 96 then some (v + 32) else if v = 96 then some (fnc 3)
  else if v = 97 then some (fnc 2) else if v = 100 then some (fnc 4) else if v = 102 then some (fnc 1) else none

theorem interpret_A_sym {v r : Nat} (h : symA v = some r) (rest : List Nat) :
    c128Interpret .A (v :: rest) = (c128Interpret .A rest).map (r :: ·) := by
  unfold symA at h
  rw [c128Interpret]
  split_ifs at h with h1 h2 h3 h4 h5 h6 <;> simp_all <;> omega


theorem interpret_B_sym {v r : Nat} (h : symB v = some r) (rest : List Nat) :
    c128Interpret .B (v :: rest) = (c128Interpret .B rest).map (r :: ·) := by
  unfold symB at h
  rw [c128Interpret]
  split_ifs at h with h1 h2 h3 h4 h5 <;> simp_all

/-- certificate (96 + 4 entries): every rune of table A and every FNC placeholder has a non-negative set-A index
    whose symbol value decodes back to the rune -/
theorem certA : ∀ r ∈ runeList c_aTable ++ fncs,
    ¬ idxA r < 0 ∧ ((idxA r).emod 256).toNat < 103 ∧ symA ((idxA r).emod 256).toNat = some r := by
  decide +kernel

theorem certB : ∀ r ∈ runeList c_bTable ++ fncs,
    ¬ idxB r < 0 ∧ ((idxB r).emod 256).toNat < 103 ∧ symB ((idxB r).emod 256).toNat = some r := by
  decide +kernel

/-- certificate: every rune of the alphabet is encodable in set A or in set B -/
theorem certAB : ∀ r < 245, InAlpha r → tableContainsRune c_bTable r = true ∨ tableContainsRune c_aTable r = true := by
  decide +kernel

theorem certSub : ∀ r ∈ runeList c_abTable ++ runeList c_aOnlyTable ++ fncs, tableContainsRune c_aTable r = true := by
  decide +kernel


/-! ### the two facts needed from the look-ahead heuristics -/

theorem useC_go_unfold (next : List Nat) (f i req : Nat) :
    shouldUseCTable.go next (f + 1) i req =
      if i < req then
        if (i % 2 == 0 && next.getD i 0 == fnc1) = true then
          if next.length < req + 1 then false else shouldUseCTable.go next f (i + 1) (req + 1)
        else if (!isDigit (next.getD i 0)) = true then false
        else shouldUseCTable.go next f (i + 1) req
      else true := by
  rw [shouldUseCTable.go]

theorem useC_go_spec (next : List Nat) (f req : Nat) (hreq : 2 ≤ req)
    (h : shouldUseCTable.go next (f + 2) 0 req = true) :
    next.getD 0 0 = fnc1 ∨ (isDigit (next.getD 0 0) = true ∧ isDigit (next.getD 1 0) = true) := by
  rw [useC_go_unfold, if_pos (by omega)] at h
  by_cases h0 : next.getD 0 0 = fnc1
  · exact Or.inl h0
  · right
    have h0' : (0 % 2 == 0 && next.getD 0 0 == fnc1) = false := by
      rw [Bool.and_eq_false_iff]; right; exact beq_false_of_ne h0
    rw [h0', if_neg (by simp)] at h
    cases hd0 : isDigit (next.getD 0 0) with
    | false => rw [hd0] at h; simp at h
    | true =>
      rw [hd0, if_neg (by simp), useC_go_unfold, if_pos (by omega)] at h
      have h1' : ((0 + 1) % 2 == 0 && next.getD (0 + 1) 0 == fnc1) = false := by
        rw [Bool.and_eq_false_iff]; left; rfl
      rw [h1', if_neg (by simp)] at h
      cases hd1 : isDigit (next.getD (0 + 1) 0) with
      | false => rw [hd1] at h; simp at h
      | true => exact ⟨hd0.symm ▸ rfl, rfl⟩

/-- `shouldUseCTable` only answers yes in front of FNC1 or of two digits -/
theorem useC_spec (r : Nat) (tail : List Nat) (cur : Nat) (h : shouldUseCTable (r :: tail) cur = true) :
    r = fnc1 ∨ (isDigit r = true ∧ ∃ r2 tail', tail = r2 :: tail' ∧ isDigit r2 = true) := by
  unfold shouldUseCTable at h
  simp only at h
  generalize hreqd : (if (cur == c_startCSymbol) = true then 2 else 4) = req at h
  have hreq : 2 ≤ req := by rw [← hreqd]; split <;> omega
  by_cases hlen : (r :: tail).length < req
  · rw [if_pos hlen] at h; exact absurd h (by simp)
  · rw [if_neg hlen] at h
    have hl2 : 2 ≤ (r :: tail).length := by omega
    have := useC_go_spec (r :: tail) ((r :: tail).length + 3) _ hreq h
    rcases this with h0 | ⟨h0, h1⟩
    · exact Or.inl (by simpa using h0)
    · right
      refine ⟨by simpa using h0, ?_⟩
      cases tail with
      | nil => simp at hl2
      | cons r2 t => exact ⟨r2, t, rfl, by simpa using h1⟩

theorem scan_head (r : Nat) (tail : List Nat) (h : shouldUseATable.scan (r :: tail) = true) :
    tableContainsRune c_aTable r = true := by
  unfold shouldUseATable.scan at h
  apply certSub
  simp only [List.mem_append]
  by_cases h1 : tableContainsRune c_abTable r = true
  · have := mem_of_tableContainsRune h1
    rw [List.mem_append] at this
    rcases this with h | h
    · exact Or.inl (Or.inl h)
    · exact Or.inr h
  · rw [if_neg h1] at h
    by_cases h2 : containsRune c_aOnlyTable r = true
    · exact Or.inl (Or.inr (mem_of_containsRune h2))
    · rw [if_neg h2] at h; exact absurd h (by simp)

theorem useA_unfold (r : Nat) (tail : List Nat) (cur : Nat) :
    shouldUseATable (r :: tail) cur =
      if (!tableContainsRune c_bTable r || cur == c_startASymbol) = true then tableContainsRune c_aTable r
      else if (cur == 0) = true then shouldUseATable.scan (r :: tail) else false := rfl

/-- `shouldUseATable` only answers yes when the rune is encodable in set A -/
theorem useA_spec (r : Nat) (tail : List Nat) (cur : Nat) (h : shouldUseATable (r :: tail) cur = true) :
    tableContainsRune c_aTable r = true := by
  rw [useA_unfold] at h
  by_cases h1 : (!tableContainsRune c_bTable r || cur == c_startASymbol) = true
  · rw [if_pos h1] at h; exact h
  · rw [if_neg h1] at h
    by_cases h2 : (cur == 0) = true
    · rw [if_pos h2] at h; exact scan_head r tail h
    · rw [if_neg h2] at h; exact absurd h (by simp)

/-- … and answers yes for every rune of the alphabet that set B cannot encode -/
theorem notA_spec (r : Nat) (tail : List Nat) (cur : Nat) (ha : InAlpha r)
    (h : shouldUseATable (r :: tail) cur = false) : tableContainsRune c_bTable r = true := by
  by_cases hb : tableContainsRune c_bTable r = true
  · exact hb
  · exfalso
    rw [useA_unfold] at h
    have hb' : tableContainsRune c_bTable r = false := by simpa using hb
    rw [hb', if_pos (by simp)] at h
    have hr : r < 245 := by unfold InAlpha at ha; omega
    rcases certAB r hr ha with h1 | h1
    · exact hb h1
    · rw [h1] at h; exact absurd h (by simp)


/-! ### the encoder loop -/

def setOf (cur : Nat) : CodeSet := if cur = 103 then .A else if cur = 104 then .B else .C
def codeSym (tgt : Nat) : Nat := if tgt = 103 then 101 else if tgt = 104 then 100 else 99

theorem go_unfold (fuel r : Nat) (tail : List Nat) (cur : Nat) (acc : List Nat) :
    getCodeIndexList.go (fuel + 1) (r :: tail) cur acc =
      if shouldUseCTable (r :: tail) cur = true then
        if (r == fnc1) = true then
          getCodeIndexList.go fuel tail c_startCSymbol
            (acc ++ switchTo cur c_startCSymbol c_startCSymbol c_codeCSymbol ++ [102])
        else
          getCodeIndexList.go fuel (tail.drop 1) c_startCSymbol
            (acc ++ switchTo cur c_startCSymbol c_startCSymbol c_codeCSymbol ++
              [((((r : Int) - 48) * 10 + (((tail.headD 0 : Nat) : Int) - 48)).emod 256).toNat])
      else if shouldUseATable (r :: tail) cur = true then
        if idxA r < 0 then none
        else getCodeIndexList.go fuel tail c_startASymbol
          (acc ++ switchTo cur c_startASymbol c_startASymbol c_codeASymbol ++ [((idxA r).emod 256).toNat])
      else
        if idxB r < 0 then none
        else getCodeIndexList.go fuel tail c_startBSymbol
          (acc ++ switchTo cur c_startBSymbol c_startBSymbol c_codeBSymbol ++ [((idxB r).emod 256).toNat]) := by
  rw [getCodeIndexList.go]

theorem interpret_C_fnc1 (rest : List Nat) :
    c128Interpret .C (102 :: rest) = (c128Interpret .C rest).map (fnc1 :: ·) := by
  rw [c128Interpret]; simp [fnc, fnc1, c_FNC1]

theorem digit_pair_val (r r2 : Nat) (h1 : isDigit r = true) (h2 : isDigit r2 = true) :
    ((((r : Int) - 48) * 10 + ((r2 : Int) - 48)).emod 256).toNat = (r - 48) * 10 + (r2 - 48) ∧
    (r - 48) * 10 + (r2 - 48) < 100 ∧ 48 ≤ r ∧ 48 ≤ r2 ∧ r ≤ 57 ∧ r2 ≤ 57 := by
  unfold isDigit at h1 h2
  simp only [Bool.and_eq_true, decide_eq_true_eq] at h1 h2
  refine ⟨?_, by omega, by omega, by omega, by omega, by omega⟩
  show ((((r : Int) - 48) * 10 + ((r2 : Int) - 48)) % 256).toNat = _
  omega

theorem interpret_C_digits (r r2 : Nat) (h1 : isDigit r = true) (h2 : isDigit r2 = true) (rest : List Nat) :
    c128Interpret .C (((((r : Int) - 48) * 10 + ((r2 : Int) - 48)).emod 256).toNat :: rest) =
      (c128Interpret .C rest).map (fun l => r :: r2 :: l) := by
  obtain ⟨hv, hlt, hr, hr2, hr', hr2'⟩ := digit_pair_val r r2 h1 h2
  rw [hv, c128Interpret, if_pos hlt]
  have e1 : 48 + ((r - 48) * 10 + (r2 - 48)) / 10 = r := by omega
  have e2 : 48 + ((r - 48) * 10 + (r2 - 48)) % 10 = r2 := by omega
  rw [e1, e2]

/-- one iteration of the loop: it consumes `k ∈ {1, 2}` runes, emits an optional start/switch symbol and one data
    symbol `v < 103`, and the reference interpreter reads `v` in the new code set as exactly the consumed runes -/
theorem go_step (fuel r : Nat) (tail : List Nat) (cur : Nat) (acc : List Nat) (ha : InAlpha r) :
    ∃ tgt v k, (tgt = 103 ∨ tgt = 104 ∨ tgt = 105) ∧ v < 103 ∧ 1 ≤ k ∧ k ≤ (r :: tail).length ∧
      getCodeIndexList.go (fuel + 1) (r :: tail) cur acc =
        getCodeIndexList.go fuel ((r :: tail).drop k) tgt (acc ++ switchTo cur tgt tgt (codeSym tgt) ++ [v]) ∧
      (∀ out, c128Interpret (setOf tgt) (v :: out) =
        (c128Interpret (setOf tgt) out).map ((r :: tail).take k ++ ·)) ∧
      ∀ x ∈ (r :: tail).take k, InAlpha x := by
  have ha1 : ∀ x ∈ (r :: tail).take 1, InAlpha x := by simpa using ha
  rw [go_unfold]
  by_cases hC : shouldUseCTable (r :: tail) cur = true
  · rw [if_pos hC]
    rcases useC_spec r tail cur hC with h1 | ⟨hd, r2, tail', rfl, hd2⟩
    · subst h1
      refine ⟨105, 102, 1, by simp, by omega, by omega, by simp, ?_, ?_, ha1⟩
      · simp [codeSym, c_startCSymbol, c_codeCSymbol]
      · intro out; simpa [setOf] using interpret_C_fnc1 out
    · have hne : (r == fnc1) = false := by
        unfold isDigit at hd; simp only [Bool.and_eq_true, decide_eq_true_eq] at hd
        simp [fnc1, c_FNC1]; omega
      rw [hne, if_neg (by simp)]
      refine ⟨105, (((((r : Int) - 48) * 10 + ((r2 : Int) - 48)).emod 256).toNat), 2, by simp, ?_, by omega,
        by simp, ?_, ?_, ?_⟩
      · have := digit_pair_val r r2 hd hd2
        omega
      · simp [codeSym, c_startCSymbol, c_codeCSymbol]
      · intro out; simpa [setOf] using interpret_C_digits r r2 hd hd2 out
      · have := digit_pair_val r r2 hd hd2
        intro x hx
        simp only [List.take_succ_cons, List.take_zero, List.mem_cons, List.not_mem_nil, or_false] at hx
        unfold InAlpha
        rcases hx with rfl | rfl <;> omega
  · rw [if_neg hC]
    by_cases hA : shouldUseATable (r :: tail) cur = true
    · rw [if_pos hA]
      have hm := mem_of_tableContainsRune (useA_spec r tail cur hA)
      obtain ⟨c1, c2, c3⟩ := certA r hm
      rw [if_neg c1]
      refine ⟨103, ((idxA r).emod 256).toNat, 1, by simp, c2, by omega, by simp, ?_, ?_, ha1⟩
      · simp [codeSym, c_startASymbol, c_codeASymbol]
      · intro out; simpa [setOf] using interpret_A_sym c3 out
    · rw [if_neg hA]
      have hm := mem_of_tableContainsRune (notA_spec r tail cur ha (by simpa using hA))
      obtain ⟨c1, c2, c3⟩ := certB r hm
      rw [if_neg c1]
      refine ⟨104, ((idxB r).emod 256).toNat, 1, by simp, c2, by omega, by simp, ?_, ?_, ha1⟩
      · simp [codeSym, c_startBSymbol, c_codeBSymbol]
      · intro out; simpa [setOf] using interpret_B_sym c3 out


theorem go_nil (fuel cur : Nat) (acc : List Nat) : getCodeIndexList.go fuel [] cur acc = some acc := by
  cases fuel <;> rw [getCodeIndexList.go]

/-- a code-set switch symbol moves the reference interpreter into the target set -/
theorem interpret_switch (cur tgt : Nat) (hc : cur = 103 ∨ cur = 104 ∨ cur = 105)
    (ht : tgt = 103 ∨ tgt = 104 ∨ tgt = 105) (l : List Nat) :
    c128Interpret (setOf cur) (switchTo cur tgt tgt (codeSym tgt) ++ l) = c128Interpret (setOf tgt) l ∧
    ∀ v ∈ switchTo cur tgt tgt (codeSym tgt), v < 103 := by
  rcases hc with rfl | rfl | rfl <;> rcases ht with rfl | rfl | rfl <;>
    simp [setOf, switchTo, codeSym, c128Interpret]

/-- invariant of the loop: started in code set `cur` with `rest` to go, it appends symbols `out < 103` which the
    reference interpreter, in set `cur`, reads as exactly `rest`.  Fuel `≥ rest.length` suffices. -/
theorem go_spec (fuel : Nat) : ∀ (rest : List Nat) (cur : Nat) (acc : List Nat), rest.length ≤ fuel →
    (∀ r ∈ rest, InAlpha r) → (cur = 103 ∨ cur = 104 ∨ cur = 105) →
    ∃ out, getCodeIndexList.go fuel rest cur acc = some (acc ++ out) ∧ (∀ v ∈ out, v < 103) ∧
      c128Interpret (setOf cur) out = some rest := by
  induction fuel with
  | zero =>
    intro rest cur acc hl _ _
    have : rest = [] := List.length_eq_zero_iff.1 (by omega)
    subst this
    exact ⟨[], by simp [go_nil], by simp, by cases h : setOf cur <;> simp [c128Interpret]⟩
  | succ fuel ih =>
    intro rest cur acc hl ha hc
    cases rest with
    | nil => exact ⟨[], by simp [go_nil], by simp, by cases h : setOf cur <;> simp [c128Interpret]⟩
    | cons r tail =>
      obtain ⟨tgt, v, k, ht, hv, hk1, hk2, hgo, hint, _⟩ :=
        go_step fuel r tail cur acc (ha r (by simp))
      obtain ⟨out', hgo', hlt', hint'⟩ := ih ((r :: tail).drop k) tgt
        (acc ++ switchTo cur tgt tgt (codeSym tgt) ++ [v])
        (by rw [List.length_drop]; simp only [List.length_cons] at hl hk2 ⊢; omega)
        (fun x hx => ha x (List.mem_of_mem_drop hx)) ht
      obtain ⟨hsw, hswlt⟩ := interpret_switch cur tgt hc ht (v :: out')
      refine ⟨switchTo cur tgt tgt (codeSym tgt) ++ v :: out', ?_, ?_, ?_⟩
      · rw [hgo, hgo']; simp
      · intro x hx
        rw [List.mem_append, List.mem_cons] at hx
        rcases hx with hx | rfl | hx
        · exact hswlt x hx
        · exact hv
        · exact hlt' x hx
      · rw [hsw, hint, hint']; simp

/-- C05 at symbol level -/
theorem symbols_spec (rs : List Nat) (hne : rs ≠ []) (ha : ∀ r ∈ rs, InAlpha r) :
    ∃ start data, getCodeIndexList rs = some (start :: data) ∧ (start = 103 ∨ start = 104 ∨ start = 105) ∧
      (∀ v ∈ data, v < 103) ∧ c128Interpret (setOf start) data = some rs := by
  cases rs with
  | nil => exact absurd rfl hne
  | cons r tail =>
    unfold getCodeIndexList
    obtain ⟨tgt, v, k, ht, hv, hk1, hk2, hgo, hint, _⟩ := go_step (r :: tail).length r tail 0 [] (ha r (by simp))
    obtain ⟨out', hgo', hlt', hint'⟩ := go_spec (r :: tail).length ((r :: tail).drop k) tgt
        ([] ++ switchTo 0 tgt tgt (codeSym tgt) ++ [v])
        (by rw [List.length_drop]; omega)
        (fun x hx => ha x (List.mem_of_mem_drop hx)) ht
    have hsw : switchTo 0 tgt tgt (codeSym tgt) = [tgt] := by
      rcases ht with rfl | rfl | rfl <;> simp [switchTo]
    refine ⟨tgt, v :: out', ?_, ht, ?_, ?_⟩
    · rw [hgo, hgo', hsw]; simp
    · intro x hx
      rcases List.mem_cons.1 hx with rfl | hx
      · exact hv
      · exact hlt' x hx
    · rw [hint, hint']; simp


/-! ### rejection -/

theorem indexRune_not_mem {t : Bytes} {r : Nat} (h : r ∉ runeList t) : indexRune t r = -1 := by
  unfold indexRune
  have : (runes t).find? (fun p => p.2 = r) = none := by
    rw [List.find?_eq_none]
    intro p hp hr
    exact h (List.mem_map.2 ⟨p, hp, by simpa using hr⟩)
  rw [this]

/-- certificate: the tables contain nothing outside the alphabet -/
theorem certAlpha : ∀ r ∈ runeList c_aTable ++ runeList c_bTable ++ fncs, InAlpha r := by decide +kernel

theorem go_reject (fuel : Nat) : ∀ (rest : List Nat) (cur : Nat) (acc : List Nat), rest.length ≤ fuel →
    (∃ r ∈ rest, ¬ InAlpha r) → getCodeIndexList.go fuel rest cur acc = none := by
  induction fuel with
  | zero =>
    intro rest cur acc hl hb
    have : rest = [] := List.length_eq_zero_iff.1 (by omega)
    subst this
    obtain ⟨r, hr, _⟩ := hb
    exact absurd hr (by simp)
  | succ fuel ih =>
    intro rest cur acc hl hb
    cases rest with
    | nil => obtain ⟨r, hr, _⟩ := hb; exact absurd hr (by simp)
    | cons r tail =>
      by_cases ha : InAlpha r
      · obtain ⟨tgt, v, k, ht, hv, hk1, hk2, hgo, hint, hal⟩ := go_step fuel r tail cur acc ha
        rw [hgo]
        apply ih
        · rw [List.length_drop]; simp only [List.length_cons] at hl hk2 ⊢; omega
        · obtain ⟨x, hx, hxb⟩ := hb
          refine ⟨x, ?_, hxb⟩
          rw [← List.take_append_drop k (r :: tail), List.mem_append] at hx
          rcases hx with hx | hx
          · exact absurd (hal x hx) hxb
          · exact hx
      · rw [go_unfold]
        have hC : ¬ shouldUseCTable (r :: tail) cur = true := by
          intro hC
          rcases useC_spec r tail cur hC with h1 | ⟨hd, _⟩
          · apply ha; subst h1; decide
          · have := digit_pair_val r r hd hd
            apply ha; unfold InAlpha; omega
        have hA : ¬ shouldUseATable (r :: tail) cur = true := by
          intro hA
          have hm := mem_of_tableContainsRune (useA_spec r tail cur hA)
          apply ha; apply certAlpha
          simp only [List.mem_append] at hm ⊢
          rcases hm with hm | hm
          · exact Or.inl (Or.inl hm)
          · exact Or.inr hm
        rw [if_neg hC, if_neg hA]
        have hidx : idxB r < 0 := by
          have hnf : ∀ x ∈ fncs, r ≠ x := by
            intro x hx hrx
            apply ha; apply certAlpha; rw [hrx]
            exact List.mem_append_right _ hx
          have hnm : r ∉ runeList c_bTable := by
            intro hm
            apply ha; apply certAlpha
            exact List.mem_append_left _ (List.mem_append_right _ hm)
          unfold idxB
          have e1 : (r == fnc1) = false := beq_false_of_ne (hnf 241 (by decide))
          have e2 : (r == fnc2) = false := beq_false_of_ne (hnf 242 (by decide))
          have e3 : (r == fnc3) = false := beq_false_of_ne (hnf 243 (by decide))
          have e4 : (r == fnc4) = false := beq_false_of_ne (hnf 244 (by decide))
          rw [e1, e2, e3, e4]
          simp only [Bool.false_eq_true, if_false]
          rw [indexRune_not_mem hnm]
          decide
        rw [if_pos hidx]

/-- a rune outside the alphabet makes `getCodeIndexList` return nil -/
theorem symbols_reject (rs : List Nat) (hb : ∃ r ∈ rs, ¬ InAlpha r) : getCodeIndexList rs = none := by
  unfold getCodeIndexList
  exact go_reject _ rs 0 [] (by omega) hb

end BV.Proofs.Code128
