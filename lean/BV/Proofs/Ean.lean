/-
  BV.Proofs.Ean — lemmas for C06: the EAN-8/13 encoder model against `Spec.OneD.eanDecode` / `gs1Check`.
-/
import BV.Model.Ean
import BV.Proofs.OneD
namespace BV.Proofs.Ean
open BV BV.Model BV.Model.Ean BV.Spec.OneD BV.Proofs.Ascii BV.Proofs.OneD

/-! ### table certificates (finite, by `decide`) -/

def L (d : Nat) : List Bool := eanL.getD d []
def G (d : Nat) : List Bool := eanG.getD d []
def R (d : Nat) : List Bool := eanR.getD d []
def P (d : Nat) : List Bool := eanParity.getD d []

/-- certificate: the generated table maps exactly '0'..'9', in this order -/
theorem table_keys : table.map (·.1) = [48, 49, 50, 51, 52, 53, 54, 55, 56, 57] := by decide

/-- certificate: entry of digit `d` = (L, G, R, parity row) of the standard -/
theorem table_digit : ∀ d : Fin 10,
    mapGet table ((48 + d.val : Nat) : Int) = some (L d.val, G d.val, R d.val, P d.val) := by decide

theorem mapGet_digit (r : Nat) (h1 : 48 ≤ r) (h2 : r ≤ 57) :
    mapGet table (r : Int) = some (L (r - 48), G (r - 48), R (r - 48), P (r - 48)) := by
  have := table_digit ⟨r - 48, by omega⟩
  simp only at this
  rwa [show 48 + (r - 48) = r by omega] at this

theorem mapGet_byte (b : UInt8) (h : isDigitByte b = true) :
    mapGet table (b.toNat : Int) = some (L (b.toNat - 48), G (b.toNat - 48), R (b.toNat - 48), P (b.toNat - 48)) := by
  rw [isDigitByte_iff] at h
  exact mapGet_digit _ h.1 h.2

theorem mapGet_nondigit (r : Nat) (h : ¬ (48 ≤ r ∧ r ≤ 57)) : mapGet table (r : Int) = none := by
  unfold mapGet
  rw [List.lookup_eq_none_iff]
  intro p hp
  have : p.1 ∈ table.map (·.1) := List.mem_map_of_mem hp
  rw [table_keys] at this
  simp only [List.mem_cons, List.not_mem_nil, or_false] at this
  simp only [bne_iff_ne, ne_eq]
  omega

/-- certificate: every pattern has 7 modules, parity rows have 6 entries; patterns decode to their digit -/
theorem pattern_facts : ∀ d : Fin 10,
    (L d.val).length = 7 ∧ (G d.val).length = 7 ∧ (R d.val).length = 7 ∧ (P d.val).length = 6 ∧
    findDigit eanL (L d.val) = some d.val ∧ findDigit eanL (G d.val) = none ∧
    findDigit eanG (G d.val) = some d.val ∧ findDigit eanR (R d.val) = some d.val ∧
    eanParity.findIdx? (· == P d.val) = some d.val := by decide

theorem L_length (d : Nat) (h : d < 10) : (L d).length = 7 := (pattern_facts ⟨d, h⟩).1
theorem G_length (d : Nat) (h : d < 10) : (G d).length = 7 := (pattern_facts ⟨d, h⟩).2.1
theorem R_length (d : Nat) (h : d < 10) : (R d).length = 7 := (pattern_facts ⟨d, h⟩).2.2.1
theorem P_length (d : Nat) (h : d < 10) : (P d).length = 6 := (pattern_facts ⟨d, h⟩).2.2.2.1

attribute [irreducible] L G R P

/-! ### the check digit -/

theorem calcCheckNum_go_digits (bs : Bytes) (hd : AllDigits bs) (off : Nat) (x3 : Bool) (sum : Int) :
    calcCheckNum.go (asciiRunes off bs) x3 sum =
      intToRune ((10 - (sum + (altB (digitsOf bs) x3 : Nat)).tmod 10).tmod 10) := by
  induction bs generalizing off x3 sum with
  | nil => simp [asciiRunes, calcCheckNum.go, digitsOf, altB]
  | cons b bs ih =>
    obtain ⟨hb, hbs⟩ := hd.cons
    have hlt := digitsOf_lt hd (b.toNat - 48) (by simp [digitsOf])
    simp only [asciiRunes, calcCheckNum.go, runeToInt_digit b hb]
    have h1 : ¬ (((b.toNat - 48 : Nat) : Int) < 0 ∨ ((b.toNat - 48 : Nat) : Int) > 9) := by omega
    simp only [h1, if_false]
    rw [ih hbs]
    have key : (sum + if x3 = true then ((b.toNat - 48 : Nat) : Int) * 3 else ((b.toNat - 48 : Nat) : Int)) +
        ((altB (digitsOf bs) (!x3) : Nat) : Int) = sum + ((altB (digitsOf (b :: bs)) x3 : Nat) : Int) := by
      simp only [digitsOf, List.map_cons, altB]
      cases x3 <;> simp <;> omega
    rw [key]

/-- `calcCheckNum` of 7 or 12 digits is the ASCII digit of the GS1 check digit -/
theorem calcCheckNum_digits (bs : Bytes) (hd : AllDigits bs) (hl : bs.length = 7 ∨ bs.length = 12) :
    calcCheckNum bs = 48 + gs1Check (digitsOf bs) := by
  unfold calcCheckNum
  rw [runes_ascii _ hd.ascii, calcCheckNum_go_digits bs hd]
  have hw : wt ((bs.length == 7) ^^ ((digitsOf bs).length % 2 == 0)) = 3 := by
    rcases hl with hl | hl <;> simp [hl, digitsOf, wt]
  rw [altB_eq_alt_reverse, hw]
  simp only [Int.zero_add, intToRune_check, gs1Check, gs1_go_eq, Nat.zero_add]

theorem gs1Check_lt (ds : List Nat) : gs1Check ds < 10 := by
  unfold gs1Check; omega

/-- a non-digit rune met after a digit prefix: `calcCheckNum` still returns some ASCII rune (the value is irrelevant) -/
theorem calcCheckNum_go_lt (rs : List (Nat × Nat)) (x3 : Bool) (sum : Int) : calcCheckNum.go rs x3 sum < 128 := by
  induction rs generalizing x3 sum with
  | nil =>
    simp only [calcCheckNum.go, intToRune]
    split <;> omega
  | cons p rs ih =>
    obtain ⟨o, r⟩ := p
    simp only [calcCheckNum.go]
    split
    · omega
    · exact ih _ _

theorem calcCheckNum_lt (bs : Bytes) : calcCheckNum bs < 128 := calcCheckNum_go_lt _ _ _

/-! ### the symbols -/

def guardN : List Bool := [true, false, true]
def guardC : List Bool := [false, true, false, true, false]

/-- EAN-8 symbol of 8 digits -/
def sym8 (ds : List Nat) : List Bool :=
  guardN ++ ((ds.take 4).map L).flatten ++ guardC ++ ((ds.drop 4).map R).flatten ++ guardN

/-- the six left patterns of an EAN-13 symbol: set G where the parity row of the first digit says so -/
def left13 (par : List Bool) (ds : List Nat) : List (List Bool) :=
  List.zipWith (fun p d => if p then G d else L d) par ds

/-- EAN-13 symbol of 13 digits -/
def sym13 (ds : List Nat) : List Bool :=
  guardN ++ (left13 (P (ds.headD 0)) ((ds.drop 1).take 6)).flatten ++ guardC ++ ((ds.drop 7).map R).flatten ++ guardN

theorem go8_left (cpos : Nat) (h : cpos < 4) (b : UInt8) (hb : isDigitByte b = true) (rest : List (Nat × Nat))
    (acc : List Bool) :
    encodeEAN8.go ((cpos, b.toNat) :: rest) acc = encodeEAN8.go rest (acc ++ L (b.toNat - 48)) := by
  have h4 : ¬ (cpos == 4) = true := by simp; omega
  simp only [encodeEAN8.go, mapGet_byte b hb, h, h4, if_true]
  rfl

theorem go8_mid (b : UInt8) (hb : isDigitByte b = true) (rest : List (Nat × Nat)) (acc : List Bool) :
    encodeEAN8.go ((4, b.toNat) :: rest) acc = encodeEAN8.go rest (acc ++ guardC ++ R (b.toNat - 48)) := by
  simp only [encodeEAN8.go, mapGet_byte b hb]
  rfl

theorem go8_right (cpos : Nat) (h : 4 < cpos) (b : UInt8) (hb : isDigitByte b = true) (rest : List (Nat × Nat))
    (acc : List Bool) :
    encodeEAN8.go ((cpos, b.toNat) :: rest) acc = encodeEAN8.go rest (acc ++ R (b.toNat - 48)) := by
  have h4 : ¬ (cpos == 4) = true := by simp; omega
  have h5 : ¬ cpos < 4 := by omega
  simp only [encodeEAN8.go, mapGet_byte b hb, h5, h4, if_false]
  rfl

theorem encodeEAN8_digits (code : Bytes) (hl : code.length = 8) (hd : AllDigits code) :
    encodeEAN8 code = some (sym8 (digitsOf code)) := by
  match code, hl with
  | [b0, b1, b2, b3, b4, b5, b6, b7], _ =>
    have h0 := hd b0 (by simp); have h1 := hd b1 (by simp); have h2 := hd b2 (by simp)
    have h3 := hd b3 (by simp); have h4 := hd b4 (by simp); have h5 := hd b5 (by simp)
    have h6 := hd b6 (by simp); have h7 := hd b7 (by simp)
    rw [encodeEAN8, runes_ascii _ hd.ascii]
    simp only [asciiRunes, Nat.zero_add, Nat.reduceAdd]
    rw [go8_left 0 (by omega) _ h0, go8_left 1 (by omega) _ h1, go8_left 2 (by omega) _ h2,
      go8_left 3 (by omega) _ h3, go8_mid _ h4, go8_right 5 (by omega) _ h5, go8_right 6 (by omega) _ h6,
      go8_right 7 (by omega) _ h7]
    simp [encodeEAN8.go, sym8, digitsOf, guardN, guardC]

theorem go13_first (b : UInt8) (hb : isDigitByte b = true) (rest : List (Nat × Nat)) (fn acc : List Bool) :
    encodeEAN13.go ((0, b.toNat) :: rest) fn acc = encodeEAN13.go rest (P (b.toNat - 48)) acc := by
  simp only [encodeEAN13.go, mapGet_byte b hb]
  rfl

theorem go13_left (cpos : Nat) (h1 : 1 ≤ cpos) (h : cpos < 7) (b : UInt8) (hb : isDigitByte b = true)
    (rest : List (Nat × Nat)) (fn acc : List Bool) :
    encodeEAN13.go ((cpos, b.toNat) :: rest) fn acc =
      encodeEAN13.go rest fn (acc ++ (if fn.getD (cpos - 1) false then G (b.toNat - 48) else L (b.toNat - 48))) := by
  have h0 : ¬ (cpos == 0) = true := by simp; omega
  have h7 : ¬ (cpos == 7) = true := by simp; omega
  simp only [encodeEAN13.go, mapGet_byte b hb, h, h0, h7, if_true]
  rfl

theorem go13_mid (b : UInt8) (hb : isDigitByte b = true) (rest : List (Nat × Nat)) (fn acc : List Bool) :
    encodeEAN13.go ((7, b.toNat) :: rest) fn acc = encodeEAN13.go rest fn (acc ++ guardC ++ R (b.toNat - 48)) := by
  simp only [encodeEAN13.go, mapGet_byte b hb]
  rfl

theorem go13_right (cpos : Nat) (h : 7 < cpos) (b : UInt8) (hb : isDigitByte b = true) (rest : List (Nat × Nat))
    (fn acc : List Bool) :
    encodeEAN13.go ((cpos, b.toNat) :: rest) fn acc = encodeEAN13.go rest fn (acc ++ R (b.toNat - 48)) := by
  have h0 : ¬ (cpos == 0) = true := by simp; omega
  have h7 : ¬ (cpos == 7) = true := by simp; omega
  have h5 : ¬ cpos < 7 := by omega
  simp only [encodeEAN13.go, mapGet_byte b hb, h5, h0, h7, if_false]
  rfl

theorem encodeEAN13_digits (code : Bytes) (hl : code.length = 13) (hd : AllDigits code) :
    encodeEAN13 code = some (sym13 (digitsOf code)) := by
  match code, hl with
  | [b0, b1, b2, b3, b4, b5, b6, b7, b8, b9, b10, b11, b12], _ =>
    have h0 := hd b0 (by simp); have h1 := hd b1 (by simp); have h2 := hd b2 (by simp)
    have h3 := hd b3 (by simp); have h4 := hd b4 (by simp); have h5 := hd b5 (by simp)
    have h6 := hd b6 (by simp); have h7 := hd b7 (by simp); have h8 := hd b8 (by simp)
    have h9 := hd b9 (by simp); have h10 := hd b10 (by simp); have h11 := hd b11 (by simp)
    have h12 := hd b12 (by simp)
    have hp := P_length (b0.toNat - 48) (by rw [isDigitByte_iff] at h0; omega)
    rw [encodeEAN13, runes_ascii _ hd.ascii]
    simp only [asciiRunes, Nat.zero_add, Nat.reduceAdd]
    rw [go13_first _ h0, go13_left 1 (by omega) (by omega) _ h1, go13_left 2 (by omega) (by omega) _ h2,
      go13_left 3 (by omega) (by omega) _ h3, go13_left 4 (by omega) (by omega) _ h4,
      go13_left 5 (by omega) (by omega) _ h5, go13_left 6 (by omega) (by omega) _ h6,
      go13_mid _ h7, go13_right 8 (by omega) _ h8, go13_right 9 (by omega) _ h9, go13_right 10 (by omega) _ h10,
      go13_right 11 (by omega) _ h11, go13_right 12 (by omega) _ h12]
    simp only [sym13, digitsOf, List.map_cons, List.headD_cons]
    generalize P (b0.toNat - 48) = par at hp ⊢
    match par, hp with
    | [p1, p2, p3, p4, p5, p6], _ =>
      simp [encodeEAN13.go, left13, guardN, guardC]

/-! ### the reference decoder on the symbols -/

theorem drop_append_len {α} {a b : List α} {n : Nat} (h : a.length = n) (m : Nat) :
    (a ++ b).drop (n + m) = b.drop m := by
  subst h
  rw [List.drop_append]
  simp

theorem frame (g1 LL gc RR g2 : List Bool) (n : Nat) (h1 : g1.length = 3) (hL : LL.length = n)
    (hC : gc.length = 5) (hR : RR.length = n) :
    (g1 ++ LL ++ gc ++ RR ++ g2).length = 2 * n + 8 + g2.length ∧
    (g1 ++ LL ++ gc ++ RR ++ g2).take 3 = g1 ∧
    ((g1 ++ LL ++ gc ++ RR ++ g2).drop (3 + n)).take 5 = gc ∧
    (g1 ++ LL ++ gc ++ RR ++ g2).drop (3 + (n + (5 + n))) = g2 ∧
    ((g1 ++ LL ++ gc ++ RR ++ g2).drop 3).take n = LL ∧
    ((g1 ++ LL ++ gc ++ RR ++ g2).drop (3 + (n + 5))).take n = RR := by
  simp only [List.append_assoc]
  refine ⟨by simp; omega, List.take_left' h1, ?_, ?_, ?_, ?_⟩
  · rw [drop_append_len h1, List.drop_left' hL, List.take_left' hC]
  · rw [drop_append_len h1, drop_append_len hL, drop_append_len hC, List.drop_left' hR]
  · rw [List.drop_left' h1, List.take_left' hL]
  · rw [drop_append_len h1, drop_append_len hL, List.drop_left' hC, List.take_left' hR]

theorem eanDecode_sym8 (ds : List Nat) (hl : ds.length = 8) (hd : ∀ d ∈ ds, d < 10) :
    eanDecode (sym8 ds) = .ok ds := by
  have hLl : ∀ p ∈ (ds.take 4).map L, p.length = 7 := by
    intro p hp
    simp only [List.mem_map] at hp
    obtain ⟨d, hd', rfl⟩ := hp
    exact L_length d (hd d (List.mem_of_mem_take hd'))
  have hRl : ∀ p ∈ (ds.drop 4).map R, p.length = 7 := by
    intro p hp
    simp only [List.mem_map] at hp
    obtain ⟨d, hd', rfl⟩ := hp
    exact R_length d (hd d (List.mem_of_mem_drop hd'))
  have hLL : ((ds.take 4).map L).flatten.length = 28 := by
    rw [flatten_length_const 7 _ hLl]; simp [hl]
  have hRR : ((ds.drop 4).map R).flatten.length = 28 := by
    rw [flatten_length_const 7 _ hRl]; simp [hl]
  obtain ⟨f0, f1, f2, f3, f4, f5⟩ := frame guardN _ guardC _ guardN 28 rfl hLL rfl hRR
  unfold eanDecode
  unfold sym8
  simp only [f0, f1, f2, f3, f4, f5]
  have hg : ¬ (guardN ≠ [true, false, true] ∨ guardC ≠ [false, true, false, true, false] ∨
      guardN ≠ [true, false, true]) := by decide
  simp only [show 2 * 28 + 8 + guardN.length = 67 from rfl, if_true, hg, if_false]
  rw [splitEvery_flatten 7 (by omega) _ hLl, splitEvery_flatten 7 (by omega) _ hRl]
  rw [mapM_map_ok _ L id, mapM_map_ok _ R id]
  · simp only [List.map_id]
    show Except.ok (ds.take 4 ++ ds.drop 4) = _
    rw [List.take_append_drop]
  · intro d hd'
    have := (pattern_facts ⟨d, hd d (List.mem_of_mem_drop hd')⟩).2.2.2.2.2.2.2.1
    simp only at this
    simp only [this]; rfl
  · intro d hd'
    have := (pattern_facts ⟨d, hd d (List.mem_of_mem_take hd')⟩).2.2.2.2.1
    simp only at this
    simp only [this]; rfl

theorem zipWith_eq_map_zip {α β γ} (f : α → β → γ) (l1 : List α) (l2 : List β) :
    List.zipWith f l1 l2 = (l1.zip l2).map (fun p => f p.1 p.2) := by
  induction l1 generalizing l2 with
  | nil => simp
  | cons a l1 ih => cases l2 <;> simp [ih]

theorem eanDecode_sym13 (ds : List Nat) (hl : ds.length = 13) (hd : ∀ d ∈ ds, d < 10) :
    eanDecode (sym13 ds) = .ok ds := by
  match ds, hl with
  | d0 :: rest, hl =>
  have hl' : rest.length = 12 := by simpa using hl
  have hd0 : d0 < 10 := hd d0 (by simp)
  have hr : ∀ d ∈ rest, d < 10 := fun d h => hd d (by simp [h])
  have hP := P_length d0 hd0
  simp only [sym13, List.headD_cons, List.drop_succ_cons, List.drop_zero]
  have hz : ∀ pd ∈ (P d0).zip (rest.take 6), pd.2 < 10 := by
    intro pd hpd
    exact hr _ (List.mem_of_mem_take (List.of_mem_zip hpd).2)
  rw [left13, zipWith_eq_map_zip]
  have hLl : ∀ p ∈ ((P d0).zip (rest.take 6)).map (fun p => if p.1 = true then G p.2 else L p.2), p.length = 7 := by
    intro p hp
    simp only [List.mem_map] at hp
    obtain ⟨pd, hpd, rfl⟩ := hp
    have := hz pd hpd
    split
    · exact G_length _ this
    · exact L_length _ this
  have hRl : ∀ p ∈ (rest.drop 6).map R, p.length = 7 := by
    intro p hp
    simp only [List.mem_map] at hp
    obtain ⟨d, hd', rfl⟩ := hp
    exact R_length d (hr d (List.mem_of_mem_drop hd'))
  have hLL := flatten_length_const 7 _ hLl
  have hRR := flatten_length_const 7 _ hRl
  simp only [List.length_map, List.length_zip, List.length_take, List.length_drop, hl', hP] at hLL hRR
  obtain ⟨f0, f1, f2, f3, f4, f5⟩ := frame guardN _ guardC _ guardN 42 rfl hLL rfl hRR
  unfold eanDecode
  have hg : ¬ (guardN ≠ [true, false, true] ∨ guardC ≠ [false, true, false, true, false] ∨
      guardN ≠ [true, false, true]) := by decide
  simp only [f0, f1, f2, f3, f4, f5]
  simp only [show 2 * 42 + 8 + guardN.length = 95 from rfl,
    if_true, hg, if_false]
  rw [splitEvery_flatten 7 (by omega) _ hLl, splitEvery_flatten 7 (by omega) _ hRl]
  rw [mapM_map_ok _ _ (fun pd : Bool × Nat => (pd.2, pd.1)), mapM_map_ok _ R id]
  · have h1 : List.map (fun x : Nat × Bool => x.2) (((P d0).zip (rest.take 6)).map (fun pd => (pd.2, pd.1))) = P d0 := by
      rw [List.map_map]
      show List.map (fun pd : Bool × Nat => pd.1) _ = _
      exact List.map_fst_zip (by simp [hP, hl'])
    have h2 : List.map (fun x : Nat × Bool => x.1) (((P d0).zip (rest.take 6)).map (fun pd => (pd.2, pd.1))) = rest.take 6 := by
      rw [List.map_map]
      show List.map (fun pd : Bool × Nat => pd.2) _ = _
      exact List.map_snd_zip (by simp [hP, hl'])
    have h3 := (pattern_facts ⟨d0, hd0⟩).2.2.2.2.2.2.2.2
    simp only at h3
    simp only [bind, Except.bind, h1, h3, pure, Except.pure, h2, List.map_id, show ¬ ((95 : Nat) = 67) by decide,
      if_false, List.cons_append, List.take_append_drop]
  · intro d hd'
    have := (pattern_facts ⟨d, hr d (List.mem_of_mem_drop hd')⟩).2.2.2.2.2.2.2.1
    simp only at this
    simp only [this]; rfl
  · intro pd hpd
    have hlt := hz pd hpd
    have h5 := (pattern_facts ⟨pd.2, hlt⟩).2.2.2.2.1
    have h6 := (pattern_facts ⟨pd.2, hlt⟩).2.2.2.2.2.1
    have h7 := (pattern_facts ⟨pd.2, hlt⟩).2.2.2.2.2.2.1
    simp only at h5 h6 h7
    obtain ⟨p, d⟩ := pd
    cases p
    · simp only [Bool.false_eq_true, if_false, h5]; rfl
    · simp only [if_true, h6, h7]; rfl

/-! ### rejection of anything that is not a digit string -/

theorem go8_prefix (pre : Bytes) (hp : AllDigits pre) (off : Nat) (tl : List (Nat × Nat)) (acc : List Bool) :
    ∃ acc', encodeEAN8.go (asciiRunes off pre ++ tl) acc = encodeEAN8.go tl acc' := by
  induction pre generalizing off acc with
  | nil => exact ⟨acc, rfl⟩
  | cons b pre ih =>
    obtain ⟨hb, hpre⟩ := hp.cons
    simp only [asciiRunes, List.cons_append, encodeEAN8.go, mapGet_byte b hb]
    exact ih hpre _ _

theorem go13_prefix (pre : Bytes) (hp : AllDigits pre) (off : Nat) (tl : List (Nat × Nat)) (fn acc : List Bool) :
    ∃ fn' acc', encodeEAN13.go (asciiRunes off pre ++ tl) fn acc = encodeEAN13.go tl fn' acc' := by
  induction pre generalizing off fn acc with
  | nil => exact ⟨fn, acc, rfl⟩
  | cons b pre ih =>
    obtain ⟨hb, hpre⟩ := hp.cons
    simp only [asciiRunes, List.cons_append, encodeEAN13.go, mapGet_byte b hb]
    split
    · exact ih hpre _ _ _
    · exact ih hpre _ _ _

/-- the rune that `range` yields at the first non-digit byte is not in the table -/
theorem first_bad_rune (code : Bytes) (h : ¬ AllDigits code) :
    ∃ (pre : Bytes) (r : Nat) (tl : List (Nat × Nat)) (k : Nat), AllDigits pre ∧ mapGet table (r : Int) = none ∧ runes code = asciiRunes 0 pre ++ (k, r) :: tl := by
  obtain ⟨pre, b, rest, rfl, hpre, hb⟩ := split_first_bad isDigitByte code h
  obtain ⟨r, tl, hr, hrunes⟩ := runes_first_bad pre rest b (AllDigits.ascii hpre)
  refine ⟨pre, r, tl, pre.length, hpre, ?_, hrunes⟩
  apply mapGet_nondigit
  have hb' : ¬ (48 ≤ b.toNat ∧ b.toNat ≤ 57) := by
    rw [← isDigitByte_iff]; simp [hb]
  rcases hr with hr | hr
  · rw [hr]; exact hb'
  · omega

theorem encodeEAN8_bad (code : Bytes) (h : ¬ AllDigits code) : encodeEAN8 code = none := by
  obtain ⟨pre, r, tl, k, hpre, hr, hrunes⟩ := first_bad_rune code h
  unfold encodeEAN8
  rw [hrunes]
  obtain ⟨acc', h'⟩ := go8_prefix pre hpre 0 ((k, r) :: tl) [true, false, true]
  rw [h']
  simp only [encodeEAN8.go, hr]

theorem encodeEAN13_bad (code : Bytes) (h : ¬ AllDigits code) : encodeEAN13 code = none := by
  obtain ⟨pre, r, tl, k, hpre, hr, hrunes⟩ := first_bad_rune code h
  unfold encodeEAN13
  rw [hrunes]
  obtain ⟨fn', acc', h'⟩ := go13_prefix pre hpre 0 ((k, r) :: tl) [] [true, false, true]
  rw [h']
  simp only [encodeEAN13.go, hr]

/-! ### `EncodeWithColor` -/

/-- the second half of `EncodeWithColor` -/
def finish (code : Bytes) (checkSum : Int) (s : Scheme) : Res Barcode :=
  if code.length == 8 then
    match encodeEAN8 code with
    | some bits => .ok (mk1D (kindStr Gen.Root.c_TypeEAN8) code bits (some checkSum) s)
    | none => .error .rejected
  else if code.length == 13 then
    match encodeEAN13 code with
    | some bits => .ok (mk1D (kindStr Gen.Root.c_TypeEAN13) code bits (some checkSum) s)
    | none => .error .rejected
  else .error .rejected

theorem encodeWithColor_eq (code : Bytes) (s : Scheme) :
    encodeWithColor code s =
      if code.length == 7 ∨ code.length == 12 then
        finish (code ++ encodeRune (calcCheckNum code))
          (runeToInt ((code ++ encodeRune (calcCheckNum code)).getLastD 0).toNat) s
      else if code.length == 8 ∨ code.length == 13 then
        if (code.take (code.length - 1) ++ encodeRune (calcCheckNum (code.take (code.length - 1)))) != code
        then .error .rejected
        else finish code (runeToInt (code.getLastD 0).toNat) s
      else finish code 0 s := by
  unfold encodeWithColor finish
  by_cases h1 : (code.length == 7) = true ∨ (code.length == 12) = true
  · simp only [h1, if_true]
    rfl
  · by_cases h2 : (code.length == 8) = true ∨ (code.length == 13) = true
    · simp only [h1, h2, if_true, if_false]
      by_cases h3 : ((code.take (code.length - 1) ++ encodeRune (calcCheckNum (code.take (code.length - 1)))) != code)
          = true
      · simp only [h3, if_true]
      · simp only [h3]
        rfl
    · simp only [h1, h2, if_false]
      rfl

theorem finish_bad (code : Bytes) (cs : Int) (s : Scheme) (h : ¬ AllDigits code) :
    finish code cs s = .error .rejected := by
  unfold finish
  rw [encodeEAN8_bad code h, encodeEAN13_bad code h]
  split
  · rfl
  · split <;> rfl

theorem kind8 : kindStr Gen.Root.c_TypeEAN8 = "EAN 8" := by decide
theorem kind13 : kindStr Gen.Root.c_TypeEAN13 = "EAN 13" := by decide

theorem finish_8 (code : Bytes) (cs : Int) (s : Scheme) (hd : AllDigits code) (hl : code.length = 8) :
    finish code cs s = .ok (mk1D "EAN 8" code (sym8 (digitsOf code)) (some cs) s) := by
  unfold finish
  simp only [hl, beq_self_eq_true, if_true, encodeEAN8_digits code hl hd, kind8]

theorem finish_13 (code : Bytes) (cs : Int) (s : Scheme) (hd : AllDigits code) (hl : code.length = 13) :
    finish code cs s = .ok (mk1D "EAN 13" code (sym13 (digitsOf code)) (some cs) s) := by
  unfold finish
  have : ¬ ((13 : Nat) == 8) = true := by decide
  simp only [hl, this, beq_self_eq_true, if_true, encodeEAN13_digits code hl hd, kind13, Bool.false_eq_true,
    if_false]

theorem finish_other (code : Bytes) (cs : Int) (s : Scheme) (h8 : code.length ≠ 8) (h13 : code.length ≠ 13) :
    finish code cs s = .error .rejected := by
  unfold finish
  simp [h8, h13]

/-- the barcode the encoder must return for a complete (8 or 13 digit) number -/
def expected (full : Bytes) (s : Scheme) : Barcode :=
  mk1D (if full.length = 8 then "EAN 8" else "EAN 13") full
    (if full.length = 8 then sym8 (digitsOf full) else sym13 (digitsOf full))
    (some (((digitsOf full).getLastD 0 : Nat) : Int)) s

theorem encode_short (code : Bytes) (s : Scheme) (hd : AllDigits code) (hl : code.length = 7 ∨ code.length = 12) :
    encodeWithColor code s = .ok (expected (code ++ [digitByte (gs1Check (digitsOf code))]) s) := by
  rw [encodeWithColor_eq]
  have h1 : (code.length == 7) = true ∨ (code.length == 12) = true := by simpa using hl
  have hc := gs1Check_lt (digitsOf code)
  simp only [h1, if_true, calcCheckNum_digits code hd hl, encodeRune_digit _ hc]
  have hd' : AllDigits (code ++ [digitByte (gs1Check (digitsOf code))]) :=
    hd.append (by intro x hx; simp only [List.mem_singleton] at hx; rw [hx]; exact isDigitByte_digitByte _ hc)
  have hcs : runeToInt ((code ++ [digitByte (gs1Check (digitsOf code))]).getLastD 0).toNat =
      (((digitsOf (code ++ [digitByte (gs1Check (digitsOf code))])).getLastD 0 : Nat) : Int) := by
    rw [digitsOf_concat_getLastD, List.getLastD_concat, runeToInt_digitByte _ hc, digitByte_toNat _ hc]
    congr 1; omega
  rw [hcs]
  rcases hl with hl | hl
  · have hl' : (code ++ [digitByte (gs1Check (digitsOf code))]).length = 8 := by simp [hl]
    rw [finish_8 _ _ _ hd' hl', expected]
    simp only [hl', if_true]
  · have hl' : (code ++ [digitByte (gs1Check (digitsOf code))]).length = 13 := by simp [hl]
    rw [finish_13 _ _ _ hd' hl', expected]
    simp only [hl', show ¬ ((13 : Nat) = 8) by decide, if_false]

theorem encode_full (init : Bytes) (lb : UInt8) (s : Scheme) (hd : AllDigits (init ++ [lb]))
    (hl : init.length = 7 ∨ init.length = 12) :
    encodeWithColor (init ++ [lb]) s =
      if lb.toNat - 48 = gs1Check (digitsOf init) then .ok (expected (init ++ [lb]) s) else .error .rejected := by
  rw [encodeWithColor_eq]
  have hinit : AllDigits init := fun x hx => hd x (by simp [hx])
  have hlb : isDigitByte lb = true := hd lb (by simp)
  have hlb' := (isDigitByte_iff lb).1 hlb
  have h1 : ¬ (((init ++ [lb]).length == 7) = true ∨ ((init ++ [lb]).length == 12) = true) := by
    simp; omega
  have h2 : (((init ++ [lb]).length == 8) = true ∨ ((init ++ [lb]).length == 13) = true) := by
    simp; omega
  have hc := gs1Check_lt (digitsOf init)
  have htake : (init ++ [lb]).take ((init ++ [lb]).length - 1) = init := by simp
  simp only [h1, h2, if_true, if_false, htake, calcCheckNum_digits init hinit hl, encodeRune_digit _ hc]
  have hcs : runeToInt ((init ++ [lb]).getLastD 0).toNat = (((digitsOf (init ++ [lb])).getLastD 0 : Nat) : Int) := by
    rw [digitsOf_concat_getLastD, List.getLastD_concat]
    exact runeToInt_digit lb hlb
  by_cases heq : lb.toNat - 48 = gs1Check (digitsOf init)
  · have hb : lb = digitByte (gs1Check (digitsOf init)) := by
      apply UInt8.toNat_inj.1
      rw [digitByte_toNat _ hc]
      omega
    have hne : ¬ ((init ++ [digitByte (gs1Check (digitsOf init))] != init ++ [lb]) = true) := by
      rw [← hb]; simp
    simp only [hne, heq, if_true, hcs]
    rcases hl with hl | hl
    · have hl' : (init ++ [lb]).length = 8 := by simp [hl]
      rw [finish_8 _ _ _ hd hl', expected]
      simp only [hl', if_true, Bool.false_eq_true, if_false]
    · have hl' : (init ++ [lb]).length = 13 := by simp [hl]
      rw [finish_13 _ _ _ hd hl', expected]
      simp only [hl', show ¬ ((13 : Nat) = 8) by decide, if_false, Bool.false_eq_true]
  · have hne : (init ++ [digitByte (gs1Check (digitsOf init))] != init ++ [lb]) = true := by
      simp only [bne_iff_ne, ne_eq, List.append_cancel_left_eq, List.cons.injEq, and_true]
      intro hb
      apply heq
      rw [← hb, digitByte_toNat _ hc]
      omega
    simp only [hne, if_true, heq, if_false]

theorem encode_nondigit (code : Bytes) (s : Scheme) (h : ¬ AllDigits code) :
    encodeWithColor code s = .error .rejected := by
  rw [encodeWithColor_eq]
  have h' : ∀ x, ¬ AllDigits (code ++ x) := fun x hx => h (fun b hb => hx b (by simp [hb]))
  split
  · exact finish_bad _ _ _ (h' _)
  · split
    · split
      · rfl
      · exact finish_bad _ _ _ h
    · exact finish_bad _ _ _ h

theorem encode_badlen (code : Bytes) (s : Scheme)
    (h : ¬ (code.length = 7 ∨ code.length = 12 ∨ code.length = 8 ∨ code.length = 13)) :
    encodeWithColor code s = .error .rejected := by
  rw [encodeWithColor_eq]
  have h1 : ¬ ((code.length == 7) = true ∨ (code.length == 12) = true) := by simp; omega
  have h2 : ¬ ((code.length == 8) = true ∨ (code.length == 13) = true) := by simp; omega
  simp only [h1, h2, if_false]
  exact finish_other _ _ _ (by omega) (by omega)

theorem expected_decode (full : Bytes) (s : Scheme) (hd : AllDigits full) (hl : full.length = 8 ∨ full.length = 13) :
    eanDecode (expected full s).row0 = .ok (digitsOf full) := by
  rw [expected, row0_mk1D]
  rcases hl with hl | hl
  · simp only [hl, if_true]
    exact eanDecode_sym8 _ (by rw [digitsOf_length, hl]) (digitsOf_lt hd)
  · simp only [hl, show ¬ ((13 : Nat) = 8) by decide, if_false]
    exact eanDecode_sym13 _ (by rw [digitsOf_length, hl]) (digitsOf_lt hd)

theorem sym8_length (ds : List Nat) (hl : ds.length = 8) (hd : ∀ d ∈ ds, d < 10) :
    (sym8 ds).length = 67 ∧ (sym8 ds).take 3 = guardN ∧ ((sym8 ds).drop 31).take 5 = guardC ∧
      (sym8 ds).drop 64 = guardN := by
  have hLl : ∀ p ∈ (ds.take 4).map L, p.length = 7 := by
    intro p hp
    simp only [List.mem_map] at hp
    obtain ⟨d, hd', rfl⟩ := hp
    exact L_length d (hd d (List.mem_of_mem_take hd'))
  have hRl : ∀ p ∈ (ds.drop 4).map R, p.length = 7 := by
    intro p hp
    simp only [List.mem_map] at hp
    obtain ⟨d, hd', rfl⟩ := hp
    exact R_length d (hd d (List.mem_of_mem_drop hd'))
  have hLL : ((ds.take 4).map L).flatten.length = 28 := by
    rw [flatten_length_const 7 _ hLl]; simp [hl]
  have hRR : ((ds.drop 4).map R).flatten.length = 28 := by
    rw [flatten_length_const 7 _ hRl]; simp [hl]
  obtain ⟨f0, f1, f2, f3, _, _⟩ := frame guardN _ guardC _ guardN 28 rfl hLL rfl hRR
  exact ⟨f0, f1, f2, f3⟩

theorem sym13_length (ds : List Nat) (hl : ds.length = 13) (hd : ∀ d ∈ ds, d < 10) :
    (sym13 ds).length = 95 ∧ (sym13 ds).take 3 = guardN ∧ ((sym13 ds).drop 45).take 5 = guardC ∧
      (sym13 ds).drop 92 = guardN := by
  match ds, hl with
  | d0 :: rest, hl =>
  have hl' : rest.length = 12 := by simpa using hl
  have hd0 : d0 < 10 := hd d0 (by simp)
  have hr : ∀ d ∈ rest, d < 10 := fun d h => hd d (by simp [h])
  have hP := P_length d0 hd0
  simp only [sym13, List.headD_cons, List.drop_succ_cons, List.drop_zero]
  have hLl : ∀ p ∈ left13 (P d0) (rest.take 6), p.length = 7 := by
    rw [left13, zipWith_eq_map_zip]
    intro p hp
    simp only [List.mem_map] at hp
    obtain ⟨pd, hpd, rfl⟩ := hp
    have := hr _ (List.mem_of_mem_take (List.of_mem_zip hpd).2)
    split
    · exact G_length _ this
    · exact L_length _ this
  have hRl : ∀ p ∈ (rest.drop 6).map R, p.length = 7 := by
    intro p hp
    simp only [List.mem_map] at hp
    obtain ⟨d, hd', rfl⟩ := hp
    exact R_length d (hr d (List.mem_of_mem_drop hd'))
  have hLL := flatten_length_const 7 _ hLl
  have hRR := flatten_length_const 7 _ hRl
  simp only [left13, List.length_zipWith, List.length_map, List.length_take, List.length_drop, hl', hP] at hLL hRR
  obtain ⟨f0, f1, f2, f3, _, _⟩ := frame guardN _ guardC _ guardN 42 rfl hLL rfl hRR
  exact ⟨f0, f1, f2, f3⟩

/-! ### vocabulary of the property -/

/-- the inputs the EAN encoder must accept: 7 or 12 ASCII digits, or 8 or 13 ASCII digits whose last digit is the
    GS1 check digit of the others -/
def Accepts (code : Bytes) : Prop :=
  AllDigits code ∧ (code.length = 7 ∨ code.length = 12 ∨
    ((code.length = 8 ∨ code.length = 13) ∧
      (digitsOf code).getLast? = some (gs1Check (digitsOf code).dropLast)))

/-- the full number: a 7- or 12-digit input completed by its GS1 check digit -/
def completed (code : Bytes) : Bytes :=
  if code.length = 7 ∨ code.length = 12 then code ++ [digitByte (gs1Check (digitsOf code))] else code

instance (code : Bytes) : Decidable (Accepts code) := by unfold Accepts; infer_instance

theorem completed_spec (code : Bytes) (h : Accepts code) :
    AllDigits (completed code) ∧ ((completed code).length = 8 ∨ (completed code).length = 13) ∧
      (digitsOf (completed code)).getLast? = some (gs1Check (digitsOf (completed code)).dropLast) := by
  obtain ⟨hd, hl⟩ := h
  have hc := gs1Check_lt (digitsOf code)
  have hd' : AllDigits (code ++ [digitByte (gs1Check (digitsOf code))]) :=
    hd.append (by intro x hx; simp only [List.mem_singleton] at hx; rw [hx]; exact isDigitByte_digitByte _ hc)
  have hlast : (digitsOf (code ++ [digitByte (gs1Check (digitsOf code))])).getLast? =
      some (gs1Check (digitsOf (code ++ [digitByte (gs1Check (digitsOf code))])).dropLast) := by
    rw [digitsOf_append]
    generalize digitsOf code = ds at hc ⊢
    simp only [digitsOf, List.map_cons, List.map_nil, List.getLast?_concat, List.dropLast_concat, Option.some.injEq]
    rw [digitByte_toNat _ hc]
    omega
  unfold completed
  rcases hl with hl | hl | ⟨hl, hc'⟩
  · rw [if_pos (Or.inl hl)]
    exact ⟨hd', by simp [hl], hlast⟩
  · rw [if_pos (Or.inr hl)]
    exact ⟨hd', by simp [hl], hlast⟩
  · rw [if_neg (by omega)]
    exact ⟨hd, hl, hc'⟩

theorem encode_accepts (code : Bytes) (s : Scheme) (h : Accepts code) :
    encodeWithColor code s = .ok (expected (completed code) s) := by
  obtain ⟨hd, hl⟩ := h
  rcases hl with hl | hl | ⟨hl, hc⟩
  · rw [encode_short code s hd (Or.inl hl), completed]; simp [hl]
  · rw [encode_short code s hd (Or.inr hl), completed]; simp [hl]
  · have hne : code ≠ [] := by intro h0; simp [h0] at hl
    have hcode := (List.dropLast_concat_getLast hne).symm
    generalize code.dropLast = init at hcode
    generalize code.getLast hne = lb at hcode
    subst hcode
    have hl' : init.length = 7 ∨ init.length = 12 := by
      simp only [List.length_append, List.length_cons, List.length_nil] at hl; omega
    rw [encode_full init lb s hd hl']
    simp only [digitsOf] at hc
    have : completed (init ++ [lb]) = init ++ [lb] := by
      unfold completed
      simp only [List.length_append, List.length_cons, List.length_nil]
      rw [if_neg (by omega)]
    rw [this, if_pos (by simpa [digitsOf] using hc)]

theorem encode_rejects (code : Bytes) (s : Scheme) (h : ¬ Accepts code) :
    encodeWithColor code s = .error .rejected := by
  by_cases hd : AllDigits code
  · by_cases hl : code.length = 7 ∨ code.length = 12 ∨ code.length = 8 ∨ code.length = 13
    · rcases hl with hl | hl | hl
      · exact absurd ⟨hd, Or.inl hl⟩ h
      · exact absurd ⟨hd, Or.inr (Or.inl hl)⟩ h
      · have hne : code ≠ [] := by intro h0; simp [h0] at hl
        have hcode := (List.dropLast_concat_getLast hne).symm
        generalize code.dropLast = init at hcode
        generalize code.getLast hne = lb at hcode
        subst hcode
        have hl' : init.length = 7 ∨ init.length = 12 := by
          simp only [List.length_append, List.length_cons, List.length_nil] at hl; omega
        rw [encode_full init lb s hd hl']
        have hc : ¬ (lb.toNat - 48 = gs1Check (digitsOf init)) := by
          intro hc
          apply h
          refine ⟨hd, Or.inr (Or.inr ⟨hl, ?_⟩)⟩
          simp only [digitsOf]
          simpa [digitsOf] using hc
        rw [if_neg hc]
    · exact encode_badlen code s hl
  · exact encode_nondigit code s hd

end BV.Proofs.Ean
