/-
  BV.Proofs.AztecStream — the reference parser `Spec.Aztec.parse` on the code sequences the Aztec high-level
  encoder emits: characters, latch sequences, shift + character, binary-shift runs; table certificates.
-/
import BV.Proofs.AztecBits
namespace BV.Proofs.AztecStream
open BV BV.Model.Aztec BV.Proofs.Bits BV.Proofs.AztecBits
open BV.Spec.Aztec (Mode Act parse table codeBits takeBytes byte)

/-- the reference decoder's mode for the model's mode number -/
def modeOf : Nat → Mode
  | 0 => .upper
  | 1 => .lower
  | 2 => .digit
  | 3 => .mixed
  | _ => .punct

/-- "what is left is padding": fewer than `ws` bits, all ones — where the parser stops -/
def IsPad (ws : Nat) (bs : List Bool) : Prop := bs.length < ws ∧ bs.all id = true

/-- bits that can never be taken for padding, whatever follows -/
def NonPad (ws : Nat) (b : List Bool) : Prop := ∀ rest, ¬ IsPad ws (b ++ rest)

theorem not_isPad_append {ws : Nat} (b rest : List Bool) (h : ¬ IsPad ws rest) : ¬ IsPad ws (b ++ rest) := by
  intro ⟨h1, h2⟩
  apply h
  refine ⟨by simp at h1; omega, ?_⟩
  simp only [List.all_append, Bool.and_eq_true] at h2
  exact h2.2

theorem nonPad_of_false {ws : Nat} (b : List Bool) (h : b.all id = false) : NonPad ws b := by
  intro rest ⟨_, h2⟩
  simp only [List.all_append, Bool.and_eq_true] at h2
  rw [h] at h2
  exact absurd h2.1 (by simp)

theorem nonPad_of_length {ws : Nat} (b : List Bool) (h : ws ≤ b.length) : NonPad ws b := by
  intro rest ⟨h1, _⟩
  simp at h1; omega

theorem nonPad_append_left {ws : Nat} (a b : List Bool) (h : NonPad ws a) : NonPad ws (a ++ b) := by
  intro rest
  rw [List.append_assoc]
  exact h _

theorem nonPad_append_right {ws : Nat} (a b : List Bool) (h : NonPad ws b) : NonPad ws (a ++ b) := by
  intro rest
  rw [List.append_assoc]
  exact not_isPad_append a _ (h rest)

/-- a `k`-bit code whose value is not `2^k - 1` contains a zero bit -/
theorem msbBits_all_false_of_lt (v k : Nat) (h : v < 2 ^ k - 1) : (msbBits v k).all id = false := by
  cases hh : (msbBits v k).all id with
  | false => rfl
  | true =>
    exfalso
    have e : msbBits v k = List.replicate k true := by
      apply List.ext_getElem
      · simp
      · intro i h1 h2
        have := (List.all_eq_true.mp hh) ((msbBits v k)[i]) (List.getElem_mem h1)
        simpa using this
    have hv : bitsToNat (msbBits v k) = v := bitsToNat_msbBits_of_lt v k (by omega)
    rw [e] at hv
    have : ∀ k, bitsToNat (List.replicate k true) = 2 ^ k - 1 := by
      intro k
      induction k with
      | zero => rfl
      | succ k ih =>
        rw [List.replicate_succ, bitsToNat_cons, ih]
        simp
        have := Nat.two_pow_pos k
        rw [Nat.pow_succ]; omega
    rw [this] at hv
    omega

/-! ### runs of the parser -/

/-- `Run ws strong m0 bits m out`: started in mode `m0` at a code boundary in front of `bits ++ rest`, the parser
    consumes exactly `bits`, appends `out` to its output and continues in mode `m` on `rest`.  A strong run works
    for every `rest`, a weak one only when `rest` cannot be taken for padding. -/
def Run (ws : Nat) (strong : Bool) (m0 : Mode) (bits : List Bool) (m : Mode) (out : Bytes) : Prop :=
  ∀ (rest : List Bool), (strong = true ∨ ¬ IsPad ws rest) →
  ∀ (fuel : Nat) (out0 : Bytes), ∃ fuel', fuel ≤ fuel' ∧
    parse ws (fuel + bits.length) m0 none (bits.length + rest.length) (bits ++ rest) out0
      = parse ws fuel' m none rest.length rest (out0 ++ out)

theorem Run.nil (ws : Nat) (strong : Bool) (m : Mode) : Run ws strong m [] m [] := by
  intro rest _ fuel out0
  exact ⟨fuel, Nat.le_refl _, by simp⟩

theorem Run.weaken {ws : Nat} {strong : Bool} {m0 m : Mode} {bits : List Bool} {out : Bytes}
    (h : Run ws strong m0 bits m out) : Run ws false m0 bits m out := by
  intro rest hr fuel out0
  rcases hr with hr | hr
  · exact absurd hr (by simp)
  · exact h rest (Or.inr hr) fuel out0

/-- composition; the second part decides whether the whole is strong -/
theorem Run.append {ws : Nat} {strong : Bool} {m0 m1 m2 : Mode} {b1 b2 : List Bool} {o1 o2 : Bytes}
    (h1 : Run ws false m0 b1 m1 o1) (h2 : Run ws strong m1 b2 m2 o2) (hs : strong = true → NonPad ws b2) :
    Run ws strong m0 (b1 ++ b2) m2 (o1 ++ o2) := by
  intro rest hr fuel out0
  have hp : ¬ IsPad ws (b2 ++ rest) := by
    rcases hr with hr | hr
    · exact hs hr rest
    · exact not_isPad_append _ _ hr
  obtain ⟨f1, hf1, e1⟩ := h1 (b2 ++ rest) (Or.inr hp) (fuel + b2.length) out0
  obtain ⟨f2, hf2, e2⟩ := h2 rest hr (f1 - b2.length) (out0 ++ o1)
  refine ⟨f2, by omega, ?_⟩
  have a1 : fuel + (b1 ++ b2).length = fuel + b2.length + b1.length := by simp; omega
  have a2 : (b1 ++ b2).length + rest.length = b1.length + (b2 ++ rest).length := by simp; omega
  rw [a1, a2, List.append_assoc, e1]
  have a3 : f1 = f1 - b2.length + b2.length := by omega
  rw [a3, List.length_append, e2, List.append_assoc]

/-- one character code in the latched mode -/
theorem parse_char (ws : Nat) (m : Mode) (v : Nat) (c : Bytes) (hv : v < 2 ^ codeBits m)
    (ht : table m v = .chars c) (rest : List Bool) (hp : ¬ IsPad ws (msbBits v (codeBits m) ++ rest))
    (fuel : Nat) (out0 : Bytes) (sh : Option Mode) (mode : Mode) (hm : sh.getD mode = m) :
    parse ws (fuel + 1) mode sh (codeBits m + rest.length) (msbBits v (codeBits m) ++ rest) out0 =
      parse ws fuel mode none rest.length rest (out0 ++ c) := by
  rw [parse]
  have hp' : ¬ (codeBits m + rest.length < ws ∧ (msbBits v (codeBits m) ++ rest).all id = true) := by
    intro h; apply hp; refine ⟨by simpa using h.1, h.2⟩
  rw [if_neg hp']
  simp only [hm]
  rw [if_neg (by omega), toNat_take_msbBits v _ hv, drop_msbBits, ht]
  simp

/-- a shift code -/
theorem parse_shift (ws : Nat) (m b : Mode) (v : Nat) (hv : v < 2 ^ codeBits m)
    (ht : table m v = .shift b) (rest : List Bool) (hp : ¬ IsPad ws (msbBits v (codeBits m) ++ rest))
    (fuel : Nat) (out0 : Bytes) :
    parse ws (fuel + 1) m none (codeBits m + rest.length) (msbBits v (codeBits m) ++ rest) out0 =
      parse ws fuel m (some b) rest.length rest out0 := by
  rw [parse]
  have hp' : ¬ (codeBits m + rest.length < ws ∧ (msbBits v (codeBits m) ++ rest).all id = true) := by
    intro h; apply hp; refine ⟨by simpa using h.1, h.2⟩
  rw [if_neg hp']
  simp only [Option.getD_none]
  rw [if_neg (by omega), toNat_take_msbBits v _ hv, drop_msbBits, ht]
  simp

/-- a latch code -/
theorem parse_latch (ws : Nat) (m b : Mode) (v : Nat) (hv : v < 2 ^ codeBits m)
    (ht : table m v = .latch b) (rest : List Bool) (hp : ¬ IsPad ws (msbBits v (codeBits m) ++ rest))
    (fuel : Nat) (out0 : Bytes) :
    parse ws (fuel + 1) m none (codeBits m + rest.length) (msbBits v (codeBits m) ++ rest) out0 =
      parse ws fuel b none rest.length rest out0 := by
  rw [parse]
  have hp' : ¬ (codeBits m + rest.length < ws ∧ (msbBits v (codeBits m) ++ rest).all id = true) := by
    intro h; apply hp; refine ⟨by simpa using h.1, h.2⟩
  rw [if_neg hp']
  simp only [Option.getD_none]
  rw [if_neg (by omega), toNat_take_msbBits v _ hv, drop_msbBits, ht]
  simp

theorem codeBits_pos (m : Mode) : 1 ≤ codeBits m := by cases m <;> simp [codeBits]

/-- a character of the latched mode is a strong run -/
theorem Run.char (ws : Nat) (m : Mode) (v : Nat) (c : Bytes) (hv : v < 2 ^ codeBits m - 1)
    (ht : table m v = .chars c) :
    Run ws true m (msbBits v (codeBits m)) m c ∧ NonPad ws (msbBits v (codeBits m)) := by
  have hnp : NonPad ws (msbBits v (codeBits m)) := nonPad_of_false _ (msbBits_all_false_of_lt v _ hv)
  refine ⟨?_, hnp⟩
  intro rest _ fuel out0
  have hk := codeBits_pos m
  refine ⟨fuel + (codeBits m - 1), by omega, ?_⟩
  have := parse_char ws m v c (by omega) ht rest (hnp rest) (fuel + (codeBits m - 1)) out0 none m rfl
  rw [length_msbBits]
  have e : fuel + codeBits m = fuel + (codeBits m - 1) + 1 := by omega
  rw [e, this]

/-- a shift code followed by a character of the shifted-to mode is a strong run that keeps the mode -/
theorem Run.shiftChar (ws : Nat) (m b : Mode) (sv v : Nat) (c : Bytes) (hsv : sv < 2 ^ codeBits m)
    (hs : table m sv = .shift b) (hv : v < 2 ^ codeBits b - 1) (ht : table b v = .chars c) :
    Run ws true m (msbBits sv (codeBits m) ++ msbBits v (codeBits b)) m c ∧
      NonPad ws (msbBits sv (codeBits m) ++ msbBits v (codeBits b)) := by
  have hnp0 : NonPad ws (msbBits v (codeBits b)) := nonPad_of_false _ (msbBits_all_false_of_lt v _ hv)
  have hnp : NonPad ws (msbBits sv (codeBits m) ++ msbBits v (codeBits b)) := nonPad_append_right _ _ hnp0
  refine ⟨?_, hnp⟩
  intro rest _ fuel out0
  have hk := codeBits_pos m
  have hk' := codeBits_pos b
  refine ⟨fuel + (codeBits m - 1) + (codeBits b - 1), by omega, ?_⟩
  have e1 := parse_shift ws m b sv hsv hs (msbBits v (codeBits b) ++ rest) (by
    rw [← List.append_assoc]; exact hnp rest) (fuel + (codeBits m - 1) + (codeBits b - 1) + 1) out0
  have e2 := parse_char ws b v c (by omega) ht rest (hnp0 rest) (fuel + (codeBits m - 1) + (codeBits b - 1))
    out0 (some b) m rfl
  rw [List.length_append, length_msbBits, length_msbBits, List.append_assoc]
  have a1 : fuel + (codeBits m + codeBits b) = fuel + (codeBits m - 1) + (codeBits b - 1) + 1 + 1 := by omega
  have a2 : codeBits m + codeBits b + rest.length = codeBits m + (msbBits v (codeBits b) ++ rest).length := by
    simp; omega
  rw [a1, a2, e1]
  have a3 : (msbBits v (codeBits b) ++ rest).length = codeBits b + rest.length := by simp
  rw [a3, e2]

/-! ### latch sequences -/

/-- follow a sequence of latch codes: the mode reached when `bs` consists of latch codes only -/
def latchPath : Nat → Mode → List Bool → Option Mode
  | 0, m, bs => if bs = [] then some m else none
  | f + 1, m, bs =>
    if bs = [] then some m
    else if bs.length < codeBits m then none
    else
      match table m (Spec.Aztec.toNat (bs.take (codeBits m))) with
      | .latch m' => latchPath f m' (bs.drop (codeBits m))
      | _ => none

/-- a sequence of latch codes is a (weak) run without output -/
theorem Run.ofLatchPath (ws : Nat) : ∀ (f : Nat) (m m' : Mode) (bs : List Bool),
    latchPath f m bs = some m' → Run ws false m bs m' [] := by
  intro f
  induction f with
  | zero =>
    intro m m' bs h
    simp only [latchPath] at h
    split at h
    · rename_i hb; subst hb; cases h; exact Run.nil ws false m
    · cases h
  | succ f ih =>
    intro m m' bs h
    rw [latchPath] at h
    split at h
    · rename_i hb; subst hb; cases h; exact Run.nil ws false m
    · split at h
      · cases h
      · rename_i hne hlen
        split at h
        · rename_i m1 ht
          have hsplit : bs = bs.take (codeBits m) ++ bs.drop (codeBits m) := (List.take_append_drop _ _).symm
          have hl : (bs.take (codeBits m)).length = codeBits m := by simp; omega
          have hbits : bs.take (codeBits m) = msbBits (Spec.Aztec.toNat (bs.take (codeBits m))) (codeBits m) := by
            have := msbBits_bitsToNat (bs.take (codeBits m))
            rw [hl] at this
            rw [toNat_eq, this]
          have hvlt : Spec.Aztec.toNat (bs.take (codeBits m)) < 2 ^ codeBits m := by
            rw [toNat_eq]; have := bitsToNat_lt (bs.take (codeBits m)); rw [hl] at this; exact this
          have r2 := ih m1 m' _ h
          have r1 : Run ws false m (bs.take (codeBits m)) m1 [] := by
            intro rest hr fuel out0
            rcases hr with hr | hr
            · exact absurd hr (by simp)
            have hk := codeBits_pos m
            refine ⟨fuel + (codeBits m - 1), by omega, ?_⟩
            rw [hl]
            have := parse_latch ws m m1 _ hvlt ht rest (by rw [← hbits]; exact not_isPad_append _ _ hr)
              (fuel + (codeBits m - 1)) out0
            rw [← hbits] at this
            have e : fuel + codeBits m = fuel + (codeBits m - 1) + 1 := by omega
            rw [e, this]; simp
          have := Run.append r1 r2 (by simp)
          rw [← hsplit] at this
          simpa using this
        · cases h

/-! ### binary shift -/

theorem byte_toNat (b : UInt8) : byte b.toNat = b := by
  unfold byte; exact UInt8.ofNat_toNat

/-- the parser's byte reader on bytes written by `AddByte` -/
theorem takeBytes_flatMap (bytes : Bytes) (rest : List Bool) :
    takeBytes bytes.length (bytes.flatMap addByte ++ rest) = (bytes, rest) := by
  induction bytes with
  | nil => rfl
  | cons b bytes ih =>
    simp only [List.length_cons, takeBytes, List.flatMap_cons, List.append_assoc, addByte]
    rw [drop_msbBits, ih, toNat_take_msbBits _ _ (by have := b.toNat_lt; omega), byte_toNat]

theorem length_flatMap_addByte (bytes : Bytes) : (bytes.flatMap addByte).length = 8 * bytes.length := by
  induction bytes with
  | nil => rfl
  | cons b bytes ih => simp [List.flatMap_cons, addByte, ih]; omega

/-- splitting a field: the high `a` bits, then the low `b` bits -/
theorem msbBits_add (x a b : Nat) : msbBits x (a + b) = msbBits (x / 2 ^ b) a ++ msbBits x b := by
  induction a with
  | zero => simp [msbBits_zero]
  | succ a ih =>
    have e : a + 1 + b = (a + b) + 1 := by omega
    rw [e, msbBits_succ, msbBits_succ, ih, List.cons_append]
    congr 1
    rw [Nat.testBit_div_two_pow]

/-- a binary-shift run with the 5-bit length field -/
theorem parse_binary_short (ws : Nat) (m : Mode) (hk : codeBits m = 5) (ht : table m 31 = .binary)
    (bytes : Bytes) (h1 : 1 ≤ bytes.length) (h31 : bytes.length ≤ 31) (hws : ws ≤ 18)
    (rest : List Bool) (fuel : Nat) (out0 : Bytes) :
    parse ws (fuel + 1) m none (10 + 8 * bytes.length + rest.length)
      (msbBits 31 5 ++ (msbBits bytes.length 5 ++ (bytes.flatMap addByte ++ rest))) out0 =
      parse ws fuel m none rest.length rest (out0 ++ bytes) := by
  rw [parse]
  rw [if_neg (by omega)]
  simp only [Option.getD_none, hk]
  rw [if_neg (by omega), toNat_take_msbBits 31 5 (by omega), drop_msbBits, ht]
  simp only []
  rw [if_neg (by omega), toNat_take_msbBits _ 5 (by omega)]
  have hne : bytes.length ≠ 0 := by omega
  simp only [hne, ne_eq, not_false_eq_true, if_true]
  rw [if_neg (by omega), drop_msbBits, takeBytes_flatMap]
  simp only []
  congr 1
  omega

/-- a binary-shift run with the 5 + 11-bit length field -/
theorem parse_binary_long (ws : Nat) (m : Mode) (hk : codeBits m = 5) (ht : table m 31 = .binary)
    (bytes : Bytes) (h1 : 32 ≤ bytes.length) (h31 : bytes.length - 31 < 2048) (hws : ws ≤ 18)
    (rest : List Bool) (fuel : Nat) (out0 : Bytes) :
    parse ws (fuel + 1) m none (21 + 8 * bytes.length + rest.length)
      (msbBits 31 5 ++ (msbBits (bytes.length - 31) 16 ++ (bytes.flatMap addByte ++ rest))) out0 =
      parse ws fuel m none rest.length rest (out0 ++ bytes) := by
  rw [parse]
  rw [if_neg (by omega)]
  simp only [Option.getD_none, hk]
  rw [if_neg (by omega), toNat_take_msbBits 31 5 (by omega), drop_msbBits, ht]
  simp only []
  have e16 : msbBits (bytes.length - 31) 16 = msbBits 0 5 ++ msbBits (bytes.length - 31) 11 := by
    have := msbBits_add (bytes.length - 31) 5 11
    rw [Nat.div_eq_of_lt (by omega)] at this
    exact this
  rw [if_neg (by omega), e16, List.append_assoc, toNat_take_msbBits 0 5 (by omega)]
  simp only [ne_eq, not_true_eq_false, if_false]
  rw [drop_msbBits, toNat_take_msbBits _ 11 (by omega)]
  have en : bytes.length - 31 + 31 = bytes.length := by omega
  rw [en, if_neg (by omega)]
  have ed : (msbBits 0 5 ++ (msbBits (bytes.length - 31) 11 ++ (bytes.flatMap addByte ++ rest))).drop 16 =
      bytes.flatMap addByte ++ rest := by
    rw [← List.append_assoc]
    exact List.drop_left' (by simp)
  rw [ed, takeBytes_flatMap]
  simp only []
  congr 1
  omega

/-- the modes in which the encoder opens a binary shift -/
def BinMode (m : Mode) : Prop := m = .upper ∨ m = .lower ∨ m = .mixed

theorem BinMode.spec {m : Mode} (h : BinMode m) : codeBits m = 5 ∧ table m 31 = .binary := by
  rcases h with rfl | rfl | rfl <;> exact ⟨rfl, by simp [table]⟩

/-- short binary-shift run as a strong run -/
theorem Run.binaryShort (ws : Nat) (hws : ws ≤ 18) (m : Mode) (hm : BinMode m) (bytes : Bytes)
    (h1 : 1 ≤ bytes.length) (h31 : bytes.length ≤ 31) :
    Run ws true m (msbBits 31 5 ++ (msbBits bytes.length 5 ++ bytes.flatMap addByte)) m bytes ∧
      NonPad ws (msbBits 31 5 ++ (msbBits bytes.length 5 ++ bytes.flatMap addByte)) := by
  have hlen : (msbBits 31 5 ++ (msbBits bytes.length 5 ++ bytes.flatMap addByte)).length =
      10 + 8 * bytes.length := by
    simp only [List.length_append, length_msbBits, length_flatMap_addByte]; omega
  refine ⟨?_, nonPad_of_length _ (by rw [hlen]; omega)⟩
  intro rest _ fuel out0
  refine ⟨fuel + (10 + 8 * bytes.length - 1), by omega, ?_⟩
  have := parse_binary_short ws m hm.spec.1 hm.spec.2 bytes h1 h31 hws rest (fuel + (10 + 8 * bytes.length - 1)) out0
  rw [hlen]
  have e : fuel + (10 + 8 * bytes.length) = fuel + (10 + 8 * bytes.length - 1) + 1 := by omega
  rw [e]
  simp only [List.append_assoc]
  exact this

/-- long binary-shift run as a strong run -/
theorem Run.binaryLong (ws : Nat) (hws : ws ≤ 18) (m : Mode) (hm : BinMode m) (bytes : Bytes)
    (h1 : 32 ≤ bytes.length) (h31 : bytes.length - 31 < 2048) :
    Run ws true m (msbBits 31 5 ++ (msbBits (bytes.length - 31) 16 ++ bytes.flatMap addByte)) m bytes ∧
      NonPad ws (msbBits 31 5 ++ (msbBits (bytes.length - 31) 16 ++ bytes.flatMap addByte)) := by
  have hlen : (msbBits 31 5 ++ (msbBits (bytes.length - 31) 16 ++ bytes.flatMap addByte)).length =
      21 + 8 * bytes.length := by
    simp only [List.length_append, length_msbBits, length_flatMap_addByte]; omega
  refine ⟨?_, nonPad_of_length _ (by rw [hlen]; omega)⟩
  intro rest _ fuel out0
  refine ⟨fuel + (21 + 8 * bytes.length - 1), by omega, ?_⟩
  have := parse_binary_long ws m hm.spec.1 hm.spec.2 bytes h1 h31 hws rest (fuel + (21 + 8 * bytes.length - 1)) out0
  rw [hlen]
  have e : fuel + (21 + 8 * bytes.length) = fuel + (21 + 8 * bytes.length - 1) + 1 := by omega
  rw [e]
  simp only [List.append_assoc]
  exact this

/-! ### the bits of a binary-shift token -/

/-- the bytes of the run that a binary-shift token covers -/
def runBytes (text : Array UInt8) (start : Nat) (l : List Nat) : Bytes :=
  l.map (fun i => text.getD (start + i) 0)

/-- bytes without a header -/
theorem flatMap_noHeader (text : Array UInt8) (start cnt : Nat) (l : List Nat)
    (h : ∀ i ∈ l, i ≠ 0 ∧ (i = 31 → 62 < cnt)) :
    l.flatMap (binaryShiftByteBits text start cnt) = (runBytes text start l).flatMap addByte := by
  induction l with
  | nil => rfl
  | cons i l ih =>
    rw [List.flatMap_cons, ih (fun j hj => h j (List.mem_cons_of_mem _ hj))]
    have hi := h i (List.mem_cons_self ..)
    have e : binaryShiftByteBits text start cnt i = addByte (text.getD (start + i) 0) := by
      unfold binaryShiftByteBits
      have : (i == 0 || (i == 31 && decide (cnt ≤ 62))) = false := by
        have h0 : (i == 0) = false := by simp [hi.1]
        rw [h0, Bool.false_or]
        by_cases h31 : i = 31
        · have := hi.2 h31
          simp [h31]; omega
        · simp [h31]
      simp only [this]
      simp
    rw [e]
    simp [runBytes, List.flatMap_cons]

theorem range_eq_cons (n : Nat) (h : 1 ≤ n) : List.range n = 0 :: List.range' 1 (n - 1) := by
  rw [List.range_eq_range']
  have : n = (n - 1) + 1 := by omega
  rw [this, List.range'_succ]
  simp

/-- the bits of a binary-shift token, by the three cases of the length header -/
theorem binaryToken_bits (text : Array UInt8) (start cnt : Nat) (h1 : 1 ≤ cnt) :
    Token.bits text (.binaryShift start cnt) =
      if cnt ≤ 31 then
        msbBits 31 5 ++ (msbBits cnt 5 ++ (runBytes text start (List.range cnt)).flatMap addByte)
      else if cnt ≤ 62 then
        (msbBits 31 5 ++ (msbBits 31 5 ++ (runBytes text start (List.range 31)).flatMap addByte)) ++
        (msbBits 31 5 ++ (msbBits (cnt - 31) 5 ++ (runBytes text start (List.range' 31 (cnt - 31))).flatMap addByte))
      else
        msbBits 31 5 ++ (msbBits (cnt - 31) 16 ++ (runBytes text start (List.range cnt)).flatMap addByte) := by
  simp only [Token.bits]
  split
  · rename_i hc
    rw [range_eq_cons cnt h1, List.flatMap_cons,
      flatMap_noHeader text start cnt _ (by
        intro i hi; rw [List.mem_range'_1] at hi; exact ⟨by omega, by omega⟩)]
    have : binaryShiftByteBits text start cnt 0 =
        msbBits 31 5 ++ (msbBits cnt 5 ++ addByte (text.getD (start + 0) 0)) := by
      unfold binaryShiftByteBits
      simp only [BEq.rfl, Bool.true_or, if_true]
      rw [if_neg (by omega)]
      split
      · rw [show (31 : Int) = ((31 : Nat) : Int) from rfl, addBits_natCast, addBits_natCast]; simp
      · have : cnt = 31 := by omega
        subst this
        rw [show (31 : Int) = ((31 : Nat) : Int) from rfl, addBits_natCast]; simp
    rw [this]
    simp [runBytes, List.flatMap_cons]
  · split
    · rename_i hc1 hc2
      have hr : List.range cnt = 0 :: List.range' 1 30 ++ 31 :: List.range' 32 (cnt - 32) := by
        have a1 : List.range cnt = List.range' 0 31 ++ List.range' (0 + 31) (cnt - 31) := by
          rw [List.range_eq_range', List.range'_append_1]; congr 1; omega
        have a2 : List.range' 0 31 = 0 :: List.range' 1 30 := by decide
        have a3 : List.range' (0 + 31) (cnt - 31) = 31 :: List.range' 32 (cnt - 32) := by
          have e3 : cnt - 31 = (cnt - 32) + 1 := by omega
          rw [e3, List.range'_succ]
        rw [a1, a2, a3]
      rw [hr, List.flatMap_append, List.flatMap_cons, List.flatMap_cons,
        flatMap_noHeader text start cnt (List.range' 1 30) (by
          intro i hi; rw [List.mem_range'_1] at hi; exact ⟨by omega, by omega⟩),
        flatMap_noHeader text start cnt (List.range' 32 (cnt - 32)) (by
          intro i hi; rw [List.mem_range'_1] at hi; exact ⟨by omega, by omega⟩)]
      have h0 : binaryShiftByteBits text start cnt 0 =
          msbBits 31 5 ++ (msbBits 31 5 ++ addByte (text.getD (start + 0) 0)) := by
        unfold binaryShiftByteBits
        simp only [BEq.rfl, Bool.true_or, if_true]
        rw [if_neg (by omega), if_neg (by omega)]
        rw [show (31 : Int) = ((31 : Nat) : Int) from rfl, addBits_natCast]; simp
      have h31 : binaryShiftByteBits text start cnt 31 =
          msbBits 31 5 ++ (msbBits (cnt - 31) 5 ++ addByte (text.getD (start + 31) 0)) := by
        unfold binaryShiftByteBits
        have : ((31 : Nat) == 0 || ((31 : Nat) == 31 && decide (cnt ≤ 62))) = true := by simp [hc2]
        simp only [this, if_true]
        rw [if_neg (by omega)]
        have e : ((cnt : Int) - 31) = ((cnt - 31 : Nat) : Int) := by omega
        have e31 : addBits 31 5 = msbBits 31 5 := addBits_natCast 31 5
        rw [e, addBits_natCast (cnt - 31), e31]; simp
      rw [h0, h31]
      have ra : List.range 31 = 0 :: List.range' 1 30 := range_eq_cons 31 (by omega)
      have rb : List.range' 31 (cnt - 31) = 31 :: List.range' 32 (cnt - 32) := by
        have e3 : cnt - 31 = (cnt - 32) + 1 := by omega
        rw [e3, List.range'_succ]
      rw [ra, rb]
      simp [runBytes, List.flatMap_cons]
    · rename_i hc1 hc2
      rw [range_eq_cons cnt h1, List.flatMap_cons,
        flatMap_noHeader text start cnt _ (by
          intro i hi; rw [List.mem_range'_1] at hi; exact ⟨by omega, by omega⟩)]
      have : binaryShiftByteBits text start cnt 0 =
          msbBits 31 5 ++ (msbBits (cnt - 31) 16 ++ addByte (text.getD (start + 0) 0)) := by
        unfold binaryShiftByteBits
        simp only [BEq.rfl, Bool.true_or, if_true]
        rw [if_pos (by omega)]
        have e : ((cnt : Int) - 31) = ((cnt - 31 : Nat) : Int) := by omega
        have e31 : addBits 31 5 = msbBits 31 5 := addBits_natCast 31 5
        rw [e, addBits_natCast (cnt - 31), e31]; simp
      rw [this]
      simp [runBytes, List.flatMap_cons]

@[simp] theorem length_runBytes (text : Array UInt8) (start : Nat) (l : List Nat) :
    (runBytes text start l).length = l.length := by simp [runBytes]

/-- a binary-shift token of 1 … 2078 bytes, in a mode that has a B/S code, is a strong run emitting its bytes -/
theorem Run.binaryToken (ws : Nat) (hws : ws ≤ 18) (m : Mode) (hm : BinMode m) (text : Array UInt8)
    (start cnt : Nat) (h1 : 1 ≤ cnt) (h2 : cnt ≤ 2078) :
    Run ws true m (Token.bits text (.binaryShift start cnt)) m (runBytes text start (List.range cnt)) ∧
      NonPad ws (Token.bits text (.binaryShift start cnt)) := by
  rw [binaryToken_bits text start cnt h1]
  split
  · have := Run.binaryShort ws hws m hm (runBytes text start (List.range cnt)) (by simpa using h1) (by simpa)
    simpa using this
  · split
    · rename_i hc1 hc2
      have r1 := Run.binaryShort ws hws m hm (runBytes text start (List.range 31)) (by simp) (by simp)
      have r2 := Run.binaryShort ws hws m hm (runBytes text start (List.range' 31 (cnt - 31)))
        (by simp; omega) (by simp; omega)
      simp only [length_runBytes, List.length_range, List.length_range'] at r1 r2
      have hsplit : runBytes text start (List.range cnt) =
          runBytes text start (List.range 31) ++ runBytes text start (List.range' 31 (cnt - 31)) := by
        have a1 : List.range cnt = List.range 31 ++ List.range' (0 + 31) (cnt - 31) := by
          rw [List.range_eq_range', List.range_eq_range', List.range'_append_1]; congr 1; omega
        rw [a1]; simp [runBytes]
      rw [hsplit]
      exact ⟨Run.append r1.1.weaken r2.1 (fun _ => r2.2), nonPad_append_left _ _ r1.2⟩
    · have := Run.binaryLong ws hws m hm (runBytes text start (List.range cnt)) (by simp; omega)
        (by simp; omega)
      simpa using this

/-! ### table certificates -/

def actIsChars : Act → Bytes → Bool
  | .chars c, d => c == d
  | _, _ => false

theorem actIsChars_eq {a : Act} {c : Bytes} (h : actIsChars a c = true) : a = .chars c := by
  cases a <;> simp [actIsChars] at h
  rw [h]

def actIsShift : Act → Mode → Bool
  | .shift m, m' => m == m'
  | _, _ => false

theorem actIsShift_eq {a : Act} {m : Mode} (h : actIsShift a m = true) : a = .shift m := by
  cases a <;> simp [actIsShift] at h
  rw [h]

/-- `encodingMode.BitCount` is the code width of the standard -/
theorem BitCount_eq (a : Nat) (h : a < 5) : BitCount a = codeBits (modeOf a) := by
  have : a = 0 ∨ a = 1 ∨ a = 2 ∨ a = 3 ∨ a = 4 := by omega
  rcases this with rfl | rfl | rfl | rfl | rfl <;> rfl

/-- the bits of a latch token -/
def latchBits (a b : Nat) : List Bool :=
  Token.bits #[] (.simple (latchTable a b &&& 0xFFFF) ((latchTable a b >>> 16) % 256))

/-- certificate (20 entries, by evaluation): every latch table entry `a → b` is a sequence of latch codes of the
    standard that leads from mode `a` to mode `b`; no entry is longer than 14 bits -/
theorem latch_cert : ∀ a < 5, ∀ b < 5, a ≠ b →
    latchPath 3 (modeOf a) (latchBits a b) = some (modeOf b) ∧ latchTable a b >>> 16 ≤ 14 := by
  decide

/-- certificate (5 × 256 entries, by evaluation): wherever `charMap[mode][ch]` is non-zero it is the code of
    exactly the character `ch` in the standard's table of that mode, and it is not the all-ones code -/
theorem charMap_cert : ∀ mode < 5, ∀ n < 256,
    0 < charMapAt mode (UInt8.ofNat n) →
      charMapAt mode (UInt8.ofNat n) < 2 ^ codeBits (modeOf mode) - 1 ∧
      actIsChars (table (modeOf mode) (charMapAt mode (UInt8.ofNat n))) [UInt8.ofNat n] = true := by
  decide +kernel

def shiftOK (a b : Nat) : Bool :=
  match shiftTableOk a b with
  | some v => decide (0 ≤ v) && actIsShift (table (modeOf a) v.toNat) (modeOf b) &&
      decide (v.toNat < 2 ^ codeBits (modeOf a)) && decide (codeBits (modeOf b) = 5) &&
      decide (shiftTable a b = v.toNat)
  | none => true

/-- certificate: every shift table entry is the shift code of the standard; shifts lead to 5-bit modes -/
theorem shift_cert : ∀ a < 5, ∀ b < 5, shiftOK a b = true := by decide

theorem shift_spec (a b : Nat) (ha : a < 5) (hb : b < 5) (h : (shiftTableOk a b).isSome = true) :
    table (modeOf a) (shiftTable a b) = .shift (modeOf b) ∧
      shiftTable a b < 2 ^ codeBits (modeOf a) ∧ codeBits (modeOf b) = 5 := by
  have := shift_cert a ha b hb
  unfold shiftOK at this
  cases hv : shiftTableOk a b with
  | none => rw [hv] at h; cases h
  | some v =>
    rw [hv] at this
    simp only [Bool.and_eq_true, decide_eq_true_eq] at this
    obtain ⟨⟨⟨⟨_, h2⟩, h3⟩, h4⟩, h5⟩ := this
    rw [h5]
    exact ⟨actIsShift_eq h2, h3, h4⟩

/-- every mode but Punct can shift to Punct -/
theorem shift_punct_cert : ∀ a < 4, (shiftTableOk a 4).isSome = true := by decide

/-- the character-map certificate for an actual byte -/
theorem charMap_spec (mode : Nat) (hm : mode < 5) (ch : UInt8) (h : 0 < charMapAt mode ch) :
    charMapAt mode ch < 2 ^ codeBits (modeOf mode) - 1 ∧
      table (modeOf mode) (charMapAt mode ch) = .chars [ch] := by
  have := charMap_cert mode hm ch.toNat ch.toNat_lt
  rw [UInt8.ofNat_toNat] at this
  exact ⟨(this h).1, actIsChars_eq (this h).2⟩

/-- a latch token is a weak run from mode `a` to mode `b` without output -/
theorem latch_run (ws : Nat) (a b : Nat) (ha : a < 5) (hb : b < 5) (hab : a ≠ b) :
    Run ws false (modeOf a) (latchBits a b) (modeOf b) [] :=
  Run.ofLatchPath ws 3 _ _ _ (latch_cert a ha b hb hab).1

/-- the four two-character codes of Punct and the Digit codes of their characters -/
theorem pair_table :
    table .punct 2 = .chars [13, 10] ∧ table .punct 3 = .chars [46, 32] ∧ table .punct 4 = .chars [44, 32] ∧
    table .punct 5 = .chars [58, 32] ∧ table .digit 13 = .chars [46] ∧ table .digit 12 = .chars [44] ∧
    table .digit 1 = .chars [32] := by
  simp [table]

/-- the `switch` of `highlevelEncode` recognises exactly the four pairs -/
theorem pairCodeOf_spec (c n : UInt8) (h : 0 < pairCodeOf c n) :
    (pairCodeOf c n = 2 ∧ c = 13 ∧ n = 10) ∨ (pairCodeOf c n = 3 ∧ c = 46 ∧ n = 32) ∨
    (pairCodeOf c n = 4 ∧ c = 44 ∧ n = 32) ∨ (pairCodeOf c n = 5 ∧ c = 58 ∧ n = 32) := by
  unfold pairCodeOf at h ⊢
  split
  · rename_i h1; simp only [Bool.and_eq_true, beq_iff_eq] at h1; exact Or.inl ⟨rfl, h1.1, h1.2⟩
  · split
    · rename_i h1; simp only [Bool.and_eq_true, beq_iff_eq] at h1; exact Or.inr (Or.inl ⟨rfl, h1.1, h1.2⟩)
    · split
      · rename_i h1; simp only [Bool.and_eq_true, beq_iff_eq] at h1
        exact Or.inr (Or.inr (Or.inl ⟨rfl, h1.1, h1.2⟩))
      · split
        · rename_i h1; simp only [Bool.and_eq_true, beq_iff_eq] at h1
          exact Or.inr (Or.inr (Or.inr ⟨rfl, h1.1, h1.2⟩))
        · rename_i h1 h2 h3 h4
          simp [h1, h2, h3, h4] at h

end BV.Proofs.AztecStream
