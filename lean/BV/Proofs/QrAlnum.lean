/-
  BV.Proofs.QrAlnum — alphanumeric mode of the QR bit stream (property C01): acceptance by
  `Model.Qr.encodeAlphaNumeric` forces every byte to be one of the 45 characters, and the segment is read
  back by `Spec.Qr.parseAlnum` as the same bytes.
-/
import BV.Proofs.QrStream
namespace BV.Proofs.QrAlnum
open BV BV.Model.Qr BV.Spec.Qr BV.Proofs.Bits BV.Proofs.QrStream
open BV.Gen.Qr

/-! ### the character table -/

/-- certificate (128 cases): an ASCII rune found in the Go `charSet` has an index below 45, and the table of the
    standard has that very character at this index -/
theorem charSet_certificate : ∀ r, r < 128 → 0 ≤ indexRune c_charSet r →
    (indexRune c_charSet r).toNat < 45 ∧ alnumChars.getD (indexRune c_charSet r).toNat 0 = UInt8.ofNat r := by
  decide +kernel

/-- certificate: all 45 runes of `charSet` are ASCII -/
theorem charSet_ascii : ∀ p ∈ runes c_charSet, p.2 < 128 := by decide

/-- a rune that is found in `charSet` is ASCII -/
theorem indexRune_nonneg_lt (r : Nat) (h : 0 ≤ indexRune c_charSet r) : r < 128 := by
  unfold indexRune at h
  split at h
  · rename_i p hp
    have h1 := List.find?_some hp
    have h2 := List.mem_of_find?_eq_some hp
    simp only [decide_eq_true_eq] at h1
    rw [← h1]
    exact charSet_ascii p h2
  · omega

/-! ### ASCII strings and Go's rune iteration -/

/-- if Go decodes an ASCII rune at the head of a string, that rune is the first byte and has width 1 (multi-byte sequences and U+FFFD are ≥ 128) -/
theorem decodeRune_ascii (b : UInt8) (rest : Bytes) (h : (decodeRune (b :: rest)).1 < 128) :
    decodeRune (b :: rest) = (b.toNat, 1) := by
  unfold decodeRune at h ⊢
  simp only [runeError] at h ⊢
  split
  · rfl
  · rename_i h1
    simp only [h1, if_false] at h
    exfalso
    iterate 10 (all_goals (try (first | (simp only at h; omega) | split at h)))
    all_goals (simp only [Bool.and_eq_true, decide_eq_true_eq] at *; omega)

/-- at most one rune per unit of fuel (= per byte) -/
theorem runesAux_length (fuel off : Nat) (s : Bytes) : (runesAux fuel off s).length ≤ fuel := by
  induction fuel generalizing off s with
  | zero => simp [runesAux]
  | succ fuel ih =>
    cases s with
    | nil => simp [runesAux]
    | cons b rest =>
      simp only [runesAux, List.length_cons]
      have := ih (off + (decodeRune (b :: rest)).2) ((b :: rest).drop (decodeRune (b :: rest)).2)
      omega

/-- if every rune of the iteration is ASCII, the runes are the bytes -/
theorem runesAux_ascii : ∀ (fuel off : Nat) (s : Bytes), s.length ≤ fuel →
    (∀ p ∈ runesAux fuel off s, p.2 < 128) → (runesAux fuel off s).map (·.2) = s.map (·.toNat) := by
  intro fuel
  induction fuel with
  | zero =>
    intro off s hl _
    have : s = [] := List.eq_nil_of_length_eq_zero (by omega)
    subst this; rfl
  | succ fuel ih =>
    intro off s hl h
    cases s with
    | nil => rfl
    | cons b rest =>
      simp only [runesAux] at h ⊢
      have h0 := h (off, (decodeRune (b :: rest)).1) (by simp)
      have hd := decodeRune_ascii b rest h0
      rw [hd] at h ⊢
      simp only [List.drop_succ_cons, List.drop_zero, List.map_cons, List.mem_cons] at h ⊢
      congr 1
      exact ih (off + 1) rest (by simpa using hl) (fun p hp => h p (Or.inr hp))

/-! ### the index channel -/

/-- the channel carries at most one value per rune -/
theorem go_length (rs : List (Nat × Nat)) : (stringToAlphaIdx.go rs).length ≤ rs.length := by
  induction rs with
  | nil => simp [stringToAlphaIdx.go]
  | cons p rs ih =>
    obtain ⟨o, r⟩ := p
    simp only [stringToAlphaIdx.go]
    split <;> simp <;> omega

/-- if no value on the channel is negative, the producer never stopped early: the values are the indices of all runes -/
theorem go_nonneg (rs : List (Nat × Nat)) (h : ∀ x ∈ stringToAlphaIdx.go rs, 0 ≤ x) :
    stringToAlphaIdx.go rs = rs.map (fun p => indexRune c_charSet p.2) ∧
    ∀ p ∈ rs, 0 ≤ indexRune c_charSet p.2 := by
  induction rs with
  | nil => simp [stringToAlphaIdx.go]
  | cons p rs ih =>
    obtain ⟨o, r⟩ := p
    simp only [stringToAlphaIdx.go] at h ⊢
    split at h
    · rename_i hneg
      have := h (indexRune c_charSet r) (by simp)
      omega
    · rename_i hpos
      rw [if_neg hpos]
      have := ih (fun x hx => h x (List.mem_cons_of_mem _ hx))
      refine ⟨by rw [this.1]; rfl, ?_⟩
      intro p hp
      rcases List.mem_cons.mp hp with rfl | hp
      · simp only; omega
      · exact this.2 p hp

/-- one iteration of the pair loop that did not return an error -/
theorem alphaPairs_succ (n : Nat) (ch : List Int) (r : List Bool × List Int)
    (h : alphaPairs (n + 1) ch = some r) :
    0 ≤ (recv ch).1 ∧ 0 ≤ (recv (recv ch).2).1 ∧ ∃ bits ch', alphaPairs n (recv (recv ch).2).2 = some (bits, ch') ∧
      r = (msbBits ((recv ch).1 * 45 + (recv (recv ch).2).1).toNat 11 ++ bits, ch') := by
  rw [alphaPairs] at h
  simp only [] at h
  by_cases hc : ((recv ch).1 < 0 || (recv (recv ch).2).1 < 0) = true
  · rw [if_pos hc] at h; cases h
  · rw [if_neg hc] at h
    simp only [Bool.or_eq_true, decide_eq_true_eq, not_or] at hc
    cases hrec : alphaPairs n (recv (recv ch).2).2 with
    | none => simp only [hrec] at h; cases h
    | some q =>
      obtain ⟨bits, ch'⟩ := q
      simp only [hrec, Option.some.injEq] at h
      exact ⟨by omega, by omega, bits, ch', rfl, h.symm⟩

/-- acceptance of the pair loop: every value received is non-negative -/
theorem alphaPairs_nonneg : ∀ (n : Nat) (ch : List Int) (r : List Bool × List Int),
    alphaPairs n ch = some r → (∀ x ∈ ch.take (2 * n), 0 ≤ x) ∧ r.2 = ch.drop (2 * n) := by
  intro n
  induction n with
  | zero =>
    intro ch r h
    simp only [alphaPairs, Option.some.injEq] at h
    subst h; simp
  | succ n ih =>
    intro ch r h
    have e : 2 * (n + 1) = 2 * n + 1 + 1 := by omega
    rw [e]
    obtain ⟨h1, h2, bits, ch', hrec, rfl⟩ := alphaPairs_succ n ch r h
    have := ih _ _ hrec
    match ch with
    | [] => simpa [recv] using this.2
    | [x] =>
      simp only [recv] at h1 this
      refine ⟨?_, by simpa using this.2⟩
      intro y hy
      simp at hy
      omega
    | x :: y :: rest =>
      simp only [recv] at h1 h2 this
      refine ⟨?_, by simpa using this.2⟩
      intro z hz
      simp only [List.take_succ_cons, List.mem_cons] at hz
      rcases hz with rfl | rfl | hz
      · omega
      · omega
      · exact this.1 z hz

/-- the bits of an alphanumeric segment: pairs in 11 bits, a trailing single character in 6 -/
def alnumBits : List Nat → List Bool
  | a :: b :: rest => msbBits (a * 45 + b) 11 ++ alnumBits rest
  | [a] => msbBits a 6
  | [] => []

/-- the pair loop on a channel of non-negative values: the bits of the first `2n` values, the rest stays -/
theorem alphaPairs_vals : ∀ (n : Nat) (vals : List Nat), 2 * n ≤ vals.length →
    alphaPairs n (vals.map Int.ofNat) =
      some (alnumBits (vals.take (2 * n)), (vals.drop (2 * n)).map Int.ofNat) := by
  intro n
  induction n with
  | zero => intro vals _; simp [alphaPairs, alnumBits]
  | succ n ih =>
    intro vals h
    match vals, h with
    | a :: b :: rest, h =>
      have e : 2 * (n + 1) = 2 * n + 1 + 1 := by omega
      simp only [alphaPairs, recv, List.map_cons]
      rw [ih rest (by simp at h; omega), e]
      have e1 : ¬ ((Int.ofNat a < 0 || Int.ofNat b < 0) = true) := by
        simp only [Bool.or_eq_true, decide_eq_true_eq, not_or]
        constructor <;> simp
      rw [if_neg e1]
      simp only [List.take_succ_cons, List.drop_succ_cons, alnumBits]
      have e2 : (Int.ofNat a * 45 + Int.ofNat b).toNat = a * 45 + b := by
        simp only [Int.ofNat_eq_natCast]; omega
      rw [e2]

/-- after an even number of values the segment bits of a concatenation concatenate -/
theorem alnumBits_append (l m : List Nat) (h : l.length % 2 = 0) :
    alnumBits (l ++ m) = alnumBits l ++ alnumBits m := by
  induction l using alnumBits.induct with
  | case1 a b rest ih =>
    simp only [List.cons_append, alnumBits, List.append_assoc]
    rw [ih (by simp at h; omega)]
  | case2 a => simp at h
  | case3 => simp [alnumBits]

/-- 11 bits per pair, 6 for a trailing single -/
theorem length_alnumBits (l : List Nat) : (alnumBits l).length = (l.length / 2) * 11 + (l.length % 2) * 6 := by
  induction l using alnumBits.induct with
  | case1 a b rest ih =>
    simp only [alnumBits, List.length_append, length_msbBits, ih, List.length_cons]
    have e1 : (rest.length + 1 + 1) / 2 = rest.length / 2 + 1 := by omega
    have e2 : (rest.length + 1 + 1) % 2 = rest.length % 2 := by omega
    rw [e1, e2]; omega
  | case2 a => simp [alnumBits]
  | case3 => simp [alnumBits]
/-! ### the reference parser on an alphanumeric body -/

/-- no characters left -/
theorem parseAlnum_zero (bits : Array Bool) (fuel p : Nat) : parseAlnum bits fuel 0 p = .ok ([], p) := by
  cases fuel <;> simp [parseAlnum]

/-- one pair of the reference parser -/
theorem parseAlnum_pair (bits : Array Bool) (fuel n p : Nat) (hn : 2 ≤ n) (hfit : p + 11 ≤ bits.size)
    (hv : bitsToNatAt bits p 11 < 45 * 45) (rest : Bytes) (p' : Nat)
    (hrec : parseAlnum bits fuel (n - 2) (p + 11) = .ok (rest, p')) :
    parseAlnum bits (fuel + 1) n p =
      .ok (alnumChars.getD (bitsToNatAt bits p 11 / 45) 0 :: alnumChars.getD (bitsToNatAt bits p 11 % 45) 0 :: rest,
        p') := by
  rw [parseAlnum]
  have e : (n == 0) = false := by simp; omega
  simp only [e, Bool.false_eq_true, if_false]
  rw [if_pos (by omega), if_neg (by omega), if_neg (by omega), hrec]
  rfl

/-- the trailing single character of the reference parser -/
theorem parseAlnum_single (bits : Array Bool) (fuel p : Nat) (hfit : p + 6 ≤ bits.size)
    (hv : bitsToNatAt bits p 6 < 45) :
    parseAlnum bits (fuel + 1) 1 p = .ok ([alnumChars.getD (bitsToNatAt bits p 6) 0], p + 6) := by
  rw [parseAlnum]
  simp only [show (1 == 0) = false from rfl, Bool.false_eq_true, if_false]
  rw [if_neg (by omega), if_neg (by omega), if_neg (by omega)]

/-- the alphanumeric body of values below 45 is read back as the characters of the standard at these values -/
theorem parseAlnum_body (vals : List Nat) : (∀ v ∈ vals, v < 45) →
    ∀ (pfuel : Nat) (pre post : List Bool), vals.length < pfuel →
      parseAlnum (pre ++ (alnumBits vals ++ post)).toArray pfuel vals.length pre.length =
        .ok (vals.map (fun v => alnumChars.getD v 0), pre.length + (alnumBits vals).length) := by
  induction vals using alnumBits.induct with
  | case1 a b rest ih =>
    intro hv pfuel pre post hp
    obtain ⟨pf, rfl⟩ : ∃ pf, pfuel = pf + 1 := ⟨pfuel - 1, by omega⟩
    have ha := hv a (by simp)
    have hb := hv b (by simp)
    have hread := readAt_msbBits pre (alnumBits rest ++ post) (a * 45 + b) 11 (by omega)
    have hrec := ih (fun v h => hv v (by simp [h])) pf (pre ++ msbBits (a * 45 + b) 11) post
      (by simp at hp; omega)
    simp only [List.length_append, length_msbBits, List.append_assoc] at hrec
    simp only [alnumBits, List.append_assoc, List.length_cons, List.length_append, length_msbBits,
      List.map_cons]
    have := parseAlnum_pair (pre ++ (msbBits (a * 45 + b) 11 ++ (alnumBits rest ++ post))).toArray pf
      (rest.length + 1 + 1) pre.length (by omega) (by simp) (by rw [bitsToNatAt_eq, hread]; omega) _ _
      (by simpa using hrec)
    rw [bitsToNatAt_eq, hread] at this
    rw [this]
    have e1 : (a * 45 + b) / 45 = a := by omega
    have e2 : (a * 45 + b) % 45 = b := by omega
    rw [e1, e2]
    congr 2
    omega
  | case2 a =>
    intro hv pfuel pre post hp
    obtain ⟨pf, rfl⟩ : ∃ pf, pfuel = pf + 1 := ⟨pfuel - 1, by omega⟩
    have ha := hv a (by simp)
    have hread := readAt_msbBits pre post a 6 (by omega)
    have := parseAlnum_single (pre ++ (msbBits a 6 ++ post)).toArray pf pre.length (by simp)
      (by rw [bitsToNatAt_eq, hread]; exact ha)
    rw [bitsToNatAt_eq, hread] at this
    simpa [alnumBits] using this
  | case3 =>
    intro _ pfuel pre post _
    simpa [alnumBits] using parseAlnum_zero _ pfuel pre.length

/-! ### acceptance forces the 45-character alphabet -/

/-- the alphanumeric value of a byte (its offset in `charSet`) -/
def alnumVal (b : UInt8) : Nat := (indexRune c_charSet b.toNat).toNat

/-- the channel carries at most one value per content byte -/
theorem stringToAlphaIdx_length (content : Bytes) : (stringToAlphaIdx content).length ≤ content.length := by
  unfold stringToAlphaIdx runes
  exact Nat.le_trans (go_length _) (runesAux_length _ _ _)

/-- if every value on the channel is non-negative, the content is made of `charSet` bytes and the channel carries
    their values -/
theorem stringToAlphaIdx_nonneg (content : Bytes) (h : ∀ x ∈ stringToAlphaIdx content, 0 ≤ x) :
    (∀ b ∈ content, 0 ≤ indexRune c_charSet b.toNat) ∧
    stringToAlphaIdx content = (content.map alnumVal).map Int.ofNat := by
  unfold stringToAlphaIdx at h ⊢
  obtain ⟨h1, h2⟩ := go_nonneg _ h
  have hasc : ∀ p ∈ runes content, p.2 < 128 := fun p hp => indexRune_nonneg_lt _ (h2 p hp)
  have hr := runesAux_ascii content.length 0 content (Nat.le_refl _) hasc
  have hmem : ∀ b ∈ content, 0 ≤ indexRune c_charSet b.toNat := by
    intro b hb
    have : b.toNat ∈ (runes content).map (·.2) := by
      unfold runes; rw [hr]; exact List.mem_map_of_mem hb
    obtain ⟨p, hp, hpe⟩ := List.mem_map.mp this
    rw [← hpe]; exact h2 p hp
  refine ⟨hmem, ?_⟩
  rw [h1]
  have : (runes content).map (fun p => indexRune c_charSet p.2) =
      ((runes content).map (·.2)).map (indexRune c_charSet) := by
    rw [List.map_map]; rfl
  rw [this]
  unfold runes
  rw [hr, List.map_map, List.map_map]
  apply List.map_congr_left
  intro b hb
  simp only [Function.comp, alnumVal]
  have := hmem b hb
  simp only [Int.ofNat_eq_natCast]
  omega

/-- acceptance: the encoder receives (and checks) `len` values and the channel carries at most `len`, so every value on the channel is non-negative -/
theorem alnum_accept (content : Bytes) (pairs : List Bool) (enc : List Int)
    (hap : alphaPairs (content.length / 2) (stringToAlphaIdx content) = some (pairs, enc))
    (hodd : content.length % 2 = 1 → 0 ≤ (recv enc).1) :
    ∀ x ∈ stringToAlphaIdx content, 0 ≤ x := by
  obtain ⟨h1, h2⟩ := alphaPairs_nonneg _ _ _ hap
  simp only at h2
  have hl := stringToAlphaIdx_length content
  generalize stringToAlphaIdx content = L at *
  intro x hx
  rw [← List.take_append_drop (2 * (content.length / 2)) L] at hx
  rcases List.mem_append.mp hx with hx | hx
  · exact h1 x hx
  · rw [← h2] at hx
    have hlen : enc.length ≤ 1 := by rw [h2]; simp; omega
    by_cases ho : content.length % 2 = 1
    · have := hodd ho
      match enc, hlen, hx with
      | [c], _, hx =>
        simp only [recv] at this
        simp only [List.mem_singleton] at hx
        omega
    · have : enc = [] := by
        apply List.eq_nil_of_length_eq_zero
        rw [h2]; simp; omega
      rw [this] at hx
      simp at hx

/-- what the encoder appends after the count: `alnumBits` of the values (even and odd length) -/
theorem alnum_bits (vals : List Nat) (pairs : List Bool) (enc : List Int)
    (hap : alphaPairs (vals.length / 2) (vals.map Int.ofNat) = some (pairs, enc)) :
    (vals.length % 2 = 0 → pairs = alnumBits vals) ∧
    (vals.length % 2 = 1 → pairs ++ msbBits (recv enc).1.toNat 6 = alnumBits vals) := by
  rw [alphaPairs_vals _ vals (by omega)] at hap
  simp only [Option.some.injEq, Prod.mk.injEq] at hap
  obtain ⟨rfl, rfl⟩ := hap
  constructor
  · intro he
    rw [List.take_of_length_le (by omega)]
  · intro ho
    have hsplit := (List.take_append_drop (2 * (vals.length / 2)) vals).symm
    have hdl : (vals.drop (2 * (vals.length / 2))).length = 1 := by simp; omega
    match hd : vals.drop (2 * (vals.length / 2)), hdl with
    | [c], _ =>
      rw [hd] at hsplit
      simp only [List.map_cons, List.map_nil, recv]
      conv => rhs; rw [hsplit]
      rw [alnumBits_append _ _ (by simp; omega)]
      simp [alnumBits]

/-! ### the alphanumeric stream -/

/-- number of data bits of an alphanumeric segment with `len` characters -/
def alnumBitCount (len : Nat) : Nat := (len / 2) * 11 + (len % 2) * 6

/-- alphanumeric mode: a content that fits the capacity has fewer than `2^countBits` characters (from `capacity_certificate`) -/
theorem alnum_len_lt (vi : VersionInfo) (len : Nat) (hvi : vi ∈ versionInfos)
    (h : alnumBitCount len + 4 + vi.charCountBits 2 ≤ vi.totalDataBytes * 8) :
    len < 2 ^ countBits vi.version 2 := by
  have hc := List.all_eq_true.mp capacity_certificate vi hvi
  simp only [decide_eq_true_eq] at hc
  unfold alnumBitCount at h
  unfold countBits
  by_cases h1 : vi.version ≤ 9
  · have := hc.1 (by omega)
    simp [h1]; omega
  · by_cases h2 : vi.version ≤ 26
    · have := hc.2.1 (by omega)
      simp [h1, h2]; omega
    · have := hc.2.2
      simp [h1, h2]; omega

/-- the values of accepted bytes are below 45 and index the same character in the table of the standard -/
theorem alnumVal_spec (b : UInt8) (h : 0 ≤ indexRune c_charSet b.toNat) :
    alnumVal b < 45 ∧ alnumChars.getD (alnumVal b) 0 = b := by
  have := charSet_certificate b.toNat (indexRune_nonneg_lt _ h) h
  refine ⟨this.1, ?_⟩
  unfold alnumVal
  rw [this.2]; simp

/-- certificate: the character table of the standard is the Go constant `charSet` -/
theorem alnumChars_eq : alnumChars = c_charSet := by decide +kernel

/-- an accepted byte is a member of `charSet` -/
theorem alnumVal_mem (b : UInt8) (h : 0 ≤ indexRune c_charSet b.toNat) : b ∈ c_charSet := by
  have hv := alnumVal_spec b h
  have hl : alnumVal b < alnumChars.length := by
    rw [alnumChars_eq]; exact hv.1
  have := hv.2
  simp only [List.getD, List.getElem?_eq_getElem hl, Option.getD_some] at this
  rw [← alnumChars_eq, ← this]
  exact List.getElem_mem hl

/-- alphanumeric mode: every string that `encodeAlphaNumeric` accepts consists of bytes of the 45-character set
    and is read back unchanged -/
theorem alnum_stream (content : Bytes) (ecl : Nat) (bits : List Bool) (vi : VersionInfo) (fuel : Nat)
    (h : encodeAlphaNumeric content ecl = some (bits, vi)) :
    parseSegments vi.version bits.toArray (fuel + 2) 0 [] [] =
      .ok (singleResult 2 content (4 + countBits vi.version 2 + alnumBitCount content.length)
        (vi.totalDataBytes * 8)) ∧
    (∀ b ∈ content, 0 ≤ indexRune c_charSet b.toNat) ∧
    bits = padded (msbBits 2 4 ++ (msbBits content.length (countBits vi.version 2) ++
      alnumBits (content.map alnumVal))) (vi.totalDataBytes * 8) := by
  unfold encodeAlphaNumeric at h
  simp only [] at h
  split at h
  · cases h
  · rename_i vi' hf
    have hs := findSmallest_spec _ _ _ _ hf
    have hcc := charCountBits_eq vi' 2 (by simp)
    have hcap : alnumBitCount content.length + 4 + vi'.charCountBits 2 ≤ vi'.totalDataBytes * 8 := by
      have := hs.2.2
      unfold alnumBitCount
      simp only [c_alphaNumericMode] at this
      split at this
      · rename_i ho
        have ho : content.length % 2 = 1 := by simpa using ho
        rw [ho]; omega
      · rename_i ho
        have ho : content.length % 2 = 0 := by
          have : ¬ content.length % 2 = 1 := by simpa using ho
          omega
        rw [ho]; omega
    -- the body is `alnumBits` of the values
    have key : ∀ body, (∀ x ∈ stringToAlphaIdx content, 0 ≤ x) → body = alnumBits (content.map alnumVal) →
        addPaddingAndTerminator (msbBits c_alphaNumericMode 4 ++
          msbBits content.length (vi'.charCountBits c_alphaNumericMode) ++ body) vi' = bits → vi' = vi →
        parseSegments vi.version bits.toArray (fuel + 2) 0 [] [] =
          .ok (singleResult 2 content (4 + countBits vi.version 2 + alnumBitCount content.length)
            (vi.totalDataBytes * 8)) ∧
        (∀ b ∈ content, 0 ≤ indexRune c_charSet b.toNat) ∧
        bits = padded (msbBits 2 4 ++ (msbBits content.length (countBits vi.version 2) ++
          alnumBits (content.map alnumVal))) (vi.totalDataBytes * 8) := by
      intro body hnn hbody hb hvi
      subst hvi hbody
      obtain ⟨hmem, _⟩ := stringToAlphaIdx_nonneg content hnn
      have hlen : (alnumBits (content.map alnumVal)).length = alnumBitCount content.length := by
        rw [length_alnumBits, List.length_map]; rfl
      have hpad := addPaddingAndTerminator_eq (msbBits c_alphaNumericMode 4 ++
        msbBits content.length (vi'.charCountBits c_alphaNumericMode) ++ alnumBits (content.map alnumVal)) vi'
        (by simp [hlen]; simp only [c_alphaNumericMode]; omega)
      rw [hpad] at hb
      simp only [c_alphaNumericMode, hcc, List.append_assoc] at hb
      refine ⟨?_, hmem, hb.symm⟩
      rw [← hb]
      have hseg : (content.map alnumVal).map (fun v => alnumChars.getD v 0) = content := by
        rw [List.map_map]
        conv => rhs; rw [← List.map_id content]
        apply List.map_congr_left
        intro b hb
        exact (alnumVal_spec b (hmem b hb)).2
      have := single_segment vi'.version 2 (countBits vi'.version 2) content.length
        (alnumBits (content.map alnumVal)) content (vi'.totalDataBytes * 8) fuel (by simp) (by simp) rfl
        (countBits_pos _ _ (by simp))
        (alnum_len_lt vi' content.length hs.1 hcap)
        (fun pre post => by
          unfold parseBody
          simp only [show (2 == 1) = false from rfl, show (2 == 2) = true from rfl, Bool.false_eq_true,
            if_false, if_true]
          have := parseAlnum_body (content.map alnumVal)
            (fun v hv => by
              obtain ⟨b, hb, rfl⟩ := List.mem_map.mp hv
              exact (alnumVal_spec b (hmem b hb)).1)
            (content.length + 1) pre post (by simp)
          rw [List.length_map, hseg] at this
          exact this)
        (by rw [hlen, ← hcc]; omega) (by omega)
      rw [hlen] at this
      exact this
    split at h
    · cases h
    · rename_i pairs enc hap
      split at h
      · rename_i hodd
        have hodd : content.length % 2 = 1 := by simpa using hodd
        split at h
        · cases h
        · rename_i hc
          simp only [Option.some.injEq, Prod.mk.injEq] at h
          have hnn := alnum_accept content pairs enc hap (fun _ => by omega)
          obtain ⟨_, hL⟩ := stringToAlphaIdx_nonneg content hnn
          rw [hL] at hap
          have hb := alnum_bits (content.map alnumVal) pairs enc (by rw [List.length_map]; exact hap)
          rw [List.length_map] at hb
          exact key _ hnn (hb.2 hodd) h.1 h.2
      · rename_i hodd
        have hev : content.length % 2 = 0 := by
          have : ¬ content.length % 2 = 1 := by simpa using hodd
          omega
        simp only [Option.some.injEq, Prod.mk.injEq] at h
        have hnn := alnum_accept content pairs enc hap (fun h => by omega)
        obtain ⟨_, hL⟩ := stringToAlphaIdx_nonneg content hnn
        rw [hL] at hap
        have hb := alnum_bits (content.map alnumVal) pairs enc (by rw [List.length_map]; exact hap)
        rw [List.length_map] at hb
        exact key _ hnn (hb.1 hev) h.1 h.2

end BV.Proofs.QrAlnum
