/-
  BV.Proofs.QrMatrixRS — the codeword layer of the QR symbol with the Reed–Solomon facts of C17 plugged in:
  `calcECC` returns `k` check codewords below 256 that complete the data to a codeword of the QR code of the
  standard; hence what `splitToBlocks` / `interleave` produce is de-interleaved by the reference decoder into
  blocks of the ISO lengths that pass its Reed–Solomon check, and whose data parts are the encoder's bit stream.
-/
import BV.Props.QrB
import BV.Props.C17
namespace BV.Proofs.QrMatrix
open BV BV.Model.Qr BV.Spec.Qr
open BV.Proofs.Bits BV.Proofs.QrStream BV.Proofs.QrAlnum BV.Proofs.QrBlocks BV.Proofs.QrChain

/-! ### 1. the field -/

/-- the field of `calcECC` is `NewGaloisField(285, 256, 0)` (the one call site in the QR package) -/
theorem ecField_eq : Model.Qr.ecField = Model.GF.newField 285 256 0 := rfl

/-- the field of the reference decoder is GF(256) with the reduction polynomial 0x11D = 285 -/
theorem qrField_eq : Spec.RS.qrField = ⟨285, 256⟩ := rfl

/-! ### 2. `calcECC` -/

/-- `% 256` does nothing on codewords below 256 -/
theorem map_mod_256 (l : List Nat) (h : ∀ c ∈ l, c < 256) : l.map (· % 256) = l := by
  induction l with
  | nil => rfl
  | cons a l ih =>
    rw [List.map_cons, ih (fun c hc => h c (List.mem_cons_of_mem _ hc)),
      Nat.mod_eq_of_lt (h a (List.mem_cons_self ..))]

/-- `calcECC data k` for data codewords below 256 and `1 ≤ k ≤ 255`: exactly `k` check codewords, all below 256,
    and data followed by them is a Reed–Solomon codeword of the QR field with roots α^0 … α^(k-1) -/
theorem calcECC_spec (data : List Nat) (hd : ∀ c ∈ data, c < 256) (k : Nat) (hk1 : 1 ≤ k) (hk : k ≤ 255) :
    (calcECC data k).length = k ∧ (∀ c ∈ calcECC data k, c < 256) ∧
    Spec.RS.qrField.valid 0 k (data ++ calcECC data k) = true := by
  obtain ⟨h1, h2, h3, h4, _⟩ := BV.Props.C17.C17_rs_encode 285 256 0 (by decide) data hd k hk1 (by omega)
    Model.GF.newEncoder (BV.Props.C17.C17_newEncoder_inv _)
  have he : calcECC data k = (Model.GF.encodeWith (Model.GF.newField 285 256 0) Model.GF.newEncoder data k).1 := by
    unfold calcECC
    rw [ecField_eq]
    exact map_mod_256 _ h2
  rw [he]
  exact ⟨h1, h2, h3⟩

/-! ### 3. the number of check codewords per block -/

/-- certificate over the 160 rows of the generated table -/
theorem ec_range_certificate : versionInfos.all (fun vi =>
    decide (7 ≤ vi.errorCorrectionCodewordsPerBlock) && decide (vi.errorCorrectionCodewordsPerBlock ≤ 30)) = true := by
  decide +kernel

/-- every row of the table asks for between 7 and 30 check codewords per block -/
theorem ec_range : ∀ vi ∈ versionInfos,
    7 ≤ vi.errorCorrectionCodewordsPerBlock ∧ vi.errorCorrectionCodewordsPerBlock ≤ 30 := by
  intro vi h
  have := List.all_eq_true.mp ec_range_certificate vi h
  simpa only [Bool.and_eq_true, decide_eq_true_eq] using this

/-! ### 4. blocks: split, interleave, de-interleave, with the Reed–Solomon check -/

/-- `foldl (· + ·)` is the sum -/
theorem foldl_add_eq_sum (l : List Nat) : ∀ a, l.foldl (· + ·) a = a + l.sum := by
  induction l with
  | nil => intro a; simp
  | cons x l ih => intro a; rw [List.foldl_cons, ih, List.sum_cons]; omega

/-- no rows, no columns -/
theorem cols_nil (M : Nat) : cols [] M = [] := by
  simp [cols, col]

/-- one more row adds `min r.length M` entries to the first `M` columns -/
theorem length_cols_cons (r : List Nat) (rows : List (List Nat)) :
    ∀ M, (cols (r :: rows) M).length = min r.length M + (cols rows M).length := by
  intro M
  induction M with
  | zero => simp [cols]
  | succ M ih =>
    rw [cols_succ, cols_succ, List.length_append, List.length_append, ih]
    have : (col (r :: rows) M).length = (if M < r.length then 1 else 0) + (col rows M).length := by
      simp only [col, List.filterMap_cons]
      by_cases h : M < r.length
      · simp [h]; omega
      · simp [h]
    rw [this]
    split <;> omega

/-- the first `M` columns hold `min r.length M` entries of every row -/
theorem length_cols (rows : List (List Nat)) (M : Nat) :
    (cols rows M).length = (rows.map (fun r => min r.length M)).sum := by
  induction rows with
  | nil => rw [cols_nil]; rfl
  | cons r rows ih => rw [length_cols_cons, ih, List.map_cons, List.sum_cons]

/-- … all of them if no row is longer than `M` -/
theorem length_cols_of_le (rows : List (List Nat)) (M : Nat) (h : ∀ r ∈ rows, r.length ≤ M) :
    (cols rows M).length = (rows.map List.length).sum := by
  rw [length_cols]
  congr 1
  apply List.map_congr_left
  intro r hr
  have := h r hr
  omega

/-- every entry of the interleaved sequence is an entry of a row -/
theorem mem_cols (rows : List (List Nat)) (M : Nat) (c : Nat) (h : c ∈ cols rows M) : ∃ r ∈ rows, c ∈ r := by
  unfold cols at h
  obtain ⟨m, _, hm⟩ := List.mem_flatMap.mp h
  unfold col at hm
  obtain ⟨r, hr, he⟩ := List.mem_filterMap.mp hm
  refine ⟨r, hr, ?_⟩
  split at he
  · rename_i hl
    simp only [Option.some.injEq] at he
    subst he
    simp only [List.getD]
    rw [List.getElem?_eq_getElem hl]
    exact List.getElem_mem hl
  · cases he

/-- the sum of a constant list -/
theorem sum_map_const {α} (l : List α) (f : α → Nat) (k : Nat) (h : ∀ a ∈ l, f a = k) :
    (l.map f).sum = l.length * k := by
  induction l with
  | nil => simp
  | cons a l ih =>
    rw [List.map_cons, List.sum_cons, h a (List.mem_cons_self ..),
      ih (fun x hx => h x (List.mem_cons_of_mem _ hx)), List.length_cons, Nat.add_mul]
    omega

/-- the general form of `zip_take_data`: whatever follows the data part of each block -/
theorem zip_take_data' (blocks : List Block) (g : Block → List Nat) :
    ((blocks.map (fun b => b.data ++ g b)).zip (blocks.map (·.data.length))).flatMap
      (fun (b, l) => (b.take l).flatMap (fun c => msbBits c 8)) =
    (blocks.flatMap (·.data)).flatMap (fun c => msbBits c 8) := by
  induction blocks with
  | nil => rfl
  | cons b bl ih =>
    simp only [List.map_cons, List.zip_cons_cons, List.flatMap_cons, List.flatMap_append, ih]
    simp

/-- For every row `vi` of the generated table and every list of `vi.totalDataBytes` data codewords below 256:
    `splitToBlocks` succeeds with the block structure of Table 9 of the standard; the data parts concatenate to
    the input; the reference de-interleaver applied to `interleave blocks` returns every block as data part
    followed by check part; these have the lengths `decode` checks and pass its Reed–Solomon check (this is
    `QrB.blocks_roundtrip_valid` with its two hypotheses about `calcECC` discharged by C17); the interleaved
    sequence has as many codewords as the symbol holds (data codewords plus `ec` per block), all below 256. -/
theorem blocks_valid (vi : VersionInfo) (hvi : vi ∈ versionInfos) (data : List Nat)
    (hlen : data.length = vi.totalDataBytes) (hd : ∀ c ∈ data, c < 256) :
    ∃ blocks ec lens,
      splitToBlocks data vi = .ok blocks ∧
      isoBlocks vi.version vi.level = some (ec, lens) ∧
      blocks.map (·.data.length) = lens ∧
      blocks.flatMap (·.data) = data ∧
      deinterleave (interleave blocks vi).toArray lens ec = blocks.map (fun b => b.data ++ b.ecc) ∧
      ((deinterleave (interleave blocks vi).toArray lens ec).zip lens).all
        (fun (p : List Nat × Nat) => p.1.length == p.2 + ec) = true ∧
      (deinterleave (interleave blocks vi).toArray lens ec).all
        (fun b => Spec.RS.qrField.valid 0 ec b) = true ∧
      (interleave blocks vi).length = lens.foldl (· + ·) 0 + lens.length * ec ∧
      (∀ c ∈ interleave blocks vi, c < 256) := by
  obtain ⟨hn, hiso⟩ := blocks_of_mem vi hvi
  obtain ⟨blocks, h1, h4, h5, h6, h7⟩ := split_interleave vi data hn hlen
  obtain ⟨hec1, hec2⟩ := ec_range vi hvi
  generalize hec : vi.errorCorrectionCodewordsPerBlock = ec at *
  -- the data of every block is part of the input
  have hbd : ∀ b ∈ blocks, ∀ c ∈ b.data, c < 256 := by
    intro b hb c hc
    apply hd
    rw [← h6]
    exact List.mem_flatMap.mpr ⟨b, hb, hc⟩
  have hcalc : ∀ b ∈ blocks, b.ecc.length = ec ∧ (∀ c ∈ b.ecc, c < 256) ∧
      Spec.RS.qrField.valid 0 ec (b.data ++ b.ecc) = true := by
    intro b hb
    rw [h5 b hb]
    exact calcECC_spec b.data (hbd b hb) ec (by omega) (by omega)
  have hecc : ∀ b ∈ blocks, eccRow ec b = b.ecc := fun b hb => eccRow_eq ec b (hcalc b hb).1
  have h7' : deinterleave (interleave blocks vi).toArray (rowLens vi) ec =
      blocks.map (fun b => b.data ++ b.ecc) := by
    rw [h7]
    apply List.map_congr_left
    intro b hb
    rw [hecc b hb]
  refine ⟨blocks, ec, rowLens vi, h1, hiso, h4, h6, h7', ?_, ?_, ?_, ?_⟩
  · rw [h7', ← h4]
    apply zip_map_all
    intro b hb
    simp only [List.length_append, beq_iff_eq]
    rw [(hcalc b hb).1]
  · rw [h7', List.all_eq_true]
    intro w hw
    obtain ⟨b, hb, rfl⟩ := List.mem_map.mp hw
    exact (hcalc b hb).2.2
  · have hall : ∀ r ∈ blocks.map (·.data), r.length ≤
        max vi.dataCodeWordsPerBlockInGroup1 vi.dataCodeWordsPerBlockInGroup2 := by
      intro r hr
      obtain ⟨b, hb, rfl⟩ := List.mem_map.mp hr
      have : b.data.length ∈ rowLens vi := by rw [← h4]; exact List.mem_map_of_mem hb
      unfold rowLens at this
      rcases List.mem_append.mp this with h | h
      · have := (List.mem_replicate.mp h).2; omega
      · have := (List.mem_replicate.mp h).2; omega
    rw [interleave_eq, List.length_append, length_cols_of_le _ _ hall, hec,
      length_cols_of_le _ ec (by
        intro r hr
        obtain ⟨b, _, rfl⟩ := List.mem_map.mp hr
        simp [eccRow]),
      foldl_add_eq_sum, ← h4, List.map_map, List.map_map, List.length_map]
    rw [sum_map_const blocks (List.length ∘ eccRow ec) ec (by intro b _; simp [eccRow])]
    simp only [Nat.zero_add]
    rfl
  · intro c hc
    rw [interleave_eq, hec] at hc
    rcases List.mem_append.mp hc with hc | hc
    · obtain ⟨r, hr, hcr⟩ := mem_cols _ _ c hc
      obtain ⟨b, hb, rfl⟩ := List.mem_map.mp hr
      exact hbd b hb c hcr
    · obtain ⟨r, hr, hcr⟩ := mem_cols _ _ c hc
      obtain ⟨b, hb, rfl⟩ := List.mem_map.mp hr
      rw [hecc b hb] at hcr
      exact (hcalc b hb).2.1 c hcr

/-! ### 5. from the accepted content to the codewords of the symbol and back -/

/-- the content of the expected parse result -/
theorem streamResult_content (m : Nat) (c : Bytes) (u cap : Nat) : (streamResult m c u cap).content = c := rfl

/-- the modes of the expected parse result: one segment -/
theorem streamResult_modes (m : Nat) (c : Bytes) (u cap : Nat) : (streamResult m c u cap).modes = [m] := rfl

/-- the terminator of the expected parse result -/
theorem streamResult_terminatorBits (m : Nat) (c : Bytes) (u cap : Nat) :
    (streamResult m c u cap).terminatorBits = min 4 (cap - u) := rfl

/-- the pad codewords of the expected parse result -/
theorem streamResult_padCodewords (m : Nat) (c : Bytes) (u cap : Nat) :
    (streamResult m c u cap).padCodewords = (cap - (u + min 4 (cap - u))) / 8 := rfl

/-- the codeword layer for a stream of exactly `cap` bits that the reference parser reads as `content` -/
theorem layer_of_stream (content : Bytes) (bits : List Bool) (vi : VersionInfo) (hvi : vi ∈ versionInfos)
    (hlen : bits.length = vi.totalDataBytes * 8) (m used : Nat)
    (hp : parseSegments vi.version bits.toArray (bits.toArray.size / 4 + 2) 0 [] [] =
      .ok (streamResult m content used (vi.totalDataBytes * 8))) :
    ∃ blocks ec lens m used,
      splitToBlocks (iterateBytes bits) vi = .ok blocks ∧
      isoBlocks vi.version vi.level = some (ec, lens) ∧
      (interleave blocks vi).length = lens.foldl (· + ·) 0 + lens.length * ec ∧
      (∀ c ∈ interleave blocks vi, c < 256) ∧
      ((deinterleave (interleave blocks vi).toArray lens ec).zip lens).all
        (fun (p : List Nat × Nat) => p.1.length == p.2 + ec) = true ∧
      (deinterleave (interleave blocks vi).toArray lens ec).all
        (fun b => Spec.RS.qrField.valid 0 ec b) = true ∧
      (((deinterleave (interleave blocks vi).toArray lens ec).zip lens).flatMap
        (fun (b, l) => (b.take l).flatMap (fun c => msbBits c 8))) = bits ∧
      parseSegments vi.version bits.toArray (bits.toArray.size / 4 + 2) 0 [] [] =
        .ok (streamResult m content used (vi.totalDataBytes * 8)) := by
  obtain ⟨p1, p2, p3⟩ := BV.Props.QrB.pack8_roundtrip bits vi.totalDataBytes (by omega)
  obtain ⟨blocks, ec, lens, h1, h2, h3, h4, h5, h6, h7, h8, h9⟩ := blocks_valid vi hvi (iterateBytes bits) p1 p2
  refine ⟨blocks, ec, lens, m, used, h1, h2, h8, h9, h6, h7, ?_, hp⟩
  rw [h5, ← h3, zip_take_data' blocks (·.ecc), h4]
  exact p3

/-- The codeword layer of the symbol, for each of the four encodings (`mode` 0 … 3 = Auto, Numeric, AlphaNumeric,
    Unicode): if the mode encoder accepts `content` at `level` with stream `bits` and table row `vi`, then `vi` is
    a row of the table of the requested level; `splitToBlocks` on the packed stream succeeds; the interleaved
    codeword sequence has the number of codewords of the ISO block structure, all below 256; the reference
    de-interleaver splits it into blocks of the ISO lengths that all pass the Reed–Solomon check of the reference
    decoder; the data bit stream `Spec.Qr.decode` rebuilds from these blocks is the encoder's stream; and the
    reference parser (with the fuel `decode` uses) reads it as one segment with exactly the content. -/
theorem codeword_layer {mode : Nat} {enc : EncodeFn} (hg : getEncoder mode = some enc)
    {content : Bytes} {level : Nat} {bits : List Bool} {vi : VersionInfo}
    (h : enc content level = some (bits, vi)) :
    vi ∈ versionInfos ∧ vi.level = level ∧
    ∃ blocks ec lens m used,
      splitToBlocks (iterateBytes bits) vi = .ok blocks ∧
      isoBlocks vi.version vi.level = some (ec, lens) ∧
      (interleave blocks vi).length = lens.foldl (· + ·) 0 + lens.length * ec ∧
      (∀ c ∈ interleave blocks vi, c < 256) ∧
      ((deinterleave (interleave blocks vi).toArray lens ec).zip lens).all
        (fun (p : List Nat × Nat) => p.1.length == p.2 + ec) = true ∧
      (deinterleave (interleave blocks vi).toArray lens ec).all
        (fun b => Spec.RS.qrField.valid 0 ec b) = true ∧
      (((deinterleave (interleave blocks vi).toArray lens ec).zip lens).flatMap
        (fun (b, l) => (b.take l).flatMap (fun c => msbBits c 8))) = bits ∧
      parseSegments vi.version bits.toArray (bits.toArray.size / 4 + 2) 0 [] [] =
        .ok (streamResult m content used (vi.totalDataBytes * 8)) := by
  unfold getEncoder BV.Gen.Qr.c_Auto BV.Gen.Qr.c_Numeric BV.Gen.Qr.c_AlphaNumeric BV.Gen.Qr.c_Unicode at hg
  split at hg
  · simp only [Option.some.injEq] at hg; subst hg
    obtain ⟨hvi, hl, hlen, m, used, _, _, hp⟩ :=
      BV.Props.QrB.auto_stream_roundtrip content level bits vi h (bits.toArray.size / 4 + 2) (by omega)
    exact ⟨hvi, hl, layer_of_stream content bits vi hvi hlen m used hp⟩
  · split at hg
    · simp only [Option.some.injEq] at hg; subst hg
      have s := BV.Props.QrB.numeric_stream_shape content level bits vi h
      exact ⟨s.2.1, s.2.2.1, layer_of_stream content bits vi s.2.1 s.2.2.2.2.2.2 1 _
        (BV.Props.QrB.numeric_stream_roundtrip content level bits vi h _ (by omega))⟩
    · split at hg
      · simp only [Option.some.injEq] at hg; subst hg
        have s := BV.Props.QrB.alnum_stream_shape content level bits vi h
        exact ⟨s.2.1, s.2.2.1, layer_of_stream content bits vi s.2.1 s.2.2.2.2.2.2 2 _
          (BV.Props.QrB.alnum_stream_roundtrip content level bits vi h _ (by omega))⟩
      · split at hg
        · simp only [Option.some.injEq] at hg; subst hg
          have s := BV.Props.QrB.byte_stream_shape content level bits vi h
          exact ⟨s.1, s.2.1, layer_of_stream content bits vi s.1 s.2.2.2.2.2 4 _
            (BV.Props.QrB.byte_stream_roundtrip content level bits vi h _ (by omega))⟩
        · cases hg

/-! ### the statements fit `Spec.Qr.decode` and `QrB` -/

/-- the three expressions of `codeword_layer` are, syntactically up to `rfl`, those of `QrB.blocks_roundtrip_valid`
    and `QrB.data_path_roundtrip` (and of `Spec.Qr.decode`, where the length check is written with a pattern
    lambda `fun (b, l) => b.length == l + ec`) -/
example (blocks : List (List Nat)) (lens : List Nat) (ec : Nat) :
    ((blocks.zip lens).all (fun (p : List Nat × Nat) => p.1.length == p.2 + ec) =
      (blocks.zip lens).all (fun (b, l) => b.length == l + ec)) ∧
    ((blocks.zip lens).flatMap (fun (b, l) => (b.take l).flatMap (fun c => msbBits c 8)) =
      (blocks.zip lens).flatMap (fun (p : List Nat × Nat) => (p.1.take p.2).flatMap (fun c => msbBits c 8))) :=
  ⟨rfl, rfl⟩

/-- non-vacuity: "HELLO WORLD" in automatic mode at level Q, and the byte string ff 00 c3 28 in byte mode at
    level L, are accepted, so `codeword_layer` applies to them -/
example : getEncoder 0 = some encodeAuto ∧ getEncoder 3 = some encodeUnicode ∧
    (encodeAuto [72, 69, 76, 76, 79, 32, 87, 79, 82, 76, 68] 2).isSome = true ∧
    (encodeUnicode [0xFF, 0x00, 0xC3, 0x28] 0).isSome = true := by
  refine ⟨rfl, rfl, by decide, by decide⟩

/-- the length check in the form `Spec.Qr.decode` writes it (pattern lambda) -/
theorem all_len_decode_form (blocks : List (List Nat)) (lens : List Nat) (ec : Nat) :
    (blocks.zip lens).all (fun (b, l) => b.length == l + ec) =
      (blocks.zip lens).all (fun (p : List Nat × Nat) => p.1.length == p.2 + ec) := rfl

/-- the conclusions of `codeword_layer` are accepted, as they stand, where the statements of
    `QrB.blocks_roundtrip_valid` / `QrB.data_path_roundtrip` are expected -/
example (content : Bytes) (l : Nat) (bits : List Bool) (vi : VersionInfo)
    (h : encodeAuto content l = some (bits, vi)) :
    ∃ blocks ec lens m used,
      splitToBlocks (iterateBytes bits) vi = .ok blocks ∧
      isoBlocks vi.version vi.level = some (ec, lens) ∧
      ((deinterleave (interleave blocks vi).toArray lens ec).zip lens).all
        (fun (p : List Nat × Nat) => p.1.length == p.2 + ec) = true ∧
      ((deinterleave (interleave blocks vi).toArray lens ec).zip lens).all
        (fun (b, l) => b.length == l + ec) = true ∧
      (deinterleave (interleave blocks vi).toArray lens ec).all
        (fun b => Spec.RS.qrField.valid 0 ec b) = true ∧
      (((deinterleave (interleave blocks vi).toArray lens ec).zip lens).flatMap
        (fun (b, l) => (b.take l).flatMap (fun c => msbBits c 8))) = bits ∧
      parseSegments vi.version bits.toArray (bits.toArray.size / 4 + 2) 0 [] [] =
        .ok (streamResult m content used (vi.totalDataBytes * 8)) := by
  obtain ⟨_, _, blocks, ec, lens, m, used, h1, h2, _, _, h5, h6, h7, h8⟩ :=
    codeword_layer (mode := 0) rfl h
  exact ⟨blocks, ec, lens, m, used, h1, h2, h5, h5, h6, h7, h8⟩

/-- non-vacuity of `calcECC_spec` and `blocks_valid`: version 1-M (one block, 16 data and 10 check codewords)
    with the data codewords 0 … 15 -/
example : (∀ c ∈ List.range 16, c < 256) ∧
    ∃ blocks ec lens,
      splitToBlocks (List.range 16) ⟨1, 1, 10, 1, 16, 0, 0⟩ = .ok blocks ∧
      isoBlocks 1 1 = some (ec, lens) ∧
      (deinterleave (interleave blocks ⟨1, 1, 10, 1, 16, 0, 0⟩).toArray lens ec).all
        (fun b => Spec.RS.qrField.valid 0 ec b) = true ∧
      (interleave blocks ⟨1, 1, 10, 1, 16, 0, 0⟩).length = lens.foldl (· + ·) 0 + lens.length * ec := by
  refine ⟨by decide, ?_⟩
  obtain ⟨blocks, ec, lens, h1, h2, _, _, _, _, h7, h8, _⟩ :=
    blocks_valid ⟨1, 1, 10, 1, 16, 0, 0⟩ (by decide) (List.range 16) (by decide) (by decide)
  exact ⟨blocks, ec, lens, h1, h2, h7, h8⟩

example : isoBlocks 1 1 = some (10, [16]) := by decide

/-- the check codewords of that block, evaluated: they are what `calcECC_spec` says (10 codewords below 256 that
    complete the data to a valid word) -/
example : calcECC (List.range 16) 10 = [2, 172, 123, 126, 116, 109, 86, 102, 247, 117] ∧
    Spec.RS.qrField.valid 0 10 (List.range 16 ++ calcECC (List.range 16) 10) = true := by
  decide +kernel

end BV.Proofs.QrMatrix

