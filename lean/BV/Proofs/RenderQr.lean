/-
  RenderQr — C11 for QR Code: the colour scheme only ever sits in the `color` field of the nine bitmaps of
  `render`; every drawing step commutes with recolouring, the walk over the free modules and the penalties
  do not read it.
-/
import BV.Proofs.Render
import BV.Proofs.QrRender
namespace BV.Proofs.RenderQr
open BV BV.Model BV.Model.Qr BV.Gen.Qr BV.Proofs.Render BV.Proofs.QrRender

/-! ### recolouring -/

def qrecolor (s : Scheme) (q : QRCode) : QRCode := { q with color := s }

def srecolor (s : Scheme) (st : RenderState) : RenderState :=
  { occupied := qrecolor s st.occupied, results := st.results.map (qrecolor s) }

theorem modify_map (s : Scheme) (a : Array QRCode) (i : Nat) (g : QRCode → QRCode)
    (hg : ∀ q, g (qrecolor s q) = qrecolor s (g q)) :
    (a.map (qrecolor s)).modify i g = (a.modify i g).map (qrecolor s) := by
  apply Array.ext
  · simp
  · intro j h1 h2
    simp only [Array.getElem_modify, Array.getElem_map]
    split
    · exact hg _
    · rfl

theorem set_qrecolor (s : Scheme) (x y : Nat) (v : Bool) (q : QRCode) :
    QRCode.set x y v (qrecolor s q) = qrecolor s (QRCode.set x y v q) := rfl

theorem setMasked_qrecolor (s : Scheme) (x y : Nat) (v : Bool) (m : Nat) (q : QRCode) :
    setMasked x y v m QRCode.set (qrecolor s q) = qrecolor s (setMasked x y v m QRCode.set q) := rfl

theorem modifyAll_map (s : Scheme) (g : Nat → QRCode → QRCode)
    (hg : ∀ i q, g i (qrecolor s q) = qrecolor s (g i q)) (l : List Nat) (a : Array QRCode) :
    l.foldl (fun (rs : Array QRCode) i => rs.modify i (g i)) (a.map (qrecolor s)) =
      (l.foldl (fun (rs : Array QRCode) i => rs.modify i (g i)) a).map (qrecolor s) :=
  foldl_comm (Array.map (qrecolor s)) _ (fun a i => modify_map s a i (g i) (hg i)) l a

theorem setAll_comm (s : Scheme) (x y : Nat) (v : Bool) (st : RenderState) :
    setAll x y v (srecolor s st) = srecolor s (setAll x y v st) := by
  unfold setAll srecolor
  simp only []
  rw [modifyAll_map s (fun _ => QRCode.set x y v) (fun _ _ => rfl)]
  rfl

theorem setResult_comm (s : Scheme) (i x y : Nat) (v : Bool) (st : RenderState) :
    setResult i x y v (srecolor s st) = srecolor s (setResult i x y v st) := by
  unfold setResult srecolor
  simp only []
  rw [modify_map s _ i (QRCode.set x y v) (fun _ => rfl)]

theorem setOccupied_comm (s : Scheme) (x y : Nat) (v : Bool) (st : RenderState) :
    setOccupied x y v (srecolor s st) = srecolor s (setOccupied x y v st) := rfl

/-! ### the generic drawing functions commute with every map that commutes with `set` -/

section
variable {σ : Type} (φ : σ → σ) (set : Nat → Nat → Bool → σ → σ)
  (hset : ∀ x y v st, set x y v (φ st) = φ (set x y v st))
include hset

theorem drawFinderPatterns_comm (vi : VersionInfo) (st : σ) :
    drawFinderPatterns vi set (φ st) = φ (drawFinderPatterns vi set st) := by
  unfold drawFinderPatterns
  simp only
  have hdp : ∀ (xoff yoff : Int) (st : σ), (intRange (-1) 9).foldl (fun st x =>
      (intRange (-1) 9).foldl (fun st y =>
        let val := (x == 0 || x == 6 || y == 0 || y == 6 || (x > 1 && x < 5 && y > 1 && y < 5)) &&
          (x ≤ 6 && y ≤ 6 && x ≥ 0 && y ≥ 0)
        if x + xoff ≥ 0 && x + xoff < (vi.modulWidth : Int) && y + yoff ≥ 0 && y + yoff < (vi.modulWidth : Int) then
          set (x + xoff).toNat (y + yoff).toNat val st
        else st) st) (φ st) = φ ((intRange (-1) 9).foldl (fun st x =>
      (intRange (-1) 9).foldl (fun st y =>
        let val := (x == 0 || x == 6 || y == 0 || y == 6 || (x > 1 && x < 5 && y > 1 && y < 5)) &&
          (x ≤ 6 && y ≤ 6 && x ≥ 0 && y ≥ 0)
        if x + xoff ≥ 0 && x + xoff < (vi.modulWidth : Int) && y + yoff ≥ 0 && y + yoff < (vi.modulWidth : Int) then
          set (x + xoff).toNat (y + yoff).toNat val st
        else st) st) st) := by
    intro xoff yoff st
    apply foldl_comm
    intro a x
    apply foldl_comm
    intro a y
    simp only
    split
    · exact hset _ _ _ _
    · rfl
  rw [hdp, hdp, hdp]

theorem drawAlignmentPatterns_comm (occ : σ → Nat → Nat → Bool) (hocc : ∀ st x y, occ (φ st) x y = occ st x y)
    (vi : VersionInfo) (st : σ) :
    drawAlignmentPatterns occ vi set (φ st) = φ (drawAlignmentPatterns occ vi set st) := by
  unfold drawAlignmentPatterns
  simp only
  apply foldl_comm
  intro a x
  apply foldl_comm
  intro a y
  rw [hocc]
  split
  · rfl
  · apply foldl_comm
    intro a x'
    apply foldl_comm
    intro a y'
    exact hset _ _ _ _

theorem drawFormatInfo_comm (vi : VersionInfo) (usedMask : Int) (st : σ) :
    drawFormatInfo vi usedMask set (φ st) = φ (drawFormatInfo vi usedMask set st) := by
  unfold drawFormatInfo
  simp only
  repeat' split
  all_goals first
    | rfl
    | (apply foldl_comm; intro a c; exact hset _ _ _ _)

theorem drawVersionInfo_comm (vi : VersionInfo) (st : σ) :
    drawVersionInfo vi set (φ st) = φ (drawVersionInfo vi set st) := by
  unfold drawVersionInfo
  split
  · rfl
  · split
    · apply foldl_comm
      intro a i
      simp only [hset]
    · rfl

end

/-! ### the three phases of `render` -/

theorem pushN_map (s s0 : Scheme) (dim : Nat) : ∀ (n : Nat),
    (List.range n).foldl (fun (a : Array QRCode) _ => a.push (newBarCodeWithColor dim s)) #[] =
      ((List.range n).foldl (fun (a : Array QRCode) _ => a.push (newBarCodeWithColor dim s0)) #[]).map (qrecolor s) := by
  intro n
  induction n with
  | zero => simp
  | succ n ih =>
    rw [List.range_succ, List.foldl_append, List.foldl_append, ih]
    simp only [List.foldl_cons, List.foldl_nil, Array.map_push]
    rfl

theorem occ_srecolor (s : Scheme) (st : RenderState) (x y : Nat) :
    (srecolor s st).occupied.get x y = st.occupied.get x y := rfl

theorem ite_comm {σ} (φ : σ → σ) (a : σ) (b b' : Bool) (hb : b' = b) (f : σ → σ) (hf : f (φ a) = φ (f a)) :
    (if b' = true then f (φ a) else φ a) = φ (if b = true then f a else a) := by
  subst hb
  cases b' <;> simp [hf]

theorem drawn_recolor (vi : VersionInfo) (s s0 : Scheme) : drawn vi s = srecolor s (drawn vi s0) := by
  unfold drawn
  simp only
  have h0 : RenderState.mk (newBarCodeWithColor vi.modulWidth s)
        ((List.range 8).foldl (fun a _ => a.push (newBarCodeWithColor vi.modulWidth s)) #[])
      = srecolor s (RenderState.mk (newBarCodeWithColor vi.modulWidth s0)
        ((List.range 8).foldl (fun a _ => a.push (newBarCodeWithColor vi.modulWidth s0)) #[])) := by
    unfold srecolor
    rw [pushN_map s s0]
    rfl
  rw [h0, drawFinderPatterns_comm (srecolor s) setAll (setAll_comm s),
    drawAlignmentPatterns_comm (srecolor s) setAll (setAll_comm s) _ (occ_srecolor s)]
  rw [foldl_comm (srecolor s) (fun (st : RenderState) i =>
    let st := if !st.occupied.get i 6 then setAll i 6 (i % 2 == 0) st else st
    let st := if !st.occupied.get 6 i then setAll 6 i (i % 2 == 0) st else st
    st)]
  · rw [setAll_comm, drawVersionInfo_comm (srecolor s) setAll (setAll_comm s),
      drawFormatInfo_comm (srecolor s) setOccupied (setOccupied_comm s)]
    apply foldl_comm
    intro a i
    exact drawFormatInfo_comm (srecolor s) (setResult i) (setResult_comm s i) _ _ _
  · intro a i
    simp only
    have e1 := ite_comm (srecolor s) a (!(a.occupied.get i 6)) (!((srecolor s a).occupied.get i 6)) rfl
      (setAll i 6 (i % 2 == 0)) (setAll_comm s _ _ _ _)
    rw [e1]
    exact ite_comm (srecolor s) _ _ _ rfl (setAll 6 i (i % 2 == 0)) (setAll_comm s _ _ _ _)

theorem iterateModules_qrecolor (s : Scheme) (q : QRCode) : iterateModules (qrecolor s q) = iterateModules q := rfl

theorem written_recolor (data : List Nat) (s : Scheme) (st : RenderState) :
    written data (srecolor s st) = ((written data st).1.map (qrecolor s), (written data st).2) := by
  unfold written
  simp only
  rw [show (srecolor s st).occupied = qrecolor s st.occupied from rfl, iterateModules_qrecolor,
    ← Array.foldl_toList, ← Array.foldl_toList]
  exact foldl_comm (fun acc : Array QRCode × Nat => (acc.1.map (qrecolor s), acc.2)) _ (by
    intro acc pos
    obtain ⟨rs, n⟩ := acc
    simp only
    rw [modifyAll_map s (fun i => setMasked pos.1 pos.2 _ i QRCode.set) (fun _ _ => rfl)]) _ (st.results, 0)

theorem calcPenalty_qrecolor (s : Scheme) (q : QRCode) : (qrecolor s q).calcPenalty = q.calcPenalty := rfl

theorem penStep_recolor (s s0 : Scheme) (rs : Array QRCode) (acc : Option Nat × Option Nat) (i : Nat) :
    penStep s (rs.map (qrecolor s)) acc i = penStep s0 rs acc i := by
  unfold penStep
  have : (rs.map (qrecolor s)).getD i (newBarCodeWithColor 0 s) = qrecolor s (rs.getD i (newBarCodeWithColor 0 s0)) := by
    simp only [Array.getD_eq_getD_getElem?, Array.getElem?_map]
    cases rs[i]? <;> rfl
  rw [this, calcPenalty_qrecolor]

theorem selectMask_recolor (s s0 : Scheme) (rs : Array QRCode) (n : Nat) :
    selectMask s (rs.map (qrecolor s), n) = (selectMask s0 (rs, n)).map (fun p => (qrecolor s p.1, p.2)) := by
  unfold selectMask
  simp only
  have : (List.range 8).foldl (penStep s (rs.map (qrecolor s))) (none, none) =
      (List.range 8).foldl (penStep s0 rs) (none, none) := by
    congr 1
    funext acc i
    exact penStep_recolor s s0 rs acc i
  rw [this]
  split
  · rfl
  · rw [Array.getElem?_map]
    rename_i i _
    cases rs[i]? <;> rfl

theorem renderWithMask_recolor (data : List Nat) (vi : VersionInfo) (s s0 : Scheme) :
    renderWithMask data vi s = (renderWithMask data vi s0).map (fun p => (qrecolor s p.1, p.2)) := by
  rw [renderWithMask_eq, renderWithMask_eq, drawn_recolor vi s s0, written_recolor, selectMask_recolor s s0]

theorem toBarcode_qrecolor (s : Scheme) (q : QRCode) : (qrecolor s q).toBarcode = Barcode.recolor s q.toBarcode := rfl

theorem qr_map (content : Bytes) (level mode : Nat) (s : Scheme) :
    Qr.encodeWithColor content level mode s = (Qr.encode content level mode).map (Barcode.recolor s) := by
  unfold Qr.encode Qr.encodeWithColor encodeQR
  split
  · rfl
  · split
    · rfl
    · rename_i bits vi _
      simp only [bind, Except.bind]
      cases splitToBlocks (iterateBytes bits) vi with
      | error e => rfl
      | ok blocks =>
        simp only []
        rw [renderWithMask_recolor _ _ s scheme16]
        cases renderWithMask (interleave blocks vi) vi scheme16 with
        | error e => rfl
        | ok r => rfl

end BV.Proofs.RenderQr
