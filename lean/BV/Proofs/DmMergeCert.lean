/-
  C02 item 7: the 24 merge certificates (kernel evaluation, linear in the number of modules).  For every table
  row the symbolic `Merge` succeeds, every bit it writes is the source the reference expects at that bit
  (`specSrc`: solid L, alternating clock track, or the mapping-matrix module of the region), every bit it does
  not write is an expected light clock module, and the expected picture passes the finder and mapping conditions.
-/
import BV.Proofs.DmMergeSym
namespace BV.Proofs.DmMergeCert
open BV.Model.Datamatrix BV.Spec.Datamatrix BV.Proofs.DmMergeSym
set_option maxRecDepth 1000000

theorem cert_0 : certOk (codeSizes.getD 0 default) (attrTable.getD 0 default) = true := by decide +kernel
theorem cert_1 : certOk (codeSizes.getD 1 default) (attrTable.getD 1 default) = true := by decide +kernel
theorem cert_2 : certOk (codeSizes.getD 2 default) (attrTable.getD 2 default) = true := by decide +kernel
theorem cert_3 : certOk (codeSizes.getD 3 default) (attrTable.getD 3 default) = true := by decide +kernel
theorem cert_4 : certOk (codeSizes.getD 4 default) (attrTable.getD 4 default) = true := by decide +kernel
theorem cert_5 : certOk (codeSizes.getD 5 default) (attrTable.getD 5 default) = true := by decide +kernel
theorem cert_6 : certOk (codeSizes.getD 6 default) (attrTable.getD 6 default) = true := by decide +kernel
theorem cert_7 : certOk (codeSizes.getD 7 default) (attrTable.getD 7 default) = true := by decide +kernel
theorem cert_8 : certOk (codeSizes.getD 8 default) (attrTable.getD 8 default) = true := by decide +kernel
theorem cert_9 : certOk (codeSizes.getD 9 default) (attrTable.getD 9 default) = true := by decide +kernel
theorem cert_10 : certOk (codeSizes.getD 10 default) (attrTable.getD 10 default) = true := by decide +kernel
theorem cert_11 : certOk (codeSizes.getD 11 default) (attrTable.getD 11 default) = true := by decide +kernel
theorem cert_12 : certOk (codeSizes.getD 12 default) (attrTable.getD 12 default) = true := by decide +kernel
theorem cert_13 : certOk (codeSizes.getD 13 default) (attrTable.getD 13 default) = true := by decide +kernel
theorem cert_14 : certOk (codeSizes.getD 14 default) (attrTable.getD 14 default) = true := by decide +kernel
theorem cert_15 : certOk (codeSizes.getD 15 default) (attrTable.getD 15 default) = true := by decide +kernel
theorem cert_16 : certOk (codeSizes.getD 16 default) (attrTable.getD 16 default) = true := by decide +kernel
theorem cert_17 : certOk (codeSizes.getD 17 default) (attrTable.getD 17 default) = true := by decide +kernel
theorem cert_18 : certOk (codeSizes.getD 18 default) (attrTable.getD 18 default) = true := by decide +kernel
theorem cert_19 : certOk (codeSizes.getD 19 default) (attrTable.getD 19 default) = true := by decide +kernel
theorem cert_20 : certOk (codeSizes.getD 20 default) (attrTable.getD 20 default) = true := by decide +kernel
theorem cert_21 : certOk (codeSizes.getD 21 default) (attrTable.getD 21 default) = true := by decide +kernel
theorem cert_22 : certOk (codeSizes.getD 22 default) (attrTable.getD 22 default) = true := by decide +kernel
theorem cert_23 : certOk (codeSizes.getD 23 default) (attrTable.getD 23 default) = true := by decide +kernel

/-- certificate (24 sizes) -/
theorem cert_table : ∀ i, i < 24 → certOk (codeSizes.getD i default) (attrTable.getD i default) = true := by
  intro i hi
  have : i = 0 ∨ i = 1 ∨ i = 2 ∨ i = 3 ∨ i = 4 ∨ i = 5 ∨ i = 6 ∨ i = 7 ∨ i = 8 ∨ i = 9 ∨ i = 10 ∨ i = 11 ∨ i = 12 ∨ i = 13 ∨ i = 14 ∨ i = 15 ∨ i = 16 ∨ i = 17 ∨ i = 18 ∨ i = 19 ∨ i = 20 ∨ i = 21 ∨ i = 22 ∨ i = 23 := by omega
  rcases this with rfl | rfl | rfl | rfl | rfl | rfl | rfl | rfl | rfl | rfl | rfl | rfl | rfl | rfl | rfl | rfl | rfl | rfl | rfl | rfl | rfl | rfl | rfl | rfl
  · exact cert_0
  · exact cert_1
  · exact cert_2
  · exact cert_3
  · exact cert_4
  · exact cert_5
  · exact cert_6
  · exact cert_7
  · exact cert_8
  · exact cert_9
  · exact cert_10
  · exact cert_11
  · exact cert_12
  · exact cert_13
  · exact cert_14
  · exact cert_15
  · exact cert_16
  · exact cert_17
  · exact cert_18
  · exact cert_19
  · exact cert_20
  · exact cert_21
  · exact cert_22
  · exact cert_23

end BV.Proofs.DmMergeCert
