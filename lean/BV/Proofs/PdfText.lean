/-
  BV.Proofs.PdfText — PDF417 Text compaction (`encodeText` of highlevel.go) against the ISO/IEC 15438 Text
  automaton of `BV.Spec.Pdf417` (`textValue` / `step`), for all inputs.

  Route:
  1. `emit sub ch np` is a fuel-free description of what the sub-mode loop does for ONE character
     (values pushed including latches and shifts, new sub-mode, loop rounds used ≤ 4); `loop_emit` shows
     that `encodeTextLoop` performs exactly that, `loop_eq` that with fuel ≥ 4·len the loop is `emitAll`
     (so the fuel `4·len + 4` of the model never runs out).
  2. `runVals` is the Spec automaton at the level of single Text values; `decVals` is its decidable
     list form.  `cert_emit` (certificate, `decide +kernel` over the 127 code points below 127, the four
     sub-modes and both look-ahead values) states that the values of `emit` decode to exactly the
     character and leave the decoder in the encoder's new sub-mode without pending shift.
  3. `packPairs` is `pairUp`; a codeword `30·a + b` with `a, b < 30` is two `runVals` steps (`step_pair`),
     an odd value list is padded with 29 (`pairUp_pad`), which is `ps` in Alpha/Lower/Mixed and `al` in
     Punctuation (`run_pad`).
-/
import BV.Model.Pdf417
import BV.Spec.Pdf417
namespace BV.Proofs.PdfText
open BV BV.Model.Pdf417 BV.Spec.Pdf417 BV.Gen.Pdf417

/-- result of handling one character: values pushed, new sub-mode, loop rounds used -/
structure Emit where
  vals : List Nat
  sub : Nat
  steps : Nat

/-- a non-consuming round (`continue`) that pushes `v` before the rest happens -/
def Emit.pre (v : Nat) (e : Emit) : Emit := ⟨v :: e.vals, e.sub, e.steps + 1⟩

/-- one character in sub-mode Upper (Alpha): consume, or latch to Lower / Mixed and consume there, or `ps`
    + Punctuation value -/
def emitUpper (ch : Nat) : Emit :=
  if isAlphaUpper ch then ⟨[if ch == 32 then 26 else ch - 65], 3, 1⟩
  else if isAlphaLower ch then ⟨[27, if ch == 32 then 26 else ch - 97], 4, 2⟩
  else if isMixed ch then ⟨[28, mapAt mixedMap ch], 5, 2⟩
  else ⟨[29, mapAt punctMap ch], 3, 1⟩

/-- one character in sub-mode Lower: consume, `as` + Alpha value, latch to Mixed and consume there, or `ps`
    + Punctuation value -/
def emitLower (ch : Nat) : Emit :=
  if isAlphaLower ch then ⟨[if ch == 32 then 26 else ch - 97], 4, 1⟩
  else if isAlphaUpper ch then ⟨[27, ch - 65], 4, 1⟩
  else if isMixed ch then ⟨[28, mapAt mixedMap ch], 5, 2⟩
  else ⟨[29, mapAt punctMap ch], 4, 1⟩

/-- one character in sub-mode Punctuation (the `default` branch, which keeps whatever `sub` it was entered
    with): consume, or `al` (29) and continue in Upper -/
def emitPunct (sub ch : Nat) : Emit :=
  if isPunctuation ch then ⟨[mapAt punctMap ch], sub, 1⟩
  else (emitUpper ch).pre 29

/-- one character in sub-mode Mixed: consume, latch to Upper / Lower, latch to Punctuation when the next
    character is Punctuation too (`np`), or `ps` + Punctuation value -/
def emitMixed (ch : Nat) (np : Bool) : Emit :=
  if isMixed ch then ⟨[mapAt mixedMap ch], 5, 1⟩
  else if isAlphaUpper ch then (emitUpper ch).pre 28
  else if isAlphaLower ch then (emitLower ch).pre 27
  else if np then (emitPunct 6 ch).pre 25
  else ⟨[29, mapAt punctMap ch], 5, 1⟩

/-- one character of the sub-mode loop, dispatching on the sub-mode constant exactly as the loop does
    (anything but 3, 4, 5 is Punctuation) -/
def emit (sub ch : Nat) (np : Bool) : Emit :=
  if sub == 3 then emitUpper ch else if sub == 4 then emitLower ch
  else if sub == 5 then emitMixed ch np else emitPunct sub ch

/-- `isPunctuation text[idx+1]` (false at the end) -/
def nextPunct : List Nat → Bool
  | next :: _ => isPunctuation next
  | [] => false

/-- the loop on the empty suffix returns its state, whatever the fuel -/
theorem loop_nil (f sub : Nat) (tmp : Array Nat) : encodeTextLoop f [] sub tmp = (sub, tmp) := by
  cases f <;> rfl




/-- one round of the loop, with the look-ahead written as `nextPunct` -/
theorem loop_succ (f ch : Nat) (rest : List Nat) (sub : Nat) (tmp : Array Nat) :
    encodeTextLoop (f + 1) (ch :: rest) sub tmp =
    if sub == 3 then
      if isAlphaUpper ch then
        encodeTextLoop f rest sub (tmp.push (if ch == 32 then 26 else ch - 65))
      else if isAlphaLower ch then encodeTextLoop f (ch :: rest) 4 (tmp.push 27)
      else if isMixed ch then encodeTextLoop f (ch :: rest) 5 (tmp.push 28)
      else encodeTextLoop f rest sub ((tmp.push 29).push (mapAt punctMap ch))
    else if sub == 4 then
      if isAlphaLower ch then
        encodeTextLoop f rest sub (tmp.push (if ch == 32 then 26 else ch - 97))
      else if isAlphaUpper ch then encodeTextLoop f rest sub ((tmp.push 27).push (ch - 65))
      else if isMixed ch then encodeTextLoop f (ch :: rest) 5 (tmp.push 28)
      else encodeTextLoop f rest sub ((tmp.push 29).push (mapAt punctMap ch))
    else if sub == 5 then
      if isMixed ch then encodeTextLoop f rest sub (tmp.push (mapAt mixedMap ch))
      else if isAlphaUpper ch then encodeTextLoop f (ch :: rest) 3 (tmp.push 28)
      else if isAlphaLower ch then encodeTextLoop f (ch :: rest) 4 (tmp.push 27)
      else if nextPunct rest then encodeTextLoop f (ch :: rest) 6 (tmp.push 25)
      else encodeTextLoop f rest sub ((tmp.push 29).push (mapAt punctMap ch))
    else
      if isPunctuation ch then encodeTextLoop f rest sub (tmp.push (mapAt punctMap ch))
      else encodeTextLoop f (ch :: rest) 3 (tmp.push 29) := by
  cases rest <;> rfl


/-- appending two values is two pushes -/
theorem app2 (tmp : Array Nat) (x y : Nat) : tmp ++ #[x, y] = (tmp.push x).push y := by
  apply Array.ext'; simp

/-- in sub-mode Upper the loop spends `(emitUpper ch).steps` rounds on `ch`, pushes `(emitUpper ch).vals`
    and continues with the rest in `(emitUpper ch).sub` -/
theorem loop_upper (f ch : Nat) (rest : List Nat) (tmp : Array Nat) :
    encodeTextLoop (f + (emitUpper ch).steps) (ch :: rest) 3 tmp
      = encodeTextLoop f rest (emitUpper ch).sub (tmp ++ (emitUpper ch).vals.toArray) := by
  unfold emitUpper
  cases h1 : isAlphaUpper ch <;> cases h2 : isAlphaLower ch <;> cases h3 : isMixed ch <;>
    simp [*, loop_succ, app2]

/-- the same for sub-mode Lower -/
theorem loop_lower (f ch : Nat) (rest : List Nat) (tmp : Array Nat) :
    encodeTextLoop (f + (emitLower ch).steps) (ch :: rest) 4 tmp
      = encodeTextLoop f rest (emitLower ch).sub (tmp ++ (emitLower ch).vals.toArray) := by
  unfold emitLower
  cases h1 : isAlphaUpper ch <;> cases h2 : isAlphaLower ch <;> cases h3 : isMixed ch <;>
    simp [*, loop_succ, app2]

/-- the same for sub-mode Punctuation (any sub-mode value other than 3, 4, 5) -/
theorem loop_punct (f ch sub : Nat) (hs : sub ≠ 3 ∧ sub ≠ 4 ∧ sub ≠ 5) (rest : List Nat) (tmp : Array Nat) :
    encodeTextLoop (f + (emitPunct sub ch).steps) (ch :: rest) sub tmp
      = encodeTextLoop f rest (emitPunct sub ch).sub (tmp ++ (emitPunct sub ch).vals.toArray) := by
  unfold emitPunct
  cases h : isPunctuation ch
  · simp only [Bool.false_eq_true, if_false, Emit.pre, ← Nat.add_assoc]
    rw [loop_succ]; simp only [beq_iff_eq, hs, h, if_false, Bool.false_eq_true]
    rw [loop_upper]; congr 1; apply Array.ext'; simp
  · simp [h, loop_succ, hs]

/-- the same for sub-mode Mixed; the look-ahead is `nextPunct rest` -/
theorem loop_mixed (f ch : Nat) (rest : List Nat) (tmp : Array Nat) :
    encodeTextLoop (f + (emitMixed ch (nextPunct rest)).steps) (ch :: rest) 5 tmp
      = encodeTextLoop f rest (emitMixed ch (nextPunct rest)).sub
          (tmp ++ (emitMixed ch (nextPunct rest)).vals.toArray) := by
  unfold emitMixed
  cases h1 : isMixed ch
  · cases h2 : isAlphaUpper ch
    · cases h3 : isAlphaLower ch
      · cases h4 : nextPunct rest
        · simp [*, loop_succ, app2]
        · simp only [Bool.false_eq_true, if_false, if_true, Emit.pre, ← Nat.add_assoc]
          rw [loop_succ]; simp [h1, h2, h3, h4]
          rw [loop_punct _ _ _ (by decide)]; congr 1; apply Array.ext'; simp
      · simp only [Bool.false_eq_true, if_false, if_true, Emit.pre, ← Nat.add_assoc]
        rw [loop_succ]; simp [h1, h2, h3]
        rw [loop_lower]; congr 1; apply Array.ext'; simp
    · simp only [Bool.false_eq_true, if_false, if_true, Emit.pre, ← Nat.add_assoc]
      rw [loop_succ]; simp [h1, h2]
      rw [loop_upper]; congr 1; apply Array.ext'; simp
  · simp [*, loop_succ]

/-- for every sub-mode value and every rune: the loop spends `(emit …).steps` rounds on the first
    character, pushes `(emit …).vals` and continues with the rest in `(emit …).sub` -/
theorem loop_emit (f sub ch : Nat) (rest : List Nat) (tmp : Array Nat) :
    encodeTextLoop (f + (emit sub ch (nextPunct rest)).steps) (ch :: rest) sub tmp
      = encodeTextLoop f rest (emit sub ch (nextPunct rest)).sub
          (tmp ++ (emit sub ch (nextPunct rest)).vals.toArray) := by
  unfold emit
  by_cases h3 : sub = 3
  · subst h3; simp [loop_upper]
  · by_cases h4 : sub = 4
    · subst h4; simp [loop_lower]
    · by_cases h5 : sub = 5
      · subst h5; simp [loop_mixed]
      · simp [h3, h4, h5, loop_punct]


/-- Upper needs at most 2 rounds per character -/
theorem emitUpper_steps (ch : Nat) : (emitUpper ch).steps ≤ 2 := by
  unfold emitUpper; repeat' split
  all_goals simp
/-- Lower needs at most 2 rounds per character -/
theorem emitLower_steps (ch : Nat) : (emitLower ch).steps ≤ 2 := by
  unfold emitLower; repeat' split
  all_goals simp
/-- Punctuation needs at most 3 rounds per character -/
theorem emitPunct_steps (sub ch : Nat) : (emitPunct sub ch).steps ≤ 3 := by
  unfold emitPunct; have := emitUpper_steps ch; split <;> simp [Emit.pre]; omega
/-- Mixed needs at most 4 rounds per character -/
theorem emitMixed_steps (ch : Nat) (np : Bool) : (emitMixed ch np).steps ≤ 4 := by
  unfold emitMixed
  have := emitUpper_steps ch; have := emitLower_steps ch; have := emitPunct_steps 6 ch
  repeat' split
  all_goals simp [Emit.pre]
  all_goals omega
/-- every character is consumed after at most 4 rounds of the loop (arbitrary rune, arbitrary sub-mode) -/
theorem emit_steps (sub ch : Nat) (np : Bool) : (emit sub ch np).steps ≤ 4 := by
  unfold emit
  have := emitUpper_steps ch; have := emitLower_steps ch; have := emitPunct_steps sub ch
  have := emitMixed_steps ch np
  repeat' split
  all_goals omega

/-- fuel-free description of the loop: values pushed for the whole text and the final sub-mode -/
def emitAll : Nat → List Nat → List Nat × Nat
  | sub, [] => ([], sub)
  | sub, ch :: rest =>
    let e := emit sub ch (nextPunct rest)
    let r := emitAll e.sub rest
    (e.vals ++ r.1, r.2)

/-- with fuel `≥ 4·len` the loop consumes the whole text: the fuel `4·len + 4` never runs out -/
theorem loop_eq (text : List Nat) : ∀ (fuel sub : Nat) (tmp : Array Nat), 4 * text.length ≤ fuel →
    encodeTextLoop fuel text sub tmp = ((emitAll sub text).2, tmp ++ (emitAll sub text).1.toArray) := by
  induction text with
  | nil => intro fuel sub tmp _; simp [loop_nil, emitAll]
  | cons ch rest ih =>
    intro fuel sub tmp hf
    have hk := emit_steps sub ch (nextPunct rest)
    simp only [List.length_cons] at hf
    have : fuel = (fuel - (emit sub ch (nextPunct rest)).steps) + (emit sub ch (nextPunct rest)).steps := by
      omega
    rw [this, loop_emit, ih _ _ _ (by omega)]
    simp only [emitAll]
    congr 1; apply Array.ext'; simp


/-! ### the decoder at the level of Text values -/

/-- the Spec sub-mode that corresponds to the encoder's sub-mode constant -/
def subOf (n : Nat) : Sub :=
  if n == 3 then .alpha else if n == 4 then .lower else if n == 5 then .mixed else .punct

/-- one Text value through the Spec automaton -/
def stepVal (st : Sub × Shift × Array UInt8) (v : Nat) : Except String (Sub × Shift × Array UInt8) :=
  match textValue st.1 st.2.1 v with
  | .ok (sub, sh, c) => .ok (sub, sh, pushOpt st.2.2 c)
  | .error e => .error e

/-- the Spec automaton over a list of Text values (`Except String`, like `decodeData`) -/
def runVals (st : Sub × Shift × Array UInt8) (vals : List Nat) : Except String (Sub × Shift × Array UInt8) :=
  vals.foldlM stepVal st

/-- the same automaton collecting the decoded characters in a list (decidable form, for certificates) -/
def decVals : Sub → Shift → List Nat → Option (Sub × Shift × List Nat)
  | sub, sh, [] => some (sub, sh, [])
  | sub, sh, v :: vs =>
    match textValue sub sh v with
    | .ok (sub', sh', c) =>
      match decVals sub' sh' vs with
      | some (s, h, cs) => some (s, h, c.toList ++ cs)
      | none => none
    | .error _ => none


/-- check for one code point: if it is a Text character, then for both look-ahead values and the four
    sub-modes the values of `emit` decode to exactly `[ch]`, ending in the sub-mode `emit` returns, no
    pending shift -/
def certEmit (ch : Nat) : Bool :=
  !isText ch || [true, false].all fun np => [3, 4, 5, 6].all fun sub =>
    decide (decVals (subOf sub) .none (emit sub ch np).vals = some (subOf (emit sub ch np).sub, .none, [ch]))

/-- certificate: `certEmit` holds for all 127 code points below 127 (kernel evaluation) -/
theorem cert_emit : ∀ ch < 127, certEmit ch = true := by
  decide +kernel


/-- a Text character is below 127 -/
theorem isText_lt (ch : Nat) (h : isText ch = true) : ch < 127 := by
  simp [isText] at h; omega

/-- the values emitted for a Text character decode to that character; the decoder ends in the encoder's new
    sub-mode with no pending shift -/
theorem emit_dec (sub ch : Nat) (np : Bool) (hs : 3 ≤ sub ∧ sub ≤ 6) (h : isText ch = true) :
    decVals (subOf sub) .none (emit sub ch np).vals = some (subOf (emit sub ch np).sub, .none, [ch]) := by
  have hc := cert_emit ch (isText_lt ch h)
  simp only [certEmit, h, Bool.not_true, Bool.false_or, List.all_eq_true, decide_eq_true_eq] at hc
  exact hc np (by cases np <;> simp) sub (by simp; omega)

/-- no value: nothing happens -/
theorem runVals_nil (st : Sub × Shift × Array UInt8) : runVals st [] = .ok st := rfl

/-- `runVals` unfolds one value -/
theorem runVals_cons (st : Sub × Shift × Array UInt8) (v : Nat) (vs : List Nat) :
    runVals st (v :: vs) = (stepVal st v >>= fun st' => runVals st' vs) := by
  simp [runVals, List.foldlM_cons]

/-- `runVals` is compositional over `++` -/
theorem runVals_append (st : Sub × Shift × Array UInt8) (l l' : List Nat) :
    runVals st (l ++ l') = (runVals st l >>= fun st' => runVals st' l') := by
  simp [runVals, List.foldlM_append]

/-- `decVals` is `runVals` with the output kept as a list of characters: the characters are appended (as
    bytes) to any output array -/
theorem runVals_of_decVals (vs : List Nat) : ∀ (sub : Sub) (sh : Shift) (out : Array UInt8) (s : Sub) (h : Shift)
    (cs : List Nat), decVals sub sh vs = some (s, h, cs) →
    runVals (sub, sh, out) vs = .ok (s, h, out ++ (cs.map UInt8.ofNat).toArray) := by
  induction vs with
  | nil => intro sub sh out s h cs hd; simp [decVals] at hd; simp [runVals_nil, hd]
  | cons v vs ih =>
    intro sub sh out s h cs hd
    rw [decVals] at hd
    cases hv : textValue sub sh v with
    | error e => simp [hv] at hd
    | ok r =>
      obtain ⟨sub', sh', c⟩ := r
      simp only [hv] at hd
      cases hr : decVals sub' sh' vs with
      | none => simp [hr] at hd
      | some r' =>
        obtain ⟨s', h', cs'⟩ := r'
        simp only [hr, Option.some.injEq, Prod.mk.injEq] at hd
        obtain ⟨rfl, rfl, rfl⟩ := hd
        rw [runVals_cons]
        simp only [stepVal, hv]
        show runVals (sub', sh', pushOpt out c) vs = _
        rw [ih _ _ _ _ _ _ hr]
        cases c <;> simp [pushOpt]


/-! ### sub-mode range -/

/-- Upper leaves a sub-mode in 3..6 -/
theorem emitUpper_sub (ch : Nat) : 3 ≤ (emitUpper ch).sub ∧ (emitUpper ch).sub ≤ 6 := by
  unfold emitUpper; repeat' split
  all_goals simp
/-- Lower leaves a sub-mode in 3..6 -/
theorem emitLower_sub (ch : Nat) : 3 ≤ (emitLower ch).sub ∧ (emitLower ch).sub ≤ 6 := by
  unfold emitLower; repeat' split
  all_goals simp
/-- Punctuation leaves a sub-mode in 3..6 (given it was entered with one) -/
theorem emitPunct_sub (sub ch : Nat) (hs : 3 ≤ sub ∧ sub ≤ 6) :
    3 ≤ (emitPunct sub ch).sub ∧ (emitPunct sub ch).sub ≤ 6 := by
  unfold emitPunct; have := emitUpper_sub ch; split <;> simp [Emit.pre] <;> omega
/-- Mixed leaves a sub-mode in 3..6 -/
theorem emitMixed_sub (ch : Nat) (np : Bool) : 3 ≤ (emitMixed ch np).sub ∧ (emitMixed ch np).sub ≤ 6 := by
  unfold emitMixed
  have := emitUpper_sub ch; have := emitLower_sub ch; have := emitPunct_sub 6 ch (by omega)
  repeat' split
  all_goals simp [Emit.pre]
  all_goals omega
/-- one character keeps the sub-mode in 3..6 -/
theorem emit_sub (sub ch : Nat) (np : Bool) (hs : 3 ≤ sub ∧ sub ≤ 6) :
    3 ≤ (emit sub ch np).sub ∧ (emit sub ch np).sub ≤ 6 := by
  unfold emit
  have := emitUpper_sub ch; have := emitLower_sub ch; have := emitPunct_sub sub ch hs
  have := emitMixed_sub ch np
  repeat' split
  all_goals omega

/-- the whole text keeps the sub-mode in 3..6 -/
theorem emitAll_sub (text : List Nat) : ∀ sub, 3 ≤ sub ∧ sub ≤ 6 →
    3 ≤ (emitAll sub text).2 ∧ (emitAll sub text).2 ≤ 6 := by
  induction text with
  | nil => intro sub hs; simpa [emitAll] using hs
  | cons ch rest ih => intro sub hs; simp only [emitAll]; exact ih _ (emit_sub _ _ _ hs)

/-- the value-level decoder reads back the whole text from the values the loop pushes -/
theorem emitAll_dec (text : List Nat) : ∀ (sub : Nat) (out : Array UInt8), 3 ≤ sub ∧ sub ≤ 6 →
    (∀ ch ∈ text, isText ch = true) →
    runVals (subOf sub, .none, out) (emitAll sub text).1
      = .ok (subOf (emitAll sub text).2, .none, out ++ (text.map UInt8.ofNat).toArray) := by
  induction text with
  | nil => intro sub out _ _; simp [emitAll, runVals_nil]
  | cons ch rest ih =>
    intro sub out hs ht
    simp only [emitAll]
    rw [runVals_append, runVals_of_decVals _ _ _ _ _ _ _ (emit_dec sub ch _ hs (ht ch (by simp)))]
    show runVals _ _ = _
    rw [ih _ _ (emit_sub _ _ _ hs) (fun c hc => ht c (by simp [hc]))]
    simp

/-! ### every value is below 30 (arbitrary runes) -/

/-- `m[ch]` is below 30 if every stored value is (0 for a missing key) -/
theorem mapAt_lt (m : List (Nat × Nat)) (hm : ∀ p ∈ m, p.2 < 30) (ch : Nat) : mapAt m ch < 30 := by
  unfold mapAt
  induction m with
  | nil => simp
  | cons p m ih =>
    obtain ⟨k, v⟩ := p
    simp only [List.lookup]
    cases hk : ch == k
    · simpa using ih (fun p hp => hm p (by simp [hp]))
    · simpa using hm (k, v) (by simp)

/-- `mixedMap[ch] < 30` for every rune (stored values: certificate by `decide`) -/
theorem mixedAt_lt (ch : Nat) : mapAt mixedMap ch < 30 := mapAt_lt _ (by decide) ch
/-- `punctMap[ch] < 30` for every rune (stored values: certificate by `decide`) -/
theorem punctAt_lt (ch : Nat) : mapAt punctMap ch < 30 := mapAt_lt _ (by decide) ch

/-- values pushed in Upper are below 30, for every rune -/
theorem emitUpper_lt (ch : Nat) : ∀ v ∈ (emitUpper ch).vals, v < 30 := by
  have := mixedAt_lt ch; have := punctAt_lt ch
  unfold emitUpper
  repeat' split
  all_goals simp_all [isAlphaUpper, isAlphaLower]
  all_goals omega


/-- values pushed in Lower are below 30, for every rune -/
theorem emitLower_lt (ch : Nat) : ∀ v ∈ (emitLower ch).vals, v < 30 := by
  have := mixedAt_lt ch; have := punctAt_lt ch
  unfold emitLower
  repeat' split
  all_goals simp_all [isAlphaUpper, isAlphaLower]
  all_goals omega

/-- values pushed in Punctuation are below 30, for every rune -/
theorem emitPunct_lt (sub ch : Nat) : ∀ v ∈ (emitPunct sub ch).vals, v < 30 := by
  have := punctAt_lt ch; have := emitUpper_lt ch
  unfold emitPunct
  split <;> simp_all [Emit.pre]

/-- values pushed in Mixed are below 30, for every rune -/
theorem emitMixed_lt (ch : Nat) (np : Bool) : ∀ v ∈ (emitMixed ch np).vals, v < 30 := by
  have := mixedAt_lt ch; have := punctAt_lt ch
  have := emitUpper_lt ch; have := emitLower_lt ch; have := emitPunct_lt 6 ch
  unfold emitMixed
  repeat' split
  all_goals simp_all [Emit.pre]

/-- values pushed for one character are below 30, for every rune and every sub-mode value -/
theorem emit_lt (sub ch : Nat) (np : Bool) : ∀ v ∈ (emit sub ch np).vals, v < 30 := by
  unfold emit
  repeat' split
  · exact emitUpper_lt ch
  · exact emitLower_lt ch
  · exact emitMixed_lt ch np
  · exact emitPunct_lt sub ch

/-- all values pushed by the loop are below 30, for arbitrary runes and sub-mode -/
theorem emitAll_lt (text : List Nat) : ∀ sub, ∀ v ∈ (emitAll sub text).1, v < 30 := by
  induction text with
  | nil => intro sub v hv; simp [emitAll] at hv
  | cons ch rest ih =>
    intro sub v hv
    simp only [emitAll, List.mem_append] at hv
    rcases hv with hv | hv
    · exact emit_lt _ _ _ v hv
    · exact ih _ v hv

/-! ### pair packing -/

/-- consecutive pairs `a, b ↦ 30·a + b`; a leftover value is dropped -/
def pairUp : List Nat → List Nat
  | a :: b :: rest => (a * 30 + b) :: pairUp rest
  | _ => []

/-- the `h` that `packPairs` returns -/
def lastH : List Nat → Nat → Nat
  | a :: b :: rest, _ => lastH rest (a * 30 + b)
  | [a], _ => a
  | [], h => h

/-- the packing loop started at an even index appends `pairUp l` and returns `lastH l h` -/
theorem packGo_eq (l : List Nat) : ∀ (i h : Nat) (res : List Nat), i % 2 = 0 →
    packPairs.go l i h res = (lastH l h, res ++ pairUp l) := by
  induction l using pairUp.induct with
  | case1 a b rest ih =>
    intro i h res hi
    have h1 : (i + 1) % 2 = 1 := by omega
    simp [packPairs.go, hi, h1, pairUp, lastH]
    rw [ih _ _ _ (by omega)]; simp
  | case2 l hl =>
    intro i h res hi
    match l, hl with
    | [], _ => simp [packPairs.go, pairUp, lastH]
    | [a], _ => simp [packPairs.go, pairUp, lastH, hi]
    | a :: b :: rest, hl => exact absurd rfl (hl a b rest)

/-- `packPairs` in closed form -/
theorem packPairs_eq (l : List Nat) : packPairs l = (lastH l 0, pairUp l) := by
  simp [packPairs, packGo_eq]


/-- pairs of values below 30 are codewords below 900 -/
theorem pairUp_lt (l : List Nat) (hl : ∀ v ∈ l, v < 30) : ∀ c ∈ pairUp l, c < 900 := by
  induction l using pairUp.induct with
  | case1 a b rest ih =>
    intro c hc
    simp only [pairUp, List.mem_cons] at hc
    have ha := hl a (by simp); have hb := hl b (by simp)
    rcases hc with rfl | hc
    · omega
    · exact ih (fun v hv => hl v (by simp [hv])) c hc
  | case2 l hl' =>
    intro c hc
    match l, hl' with
    | [], _ => simp [pairUp] at hc
    | [a], _ => simp [pairUp] at hc
    | a :: b :: rest, hl' => exact absurd rfl (hl' a b rest)

/-- padding an odd-length value list: the extra codeword is the pair (leftover, 29) -/
theorem pairUp_pad (l : List Nat) (h : Nat) (hodd : l.length % 2 = 1) :
    pairUp l ++ [lastH l h * 30 + 29] = pairUp (l ++ [29]) := by
  induction l using pairUp.induct generalizing h with
  | case1 a b rest ih =>
    simp only [List.length_cons] at hodd
    simp [pairUp, lastH, ih (a * 30 + b) (by omega)]
  | case2 l hl' =>
    match l, hl' with
    | [], _ => simp at hodd
    | [a], _ => simp [pairUp, lastH]
    | a :: b :: rest, hl' => exact absurd rfl (hl' a b rest)

/-- one codeword made of two values below 30 is two steps of the value-level decoder -/
theorem step_pair (sub : Sub) (sh : Shift) (out : Array UInt8) (a b : Nat) (ha : a < 30) (hb : b < 30) :
    step (Mode.text sub sh, out) (a * 30 + b)
      = (runVals (sub, sh, out) [a, b] >>= fun st => pure (Mode.text st.1 st.2.1, st.2.2)) := by
  have h1 : ¬ (a * 30 + b ≥ 929) := by omega
  have h2 : a * 30 + b < 900 := by omega
  have h3 : (a * 30 + b) / 30 = a := by omega
  have h4 : (a * 30 + b) % 30 = b := by omega
  simp only [step, h1, h2, h3, h4, if_true, if_false, runVals_cons, runVals_nil, stepVal]
  cases textValue sub sh a with
  | error e => rfl
  | ok r =>
    obtain ⟨s1, h1, c1⟩ := r
    cases hb2 : textValue s1 h1 b with
    | error e => simp [bind, Except.bind, hb2]
    | ok r => simp [bind, Except.bind, hb2, pure, Except.pure]

/-- the Spec `step` over the packed codewords of an even-length list of values below 30 is the value-level
    decoder over the list -/
theorem fold_pairUp (l : List Nat) : ∀ (sub : Sub) (sh : Shift) (out : Array UInt8),
    l.length % 2 = 0 → (∀ v ∈ l, v < 30) →
    (pairUp l).foldlM step (Mode.text sub sh, out)
      = (runVals (sub, sh, out) l >>= fun st => pure (Mode.text st.1 st.2.1, st.2.2)) := by
  induction l using pairUp.induct with
  | case1 a b rest ih =>
    intro sub sh out hlen hl
    simp only [List.length_cons] at hlen
    have ha := hl a (by simp); have hb := hl b (by simp)
    rw [pairUp, List.foldlM_cons, step_pair _ _ _ _ _ ha hb]
    rw [show a :: b :: rest = [a, b] ++ rest from rfl, runVals_append]
    cases runVals (sub, sh, out) [a, b] with
    | error e => rfl
    | ok st =>
      obtain ⟨s, h, o⟩ := st
      exact ih s h o (by omega) (fun v hv => hl v (by simp [hv]))
  | case2 l hl' =>
    intro sub sh out hlen hl
    match l, hl' with
    | [], _ => rfl
    | [a], _ => simp at hlen
    | a :: b :: rest, hl' => exact absurd rfl (hl' a b rest)


/-! ### `encodeText` -/

/-- closed form of `encodeText`: the values of `emitAll`, padded with 29 to even length, packed in pairs -/
theorem encodeText_eq (text : List Nat) (submode : Nat) :
    encodeText text submode =
      if (emitAll submode text).1.length % 2 = 1 then
        (if (emitAll submode text).2 == 6 then 3 else (emitAll submode text).2,
          pairUp ((emitAll submode text).1 ++ [29]))
      else ((emitAll submode text).2, pairUp (emitAll submode text).1) := by
  unfold encodeText
  rw [loop_eq text _ _ _ (by omega)]
  have hl : (#[] ++ (emitAll submode text).1.toArray).toList = (emitAll submode text).1 := by simp
  simp only [hl, packPairs_eq, c_subPunct, c_subUpper]
  by_cases h : (emitAll submode text).1.length % 2 = 1
  · simp [h, pairUp_pad]
  · have : (emitAll submode text).1.length % 2 = 0 := by omega
    simp [this]

/-- the pad value 29 seen by the decoder after a complete Text run -/
theorem run_pad (s : Nat) (hs : 3 ≤ s ∧ s ≤ 6) (o : Array UInt8) :
    ∃ sh, runVals (subOf s, .none, o) [29] = .ok (subOf (if s == 6 then 3 else s), sh, o) := by
  obtain ⟨h1, h2⟩ := hs
  have : s = 3 ∨ s = 4 ∨ s = 5 ∨ s = 6 := by omega
  rcases this with rfl | rfl | rfl | rfl
  · exact ⟨.ps, rfl⟩
  · exact ⟨.ps, rfl⟩
  · exact ⟨.ps, rfl⟩
  · exact ⟨.none, rfl⟩

/-- every codeword emitted by `encodeText` is a pair of Text values, hence < 900 — for ARBITRARY runes and
    sub-mode (used for the no-panic property) -/
theorem encodeText_lt (text : List Nat) (submode : Nat) : ∀ c ∈ (encodeText text submode).2, c < 900 := by
  rw [encodeText_eq]
  have h := emitAll_lt text submode
  split
  · exact pairUp_lt _ (by
      intro v hv; simp only [List.mem_append, List.mem_singleton] at hv
      rcases hv with hv | rfl
      · exact h v hv
      · decide)
  · exact pairUp_lt _ h

/-- the returned sub-mode is one of the four constants (given the incoming one is) -/
theorem encodeText_sub (text : List Nat) (submode : Nat) (hs : 3 ≤ submode ∧ submode ≤ 6) :
    3 ≤ (encodeText text submode).1 ∧ (encodeText text submode).1 ≤ 6 := by
  rw [encodeText_eq]
  have h := emitAll_sub text submode hs
  split
  · simp only; split <;> omega
  · exact h

/-- round trip: the Spec Text decoder, started in the encoder's incoming sub-mode without pending shift and
    with output `out`, fed the codewords of `encodeText text submode`, appends exactly `text` (as bytes) to
    `out` and ends in the sub-mode the encoder returns (possibly with a pending shift `sh`, which is the
    pad) -/
theorem encodeText_roundtrip (text : List Nat) (submode : Nat) (hs : 3 ≤ submode ∧ submode ≤ 6)
    (ht : ∀ ch ∈ text, isText ch = true) (out : Array UInt8) :
    ∃ sh, (encodeText text submode).2.foldlM step (Mode.text (subOf submode) .none, out)
        = .ok (Mode.text (subOf (encodeText text submode).1) sh,
            out ++ (text.map UInt8.ofNat).toArray) := by
  rw [encodeText_eq]
  have hlt := emitAll_lt text submode
  have hsub := emitAll_sub text submode hs
  have hdec := emitAll_dec text submode out hs ht
  split
  next hodd =>
    obtain ⟨sh, hp⟩ := run_pad _ hsub (out ++ (text.map UInt8.ofNat).toArray)
    refine ⟨sh, ?_⟩
    simp only
    rw [fold_pairUp _ _ _ _ (by simp; omega) (by
      intro v hv; simp only [List.mem_append, List.mem_singleton] at hv
      rcases hv with hv | rfl
      · exact hlt v hv
      · decide)]
    rw [runVals_append, hdec]
    show (runVals _ [29] >>= _) = _
    rw [hp]; rfl
  next heven =>
    refine ⟨.none, ?_⟩
    simp only
    rw [fold_pairUp _ _ _ _ (by omega) hlt, hdec]; rfl

/-- the hypotheses of `encodeText_roundtrip` are satisfiable on a non-trivial input: "Ab1;{!" from Upper
    visits all four sub-modes (A, ll b, ml 1, pl ; { !) and produces nine values, so the pad 29 falls in
    Punctuation where it is `al`: the encoder returns Upper (3) -/
example : (3 ≤ 3 ∧ 3 ≤ 6) ∧ (∀ ch ∈ [65, 98, 49, 59, 123, 33], isText ch = true) ∧
    encodeText [65, 98, 49, 59, 123, 33] 3 = (3, [27, 58, 55, 26, 329]) := by decide

/-- "Ab1;{! x": an even number of values, no pad, the run ends in Lower (4) -/
example : encodeText [65, 98, 49, 59, 123, 33, 32, 120] 3 = (4, [27, 58, 55, 26, 329, 807, 719]) := by decide

end BV.Proofs.PdfText
