/-
  Proofs for C09: `Scale` is the integer, centred enlargement (or an error).
-/
import BV.Model.Scale
namespace BV.Proofs.Scale
open BV BV.Model.Scale

/-- the enlargement the property demands: source `src` (size `w0 × h0`) drawn with factor `k` at offset
    (`ox`, `oy`) on a `fill` background -/
def enlarged (src : Nat → Nat → Colour) (w0 h0 k ox oy : Nat) (fill : Colour) (x y : Nat) : Colour :=
  if ox ≤ x ∧ x < ox + w0 * k ∧ oy ≤ y ∧ y < oy + h0 * k then src ((x - ox) / k) ((y - oy) / k) else fill

/-- 1-D: every row shows source row 0 -/
def enlarged1 (src : Nat → Nat → Colour) (w0 k ox : Nat) (fill : Colour) (x _y : Nat) : Colour :=
  if ox ≤ x ∧ x < ox + w0 * k then src ((x - ox) / k) 0 else fill

theorem tdiv_nat (a b : Nat) : (a : Int).tdiv (b : Int) = ((a / b : Nat) : Int) := by
  rw [Int.tdiv_eq_ediv_of_nonneg (by omega)]
  exact (Int.natCast_ediv a b).symm

theorem div_lt_of_lt_mul {a b k : Nat} (hk : 0 < k) (h : a < b * k) : a / k < b := by
  rw [Nat.div_lt_iff_lt_mul hk]; exact h

theorem scale2D_spec (src : View) (w h : Nat) (fill : Colour) (hw0 : 1 ≤ src.w) (hh0 : 1 ≤ src.h) :
    let k := min (w / src.w) (h / src.h)
    let ox := (w - src.w * k) / 2
    let oy := (h - src.h * k) / 2
    (w < src.w ∨ h < src.h → scale2DCode src w h fill = .error .rejected) ∧
    (¬ (w < src.w ∨ h < src.h) → ∃ r, scale2DCode src w h fill = .ok r ∧ r.w = w ∧ r.h = h ∧
      (∀ x y, x < w → y < h → r.colourAt x y = enlarged src.colourAt src.w src.h k ox oy fill x y) ∧
      1 ≤ k ∧ (src.w * (k + 1) > w ∨ src.h * (k + 1) > h) ∧ src.w * k ≤ w ∧ src.h * k ≤ h ∧
      (w - src.w * k) - 2 * ox ≤ 1 ∧ (h - src.h * k) - 2 * oy ≤ 1 ∧
      r.content = src.content ∧ r.kind = src.kind ∧ r.dims = src.dims ∧ r.checksum = src.checksum) := by
  intro k ox oy
  have hkdef : k = min (w / src.w) (h / src.h) := rfl
  have hk0' : (w < src.w ∨ h < src.h) → k = 0 := by
    intro hsmall
    rcases hsmall with h1 | h1
    · have : w / src.w = 0 := Nat.div_eq_of_lt h1
      rw [hkdef, this]; exact Nat.zero_min _
    · have : h / src.h = 0 := Nat.div_eq_of_lt h1
      rw [hkdef, this]; exact Nat.min_zero _
  have hfac : min ((w : Int).tdiv (src.w : Int)) ((h : Int).tdiv (src.h : Int)) = (k : Int) := by
    rw [tdiv_nat w src.w, tdiv_nat h src.h, hkdef]
    generalize w / src.w = a
    generalize h / src.h = b
    omega
  constructor
  · intro hsmall
    have hk0 : k = 0 := hk0' hsmall
    unfold scale2DCode
    simp only [hfac, hk0]
    simp
  · intro hbig
    have hw : src.w ≤ w := by omega
    have hh : src.h ≤ h := by omega
    have hk1 : 1 ≤ k := by
      have h1 : 1 ≤ w / src.w := (Nat.le_div_iff_mul_le (by omega)).mpr (by omega)
      have h2 : 1 ≤ h / src.h := (Nat.le_div_iff_mul_le (by omega)).mpr (by omega)
      omega
    have hkw : src.w * k ≤ w := by
      have : k ≤ w / src.w := by omega
      calc src.w * k ≤ src.w * (w / src.w) := Nat.mul_le_mul_left _ this
        _ ≤ w := Nat.mul_div_le w src.w
    have hkh : src.h * k ≤ h := by
      have : k ≤ h / src.h := by omega
      calc src.h * k ≤ src.h * (h / src.h) := Nat.mul_le_mul_left _ this
        _ ≤ h := Nat.mul_div_le h src.h
    have hmax : src.w * (k + 1) > w ∨ src.h * (k + 1) > h := by
      by_cases hc : k = w / src.w
      · left; rw [hc]; exact Nat.lt_mul_div_succ w (by omega)
      · right
        have : k = h / src.h := by omega
        rw [this]; exact Nat.lt_mul_div_succ h (by omega)
    have hoffX : ((w : Int) - (src.w : Int) * (k : Int)).tdiv 2 = (ox : Int) := by
      have : ((w : Int) - (src.w : Int) * (k : Int)) = ((w - src.w * k : Nat) : Int) := by
        rw [← Int.natCast_mul]
        generalize src.w * k = p at hkw ⊢
        omega
      rw [this]; exact tdiv_nat _ 2
    have hoffY : ((h : Int) - (src.h : Int) * (k : Int)).tdiv 2 = (oy : Int) := by
      have : ((h : Int) - (src.h : Int) * (k : Int)) = ((h - src.h * k : Nat) : Int) := by
        rw [← Int.natCast_mul]
        generalize src.h * k = p at hkh ⊢
        omega
      rw [this]; exact tdiv_nat _ 2
    have hnot : ¬ ((k : Int) ≤ 0) := by omega
    unfold scale2DCode
    simp only [hfac, hnot, if_false, hoffX, hoffY]
    refine ⟨_, rfl, by simp [newScaledBC], by simp [newScaledBC], ?_, hk1, hmax, hkw, hkh, by omega, by omega,
      rfl, rfl, rfl, rfl⟩
    intro x y hx hy
    simp only [newScaledBC, enlarged]
    by_cases hxy : (x : Int) < (ox : Int) ∨ (y : Int) < (oy : Int)
    · have : ¬ (ox ≤ x ∧ x < ox + src.w * k ∧ oy ≤ y ∧ y < oy + src.h * k) := by omega
      simp only [hxy, if_true, this, if_false]
    · have hx1 : ox ≤ x := by omega
      have hy1 : oy ≤ y := by omega
      simp only [hxy, if_false]
      have ex : ((x : Int) - (ox : Int)).tdiv (k : Int) = (((x - ox) / k : Nat) : Int) := by
        have : ((x : Int) - (ox : Int)) = ((x - ox : Nat) : Int) := by omega
        rw [this]; exact tdiv_nat _ _
      have ey : ((y : Int) - (oy : Int)).tdiv (k : Int) = (((y - oy) / k : Nat) : Int) := by
        have : ((y : Int) - (oy : Int)) = ((y - oy : Nat) : Int) := by omega
        rw [this]; exact tdiv_nat _ _
      rw [ex, ey]
      have hxiff : (x - ox) / k < src.w ↔ x < ox + src.w * k := by
        rw [Nat.div_lt_iff_lt_mul (by omega)]; omega
      have hyiff : (y - oy) / k < src.h ↔ y < oy + src.h * k := by
        rw [Nat.div_lt_iff_lt_mul (by omega)]; omega
      by_cases hin : x < ox + src.w * k ∧ y < oy + src.h * k
      · have h1 := hxiff.mpr hin.1
        have h2 := hyiff.mpr hin.2
        have : ¬ ((((x - ox) / k : Nat) : Int) ≥ (src.w : Int) ∨ (((y - oy) / k : Nat) : Int) ≥ (src.h : Int)) := by omega
        have hc : ox ≤ x ∧ x < ox + src.w * k ∧ oy ≤ y ∧ y < oy + src.h * k := ⟨hx1, hin.1, hy1, hin.2⟩
        simp only [this, if_false, hc, and_self, if_true, Int.toNat_natCast]
      · have : ((((x - ox) / k : Nat) : Int) ≥ (src.w : Int) ∨ (((y - oy) / k : Nat) : Int) ≥ (src.h : Int)) := by
          by_cases hxx : x < ox + src.w * k
          · right
            have : ¬ y < oy + src.h * k := fun hh => hin ⟨hxx, hh⟩
            have := mt hyiff.mp this
            omega
          · left
            have := mt hxiff.mp hxx
            omega
        have hc : ¬ (ox ≤ x ∧ x < ox + src.w * k ∧ oy ≤ y ∧ y < oy + src.h * k) := by
          intro hcc; exact hin ⟨hcc.2.1, hcc.2.2.2⟩
        simp only [this, if_true, hc, if_false]


theorem scale1D_spec (src : View) (w h : Nat) (fill : Colour) (hw0 : 1 ≤ src.w) :
    let k := w / src.w
    let ox := (w - src.w * k) / 2
    (w < src.w → scale1DCode src w h fill = .error .rejected) ∧
    (¬ w < src.w → ∃ r, scale1DCode src w h fill = .ok r ∧ r.w = w ∧ r.h = h ∧
      (∀ x y, x < w → y < h → r.colourAt x y = enlarged1 src.colourAt src.w k ox fill x y) ∧
      1 ≤ k ∧ src.w * (k + 1) > w ∧ src.w * k ≤ w ∧ (w - src.w * k) - 2 * ox ≤ 1 ∧
      r.content = src.content ∧ r.kind = src.kind ∧ r.dims = src.dims ∧ r.checksum = src.checksum) := by
  intro k ox
  have hkdef : k = w / src.w := rfl
  have hfac : (w : Int).tdiv (src.w : Int) = (k : Int) := tdiv_nat w src.w
  constructor
  · intro hsmall
    have hk0 : k = 0 := Nat.div_eq_of_lt hsmall
    unfold scale1DCode
    simp only [hfac, hk0]
    simp
  · intro hbig
    have hw : src.w ≤ w := by omega
    have hk1 : 1 ≤ k := (Nat.le_div_iff_mul_le (by omega)).mpr (by omega)
    have hkw : src.w * k ≤ w := Nat.mul_div_le w src.w
    have hmax : src.w * (k + 1) > w := Nat.lt_mul_div_succ w (by omega)
    have hoffX : ((w : Int) - (src.w : Int) * (k : Int)).tdiv 2 = (ox : Int) := by
      have : ((w : Int) - (src.w : Int) * (k : Int)) = ((w - src.w * k : Nat) : Int) := by
        rw [← Int.natCast_mul]
        generalize src.w * k = p at hkw ⊢
        omega
      rw [this]; exact tdiv_nat _ 2
    have hnot : ¬ ((k : Int) ≤ 0) := by omega
    unfold scale1DCode
    simp only [hfac, hnot, if_false, hoffX]
    refine ⟨_, rfl, by simp [newScaledBC], by simp [newScaledBC], ?_, hk1, hmax, hkw, by omega, rfl, rfl, rfl, rfl⟩
    intro x y hx _
    simp only [newScaledBC, enlarged1]
    by_cases hxy : (x : Int) < (ox : Int)
    · have : ¬ (ox ≤ x ∧ x < ox + src.w * k) := by omega
      simp only [hxy, if_true, this, if_false]
    · have hx1 : ox ≤ x := by omega
      simp only [hxy, if_false]
      have ex : ((x : Int) - (ox : Int)).tdiv (k : Int) = (((x - ox) / k : Nat) : Int) := by
        have : ((x : Int) - (ox : Int)) = ((x - ox : Nat) : Int) := by omega
        rw [this]; exact tdiv_nat _ _
      rw [ex]
      have hxiff : (x - ox) / k < src.w ↔ x < ox + src.w * k := by
        rw [Nat.div_lt_iff_lt_mul (by omega)]; omega
      by_cases hin : x < ox + src.w * k
      · have h1 := hxiff.mpr hin
        have : ¬ ((((x - ox) / k : Nat) : Int) ≥ (src.w : Int)) := by omega
        have hc : ox ≤ x ∧ x < ox + src.w * k := ⟨hx1, hin⟩
        simp only [this, if_false, hc, and_self, if_true, Int.toNat_natCast]
      · have h1 := mt hxiff.mp hin
        have : ((((x - ox) / k : Nat) : Int) ≥ (src.w : Int)) := by omega
        have hc : ¬ (ox ≤ x ∧ x < ox + src.w * k) := fun hcc => hin hcc.2
        simp only [this, if_true, hc, if_false]


theorem scale1D_shape (src : View) (w h : Int) (fill : Colour) :
    scale1DCode src w h fill = .error .rejected ∨
    ∃ wrap W H, scale1DCode src w h fill = .ok (newScaledBC src wrap W H) := by
  unfold scale1DCode
  by_cases hc : w.tdiv (src.w : Int) ≤ 0
  · left; simp only [hc, if_true]
  · right; simp only [hc, if_false]; exact ⟨_, _, _, rfl⟩

theorem scale2D_shape (src : View) (w h : Int) (fill : Colour) :
    scale2DCode src w h fill = .error .rejected ∨
    ∃ wrap W H, scale2DCode src w h fill = .ok (newScaledBC src wrap W H) := by
  unfold scale2DCode
  by_cases hc : min (w.tdiv (src.w : Int)) (h.tdiv (src.h : Int)) ≤ 0
  · left; simp only [hc, if_true]
  · right; simp only [hc, if_false]; exact ⟨_, _, _, rfl⟩

theorem scaleWithFill_shape (src : View) (w h : Int) (fill : Colour) :
    scaleWithFill src w h fill = .error .rejected ∨
    ∃ wrap W H, scaleWithFill src w h fill = .ok (newScaledBC src wrap W H) := by
  unfold scaleWithFill
  split
  · exact scale1D_shape src w h fill
  · split
    · exact scale2D_shape src w h fill
    · left; rfl

end BV.Proofs.Scale
