/-
  BV.OracleMain — dispatcher of the Spec oracles (`oracle <PROP> <op…> => <impl result> [<= <aux result>]`).
-/
import BV.Oracle2
namespace BV.Oracle
open BV

def splitAt (sep : String) (l : List String) : List String × List String :=
  (l.takeWhile (· ≠ sep), (l.dropWhile (· ≠ sep)).drop 1)

/-- Aztec oracles are plugged in here once BV.Spec.Aztec exists -/
def aztecStructural (_op : List String) (_o : Obs) : Verdict := .na
def aztecEcc (_op : List String) (_o : Obs) : Verdict := .na

def structuralAll (op : List String) (o : Obs) : Verdict :=
  match op.head? with
  | some "aztec" => aztecStructural op o
  | _ => structural op o

def run (toks : List String) : String :=
  match toks with
  | prop :: rest =>
    let (op, r1) := splitAt "=>" rest
    let (impl, aux) := splitAt "<=" r1
    let o := parseObs impl
    let a := parseObs aux
    let v := match prop with
      | "C01" => oracleC01 op o
      | "C02" => oracleC02 op o
      | "C03" => aztecStructural op o
      | "C04" => oracleC04 op o
      | "C05" => oracleC05 op o
      | "C06" => oracleC06 op o
      | "C07" => oracleC07 op o
      | "C08" => oracleC08 op o
      | "C09" => oracleC09 op o a
      | "C10" => oracleC10 op o
      | "C11" => oracleC11 op o a structuralAll
      | "C12" => oracleC12 op o aztecEcc
      | "C13" => oracleC13 op o
      | "C14" => oracleC14 op o a
      | "C15" => oracleC15 op o
      | "C16" => .pass
      | "C17" => oracleC17 op o
      | "C18" => oracleC18 op o
      | _ => .na
    v.line
  | [] => "na"

end BV.Oracle
