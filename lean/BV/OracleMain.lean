/-
  BV.OracleMain — dispatcher of the Spec oracles (`oracle <PROP> <op…> => <impl result> [<= <aux result>]`).
-/
import BV.Oracle2
import BV.Spec.Aztec
namespace BV.Oracle
open BV

def splitAt (sep : String) (l : List String) : List String × List String :=
  (l.takeWhile (· ≠ sep), (l.dropWhile (· ≠ sep)).drop 1)

/-- ISO/IEC 24778: symbol dimension of a layer request (negative = compact) -/
def aztecSizeOf (req : Int) : Nat :=
  if req < 0 then 11 + 4 * req.natAbs else 15 + 4 * req.toNat + 2 * ((2 * req.toNat + 6) / 15)

/-- C03: structure + round trip + the explicit layer request is honoured exactly -/
def aztecStructural (op : List String) (o : Obs) : Verdict :=
  match op with
  | ["aztec", c, pct, layers] =>
    let content := hexArg c
    let pct := pct.toInt?.getD 0
    let req := layers.toInt?.getD 0
    if pct < 0 ∨ req < -4 ∨ req > 32 then .na
    else if o.cls = "rej" then .na
    else if o.cls ≠ "ok" then .fail "aztec-crash" o.cls
    else
      let p := o.pic
      if !p.twoColour then .fail "aztec-colours" "pixels are not exactly the two scheme colours" else
      match Spec.Aztec.decode p.w p.h p.dark with
      | .error e =>
        if content.isEmpty then .fail "aztec-empty-payload" e else .fail "aztec-structure" e
      | .ok info =>
        if info.content ≠ content then .fail "aztec-roundtrip" "decoded payload differs"
        else if req ≠ 0 ∧ (info.compact ≠ decide (req < 0) ∨ info.layers ≠ req.natAbs) then
          .fail "aztec-layers" "explicit layer request not honoured"
        else .pass
  | _ => .na

/-- C12 for Aztec: check bits amount to at least the requested percentage of the data bits
    (data bits = un-stuffed stream minus the at most wordSize-1 trailing pad bits) -/
def aztecEcc (op : List String) (o : Obs) : Verdict :=
  match op with
  | ["aztec", c, pct, layers] =>
    let pct := pct.toInt?.getD 0
    let req := layers.toInt?.getD 0
    if pct < 0 ∨ req < -4 ∨ req > 32 ∨ o.cls ≠ "ok" ∨ (hexArg c).isEmpty then .na else
    let p := o.pic
    match Spec.Aztec.decode p.w p.h p.dark with
    | .error e => .fail "ecc-aztec" ("symbol does not decode: " ++ e)
    | .ok info =>
      let dataBits := info.streamBits - (info.wordSize - 1)
      if info.checkWords * info.wordSize * 100 ≥ pct.toNat * dataBits then .pass
      else .fail "ecc-aztec" s!"{info.checkWords} check words of {info.wordSize} bits are less than {pct}% of {dataBits} data bits"
  | _ => .na

def structuralAll (op : List String) (o : Obs) : Verdict :=
  match op.head? with
  | some "aztec" => aztecStructural op o
  | _ => structural op o

def run (toks : List String) : String :=
  match toks with
  | prop :: rest =>
    let (op, r1) := splitAt "=>" rest
    let (impl, aux) := splitAt "<=" r1
    let o := parseObs impl
    let a := parseObs aux
    let v := match prop with
      | "C01" => oracleC01 op o
      | "C02" => oracleC02 op o
      | "C03" => aztecStructural op o
      | "C04" => oracleC04 op o
      | "C05" => oracleC05 op o
      | "C06" => oracleC06 op o
      | "C07" => oracleC07 op o
      | "C08" => oracleC08 op o
      | "C09" => oracleC09 op o a
      | "C10" => oracleC10 op o (fun op o => match op with
          | "aztec" :: _ => aztecStructural op o
          | "pdf" :: _ => oracleC04 op o
          | _ => .pass)
      | "C11" => oracleC11 op o a structuralAll
      | "C12" => oracleC12 op o aztecEcc
      | "C13" => oracleC13 op o
      | "C14" => oracleC14 op o a
      | "C15" => oracleC15 op o
      | "C16" => .pass
      | "C17" => oracleC17 op o
      | "C18" => oracleC18 op o
      | _ => .na
    v.line
  | [] => "na"

end BV.Oracle
