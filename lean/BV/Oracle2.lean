/-
  BV.Oracle2 — Spec oracles of the cross-cutting properties C09 – C14
  (scaling, acceptance, rendering contract, error-correction strength, minimal size, CheckSum).
  Like BV.Oracle it never imports BV.Gen / BV.Model.
-/
import BV.Oracle
namespace BV.Oracle
open BV

/-! ### helpers -/

/-- strip an optional trailing `@scheme` token of an op -/
def stripScheme (op : List String) : List String × Option String :=
  match op.getLast? with
  | some t => if t.startsWith "@" then (op.dropLast, some t) else (op, none)
  | none => (op, none)

/-- strip all `scale W H FILL` prefixes -/
def stripScales : Nat → List String → List String
  | 0, op => op
  | fuel + 1, "scale" :: _ :: _ :: _ :: inner => stripScales fuel inner
  | _, op => op

/-- per-pixel colour strings of a result line -/
structure Colours where
  w : Nat
  h : Nat
  pal : Array String
  px : ByteArray

def Obs.colours (o : Obs) : Colours :=
  { w := o.nat "w", h := o.nat "h", pal := ((o.get "pal").splitOn ";").toArray, px := (o.get "px").toUTF8 }

def Colours.at (c : Colours) (x y : Nat) : String :=
  c.pal.getD ((c.px.get! (y * c.w + x)).toNat - 48) "?"

def qrDataCodewords (version level : Nat) : Nat :=
  match Spec.Qr.blockTable.lookup version with
  | none => 0
  | some rows =>
    match rows.find? (fun r => r.1 == Spec.Qr.levelChar level) with
    | some (_, _, groups) => groups.foldl (fun a g => a + g.1 * g.2) 0
    | none => 0

def isAlnumByte (b : UInt8) : Bool := Spec.Qr.alnumChars.contains b

/-- payload bits of one segment in the given ISO mode indicator (1 numeric, 2 alphanumeric, 4 byte) -/
def qrPayloadBits (mode n : Nat) : Nat :=
  match mode with
  | 1 => 10 * (n / 3) + (match n % 3 with | 1 => 4 | 2 => 7 | _ => 0)
  | 2 => 11 * (n / 2) + 6 * (n % 2)
  | _ => 8 * n

/-- smallest version whose capacity at `level` holds `n` characters in `mode` -/
def qrMinVersion (level mode n : Nat) : Option Nat :=
  (List.range 40).map (· + 1) |>.find? (fun v =>
    8 * qrDataCodewords v level ≥ 4 + Spec.Qr.countBits v mode + qrPayloadBits mode n)

/-- number of codewords of the DataMatrix ASCII encodation (ISO/IEC 16022 5.2.3: digit pairs, upper shift) -/
def dmAsciiLength : Bytes → Nat
  | [] => 0
  | [a] => if a.toNat > 127 then 2 else 1
  | a :: b :: rest =>
    if isDigitByte a && isDigitByte b then 1 + dmAsciiLength rest
    else (if a.toNat > 127 then 2 else 1) + dmAsciiLength (b :: rest)

/-- the family of an op and what the standard says about kind / dimensionality -/
def familyKind (op : List String) (contentLen : Nat) : Option (String × Nat) :=
  match op.head? with
  | some "ean" => some (if contentLen == 8 then "EAN 8" else "EAN 13", 1)
  | some "c128" => some ("Code 128", 1)
  | some "c128nc" => some ("Code 128", 1)
  | some "c39" => some ("Code 39", 1)
  | some "c93" => some ("Code 93", 1)
  | some "codabar" => some ("Codabar", 1)
  | some "tof" => some (if op.getD 2 "" == "1" then "2 of 5 (interleaved)" else "2 of 5", 1)
  | some "qr" => some ("QR Code", 2)
  | some "dm" => some ("DataMatrix", 2)
  | some "aztec" => some ("Aztec", 2)
  | some "pdf" => some ("PDF417", 2)
  | _ => none

/-! ### C09 Scale -/

def oracleC09 (op : List String) (o src : Obs) : Verdict :=
  match op with
  | "scale" :: w :: h :: fill :: _ =>
    let w := w.toInt?.getD 0
    let h := h.toInt?.getD 0
    if w < 1 ∨ h < 1 then .na
    else if src.cls ≠ "ok" then .na
    else
      let w := w.toNat
      let h := h.toNat
      let w0 := src.nat "w"
      let h0 := src.nat "h"
      let dims := src.nat "dims"
      if w0 = 0 ∨ h0 = 0 ∨ (dims ≠ 1 ∧ dims ≠ 2) then .na else
      let tooSmall := if dims = 1 then w < w0 else (w < w0 ∨ h < h0)
      if tooSmall then
        (if o.cls = "rej" then .pass else .fail "scale-too-small" s!"request smaller than the symbol gave {o.cls}")
      else if o.cls ≠ "ok" then .fail "scale-rejected" s!"request not smaller than the symbol gave {o.cls}"
      else
        let k := if dims = 1 then w / w0 else min (w / w0) (h / h0)
        let expFill :=
          if fill ≠ "-" then fill
          else match (src.get "scheme").splitOn "|" with
            | [bg, _] => bg
            | _ => "Gray16:ffff"
        let oc := o.colours
        let sc := src.colours
        if oc.w ≠ w ∨ oc.h ≠ h ∨ oc.px.size ≠ w * h then .fail "scale-bounds" "bounds are not (0,0)-(width,height)" else
        let mx := w - w0 * k
        let my := if dims = 1 then 0 else h - h0 * k
        let blockH := if dims = 1 then h else h0 * k
        -- the block grid must be centred to within one pixel: both admissible offsets are tried
        let candidates := [(mx / 2, my / 2), ((mx + 1) / 2, my / 2), (mx / 2, (my + 1) / 2), ((mx + 1) / 2, (my + 1) / 2)]
        let okFor := fun (ox oy : Nat) =>
          (List.range h).all (fun y => (List.range w).all (fun x =>
            let inside := ox ≤ x && x < ox + w0 * k && oy ≤ y && y < oy + blockH
            let expected :=
              if inside then (if dims = 1 then sc.at ((x - ox) / k) 0 else sc.at ((x - ox) / k) ((y - oy) / k))
              else expFill
            oc.at x y == expected))
        if !(candidates.any (fun c => okFor c.1 c.2)) then
          .fail "scale-pixels" s!"pixels are not the source enlarged by {k}, centred, on the fill colour"
        else if o.get "content" ≠ src.get "content" then .fail "scale-content" "Content() changed"
        else if o.get "kind" ≠ src.get "kind" ∨ o.get "dims" ≠ src.get "dims" then .fail "scale-metadata" "Metadata() changed"
        else if o.get "cs" ≠ src.get "cs" then .fail "scale-checksum" "CheckSum() changed"
        else .pass
  | _ => .na

/-! ### C14 CheckSum -/

def oracleC14 (op : List String) (o base : Obs) : Verdict :=
  match op with
  | "scale" :: _ =>
    if o.cls ≠ "ok" ∨ base.cls ≠ "ok" then .na
    else if o.get "cs" = base.get "cs" then .pass
    else .fail "checksum-scale" "CheckSum() changed by scaling"
  | ["ean", _] =>
    if o.cls ≠ "ok" then .na else
    match Spec.OneD.eanDecode o.pic.row0 with
    | .error e => .fail "checksum-ean" ("symbol does not decode: " ++ e)
    | .ok ds =>
      let last := ds.getLastD 0
      if o.get "cs" ≠ toString last then .fail "checksum-ean" "CheckSum() is not the final check digit"
      else if last ≠ Spec.OneD.gs1Check ds.dropLast then .fail "checksum-ean" "final digit is not the GS1 check digit"
      else .pass
  | ["c128", _] =>
    if o.cls ≠ "ok" then .na else
    match Spec.OneD.c128Decode true o.pic.row0 with
    | .error e => .fail "checksum-c128" ("symbol does not decode: " ++ e)
    | .ok info =>
      if o.get "cs" = toString (info.check.getD 0) then .pass
      else .fail "checksum-c128" "CheckSum() is not the modulo-103 check character value"
  | ["c39", _, cs, full] =>
    if o.cls ≠ "ok" then .na else
    let withCheck := cs == "1"
    match Spec.OneD.c39Decode withCheck (full == "1") o.pic.row0 with
    | .error e => .fail "checksum-c39" ("symbol does not decode: " ++ e)
    | .ok info =>
      -- the modulo-43 value of the data characters drawn in the symbol
      let v := (info.basic.map (fun r => (Spec.OneD.c39Value (Char.ofNat r)).getD 0)).foldl (· + ·) 0 % 43
      if o.get "cs" ≠ toString v then .fail "checksum-c39" "CheckSum() is not the modulo-43 check value"
      else if withCheck ∧ info.check ≠ some v then .fail "checksum-c39" "drawn check character has another value"
      else .pass
  | _ => .na

/-! ### C11 rendering contract -/

/-- the structural oracle of the family applied to the plain symbol (sizes are part of the structure) -/
def structural (op : List String) (plain : Obs) : Verdict :=
  match op.head? with
  | some "qr" => oracleC01 op plain
  | some "dm" => oracleC02 op plain
  | some "pdf" => oracleC04 op plain
  | some "c128" => oracleC05 op plain
  | some "c128nc" => oracleC05 op plain
  | some "ean" => oracleC06 op plain
  | some "c39" => oracleC07 op plain
  | some "c93" => oracleC07 op plain
  | some "codabar" => oracleC08 op plain
  | some "tof" => oracleC08 op plain
  | _ => .na

def expectedContent (op : List String) (plain : Obs) : Option Bytes :=
  match op with
  | ["ean", c] =>
    let ds := (hexArg c).map (fun b => b.toNat - 48)
    if ds.length = 7 ∨ ds.length = 12 then some (hexArg c ++ [UInt8.ofNat (48 + Spec.OneD.gs1Check ds)]) else some (hexArg c)
  | ["c39", c, cs, full] =>
    if full == "1" then
      match Spec.OneD.c39Decode (cs == "1") true plain.pic.row0 with
      | .ok info => some (encodeRunes info.basic)
      | .error _ => none
    else some (hexArg c)
  | ["c93", c, cs, full] =>
    if full == "1" then
      match Spec.OneD.c93Decode (cs == "1") true plain.pic.row0 with
      | .ok info => some (encodeRunes info.basic)
      | .error _ => none
    else some (hexArg c)
  | _ :: c :: _ => some (hexArg c)
  | _ => none

def oracleC11 (opFull : List String) (o plain : Obs) (structuralOf : List String → Obs → Verdict) : Verdict :=
  let (op, sch) := stripScheme opFull
  if plain.cls ≠ "ok" then
    (if o.cls = plain.cls then .na else .fail "render-acceptance" s!"plain Encode gave {plain.cls}, WithColor gave {o.cls}")
  else if o.cls ≠ "ok" then .fail "render-acceptance" s!"plain Encode succeeded, WithColor gave {o.cls}"
  else
    let (model, bg, fg) := match sch with
      | some t => match (t.drop 1).toString.splitOn "|" with
        | [m, b, f] => (m, b, f)
        | _ => ("?", "?", "?")
      | none => ("Gray16Model", "Gray16:ffff", "Gray16:0000")
    let oc := o.colours
    let pc := plain.colours
    if o.get "scheme" ≠ bg ++ "|" ++ fg then .fail "render-scheme" "ColorScheme() is not the scheme in force"
    else if o.get "cm" ≠ model then .fail "render-model" "ColorModel() is not the scheme's model"
    else if oc.w ≠ pc.w ∨ oc.h ≠ pc.h then .fail "render-bounds" "bounds depend on the colour scheme"
    else if oc.px.size ≠ oc.w * oc.h then .fail "render-bounds" "pixel count"
    else if !(oc.pal.all (fun c => c == bg || c == fg)) then .fail "render-colours" "a pixel is neither foreground nor background"
    else if bg ≠ fg ∧ !((List.range (oc.w * oc.h)).all (fun i =>
        (oc.pal.getD ((oc.px.get! i).toNat - 48) "?" == fg) == (pc.pal.getD ((pc.px.get! i).toNat - 48) "?" == "Gray16:0000"))) then
      .fail "render-pattern" "module pattern depends on the colour scheme"
    else
      let contentLen := (hexArg (o.get "content")).length
      match familyKind op contentLen with
      | none => .na
      | some (kind, dims) =>
        if hexArg (o.get "kind") ≠ strBytes kind ∨ o.nat "dims" ≠ dims then .fail "render-metadata" "Metadata() names another symbology or dimensionality"
        else if dims = 1 ∧ oc.h ≠ 1 then .fail "render-bounds" "a 1-D code is not one pixel high"
        else if dims = 2 ∧ op.head? ≠ some "pdf" ∧ oc.w ≠ oc.h then .fail "render-bounds" "matrix symbol is not square"
        else
          match expectedContent op plain with
          | none => .fail "render-content" "content cannot be determined (symbol does not decode)"
          | some c =>
            if hexArg (o.get "content") ≠ c then .fail "render-content" "Content() is not the encoded text"
            else match structuralOf op plain with
              | .fail t r => .fail ("render-size/" ++ t) r
              | _ => .pass

/-! ### C12 error-correction strength -/

def oracleC12 (op : List String) (o : Obs) (aztecOracle : List String → Obs → Verdict) : Verdict :=
  if o.cls ≠ "ok" then .na else
  match op with
  | ["qr", _, level, mode] =>
    let level := (level.toNat?.getD 0) % 256
    let mode := (mode.toNat?.getD 0) % 256
    if level > 3 ∨ mode > 3 then .na else
    let p := o.pic
    match Spec.Qr.decode p.w p.h p.dark with
    | .error e => .fail "ecc-qr" ("symbol does not decode: " ++ e)
    | .ok info =>
      -- `decode` de-interleaves with the ISO block table of (version, declared level) and checks every block
      if info.level = level then .pass else .fail "ecc-qr" "format information names another level than requested"
  | ["pdf", _, lvl] =>
    let lvl := (lvl.toNat?.getD 0) % 256
    let p := o.pic
    match Spec.Pdf417.decode p.w p.h p.dark with
    | .error e => .fail "ecc-pdf" ("symbol does not decode: " ++ e)
    | .ok info =>
      if info.level ≠ lvl then .fail "ecc-pdf" "row indicators name another security level"
      else if info.ecCount ≠ 2 ^ (lvl + 1) then .fail "ecc-pdf" "number of check words is not 2^(level+1)"
      else .pass
  | ["dm", _] =>
    let p := o.pic
    match Spec.Datamatrix.decode p.w p.h p.dark with
    | .error e => .fail "ecc-dm" ("symbol does not decode: " ++ e)
    | .ok info =>
      match Spec.Datamatrix.attrTable.find? (·.size == p.w) with
      | some a => if info.eccCodewords = a.eccCW then .pass else .fail "ecc-dm" "not the ECC 200 number of check codewords"
      | none => .fail "ecc-dm" "not a standard size"
  | "aztec" :: _ => aztecOracle op o
  | _ => .na

/-! ### C13 smallest symbol -/

def oracleC13 (op : List String) (o : Obs) : Verdict :=
  match op with
  | ["qr", c, level, mode] =>
    let content := hexArg c
    let level := (level.toNat?.getD 0) % 256
    let mode := (mode.toNat?.getD 0) % 256
    if level > 3 ∨ mode > 3 ∨ o.cls ≠ "ok" then .na else
    let isoMode :=
      match mode with
      | 1 => 1 | 2 => 2 | 3 => 4
      | _ => if content.all isDigitByte then 1 else if content.all isAlnumByte then 2 else 4   -- Auto: densest single mode
    match qrMinVersion level isoMode content.length with
    | none => .na    -- does not fit the densest mode at all (Auto fell through to another mode)
    | some vmin =>
      let v := (o.nat "w" - 17) / 4
      if v ≤ vmin then .pass else .fail "smallest-qr" s!"version {v} although version {vmin} holds the content"
  | ["dm", c] =>
    if o.cls ≠ "ok" then .na else
    let n := dmAsciiLength (hexArg c)
    match Spec.Datamatrix.attrTable.find? (fun a => a.dataCW ≥ n) with
    | none => .fail "smallest-dm" "accepted although the ASCII encodation exceeds 1558 codewords"
    | some a => if o.nat "w" = a.size then .pass else .fail "smallest-dm" s!"size {o.nat "w"} although {a.size} holds the content"
  | ["aztec.min", _, _] =>
    if o.cls ≠ "ok" then .na
    else if o.get "smaller_ok" = "-" then .pass
    else .fail "smallest-aztec" s!"a smaller symbol is accepted on explicit request: {o.get "smaller_ok"}"
  | ["pdf", _, _] =>
    if o.cls ≠ "ok" then .na else
    let p := o.pic
    match Spec.Pdf417.decode p.w p.h p.dark with
    | .error e => .fail "smallest-pdf" ("symbol does not decode: " ++ e)
    | .ok info =>
      if info.padCount ≥ info.cols then .fail "smallest-pdf" "a whole row of padding"
      else if info.rows < 2 ∨ info.rows > 30 ∨ info.cols < 2 ∨ info.cols > 30 then .fail "smallest-pdf" "outside the row/column limits"
      else .pass
  | _ => .na

/-! ### C10 acceptance -/

/-- `some true`: representable, must be accepted; `some false`: not representable, must be rejected;
    `none`: outside the parameter domain or not decided by this oracle -/
def representable (op : List String) : Option Bool :=
  match op with
  | ["ean", c] =>
    let content := hexArg c
    let ds := content.map (fun b => b.toNat - 48)
    let n := content.length
    if !content.all isDigitByte then some false
    else if n = 7 ∨ n = 12 then some true
    else if n = 8 ∨ n = 13 then some (ds.getLastD 0 == Spec.OneD.gs1Check ds.dropLast)
    else some false
  | [k, c] =>
    let rs := runeList (hexArg c)
    if k = "c128" ∨ k = "c128nc" then some (c128InDomain rs)
    else if k = "codabar" then
      some (rs.length ≥ 2 && (65 ≤ rs.headD 0 && rs.headD 0 ≤ 68) && (65 ≤ rs.getLastD 0 && rs.getLastD 0 ≤ 68) &&
        ((rs.drop 1).dropLast).all (fun r => (48 ≤ r && r ≤ 57) || r == 45 || r == 36 || r == 58 || r == 47 || r == 46 || r == 43))
    else if k = "tofcs" then some (!rs.isEmpty && rs.all (fun r => 48 ≤ r && r ≤ 57))
    else if k = "dm" then some (dmAsciiLength (hexArg c) ≤ 1558)
    else none
  | ["tof", c, il] =>
    let rs := runeList (hexArg c)
    some (!rs.isEmpty && rs.all (fun r => 48 ≤ r && r ≤ 57) && (il ≠ "1" || rs.length % 2 == 0))
  | [k, c, _, full] =>
    if k = "c39" ∨ k = "c93" then
      let rs := runeList (hexArg c)
      if full == "1" then some (rs.all (· ≤ 127))
      else if k = "c39" then some (rs.all c39BasicAlphabet)
      else some (rs.all (fun r => c39BasicAlphabet r || (0xF1 ≤ r && r ≤ 0xF4)))
    else if k = "qr" then
      let content := hexArg c
      let level := ((op.getD 2 "").toNat?.getD 0) % 256
      let mode := ((op.getD 3 "").toNat?.getD 0) % 256
      if level > 3 ∨ mode > 3 then none else
      let fits := fun (m : Nat) => (qrMinVersion level m content.length).isSome
      match mode with
      | 1 => some (content.all isDigitByte && fits 1)
      | 2 => some (content.all isAlnumByte && fits 2)
      | 3 => some (fits 4)
      | _ => some ((content.all isDigitByte && fits 1) || (content.all isAlnumByte && fits 2) || fits 4)
    else if k = "aztec" then
      let pct := (op.getD 2 "").toInt?.getD 0
      let layers := (op.getD 3 "").toInt?.getD 0
      if pct < 0 then none
      else if layers < -4 ∨ layers > 32 then some false
      else
        -- binary shift always works: 8 bits per byte + at most 21 bits of header per 31 bytes; stuffing adds < 1/5
        let n := (hexArg c).length
        let bits := (n * 8 + (n / 31 + 1) * 21) * 6 / 5 + 12
        let need := bits + (bits * pct.toNat) / 100 + 11 + 12
        if layers = 0 ∧ need ≤ 19000 ∧ n ≥ 1 then some true else none
    else none
  | ["pdf", c, lvl] =>
    let lvl := (lvl.toNat?.getD 0) % 256
    if lvl > 8 then none else
    -- byte compaction always works: at most 5 codewords per 6 bytes + latch; accepted for sure when that bound fits
    -- text compaction needs at most 3 values (1.5 codewords) per character, byte and numeric compaction less
    let n := (hexArg c).length
    let bound := 2 * n + 4 + 2 ^ (lvl + 1)
    if bound ≤ 800 then some true else none
  | _ => none

/-- `roundTrip` is the structural oracle of the symbology (C01–C04): where `representable` does not decide (Aztec and
    PDF417 capacity with parameters), an *accepted* content must at least be carried by the returned symbol — a symbol
    from which the reference decoder cannot recover the content means that content was accepted that this symbol cannot
    represent (e.g. more than 64 data words announced in a compact Aztec symbol). -/
def oracleC10 (op : List String) (o : Obs) (roundTrip : List String → Obs → Verdict := fun _ _ => .pass) : Verdict :=
  let inDomain : Bool :=
    match op with
    | ["qr", _, level, mode] => (level.toNat?.getD 999) % 256 ≤ 3 && (mode.toNat?.getD 999) % 256 ≤ 3
    | ["aztec", _, pct, _] => pct.toInt?.getD (-1) ≥ 0
    | _ => true
  if !inDomain then .na
  else if o.cls ≠ "ok" ∧ o.cls ≠ "rej" then .fail "accept-crash" s!"entry point did not return (barcode, nil) or (nil, error): {o.cls}"
  else
    match representable op with
    | none =>
      if o.cls = "ok" then
        match roundTrip op o with
        | .fail _ why => .fail "accept-unrepresentable" ("accepted, but the returned symbol does not carry the content: " ++ why)
        | _ => .pass
      else .pass
    | some true => if o.cls = "ok" then .pass else .fail "accept-rejects-representable" "representable content was refused"
    | some false => if o.cls = "rej" then .pass else .fail "accept-unrepresentable" "content that is not representable was accepted"

/-! ### C15 purity (the part visible per op): a returned barcode is a snapshot, the input is not modified -/

def oracleC15 (op : List String) (o : Obs) : Verdict :=
  match op with
  | "mut" :: _ =>
    if o.cls ≠ "ok" then .na
    else if o.get "input" ≠ "1" then .fail "purity-input" "the encoder modified the caller's buffer"
    else if o.get "stable" ≠ "1" then .fail "purity-alias" "the barcode changed when the input buffer was overwritten afterwards"
    else .pass
  | _ => if o.cls = "ok" ∨ o.cls = "rej" ∨ o.cls = "panic" then .pass else .fail "purity-crash" o.cls

end BV.Oracle
