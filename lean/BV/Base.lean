/-
  BV.Base — shared vocabulary of the models (core Lean only).

  * `Bytes`      a Go `string` / `[]byte`
  * `runes`      Go's `for i, r := range s` (UTF-8 decoding with U+FFFD for every invalid byte)
  * `Scheme`     a `barcode.ColorScheme`, colours are canonical strings (never inspected, only compared)
  * `Barcode`    what an encoder returns; `View` what the `barcode.Barcode` interface exposes
  * `Res`        `(bc, nil)` / `(nil, err)` / panic
-/
namespace BV

abbrev Bytes := List UInt8

/-! ### hex -/

def hexDigit (n : Nat) : Char :=
  if n < 10 then Char.ofNat (48 + n) else Char.ofNat (87 + n)

def hexOfByte (b : UInt8) : String :=
  (String.singleton (hexDigit (b.toNat / 16))).push (hexDigit (b.toNat % 16))

def toHex (b : Bytes) : String :=
  b.foldl (fun s x => (s.push (hexDigit (x.toNat / 16))).push (hexDigit (x.toNat % 16))) ""

def hexVal (c : Char) : Option Nat :=
  if '0' ≤ c ∧ c ≤ '9' then some (c.toNat - 48)
  else if 'a' ≤ c ∧ c ≤ 'f' then some (c.toNat - 87)
  else if 'A' ≤ c ∧ c ≤ 'F' then some (c.toNat - 55)
  else none

def fromHexChars : List Char → Option Bytes
  | [] => some []
  | [_] => none
  | a :: b :: rest =>
    match hexVal a, hexVal b, fromHexChars rest with
    | some x, some y, some r => some (UInt8.ofNat (x * 16 + y) :: r)
    | _, _, _ => none

/-- `-` stands for the empty string so that every field is non-empty. -/
def fromHex (s : String) : Option Bytes :=
  if s = "-" then some [] else fromHexChars s.toList

def toHexField (b : Bytes) : String := if b.isEmpty then "-" else toHex b

def strBytes (s : String) : Bytes := s.toUTF8.toList

/-! ### UTF-8 as Go decodes it -/

def runeError : Nat := 0xFFFD

def isCont (b : UInt8) : Bool := 0x80 ≤ b.toNat && b.toNat ≤ 0xBF

/-- `utf8.DecodeRune` on a non-empty prefix: (rune, width). Invalid or truncated → (U+FFFD, 1). -/
def decodeRune : Bytes → Nat × Nat
  | [] => (runeError, 0)
  | b0 :: rest =>
    let x := b0.toNat
    if x < 0x80 then (x, 1)
    else if x < 0xC2 then (runeError, 1)
    else if x < 0xE0 then
      match rest with
      | b1 :: _ => if isCont b1 then ((x % 32) * 64 + b1.toNat % 64, 2) else (runeError, 1)
      | _ => (runeError, 1)
    else if x < 0xF0 then
      match rest with
      | b1 :: b2 :: _ =>
        let lo := if x = 0xE0 then 0xA0 else 0x80
        let hi := if x = 0xED then 0x9F else 0xBF
        if lo ≤ b1.toNat && b1.toNat ≤ hi && isCont b2 then
          ((x % 16) * 4096 + (b1.toNat % 64) * 64 + b2.toNat % 64, 3)
        else (runeError, 1)
      | _ => (runeError, 1)
    else if x < 0xF5 then
      match rest with
      | b1 :: b2 :: b3 :: _ =>
        let lo := if x = 0xF0 then 0x90 else 0x80
        let hi := if x = 0xF4 then 0x8F else 0xBF
        if lo ≤ b1.toNat && b1.toNat ≤ hi && isCont b2 && isCont b3 then
          ((x % 8) * 262144 + (b1.toNat % 64) * 4096 + (b2.toNat % 64) * 64 + b3.toNat % 64, 4)
        else (runeError, 1)
      | _ => (runeError, 1)
    else (runeError, 1)

/-- `for off, r := range s`: list of (byte offset, rune). Fuel = number of bytes (always enough). -/
def runesAux : Nat → Nat → Bytes → List (Nat × Nat)
  | 0, _, _ => []
  | _, _, [] => []
  | fuel + 1, off, b :: rest =>
    let (r, w) := decodeRune (b :: rest)
    (off, r) :: runesAux fuel (off + w) ((b :: rest).drop w)

def runes (s : Bytes) : List (Nat × Nat) := runesAux s.length 0 s

/-- `[]rune(s)` -/
def runeList (s : Bytes) : List Nat := (runes s).map (·.2)

/-- `utf8.RuneCountInString` -/
def runeCount (s : Bytes) : Nat := (runes s).length

/-- `string(rune)` / `utf8.AppendRune`: surrogates and out-of-range become U+FFFD. -/
def encodeRune (r : Nat) : Bytes :=
  let r := if (0xD800 ≤ r ∧ r ≤ 0xDFFF) ∨ r > 0x10FFFF then runeError else r
  if r < 0x80 then [UInt8.ofNat r]
  else if r < 0x800 then [UInt8.ofNat (0xC0 + r / 64), UInt8.ofNat (0x80 + r % 64)]
  else if r < 0x10000 then
    [UInt8.ofNat (0xE0 + r / 4096), UInt8.ofNat (0x80 + (r / 64) % 64), UInt8.ofNat (0x80 + r % 64)]
  else
    [UInt8.ofNat (0xF0 + r / 262144), UInt8.ofNat (0x80 + (r / 4096) % 64),
     UInt8.ofNat (0x80 + (r / 64) % 64), UInt8.ofNat (0x80 + r % 64)]

/-- `string([]rune)` -/
def encodeRunes (rs : List Nat) : Bytes := rs.flatMap encodeRune

/-- `strings.IndexRune(table, r)` for a table given as runes with their byte offsets. -/
def indexRune (table : Bytes) (r : Nat) : Int :=
  match (runes table).find? (fun p => p.2 = r) with
  | some p => (p.1 : Int)
  | none => -1

def containsRune (table : Bytes) (r : Nat) : Bool := (runes table).any (fun p => p.2 = r)

/-! ### colours, results -/

abbrev Colour := String

structure Scheme where
  model : String
  bg : Colour
  fg : Colour
  deriving DecidableEq, Repr, Inhabited

/-- `barcode.ColorScheme16` in the harness' canonical spelling. -/
def scheme16 : Scheme :=
  { model := "Gray16Model", bg := "Gray16:ffff", fg := "Gray16:0000" }

def white : Colour := "Gray16:ffff"

inductive Err
  | rejected
  | panic
  deriving DecidableEq, Repr, Inhabited

abbrev Res := Except Err

/-- What an encoder returns. `dark x y` is only meaningful for `x < w`, `y < h`. -/
structure Barcode where
  kind : String
  dims : Nat
  w : Nat
  h : Nat
  dark : Nat → Nat → Bool
  content : Bytes
  checksum : Option Int
  scheme : Scheme

/-- What the `barcode.Barcode` interface (plus the optional `CheckSum`/`ColorScheme`) exposes. -/
structure View where
  kind : String
  dims : Nat
  w : Nat
  h : Nat
  colourAt : Nat → Nat → Colour
  content : Bytes
  checksum : Option Int
  model : String
  scheme : Option Scheme

def Barcode.colourAt (b : Barcode) (x y : Nat) : Colour :=
  if b.dark x y then b.scheme.fg else b.scheme.bg

def Barcode.view (b : Barcode) : View :=
  { kind := b.kind, dims := b.dims, w := b.w, h := b.h, colourAt := b.colourAt,
    content := b.content, checksum := b.checksum, model := b.scheme.model, scheme := some b.scheme }

/-- a 1-D barcode over a module list (`utils.base1DCode`) -/
def mk1D (kind : String) (content : Bytes) (bits : List Bool) (cs : Option Int) (s : Scheme) : Barcode :=
  let arr := bits.toArray
  { kind := kind, dims := 1, w := bits.length, h := 1,
    dark := fun x _ => arr.getD x false,
    content := content, checksum := cs, scheme := s }

/-- row 0 of a barcode as a module list -/
def Barcode.row0 (b : Barcode) : List Bool := (List.range b.w).map (fun x => b.dark x 0)

/-! ### small list helpers shared by models -/

/-- most-significant-bit-first low `k` bits of `x` (`BitList.AddBits`) -/
def msbBits (x : Nat) (k : Nat) : List Bool :=
  (List.range k).map (fun i => x.testBit (k - 1 - i))

def bitsToNat (bs : List Bool) : Nat := bs.foldl (fun a b => 2 * a + (if b then 1 else 0)) 0

/-- pack bits eight per byte, zero padded (`BitList.GetBytes`) -/
def pack8 : List Bool → List Nat
  | [] => []
  | b0 :: rest =>
    let chunk := (b0 :: rest).take 8
    let v := bitsToNat (chunk ++ List.replicate (8 - chunk.length) false)
    v :: pack8 ((b0 :: rest).drop 8)
termination_by l => l.length
decreasing_by simp_wf; omega

end BV
