/-
  Model of /repo/codabar/encoder.go.

  The acceptance test `content == "!" || re.ReplaceAllString(content, "!") != "!"` with the unanchored-at-start,
  `$`-anchored pattern `[ABCD][0123456789\-\$\:/\.\+]*[ABCD]$` is modelled literally: find the leftmost position
  from which the rest of the string matches, replace that match by "!", compare with "!".
-/
import BV.Model.Util
import BV.Gen.Codabar
namespace BV.Model.Codabar
open BV BV.Model

def table := Gen.Codabar.v_encodingTable

def isStartStop (r : Nat) : Bool := r == 65 || r == 66 || r == 67 || r == 68
/-- the character class `[0123456789\-\$\:/\.\+]` -/
def isMiddle (r : Nat) : Bool :=
  (48 ≤ r && r ≤ 57) || r == 45 || r == 36 || r == 58 || r == 47 || r == 46 || r == 43

/-- does the whole rune list match `[ABCD][class]*[ABCD]` (so that `$` holds at its end)? -/
def matchesToEnd : List Nat → Bool
  | [] => false
  | [_] => false
  | a :: rest => isStartStop a && isStartStop (rest.getLastD 0) && rest.dropLast.all isMiddle

/-- leftmost match: the number of runes before it, if any -/
def leftmost : List Nat → Nat → Option Nat
  | [], _ => none
  | r :: rest, i => if matchesToEnd (r :: rest) then some i else leftmost rest (i + 1)

/-- `ReplaceAllString(content, "!")` -/
def replaceAll (content : Bytes) : Bytes :=
  let rs := runeList content
  match leftmost rs 0 with
  | none => content
  | some i => encodeRunes (rs.take i) ++ [33]

def accepted (content : Bytes) : Bool :=
  !(content == [33] || replaceAll content != [33])

def draw (content : Bytes) : List Bool :=
  (runes content).foldl (fun acc p =>
    let acc := if p.1 > 0 then acc ++ [false] else acc
    acc ++ (mapGet table p.2).getD []) []

def encodeWithColor (content : Bytes) (s : Scheme) : Res Barcode :=
  if !accepted content then .error .rejected
  else .ok (mk1D (kindStr Gen.Root.c_TypeCodabar) content (draw content) none s)

def encode (content : Bytes) : Res Barcode := encodeWithColor content scheme16

end BV.Model.Codabar
