/-
  Model of /repo/scaledbarcode.go.  Sources always have bounds (0,0)-(w,h).
  `float64` quotients followed by `int()` are integer divisions (DESIGN §7.5).
-/
import BV.Base
namespace BV.Model.Scale
open BV

/-- `newScaledBC`: metadata, content, colour model and (if present) checksum come from the wrapped barcode;
    a scaled barcode does not implement `BarcodeColor`. -/
def newScaledBC (wrapped : View) (wrap : Nat → Nat → Colour) (w h : Nat) : View :=
  { kind := wrapped.kind, dims := wrapped.dims, w := w, h := h, colourAt := wrap,
    content := wrapped.content, checksum := wrapped.checksum, model := wrapped.model, scheme := none }

/-- `scale2DCode` -/
def scale2DCode (bc : View) (width height : Int) (fill : Colour) : Res View :=
  let orgW : Int := bc.w
  let orgH : Int := bc.h
  let factor : Int := min (width.tdiv orgW) (height.tdiv orgH)
  if factor ≤ 0 then .error .rejected
  else
    let offX := (width - orgW * factor).tdiv 2
    let offY := (height - orgH * factor).tdiv 2
    let wrap := fun (x y : Nat) =>
      if (x : Int) < offX ∨ (y : Int) < offY then fill
      else
        let x' := ((x : Int) - offX).tdiv factor
        let y' := ((y : Int) - offY).tdiv factor
        if x' ≥ orgW ∨ y' ≥ orgH then fill else bc.colourAt x'.toNat y'.toNat
    .ok (newScaledBC bc wrap width.toNat height.toNat)

/-- `scale1DCode` -/
def scale1DCode (bc : View) (width height : Int) (fill : Colour) : Res View :=
  let orgW : Int := bc.w
  let factor : Int := width.tdiv orgW
  if factor ≤ 0 then .error .rejected
  else
    let offX := (width - orgW * factor).tdiv 2
    let wrap := fun (x _y : Nat) =>
      if (x : Int) < offX then fill
      else
        let x' := ((x : Int) - offX).tdiv factor
        if x' ≥ orgW then fill else bc.colourAt x'.toNat 0
    .ok (newScaledBC bc wrap width.toNat height.toNat)

/-- `ScaleWithFill` -/
def scaleWithFill (bc : View) (width height : Int) (fill : Colour) : Res View :=
  if bc.dims == 1 then scale1DCode bc width height fill
  else if bc.dims == 2 then scale2DCode bc width height fill
  else .error .rejected

/-- `Scale` -/
def scale (bc : View) (width height : Int) : Res View :=
  let fill := match bc.scheme with
    | some s => s.bg
    | none => white
  scaleWithFill bc width height fill

end BV.Model.Scale
