/-
  Model of /repo/ean/encoder.go (hand-written mirror, one Lean function per Go function).
-/
import BV.Model.Util
import BV.Gen.Ean
namespace BV.Model.Ean
open BV BV.Model

def table := Gen.Ean.v_encoderTable

/-- `calcCheckNum` — returns a rune -/
def calcCheckNum (code : Bytes) : Nat :=
  let rec go (rs : List (Nat × Nat)) (x3 : Bool) (sum : Int) : Nat :=
    match rs with
    | [] => intToRune ((10 - (sum.tmod 10)).tmod 10)
    | (_, r) :: rest =>
      let cur := runeToInt r
      if cur < 0 ∨ cur > 9 then 66 /- 'B' -/
      else go rest (!x3) (sum + (if x3 then cur * 3 else cur))
  go (runes code) (code.length == 7) 0

/-- `encodeEAN8`; `none` is Go's `nil` -/
def encodeEAN8 (code : Bytes) : Option (List Bool) :=
  let rec go (rs : List (Nat × Nat)) (acc : List Bool) : Option (List Bool) :=
    match rs with
    | [] => some (acc ++ [true, false, true])
    | (cpos, r) :: rest =>
      match mapGet table r with
      | none => none
      | some (lOdd, _lEven, right, _cs) =>
        let data := if cpos < 4 then lOdd else right
        let acc := if cpos == 4 then acc ++ [false, true, false, true, false] else acc
        go rest (acc ++ data)
  go (runes code) [true, false, true]

/-- `encodeEAN13` -/
def encodeEAN13 (code : Bytes) : Option (List Bool) :=
  let rec go (rs : List (Nat × Nat)) (firstNum : List Bool) (acc : List Bool) : Option (List Bool) :=
    match rs with
    | [] => some (acc ++ [true, false, true])
    | (cpos, r) :: rest =>
      match mapGet table r with
      | none => none
      | some (lOdd, lEven, right, cs) =>
        if cpos == 0 then go rest cs acc
        else
          -- `firstNum[cpos-1]` panics when out of range; Go slices of the table have length 6
          let data := if cpos < 7 then (if firstNum.getD (cpos - 1) false then lEven else lOdd) else right
          let acc := if cpos == 7 then acc ++ [false, true, false, true, false] else acc
          go rest firstNum (acc ++ data)
  go (runes code) [] [true, false, true]

/-- `EncodeWithColor` -/
def encodeWithColor (code : Bytes) (s : Scheme) : Res Barcode :=
  let len := code.length
  let step1 : Res (Bytes × Int) :=
    if len == 7 ∨ len == 12 then
      let code' := code ++ encodeRune (calcCheckNum code)
      .ok (code', runeToInt (code'.getLastD 0).toNat)
    else if len == 8 ∨ len == 13 then
      let check := code.take (len - 1)
      let check := check ++ encodeRune (calcCheckNum check)
      if check != code then .error .rejected
      else .ok (code, runeToInt (code.getLastD 0).toNat)
    else .ok (code, 0)
  match step1 with
  | .error e => .error e
  | .ok (code, checkSum) =>
    if code.length == 8 then
      match encodeEAN8 code with
      | some bits => .ok (mk1D (kindStr Gen.Root.c_TypeEAN8) code bits (some checkSum) s)
      | none => .error .rejected
    else if code.length == 13 then
      match encodeEAN13 code with
      | some bits => .ok (mk1D (kindStr Gen.Root.c_TypeEAN13) code bits (some checkSum) s)
      | none => .error .rejected
    else .error .rejected

def encode (code : Bytes) : Res Barcode := encodeWithColor code scheme16

end BV.Model.Ean
