/-
  Model of package /repo/qr (encoder.go, numeric.go, alphanumeric.go, unicode.go, automatic.go, blocks.go,
  errorcorrection.go, versioninfo.go, qrcode.go): one Lean function per Go function, same names, same
  control flow, same order of effects.

  Conventions
  * `ErrorCorrectionLevel`, `Encoding`, `encodingMode` are Go `byte`s: here `Nat` (callers pass 0..255).
  * a `*utils.BitList` that grows (`AddBits`, `AddByte`, `AddBit`) is a `List Bool`; the `*utils.BitList`
    inside a `qrcode` (`NewBitList(dim*dim)`, `SetBit`, `GetBit`) is an `Array Bool` of size `dim*dim`.
  * `qrcode.Get/Set` index `x*dimension+y`.  Every call site of the package uses `0 ≤ x,y < dimension`
    (see the remarks at the call sites), so the index panic of `GetBit/SetBit` is not reachable; the model
    functions are total (`getD … false`, `setIfInBounds`).
  * a callback `set func(int, int, bool)` that mutates captured state is a state transformer
    `Nat → Nat → Bool → σ → σ`.
  * goroutine/channel pipelines (`stringToAlphaIdx`, `iterateModules`, `BitList.IterateBytes`) are lists; a
    receive from a closed channel yields the zero value, which the list readers below reproduce.
  * All tables come from `BV.Gen.Qr`.
-/
import BV.Model.Util
import BV.Model.GF
import BV.Gen.Qr
namespace BV.Model.Qr
open BV BV.Model
open BV.Gen.Qr

/-! ## versioninfo.go -/

structure VersionInfo where
  version : Nat
  level : Nat
  errorCorrectionCodewordsPerBlock : Nat
  numberOfBlocksInGroup1 : Nat
  dataCodeWordsPerBlockInGroup1 : Nat
  numberOfBlocksInGroup2 : Nat
  dataCodeWordsPerBlockInGroup2 : Nat
  deriving Repr, DecidableEq, Inhabited

def VersionInfo.ofTuple (t : Int × Int × Int × Int × Int × Int × Int) : VersionInfo :=
  let (v, l, e, n1, d1, n2, d2) := t
  { version := v.toNat, level := l.toNat, errorCorrectionCodewordsPerBlock := e.toNat,
    numberOfBlocksInGroup1 := n1.toNat, dataCodeWordsPerBlockInGroup1 := d1.toNat,
    numberOfBlocksInGroup2 := n2.toNat, dataCodeWordsPerBlockInGroup2 := d2.toNat }

/-- `versionInfos` (source order) -/
def versionInfos : List VersionInfo := v_versionInfos.map VersionInfo.ofTuple

/-- `totalDataBytes` -/
def VersionInfo.totalDataBytes (vi : VersionInfo) : Nat :=
  let g1Data := vi.numberOfBlocksInGroup1 * vi.dataCodeWordsPerBlockInGroup1
  let g2Data := vi.numberOfBlocksInGroup2 * vi.dataCodeWordsPerBlockInGroup2
  g1Data + g2Data

/-- `charCountBits` -/
def VersionInfo.charCountBits (vi : VersionInfo) (m : Nat) : Nat :=
  if m == c_numericMode then
    if vi.version < 10 then 10 else if vi.version < 27 then 12 else 14
  else if m == c_alphaNumericMode then
    if vi.version < 10 then 9 else if vi.version < 27 then 11 else 13
  else if m == c_byteMode then
    if vi.version < 10 then 8 else 16
  else if m == c_kanjiMode then
    if vi.version < 10 then 8 else if vi.version < 27 then 10 else 12
  else 0

/-- `modulWidth` -/
def VersionInfo.modulWidth (vi : VersionInfo) : Nat := ((vi.version - 1) * 4) + 21

/-- `math.Ceil(float64(a) / float64(b))` for naturals `a`, `b > 0`.
    Exactness: `a, b < 2^53` are exact doubles and IEEE division is correctly rounded.  If `b ∣ a` the
    quotient is an integer and exact.  Otherwise the true quotient is at least `1/b` away from every
    integer while the rounding error is below `2^-52 · a/b`; with `a ≤ 164`, `b ≤ 28` here the rounded
    quotient lies strictly between the same two integers, so `Ceil` (and `Floor`) give the exact values. -/
def ceilDiv (a b : Nat) : Nat := (a + b - 1) / b

/-- `alignmentPatternPlacements` — the `float64` code in exact arithmetic.
    `_, x := math.Modf(frac); x >= 0.5` compares the fractional part of `s/(count-1)` with 1/2: that is
    `2 * (s % c) ≥ c` exactly (the fraction has denominator ≤ 6, so it is either exactly 1/2 — then
    the double is exact — or at least 1/12 away from it). -/
def VersionInfo.alignmentPatternPlacements (vi : VersionInfo) : List Nat :=
  if vi.version == 1 then []
  else
    let first := 6
    let last := vi.modulWidth - 7
    let space := last - first
    let count := ceilDiv space 28 + 1
    let result := Array.replicate count 0
    let result := result.setIfInBounds 0 first
    let result := result.setIfInBounds (result.size - 1) last
    let result :=
      if count > 2 then
        let c := count - 1
        let step := ceilDiv (last - first) c
        let step :=
          if step % 2 == 1 then
            let s := last - first
            let frac := if 2 * (s % c) ≥ c then ceilDiv s c else s / c
            if frac % 2 == 0 then step - 1 else step + 1
          else step
        (List.range (count - 2)).foldl
          (fun (r : Array Nat) k => let i := k + 1; r.setIfInBounds i (last - step * (count - 1 - i))) result
      else result
    result.toList

/-- `findSmallestVersionInfo` -/
def findSmallestVersionInfo (ecl : Nat) (mode : Nat) (dataBits : Nat) : Option VersionInfo :=
  let dataBits := dataBits + 4
  versionInfos.find? (fun vi =>
    vi.level == ecl && decide (vi.totalDataBytes * 8 ≥ dataBits + vi.charCountBits mode))

/-! ## qrcode.go -/

structure QRCode where
  dimension : Nat
  data : Array Bool
  content : Bytes
  color : Scheme

/-- `newBarCodeWithColor` -/
def newBarCodeWithColor (dim : Nat) (color : Scheme) : QRCode :=
  { dimension := dim, data := Array.replicate (dim * dim) false, content := [], color := color }

/-- `newBarcode` -/
def newBarcode (dim : Nat) : QRCode := newBarCodeWithColor dim scheme16

/-- `Get` -/
@[inline] def QRCode.get (qr : QRCode) (x y : Nat) : Bool := qr.data.getD (x * qr.dimension + y) false

/-- `Set` -/
@[inline] def QRCode.set (x y : Nat) (val : Bool) (qr : QRCode) : QRCode :=
  { qr with data := qr.data.setIfInBounds (x * qr.dimension + y) val }

/-- `calcPenaltyRule1`.  State of the inner loop: result, checkForX, cntX, checkForY, cntY. -/
def QRCode.calcPenaltyRule1 (qr : QRCode) : Nat :=
  let dim := qr.dimension
  (List.range dim).foldl (fun (result : Nat) x =>
    let (result, _, cntX, _, cntY) :=
      (List.range dim).foldl (fun (st : Nat × Bool × Nat × Bool × Nat) y =>
        let (result, checkForX, cntX, checkForY, cntY) := st
        let (result, checkForX, cntX) :=
          if qr.get x y == checkForX then (result, checkForX, cntX + 1)
          else (if cntX ≥ 5 then result + (cntX - 2) else result, !checkForX, 1)
        let (result, checkForY, cntY) :=
          if qr.get y x == checkForY then (result, checkForY, cntY + 1)
          else (if cntY ≥ 5 then result + (cntY - 2) else result, !checkForY, 1)
        (result, checkForX, cntX, checkForY, cntY))
        (result, false, 0, false, 0)
    let result := if cntX ≥ 5 then result + (cntX - 2) else result
    let result := if cntY ≥ 5 then result + (cntY - 2) else result
    result) 0

/-- `calcPenaltyRule2` -/
def QRCode.calcPenaltyRule2 (qr : QRCode) : Nat :=
  let dim := qr.dimension
  (List.range (dim - 1)).foldl (fun (result : Nat) x =>
    (List.range (dim - 1)).foldl (fun (result : Nat) y =>
      let check := qr.get x y
      if qr.get x (y + 1) == check && qr.get (x + 1) y == check && qr.get (x + 1) (y + 1) == check
      then result + 3 else result) result) 0

/-- the innermost loop of `calcPenaltyRule3` for one line: does `get i`, `get (i+1)`, … equal the pattern
    (the Go loop never exits early; the conjunction is the same) -/
def patternFound (get : Nat → Bool) : List Bool → Nat → Bool
  | [], _ => true
  | p :: ps, i => (get i == p) && patternFound get ps (i + 1)

/-- `calcPenaltyRule3` -/
def QRCode.calcPenaltyRule3 (qr : QRCode) : Nat :=
  let pattern1 := l_qrcode_calcPenaltyRule3_pattern1
  let pattern2 := l_qrcode_calcPenaltyRule3_pattern2
  let dim := qr.dimension
  -- `for x := 0; x <= dim - len(pattern1); x++` (no iteration when dim < len)
  let nx := if dim + 1 ≥ pattern1.length then dim + 1 - pattern1.length else 0
  (List.range nx).foldl (fun (result : Nat) x =>
    (List.range dim).foldl (fun (result : Nat) y =>
      let pattern1XFound := patternFound (fun i => qr.get i y) pattern1 x
      let pattern2XFound := patternFound (fun i => qr.get i y) pattern2 x
      let pattern1YFound := patternFound (fun i => qr.get y i) pattern1 x
      let pattern2YFound := patternFound (fun i => qr.get y i) pattern2 x
      let result := if pattern1XFound || pattern2XFound then result + 40 else result
      let result := if pattern1YFound || pattern2YFound then result + 40 else result
      result) result) 0

/-- `calcPenaltyRule4` — the `float64` code in exact arithmetic.
    Go: `percDark = float64(t)*100/float64(n)`, `floor = |Floor(percDark/5) - 10|`,
    `ceil = |Ceil(percDark/5) - 10|`, `uint(Min(floor, ceil) * 10)` with `t ≤ n = dim² ≤ 31329`.
    Let q = 20t/n (the exact value of percDark/5).  `t*100` is exact.  If `n ∣ 20t` then `100t/n = 5q` is an
    integer, so both divisions are exact and Floor = Ceil = q.  Otherwise q is at least `1/n ≥ 2^-15` away
    from the nearest integer, while two correctly rounded divisions perturb the value by a relative error
    below `2^-51` (absolute below `2^-46` since q ≤ 20), so the computed double lies strictly between the same
    two consecutive integers and `Floor`/`Ceil` return ⌊q⌋ and ⌊q⌋+1.  The remaining operations
    (subtract 10, Abs, Min, times 10) act on small integers and are exact; the result is in 0..100. -/
def QRCode.calcPenaltyRule4 (qr : QRCode) : Nat :=
  let totalNum := qr.data.size
  let trueCnt := qr.data.foldl (fun c b => if b then c + 1 else c) 0
  let fl : Int := ((20 * trueCnt) / totalNum : Nat)
  let ce : Int := if (20 * trueCnt) % totalNum == 0 then fl else fl + 1
  let floor := (fl - 10).natAbs
  let ceil := (ce - 10).natAbs
  (min floor ceil) * 10

/-- `calcPenalty` -/
def QRCode.calcPenalty (qr : QRCode) : Nat :=
  qr.calcPenaltyRule1 + qr.calcPenaltyRule2 + qr.calcPenaltyRule3 + qr.calcPenaltyRule4

/-! ## encoder.go — drawing -/

/-- `lo, lo+1, …, lo+n-1` -/
def intRange (lo : Int) (n : Nat) : List Int := (List.range n).map (fun (i : Nat) => lo + (i : Int))

/-- `setMasked` -/
def setMasked {σ} (x y : Nat) (val : Bool) (mask : Nat) (set : Nat → Nat → Bool → σ → σ) : σ → σ :=
  let val :=
    match mask with
    | 0 => val != (((y + x) % 2) == 0)
    | 1 => val != ((y % 2) == 0)
    | 2 => val != ((x % 3) == 0)
    | 3 => val != (((y + x) % 3) == 0)
    | 4 => val != (((y / 2 + x / 3) % 2) == 0)
    | 5 => val != (((y * x) % 2) + ((y * x) % 3) == 0)
    | 6 => val != ((((y * x) % 2) + ((y * x) % 3)) % 2 == 0)
    | 7 => val != ((((y + x) % 2) + ((y * x) % 3)) % 2 == 0)
    | _ => val
  set x y val

/-- the first goroutine of `iterateModules`: every point of the zig-zag walk, in order.
    `curX` starts at `dim-1` (even, as `dim` is odd) and visits dim-1, dim-3, …, 8, 5, 3, 1, so `curX-1 ≥ 0`.
    Fuel: every iteration moves `curY` by one inside a column pair; there are at most `dim/2+1` pairs of `dim`
    steps, so `dim*dim + 1` iterations suffice for `dim ≥ 1`. -/
def allPoints (dim : Nat) : Array (Int × Int) :=
  let d : Int := dim
  let rec go : Nat → Int → Int → Bool → Array (Int × Int) → Array (Int × Int)
    | 0, _, _, _, acc => acc
    | fuel + 1, curX, curY, isUpward, acc =>
      let acc := (acc.push (curX, curY)).push (curX - 1, curY)
      if isUpward then
        let curY := curY - 1
        if curY < 0 then
          let curY := 0
          let curX := curX - 2
          let curX := if curX == 6 then curX - 1 else curX
          if curX < 0 then acc else go fuel curX curY false acc
        else go fuel curX curY isUpward acc
      else
        let curY := curY + 1
        if curY ≥ d then
          let curY := d - 1
          let curX := curX - 2
          let curX := if curX == 6 then curX - 1 else curX
          if curX < 0 then acc else go fuel curX curY true acc
        else go fuel curX curY isUpward acc
  go (dim * dim + 1) (d - 1) (d - 1) true (Array.mkEmpty (dim * dim + dim))

/-- `iterateModules`: the second goroutine filters the points that are not occupied (`occupied` is not
    written any more while the channel is drained) -/
def iterateModules (occupied : QRCode) : Array (Nat × Nat) :=
  (allPoints occupied.dimension).filterMap (fun (p : Int × Int) =>
    if !occupied.get p.1.toNat p.2.toNat then some (p.1.toNat, p.2.toNat) else none)

/-- `drawFinderPatterns` -/
def drawFinderPatterns {σ} (vi : VersionInfo) (set : Nat → Nat → Bool → σ → σ) (st : σ) : σ :=
  let dim : Int := vi.modulWidth
  let drawPattern (xoff yoff : Int) (st : σ) : σ :=
    (intRange (-1) 9).foldl (fun st x =>
      (intRange (-1) 9).foldl (fun st y =>
        let val := (x == 0 || x == 6 || y == 0 || y == 6 || (x > 1 && x < 5 && y > 1 && y < 5)) &&
          (x ≤ 6 && y ≤ 6 && x ≥ 0 && y ≥ 0)
        if x + xoff ≥ 0 && x + xoff < dim && y + yoff ≥ 0 && y + yoff < dim then
          set (x + xoff).toNat (y + yoff).toNat val st
        else st) st) st
  let st := drawPattern 0 0 st
  let st := drawPattern 0 (dim - 7) st
  drawPattern (dim - 7) 0 st

/-- `drawAlignmentPatterns`.  In Go `occupied` is a pointer to the bitmap that `set` (= `setAll`) keeps writing,
    so the reads see the current state: `occ st` reads it from the state.  Centres are in 6..dim-7, hence
    all coordinates are within the symbol. -/
def drawAlignmentPatterns {σ} (occ : σ → Nat → Nat → Bool) (vi : VersionInfo)
    (set : Nat → Nat → Bool → σ → σ) (st : σ) : σ :=
  let drawPattern (xoff yoff : Nat) (st : σ) : σ :=
    (intRange (-2) 5).foldl (fun st x =>
      (intRange (-2) 5).foldl (fun st y =>
        let val := x == -2 || x == 2 || y == -2 || y == 2 || (x == 0 && y == 0)
        set (x + (xoff : Int)).toNat (y + (yoff : Int)).toNat val st) st) st
  let positions := vi.alignmentPatternPlacements
  positions.foldl (fun st x =>
    positions.foldl (fun st y =>
      if occ st x y then st else drawPattern x y st) st) st

/-- `formatInfos[level][mask]`; a missing key gives the nil slice -/
def formatInfoOf (level : Nat) (mask : Nat) : List Bool :=
  match mapGet v_formatInfos (level : Int) with
  | none => []
  | some m => (mapGet m (mask : Int)).getD []

/-- `drawFormatInfo`; `usedMask = -1` is the all-true word that marks the cells as occupied -/
def drawFormatInfo {σ} (vi : VersionInfo) (usedMask : Int) (set : Nat → Nat → Bool → σ → σ) (st : σ) : σ :=
  let formatInfo : List Bool :=
    if usedMask == -1 then List.replicate 15 true
    else formatInfoOf vi.level usedMask.toNat
  if formatInfo.length == 15 then
    let dim := vi.modulWidth
    let f (i : Nat) : Bool := formatInfo.getD i false
    let cells : List (Nat × Nat × Nat) :=
      [(0, 8, 0), (1, 8, 1), (2, 8, 2), (3, 8, 3), (4, 8, 4), (5, 8, 5), (7, 8, 6), (8, 8, 7),
       (8, 7, 8), (8, 5, 9), (8, 4, 10), (8, 3, 11), (8, 2, 12), (8, 1, 13), (8, 0, 14),
       (8, dim - 1, 0), (8, dim - 2, 1), (8, dim - 3, 2), (8, dim - 4, 3), (8, dim - 5, 4),
       (8, dim - 6, 5), (8, dim - 7, 6), (dim - 8, 8, 7), (dim - 7, 8, 8), (dim - 6, 8, 9),
       (dim - 5, 8, 10), (dim - 4, 8, 11), (dim - 3, 8, 12), (dim - 2, 8, 13), (dim - 1, 8, 14)]
    cells.foldl (fun st (c : Nat × Nat × Nat) => set c.1 c.2.1 (f c.2.2) st) st
  else st

/-- `drawVersionInfo` -/
def drawVersionInfo {σ} (vi : VersionInfo) (set : Nat → Nat → Bool → σ → σ) (st : σ) : σ :=
  match mapGet v_versionInfoBitsByVersion (vi.version : Int) with
  | none => st
  | some versionInfoBits =>
    if versionInfoBits.length > 0 then
      let n := versionInfoBits.length
      (List.range n).foldl (fun st i =>
        let x := (vi.modulWidth - 11) + i % 3
        let y := i / 3
        let b := versionInfoBits.getD (n - i - 1) false
        set y x b (set x y b st)) st
    else st

/-- `addPaddingAndTerminator`, loop 1: `for i := 0; i < 4 && bl.Len() < cap; i++ { AddBit(false) }`
    (first argument = iterations left) -/
def terminatorBits : Nat → Nat → Nat → List Bool
  | 0, _, _ => []
  | k + 1, len, cap => if len < cap then false :: terminatorBits k (len + 1) cap else []

/-- loop 2: `for bl.Len()%8 != 0 { AddBit(false) }` (at most 7 iterations) -/
def alignBits : Nat → Nat → List Bool
  | 0, _ => []
  | k + 1, len => if len % 8 != 0 then false :: alignBits k (len + 1) else []

/-- loop 3: `for i := 0; bl.Len() < cap; i++ { AddByte(i%2==0 ? 236 : 17) }`
    (each iteration adds 8 bits, so `cap` iterations are enough) -/
def padBytes : Nat → Nat → Nat → Nat → List Bool
  | 0, _, _, _ => []
  | k + 1, i, len, cap =>
    if len < cap then msbBits (if i % 2 == 0 then 236 else 17) 8 ++ padBytes k (i + 1) (len + 8) cap else []

/-- `addPaddingAndTerminator` (returns the extended bit list) -/
def addPaddingAndTerminator (bl : List Bool) (vi : VersionInfo) : List Bool :=
  let cap := vi.totalDataBytes * 8
  let len := bl.length
  let t := terminatorBits 4 len cap
  let len := len + t.length
  let a := alignBits 8 len
  let len := len + a.length
  bl ++ (t ++ (a ++ padBytes cap 0 len cap))

/-! ## numeric.go -/

/-- `strconv.Atoi` on a string shorter than 19 bytes (its fast path; the chunks below have 1..3 bytes):
    an optional sign followed by at least one ASCII digit and nothing else.  `none` = syntax error. -/
def atoi (s : Bytes) : Option Int :=
  match s with
  | [] => none
  | c :: rest =>
    let body := if c == 45 || c == 43 then rest else s
    if body.isEmpty then none
    else if body.all (fun b => 48 ≤ b.toNat && b.toNat ≤ 57) then
      let n : Int := body.foldl (fun (a : Int) b => a * 10 + ((b.toNat - 48 : Nat) : Int)) 0
      some (if c == 45 then -n else n)
    else none

/-- the chunk loop of `encodeNumeric` (`pos += 3`); `none` = the error return.  Fuel = number of bytes. -/
def numericChunks : Nat → Bytes → Option (List Bool)
  | 0, _ => some []
  | fuel + 1, s =>
    if s.isEmpty then some []
    else
      let curStr := s.take 3
      match atoi curStr with
      | none => none
      | some i =>
        if i < 0 || curStr.head? == some 43 || curStr.head? == some 45 then none
        else
          let bitCnt := match curStr.length % 3 with
            | 0 => 10
            | 1 => 4
            | _ => 7
          match numericChunks fuel (s.drop 3) with
          | none => none
          | some rest => some (msbBits i.toNat bitCnt ++ rest)

/-- `encodeNumeric`; `none` = `(nil, nil, err)` -/
def encodeNumeric (content : Bytes) (ecl : Nat) : Option (List Bool × VersionInfo) :=
  let len := content.length
  let contentBitCount := (len / 3) * 10
  let contentBitCount := match len % 3 with
    | 1 => contentBitCount + 4
    | 2 => contentBitCount + 7
    | _ => contentBitCount
  match findSmallestVersionInfo ecl c_numericMode contentBitCount with
  | none => none
  | some vi =>
    let res := msbBits c_numericMode 4 ++ msbBits len (vi.charCountBits c_numericMode)
    match numericChunks len content with
    | none => none
    | some chunks => some (addPaddingAndTerminator (res ++ chunks) vi, vi)

/-! ## alphanumeric.go -/

/-- `stringToAlphaIdx`: the values sent on the channel — the index of every rune up to and including the
    first one that is not in `charSet` -/
def stringToAlphaIdx (content : Bytes) : List Int :=
  let rec go : List (Nat × Nat) → List Int
    | [] => []
    | (_, r) :: rest =>
      let idx := indexRune c_charSet r
      if idx < 0 then [idx] else idx :: go rest
  go (runes content)

/-- `<-encoder`: next value, or 0 once the channel is closed -/
def recv : List Int → Int × List Int
  | [] => (0, [])
  | x :: rest => (x, rest)

/-- the pair loop of `encodeAlphaNumeric` (`len(content)/2` iterations) -/
def alphaPairs : Nat → List Int → Option (List Bool × List Int)
  | 0, ch => some ([], ch)
  | n + 1, ch =>
    let (c1, ch) := recv ch
    let (c2, ch) := recv ch
    if c1 < 0 || c2 < 0 then none
    else match alphaPairs n ch with
      | none => none
      | some (bits, ch') => some (msbBits (c1 * 45 + c2).toNat 11 ++ bits, ch')

/-- `encodeAlphaNumeric` -/
def encodeAlphaNumeric (content : Bytes) (ecl : Nat) : Option (List Bool × VersionInfo) :=
  let len := content.length
  let contentLenIsOdd := len % 2 == 1
  let contentBitCount := (len / 2) * 11
  let contentBitCount := if contentLenIsOdd then contentBitCount + 6 else contentBitCount
  match findSmallestVersionInfo ecl c_alphaNumericMode contentBitCount with
  | none => none
  | some vi =>
    let res := msbBits c_alphaNumericMode 4 ++ msbBits len (vi.charCountBits c_alphaNumericMode)
    let encoder := stringToAlphaIdx content
    match alphaPairs (len / 2) encoder with
    | none => none
    | some (pairs, encoder) =>
      if contentLenIsOdd then
        let (c, _) := recv encoder
        if c < 0 then none
        else some (addPaddingAndTerminator (res ++ (pairs ++ msbBits c.toNat 6)) vi, vi)
      else some (addPaddingAndTerminator (res ++ pairs) vi, vi)

/-! ## unicode.go -/

/-- `encodeUnicode` -/
def encodeUnicode (content : Bytes) (ecl : Nat) : Option (List Bool × VersionInfo) :=
  let data := content
  match findSmallestVersionInfo ecl c_byteMode (data.length * 8) with
  | none => none
  | some vi =>
    let res := msbBits c_byteMode 4 ++ msbBits content.length (vi.charCountBits c_byteMode)
    some (addPaddingAndTerminator (res ++ data.flatMap (fun b => msbBits b.toNat 8)) vi, vi)

/-! ## automatic.go -/

/-- `encodeAuto`.  `Numeric.getEncoder()` etc. are `encodeNumeric`, `encodeAlphaNumeric`, `encodeUnicode` by the
    `switch` in `getEncoder` (called directly here to avoid a definitional cycle).  Every encoder returns
    either both results or neither, so `bits != nil && vi != nil` is `isSome`. -/
def encodeAuto (content : Bytes) (ecl : Nat) : Option (List Bool × VersionInfo) :=
  match encodeNumeric content ecl with
  | some r => some r
  | none =>
    match encodeAlphaNumeric content ecl with
    | some r => some r
    | none =>
      match encodeUnicode content ecl with
      | some r => some r
      | none => none

/-! ## errorcorrection.go -/

/-- `newErrorCorrection`: `utils.NewGaloisField(285, 256, 0)`, parameters from the extracted call -/
def ecField : GF.Field :=
  match call_NewGaloisField with
  | [pp, size, b] :: _ => GF.newField pp.toNat size.toNat b.toNat
  | _ => GF.newField 0 0 0

/-- `calcECC` -/
def calcECC (data : List Nat) (eccCount : Nat) : List Nat :=
  (GF.rsEncode ecField data eccCount).map (· % 256)

/-! ## blocks.go -/

structure Block where
  data : List Nat
  ecc : List Nat
  deriving Repr

/-- one group loop of `splitToBlocks`: `n` blocks of `len` codewords read from the channel at `pos`
    (`<-data` on the closed channel gives 0) -/
def readBlocks (bytes : Array Nat) (ecc : Nat) (len : Nat) : Nat → Nat → List Block
  | 0, _ => []
  | n + 1, pos =>
    let d := (List.range len).map (fun cw => bytes.getD (pos + cw) 0)
    { data := d, ecc := calcECC d ecc } :: readBlocks bytes ecc len n (pos + len)

/-- `splitToBlocks`.  The result slice has `byte(n1+n2)` entries: if the byte addition wrapped, an assignment
    `result[b] = blk` would be out of range (never the case for the table). -/
def splitToBlocks (data : List Nat) (vi : VersionInfo) : Res (List Block) :=
  let n1 := vi.numberOfBlocksInGroup1
  let n2 := vi.numberOfBlocksInGroup2
  if n1 + n2 ≥ 256 then .error .panic
  else
    let bytes := data.toArray
    let g1 := readBlocks bytes vi.errorCorrectionCodewordsPerBlock vi.dataCodeWordsPerBlockInGroup1 n1 0
    let g2 := readBlocks bytes vi.errorCorrectionCodewordsPerBlock vi.dataCodeWordsPerBlockInGroup2 n2
      (n1 * vi.dataCodeWordsPerBlockInGroup1)
    .ok (g1 ++ g2)

/-- `interleave` (`resultLen` is only a capacity hint) -/
def interleave (bl : List Block) (vi : VersionInfo) : List Nat :=
  let maxCodewordCount :=
    if vi.dataCodeWordsPerBlockInGroup1 > vi.dataCodeWordsPerBlockInGroup2
    then vi.dataCodeWordsPerBlockInGroup1 else vi.dataCodeWordsPerBlockInGroup2
  let blocks := bl.map (fun b => (b.data.toArray, b.ecc.toArray))
  let dataPart := (List.range maxCodewordCount).flatMap (fun i =>
    blocks.filterMap (fun (b : Array Nat × Array Nat) => if b.1.size > i then some (b.1.getD i 0) else none))
  let eccPart := (List.range vi.errorCorrectionCodewordsPerBlock).flatMap (fun i =>
    blocks.map (fun (b : Array Nat × Array Nat) => b.2.getD i 0))
  dataPart ++ eccPart

/-! ## encoder.go — render and entry points -/

/-- the state that the closures of `render` share -/
structure RenderState where
  occupied : QRCode
  results : Array QRCode

/-- the closure `setAll` of `render` -/
def setAll (x y : Nat) (val : Bool) (st : RenderState) : RenderState :=
  let occupied := st.occupied.set x y true
  let results := (List.range 8).foldl (fun (rs : Array QRCode) i => rs.modify i (QRCode.set x y val)) st.results
  { occupied := occupied, results := results }

/-- `results[i].Set` as a state transformer -/
def setResult (i : Nat) (x y : Nat) (val : Bool) (st : RenderState) : RenderState :=
  { st with results := st.results.modify i (QRCode.set x y val) }

def setOccupied (x y : Nat) (val : Bool) (st : RenderState) : RenderState :=
  { st with occupied := st.occupied.set x y val }

/-- `render`.  Returns the chosen bitmap and (for inspection) the index of the mask. -/
def renderWithMask (data : List Nat) (vi : VersionInfo) (color : Scheme) : Res (QRCode × Nat) :=
  let dim := vi.modulWidth
  let st : RenderState :=
    { occupied := newBarCodeWithColor dim color,
      results := (List.range 8).foldl (fun a _ => a.push (newBarCodeWithColor dim color)) #[] }
  let st := drawFinderPatterns vi setAll st
  let st := drawAlignmentPatterns (fun st x y => st.occupied.get x y) vi setAll st
  -- Timing Pattern
  let st := (List.range dim).foldl (fun (st : RenderState) i =>
    let st := if !st.occupied.get i 6 then setAll i 6 (i % 2 == 0) st else st
    let st := if !st.occupied.get 6 i then setAll 6 i (i % 2 == 0) st else st
    st) st
  -- Dark Module
  let st := setAll 8 (dim - 8) true st
  let st := drawVersionInfo vi setAll st
  let st := drawFormatInfo vi (-1) setOccupied st
  let st := (List.range 8).foldl (fun st (i : Nat) => drawFormatInfo vi (i : Int) (setResult i) st) st
  -- Write the data
  let bytes := data.toArray
  let nbits := bytes.size * 8
  let occupied := st.occupied
  let (results, _) := (iterateModules occupied).foldl
    (fun (acc : Array QRCode × Nat) (pos : Nat × Nat) =>
      let (results, curBitNo) := acc
      let curBit :=
        if curBitNo < nbits then ((bytes.getD (curBitNo / 8) 0) >>> (7 - (curBitNo % 8))) % 2 == 1
        else false
      let results := (List.range 8).foldl (fun (rs : Array QRCode) i =>
        rs.modify i (setMasked pos.1 pos.2 curBit i QRCode.set)) results
      (results, curBitNo + 1))
    (st.results, 0)
  -- `lowestPenalty := ^uint(0)`: `none` stands for the maximal uint, `lowestPenaltyIdx := -1`
  let (_, lowestPenaltyIdx) := (List.range 8).foldl
    (fun (acc : Option Nat × Option Nat) i =>
      let p := (results.getD i (newBarCodeWithColor 0 color)).calcPenalty
      match acc.1 with
      | none => (some p, some i)             -- p < 2^64 - 1 always: penalties are far below 2^64
      | some lowest => if p < lowest then (some p, some i) else acc)
    (none, none)
  match lowestPenaltyIdx with
  | none => .error .panic                    -- `results[-1]` (unreachable: the loop runs 8 times)
  | some i =>
    match results[i]? with
    | some r => .ok (r, i)
    | none => .error .panic

def render (data : List Nat) (vi : VersionInfo) (color : Scheme) : Res QRCode :=
  (renderWithMask data vi color).map (·.1)

abbrev EncodeFn := Bytes → Nat → Option (List Bool × VersionInfo)

/-- `Encoding.getEncoder`; `none` is the nil function -/
def getEncoder (e : Nat) : Option EncodeFn :=
  if e == c_Auto then some encodeAuto
  else if e == c_Numeric then some encodeNumeric
  else if e == c_AlphaNumeric then some encodeAlphaNumeric
  else if e == c_Unicode then some encodeUnicode
  else none

/-- `Encoding.String` -/
def encodingString (e : Nat) : String :=
  if e == c_Auto then "Auto"
  else if e == c_Numeric then "Numeric"
  else if e == c_AlphaNumeric then "AlphaNumeric"
  else if e == c_Unicode then "Unicode"
  else ""

/-- `ErrorCorrectionLevel.String` -/
def levelString (ecl : Nat) : String :=
  if ecl == c_L then "L" else if ecl == c_M then "M" else if ecl == c_Q then "Q" else if ecl == c_H then "H"
  else "unknown"

/-- `bits.IterateBytes()`: ⌈count/8⌉ bytes, the last one zero padded -/
def iterateBytes (bits : List Bool) : List Nat := pack8 bits

def QRCode.toBarcode (qr : QRCode) : Barcode :=
  { kind := kindStr Gen.Root.c_TypeQR, dims := 2, w := qr.dimension, h := qr.dimension,
    dark := fun x y => qr.get x y, content := qr.content, checksum := none, scheme := qr.color }

/-- the pipeline of `EncodeWithColor` up to the `qrcode` value -/
def encodeQR (content : Bytes) (level : Nat) (mode : Nat) (color : Scheme) : Res (QRCode × VersionInfo × Nat) :=
  match getEncoder mode with
  | none => .error .panic                    -- call of a nil func value
  | some enc =>
    match enc content level with
    | none => .error .rejected
    | some (bits, vi) => do
      let blocks ← splitToBlocks (iterateBytes bits) vi
      let data := interleave blocks vi
      let (result, mask) ← renderWithMask data vi color
      pure ({ result with content := content }, vi, mask)

/-- `EncodeWithColor` -/
def encodeWithColor (content : Bytes) (level : Nat) (mode : Nat) (color : Scheme) : Res Barcode :=
  (encodeQR content level mode color).map (fun r => r.1.toBarcode)

/-- `Encode` -/
def encode (content : Bytes) (level : Nat) (mode : Nat) : Res Barcode :=
  encodeWithColor content level mode scheme16

end BV.Model.Qr
