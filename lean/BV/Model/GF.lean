/-
  Model of /repo/utils/galoisfield.go, gfpoly.go, reedsolomon.go.

  Conventions: Go `int` operands are `Nat` (the exported API is only meaningful for 0 ≤ a < Size);
  table reads outside the tables (a Go index panic) return 0 here, and every theorem about these
  functions carries the guard that keeps the indices in range (C17 states the guards explicitly).
  Polynomials are coefficient lists, highest degree first, exactly like `GFPoly.Coefficients`.
-/
import BV.Base
namespace BV.Model.GF
open BV

structure Field where
  size : Nat
  base : Nat
  alog : Array Nat
  log : Array Nat
  deriving Repr

/-- first loop of `NewGaloisField`: ALogTbl[i] = x; x = 2x; if x ≥ size then x = (x ^ pp) & (size-1) -/
def alogList (pp size : Nat) : Nat → Nat → List Nat
  | 0, _ => []
  | n + 1, x =>
    let x2 := x * 2
    let nx := if x2 ≥ size then (x2 ^^^ pp) &&& (size - 1) else x2
    x :: alogList pp size n nx

/-- `NewGaloisField(pp, fieldSize, b)` -/
def newField (pp size b : Nat) : Field :=
  let al := alogList pp size size 1
  let lg := (List.range size).foldl (fun (t : Array Nat) i => t.setIfInBounds (al.getD i 0) i) (Array.replicate size 0)
  { size := size, base := b, alog := al.toArray, log := lg }

def Field.addOrSub (_ : Field) (a b : Nat) : Nat := a ^^^ b

def Field.mul (f : Field) (a b : Nat) : Nat :=
  if a = 0 ∨ b = 0 then 0
  else f.alog.getD ((f.log.getD a 0 + f.log.getD b 0) % (f.size - 1)) 0

/-- `Divide`; `none` is the explicit `panic("divide by zero")` -/
def Field.div (f : Field) (a b : Nat) : Option Nat :=
  if b = 0 then none
  else if a = 0 then some 0
  else some (f.alog.getD ((f.log.getD a 0 + (f.size - 1) - f.log.getD b 0) % (f.size - 1)) 0)

def Field.inv (f : Field) (a : Nat) : Nat :=
  f.alog.getD ((f.size - 1) - f.log.getD a 0) 0

/-! ### GFPoly -/

abbrev Poly := List Nat

/-- `NewGFPoly`: strip leading zeros while more than one coefficient is left -/
def newPoly : Poly → Poly
  | [] => []
  | [c] => [c]
  | c :: d :: rest => if c = 0 then newPoly (d :: rest) else c :: d :: rest

def pZero : Poly := newPoly [0]
def degree (p : Poly) : Int := (p.length : Int) - 1
def isZero (p : Poly) : Bool := p.headD 0 == 0
/-- `GetCoefficient(degree)` -/
def coeff (p : Poly) (d : Nat) : Nat := p.getD (p.length - 1 - d) 0

/-- `AddOrSubstract` -/
def polyAdd (p q : Poly) : Poly :=
  if isZero p then q
  else if isZero q then p
  else
    let (small, large) := if p.length > q.length then (q, p) else (p, q)
    let lenDiff := large.length - small.length
    newPoly (large.take lenDiff ++ List.zipWith (· ^^^ ·) small (large.drop lenDiff))

/-- `MultByMonominal(degree, coeff)` -/
def mulMonomial (f : Field) (p : Poly) (deg : Nat) (c : Nat) : Poly :=
  if c = 0 then pZero
  else newPoly (p.map (fun x => f.mul x c) ++ List.replicate deg 0)

/-- xor `q` into the front of `acc` (positions beyond `q` unchanged) -/
def xorPrefix : Poly → Poly → Poly
  | acc, [] => acc
  | [], _ => []
  | a :: acc, b :: q => (a ^^^ b) :: xorPrefix acc q

/-- the double loop of `Multiply`, `product[i+j] ^= a[i]*b[j]`: when row `i` has been added, position `i` is final.
    `doneRev` = final positions (reversed), `pending` = positions `i …` -/
def polyMulGo (f : Field) (q : Poly) : Poly → Poly → Poly → Poly
  | [], doneRev, pending => doneRev.reverse ++ pending
  | a :: rest, doneRev, pending =>
    match xorPrefix pending (q.map (fun b => f.mul a b)) with
    | [] => doneRev.reverse
    | h :: t => polyMulGo f q rest (h :: doneRev) t

/-- `Multiply` -/
def polyMul (f : Field) (p q : Poly) : Poly :=
  if isZero p ∨ isZero q then pZero
  else newPoly (polyMulGo f q p [] (List.replicate (p.length + q.length - 1) 0))

/-- `NewMonominalPoly` -/
def monomial (deg c : Nat) : Poly :=
  if c = 0 then pZero else newPoly (c :: List.replicate deg 0)

/-- `Divide` (the loop runs at most `len p` times; fuel is that bound) -/
def polyDivAux (f : Field) (other : Poly) (invLead : Nat) : Nat → Poly → Poly → Poly × Poly
  | 0, quot, rem => (quot, rem)
  | fuel + 1, quot, rem =>
    if degree rem ≥ degree other ∧ !isZero rem then
      let degDiff := (degree rem - degree other).toNat
      let scale := f.mul (coeff rem (degree rem).toNat) invLead
      let term := mulMonomial f other degDiff scale
      let itQuot := monomial degDiff scale
      polyDivAux f other invLead fuel (polyAdd quot itQuot) (polyAdd rem term)
    else (quot, rem)

def polyDiv (f : Field) (p other : Poly) : Poly × Poly :=
  let lead := coeff other (degree other).toNat
  polyDivAux f other (f.inv lead) (p.length + 1) pZero p

/-! ### ReedSolomonEncoder -/

/-- the cache `polynomes`; index = degree -/
abbrev Cache := List Poly

def newEncoder : Cache := [newPoly [1]]

/-- `getPolynomial(degree)`: extends the cache up to `degree`, returns the entry and the new cache -/
def getPolynomial (f : Field) (cache : Cache) (deg : Nat) : Poly × Cache :=
  let rec extend (n : Nat) (d : Nat) (last : Poly) (cache : Cache) : Cache :=
    match n with
    | 0 => cache
    | n + 1 =>
      let next := polyMul f last (newPoly [1, f.alog.getD (d - 1 + f.base) 0])
      extend n (d + 1) next (cache ++ [next])
  let cache' :=
    if deg ≥ cache.length then extend (deg + 1 - cache.length) cache.length (cache.getLastD []) cache
    else cache
  (cache'.getD deg [], cache')

/-- `Encode(data, eccCount)` with explicit cache state -/
def encodeWith (f : Field) (cache : Cache) (data : List Nat) (ecc : Nat) : List Nat × Cache :=
  let (gen, cache') := getPolynomial f cache ecc
  let info := mulMonomial f (newPoly data) ecc 1
  let (_, rem) := polyDiv f info gen
  (List.replicate (ecc - rem.length) 0 ++ rem, cache')

/-- `Encode` on a fresh encoder; by `C15/C17` the cache state is irrelevant for the result -/
def rsEncode (f : Field) (data : List Nat) (ecc : Nat) : List Nat :=
  (encodeWith f newEncoder data ecc).1

end BV.Model.GF
