/-
  Model of /repo/utils/bitlist.go.  Words are `BitVec 32` with Go's `int32` semantics
  (`|`, `&^`-style and-not, `<<`, arithmetic `>>`).  Indexing outside `data` is a Go panic;
  here such a write leaves the list unchanged and such a read returns `false` — every theorem of C18
  carries the guard `index < count`, under which the index is proved to be in range.
-/
import BV.Base
namespace BV.Model.BitList
open BV

structure BL where
  count : Nat
  data : Array (BitVec 32)
  deriving Repr

/-- the zero value `new(utils.BitList)` -/
def empty : BL := { count := 0, data := #[] }

/-- `NewBitList(capacity)` -/
def new (capacity : Nat) : BL :=
  { count := capacity, data := Array.replicate (capacity / 32 + (if capacity % 32 != 0 then 1 else 0)) 0#32 }

def BL.len (b : BL) : Nat := b.count

/-- `grow` -/
def BL.grow (b : BL) : BL :=
  let growBy := b.data.size
  let growBy := if growBy < 128 then 128 else if growBy ≥ 1024 then 1024 else growBy
  { b with data := b.data ++ Array.replicate growBy 0#32 }

/-- `SetBit(index, value)` -/
def BL.setBit (b : BL) (index : Nat) (value : Bool) : BL :=
  let i := index / 32
  let shift := 31 - index % 32
  let w := b.data.getD i 0#32
  let w' := if value then w ||| (1#32 <<< shift) else w &&& ~~~(1#32 <<< shift)
  { b with data := b.data.setIfInBounds i w' }

/-- `GetBit(index)` -/
def BL.getBit (b : BL) (index : Nat) : Bool :=
  let i := index / 32
  let shift := 31 - index % 32
  ((b.data.getD i 0#32).sshiftRight shift &&& 1#32) == 1#32

/-- the `for itmIndex >= len(bl.data) { bl.grow() }` loop; one `grow` always suffices (it adds ≥ 128 words),
    fuel 2 covers it with room to spare -/
def BL.ensure (b : BL) : BL :=
  let b1 := if b.count / 32 ≥ b.data.size then b.grow else b
  if b1.count / 32 ≥ b1.data.size then b1.grow else b1

/-- `AddBit(bit)` for one bit -/
def BL.addBit (b : BL) (bit : Bool) : BL :=
  let b := b.ensure
  let b := b.setBit b.count bit
  { b with count := b.count + 1 }

/-- `AddBit(bits...)` -/
def BL.addBitsList (b : BL) (bits : List Bool) : BL := bits.foldl BL.addBit b

/-- `AddByte(b)`: bits 7..0 -/
def BL.addByte (b : BL) (x : Nat) : BL :=
  (List.range 8).foldl (fun acc i => acc.addBit ((x >>> (7 - i)) % 2 == 1)) b

/-- `AddBits(b, count)`: the low `k` bits of the Go `int` `x`, most significant first (arithmetic shift) -/
def BL.addBits (b : BL) (x : Int) (k : Nat) : BL :=
  (List.range k).foldl (fun acc i => acc.addBit ((x >>> (k - 1 - i)) % 2 == 1)) b

/-- `GetBytes()` -/
def BL.getBytes (b : BL) : List Nat :=
  let len := b.count / 8 + (if b.count % 8 != 0 then 1 else 0)
  (List.range len).map (fun i =>
    let shift := (3 - i % 4) * 8
    (((b.data.getD (i / 4) 0#32).sshiftRight shift) &&& 0xFF#32).toNat)

/-- `IterateBytes()`: the values sent on the channel, in order -/
def BL.iterateBytes (b : BL) : List Nat :=
  let rec go (fuel : Nat) (c : Int) (shift : Nat) (i : Nat) : List Nat :=
    match fuel with
    | 0 => []
    | fuel + 1 =>
      if c > 0 then
        let v := (((b.data.getD i 0#32).sshiftRight shift) &&& 0xFF#32).toNat
        if shift < 8 then v :: go fuel (c - 8) 24 (i + 1) else v :: go fuel (c - 8) (shift - 8) i
      else []
  go (b.count / 8 + 1) b.count 24 0

/-- the abstraction: the bit sequence a BitList stands for -/
def BL.abs (b : BL) : List Bool := (List.range b.count).map b.getBit

end BV.Model.BitList
