/-
  Model of /repo/twooffive/encoder.go.
-/
import BV.Model.Util
import BV.Gen.Twooffive
namespace BV.Model.Twooffive
open BV BV.Model

def table := Gen.Twooffive.v_encodingTable

structure Mode where
  start : List Bool
  stop : List Bool
  widths : List (Bool × Int)

def modeOf (interleaved : Bool) : Mode :=
  match Gen.Twooffive.v_modes.lookup interleaved with
  | some (s, e, w) => { start := s, stop := e, widths := w }
  | none => { start := [], stop := [], widths := [] }   -- Go: zero value of the map element

def Mode.width (m : Mode) (b : Bool) : Nat := ((m.widths.lookup b).getD 0).toNat

/-- the inner double loop: bars for `a`, spaces for `b` -/
def drawPair (m : Mode) (a b : List Bool) : List Bool :=
  (List.range Gen.Twooffive.c_patternWidth).flatMap (fun i =>
    List.replicate (m.width (a.getD i false)) true ++ List.replicate (m.width (b.getD i false)) false)

/-- `AddCheckSum` (after the `fix:` commit) -/
def addCheckSum (content : Bytes) : Option Bytes :=
  if content.isEmpty then none
  else
    let rec go (rs : List (Nat × Nat)) (even : Bool) (sum : Int) : Option Int :=
      match rs with
      | [] => some sum
      | (_, r) :: rest =>
        match mapGet table r with
        | none => none
        | some _ =>
          let v := runeToInt r
          go rest (!even) (if even then sum + v * 3 else sum + v)
    match go (runes content) (content.length % 2 == 1) 0 with
    | none => none
    | some sum => some (content ++ encodeRune (intToRune ((10 - sum.tmod 10).tmod 10)))

def encodeWithColor (content : Bytes) (interleaved : Bool) (s : Scheme) : Res Barcode :=
  if content.isEmpty then .error .rejected
  else if interleaved && content.length % 2 == 1 then .error .rejected
  else
    let m := modeOf interleaved
    let rec go (rs : List (Nat × Nat)) (last : Option Nat) (acc : List Bool) : Option (List Bool) :=
      match rs with
      | [] => if last.isSome then none else some acc   -- `if lastRune != nil { return error }` (fix: commit)
      | (_, r) :: rest =>
        if interleaved then
          match last with
          | none => go rest (some r) acc
          | some l =>
            match mapGet table l, mapGet table r with
            | some a, some b => go rest none (acc ++ drawPair m a b)
            | _, _ => none
        else
          match mapGet table r with
          | some a => go rest none (acc ++ drawPair m a Gen.Twooffive.v_nonInterleavedSpace)
          | none => none
    match go (runes content) none m.start with
    | none => .error .rejected
    | some bits =>
      let kind := if interleaved then Gen.Root.c_Type2of5Interleaved else Gen.Root.c_Type2of5
      .ok (mk1D (kindStr kind) content (bits ++ m.stop) none s)

def encode (content : Bytes) (interleaved : Bool) : Res Barcode := encodeWithColor content interleaved scheme16

end BV.Model.Twooffive
