/-
  Model of the small helpers in /repo/utils that encoders share (runeint.go, base1dcode.go constructors).
-/
import BV.Base
import BV.Gen.Root
namespace BV.Model

/-- `utils.RuneToInt` -/
def runeToInt (r : Nat) : Int := if 48 ≤ r ∧ r ≤ 57 then (r : Int) - 48 else -1

/-- `utils.IntToRune` -/
def intToRune (i : Int) : Nat := if 0 ≤ i ∧ i ≤ 9 then (i + 48).toNat else 70

/-- kind strings come from the generated constants of package `barcode` -/
def kindStr (b : Bytes) : String := String.fromUTF8! ⟨b.toArray⟩

/-- first value stored under key `k` in an association list generated from a Go map literal -/
def mapGet {α} (tbl : List (Int × α)) (k : Int) : Option α := tbl.lookup k

end BV.Model
