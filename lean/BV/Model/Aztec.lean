/-
  Model of /repo/aztec: state.go, token.go, highlevel.go, encoder.go, errorcorrection.go, azteccode.go.

  Conventions
  * `encodingMode` is a `Nat` (0..4, the generated `c_mode_*`); the Go maps `latchTable`, `shiftTable`
    are the generated association lists, a missing key yields the zero value (`0` / `(0, false)`).
  * `charMap` is a 5 x 256 array built exactly like `init()` does.
  * the token linked list (`prev()`) is a `List Token` with the most recent token first.
  * a growing `*utils.BitList` is a `List Bool`; `AddBits(x, n)` on an `int` that may be negative is
    `addBits` (two's complement bits, `-1` gives all ones).  The symbol matrix is an `Array Bool`.
  * Go panics that are reachable only outside the domain (negative `minECCPercent`) are `.error .panic`.
-/
import BV.Model.Util
import BV.Model.GF
import BV.Gen.Root
import BV.Gen.Aztec
namespace BV.Model.Aztec
open BV BV.Model
open BV.Gen.Aztec

/-! ### bit lists -/

/-- `(b >> i) & 1 == 1` on a Go `int` (arithmetic shift, two's complement) -/
def intBit (x : Int) (i : Nat) : Bool := (x >>> i) % 2 == 1

/-- the bits `BitList.AddBits(b, count)` appends -/
def addBits (b : Int) (count : Nat) : List Bool :=
  (List.range count).map (fun i => intBit b (count - 1 - i))

/-- the bits `BitList.AddByte(b)` appends -/
def addByte (b : UInt8) : List Bool := msbBits b.toNat 8

/-! ### state.go: tables -/

def mode_upper : Nat := c_mode_upper
def mode_lower : Nat := c_mode_lower
def mode_digit : Nat := c_mode_digit
def mode_mixed : Nat := c_mode_mixed
def mode_punct : Nat := c_mode_punct

/-- `tbl[a][b]` with the comma-ok result -/
def map2 (tbl : List (Int × List (Int × Int))) (a b : Nat) : Option Int :=
  (mapGet tbl (a : Int)).bind (fun m => mapGet m (b : Int))

/-- `latchTable[a][b]` (missing → 0) -/
def latchTable (a b : Nat) : Nat := ((map2 v_latchTable a b).getD 0).toNat

/-- `shiftTable[a][b]` with comma-ok (used in `updateStateForChar`) -/
def shiftTableOk (a b : Nat) : Option Int := map2 v_shiftTable a b

/-- `shiftTable[a][b]` plain indexing (used in `shiftAndAppend`; missing → 0) -/
def shiftTable (a b : Nat) : Nat := ((map2 v_shiftTable a b).getD 0).toNat

/-- `charMap[mode][v] = i`; the Go statement panics for `v` outside 0..255 (never with the pinned tables) -/
def charMapSet (m : Array (Array Int)) (mode : Nat) (v : Int) (i : Int) : Array (Array Int) :=
  if v < 0 then m else m.modify mode (fun row => row.setIfInBounds v.toNat i)

/-- `for i, v := range l` -/
def withIndex {α} (l : List α) : List (Nat × α) := (List.range l.length).zip l

/-- `init()`: the five 256-entry tables -/
def init : Array (Array Int) :=
  let m : Array (Array Int) := Array.replicate 5 (Array.replicate 256 0)
  let m := charMapSet m mode_upper 32 1
  let m := (List.range 26).foldl (fun m (k : Nat) => charMapSet m mode_upper (65 + (k : Int)) ((k : Int) + 2)) m
  let m := charMapSet m mode_lower 32 1
  let m := (List.range 26).foldl (fun m (k : Nat) => charMapSet m mode_lower (97 + (k : Int)) ((k : Int) + 2)) m
  let m := charMapSet m mode_digit 32 1
  let m := (List.range 10).foldl (fun m (k : Nat) => charMapSet m mode_digit (48 + (k : Int)) ((k : Int) + 2)) m
  let m := charMapSet m mode_digit 44 12
  let m := charMapSet m mode_digit 46 13
  let m := (withIndex l_init_mixedTable).foldl (fun m (p : Nat × Int) => charMapSet m mode_mixed p.2 p.1) m
  let m := (withIndex l_init_punctTable).foldl
    (fun m (p : Nat × Int) => if p.2 > 0 then charMapSet m mode_punct p.2 p.1 else m) m
  m

def charMap : Array (Array Int) := init

/-- `charMap[mode][ch]` -/
def charMapAt (mode : Nat) (ch : UInt8) : Nat := ((charMap.getD mode #[]).getD ch.toNat 0).toNat

/-- `encodingMode.BitCount` -/
def BitCount (em : Nat) : Nat := if em == mode_digit then 4 else 5

/-! ### token.go -/

inductive Token
  | simple (value : Nat) (bitCount : Nat)
  | binaryShift (bShiftStart : Nat) (bShiftByteCnt : Nat)
  deriving Repr, DecidableEq, Inhabited

/-- `newSimpleToken(prev, value, bitCount)`; `bitCount` is a Go `byte` -/
def newSimpleToken (prev : List Token) (value : Nat) (bitCount : Nat) : List Token :=
  Token.simple value (bitCount % 256) :: prev

/-- `newShiftToken(prev, bShiftStart, bShiftCnt)` -/
def newShiftToken (prev : List Token) (bShiftStart bShiftCnt : Nat) : List Token :=
  Token.binaryShift bShiftStart bShiftCnt :: prev

/-- the bits `binaryShiftToken.appendTo` appends for byte number `i` of the run (header, then the byte) -/
def binaryShiftByteBits (text : Array UInt8) (bShiftStart bShiftByteCnt i : Nat) : List Bool :=
  let header :=
    if i == 0 || (i == 31 && bShiftByteCnt ≤ 62) then
      addBits 31 5 ++
        (if bShiftByteCnt > 62 then addBits ((bShiftByteCnt : Int) - 31) 16
         else if i == 0 then
           (if bShiftByteCnt < 31 then addBits (bShiftByteCnt : Int) 5 else addBits 31 5)
         else addBits ((bShiftByteCnt : Int) - 31) 5)
    else []
  -- `text[bShiftStart+i]` is in range: a run ending before `index` starts at `index - count`
  header ++ addByte (text.getD (bShiftStart + i) 0)

/-- the bits that `t.appendTo(bits, text)` appends -/
def Token.bits (text : Array UInt8) : Token → List Bool
  | .simple value bc => addBits (value : Int) bc
  | .binaryShift start cnt => (List.range cnt).flatMap (binaryShiftByteBits text start cnt)

/-- `simpleToken.appendTo` / `binaryShiftToken.appendTo` -/
def Token.appendTo (t : Token) (bits : List Bool) (text : Array UInt8) : List Bool :=
  bits ++ t.bits text

/-! ### state.go -/

structure State where
  mode : Nat
  tokens : List Token
  bShiftByteCount : Nat
  bitCount : Nat
  deriving Repr, Inhabited

def initialState : State := { mode := mode_upper, tokens := [], bShiftByteCount := 0, bitCount := 0 }

/-- `latchAndAppend` -/
def State.latchAndAppend (s : State) (mode : Nat) (value : Nat) : State :=
  let (tokens, bc) :=
    if mode != s.mode then
      let latch := latchTable s.mode mode
      (newSimpleToken s.tokens (latch &&& 0xFFFF) (latch >>> 16), s.bitCount + (latch >>> 16))
    else (s.tokens, s.bitCount)
  let tokens := newSimpleToken tokens value (BitCount mode)
  { mode := mode, tokens := tokens, bShiftByteCount := 0, bitCount := bc + BitCount mode }

/-- `shiftAndAppend` -/
def State.shiftAndAppend (s : State) (mode : Nat) (value : Nat) : State :=
  let tokens := newSimpleToken s.tokens (shiftTable s.mode mode) (BitCount s.mode)
  let tokens := newSimpleToken tokens value 5
  { mode := s.mode, tokens := tokens, bShiftByteCount := 0, bitCount := s.bitCount + BitCount s.mode + 5 }

/-- `endBinaryShift`; `index - bShiftByteCount` is never negative (the run consists of the
    `bShiftByteCount` bytes before `index`) -/
def State.endBinaryShift (s : State) (index : Nat) : State :=
  if s.bShiftByteCount == 0 then s
  else
    let tokens := newShiftToken s.tokens (index - s.bShiftByteCount) s.bShiftByteCount
    { mode := s.mode, tokens := tokens, bShiftByteCount := 0, bitCount := s.bitCount }

/-- `addBinaryShiftChar` -/
def State.addBinaryShiftChar (s : State) (index : Nat) : State :=
  let (tokens, bitCnt, mode) :=
    if s.mode == mode_punct || s.mode == mode_digit then
      let latch := latchTable s.mode mode_upper
      (newSimpleToken s.tokens (latch &&& 0xFFFF) (latch >>> 16), s.bitCount + (latch >>> 16), mode_upper)
    else (s.tokens, s.bitCount, s.mode)
  let deltaBitCount :=
    if s.bShiftByteCount == 0 || s.bShiftByteCount == 31 then 18
    else if s.bShiftByteCount == 62 then 9
    else 8
  let result : State :=
    { mode := mode, tokens := tokens, bShiftByteCount := s.bShiftByteCount + 1, bitCount := bitCnt + deltaBitCount }
  if result.bShiftByteCount == 2047 + 31 then result.endBinaryShift (index + 1) else result

/-- `isBetterThanOrEqualTo` -/
def State.isBetterThanOrEqualTo (this other : State) : Bool :=
  let mySize := this.bitCount + (latchTable this.mode other.mode >>> 16)
  let mySize :=
    if other.bShiftByteCount > 0 && (this.bShiftByteCount == 0 || this.bShiftByteCount > other.bShiftByteCount)
    then mySize + 10 else mySize
  mySize ≤ other.bitCount

/-- `toBitList`: the tokens oldest first, each appending its bits (`= foldl appendTo []`) -/
def State.toBitList (s : State) (text : Array UInt8) : List Bool :=
  let se := s.endBinaryShift text.size
  se.tokens.reverse.flatMap (Token.bits text)

/-! ### highlevel.go -/

/-- the inner loop of `simplifyStates`: (add, newResult) after scanning `result` -/
def simplifyStep (newState : State) (result : List State) : Bool × List State :=
  let (add, acc) := result.foldl
    (fun (st : Bool × List State) oldState =>
      let add := if st.1 && oldState.isBetterThanOrEqualTo newState then false else st.1
      let acc := if !(add && newState.isBetterThanOrEqualTo oldState) then oldState :: st.2 else st.2
      (add, acc))
    (true, [])
  (add, acc.reverse)

/-- `simplifyStates` -/
def simplifyStates (states : List State) : List State :=
  states.foldl
    (fun result newState =>
      let (add, newResult) := simplifyStep newState result
      if add then newResult ++ [newState] else newResult)
    []

/-- `updateStateForChar` -/
def updateStateForChar (s : State) (data : Array UInt8) (index : Nat) : List State :=
  let ch := data.getD index 0
  let charInCurrentTable := charMapAt s.mode ch > 0
  -- `stateNoBinary` is created lazily in Go; `endBinaryShift` is pure, so computing it up front is the same
  let stateNoBinary := s.endBinaryShift index
  let result := (List.range (mode_punct + 1 - mode_upper)).foldl
    (fun (result : List State) k =>
      let mode := mode_upper + k
      let charInMode := charMapAt mode ch
      if charInMode > 0 then
        let result :=
          if !charInCurrentTable || mode == s.mode || mode == mode_digit then
            result ++ [stateNoBinary.latchAndAppend mode charInMode]
          else result
        let result :=
          if !charInCurrentTable && (shiftTableOk s.mode mode).isSome then
            result ++ [stateNoBinary.shiftAndAppend mode charInMode]
          else result
        result
      else result)
    []
  if s.bShiftByteCount > 0 || charMapAt s.mode ch == 0 then
    result ++ [s.addBinaryShiftChar index]
  else result

/-- `updateStateListForChar` -/
def updateStateListForChar (states : List State) (data : Array UInt8) (index : Nat) : List State :=
  simplifyStates (states.flatMap (fun s => updateStateForChar s data index))

/-- `updateStateForPair` -/
def updateStateForPair (s : State) (_data : Array UInt8) (index : Nat) (pairCode : Nat) : List State :=
  let stateNoBinary := s.endBinaryShift index
  let result := [stateNoBinary.latchAndAppend mode_punct pairCode]
  let result :=
    if s.mode != mode_punct then result ++ [stateNoBinary.shiftAndAppend mode_punct pairCode] else result
  let result :=
    if pairCode == 3 || pairCode == 4 then
      result ++ [(stateNoBinary.latchAndAppend mode_digit (16 - pairCode)).latchAndAppend mode_digit 1]
    else result
  if s.bShiftByteCount > 0 then
    result ++ [(s.addBinaryShiftChar index).addBinaryShiftChar (index + 1)]
  else result

/-- `updateStateListForPair` -/
def updateStateListForPair (states : List State) (data : Array UInt8) (index : Nat) (pairCode : Nat) : List State :=
  simplifyStates (states.flatMap (fun s => updateStateForPair s data index pairCode))

/-- the `switch` of `highlevelEncode` -/
def pairCodeOf (cur nextChar : UInt8) : Nat :=
  if cur == 13 && nextChar == 10 then 2
  else if cur == 46 && nextChar == 32 then 3
  else if cur == 44 && nextChar == 32 then 4
  else if cur == 58 && nextChar == 32 then 5
  else 0

/-- the main loop of `highlevelEncode`; every iteration advances `index`, so `len(data)` fuel suffices -/
def highlevelLoop (data : Array UInt8) : Nat → Nat → List State → List State
  | 0, _, states => states
  | fuel + 1, index, states =>
    if index < data.size then
      let nextChar : UInt8 := if index + 1 < data.size then data.getD (index + 1) 0 else 0
      let pairCode := pairCodeOf (data.getD index 0) nextChar
      if pairCode > 0 then
        highlevelLoop data fuel (index + 2) (updateStateListForPair states data index pairCode)
      else
        highlevelLoop data fuel (index + 1) (updateStateListForChar states data index)
    else states

/-- the final selection: the first state with strictly smaller `bitCount` wins -/
def minState (states : List State) : Option State :=
  (states.foldl
    (fun (acc : Nat × Option State) s => if s.bitCount < acc.1 then (s.bitCount, some s) else acc)
    (2 ^ 63 - 1, none)).2

/-- `highlevelEncode` -/
def highlevelEncode (data : Bytes) : List Bool :=
  let arr := data.toArray
  let states := highlevelLoop arr arr.size 0 [initialState]
  match minState states with
  | some result => result.toBitList arr
  | none => []

/-! ### errorcorrection.go -/

/-- `getGF`; `none` is the nil field of the `default` branch -/
def getGF (wordSize : Nat) : Option GF.Field :=
  let mk (i : Nat) : Option GF.Field :=
    match call_NewGaloisField.getD i [] with
    | [pp, size, b] => some (GF.newField pp.toNat size.toNat b.toNat)
    | _ => none
  match wordSize with
  | 4 => mk 0
  | 6 => mk 1
  | 8 => mk 2
  | 10 => mk 3
  | 12 => mk 4
  | _ => none

/-- `bitsToWords` -/
def bitsToWords (stuffedBits : Array Bool) (wordSize wordCount : Nat) : List Nat :=
  (List.range wordCount).map (fun i =>
    (List.range wordSize).foldl
      (fun value j => if stuffedBits.getD (i * wordSize + j) false then value ||| (1 <<< (wordSize - j - 1)) else value)
      0)

/-- `generateCheckWords`.  Panics: a nil field; `eccWordCount < 0` (negative index in `getPolynomial`);
    `eccWordCount = 0` with a non-empty message (`result[-1:]` in `Encode`).  None of them is reachable
    for `minECCPercent ≥ 0`. -/
def generateCheckWords (bits : List Bool) (totalBits wordSize : Nat) : Res (List Bool) :=
  match getGF wordSize with
  | none => .error .panic
  | some gf =>
    let messageWordCount := bits.length / wordSize
    let totalWordCount := totalBits / wordSize
    if totalWordCount < messageWordCount then .error .panic
    else
      let eccWordCount := totalWordCount - messageWordCount
      if eccWordCount == 0 && messageWordCount > 0 then .error .panic
      else
        let messageWords := bitsToWords bits.toArray wordSize messageWordCount
        let eccWords := GF.rsEncode gf messageWords eccWordCount
        let startPad := totalBits % wordSize
        .ok (addBits 0 startPad
              ++ messageWords.flatMap (fun (w : Nat) => addBits (w : Int) wordSize)
              ++ eccWords.flatMap (fun (w : Nat) => addBits (w : Int) wordSize))

/-! ### encoder.go -/

/-- `word_size[layers]` (index panics are unreachable: `layers ≤ 32` at every use) -/
def word_size (layers : Nat) : Nat := (v_word_size.getD layers 0).toNat

/-- `totalBitsInLayer` -/
def totalBitsInLayer (layers : Nat) (compact : Bool) : Nat :=
  let tmp := if compact then 88 else 112
  (tmp + 16 * layers) * layers

/-- `stuffBits`: `bits` is the not yet consumed suffix (`i < n` ⇔ non-empty); a stuffed word re-reads its
    last bit (`i--`), i.e. consumes `wordSize - 1` bits.  Every step consumes at least one bit for
    `wordSize ≥ 2`, so `len(bits)` fuel suffices. -/
def stuffBitsAux (wordSize : Nat) : Nat → List Bool → List Bool
  | 0, _ => []
  | _, [] => []
  | fuel + 1, b :: rest =>
    let bits := b :: rest
    let chunk := bits.take wordSize
    let word := bitsToNat (chunk ++ List.replicate (wordSize - chunk.length) true)
    let mask := (1 <<< wordSize) - 2
    if word &&& mask == mask then
      addBits ((word &&& mask : Nat) : Int) wordSize ++ stuffBitsAux wordSize fuel (bits.drop (wordSize - 1))
    else if word &&& mask == 0 then
      addBits ((word ||| 1 : Nat) : Int) wordSize ++ stuffBitsAux wordSize fuel (bits.drop (wordSize - 1))
    else
      addBits (word : Int) wordSize ++ stuffBitsAux wordSize fuel (bits.drop wordSize)

def stuffBits (bits : List Bool) (wordSize : Nat) : List Bool :=
  -- `for i := 0; i < n || out.Len() == 0; …` (fix: commit): an empty stream still yields one word, built from
  -- padding ones only, i.e. `AddBits(mask, wordSize)`
  if bits.isEmpty then addBits (((1 <<< wordSize) - 2 : Nat) : Int) wordSize
  else stuffBitsAux wordSize bits.length bits

/-- `generateModeMessage`; the arguments of the two `generateCheckWords` calls are the generated ones -/
def generateModeMessage (compact : Bool) (layers : Nat) (messageSizeInWords : Nat) : Res (List Bool) :=
  let arg (i j : Nat) : Nat := ((call_generateCheckWords.getD i []).getD j 0).toNat
  if compact then
    generateCheckWords (addBits ((layers : Int) - 1) 2 ++ addBits ((messageSizeInWords : Int) - 1) 6) (arg 0 0) (arg 0 1)
  else
    generateCheckWords (addBits ((layers : Int) - 1) 5 ++ addBits ((messageSizeInWords : Int) - 1) 11) (arg 1 0) (arg 1 1)

/-! ### azteccode.go -/

structure AztecCode where
  bits : Array Bool
  size : Nat
  content : Bytes
  color : Scheme

/-- `newAztecCode` -/
def newAztecCode (size : Nat) (color : Scheme) : AztecCode :=
  { bits := Array.replicate (size * size) false, size := size, content := [], color := color }

/-- `set(x, y)`; coordinates are always inside the matrix (a Go index panic otherwise) -/
def AztecCode.set (c : AztecCode) (x y : Nat) : AztecCode :=
  { c with bits := c.bits.setIfInBounds (x * c.size + y) true }

def AztecCode.setIf (c : AztecCode) (cond : Bool) (x y : Nat) : AztecCode :=
  if cond then c.set x y else c

/-- `At(x, y)` is the foreground colour iff this bit is set -/
def AztecCode.at (c : AztecCode) (x y : Nat) : Bool := c.bits.getD (x * c.size + y) false

def AztecCode.toBarcode (c : AztecCode) : Barcode :=
  { kind := kindStr BV.Gen.Root.c_TypeAztec, dims := 2, w := c.size, h := c.size,
    dark := fun x y => c.at x y, content := c.content, checksum := none, scheme := c.color }

/-! ### encoder.go: drawing -/

/-- `drawModeMessage` -/
def drawModeMessage (matrix : AztecCode) (compact : Bool) (matrixSize : Nat) (modeMessage : Array Bool) : AztecCode :=
  let center := matrixSize / 2
  let bit (i : Nat) : Bool := modeMessage.getD i false
  if compact then
    (List.range 7).foldl
      (fun m i =>
        let offset := center - 3 + i
        let m := m.setIf (bit i) offset (center - 5)
        let m := m.setIf (bit (i + 7)) (center + 5) offset
        let m := m.setIf (bit (20 - i)) offset (center + 5)
        m.setIf (bit (27 - i)) (center - 5) offset)
      matrix
  else
    (List.range 10).foldl
      (fun m i =>
        let offset := center - 5 + i + i / 5
        let m := m.setIf (bit i) offset (center - 7)
        let m := m.setIf (bit (i + 10)) (center + 7) offset
        let m := m.setIf (bit (29 - i)) offset (center + 7)
        m.setIf (bit (39 - i)) (center - 7) offset)
      matrix

/-- `drawBullsEye` (`size` is 5 or 7, `center ≥ size`) -/
def drawBullsEye (matrix : AztecCode) (center size : Nat) : AztecCode :=
  let m := (List.range ((size + 1) / 2)).foldl
    (fun m h =>
      let i := 2 * h
      (List.range (2 * i + 1)).foldl
        (fun m d =>
          let j := center - i + d
          let m := m.set j (center - i)
          let m := m.set j (center + i)
          let m := m.set (center - i) j
          m.set (center + i) j)
        m)
    matrix
  let m := m.set (center - size) (center - size)
  let m := m.set (center - size + 1) (center - size)
  let m := m.set (center - size) (center - size + 1)
  let m := m.set (center + size) (center - size)
  let m := m.set (center + size) (center - size + 1)
  m.set (center + size) (center + size - 1)

/-- the result of the layer selection -/
structure Layout where
  compact : Bool
  layers : Nat
  totalBitsInLayer : Nat
  wordSize : Nat
  stuffedBits : List Bool

/-- the `userSpecifiedLayers != DEFAULT_LAYERS` branch -/
def explicitLayers (bits : List Bool) (eccBits : Int) (userSpecifiedLayers : Int) : Res Layout :=
  let compact := userSpecifiedLayers < 0
  let layers := if compact then (-userSpecifiedLayers).toNat else userSpecifiedLayers.toNat
  if (compact && layers > c_max_nb_bits_compact) || (!compact && layers > c_max_nb_bits) then .error .rejected
  else
    let total := totalBitsInLayer layers compact
    let wordSize := word_size layers
    let usableBitsInLayers := total - (total % wordSize)
    let stuffedBits := stuffBits bits wordSize
    if (stuffedBits.length : Int) + eccBits > usableBitsInLayers then .error .rejected
    else if compact && stuffedBits.length > wordSize * 64 then .error .rejected
    else .ok { compact := compact, layers := layers, totalBitsInLayer := total, wordSize := wordSize, stuffedBits := stuffedBits }

/-- the automatic `for i := 0; ; i++` loop; it returns at `i = 33` at the latest, fuel 34 suffices.
    `wordSize = 0` initially, so the bits are stuffed before `stuffedBits` is first read. -/
def autoLayers (bits : List Bool) (eccBits totalSizeBits : Int) : Nat → Nat → Nat → List Bool → Res Layout
  | 0, _, _, _ => .error .rejected
  | fuel + 1, i, wordSize, stuffedBits =>
    if i > c_max_nb_bits then .error .rejected
    else
      let compact := i ≤ 3
      let layers := if compact then i + 1 else i
      let total := totalBitsInLayer layers compact
      if totalSizeBits > total then autoLayers bits eccBits totalSizeBits fuel (i + 1) wordSize stuffedBits
      else
        let (wordSize, stuffedBits) :=
          if wordSize != word_size layers then (word_size layers, stuffBits bits (word_size layers))
          else (wordSize, stuffedBits)
        let usableBitsInLayers := total - (total % wordSize)
        if compact && stuffedBits.length > wordSize * 64 then
          autoLayers bits eccBits totalSizeBits fuel (i + 1) wordSize stuffedBits
        else if (stuffedBits.length : Int) + eccBits ≤ usableBitsInLayers then
          .ok { compact := compact, layers := layers, totalBitsInLayer := total, wordSize := wordSize, stuffedBits := stuffedBits }
        else autoLayers bits eccBits totalSizeBits fuel (i + 1) wordSize stuffedBits

/-- the `alignmentMap` of `EncodeWithColor` together with `matrixSize` -/
def alignmentMap (compact : Bool) (baseMatrixSize : Nat) : Array Nat × Nat :=
  let am : Array Nat := Array.replicate baseMatrixSize 0
  if compact then
    ((List.range baseMatrixSize).foldl (fun am i => am.setIfInBounds i i) am, baseMatrixSize)
  else
    let matrixSize := baseMatrixSize + 1 + 2 * ((baseMatrixSize / 2 - 1) / 15)
    let origCenter := baseMatrixSize / 2
    let center := matrixSize / 2
    ((List.range origCenter).foldl
      (fun am i =>
        let newOffset := i + i / 15
        let am := am.setIfInBounds (origCenter - i - 1) (center - newOffset - 1)
        am.setIfInBounds (origCenter + i) (center + newOffset + 1))
      am, matrixSize)

/-- the "draw data bits" loop -/
def drawDataBits (code : AztecCode) (compact : Bool) (layers baseMatrixSize : Nat)
    (am : Array Nat) (messageBits : Array Bool) : AztecCode :=
  let a (i : Nat) : Nat := am.getD i 0
  let bit (i : Nat) : Bool := messageBits.getD i false
  ((List.range layers).foldl
    (fun (st : AztecCode × Nat) i =>
      let rowOffset := st.2
      let rowSize := (layers - i) * 4 + (if compact then 9 else 12)
      let code := (List.range rowSize).foldl
        (fun code j =>
          let columnOffset := j * 2
          (List.range 2).foldl
            (fun (code : AztecCode) k =>
              let code := code.setIf (bit (rowOffset + columnOffset + k))
                (a (i * 2 + k)) (a (i * 2 + j))
              let code := code.setIf (bit (rowOffset + rowSize * 2 + columnOffset + k))
                (a (i * 2 + j)) (a (baseMatrixSize - 1 - i * 2 - k))
              let code := code.setIf (bit (rowOffset + rowSize * 4 + columnOffset + k))
                (a (baseMatrixSize - 1 - i * 2 - k)) (a (baseMatrixSize - 1 - i * 2 - j))
              code.setIf (bit (rowOffset + rowSize * 6 + columnOffset + k))
                (a (baseMatrixSize - 1 - i * 2 - j)) (a (i * 2 + k)))
            code)
        st.1
      (code, rowOffset + rowSize * 8))
    (code, 0)).1

/-- the reference grid loop `for i, j := 0, 0; i < baseMatrixSize/2; i, j = i+15, j+16` -/
def drawReferenceGrid (code : AztecCode) (baseMatrixSize matrixSize : Nat) : AztecCode :=
  let half := matrixSize / 2
  let lines := (baseMatrixSize / 2 + 14) / 15       -- number of i in {0, 15, 30, …} below baseMatrixSize/2
  (List.range lines).foldl
    (fun code n =>
      let j := 16 * n
      let k0 := half % 2                              -- `(matrixSize / 2) & 1`
      (List.range ((matrixSize + 1 - k0) / 2)).foldl  -- k = k0, k0+2, … < matrixSize
        (fun (code : AztecCode) t =>
          let k := k0 + 2 * t
          let code := code.set (half - j) k
          let code := code.set (half + j) k
          let code := code.set k (half - j)
          code.set k (half + j))
        code)
    code

/-- `EncodeWithColor` -/
def encodeWithColor (data : Bytes) (minECCPercent userSpecifiedLayers : Int) (color : Scheme) : Res Barcode := do
  let bits := highlevelEncode data
  let eccBits : Int := Int.tdiv ((bits.length : Int) * minECCPercent) 100 + 11
  let totalSizeBits : Int := bits.length + eccBits
  let lay ←
    if userSpecifiedLayers != Int.ofNat c_DEFAULT_LAYERS then explicitLayers bits eccBits userSpecifiedLayers
    else autoLayers bits eccBits totalSizeBits (c_max_nb_bits + 2) 0 0 []
  let compact := lay.compact
  let layers := lay.layers
  let messageBits ← generateCheckWords lay.stuffedBits lay.totalBitsInLayer lay.wordSize
  let messageSizeInWords := lay.stuffedBits.length / lay.wordSize
  let modeMessage ← generateModeMessage compact layers messageSizeInWords
  -- allocate symbol
  let baseMatrixSize := if compact then 11 + layers * 4 else 14 + layers * 4
  let (am, matrixSize) := alignmentMap compact baseMatrixSize
  let code := newAztecCode matrixSize color
  let code := { code with content := data }
  let code := drawDataBits code compact layers baseMatrixSize am messageBits.toArray
  let code := drawModeMessage code compact matrixSize modeMessage.toArray
  let code :=
    if compact then drawBullsEye code (matrixSize / 2) 5
    else drawReferenceGrid (drawBullsEye code (matrixSize / 2) 7) baseMatrixSize matrixSize
  pure code.toBarcode

/-- `Encode` -/
def encode (data : Bytes) (minECCPercent userSpecifiedLayers : Int) : Res Barcode :=
  encodeWithColor data minECCPercent userSpecifiedLayers scheme16

end BV.Model.Aztec
