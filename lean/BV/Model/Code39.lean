/-
  Model of /repo/code39/encoder.go.
-/
import BV.Model.Util
import BV.Gen.Code39
namespace BV.Model.Code39
open BV BV.Model

def table := Gen.Code39.v_encodeTable
def extTable := Gen.Code39.v_extendedTable

/-- the `for r, v := range encodeTable { if v.value == sum ...` search; map order is arbitrary in Go,
    the model takes source order (values are unique: obligation `C15.code39_values_nodup`) -/
def runeWithValue (v : Int) : Option Nat :=
  match table.find? (fun e => e.2.1 == v) with
  | some e => some e.1.toNat
  | none => none

/-- `getChecksum`; returns a string -/
def getChecksum (content : Bytes) : Bytes :=
  let rec go (rs : List (Nat × Nat)) (sum : Int) : Option Int :=
    match rs with
    | [] => some sum
    | (_, r) :: rest =>
      match mapGet table r with
      | none => none
      | some (value, _) => if value < 0 then none else go rest (sum + value)
  match go (runes content) 0 with
  | none => [35] -- "#"
  | some sum =>
    match runeWithValue (sum.tmod 43) with
    | some r => encodeRune r
    | none => [35]

/-- `prepare`; `none` is the error return -/
def prepare (content : Bytes) : Option Bytes :=
  let rec go (rs : List (Nat × Nat)) (acc : Bytes) : Option Bytes :=
    match rs with
    | [] => some acc
    | (_, r) :: rest =>
      if r > 127 then none
      else match mapGet extTable r with
        | some v => go rest (acc ++ v)
        | none => go rest (acc ++ encodeRune r)
  go (runes content) []

/-- the symbol loop of `EncodeWithColor` -/
def drawData (data : Bytes) : Option (List Bool) :=
  let rec go (rs : List (Nat × Nat)) (acc : List Bool) : Option (List Bool) :=
    match rs with
    | [] => some acc
    | (i, r) :: rest =>
      let acc := if i != 0 then acc ++ [false] else acc
      match mapGet table r with
      | none => none
      | some (_, bars) => go rest (acc ++ bars)
  go (runes data) []

/-- the checksum value loop (after the `fix:` commit) -/
def checkValue (content : Bytes) : Int :=
  (runes (getChecksum content)).foldl (fun cs p =>
    match mapGet table p.2 with
    | some (value, _) => if value > 0 then value else cs
    | none => cs) 0

def encodeWithColor (content : Bytes) (includeChecksum fullASCII : Bool) (s : Scheme) : Res Barcode :=
  let content? : Option Bytes :=
    if fullASCII then prepare content
    else if containsRune content 42 then none else some content
  match content? with
  | none => .error .rejected
  | some content =>
    let data := [42] ++ content
    let data := if includeChecksum then data ++ getChecksum content else data
    let data := data ++ [42]
    match drawData data with
    | none => .error .rejected
    | some bits => .ok (mk1D (kindStr Gen.Root.c_TypeCode39) content bits (some (checkValue content)) s)

def encode (content : Bytes) (cs full : Bool) : Res Barcode := encodeWithColor content cs full scheme16

end BV.Model.Code39
