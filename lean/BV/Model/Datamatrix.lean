/-
  Model of /repo/datamatrix (encoder.go, codesize.go, errorcorrection.go, codelayout.go, datamatrixcode.go):
  hand-written mirror, one Lean function per Go function, same control flow, same order of effects.

  Conventions of this file
  * `*dmCodeSize` is `CodeSize`; the table `codeSizes` is `Gen.Datamatrix.v_codeSizes` (tuples in field order
    Rows, Columns, RegionCountHorizontal, RegionCountVertical, ECCCount, BlockCount).  The `RegionCount…` and
    `BlockCount` of every table row are positive, so Go's integer division never divides by zero; `Int.tdiv`
    (which returns 0 for a zero divisor) is therefore an exact mirror on the table.
  * `[]byte` is `Bytes` (`List UInt8`) in the text stage and `Array UInt8` where Go indexes it.
  * A `*utils.BitList` created with `NewBitList(n)` and used through `GetBit`/`SetBit` only is an `Array Bool`.
    Its size is the *allocated* bit count `32 * ceil(n/32)` (the `[]int32` backing slice), because that is what
    decides whether Go panics on an index: see `getBit` / `setBit`.  For indices `0 ≤ i < n` this is the plain
    array of property C18.
  * Go panics (index out of range, the explicit "Field already occupied" panic) are `.error .panic`.
-/
import BV.Model.Util
import BV.Model.GF
import BV.Gen.Datamatrix
namespace BV.Model.Datamatrix
open BV BV.Model

/-! ### utils.BitList used as a fixed bit matrix -/

/-- `utils.NewBitList(capacity)` for `capacity ≥ 0`: `capacity/32 (+1)` words of 32 bits, all false. -/
def newBitList (capacity : Int) : Array Bool :=
  Array.replicate (32 * ((capacity.toNat + 31) / 32)) false

/-- `GetBit(index)`.  `itmIndex := index/32` (truncating) indexes the word slice: panic iff it is negative or
    `≥ len(data)`.  For `-32 < index < 0` Go computes word 0 and shift `31 - index%32 ∈ 32..62`; an `int32`
    shifted right by ≥ 32 is its sign, i.e. bit 0 of the list. -/
def getBit (a : Array Bool) (index : Int) : Res Bool :=
  if 0 ≤ index then
    if h : index.toNat < a.size then .ok a[index.toNat] else .error .panic
  else if -32 < index then
    if h : 0 < a.size then .ok a[0] else .error .panic
  else .error .panic

/-- `SetBit(index, value)`.  Same index rule; for `-32 < index < 0` the mask `1 << (32..62)` is 0 in `int32`,
    so the call changes nothing. -/
def setBit (a : Array Bool) (index : Int) (value : Bool) : Res (Array Bool) :=
  if 0 ≤ index then
    if index.toNat < a.size then .ok (a.set! index.toNat value) else .error .panic
  else if -32 < index then
    if 0 < a.size then .ok a else .error .panic
  else .error .panic

/-! ### codesize.go -/

structure CodeSize where
  rows : Int
  columns : Int
  regionCountHorizontal : Int
  regionCountVertical : Int
  eccCount : Int
  blockCount : Int
  deriving Repr, DecidableEq, Inhabited

def CodeSize.ofTuple (t : Int × Int × Int × Int × Int × Int) : CodeSize :=
  ⟨t.1, t.2.1, t.2.2.1, t.2.2.2.1, t.2.2.2.2.1, t.2.2.2.2.2⟩

/-- `codeSizes` -/
def codeSizes : List CodeSize := Gen.Datamatrix.v_codeSizes.map CodeSize.ofTuple

/-- `RegionRows` -/
def CodeSize.regionRows (s : CodeSize) : Int :=
  (s.rows - s.regionCountVertical * 2).tdiv s.regionCountVertical

/-- `RegionColumns` -/
def CodeSize.regionColumns (s : CodeSize) : Int :=
  (s.columns - s.regionCountHorizontal * 2).tdiv s.regionCountHorizontal

/-- `MatrixRows` -/
def CodeSize.matrixRows (s : CodeSize) : Int := s.regionRows * s.regionCountVertical

/-- `MatrixColumns` -/
def CodeSize.matrixColumns (s : CodeSize) : Int := s.regionColumns * s.regionCountHorizontal

/-- `DataCodewords` -/
def CodeSize.dataCodewords (s : CodeSize) : Int :=
  (s.matrixColumns * s.matrixRows).tdiv 8 - s.eccCount

/-- `DataCodewordsForBlock(idx)` -/
def CodeSize.dataCodewordsForBlock (s : CodeSize) (idx : Int) : Int :=
  if s.rows = 144 ∧ s.columns = 144 then
    if idx < 8 then 156 else 155
  else s.dataCodewords.tdiv s.blockCount

/-- `ErrorCorrectionCodewordsPerBlock` -/
def CodeSize.errorCorrectionCodewordsPerBlock (s : CodeSize) : Int := s.eccCount.tdiv s.blockCount

/-! ### encoder.go: text stage -/

def isDigitByte (c : UInt8) : Bool := 48 ≤ c && c ≤ 57

/-- the `else if c > 127 … else …` tail of the loop body of `encodeText` (byte arithmetic wraps like Go's) -/
def encodeOne (c : UInt8) : Bytes :=
  if c > 127 then [235, c - 127] else [c + 1]

/-- `encodeText`: the index loop `for i := 0; i < len(input);` consumes one or two bytes per round -/
def encodeText : Bytes → Bytes
  | [] => []
  | [c] => encodeOne c
  | c :: c2 :: rest =>
    if isDigitByte c && isDigitByte c2 then
      ((c - 48) * 10 + (c2 - 48) + 130) :: encodeText rest
    else encodeOne c ++ encodeText (c2 :: rest)

/-- the `for len(data) < toCount` loop of `addPadding`; `n` = `toCount - len(data)` rounds are left, each
    appends exactly one byte, so `n` is the exact iteration count -/
def padLoop : Nat → Bytes → Bytes
  | 0, data => data
  | n + 1, data =>
    let r := ((149 * (data.length + 1)) % 253) + 1
    let tmp := 129 + r
    let tmp := if tmp > 254 then tmp - 254 else tmp
    padLoop n (data ++ [UInt8.ofNat tmp])

/-- `addPadding(data, toCount)` -/
def addPadding (data : Bytes) (toCount : Int) : Bytes :=
  let data := if (data.length : Int) < toCount then data ++ [129] else data
  padLoop (toCount - data.length).toNat data

/-! ### errorcorrection.go -/

/-- `newErrorCorrection`: `utils.NewGaloisField(301, 256, 1)` — parameters from the generated call list -/
def ecField : GF.Field :=
  match Gen.Datamatrix.call_NewGaloisField with
  | [pp, size, b] :: _ => GF.newField pp.toNat size.toNat b.toNat
  | _ => GF.newField 0 0 0

/-- first inner loop of `calcECC`: `j := 0; for i := block; i < dataSize; i += BlockCount { buff[j] = int(data[i]); j++ }`.
    `rounds` is the exact number of iterations (computed by the caller); `buff[j]` out of range panics. -/
def fillBuff (data : Array UInt8) (step : Nat) : Nat → Nat → Nat → Array Nat → Res (Array Nat)
  | 0, _, _, buff => .ok buff
  | rounds + 1, i, j, buff =>
    if j < buff.size then
      match data[i]? with
      | some d => fillBuff data step rounds (i + step) (j + 1) (buff.set! j d.toNat)
      | none => .error .panic
    else .error .panic

/-- second inner loop: `j = 0; for i := block; i < eccPerBlock*BlockCount; i += BlockCount { data[dataSize+i] = byte(ecc[j]); j++ }` -/
def storeEcc (ecc : Array Nat) (dataSize step : Nat) : Nat → Nat → Nat → Array UInt8 → Res (Array UInt8)
  | 0, _, _, data => .ok data
  | rounds + 1, i, j, data =>
    match ecc[j]? with
    | none => .error .panic
    | some e =>
      if dataSize + i < data.size then
        storeEcc ecc dataSize step rounds (i + step) (j + 1) (data.set! (dataSize + i) (UInt8.ofNat e))
      else .error .panic

/-- number of iterations of `for i := start; i < limit; i += step` (`step > 0`) -/
def strideCount (start limit step : Nat) : Nat :=
  if start < limit then (limit - start + step - 1) / step else 0

/-- `calcECC(data, size)` — the block loop `for block := 0; block < BlockCount; block++` is a fold over
    `List.range BlockCount` -/
def calcECC (data : Bytes) (size : CodeSize) : Res Bytes := do
  let dataSize := data.length
  let arr0 : Array UInt8 := (data ++ List.replicate size.eccCount.toNat 0).toArray
  let blockCount := size.blockCount.toNat
  let eccPer := size.errorCorrectionCodewordsPerBlock.toNat
  let arr ← (List.range blockCount).foldlM (fun (arr : Array UInt8) (block : Nat) => do
    let dataCnt := size.dataCodewordsForBlock (block : Int)
    let buff0 : Array Nat := Array.replicate dataCnt.toNat 0
    let buff ← fillBuff arr blockCount (strideCount block dataSize blockCount) block 0 buff0
    let ecc := GF.rsEncode ecField buff.toList eccPer
    storeEcc ecc.toArray dataSize blockCount (strideCount block (eccPer * blockCount) blockCount) block 0 arr) arr0
  pure arr.toList

/-! ### datamatrixcode.go -/

/-- `datamatrixCode`: the embedded `*utils.BitList`, the embedded `*dmCodeSize`, `content`, `color` -/
structure DatamatrixCode where
  bits : Array Bool
  size : CodeSize
  content : Bytes
  color : Scheme

/-- `newDataMatrixCodeWithColor` -/
def newDataMatrixCodeWithColor (size : CodeSize) (color : Scheme) : DatamatrixCode :=
  { bits := newBitList (size.rows * size.columns), size := size, content := [], color := color }

/-- `newDataMatrixCode` (unused by the package) -/
def newDataMatrixCode (size : CodeSize) : DatamatrixCode := newDataMatrixCodeWithColor size scheme16

/-- `get(x, y)`: bit `x*Rows + y` -/
def DatamatrixCode.get (c : DatamatrixCode) (x y : Int) : Res Bool := getBit c.bits (x * c.size.rows + y)

/-- `set(x, y, value)` -/
def DatamatrixCode.set (c : DatamatrixCode) (x y : Int) (value : Bool) : Res DatamatrixCode := do
  let b ← setBit c.bits (x * c.size.rows + y) value
  pure { c with bits := b }

/-- `Bounds()`: `image.Rect(0, 0, Columns, Rows)` as (width, height) -/
def DatamatrixCode.bounds (c : DatamatrixCode) : Nat × Nat := (c.size.columns.toNat, c.size.rows.toNat)

/-- `At(x, y)` -/
def DatamatrixCode.at (c : DatamatrixCode) (x y : Int) : Res Colour := do
  let b ← c.get x y
  pure (if b then c.color.fg else c.color.bg)

/-- the `barcode.Barcode` view (`Metadata` = {TypeDataMatrix, 2}, `Content`, `Bounds`, `At`, `ColorScheme`).
    Inside the bounds `get` cannot fail for the sizes of the table (`x*Rows+y < Rows*Columns`). -/
def DatamatrixCode.toBarcode (c : DatamatrixCode) : Barcode :=
  { kind := kindStr Gen.Root.c_TypeDataMatrix, dims := 2, w := c.bounds.1, h := c.bounds.2,
    dark := fun x y => match c.get x y with | .ok b => b | .error _ => false,
    content := c.content, checksum := none, scheme := c.color }

/-! ### codelayout.go -/

structure CodeLayout where
  matrix : Array Bool
  occupy : Array Bool
  size : CodeSize
  color : Scheme

/-- `newCodeLayout` -/
def newCodeLayout (size : CodeSize) (color : Scheme) : CodeLayout :=
  { matrix := newBitList (size.matrixColumns * size.matrixRows),
    occupy := newBitList (size.matrixColumns * size.matrixRows),
    size := size, color := color }

/-- `Occupied(row, col)` -/
def CodeLayout.occupied (l : CodeLayout) (row col : Int) : Res Bool :=
  getBit l.occupy (col + row * l.size.matrixColumns)

/-- `(value >> (7 - bitNum)) & 1 == 1` with `byte` operands: for `bitNum > 7` the shift count wraps to ≥ 8 -/
def bitOf (value : UInt8) (bitNum : Nat) : Bool :=
  if bitNum ≤ 7 then value.toNat.testBit (7 - bitNum) else false

/-- `Set(row, col, value, bitNum)` -/
def CodeLayout.set (l : CodeLayout) (row col : Int) (value : UInt8) (bitNum : Nat) : Res CodeLayout := do
  let val := bitOf value bitNum
  let (row, col) :=
    if row < 0 then (row + l.size.matrixRows, col + (4 - (l.size.matrixRows + 4).tmod 8)) else (row, col)
  let (row, col) :=
    if col < 0 then (row + (4 - (l.size.matrixColumns + 4).tmod 8), col + l.size.matrixColumns) else (row, col)
  if (← l.occupied row col) then .error .panic      -- panic("Field already occupied …")
  let occ ← setBit l.occupy (col + row * l.size.matrixColumns) true
  let mat ← setBit l.matrix (col + row * l.size.matrixColumns) val
  pure { l with occupy := occ, matrix := mat }

/-- `SetSimple(row, col, value)` -/
def CodeLayout.setSimple (l : CodeLayout) (row col : Int) (value : UInt8) : Res CodeLayout := do
  let l ← l.set (row - 2) (col - 2) value 0
  let l ← l.set (row - 2) (col - 1) value 1
  let l ← l.set (row - 1) (col - 2) value 2
  let l ← l.set (row - 1) (col - 1) value 3
  let l ← l.set (row - 1) (col - 0) value 4
  let l ← l.set (row - 0) (col - 2) value 5
  let l ← l.set (row - 0) (col - 1) value 6
  l.set (row - 0) (col - 0) value 7

/-- `Corner1(value)` -/
def CodeLayout.corner1 (l : CodeLayout) (value : UInt8) : Res CodeLayout := do
  let mr := l.size.matrixRows
  let mc := l.size.matrixColumns
  let l ← l.set (mr - 1) 0 value 0
  let l ← l.set (mr - 1) 1 value 1
  let l ← l.set (mr - 1) 2 value 2
  let l ← l.set 0 (mc - 2) value 3
  let l ← l.set 0 (mc - 1) value 4
  let l ← l.set 1 (mc - 1) value 5
  let l ← l.set 2 (mc - 1) value 6
  l.set 3 (mc - 1) value 7

/-- `Corner2(value)` -/
def CodeLayout.corner2 (l : CodeLayout) (value : UInt8) : Res CodeLayout := do
  let mr := l.size.matrixRows
  let mc := l.size.matrixColumns
  let l ← l.set (mr - 3) 0 value 0
  let l ← l.set (mr - 2) 0 value 1
  let l ← l.set (mr - 1) 0 value 2
  let l ← l.set 0 (mc - 4) value 3
  let l ← l.set 0 (mc - 3) value 4
  let l ← l.set 0 (mc - 2) value 5
  let l ← l.set 0 (mc - 1) value 6
  l.set 1 (mc - 1) value 7

/-- `Corner3(value)` -/
def CodeLayout.corner3 (l : CodeLayout) (value : UInt8) : Res CodeLayout := do
  let mr := l.size.matrixRows
  let mc := l.size.matrixColumns
  let l ← l.set (mr - 3) 0 value 0
  let l ← l.set (mr - 2) 0 value 1
  let l ← l.set (mr - 1) 0 value 2
  let l ← l.set 0 (mc - 2) value 3
  let l ← l.set 0 (mc - 1) value 4
  let l ← l.set 1 (mc - 1) value 5
  let l ← l.set 2 (mc - 1) value 6
  l.set 3 (mc - 1) value 7

/-- `Corner4(value)` -/
def CodeLayout.corner4 (l : CodeLayout) (value : UInt8) : Res CodeLayout := do
  let mr := l.size.matrixRows
  let mc := l.size.matrixColumns
  let l ← l.set (mr - 1) 0 value 0
  let l ← l.set (mr - 1) (mc - 1) value 1
  let l ← l.set 0 (mc - 3) value 2
  let l ← l.set 0 (mc - 2) value 3
  let l ← l.set 0 (mc - 1) value 4
  let l ← l.set 1 (mc - 3) value 5
  let l ← l.set 1 (mc - 2) value 6
  l.set 1 (mc - 1) value 7

/-- `data[idx]` on a Go slice: index out of range panics -/
def dataAt (data : Array UInt8) (idx : Nat) : Res UInt8 :=
  match data[idx]? with
  | some d => .ok d
  | none => .error .panic

/-- the loop state of `SetValues`: layout, `idx`, `row`, `col` -/
abbrev SVState := CodeLayout × Nat × Int × Int

/-- `l.CornerN(data[idx]); idx++` / `l.SetSimple(row, col, data[idx]); idx++`: the argument `data[idx]` is
    evaluated (and may panic) before the call -/
def withNext (data : Array UInt8) (l : CodeLayout) (idx : Nat) (f : CodeLayout → UInt8 → Res CodeLayout) :
    Res (CodeLayout × Nat) := do
  let d ← dataAt data idx
  let l ← f l d
  pure (l, idx + 1)

/-- `if guard { <f>(data[idx]); idx++ }` -/
def stepIf (guard : Bool) (data : Array UInt8) (st : CodeLayout × Nat) (f : CodeLayout → UInt8 → Res CodeLayout) :
    Res (CodeLayout × Nat) :=
  if guard then withNext data st.1 st.2 f else pure st

/-- `if <inRange> && !l.Occupied(row, col) { l.SetSimple(row, col, data[idx]); idx++ }` (short-circuit: `Occupied`
    is only called when `inRange` holds) -/
def placeIfFree (data : Array UInt8) (inRange : Bool) (l : CodeLayout) (idx : Nat) (row col : Int) :
    Res (CodeLayout × Nat) := do
  if inRange then
    if (← l.occupied row col) then pure (l, idx)
    else withNext data l idx (fun l d => l.setSimple row col d)
  else pure (l, idx)

/-- first inner `for true` loop of `SetValues` (sweep up and to the right).
    Fuel: every round lowers `row` by 2 and the loop leaves as soon as `row < 0`, so from a start value `row`
    it makes at most `max(row,0)/2 + 1` rounds; callers pass `row.toNat / 2 + 2`. -/
def sweepUp (data : Array UInt8) : Nat → SVState → Res SVState
  | 0, _ => .error .panic   -- unreachable, see above
  | fuel + 1, (l, idx, row, col) => do
    let (l, idx) ← placeIfFree data (row < l.size.matrixRows ∧ col ≥ 0) l idx row col
    let row := row - 2
    let col := col + 2
    if row < 0 ∨ col ≥ l.size.matrixColumns then pure (l, idx, row, col)
    else sweepUp data fuel (l, idx, row, col)

/-- second inner `for true` loop (sweep down and to the left).
    Fuel: every round lowers `col` by 2 and the loop leaves as soon as `col < 0`: at most `max(col,0)/2 + 1`
    rounds; callers pass `col.toNat / 2 + 2`. -/
def sweepDown (data : Array UInt8) : Nat → SVState → Res SVState
  | 0, _ => .error .panic   -- unreachable, see above
  | fuel + 1, (l, idx, row, col) => do
    let (l, idx) ← placeIfFree data (row ≥ 0 ∧ col < l.size.matrixColumns) l idx row col
    let row := row + 2
    let col := col - 2
    if row ≥ l.size.matrixRows ∨ col < 0 then pure (l, idx, row, col)
    else sweepDown data fuel (l, idx, row, col)

/-- outer loop of `SetValues`: `for (row < MatrixRows) || (col < MatrixColumns)`.

    Fuel.  Write R = MatrixRows, C = MatrixColumns (both ≥ 0) and (r_t, c_t) for (row, col) at the head of
    round t (r_0 = 4, c_0 = 0).  Both sweeps keep `row + col` fixed, so one round adds exactly
    (1+3) + (3+1) = 8 to it: r_t + c_t = 4 + 8t.  The up sweep always makes one step, further steps only while
    `col < C`; so it ends with col ≤ max(c_t + 2, C + 1); the down sweep then starts 3 to the right and makes
    at least one step (−2), and the round ends with +1:  c_{t+1} ≤ max(c_t + 4, C + 3), hence c_t ≤ C + 3 + 4t.
    Symmetrically the up sweep ends with row ≤ r_t − 2, the down sweep starts one lower and after its first
    step only continues while `row < R`:  r_{t+1} ≤ max(r_t + 4, R + 4), hence r_t ≤ R + 4 + 4t.
    Therefore r_t = 4 + 8t − c_t ≥ 4t + 1 − C and c_t = 4 + 8t − r_t ≥ 4t − R, and once 4t ≥ R + C both
    `row ≥ R` and `col ≥ C` hold: the loop makes at most (R + C)/4 + 1 rounds (or stops earlier by a panic).
    `setValues` passes R + C + 2.  (The inner fuels are functions of the state, see `sweepUp`/`sweepDown`.) -/
def setValuesLoop (data : Array UInt8) : Nat → SVState → Res SVState
  | 0, _ => .error .panic   -- unreachable, see above
  | fuel + 1, (l, idx, row, col) => do
    let mr := l.size.matrixRows
    let mc := l.size.matrixColumns
    if row < mr ∨ col < mc then
      let st ← stepIf (row = mr ∧ col = 0) data (l, idx) CodeLayout.corner1
      let st ← stepIf (row = mr - 2 ∧ col = 0 ∧ mc.tmod 4 ≠ 0) data st CodeLayout.corner2
      let st ← stepIf (row = mr - 2 ∧ col = 0 ∧ mc.tmod 8 = 4) data st CodeLayout.corner3
      let st ← stepIf (row = mr + 4 ∧ col = 2 ∧ mc.tmod 8 = 0) data st CodeLayout.corner4
      let (l, idx, row, col) ← sweepUp data (row.toNat / 2 + 2) (st.1, st.2, row, col)
      let row := row + 1
      let col := col + 3
      let (l, idx, row, col) ← sweepDown data (col.toNat / 2 + 2) (l, idx, row, col)
      let row := row + 3
      let col := col + 1
      setValuesLoop data fuel (l, idx, row, col)
    else pure (l, idx, row, col)

/-- `SetValues(data)` -/
def CodeLayout.setValues (l : CodeLayout) (data : Array UInt8) : Res CodeLayout := do
  let mr := l.size.matrixRows
  let mc := l.size.matrixColumns
  let (l, _, _, _) ← setValuesLoop data (mr.toNat + mc.toNat + 2) (l, 0, 4, 0)
  if !(← l.occupied (mr - 1) (mc - 1)) then
    let l ← l.set (mr - 1) (mc - 1) 255 0
    l.set (mr - 2) (mc - 2) 255 0
  else pure l

/-- `for v := start; v < limit; v += step` as the list of values of `v` (`step > 0`) -/
def strideList (start limit step : Int) : List Int :=
  if step ≤ 0 ∨ limit ≤ start then []
  else (List.range ((limit - start + step - 1) / step).toNat).map (fun (k : Nat) => start + step * (k : Int))

/-- `for r := …; … { for c := …; … { result.set(c, r, true) } }` (outer loop over `outer`, inner over `inner`;
    `swap` = the outer variable is the column) -/
def DatamatrixCode.setLines (result : DatamatrixCode) (swap : Bool) (outer inner : List Int) : Res DatamatrixCode :=
  outer.foldlM (fun res o =>
    inner.foldlM (fun res i => if swap then res.set o i true else res.set i o true) res) result

/-- `Merge()` -/
def CodeLayout.merge (l : CodeLayout) : Res DatamatrixCode := do
  let s := l.size
  let rr := s.regionRows
  let rc := s.regionColumns
  let result := newDataMatrixCodeWithColor s l.color
  -- dotted horizontal lines: r outer, c inner
  let result ← result.setLines false (strideList 0 s.rows (rr + 2)) (strideList 0 s.columns 2)
  -- solid horizontal line
  let result ← result.setLines false (strideList (rr + 1) s.rows (rr + 2)) (strideList 0 s.columns 1)
  -- dotted vertical lines: c outer, r inner
  let result ← result.setLines true (strideList (rc + 1) s.columns (rc + 2)) (strideList 1 s.rows 2)
  -- solid vertical line
  let result ← result.setLines true (strideList 0 s.columns (rc + 2)) (strideList 0 s.rows 1)
  -- data regions (the Go variable `count` is written but never read)
  (strideList 0 s.regionCountHorizontal 1).foldlM (fun result hRegion =>
    (strideList 0 s.regionCountVertical 1).foldlM (fun result vRegion =>
      (strideList 0 rc 1).foldlM (fun result x =>
        let colMatrix := rc * hRegion + x
        let colResult := (2 + rc) * hRegion + x + 1
        (strideList 0 rr 1).foldlM (fun (result : DatamatrixCode) y => do
          let rowMatrix := rr * vRegion + y
          let rowResult := (2 + rr) * vRegion + y + 1
          let val ← getBit l.matrix (colMatrix + rowMatrix * s.matrixColumns)
          result.set colResult rowResult val) result) result) result) result

/-! ### encoder.go: entry points -/

/-- `render(data, size, color)`; Go's `*datamatrixCode` result is never nil -/
def render (data : Bytes) (size : CodeSize) (color : Scheme) : Res DatamatrixCode := do
  let cl := newCodeLayout size color
  let cl ← cl.setValues data.toArray
  cl.merge

/-- `EncodeWithColor(content, color)` -/
def encodeWithColor (content : Bytes) (color : Scheme) : Res Barcode := do
  let data := encodeText content
  -- `for _, s := range codeSizes { if s.DataCodewords() >= len(data) { size = s; break } }`
  match codeSizes.find? (fun s => s.dataCodewords ≥ (data.length : Int)) with
  | none => .error .rejected          -- "to much data to encode"
  | some size =>
    let data := addPadding data size.dataCodewords
    let data ← calcECC data size
    let code ← render data size color
    -- `code != nil` always holds; the "unable to render barcode" branch is dead
    pure ({ code with content := content }).toBarcode

/-- `Encode(content)` -/
def encode (content : Bytes) : Res Barcode := encodeWithColor content scheme16

end BV.Model.Datamatrix
