/-
  Model of /repo/code93/encoder.go.
-/
import BV.Model.Util
import BV.Gen.Code93
namespace BV.Model.Code93
open BV BV.Model

def table := Gen.Code93.v_encodeTable
def extTable := Gen.Code93.v_extendedTable

def runeWithValue (v : Int) : Option Nat :=
  match table.find? (fun e => e.2.1 == v) with
  | some e => some e.1.toNat
  | none => none

/-- `getChecksum(content, maxWeight)`; returns a rune -/
def getChecksum (content : Bytes) (maxWeight : Int) : Nat :=
  let rec go (rs : List Nat) (weight total : Int) : Option Int :=
    match rs with
    | [] => some total
    | r :: rest =>
      match mapGet table r with
      | none => none
      | some (value, _) =>
        let w' := weight + 1
        go rest (if w' > maxWeight then 1 else w') (total + value * weight)
  match go (runeList content).reverse 1 0 with
  | none => 32
  | some total =>
    match runeWithValue (total.tmod 47) with
    | some r => r
    | none => 32

/-- `prepare` -/
def prepare (content : Bytes) : Option Bytes :=
  let rec go (rs : List (Nat × Nat)) (acc : Bytes) : Option Bytes :=
    match rs with
    | [] => some acc
    | (_, r) :: rest =>
      if r > 127 then none else go rest (acc ++ extTable.getD r [])
  go (runes content) []

def drawData (data : Bytes) : Option (List Bool) :=
  let rec go (rs : List (Nat × Nat)) (acc : List Bool) : Option (List Bool) :=
    match rs with
    | [] => some (acc ++ [true])
    | (_, r) :: rest =>
      match mapGet table r with
      | none => none
      | some (_, pat) => go rest (acc ++ msbBits pat.toNat 9)
  go (runes data) []

def encodeWithColor (content : Bytes) (includeChecksum fullASCII : Bool) (s : Scheme) : Res Barcode :=
  let content? : Option Bytes :=
    if fullASCII then prepare content
    else if containsRune content 42 then none else some content
  match content? with
  | none => .error .rejected
  | some content =>
    let data := content
    let data :=
      if includeChecksum then
        let d1 := data ++ encodeRune (getChecksum data 20)
        d1 ++ encodeRune (getChecksum d1 15)
      else data
    let data := [42] ++ data ++ [42]
    match drawData data with
    | none => .error .rejected
    | some bits => .ok (mk1D (kindStr Gen.Root.c_TypeCode93) content bits none s)

def encode (content : Bytes) (cs full : Bool) : Res Barcode := encodeWithColor content cs full scheme16

end BV.Model.Code93
