/-
  Model of /repo/pdf417 (highlevel.go, dimensions.go, errorcorrection.go, codewords.go, encoder.go,
  pdfcode.go): hand-written mirror, one Lean function per Go function, same control flow.

  Conventions: a rune is a `Nat`, `[]rune` is `List Nat`, `[]byte`/`string` is `Bytes`, `[]int` is `List Nat`
  (every int that occurs is non-negative), `encodingMode` / `subMode` are the generated constants
  (`c_subUpper = 3` … because both enumerations share one const block).
-/
import BV.Model.Util
import BV.Gen.Pdf417
namespace BV.Model.Pdf417
open BV BV.Model
open BV.Gen.Pdf417

/-! ### highlevel.go -/

/-- Go `m[k] = v` on a map kept as an association list: an existing key is overwritten. -/
def mapSet (m : List (Nat × Nat)) (k v : Nat) : List (Nat × Nat) :=
  match m with
  | [] => [(k, v)]
  | (k', v') :: rest => if k' == k then (k, v) :: rest else (k', v') :: mapSet rest k v

/-- the loops of `init`: `for idx, ch := range raw { if ch > 0 { m[ch] = idx } }` -/
def initMap (raw : List Int) : List (Nat × Nat) :=
  let rec go (l : List Int) (idx : Nat) (m : List (Nat × Nat)) : List (Nat × Nat) :=
    match l with
    | [] => m
    | ch :: rest => go rest (idx + 1) (if ch > 0 then mapSet m ch.toNat idx else m)
  go raw 0 []

/-- `mixedMap` after `init` -/
def mixedMap : List (Nat × Nat) := initMap l_init_mixedRaw

/-- `punctMap` after `init` -/
def punctMap : List (Nat × Nat) := initMap l_init_punctRaw

/-- `_, ok := m[ch]` -/
def mapHas (m : List (Nat × Nat)) (ch : Nat) : Bool := (m.lookup ch).isSome

/-- `m[ch]` (zero value for a missing key) -/
def mapAt (m : List (Nat × Nat)) (ch : Nat) : Nat := (m.lookup ch).getD 0

/-- `determineConsecutiveDigitCount` -/
def determineConsecutiveDigitCount (data : List Nat) : Nat :=
  let rec go (l : List Nat) (cnt : Nat) : Nat :=
    match l with
    | [] => cnt
    | r :: rest => if runeToInt r == -1 then cnt else go rest (cnt + 1)
  go data 0

/-- `big.Int.SetString("1"+string(chunk), 10)`: succeeds iff every rune is an ASCII digit (the sign is only
    accepted in front, where the literal "1" stands; base 10 accepts no underscores). -/
def parseChunk (chunk : List Nat) : Option Nat :=
  if chunk.all (fun r => 48 ≤ r && r ≤ 57) then
    some (chunk.foldl (fun acc r => acc * 10 + (r - 48)) 1)
  else none

/-- the `for chunkNum.Cmp(0) > 0 { DivMod 900; prepend }` loop. Fuel: every step divides by 900, so the
    number of steps is at most the number of decimal digits; callers pass `chunk.length + 2`. -/
def base900 : Nat → Nat → List Nat → List Nat
  | 0, _, cws => cws
  | fuel + 1, n, cws => if n > 0 then base900 fuel (n / 900) (n % 900 :: cws) else cws

/-- `encodeNumeric` -/
def encodeNumeric (digits : List Nat) : Res (List Nat) :=
  let digitCount := digits.length
  let chunkCount := digitCount / 44 + (if digitCount % 44 != 0 then 1 else 0)
  let rec go (n i : Nat) (codeWords : List Nat) : Res (List Nat) :=
    match n with
    | 0 => .ok codeWords
    | n + 1 =>
      let start := i * 44
      let end_ := if start + 44 > digitCount then digitCount else start + 44
      let chunk := (digits.drop start).take (end_ - start)
      match parseChunk chunk with
      | none => .error .rejected
      | some chunkNum =>
        let cws := base900 (chunk.length + 2) chunkNum []
        go n (i + 1) (codeWords ++ cws)
  go chunkCount 0 []

/-- the closure `isText` -/
def isText (ch : Nat) : Bool := ch == 9 || ch == 10 || ch == 13 || (ch ≥ 32 && ch ≤ 126)

/-- `determineConsecutiveTextCount`: `msg[i:]` is the current suffix -/
def determineConsecutiveTextCount (msg : List Nat) : Nat :=
  let rec go (l : List Nat) (result : Nat) : Nat :=
    match l with
    | [] => result
    | ch :: rest =>
      let numericCount := determineConsecutiveDigitCount (ch :: rest)
      if numericCount ≥ c_min_numeric_count || (numericCount == 0 && !isText ch) then result
      else go rest (result + 1)
  go msg 0

def isAlphaUpper (ch : Nat) : Bool := ch == 32 || (ch ≥ 65 && ch ≤ 90)
def isAlphaLower (ch : Nat) : Bool := ch == 32 || (ch ≥ 97 && ch ≤ 122)
def isMixed (ch : Nat) : Bool := mapHas mixedMap ch
def isPunctuation (ch : Nat) : Bool := mapHas punctMap ch

/-- The sub-mode loop of `encodeText` (`for idx < len(text)` with its `continue` paths).  `text` is the
    not yet consumed suffix `text[idx:]`, so `text[idx+1]` is the second element.  A `continue` changes the
    sub-mode without consuming; from every sub-mode at most three consecutive `continue`s are possible
    (Punct → Upper → Lower/Mixed is the longest chain, Mixed → Punct → Upper → … needs a character outside
    all four alphabets and then Upper consumes it), so fuel `4 * len + 4` always suffices. -/
def encodeTextLoop : Nat → List Nat → Nat → Array Nat → Nat × Array Nat
  | 0, _, submode, tmp => (submode, tmp)
  | _, [], submode, tmp => (submode, tmp)
  | fuel + 1, ch :: rest, submode, tmp =>
    if submode == c_subUpper then
      if isAlphaUpper ch then
        encodeTextLoop fuel rest submode (tmp.push (if ch == 32 then 26 else ch - 65))
      else if isAlphaLower ch then
        encodeTextLoop fuel (ch :: rest) c_subLower (tmp.push 27)
      else if isMixed ch then
        encodeTextLoop fuel (ch :: rest) c_subMixed (tmp.push 28)
      else
        encodeTextLoop fuel rest submode ((tmp.push 29).push (mapAt punctMap ch))
    else if submode == c_subLower then
      if isAlphaLower ch then
        encodeTextLoop fuel rest submode (tmp.push (if ch == 32 then 26 else ch - 97))
      else if isAlphaUpper ch then
        encodeTextLoop fuel rest submode ((tmp.push 27).push (ch - 65))
      else if isMixed ch then
        encodeTextLoop fuel (ch :: rest) c_subMixed (tmp.push 28)
      else
        encodeTextLoop fuel rest submode ((tmp.push 29).push (mapAt punctMap ch))
    else if submode == c_subMixed then
      if isMixed ch then
        encodeTextLoop fuel rest submode (tmp.push (mapAt mixedMap ch))
      else if isAlphaUpper ch then
        encodeTextLoop fuel (ch :: rest) c_subUpper (tmp.push 28)
      else if isAlphaLower ch then
        encodeTextLoop fuel (ch :: rest) c_subLower (tmp.push 27)
      else
        let latch := match rest with
          | next :: _ => isPunctuation next
          | [] => false
        if latch then
          encodeTextLoop fuel (ch :: rest) c_subPunct (tmp.push 25)
        else
          encodeTextLoop fuel rest submode ((tmp.push 29).push (mapAt punctMap ch))
    else -- default: subPunct
      if isPunctuation ch then
        encodeTextLoop fuel rest submode (tmp.push (mapAt punctMap ch))
      else
        encodeTextLoop fuel (ch :: rest) c_subUpper (tmp.push 29)

/-- the pair-packing loop of `encodeText`: returns (h, result) -/
def packPairs (tmp : List Nat) : Nat × List Nat :=
  let rec go (l : List Nat) (i h : Nat) (result : List Nat) : Nat × List Nat :=
    match l with
    | [] => (h, result)
    | val :: rest =>
      if i % 2 != 0 then
        let h := h * 30 + val
        go rest (i + 1) h (result ++ [h])
      else go rest (i + 1) val result
  go tmp 0 0 []

/-- `encodeText` -/
def encodeText (text : List Nat) (submode : Nat) : Nat × List Nat :=
  let (submode, tmpA) := encodeTextLoop (4 * text.length + 4) text submode #[]
  let tmp := tmpA.toList
  let (h, result) := packPairs tmp
  if tmp.length % 2 != 0 then
    (if submode == c_subPunct then c_subUpper else submode, result ++ [h * 30 + 29])
  else (submode, result)

/-- `determineConsecutiveBinaryCount`; `msg[i:]` is the current suffix (a byte suffix, so it may start in
    the middle of a UTF-8 sequence: those bytes decode to U+FFFD).  Both conversions
    `[]rune(string(msg[i:]))` yield the same slice, computed once here. -/
def determineConsecutiveBinaryCount (msg : Bytes) : Nat :=
  let rec go (l : Bytes) (result : Nat) : Nat :=
    match l with
    | [] => result
    | b :: rest =>
      let rs := runeList (b :: rest)
      let numericCount := determineConsecutiveDigitCount rs
      if numericCount ≥ c_min_numeric_count then result
      else
        let textCount := determineConsecutiveTextCount rs
        if textCount > 5 then result
        else go rest (result + 1)
  go msg 0

/-- the "sixpack" loop of `encodeBinary`: `for (count - idx) >= 6`; returns the words and the rest.
    `t` is an int64 below 2^48, no overflow. -/
def sixpacks : Nat → Bytes → List Nat → List Nat × Bytes
  | 0, data, acc => (acc, data)
  | fuel + 1, data, acc =>
    if data.length ≥ 6 then
      let t := (data.take 6).foldl (fun t b => t * 256 + b.toNat) 0
      let words := [t / 900 / 900 / 900 / 900 % 900, t / 900 / 900 / 900 % 900, t / 900 / 900 % 900,
                    t / 900 % 900, t % 900]
      sixpacks fuel (data.drop 6) (acc ++ words)
    else (acc, data)

/-- `encodeBinary` -/
def encodeBinary (data : Bytes) (startmode : Nat) : List Nat :=
  let count := data.length
  let result :=
    if count == 1 && startmode == c_encText then [c_shift_to_byte]
    else if count % 6 == 0 then [c_latch_to_byte]
    else [c_latch_to_byte_padded]
  -- fuel: every round consumes six bytes
  let (result, rest) := if count ≥ 6 then sixpacks (count / 6 + 1) data result else (result, data)
  result ++ rest.map (fun b => b.toNat % 256)

/-- The `for len(data) > 0` loop of `highlevelEncode`.  Every round removes at least one byte
    (`numericCount`, `textCount` and `binaryCount` are positive in their branches), so fuel `len + 1`
    suffices.  Rune counts are used to slice the byte slice, exactly as the Go code does. -/
def highlevelLoop : Nat → Bytes → Nat → Nat → List Nat → Res (List Nat)
  | 0, _, _, _, result => .ok result
  | fuel + 1, data, encodingMode, textSubMode, result =>
    if data.length > 0 then
      let rs := runeList data
      let numericCount := determineConsecutiveDigitCount rs
      if numericCount ≥ c_min_numeric_count || numericCount == data.length then
        match encodeNumeric (runeList (data.take numericCount)) with
        | .error e => .error e
        | .ok numData =>
          highlevelLoop fuel (data.drop numericCount) c_encNumeric c_subUpper
            (result ++ [c_latch_to_numeric] ++ numData)
      else
        let textCount := determineConsecutiveTextCount rs
        if textCount ≥ 5 || textCount == data.length then
          let (result, encodingMode, textSubMode) :=
            if encodingMode != c_encText then (result ++ [c_latch_to_text], c_encText, c_subUpper)
            else (result, encodingMode, textSubMode)
          let (textSubMode, txtData) := encodeText (runeList (data.take textCount)) textSubMode
          highlevelLoop fuel (data.drop textCount) encodingMode textSubMode (result ++ txtData)
        else
          let binaryCount := determineConsecutiveBinaryCount data
          let binaryCount := if binaryCount == 0 then 1 else binaryCount
          let bytes := data.take binaryCount
          let (encodingMode, textSubMode) :=
            if bytes.length != 1 || encodingMode != c_encText then (c_encBinary, c_subUpper)
            else (encodingMode, textSubMode)
          let byteData := encodeBinary bytes encodingMode
          highlevelLoop fuel (data.drop binaryCount) encodingMode textSubMode (result ++ byteData)
    else .ok result

/-- `highlevelEncode` -/
def highlevelEncode (dataStr : Bytes) : Res (List Nat) :=
  highlevelLoop (dataStr.length + 1) dataStr c_encText c_subUpper []

/-! ### dimensions.go -/

/-- `calculateNumberOfRows` -/
def calculateNumberOfRows (m k c : Nat) : Nat :=
  let r := (m + 1 + k) / c + 1
  if c * r ≥ m + 1 + k + c then r - 1 else r

/-- A value of the float64 variables `ratio` / `newRatio`: `none` is `+Inf` (the quotient `69.0 / 0.0` of the
    first accepted candidate), `some (a, b)` is the quotient `a / b` of two small integers, `b > 0`
    (`some (0, 1)` is the initial `0.0`). -/
abbrev Ratio := Option (Nat × Nat)

/-- `math.Abs(x - preferred_ratio) > math.Abs(y - preferred_ratio)` for `preferred_ratio = 3.0`, in exact
    rational arithmetic: `|a/b - 3| > |a'/b' - 3|  ⟺  |a - 3b|·b' > |a' - 3b'|·b`.

    Why this equals the float64 computation.  Whenever the comparison is executed, `x = (17·cols + 69) /
    (2·rows)` with `2 ≤ cols ≤ 30`, `2 ≤ rows ≤ 30`, and `y` is such a quotient or `+Inf`.
    * `y = +Inf`: `|Inf - 3| = +Inf` and `finite > +Inf` is false — as here.
    * Both finite: numerators are ≤ 579 and denominators ≤ 60.  `|x - 3|` and `|y - 3|` are rationals
      with denominators ≤ 60, so if they differ, they differ by ≥ 1/3600; the float64 values
      `|fl(fl(a/b) - 3)|` are within 2^-44 of the exact ones (quotients are < 256, one rounding of the
      division with ulp ≤ 2^-45, one of the subtraction), hence ordered the same way.  If they are equal,
      either `x = y` (identical float computations) or `x + y = 6`; the latter pairs were enumerated
      over the whole range (cols, rows ∈ 2..30): in each of them the float64 distances are equal as well
      (for |x-3| < 1 both operands lie in the binade [2,4) where rounding is symmetric about 3 and the
      subtraction is exact by Sterbenz; the only pair with |x-3| ≥ 1 is 4 and 2, both exact).
      The exhaustive comparison of this function with the float64 expression over all 841 × 841 pairs
      is in `go/cmd/harness/pdfratio_test.go`. -/
def fartherFrom3 (x y : Ratio) : Bool :=
  match x, y with
  | none, none => false
  | none, some _ => true
  | some _, none => false
  | some (a, b), some (a', b') =>
    let d := if a ≥ 3 * b then a - 3 * b else 3 * b - a
    let d' := if a' ≥ 3 * b' then a' - 3 * b' else 3 * b' - a'
    d * b' > d' * b

/-- the loop `for c := minCols; c <= maxCols; c++` of `calcDimensions`; `n` = remaining iterations.
    State: (ratio, cols, rows). -/
def calcDimensionsLoop (dataWords eccWords : Nat) : Nat → Nat → Ratio × Nat × Nat → Ratio × Nat × Nat
  | 0, _, st => st
  | n + 1, c, (ratio, cols, rows) =>
    let r := calculateNumberOfRows dataWords eccWords c
    if r < c_minRows then (ratio, cols, rows)                                           -- break
    else if r > c_maxRows then calcDimensionsLoop dataWords eccWords n (c + 1) (ratio, cols, rows) -- continue
    else
      -- NB the Go code computes the ratio of the *current best* (cols, rows), not of the candidate (c, r)
      let newRatio : Ratio := if rows * c_moduleHeight == 0 then none else some (17 * cols + 69, rows * c_moduleHeight)
      if rows != 0 && fartherFrom3 newRatio ratio then
        calcDimensionsLoop dataWords eccWords n (c + 1) (ratio, cols, rows)             -- continue
      else calcDimensionsLoop dataWords eccWords n (c + 1) (newRatio, c, r)

/-- `calcDimensions`: returns (cols, rows) -/
def calcDimensions (dataWords eccWords : Nat) : Nat × Nat :=
  let (_, cols, rows) :=
    calcDimensionsLoop dataWords eccWords (c_maxCols + 1 - c_minCols) c_minCols (some (0, 1), 0, 0)
  if rows == 0 then
    let r := calculateNumberOfRows dataWords eccWords c_minCols
    if r < c_minRows then (c_minCols, c_minRows) else (cols, rows)
  else (cols, rows)

/-! ### errorcorrection.go -/

/-- `securitylevel.ErrorCorrectionWordCount` -/
def errorCorrectionWordCount (level : Nat) : Nat := 1 <<< (level + 1)

/-- one round of the outer loop of `Compute`: the in-place update runs over `j = count-1-i = 0 … count-1`
    and reads `ecWords[j+1]`, which has not been overwritten yet -/
def computeStep (factors : Array Nat) (count : Nat) (ecWords : Array Nat) (value : Nat) : Res (Array Nat) :=
  let temp := (value + ecWords.getD 0 0) % 929
  let rec go (n : Nat) (ecWords : Array Nat) : Res (Array Nat) :=
    match n with
    | 0 => .ok ecWords
    | i + 1 =>  -- Go's `i` is this `i`
      let add := if i > 0 then ecWords.getD (count - i) 0 else 0
      match factors[i]? with
      | none => .error .panic
      | some f => go i (ecWords.setIfInBounds (count - 1 - i) ((add + 929 - (temp * f) % 929) % 929))
  go count ecWords

/-- `securitylevel.Compute` -/
def compute (level : Nat) (data : List Nat) : Res (List Nat) :=
  match v_correctionFactors[level]? with
  | none => .error .panic
  | some fl =>
    let factors := (fl.map Int.toNat).toArray
    let count := errorCorrectionWordCount level
    let rec go (l : List Nat) (ecWords : Array Nat) : Res (Array Nat) :=
      match l with
      | [] => .ok ecWords
      | value :: rest =>
        match computeStep factors count ecWords value with
        | .error e => .error e
        | .ok ec => go rest ec
    match go data (Array.replicate count 0) with
    | .error e => .error e
    | .ok ec => .ok (ec.toList.map (fun word => if word > 0 then 929 - word else word))

/-! ### codewords.go -/

def codewordTable : Array (Array Nat) := (v_codewords.map (fun t => (t.map Int.toNat).toArray)).toArray

/-- `getCodeword` (index out of range panics) -/
def getCodeword (tableId word : Nat) : Res Nat :=
  match codewordTable[tableId]? with
  | none => .error .panic
  | some t => match t[word]? with
    | none => .error .panic
    | some v => .ok v

/-! ### encoder.go -/

/-- `getPadding` -/
def getPadding (dataCount ecCount columns : Nat) : List Nat :=
  let totalCount := dataCount + ecCount + 1
  let mod := totalCount % columns
  if mod > 0 then List.replicate (columns - mod) c_padding_codeword else []

/-- `encodeData` (never fails) -/
def encodeData (dataWords : List Nat) (columns : Nat) (sl : Nat) : Res (List Nat) :=
  let dataCount := dataWords.length
  let ecCount := errorCorrectionWordCount sl
  let padWords := getPadding dataCount ecCount columns
  let dataWords := dataWords ++ padWords
  let length := dataWords.length + 1
  let dataWords := length :: dataWords
  match compute sl dataWords with
  | .error e => .error e
  | .ok ecWords => .ok (dataWords ++ ecWords)

/-- `getLeftCodeWord` -/
def getLeftCodeWord (rowNum rows columns securityLevel : Nat) : Nat :=
  let tableId := rowNum % 3
  let x :=
    if tableId == 0 then (rows - 1) / 3
    else if tableId == 1 then securityLevel * 3 + (rows - 1) % 3
    else columns - 1
  30 * (rowNum / 3) + x

/-- `getRightCodeWord` -/
def getRightCodeWord (rowNum rows columns securityLevel : Nat) : Nat :=
  let tableId := rowNum % 3
  let x :=
    if tableId == 0 then columns - 1
    else if tableId == 1 then (rows - 1) / 3
    else securityLevel * 3 + (rows - 1) % 3
  30 * (rowNum / 3) + x

/-- `min` -/
def min (a b : Nat) : Nat := if a ≤ b then a else b

/-- the loop `for i := 0; i < len(codeWords); i += columns` building `grid`; fuel = len + 1 (columns ≥ 2) -/
def gridRows : Nat → List Nat → Nat → List (List Nat)
  | 0, _, _ => []
  | fuel + 1, codeWords, columns =>
    if codeWords.length > 0 then
      codeWords.take (min columns codeWords.length) :: gridRows fuel (codeWords.drop columns) columns
    else []

/-- one row of `codes` -/
def rowCodes (rowNum : Nat) (row : List Nat) (rows columns securityLevel : Nat) : Res (List Nat) := do
  let table := rowNum % 3
  let left ← getCodeword table (getLeftCodeWord rowNum rows columns securityLevel)
  let body ← row.mapM (getCodeword table)
  let right ← getCodeword table (getRightCodeWord rowNum rows columns securityLevel)
  pure ([c_start_word, left] ++ body ++ [right, c_stop_word])

/-- `renderBarcode`: the last word of a row has 18 bits, the others 17 -/
def renderBarcode (codes : List (List Nat)) : Array Bool :=
  codes.foldl (fun bl row =>
    let lastIdx := row.length - 1
    let rec go (l : List Nat) (i : Nat) (bl : Array Bool) : Array Bool :=
      match l with
      | [] => bl
      | col :: rest => go rest (i + 1) (bl ++ (msbBits col (if i == lastIdx then 18 else 17)).toArray)
    go row 0 bl) #[]

/-- `pdfBarcode` with `Bounds` (`height = code.Len() / width`, times `moduleHeight`) and `At` -/
def mkBarcode (data : Bytes) (width : Nat) (code : Array Bool) (s : Scheme) : Barcode :=
  { kind := kindStr Gen.Root.c_TypePDF, dims := 2,
    w := width, h := code.size / width * c_moduleHeight,
    dark := fun x y => code.getD (y / c_moduleHeight * width + x) false,
    content := data, checksum := none, scheme := s }

/-- `EncodeWithColor` -/
def encodeWithColor (data : Bytes) (securityLevel : Nat) (s : Scheme) : Res Barcode :=
  if securityLevel ≥ 9 then .error .rejected
  else do
    let dataWords ← highlevelEncode data
    let (columns, rows) := calcDimensions dataWords.length (errorCorrectionWordCount securityLevel)
    if columns < c_minCols || columns > c_maxCols || rows < c_minRows || rows > c_maxRows then
      .error .rejected
    else
      let codeWords ← encodeData dataWords columns securityLevel
      let grid := gridRows (codeWords.length + 1) codeWords columns
      let rec go (g : List (List Nat)) (rowNum : Nat) (codes : List (List Nat)) : Res (List (List Nat)) :=
        match g with
        | [] => .ok codes
        | row :: rest => do
          let rc ← rowCodes rowNum row rows columns securityLevel
          go rest (rowNum + 1) (codes ++ [rc])
      let codes ← go grid 0 []
      pure (mkBarcode data ((columns + 4) * 17 + 1) (renderBarcode codes) s)

/-- `Encode` -/
def encode (data : Bytes) (securityLevel : Nat) : Res Barcode := encodeWithColor data securityLevel scheme16

end BV.Model.Pdf417
