/-
  Model of /repo/code128/encode.go.
-/
import BV.Model.Util
import BV.Gen.Code128
namespace BV.Model.Code128
open BV BV.Model
open BV.Gen.Code128

def fnc1 := c_FNC1
def fnc2 := c_FNC2
def fnc3 := c_FNC3
def fnc4 := c_FNC4

/-- `strToRunes` -/
def strToRunes (s : Bytes) : List Nat := runeList s

def isDigit (r : Nat) : Bool := 48 ≤ r && r ≤ 57

/-- `shouldUseCTable`: the loop `for i := 0; i < requiredDigits; i++` with a growing bound -/
def shouldUseCTable (next : List Nat) (cur : Nat) : Bool :=
  let required := if cur == c_startCSymbol then 2 else 4
  if next.length < required then false
  else
    let rec go (fuel i required : Nat) : Bool :=
      match fuel with
      | 0 => false
      | fuel + 1 =>
        if i < required then
          let r := next.getD i 0
          if i % 2 == 0 && r == fnc1 then
            let required := required + 1
            if next.length < required then false else go fuel (i + 1) required
          else if !isDigit r then false
          else go fuel (i + 1) required
        else true
    go (next.length + 5) 0 required

/-- `tableContainsRune` -/
def tableContainsRune (table : Bytes) (r : Nat) : Bool :=
  containsRune table r || r == fnc1 || r == fnc2 || r == fnc3 || r == fnc4

/-- `shouldUseATable` (`nextRunes` is non-empty at every call site) -/
def shouldUseATable (next : List Nat) (cur : Nat) : Bool :=
  let nextRune := next.headD 0
  if !tableContainsRune c_bTable nextRune || cur == c_startASymbol then
    tableContainsRune c_aTable nextRune
  else if cur == 0 then
    let rec scan : List Nat → Bool
      | [] => false
      | r :: rest =>
        if tableContainsRune c_abTable r then scan rest
        else if containsRune c_aOnlyTable r then true
        else false
    scan next
  else false

/-- symbol index in set A / B for one rune (`-1`: not encodable) -/
def idxA (r : Nat) : Int :=
  if r == fnc1 then 102 else if r == fnc2 then 97 else if r == fnc3 then 96 else if r == fnc4 then 101
  else indexRune c_aTable r

def idxB (r : Nat) : Int :=
  if r == fnc1 then 102 else if r == fnc2 then 97 else if r == fnc3 then 96 else if r == fnc4 then 100
  else indexRune c_bTable r

/-- start / code-switch symbol when changing to `target` from `cur` -/
def switchTo (cur target startSym codeSym : Nat) : List Nat :=
  if cur != target then (if cur == 0 then [startSym] else [codeSym]) else []

/-- `getCodeIndexList`: the list of symbol values (each written with `AddByte`, i.e. mod 256); `none` = nil -/
def getCodeIndexList (content : List Nat) : Option (List Nat) :=
  let rec go (fuel : Nat) (rest : List Nat) (cur : Nat) (acc : List Nat) : Option (List Nat) :=
    match fuel with
    | 0 => some acc
    | fuel + 1 =>
      match rest with
      | [] => some acc
      | r :: tail =>
        if shouldUseCTable rest cur then
          let acc := acc ++ switchTo cur c_startCSymbol c_startCSymbol c_codeCSymbol
          if r == fnc1 then go fuel tail c_startCSymbol (acc ++ [102])
          else
            let r2 := tail.headD 0
            let idx : Int := ((r : Int) - 48) * 10 + ((r2 : Int) - 48)
            go fuel (tail.drop 1) c_startCSymbol (acc ++ [(idx.emod 256).toNat])
        else if shouldUseATable rest cur then
          let acc := acc ++ switchTo cur c_startASymbol c_startASymbol c_codeASymbol
          let idx := idxA r
          if idx < 0 then none else go fuel tail c_startASymbol (acc ++ [(idx.emod 256).toNat])
        else
          let acc := acc ++ switchTo cur c_startBSymbol c_startBSymbol c_codeBSymbol
          let idx := idxB r
          if idx < 0 then none else go fuel tail c_startBSymbol (acc ++ [(idx.emod 256).toNat])
  go (content.length + 1) content 0 []

def pattern (idx : Nat) : List Bool := v_encodingTable.getD idx []

/-- the checksum loop of `EncodeWithColor` -/
def checksum (idxs : List Nat) : Nat :=
  let rec go (l : List Nat) (i : Nat) (sum : Nat) : Nat :=
    match l with
    | [] => sum
    | x :: rest => go rest (i + 1) (if i == 0 then x else sum + i * x)
  (go idxs 0 0) % 103

def encodeWithColor (content : Bytes) (s : Scheme) : Res Barcode :=
  let rs := strToRunes content
  if rs.length ≤ 0 ∨ rs.length > 80 then .error .rejected
  else match getCodeIndexList rs with
    | none => .error .rejected
    | some idxs =>
      let sum := checksum idxs
      let bits := idxs.flatMap pattern ++ pattern sum ++ pattern c_stopSymbol
      .ok (mk1D (kindStr Gen.Root.c_TypeCode128) content bits (some sum) s)

def encode (content : Bytes) : Res Barcode := encodeWithColor content scheme16

def encodeWithoutChecksumWithColor (content : Bytes) (s : Scheme) : Res Barcode :=
  let rs := strToRunes content
  if rs.length ≤ 0 ∨ rs.length > 80 then .error .rejected
  else match getCodeIndexList rs with
    | none => .error .rejected
    | some idxs =>
      let bits := idxs.flatMap pattern ++ pattern c_stopSymbol
      .ok (mk1D (kindStr Gen.Root.c_TypeCode128) content bits none s)

def encodeWithoutChecksum (content : Bytes) : Res Barcode := encodeWithoutChecksumWithColor content scheme16

end BV.Model.Code128
