/-
  BV.Ops — dispatch of op lines onto the models (the model side of the correspondence check).
-/
import BV.Proto
import BV.Model.Scale
import BV.Model.Ean
import BV.Model.Code39
import BV.Model.Code93
import BV.Model.Codabar
import BV.Model.Twooffive
import BV.Model.Code128
import BV.OpsMisc
import BV.OpsDatamatrix
import BV.OpsPdf417
import BV.OpsStage
import BV.Model.Qr
import BV.Spec.Qr
import BV.Model.Aztec
import BV.Spec.Aztec
namespace BV.Ops
open BV BV.Proto

/-- split off an optional trailing `@scheme` token -/
def splitScheme (f : List String) : List String × Option Scheme :=
  match f.getLast? with
  | some t => match parseScheme t with
    | some s => (f.dropLast, some s)
    | none => (f, none)
  | none => (f, none)

def bool01 (s : String) : Bool := s == "1"

/-- one encoder op (no scale prefix); `none` = not an op of this kind / malformed -/
def encodeOp (f : List String) : Option (Res Barcode) :=
  let (f, sch) := splitScheme f
  match f with
  | ["raw1d", kind, c, bits, cs] => do
    -- the four public constructors of utils/base1dcode.go
    let kind ← fromHex kind
    let c ← fromHex c
    let bits := bits.toList.map (· == '1')
    let cs : Option Int ← if cs == "-" then pure none else (intField cs).map some
    pure (.ok (mk1D (Model.kindStr kind) c bits cs (sch.getD scheme16)))
  | ["ean", c] => do
    let c ← fromHex c
    pure (match sch with | some s => Model.Ean.encodeWithColor c s | none => Model.Ean.encode c)
  | ["c39", c, cs, full] => do
    let c ← fromHex c
    pure (match sch with
      | some s => Model.Code39.encodeWithColor c (bool01 cs) (bool01 full) s
      | none => Model.Code39.encode c (bool01 cs) (bool01 full))
  | ["c93", c, cs, full] => do
    let c ← fromHex c
    pure (match sch with
      | some s => Model.Code93.encodeWithColor c (bool01 cs) (bool01 full) s
      | none => Model.Code93.encode c (bool01 cs) (bool01 full))
  | ["c128", c] => do
    let c ← fromHex c
    pure (match sch with | some s => Model.Code128.encodeWithColor c s | none => Model.Code128.encode c)
  | ["c128nc", c] => do
    let c ← fromHex c
    pure (match sch with
      | some s => Model.Code128.encodeWithoutChecksumWithColor c s
      | none => Model.Code128.encodeWithoutChecksum c)
  | ["codabar", c] => do
    let c ← fromHex c
    pure (match sch with | some s => Model.Codabar.encodeWithColor c s | none => Model.Codabar.encode c)
  | ["tof", c, il] => do
    let c ← fromHex c
    pure (match sch with
      | some s => Model.Twooffive.encodeWithColor c (bool01 il) s
      | none => Model.Twooffive.encode c (bool01 il))
  | ["qr", c, level, mode] => do
    let c ← fromHex c
    let level ← natField level
    let mode ← natField mode
    -- `qr.ErrorCorrectionLevel(int)`, `qr.Encoding(int)`: conversions to byte
    pure (match sch with
      | some s => Model.Qr.encodeWithColor c (level % 256) (mode % 256) s
      | none => Model.Qr.encode c (level % 256) (mode % 256))
  | ["aztec", c, ecc, layers] => do
    let c ← fromHex c
    let ecc ← intField ecc
    let layers ← intField layers
    pure (match sch with
      | some s => Model.Aztec.encodeWithColor c ecc layers s
      | none => Model.Aztec.encode c ecc layers)
  | ["dm", c] => do
    let c ← fromHex c
    pure (match sch with | some s => Model.Datamatrix.encodeWithColor c s | none => Model.Datamatrix.encode c)
  | ["pdf", c, lvl] => do
    let c ← fromHex c
    let lvl ← natField lvl
    let lvl := lvl % 256   -- `byte(atoi(..))` in the harness
    pure (match sch with
      | some s => Model.Pdf417.encodeWithColor c lvl s
      | none => Model.Pdf417.encode c lvl)
  | _ => none

/-- nested `scale W H FILL <inner op>` -/
def barcodeOp : Nat → List String → Option (Res View)
  | 0, _ => none
  | fuel + 1, f =>
    match f with
    | "scale" :: w :: h :: fill :: inner => do
      let w ← intField w
      let h ← intField h
      let r ← barcodeOp fuel inner
      match r with
      | .error e => pure (.error e)
      | .ok v =>
        if fill == "-" then pure (Model.Scale.scale v w h)
        else pure (Model.Scale.scaleWithFill v w h fill)
    | _ => do
      let r ← encodeOp f
      pure (r.map Barcode.view)

def miscOp (f : List String) : Option String :=
  match f with
  | ["tofcs", c] => do
    let c ← fromHex c
    pure (match Model.Twooffive.addCheckSum c with
      | some s => "ok str=" ++ toHexField s
      | none => "rej")
  | ["spec.aztec", w, h, px] => do
    let w ← natField w
    let h ← natField h
    let arr : Array Bool := px.toList.toArray.map (· == '1')
    if arr.size ≠ w * h then pure "fail bad-picture"
    else
      pure (match Spec.Aztec.decode w h (fun x y => arr.getD (y * w + x) false) with
        | .ok i =>
          s!"ok content={toHexField i.content} compact={if i.compact then 1 else 0} layers={i.layers} size={i.size} ws={i.wordSize} data={i.dataWords} check={i.checkWords}"
        | .error e => "fail " ++ e)
  | ["aztec.min", c, pct] => do
    -- automatic size, then every explicit request for a physically smaller symbol (mirror of the harness op)
    let c ← fromHex c
    let pct ← intField pct
    match Model.Aztec.encode c pct 0 with
    | .error .panic => pure "panic"
    | .error _ => pure "rej"
    | .ok bc =>
      let size := bc.w
      let aztecSize := fun (req : Int) =>
        if req < 0 then 11 + 4 * req.natAbs else 15 + 4 * req.toNat + 2 * ((2 * req.toNat + 6) / 15)
      let reqs : List Int := (List.range 37).map (fun (i : Nat) => (i : Int) - 4)
      let okReqs := reqs.filter (fun req => req != 0 && aztecSize req < size &&
        (match Model.Aztec.encode c pct req with | .ok _ => true | _ => false))
      pure s!"ok auto={size} smaller_ok={if okReqs.isEmpty then "-" else String.intercalate "," (okReqs.map toString)}"
  | ["spec.qr", w, h, px] => do
    let w ← natField w
    let h ← natField h
    pure (Spec.Qr.decodeDigits w h px)
  | _ => (OpsMisc.miscOp f <|> OpsDatamatrix.miscOp f <|> OpsPdf417.miscOp f <|> OpsStage.stageOp f)

def execOp (line : String) : String :=
  let f := (line.splitOn " ").filter (· ≠ "")
  -- `mut <aztec op>`: the model is a pure function of its arguments, so the snapshot is stable by construction
  match f with
  | "mut" :: inner =>
    (match barcodeOp 16 inner with
     | some (.ok v) => viewLine v ++ " stable=1 input=1"
     | some r => resLine r
     | none => "bad-op")
  | _ =>
  match barcodeOp 16 f with
  | some r => resLine r
  | none =>
    match miscOp f with
    | some s => s
    | none => "bad-op"

end BV.Ops
