/-
  BV.OpsMisc — model side of the non-barcode ops (BitList scripts, Galois field rows, polynomials, RS sequences).
-/
import BV.Proto
import BV.Model.BitList
import BV.Model.GF
namespace BV.OpsMisc
open BV BV.Proto

def ints (s : String) : Option (List Int) :=
  if s == "-" || s == "" then some [] else (s.splitOn ",").mapM String.toInt?

def nats (s : String) : Option (List Nat) := (ints s).map (·.map Int.toNat)

def joinNats (l : List Nat) : String :=
  if l.isEmpty then "-" else String.intercalate "," (l.map toString)

def bytesHex (l : List Nat) : String := toHexField (l.map UInt8.ofNat)

open Model.BitList in
/-- run a BitList script; `none` = malformed, `some none` = Go panic -/
def bitListOp (script : List String) : Option (Option String) := do
  let first ← script.head?
  let init ← if first == "z" then some empty
    else if first.startsWith "n" then (first.drop 1).toString.toNat?.map new else none
  let rec go (toks : List String) (b : BL) (gets : String) : Option (Option (BL × String)) :=
    match toks with
    | [] => some (some (b, gets))
    | t :: rest =>
      let arg := (t.drop 1).toString
      if t.startsWith "a" then go rest (b.addBit (arg == "1")) gets
      else if t.startsWith "A" then go rest (b.addBitsList (arg.toList.map (· == '1'))) gets
      else if t.startsWith "B" then do
        let x ← arg.toNat?
        go rest (b.addByte (x % 256)) gets
      else if t.startsWith "b" then
        match arg.splitOn "," with
        | [x, k] => do
          let x ← x.toInt?
          let k ← k.toNat?
          go rest (b.addBits x (k % 256)) gets
        | _ => none
      else if t.startsWith "s" then
        match arg.splitOn "," with
        | [i, v] => do
          let i ← i.toInt?
          if i < 0 ∨ i.toNat / 32 ≥ b.data.size then some none   -- index out of range: Go panics
          else go rest (b.setBit i.toNat (v == "1")) gets
        | _ => none
      else if t.startsWith "g" then do
        let i ← arg.toInt?
        if i < 0 ∨ i.toNat / 32 ≥ b.data.size then some none
        else go rest b (gets.push (if b.getBit i.toNat then '1' else '0'))
      else none
  match ← go script.tail init "" with
  | none => pure none
  | some (b, gets) =>
    let g := if gets.isEmpty then "-" else gets
    pure (some s!"ok len={b.len} bytes={bytesHex b.getBytes} iter={bytesHex b.iterateBytes} gets={g}")

open Model.GF in
def gfOp (f : List String) : Option String :=
  match f with
  | ["gf.tables", pp, size, base] => do
    let fld := newField (← pp.toNat?) (← size.toNat?) (← base.toNat?)
    pure s!"ok size={fld.size} base={fld.base} alog={joinNats fld.alog.toList} log={joinNats fld.log.toList}"
  | ["gf.mulrow", pp, size, base, a] => do
    let fld := newField (← pp.toNat?) (← size.toNat?) (← base.toNat?)
    let a ← a.toNat?
    pure ("ok v=" ++ joinNats ((List.range fld.size).map (fun b => fld.mul a b)))
  | ["gf.divrow", pp, size, base, a] => do
    let fld := newField (← pp.toNat?) (← size.toNat?) (← base.toNat?)
    let a ← a.toNat?
    let vals := (List.range fld.size).map (fun b => match fld.div a b with | some v => toString v | none => "-1")
    pure ("ok v=" ++ String.intercalate "," vals)
  | ["gf.inv", pp, size, base] => do
    let fld := newField (← pp.toNat?) (← size.toNat?) (← base.toNat?)
    pure ("ok v=" ++ joinNats ((List.range fld.size).map (fun a => if a = 0 then 0 else fld.inv a)))
  | ["gf.div0", pp, size, base, a] => do
    let fld := newField (← pp.toNat?) (← size.toNat?) (← base.toNat?)
    pure (match fld.div (← a.toNat?) 0 with | none => "panic" | some _ => "ok")
  | ["poly", pp, size, base, "mono", d, c] => do
    let _fld := newField (← pp.toNat?) (← size.toNat?) (← base.toNat?)
    pure ("ok r=" ++ joinNats (monomial (← d.toNat?) (← c.toNat?)))
  | ["poly", pp, size, base, "mulmono", p, dc] => do
    let fld := newField (← pp.toNat?) (← size.toNat?) (← base.toNat?)
    let p := newPoly (← nats p)
    match (← nats dc) with
    | [d, c] => pure ("ok r=" ++ joinNats (mulMonomial fld p d c) ++ " guard=1")
    | _ => none
  | ["poly", pp, size, base, op, p, q] => do
    let fld := newField (← pp.toNat?) (← size.toNat?) (← base.toNat?)
    let p := newPoly (← nats p)
    let q := newPoly (← nats q)
    -- `Degree`, `Zero`, `GetCoefficient(0)`, `GetCoefficient(Degree())` of the result
    let acc := fun (r : Poly) =>
      s!" deg={degree r} zero={if isZero r then 1 else 0} lo={coeff r 0} hi={coeff r (degree r).toNat}"
    match op with
    | "add" => let r := polyAdd p q; pure ("ok r=" ++ joinNats r ++ acc r ++ " guard=1")
    | "mul" => let r := polyMul fld p q; pure ("ok r=" ++ joinNats r ++ acc r ++ " guard=1")
    | "div" =>
      let (quo, rem) := polyDiv fld p q
      pure (s!"ok q={joinNats quo} r={joinNats rem}" ++ acc rem ++ " guard=1")
    | _ => none
  | ["rs", pp, size, base, calls] => do
    let fld := newField (← pp.toNat?) (← size.toNat?) (← base.toNat?)
    let calls ← (calls.splitOn ";").mapM (fun c =>
      match c.splitOn ":" with
      | [k, d] => do pure ((← k.toNat?), (← nats d))
      | _ => none)
    let (outs, _) := calls.foldl (fun (acc : List String × Cache) (c : Nat × List Nat) =>
      let (r, cache') := encodeWith fld acc.2 c.2 c.1
      (acc.1 ++ [joinNats r], cache')) ([], newEncoder)
    -- `guard`: the harness hands `Encode` windows into a larger buffer and checks that nothing outside `data[:len]`
    -- (and nothing inside it) was written; the model is a function, so the guard always holds
    pure ("ok r=" ++ String.intercalate ";" outs ++ " guard=1")
  | _ => none

def miscOp (f : List String) : Option String :=
  match f with
  | "bl" :: script =>
    match bitListOp script with
    | some (some s) => some s
    | some none => some "panic"
    | none => none
  | _ => gfOp f

end BV.OpsMisc
