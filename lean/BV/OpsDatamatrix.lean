/-
  BV.OpsDatamatrix — DataMatrix ops that are not "encode a barcode":
  `spec.dm <w> <h> <px>` runs the reference decoder on a picture (px: one digit per pixel, row-major, 1 = dark);
  `dm.text`, `dm.pad`, `dm.ecc`, `dm.place`, `dm.set` expose stages of the model (compared with the Go stages
  through a test hook).
-/
import BV.Proto
import BV.Model.Datamatrix
import BV.Spec.Datamatrix
namespace BV.OpsDatamatrix
open BV BV.Proto

/-- digits of a bit matrix (first `n` bits) -/
def bitString (a : Array Bool) (n : Nat) : String :=
  (List.range n).foldl (fun s i => s.push (if a.getD i false then '1' else '0')) ""

/-- `dm.set` arguments: quadruples row col value bitNum -/
def dmSets (l : Model.Datamatrix.CodeLayout) : List String → Option (Res Model.Datamatrix.CodeLayout)
  | r :: c :: v :: b :: rest => do
    let r ← intField r
    let c ← intField c
    let v ← natField v
    let b ← natField b
    match l.set r c (UInt8.ofNat v) (b % 256) with
    | .ok l => dmSets l rest
    | .error e => pure (.error e)
  | _ => pure (.ok l)

def dmLayoutLine (r : Res Model.Datamatrix.CodeLayout) : String :=
  match r with
  | .ok l =>
    let n := (l.size.matrixColumns * l.size.matrixRows).toNat
    "ok m=" ++ bitString l.matrix n ++ " o=" ++ bitString l.occupy n
  | .error _ => "panic"

/-- stage-level ops of the DataMatrix model (compared with the Go stages through a test hook) -/
def dmStageOp (f : List String) : Option String :=
  match f with
  | ["dm.text", c] => do
    let c ← fromHex c
    pure ("ok cw=" ++ toHexField (Model.Datamatrix.encodeText c))
  | ["dm.pad", c, n] => do
    let c ← fromHex c
    let n ← intField n
    pure ("ok cw=" ++ toHexField (Model.Datamatrix.addPadding c n))
  | ["dm.ecc", i, c] => do
    let i ← natField i
    let c ← fromHex c
    let size ← Model.Datamatrix.codeSizes[i]?
    pure (match Model.Datamatrix.calcECC c size with
      | .ok d => "ok cw=" ++ toHexField d
      | .error _ => "panic")
  | ["dm.place", i, c] => do
    let i ← natField i
    let c ← fromHex c
    let size ← Model.Datamatrix.codeSizes[i]?
    pure (dmLayoutLine ((Model.Datamatrix.newCodeLayout size scheme16).setValues c.toArray))
  | "dm.set" :: i :: rest => do
    let i ← natField i
    let size ← Model.Datamatrix.codeSizes[i]?
    let r ← dmSets (Model.Datamatrix.newCodeLayout size scheme16) rest
    pure (dmLayoutLine r)
  | _ => none

def miscOp (f : List String) : Option String :=
  match f with
  | ["spec.dm", w, h, px] => do
    let w ← natField w
    let h ← natField h
    let bits := px.toUTF8
    if bits.size ≠ w * h then none
    else
      let dark := fun (x y : Nat) => bits.get! (y * w + x) == 49   -- '1' = dark
      pure (match Spec.Datamatrix.decode w h dark with
        | .ok i => i.line
        | .error e => "fail " ++ e)
  | _ => dmStageOp f

end BV.OpsDatamatrix
