/-
  BV.OpsPdf417 — ops of the PDF417 model / spec decoder (debug op `spec.pdf`, table self-check `spec.pdftables`).
-/
import BV.Proto
import BV.Model.Pdf417
import BV.Spec.Pdf417
namespace BV.OpsPdf417
open BV BV.Proto

def miscOp (f : List String) : Option String :=
  match f with
  | ["spec.pdf", w, h, px] => do
    let w ← natField w
    let h ← natField h
    let arr := px.toList.toArray
    if arr.size != w * h then pure "fail pixel count is not w*h"
    else
      let dark := fun (x y : Nat) => arr.getD (y * w + x) '0' == '1'
      pure (match Spec.Pdf417.decode w h dark with
        | .ok i => s!"ok content={toHexField i.content} rows={i.rows} cols={i.cols} level={i.level} data={i.dataCodewords} pad={i.padCount} ec={i.ecCount}"
        | .error e => "fail " ++ e)
  | ["spec.pdftables"] =>
    -- structure of the frozen pattern tables, and whether the generated Go table still equals the snapshot
    let snap := [Spec.Pdf417.cluster0, Spec.Pdf417.cluster3, Spec.Pdf417.cluster6].map (·.map Spec.Pdf417.entryModules)
    let gen := Gen.Pdf417.v_codewords.map (·.map Int.toNat)
    pure s!"ok wellformed={Spec.Pdf417.patternsWellFormed} snapshot={snap == gen} start={bitsToNat Spec.Pdf417.startPattern == Gen.Pdf417.c_start_word} stop={bitsToNat Spec.Pdf417.stopPattern == Gen.Pdf417.c_stop_word}"
  | _ => none

end BV.OpsPdf417
