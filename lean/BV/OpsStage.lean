/-
  BV.OpsStage — *stage ops*: the model's internal functions, one op each, so that the correspondence check can compare
  them with the same internal functions of /repo (exposed there by `export_verif.go` files under the build tag `verif`)
  on domains that are enumerated directly instead of being reached through whole symbols.

      st.pdf.hl <hex>                 highlevelEncode                 ok <ints> | rej
      st.pdf.dims <data> <ecc>        calcDimensions                  ok <cols> <rows>
      st.pdf.ec <level> <ints>        securitylevel.Compute           ok <ints>
      st.pdf.pad <data> <ecc> <cols>  getPadding                      ok <ints>
      st.az.hl <hex>                  highlevelEncode                 ok <bits>
      st.az.stuff <bits> <ws>         stuffBits                       ok <bits>
      st.az.mode <0|1> <layers> <n>   generateModeMessage             ok <bits>
      st.az.check <bits> <total> <ws> generateCheckWords              ok <bits>
      st.qr.smallest <ecl> <mode> <n> findSmallestVersionInfo         ok <version, 0 = nil>
      st.qr.stream <hex> <ecl> <enc>  the encoder function            ok <version> <bits> | rej
      st.qr.align <version>           alignmentPatternPlacements      ok <ints>
      st.qr.blocks <hex> <ver> <ecl>  splitToBlocks + interleave      ok <hex>
      st.qr.penalty <dim> <bits>      calcPenaltyRule1..4             ok <r1> <r2> <r3> <r4>
      st.dm.text <hex>                encodeText                      ok <hex>
      st.dm.pad <hex> <n>             addPadding                      ok <hex>
      st.dm.ecc <hex> <sizeIdx>       calcECC                         ok <hex>
      st.dm.place <hex> <sizeIdx>     newCodeLayout + SetValues       ok <bits of the mapping matrix, row-major>
      st.ean.chk <hex>                calcCheckNum                    ok <rune>
      st.c39.chk <hex>                getChecksum                     ok <hex>
      st.c93.chk <hex> <maxWeight>    getChecksum                     ok <rune>
      st.c39.prep <hex>, st.c93.prep <hex>   prepare (full ASCII)     ok <hex> | rej
      st.c128.idx <hex>               getCodeIndexList                ok <hex> | rej

  `<ints>` = comma separated decimals, `<bits>` = string of 0/1, both `-` when empty.
-/
import BV.Proto
import BV.Model.Pdf417
import BV.Model.Aztec
import BV.Model.Qr
import BV.Model.Datamatrix
import BV.Model.Ean
import BV.Model.Code39
import BV.Model.Code93
import BV.Model.Code128
namespace BV.OpsStage
open BV BV.Proto

def intsField (l : List Nat) : String :=
  if l.isEmpty then "-" else String.intercalate "," (l.map toString)

def parseInts (s : String) : Option (List Nat) :=
  if s == "-" then some [] else (s.splitOn ",").mapM (·.toNat?)

def bitsField (l : List Bool) : String :=
  if l.isEmpty then "-" else String.ofList (l.map (fun b => if b then '1' else '0'))

def parseBits (s : String) : Option (List Bool) :=
  if s == "-" then some []
  else s.toList.mapM (fun c => if c == '0' then some false else if c == '1' then some true else none)

def natsToBytes (l : List Nat) : Bytes := l.map (fun n => UInt8.ofNat n)

def resStr {α} (r : Res α) (f : α → String) : String :=
  match r with
  | .ok a => "ok " ++ f a
  | .error .rejected => "rej"
  | .error .panic => "panic"

def stageOp (f : List String) : Option String :=
  match f with
  -- ---------------------------------------------------------------- pdf417
  | ["st.pdf.hl", c] => do
    let c ← fromHex c
    pure (resStr (Model.Pdf417.highlevelEncode c) intsField)
  | ["st.pdf.dims", d, e] => do
    let d ← natField d
    let e ← natField e
    let (cols, rows) := Model.Pdf417.calcDimensions d e
    pure s!"ok {cols} {rows}"
  | ["st.pdf.ec", lvl, ws] => do
    let lvl ← natField lvl
    let ws ← parseInts ws
    pure (resStr (Model.Pdf417.compute lvl ws) intsField)
  | ["st.pdf.pad", d, e, c] => do
    let d ← natField d
    let e ← natField e
    let c ← natField c
    if c == 0 then pure "panic" else
    pure ("ok " ++ intsField (Model.Pdf417.getPadding d e c))
  -- ---------------------------------------------------------------- aztec
  | ["st.az.hl", c] => do
    let c ← fromHex c
    pure ("ok " ++ bitsField (Model.Aztec.highlevelEncode c))
  | ["st.az.stuff", b, ws] => do
    let b ← parseBits b
    let ws ← natField ws
    pure ("ok " ++ bitsField (Model.Aztec.stuffBits b ws))
  | ["st.az.mode", compact, layers, n] => do
    let layers ← natField layers
    let n ← natField n
    pure (resStr (Model.Aztec.generateModeMessage (compact == "1") layers n) bitsField)
  | ["st.az.check", b, total, ws] => do
    let b ← parseBits b
    let total ← natField total
    let ws ← natField ws
    pure (resStr (Model.Aztec.generateCheckWords b total ws) bitsField)
  -- ---------------------------------------------------------------- qr
  | ["st.qr.smallest", ecl, mode, n] => do
    let ecl ← natField ecl
    let mode ← natField mode
    let n ← natField n
    pure (match Model.Qr.findSmallestVersionInfo ecl mode n with
      | some vi => s!"ok {vi.version}"
      | none => "ok 0")
  | ["st.qr.stream", c, ecl, enc] => do
    let c ← fromHex c
    let ecl ← natField ecl
    let enc ← natField enc
    match Model.Qr.getEncoder enc with
    | none => pure "panic"
    | some fn =>
      pure (match fn c ecl with
        | some (bits, vi) => s!"ok {vi.version} {bitsField bits}"
        | none => "rej")
  | ["st.qr.align", v] => do
    let v ← natField v
    match Model.Qr.versionInfos.find? (fun vi => vi.version == v) with
    | some vi => pure ("ok " ++ intsField vi.alignmentPatternPlacements)
    | none => pure "rej"
  | ["st.qr.blocks", d, v, ecl] => do
    let d ← fromHex d
    let v ← natField v
    let ecl ← natField ecl
    match Model.Qr.versionInfos.find? (fun vi => vi.version == v && vi.level == ecl) with
    | none => pure "rej"
    | some vi =>
      -- the Go side reads `<-data` from a closed channel beyond the end: zero bytes
      let need := vi.totalDataBytes
      let bytes := d.map (·.toNat)
      let bytes := bytes ++ List.replicate (need - bytes.length) 0
      pure (resStr (Model.Qr.splitToBlocks bytes vi) (fun bl => toHexField (natsToBytes (Model.Qr.interleave bl vi))))
  | ["st.qr.penalty", dim, b] => do
    let dim ← natField dim
    let b ← parseBits b
    if b.length ≠ dim * dim then pure "bad-op" else
    let qr := (List.range (dim * dim)).foldl
      (fun (q : Model.Qr.QRCode) i => Model.Qr.QRCode.set (i % dim) (i / dim) (b.getD i false) q) (Model.Qr.newBarcode dim)
    pure s!"ok {qr.calcPenaltyRule1} {qr.calcPenaltyRule2} {qr.calcPenaltyRule3} {qr.calcPenaltyRule4}"
  -- ---------------------------------------------------------------- datamatrix
  | ["st.dm.text", c] => do
    let c ← fromHex c
    pure ("ok " ++ toHexField (Model.Datamatrix.encodeText c))
  | ["st.dm.pad", c, n] => do
    let c ← fromHex c
    let n ← natField n
    pure ("ok " ++ toHexField (Model.Datamatrix.addPadding c n))
  | ["st.dm.ecc", c, idx] => do
    let c ← fromHex c
    let idx ← natField idx
    match Model.Datamatrix.codeSizes[idx]? with
    | none => pure "rej"
    | some size => pure (resStr (Model.Datamatrix.calcECC c size) toHexField)
  | ["st.dm.place", c, idx] => do
    let c ← fromHex c
    let idx ← natField idx
    match Model.Datamatrix.codeSizes[idx]? with
    | none => pure "rej"
    | some size =>
      pure (resStr ((Model.Datamatrix.newCodeLayout size scheme16).setValues c.toArray)
        (fun l => bitsField (l.matrix.toList.take (size.matrixColumns * size.matrixRows).toNat)))
  -- ---------------------------------------------------------------- 1D
  | ["st.ean.chk", c] => do
    let c ← fromHex c
    pure s!"ok {Model.Ean.calcCheckNum c}"
  | ["st.c39.chk", c] => do
    let c ← fromHex c
    pure ("ok " ++ toHexField (Model.Code39.getChecksum c))
  | ["st.c93.chk", c, w] => do
    let c ← fromHex c
    let w ← natField w
    pure s!"ok {Model.Code93.getChecksum c w}"
  | ["st.c39.prep", c] => do
    let c ← fromHex c
    pure (match Model.Code39.prepare c with | some r => "ok " ++ toHexField r | none => "rej")
  | ["st.c93.prep", c] => do
    let c ← fromHex c
    pure (match Model.Code93.prepare c with | some r => "ok " ++ toHexField r | none => "rej")
  | ["st.c128.idx", c] => do
    let c ← fromHex c
    pure (match Model.Code128.getCodeIndexList (Model.Code128.strToRunes c) with
      | some idx => "ok " ++ toHexField (natsToBytes idx)
      | none => "rej")
  | _ => none

end BV.OpsStage
