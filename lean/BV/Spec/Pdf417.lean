/-
  BV.Spec.Pdf417 — reference decoder for PDF417 symbols, written from ISO/IEC 15438 (not from the Go code).

  Picture layout (what the encoder under test draws): X = 1 pixel, row height = 2 pixels, no quiet zone.
    width  = 17·(cols + 4) + 1     start, left indicator, cols data characters, right indicator, stop (18 modules)
    height = 2·rows

  Stages, each with the rule of the standard it enforces:
    1. geometry, both pixel lines of a row identical;
    2. every row: start pattern 81111113, stop pattern 711311121; every symbol character between them has
       4 bars and 4 spaces of 1..6 modules starting with a bar, its cluster number (b1-b2+b3-b4) mod 9 is
       3·(row mod 3), and it is an entry of that cluster's table (`Pdf417Patterns`, frozen snapshot);
    3. row indicators: each carries 30·(row div 3) plus, depending on the cluster, (rows-1) div 3,
       3·level + (rows-1) mod 3, or cols-1; the declared rows / cols must be the picture's, level ≤ 8;
    4. codeword sequence: symbol length descriptor = rows·cols − 2^(level+1); the whole sequence is a
       Reed–Solomon codeword over GF(929) with roots 3^1 … 3^k (`RS.valid929`);
    5. trailing 900s of the data region are padding; the rest is decoded by the compaction-mode automaton
       (Text with its four sub-modes, Byte 901/924, Numeric 902, Byte shift 913).

  Deviation that is recorded rather than rejected: ISO allows 3..90 rows; the decoder accepts 2..90 (two
  rows are the minimum that still declares all of rows, cols and level) and reports `rows`, so that a
  property can add `3 ≤ rows` if it wants to.
-/
import BV.Base
import BV.Spec.RS
import BV.Spec.Pdf417Patterns
namespace BV.Spec.Pdf417
open BV

structure Info where
  rows : Nat
  cols : Nat
  level : Nat
  /-- the symbol length descriptor: data codewords including itself and the padding -/
  dataCodewords : Nat
  padCount : Nat
  ecCount : Nat
  content : Bytes
  deriving Repr

/-! ### patterns -/

/-- modules of a bar/space width sequence starting with a bar -/
def expand (widths : List Nat) : List Bool :=
  let rec go (ws : List Nat) (bar : Bool) : List Bool :=
    match ws with
    | [] => []
    | w :: rest => List.replicate w bar ++ go rest (!bar)
  go widths true

def startPattern : List Bool := expand [8, 1, 1, 1, 1, 1, 1, 3]
def stopPattern : List Bool := expand [7, 1, 1, 3, 1, 1, 1, 2, 1]

/-- run lengths of a module sequence -/
def runLengths : List Bool → List Nat
  | [] => []
  | b :: rest =>
    let rec go (l : List Bool) (cur : Bool) (n : Nat) : List Nat :=
      match l with
      | [] => [n]
      | x :: xs => if x == cur then go xs cur (n + 1) else n :: go xs x 1
    go rest b 1

/-- eight widths as the eight-digit number of ISO Annex A -/
def widthsNumber (ws : List Nat) : Nat := ws.foldl (fun a w => 10 * a + w) 0

/-- cluster number K = (b1 − b2 + b3 − b4 + 9) mod 9 of a width sequence b1 s1 b2 s2 b3 s3 b4 s4 -/
def clusterNumber (ws : List Nat) : Nat :=
  match ws with
  | [b1, _, b2, _, b3, _, b4, _] => (b1 + b3 + 18 - (b2 + b4)) % 9
  | _ => 9

/-- the eight widths of a table entry (decimal digits of the eight-digit number) -/
def entryWidths (n : Nat) : List Nat := (Nat.toDigits 10 n).map (fun c => c.toNat - 48)

/-- a table entry as the 17-bit module value, first module most significant (the form in which most
    implementations store the tables; used to state that a table equals the snapshot) -/
def entryModules (n : Nat) : Nat := bitsToNat (expand (entryWidths n))

def clusterTables : Array (Array Nat) := #[cluster0.toArray, cluster3.toArray, cluster6.toArray]

/-- structural properties ISO demands of the symbol-character tables; independent of the pinned source -/
def tableWellFormed (k : Nat) (t : List Nat) : Bool :=
  t.length == 929 &&
  t.all (fun n =>
    let ws := entryWidths n
    ws.length == 8 && ws.all (fun w => 1 ≤ w && w ≤ 6) && ws.foldl (· + ·) 0 == 17 && clusterNumber ws == k) &&
  (let sorted := (t.toArray.qsort (· < ·)).toList
   (sorted.zip (sorted.drop 1)).all (fun p => p.1 != p.2))

def patternsWellFormed : Bool :=
  tableWellFormed 0 cluster0 && tableWellFormed 3 cluster3 && tableWellFormed 6 cluster6

/-- value of the 17-module symbol character `seg` in a row using cluster index `ci` (= row mod 3) -/
def symbolValue (ci : Nat) (seg : List Bool) : Except String Nat := do
  if seg.length != 17 then throw "symbol character: not 17 modules"
  if seg.head? != some true then throw "symbol character: does not start with a bar"
  let ws := runLengths seg
  if ws.length != 8 then throw "symbol character: not 4 bars and 4 spaces"
  if !ws.all (fun w => 1 ≤ w && w ≤ 6) then throw "symbol character: element wider than 6"
  if clusterNumber ws != 3 * ci then throw "symbol character: wrong cluster for this row"
  match (clusterTables.getD ci #[]).idxOf? (widthsNumber ws) with
  | some i => pure i
  | none => throw "symbol character: not in the cluster table"

/-- one row: start, cols + 2 symbol characters (left indicator, data, right indicator), stop -/
def decodeRow (cols r : Nat) (m : List Bool) : Except String (List Nat) := do
  if m.take 17 != startPattern then throw s!"row {r}: start pattern"
  if m.drop (17 * (cols + 3)) != stopPattern then throw s!"row {r}: stop pattern"
  (List.range (cols + 2)).mapM (fun k => symbolValue (r % 3) ((m.drop (17 * (k + 1))).take 17))

/-! ### row indicators -/

/-- the three quantities a row indicator can carry -/
def indRows (rows : Nat) : Nat := (rows - 1) / 3
def indLevel (rows level : Nat) : Nat := 3 * level + (rows - 1) % 3
def indCols (cols : Nat) : Nat := cols - 1

def leftIndicator (r rows cols level : Nat) : Nat :=
  30 * (r / 3) + (match r % 3 with
    | 0 => indRows rows
    | 1 => indLevel rows level
    | _ => indCols cols)

def rightIndicator (r rows cols level : Nat) : Nat :=
  30 * (r / 3) + (match r % 3 with
    | 0 => indCols cols
    | 1 => indRows rows
    | _ => indLevel rows level)

/-! ### compaction modes -/

inductive Sub | alpha | lower | mixed | punct
  deriving DecidableEq, Repr

inductive Shift | none | ps | as
  deriving DecidableEq, Repr

/-- Mixed sub-mode values 0..24 -/
def mixedChars : List Nat := "0123456789&\r\t,:#-.$/+%*=^".toList.map Char.toNat
/-- Punctuation sub-mode values 0..28 -/
def punctChars : List Nat := ";<>@[\\]_`~!\r\t,:\n-.$/\"|*()?{}'".toList.map Char.toNat

/-- effect of one Text value (0..29): new sub-mode, pending shift, emitted character -/
def textValue (sub : Sub) (sh : Shift) (v : Nat) : Except String (Sub × Shift × Option Nat) :=
  match sh with
  | .ps =>
    if v < 29 then pure (sub, .none, some (punctChars.getD v 0))
    else throw "text: ps followed by a non-character"
  | .as =>
    if v < 26 then pure (sub, .none, some (65 + v))
    else if v == 26 then pure (sub, .none, some 32)
    else throw "text: as followed by a non-character"
  | .none =>
    match sub with
    | .alpha =>
      if v < 26 then pure (sub, .none, some (65 + v))
      else if v == 26 then pure (sub, .none, some 32)
      else if v == 27 then pure (.lower, .none, none)        -- ll
      else if v == 28 then pure (.mixed, .none, none)        -- ml
      else pure (sub, .ps, none)                             -- ps
    | .lower =>
      if v < 26 then pure (sub, .none, some (97 + v))
      else if v == 26 then pure (sub, .none, some 32)
      else if v == 27 then pure (sub, .as, none)             -- as
      else if v == 28 then pure (.mixed, .none, none)        -- ml
      else pure (sub, .ps, none)                             -- ps
    | .mixed =>
      if v < 25 then pure (sub, .none, some (mixedChars.getD v 0))
      else if v == 25 then pure (.punct, .none, none)        -- pl
      else if v == 26 then pure (sub, .none, some 32)
      else if v == 27 then pure (.lower, .none, none)        -- ll
      else if v == 28 then pure (.alpha, .none, none)        -- al
      else pure (sub, .ps, none)                             -- ps
    | .punct =>
      if v < 29 then pure (sub, .none, some (punctChars.getD v 0))
      else pure (.alpha, .none, none)                        -- al

inductive Mode
  | text (sub : Sub) (sh : Shift)
  /-- after 913: the next codeword is one byte, then Text continues in `sub` -/
  | byteShift (sub : Sub)
  /-- after 901 (`exact = false`) or 924 (`exact = true`); collected codewords in reverse -/
  | byte (exact : Bool) (rev : List Nat)
  /-- after 902; collected codewords in reverse -/
  | numeric (rev : List Nat)

def pushOpt (out : Array UInt8) (c : Option Nat) : Array UInt8 :=
  match c with
  | some x => out.push (UInt8.ofNat x)
  | none => out

/-- five codewords → six bytes (base 900 → base 256) -/
def sixBytes (g : List Nat) : Except String (List UInt8) :=
  let t := g.foldl (fun a c => 900 * a + c) 0
  if t ≥ 256 ^ 6 then throw "byte: group value exceeds six bytes"
  else pure ((List.range 6).map (fun i => UInt8.ofNat (t / 256 ^ (5 - i) % 256)))

/-- `n` groups of five codewords, then single-byte codewords -/
def byteGroups : Nat → List Nat → Except String (List UInt8)
  | 0, rest =>
    if rest.all (· < 256) then pure (rest.map UInt8.ofNat) else throw "byte: single codeword above 255"
  | n + 1, l => do
    let a ← sixBytes (l.take 5)
    let b ← byteGroups n (l.drop 5)
    pure (a ++ b)

/-- Byte compaction.  924: the codewords are groups of five (6 bytes each), nothing else.
    901: groups of five are decoded as long as at least six codewords remain; the remaining 1..5 codewords
    are one byte each (so the byte count is not a multiple of six). -/
def flushByte (exact : Bool) (cws : List Nat) : Except String (List UInt8) :=
  let len := cws.length
  if exact then
    if len % 5 != 0 then throw "byte: 924 segment is not a multiple of five codewords"
    else byteGroups (len / 5) cws
  else
    byteGroups (if len % 5 == 0 then len / 5 - 1 else len / 5) cws

/-- one Numeric group of at most 15 codewords: base-900 value, decimal "1ddd…"; `n` digits take
    n div 3 + 1 codewords, a group that is not the last one carries exactly 44 digits -/
def numericGroup (g : List Nat) (last : Bool) : Except String (List UInt8) :=
  let t := g.foldl (fun a c => 900 * a + c) 0
  match Nat.toDigits 10 t with
  | '1' :: ds =>
    if g.length != ds.length / 3 + 1 then throw "numeric: group length does not match digit count"
    else if !last && ds.length != 44 then throw "numeric: inner group without 44 digits"
    else pure (ds.map (fun c => UInt8.ofNat c.toNat))
  | _ => throw "numeric: group value has no leading 1"

/-- Numeric compaction: groups of 15 codewords. Fuel: number of codewords. -/
def flushNumeric : Nat → List Nat → Except String (List UInt8)
  | 0, _ => pure []
  | fuel + 1, cws =>
    if cws.isEmpty then pure []
    else do
      let rest := cws.drop 15
      let a ← numericGroup (cws.take 15) rest.isEmpty
      let b ← flushNumeric fuel rest
      pure (a ++ b)

/-- close the running Byte / Numeric segment -/
def flush (m : Mode) (out : Array UInt8) : Except String (Array UInt8) :=
  match m with
  | .text _ _ => pure out          -- a pending ps / as at the end of a Text run is padding
  | .byteShift _ => throw "913 without a byte"
  | .byte exact rev => do pure (out ++ (← flushByte exact rev.reverse).toArray)
  | .numeric rev => do pure (out ++ (← flushNumeric rev.length rev.reverse).toArray)

/-- a mode latch codeword (≥ 900) seen in mode `m` -/
def latch (m : Mode) (c : Nat) : Except String Mode :=
  if c == 900 then pure (.text .alpha .none)
  else if c == 901 then pure (.byte false [])
  else if c == 924 then pure (.byte true [])
  else if c == 902 then pure (.numeric [])
  else if c == 913 then
    match m with
    | .text sub _ => pure (.byteShift sub)     -- sub-mode is preserved, a pending shift was padding
    | _ => throw "913 outside Text compaction"
  else throw s!"unsupported function codeword {c}"

def step (st : Mode × Array UInt8) (c : Nat) : Except String (Mode × Array UInt8) :=
  let (m, out) := st
  if c ≥ 929 then throw "codeword above 928"
  else match m with
  | .byteShift sub =>
    if c < 256 then pure (.text sub .none, out.push (UInt8.ofNat c)) else throw "913: byte above 255"
  | .text sub sh =>
    if c < 900 then do
      let (sub, sh, ch) ← textValue sub sh (c / 30)
      let out := pushOpt out ch
      let (sub, sh, ch) ← textValue sub sh (c % 30)
      pure (.text sub sh, pushOpt out ch)
    else do pure (← latch m c, out)
  | .byte exact rev =>
    if c < 900 then pure (.byte exact (c :: rev), out)
    else do pure (← latch m c, ← flush m out)
  | .numeric rev =>
    if c < 900 then pure (.numeric (c :: rev), out)
    else do pure (← latch m c, ← flush m out)

/-- decode the data codewords (without length descriptor and padding); initial mode Text / Alpha -/
def decodeData (cws : List Nat) : Except String Bytes := do
  let (m, out) ← cws.foldlM step (Mode.text .alpha .none, #[])
  pure (← flush m out).toList

/-- number of trailing pad codewords (900) -/
def trailingPads (cws : List Nat) : Nat := (cws.reverse.takeWhile (· == 900)).length

/-! ### the decoder -/

def decode (w h : Nat) (dark : Nat → Nat → Bool) : Except String Info := do
  if h % 2 != 0 then throw "height is not a multiple of the row height 2"
  let rows := h / 2
  if w < 17 * 5 + 1 || (w - 1) % 17 != 0 then throw "width is not 17*(cols+4)+1"
  let cols := (w - 1) / 17 - 4
  if cols > 30 then throw "more than 30 columns"
  if rows < 2 || rows > 90 then throw "row count outside 2..90"
  -- rows
  let vals ← (List.range rows).mapM (fun r => do
    let top := (List.range w).map (fun x => dark x (2 * r))
    let bottom := (List.range w).map (fun x => dark x (2 * r + 1))
    if top != bottom then throw s!"row {r}: the two pixel lines differ"
    decodeRow cols r top)
  -- what the symbol declares: row 0 (cluster 0) and row 1 (cluster 3)
  let row0 := vals.getD 0 []
  let row1 := vals.getD 1 []
  let a := row0.headD 0 % 30
  let c := row0.getLastD 0 % 30
  let b := row1.headD 0 % 30
  let level := b / 3
  let declRows := 3 * a + b % 3 + 1
  let declCols := c + 1
  if level > 8 then throw "declared security level above 8"
  if declRows != rows then throw s!"declared row count {declRows} differs from the picture's {rows}"
  if declCols != cols then throw s!"declared column count {declCols} differs from the picture's {cols}"
  -- every indicator of every row
  ((List.range rows).zip vals).forM (fun (r, row) => do
    if row.headD 0 != leftIndicator r rows cols level then throw s!"row {r}: left row indicator"
    if row.getLastD 0 != rightIndicator r rows cols level then throw s!"row {r}: right row indicator")
  -- codewords
  let cws := vals.flatMap (fun row => (row.drop 1).dropLast)
  let k := 2 ^ (level + 1)
  if cws.length ≤ k then throw "no room for data codewords"
  let sld := cws.headD 0
  if sld != cws.length - k then throw s!"symbol length descriptor {sld} is not rows*cols-k = {cws.length - k}"
  if !RS.valid929 k cws then throw "Reed-Solomon check failed"
  let data := (cws.take sld).drop 1
  let pads := trailingPads data
  let content ← decodeData (data.take (data.length - pads))
  pure { rows := rows, cols := cols, level := level, dataCodewords := sld, padCount := pads,
         ecCount := k, content := content }

end BV.Spec.Pdf417
