/-
  BV.Spec.Qr — reference decoder for QR Code 2005 symbols, written from ISO/IEC 18004 (not from the Go
  code; imports neither BV.Gen nor BV.Model).

  `decode w h dark` succeeds only if the picture is a structurally valid symbol:
    * square, side 17+4v for a version v in 1..40;
    * three finder patterns with their separators, both timing patterns, every alignment pattern of Annex E,
      the dark module;
    * both copies of the format information are, after removing the mask 101010000010010, words of the
      BCH(15,5) code with generator x^10+x^8+x^5+x^4+x^2+x+1 (0x537) and they agree;
    * for v ≥ 7 both copies of the version information are the BCH(18,6) word (generator 0x1F25) of v;
    * after releasing the data mask, the remainder bits are zero, and every block of the de-interleaved
      codeword stream is a Reed–Solomon codeword over GF(2^8)/0x11D with roots α^0 … α^(k-1);
    * the data bit stream consists of numeric / alphanumeric / byte segments, a terminator (0000, shortened
      only when the capacity is reached), zero bits up to the codeword boundary and the pad codewords
      11101100 / 00010001 alternately.
  Coordinates: `dark x y` with x = column, y = row, (0,0) = top-left.  In the mask conditions of the standard
  i is the row and j the column.
-/
import BV.Base
import BV.Spec.RS
namespace BV.Spec.Qr
open BV

structure Info where
  version : Nat
  /-- 0 = L, 1 = M, 2 = Q, 3 = H -/
  level : Nat
  mask : Nat
  /-- mode indicators of the segments in order (1 numeric, 2 alphanumeric, 4 byte) -/
  modes : List Nat
  numBlocks : Nat
  ecPerBlock : Nat
  dataCodewords : Nat
  totalCodewords : Nat
  remainderBits : Nat
  terminatorBits : Nat
  padCodewords : Nat
  content : Bytes
  deriving Repr

/-! ### tables of the standard -/

/-- Table 9 (error correction characteristics): version ↦ for each level the number of error correction
    codewords per block and the groups (number of blocks, data codewords per block), shorter blocks first. -/
def blockTable : List (Nat × List (Char × Nat × List (Nat × Nat))) := [
  (1, [('L', 7, [(1, 19)]), ('M', 10, [(1, 16)]), ('Q', 13, [(1, 13)]), ('H', 17, [(1, 9)])]),
  (2, [('L', 10, [(1, 34)]), ('M', 16, [(1, 28)]), ('Q', 22, [(1, 22)]), ('H', 28, [(1, 16)])]),
  (3, [('L', 15, [(1, 55)]), ('M', 26, [(1, 44)]), ('Q', 18, [(2, 17)]), ('H', 22, [(2, 13)])]),
  (4, [('L', 20, [(1, 80)]), ('M', 18, [(2, 32)]), ('Q', 26, [(2, 24)]), ('H', 16, [(4, 9)])]),
  (5, [('L', 26, [(1, 108)]), ('M', 24, [(2, 43)]), ('Q', 18, [(2, 15), (2, 16)]), ('H', 22, [(2, 11), (2, 12)])]),
  (6, [('L', 18, [(2, 68)]), ('M', 16, [(4, 27)]), ('Q', 24, [(4, 19)]), ('H', 28, [(4, 15)])]),
  (7, [('L', 20, [(2, 78)]), ('M', 18, [(4, 31)]), ('Q', 18, [(2, 14), (4, 15)]), ('H', 26, [(4, 13), (1, 14)])]),
  (8, [('L', 24, [(2, 97)]), ('M', 22, [(2, 38), (2, 39)]), ('Q', 22, [(4, 18), (2, 19)]), ('H', 26, [(4, 14), (2, 15)])]),
  (9, [('L', 30, [(2, 116)]), ('M', 22, [(3, 36), (2, 37)]), ('Q', 20, [(4, 16), (4, 17)]), ('H', 24, [(4, 12), (4, 13)])]),
  (10, [('L', 18, [(2, 68), (2, 69)]), ('M', 26, [(4, 43), (1, 44)]), ('Q', 24, [(6, 19), (2, 20)]), ('H', 28, [(6, 15), (2, 16)])]),
  (11, [('L', 20, [(4, 81)]), ('M', 30, [(1, 50), (4, 51)]), ('Q', 28, [(4, 22), (4, 23)]), ('H', 24, [(3, 12), (8, 13)])]),
  (12, [('L', 24, [(2, 92), (2, 93)]), ('M', 22, [(6, 36), (2, 37)]), ('Q', 26, [(4, 20), (6, 21)]), ('H', 28, [(7, 14), (4, 15)])]),
  (13, [('L', 26, [(4, 107)]), ('M', 22, [(8, 37), (1, 38)]), ('Q', 24, [(8, 20), (4, 21)]), ('H', 22, [(12, 11), (4, 12)])]),
  (14, [('L', 30, [(3, 115), (1, 116)]), ('M', 24, [(4, 40), (5, 41)]), ('Q', 20, [(11, 16), (5, 17)]), ('H', 24, [(11, 12), (5, 13)])]),
  (15, [('L', 22, [(5, 87), (1, 88)]), ('M', 24, [(5, 41), (5, 42)]), ('Q', 30, [(5, 24), (7, 25)]), ('H', 24, [(11, 12), (7, 13)])]),
  (16, [('L', 24, [(5, 98), (1, 99)]), ('M', 28, [(7, 45), (3, 46)]), ('Q', 24, [(15, 19), (2, 20)]), ('H', 30, [(3, 15), (13, 16)])]),
  (17, [('L', 28, [(1, 107), (5, 108)]), ('M', 28, [(10, 46), (1, 47)]), ('Q', 28, [(1, 22), (15, 23)]), ('H', 28, [(2, 14), (17, 15)])]),
  (18, [('L', 30, [(5, 120), (1, 121)]), ('M', 26, [(9, 43), (4, 44)]), ('Q', 28, [(17, 22), (1, 23)]), ('H', 28, [(2, 14), (19, 15)])]),
  (19, [('L', 28, [(3, 113), (4, 114)]), ('M', 26, [(3, 44), (11, 45)]), ('Q', 26, [(17, 21), (4, 22)]), ('H', 26, [(9, 13), (16, 14)])]),
  (20, [('L', 28, [(3, 107), (5, 108)]), ('M', 26, [(3, 41), (13, 42)]), ('Q', 30, [(15, 24), (5, 25)]), ('H', 28, [(15, 15), (10, 16)])]),
  (21, [('L', 28, [(4, 116), (4, 117)]), ('M', 26, [(17, 42)]), ('Q', 28, [(17, 22), (6, 23)]), ('H', 30, [(19, 16), (6, 17)])]),
  (22, [('L', 28, [(2, 111), (7, 112)]), ('M', 28, [(17, 46)]), ('Q', 30, [(7, 24), (16, 25)]), ('H', 24, [(34, 13)])]),
  (23, [('L', 30, [(4, 121), (5, 122)]), ('M', 28, [(4, 47), (14, 48)]), ('Q', 30, [(11, 24), (14, 25)]), ('H', 30, [(16, 15), (14, 16)])]),
  (24, [('L', 30, [(6, 117), (4, 118)]), ('M', 28, [(6, 45), (14, 46)]), ('Q', 30, [(11, 24), (16, 25)]), ('H', 30, [(30, 16), (2, 17)])]),
  (25, [('L', 26, [(8, 106), (4, 107)]), ('M', 28, [(8, 47), (13, 48)]), ('Q', 30, [(7, 24), (22, 25)]), ('H', 30, [(22, 15), (13, 16)])]),
  (26, [('L', 28, [(10, 114), (2, 115)]), ('M', 28, [(19, 46), (4, 47)]), ('Q', 28, [(28, 22), (6, 23)]), ('H', 30, [(33, 16), (4, 17)])]),
  (27, [('L', 30, [(8, 122), (4, 123)]), ('M', 28, [(22, 45), (3, 46)]), ('Q', 30, [(8, 23), (26, 24)]), ('H', 30, [(12, 15), (28, 16)])]),
  (28, [('L', 30, [(3, 117), (10, 118)]), ('M', 28, [(3, 45), (23, 46)]), ('Q', 30, [(4, 24), (31, 25)]), ('H', 30, [(11, 15), (31, 16)])]),
  (29, [('L', 30, [(7, 116), (7, 117)]), ('M', 28, [(21, 45), (7, 46)]), ('Q', 30, [(1, 23), (37, 24)]), ('H', 30, [(19, 15), (26, 16)])]),
  (30, [('L', 30, [(5, 115), (10, 116)]), ('M', 28, [(19, 47), (10, 48)]), ('Q', 30, [(15, 24), (25, 25)]), ('H', 30, [(23, 15), (25, 16)])]),
  (31, [('L', 30, [(13, 115), (3, 116)]), ('M', 28, [(2, 46), (29, 47)]), ('Q', 30, [(42, 24), (1, 25)]), ('H', 30, [(23, 15), (28, 16)])]),
  (32, [('L', 30, [(17, 115)]), ('M', 28, [(10, 46), (23, 47)]), ('Q', 30, [(10, 24), (35, 25)]), ('H', 30, [(19, 15), (35, 16)])]),
  (33, [('L', 30, [(17, 115), (1, 116)]), ('M', 28, [(14, 46), (21, 47)]), ('Q', 30, [(29, 24), (19, 25)]), ('H', 30, [(11, 15), (46, 16)])]),
  (34, [('L', 30, [(13, 115), (6, 116)]), ('M', 28, [(14, 46), (23, 47)]), ('Q', 30, [(44, 24), (7, 25)]), ('H', 30, [(59, 16), (1, 17)])]),
  (35, [('L', 30, [(12, 121), (7, 122)]), ('M', 28, [(12, 47), (26, 48)]), ('Q', 30, [(39, 24), (14, 25)]), ('H', 30, [(22, 15), (41, 16)])]),
  (36, [('L', 30, [(6, 121), (14, 122)]), ('M', 28, [(6, 47), (34, 48)]), ('Q', 30, [(46, 24), (10, 25)]), ('H', 30, [(2, 15), (64, 16)])]),
  (37, [('L', 30, [(17, 122), (4, 123)]), ('M', 28, [(29, 46), (14, 47)]), ('Q', 30, [(49, 24), (10, 25)]), ('H', 30, [(24, 15), (46, 16)])]),
  (38, [('L', 30, [(4, 122), (18, 123)]), ('M', 28, [(13, 46), (32, 47)]), ('Q', 30, [(48, 24), (14, 25)]), ('H', 30, [(42, 15), (32, 16)])]),
  (39, [('L', 30, [(20, 117), (4, 118)]), ('M', 28, [(40, 47), (7, 48)]), ('Q', 30, [(43, 24), (22, 25)]), ('H', 30, [(10, 15), (67, 16)])]),
  (40, [('L', 30, [(19, 118), (6, 119)]), ('M', 28, [(18, 47), (31, 48)]), ('Q', 30, [(34, 24), (34, 25)]), ('H', 30, [(20, 15), (61, 16)])])]

/-- Annex E: row/column coordinates of the centre modules of the alignment patterns -/
def alignmentCentres : List (Nat × List Nat) := [
  (1, []),
  (2, [6, 18]),
  (3, [6, 22]),
  (4, [6, 26]),
  (5, [6, 30]),
  (6, [6, 34]),
  (7, [6, 22, 38]),
  (8, [6, 24, 42]),
  (9, [6, 26, 46]),
  (10, [6, 28, 50]),
  (11, [6, 30, 54]),
  (12, [6, 32, 58]),
  (13, [6, 34, 62]),
  (14, [6, 26, 46, 66]),
  (15, [6, 26, 48, 70]),
  (16, [6, 26, 50, 74]),
  (17, [6, 30, 54, 78]),
  (18, [6, 30, 56, 82]),
  (19, [6, 30, 58, 86]),
  (20, [6, 34, 62, 90]),
  (21, [6, 28, 50, 72, 94]),
  (22, [6, 26, 50, 74, 98]),
  (23, [6, 30, 54, 78, 102]),
  (24, [6, 28, 54, 80, 106]),
  (25, [6, 32, 58, 84, 110]),
  (26, [6, 30, 58, 86, 114]),
  (27, [6, 34, 62, 90, 118]),
  (28, [6, 26, 50, 74, 98, 122]),
  (29, [6, 30, 54, 78, 102, 126]),
  (30, [6, 26, 52, 78, 104, 130]),
  (31, [6, 30, 56, 82, 108, 134]),
  (32, [6, 34, 60, 86, 112, 138]),
  (33, [6, 30, 58, 86, 114, 142]),
  (34, [6, 34, 62, 90, 118, 146]),
  (35, [6, 30, 54, 78, 102, 126, 150]),
  (36, [6, 24, 50, 76, 102, 128, 154]),
  (37, [6, 28, 54, 80, 106, 132, 158]),
  (38, [6, 32, 58, 84, 110, 136, 162]),
  (39, [6, 26, 54, 82, 110, 138, 166]),
  (40, [6, 30, 58, 86, 114, 142, 170])]

/-- the alphanumeric character set, value = index -/
def alnumChars : Bytes := strBytes "0123456789ABCDEFGHIJKLMNOPQRSTUVWXYZ $%*+-./:"

/-- bits of the character count indicator (Table 3); version classes 1–9, 10–26, 27–40 -/
def countBits (version mode : Nat) : Nat :=
  let cls := if version ≤ 9 then 0 else if version ≤ 26 then 1 else 2
  match mode, cls with
  | 1, 0 => 10 | 1, 1 => 12 | 1, _ => 14
  | 2, 0 => 9 | 2, 1 => 11 | 2, _ => 13
  | 4, 0 => 8 | 4, _ => 16
  | _, _ => 0

/-- data mask conditions (Table 10), i = row, j = column -/
def maskCond (m i j : Nat) : Bool :=
  match m with
  | 0 => (i + j) % 2 == 0
  | 1 => i % 2 == 0
  | 2 => j % 3 == 0
  | 3 => (i + j) % 3 == 0
  | 4 => (i / 2 + j / 3) % 2 == 0
  | 5 => (i * j) % 2 + (i * j) % 3 == 0
  | 6 => ((i * j) % 2 + (i * j) % 3) % 2 == 0
  | 7 => ((i + j) % 2 + (i * j) % 3) % 2 == 0
  | _ => false

/-! ### BCH codes of the format and version information -/

/-- remainder of the GF(2) polynomial with coefficient bits `v` modulo `gen` (degree `deg`);
    `k` = number of coefficient positions above `deg` that may be set -/
def gf2mod (gen deg : Nat) : Nat → Nat → Nat
  | 0, v => v
  | k + 1, v => gf2mod gen deg k (if v.testBit (deg + k) then v ^^^ (gen <<< k) else v)

def formatGen : Nat := 0x537      -- x^10+x^8+x^5+x^4+x^2+x+1
def formatMaskPattern : Nat := 0x5412  -- 101010000010010
def versionGen : Nat := 0x1F25    -- x^12+x^11+x^10+x^9+x^8+x^5+x^2+1

def formatWordValid (w : Nat) : Bool := w < 2 ^ 15 && gf2mod formatGen 10 5 w == 0
def versionWordValid (w : Nat) : Bool := w < 2 ^ 18 && gf2mod versionGen 12 6 w == 0

/-- position of format bit `i` (0 = least significant) in the copy around the top-left finder (Figure 25) -/
def formatPosA (i : Nat) : Nat × Nat :=
  if i ≤ 5 then (8, i) else if i == 6 then (8, 7) else if i == 7 then (8, 8) else if i == 8 then (7, 8)
  else (14 - i, 8)

/-- … and in the copy split between the top-right and bottom-left finders -/
def formatPosB (dim i : Nat) : Nat × Nat :=
  if i ≤ 7 then (dim - 1 - i, 8) else (8, dim - 15 + i)

/-- position of version bit `i` (0 = least significant) in the top-right 3×6 block and in the bottom-left
    6×3 block (Figure 26 / 27) -/
def versionPosA (dim i : Nat) : Nat × Nat := (dim - 11 + i % 3, i / 3)
def versionPosB (dim i : Nat) : Nat × Nat := (i / 3, dim - 11 + i % 3)

def readWord (dark : Nat → Nat → Bool) (pos : Nat → Nat × Nat) (n : Nat) : Nat :=
  (List.range n).foldl (fun acc i => let p := pos i; if dark p.1 p.2 then acc + 2 ^ i else acc) 0

/-! ### function patterns -/

def check (b : Bool) (msg : String) : Except String Unit := if b then .ok () else .error msg

/-- the module of a finder pattern with separator at offset (dx, dy) ∈ [-1, 7]² from its top-left corner:
    dark 7×7 ring, light 5×5 ring, dark 3×3 core; the separator is light -/
def finderModule (dx dy : Int) : Bool :=
  let inside := 0 ≤ dx && dx ≤ 6 && 0 ≤ dy && dy ≤ 6
  let cheb := max (dx - 3).natAbs (dy - 3).natAbs     -- distance from the centre
  inside && cheb != 2

def checkFinder (dim : Nat) (dark : Nat → Nat → Bool) (ox oy : Nat) : Bool :=
  (List.range 9).all (fun a => (List.range 9).all (fun b =>
    let dx : Int := (a : Int) - 1
    let dy : Int := (b : Int) - 1
    let x : Int := (ox : Int) + dx
    let y : Int := (oy : Int) + dy
    if 0 ≤ x && x < (dim : Int) && 0 ≤ y && y < (dim : Int) then
      dark x.toNat y.toNat == finderModule dx dy
    else true))

/-- 5×5 alignment pattern centred at (cx, cy): dark except the ring at distance 1 -/
def checkAlignment (dark : Nat → Nat → Bool) (cx cy : Nat) : Bool :=
  (List.range 5).all (fun a => (List.range 5).all (fun b =>
    let d := max ((a : Int) - 2).natAbs ((b : Int) - 2).natAbs
    dark (cx + a - 2) (cy + b - 2) == (d != 1)))

/-- centres at which an alignment pattern is present: all combinations except the three finder corners -/
def alignmentPositions (cs : List Nat) : List (Nat × Nat) :=
  let last := cs.getLastD 0
  (cs.flatMap (fun cx => cs.map (fun cy => (cx, cy)))).filter (fun p =>
    !((p.1 == 6 && p.2 == 6) || (p.1 == 6 && p.2 == last) || (p.1 == last && p.2 == 6)))

def markRect (dim : Nat) (f : Array Bool) (x0 y0 x1 y1 : Nat) : Array Bool :=
  (List.range (y1 + 1 - y0)).foldl (fun f dy =>
    (List.range (x1 + 1 - x0)).foldl (fun f dx => f.setIfInBounds ((y0 + dy) * dim + (x0 + dx)) true) f) f

/-- map of the function modules (index y*dim+x): finders + separators + format areas, timing patterns,
    alignment patterns, version areas; the dark module lies inside the bottom-left format area -/
def functionMap (dim version : Nat) (aligns : List (Nat × Nat)) : Array Bool :=
  let f := Array.replicate (dim * dim) false
  let f := markRect dim f 0 0 8 8
  let f := markRect dim f (dim - 8) 0 (dim - 1) 8
  let f := markRect dim f 0 (dim - 8) 8 (dim - 1)
  let f := markRect dim f 0 6 (dim - 1) 6
  let f := markRect dim f 6 0 6 (dim - 1)
  let f := aligns.foldl (fun f p => markRect dim f (p.1 - 2) (p.2 - 2) (p.1 + 2) (p.2 + 2)) f
  if version ≥ 7 then
    let f := markRect dim f (dim - 11) 0 (dim - 9) 5
    markRect dim f 0 (dim - 11) 5 (dim - 9)
  else f

/-! ### codeword placement (7.7.3) -/

/-- the data modules in placement order with the data mask released: two-module wide columns from the right,
    alternately upwards and downwards, right module before left, the vertical timing column skipped -/
def readDataBits (dim : Nat) (dark : Nat → Nat → Bool) (func : Array Bool) (mask : Nat) : Array Bool :=
  (List.range ((dim - 1) / 2)).foldl (fun (out : Array Bool) k =>
    let xr := if dim - 1 - 2 * k > 6 then dim - 1 - 2 * k else dim - 2 - 2 * k
    (List.range dim).foldl (fun (out : Array Bool) t =>
      let y := if k % 2 == 0 then dim - 1 - t else t
      let out := if func.getD (y * dim + xr) true then out else out.push (dark xr y != maskCond mask y xr)
      let xl := xr - 1
      if func.getD (y * dim + xl) true then out else out.push (dark xl y != maskCond mask y xl)) out)
    (Array.mkEmpty (dim * dim))

def bitsToNatAt (bits : Array Bool) (p n : Nat) : Nat :=
  (List.range n).foldl (fun acc i => 2 * acc + (if bits.getD (p + i) false then 1 else 0)) 0

/-- de-interleave: data codewords are taken block by block in rotation (blocks that are already full are
    skipped), then the error correction codewords likewise -/
def deinterleave (cw : Array Nat) (lens : List Nat) (ec : Nat) : List (List Nat) :=
  let nb := lens.length
  let maxLen := lens.foldl max 0
  let blocks : Array (Array Nat) := Array.replicate nb #[]
  let lensA := lens.toArray
  let (blocks, k) := (List.range maxLen).foldl (fun (st : Array (Array Nat) × Nat) i =>
    (List.range nb).foldl (fun (st : Array (Array Nat) × Nat) b =>
      if i < lensA.getD b 0 then (st.1.modify b (·.push (cw.getD st.2 0)), st.2 + 1) else st) st) (blocks, 0)
  let (blocks, _) := (List.range ec).foldl (fun (st : Array (Array Nat) × Nat) _ =>
    (List.range nb).foldl (fun (st : Array (Array Nat) × Nat) b =>
      (st.1.modify b (·.push (cw.getD st.2 0)), st.2 + 1)) st) (blocks, k)
  blocks.toList.map (·.toList)

/-! ### the data bit stream (7.4) -/

structure Parsed where
  modes : List Nat
  content : Bytes
  terminatorBits : Nat
  padCodewords : Nat

def digitsOf (v width : Nat) : Bytes :=
  (List.range width).map (fun i => UInt8.ofNat (48 + (v / 10 ^ (width - 1 - i)) % 10))

/-- numeric segment body: groups of 3 digits in 10 bits, a final group of 2 in 7 bits or of 1 in 4 bits -/
def parseNumeric (bits : Array Bool) : Nat → Nat → Nat → Except String (Bytes × Nat)
  | 0, _, p => .ok ([], p)
  | fuel + 1, n, p =>
    if n == 0 then .ok ([], p)
    else
      let (take, width, lim) := if n ≥ 3 then (3, 10, 1000) else if n == 2 then (2, 7, 100) else (1, 4, 10)
      if p + width > bits.size then .error "numeric segment exceeds the data capacity"
      else
        let v := bitsToNatAt bits p width
        if v ≥ lim then .error "numeric group out of range"
        else do
          let (rest, p') ← parseNumeric bits fuel (n - take) (p + width)
          pure (digitsOf v take ++ rest, p')

/-- alphanumeric segment body: pairs in 11 bits (45·c1 + c2), a final single character in 6 bits -/
def parseAlnum (bits : Array Bool) : Nat → Nat → Nat → Except String (Bytes × Nat)
  | 0, _, p => .ok ([], p)
  | fuel + 1, n, p =>
    if n == 0 then .ok ([], p)
    else if n ≥ 2 then
      if p + 11 > bits.size then .error "alphanumeric segment exceeds the data capacity"
      else
        let v := bitsToNatAt bits p 11
        if v ≥ 45 * 45 then .error "alphanumeric pair out of range"
        else do
          let (rest, p') ← parseAlnum bits fuel (n - 2) (p + 11)
          pure (alnumChars.getD (v / 45) 0 :: alnumChars.getD (v % 45) 0 :: rest, p')
    else
      if p + 6 > bits.size then .error "alphanumeric segment exceeds the data capacity"
      else
        let v := bitsToNatAt bits p 6
        if v ≥ 45 then .error "alphanumeric character out of range"
        else .ok ([alnumChars.getD v 0], p + 6)

def parseBytes (bits : Array Bool) (n p : Nat) : Except String (Bytes × Nat) :=
  if p + 8 * n > bits.size then .error "byte segment exceeds the data capacity"
  else .ok ((List.range n).map (fun i => UInt8.ofNat (bitsToNatAt bits (p + 8 * i) 8)), p + 8 * n)

/-- after the last segment: terminator, bit padding, pad codewords -/
def parseTail (bits : Array Bool) (p : Nat) : Except String (Nat × Nat) := do
  let remaining := bits.size - p
  let t := min 4 remaining
  check (bitsToNatAt bits p t == 0) "terminator"      -- unreachable when t = 4 (caller saw 0000)
  let p := p + t
  let q := (p + 7) / 8 * 8
  check ((List.range (q - p)).all (fun i => !bits.getD (p + i) false)) "padding bits up to the codeword boundary are not zero"
  let npad := (bits.size - q) / 8
  check ((List.range npad).all (fun i =>
    bitsToNatAt bits (q + 8 * i) 8 == (if i % 2 == 0 then 0xEC else 0x11))) "pad codewords are not 11101100 / 00010001 alternately"
  pure (t, npad)

/-- segments until the terminator.  Fuel: every segment consumes at least 4 bits. -/
def parseSegments (version : Nat) (bits : Array Bool) :
    Nat → Nat → List Nat → List Bytes → Except String Parsed
  | 0, _, _, _ => .error "segment parser ran out of fuel"
  | fuel + 1, p, modes, acc =>
    let finish : Except String Parsed := do
      let (t, npad) ← parseTail bits p
      pure { modes := modes.reverse, content := acc.reverse.flatten, terminatorBits := t, padCodewords := npad }
    if bits.size - p < 4 then finish
    else
      let m := bitsToNatAt bits p 4
      if m == 0 then finish
      else
        let cb := countBits version m
        if cb == 0 then .error s!"unsupported mode indicator {m}"
        else if p + 4 + cb > bits.size then .error "character count indicator exceeds the data capacity"
        else
          let n := bitsToNatAt bits (p + 4) cb
          let body := p + 4 + cb
          match (if m == 1 then parseNumeric bits (n + 1) n body
                 else if m == 2 then parseAlnum bits (n + 1) n body
                 else parseBytes bits n body) with
          | .error e => .error e
          | .ok (seg, p') => parseSegments version bits fuel p' (m :: modes) (seg :: acc)

/-! ### the decoder -/

def levelOfFormatBits (b : Nat) : Nat :=
  match b with
  | 1 => 0   -- 01 = L
  | 0 => 1   -- 00 = M
  | 3 => 2   -- 11 = Q
  | _ => 3   -- 10 = H

def levelChar (l : Nat) : Char := match l with | 0 => 'L' | 1 => 'M' | 2 => 'Q' | _ => 'H'

def decode (w h : Nat) (dark : Nat → Nat → Bool) : Except String Info := do
  check (w == h) "symbol is not square"
  let dim := w
  check (dim ≥ 21 && dim ≤ 177 && (dim - 17) % 4 == 0) "side length is not 17+4v with 1 ≤ v ≤ 40"
  let version := (dim - 17) / 4
  -- finder patterns and separators
  check (checkFinder dim dark 0 0) "finder pattern top-left"
  check (checkFinder dim dark (dim - 7) 0) "finder pattern top-right"
  check (checkFinder dim dark 0 (dim - 7)) "finder pattern bottom-left"
  -- alignment patterns
  let cs ← match alignmentCentres.lookup version with
    | some cs => pure cs
    | none => throw "no alignment row for the version"
  let aligns := alignmentPositions cs
  check (aligns.all (fun p => checkAlignment dark p.1 p.2)) "alignment pattern"
  -- timing patterns
  check ((List.range (dim - 16)).all (fun t =>
    let k := t + 8
    dark k 6 == (k % 2 == 0) && dark 6 k == (k % 2 == 0))) "timing pattern"
  -- dark module
  check (dark 8 (dim - 8)) "dark module"
  -- version information
  if version ≥ 7 then
    let a := readWord dark (versionPosA dim) 18
    let b := readWord dark (versionPosB dim) 18
    check (versionWordValid a && versionWordValid b) "version information is not a BCH(18,6) word"
    check (a == b) "version information copies differ"
    check (a / 2 ^ 12 == version) "version information does not match the size"
  -- format information
  let fa := readWord dark formatPosA 15
  let fb := readWord dark (formatPosB dim) 15
  let ua := fa ^^^ formatMaskPattern
  let ub := fb ^^^ formatMaskPattern
  check (formatWordValid ua && formatWordValid ub) "format information is not a BCH(15,5) word"
  check (ua == ub) "format information copies differ"
  let level := levelOfFormatBits (ua / 2 ^ 13)
  let mask := (ua / 2 ^ 10) % 8
  -- block structure
  let (ec, groups) ← match blockTable.lookup version with
    | none => throw "no block table row"
    | some row =>
      match row.find? (fun e => e.1 == levelChar level) with
      | some e => pure e.2
      | none => throw "no block table entry for the level"
  let lens := groups.flatMap (fun g => List.replicate g.1 g.2)
  let numBlocks := lens.length
  let dataCodewords := lens.foldl (· + ·) 0
  let total := dataCodewords + numBlocks * ec
  -- data modules
  let func := functionMap dim version aligns
  let bits := readDataBits dim dark func mask
  check (bits.size ≥ 8 * total && bits.size < 8 * total + 8) "number of data modules does not match the codeword capacity"
  let rem := bits.size - 8 * total
  check ((List.range rem).all (fun i => !bits.getD (8 * total + i) false)) "remainder bits are not zero"
  let cw : Array Nat := ((List.range total).map (fun i => bitsToNatAt bits (8 * i) 8)).toArray
  let blocks := deinterleave cw lens ec
  check ((blocks.zip lens).all (fun (b, l) => b.length == l + ec)) "block lengths"
  check (blocks.all (fun b => RS.qrField.valid 0 ec b)) "a block is not a Reed-Solomon codeword"
  -- data bit stream
  let dataBits : Array Bool :=
    ((blocks.zip lens).flatMap (fun (b, l) => (b.take l).flatMap (fun c => msbBits c 8))).toArray
  let parsed ← parseSegments version dataBits (dataBits.size / 4 + 2) 0 [] []
  pure { version := version, level := level, mask := mask, modes := parsed.modes, numBlocks := numBlocks,
         ecPerBlock := ec, dataCodewords := dataCodewords, totalCodewords := total, remainderBits := rem,
         terminatorBits := parsed.terminatorBits, padCodewords := parsed.padCodewords,
         content := parsed.content }

/-- result line of the op `spec.qr` -/
def resultLine (r : Except String Info) : String :=
  match r with
  | .ok i =>
    let modes := String.intercalate "," (i.modes.map toString)
    s!"ok content={toHexField i.content} version={i.version} level={i.level} mask={i.mask} modes={if modes.isEmpty then "-" else modes} blocks={i.numBlocks} ecPerBlock={i.ecPerBlock} dataCodewords={i.dataCodewords} totalCodewords={i.totalCodewords} remainderBits={i.remainderBits} terminatorBits={i.terminatorBits} padCodewords={i.padCodewords}"
  | .error e => "fail " ++ e

/-- `decode` on a picture given as `w*h` digits, row-major, `1` = dark -/
def decodeDigits (w h : Nat) (px : String) : String :=
  let bytes := px.toUTF8
  if bytes.size != w * h then "fail picture has not w*h digits"
  else resultLine (decode w h (fun x y => x < w && y < h && bytes.get! (y * w + x) == 49))

end BV.Spec.Qr
